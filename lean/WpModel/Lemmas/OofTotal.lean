/-
Totality facts of the extended model: laid out with `page_is_empty`, a box always yields a fragment
(through placeholders, floats, clearance), hence `make_page`'s `assert root_box` is unreachable and
`float_layout` / `absolute_box_layout` never get `None` from `block_container_layout`.
-/
import WpModel.Lemmas.OofBlock

namespace Wp.PMO
open Wp Wp.PM

theorem finish_some (c : Ctx) (st : OStyle) (b : BoxSt) (bs : Rat)
    (cwc dbd : Bool) (resume : Option Resume) (posY : Rat) (adjL cur : List Rat) (curIsL : Bool)
    (np : NextPage) (hasKids : Bool) (pageEnd : String) (kids : List OFrag) (lb : List Broken) (w : World)
    (mk : Geo → OFrag) :
    (finishContainer c st b true bs cwc dbd resume posY adjL cur curIsL np hasKids pageEnd kids lb w mk).frag.isSome := by
  unfold finishContainer
  simp

theorem breakLine_no_abort (st : PStyle) (n i : Nat) (lines : List (Nat × Rat))
    (skip resume : Option Resume) : (breakLine st n i lines true skip resume).1 = false := by
  unfold breakLine
  simp

theorem lineLoop_no_abort (c : Ctx) (st : PStyle) (b : BoxSt) (n : Nat) (lineH bs : Rat) (shapes : List Shape)
    (fuel i : Nat) (y : Rat) (s : LineLoop) :
    ∀ a stp r s', lineLoop c st b n lineH true bs shapes fuel i y s = .broke a stp r s' → a = false := by
  fun_induction lineLoop c st b n lineH true bs shapes fuel i y s with
  | case1 => intro a stp r s' h; cases h
  | case2 fuel i y0 s y resume newPosY dbd offset overflow hov abort stop r lines' hb =>
    intro a stp r2 s' h
    have := breakLine_no_abort st n i s.lines s.skip resume
    rw [hb] at this
    simp only [LineOutcome.broke.injEq] at h
    rw [← h.1]; exact this
  | case3 fuel i y0 s y resume newPosY dbd offset overflow hov shift newPosY' lineY mt' ih =>
    exact ih

theorem linebox_no_abort (c : Ctx) (st : PStyle) (b : BoxSt) (n : Nat) (lineH : Rat)
    (adj : List Rat) (bs posY : Rat) (skip : Option Resume) (dbd : Bool) (shapes : List Shape) :
    (lineboxLayout c st b n lineH true adj bs posY skip dbd shapes).abort = false := by
  unfold lineboxLayout
  split
  · rfl
  · rename_i a st' r s heq
    unfold lineboxLoop at heq
    exact lineLoop_no_abort c st b n lineH bs shapes _ _ _ _ a st' r s heq

theorem finishPara_some (c : Ctx) (st : OStyle) (p : Prep) (id idx n : Nat) (r : LineResult) (w : World)
    (h : r.abort = false) : (finishPara c st p true id idx n r w).frag.isSome = true := by
  unfold finishPara
  simp only [h, Bool.false_eq_true, ↓reduceIte]
  exact finish_some ..

theorem finishBlock_some (c : Ctx) (st : OStyle) (p : Prep) (id idx : Nat) (out : KidsOutcome)
    (h : ∀ page s, out ≠ .aborted page s) : (finishBlock c st p true id idx out).frag.isSome = true := by
  unfold finishBlock
  split
  · rename_i page s; exact absurd rfl (h page s)
  · exact finish_some ..
  · exact finish_some ..

theorem firstPass_keeps (c : Ctx) (bs posY : Rat) (r : LayoutResult) (h : r.frag.isSome = true) :
    (∃ f y, firstPass c bs true posY r = .keep (some f) y) := by
  unfold firstPass
  cases hf : r.frag with
  | none => simp [hf] at h
  | some f =>
    simp only [Bool.not_true, Bool.false_and, Bool.false_eq_true, ↓reduceIte]
    split
    · exact ⟨f, _, rfl⟩
    · exact ⟨f, _, rfl⟩

/-- Children lists met during a layout: what answers `is_absolutely_positioned()` is a placeholder. -/
def AbsArePh (fs : List OFrag) : Prop := ∀ f ∈ fs, f.isAbs = f.isPh

theorem absArePh_all (fs : List OFrag) (h : AbsArePh fs) : fs.all OFrag.isAbs = fs.all OFrag.isPh := by
  induction fs with
  | nil => rfl
  | cons f fs ih =>
    simp only [List.all_cons]
    rw [h f (by simp), ih (fun g hg => h g (by simp [hg]))]

theorem conclude_not_aborted (index : Nat) (pb : Brk) (child : OBox) (s : KidsLoop)
    (frag : Option OFrag) (resume : Option Resume) (hinv : AbsArePh s.newChildren)
    (h : frag.isSome = true ∨ s.newChildren.all OFrag.isPh = false) :
    ∀ page s' s'', concludeKid index true pb child s frag resume ≠ (some (.aborted page s'), s'') := by
  intro page s' s''
  unfold concludeKid
  cases frag with
  | some f =>
    simp only
    split <;> simp
  | none =>
    simp only [Bool.not_true, Bool.and_false, Bool.false_eq_true, ↓reduceIte]
    have hne : s.newChildren.all OFrag.isPh = false := by
      rcases h with h | h
      · simp at h
      · exact h
    have hall : s.newChildren.all OFrag.isAbs = false := by rw [absArePh_all _ hinv]; exact hne
    have hnil : s.newChildren.isEmpty = false := by
      cases hs : s.newChildren with
      | nil => rw [hs] at hne; simp at hne
      | cons a as => rfl
    split
    · simp
    · simp only [hall, Bool.false_eq_true, ↓reduceIte, hnil, Bool.not_false]
      simp

@[simp] theorem isAbs_translate (f : OFrag) (dy : Rat) : (f.translate dy).isAbs = f.isAbs := by
  cases f <;> simp [OFrag.translate, OFrag.isAbs]
@[simp] theorem isPh_translate (f : OFrag) (dy : Rat) : (f.translate dy).isPh = f.isPh := by
  cases f <;> simp [OFrag.translate, OFrag.isPh]
@[simp] theorem isAbs_withIdx (f : OFrag) (i : Nat) : (f.withIdx i).isAbs = f.isAbs := by
  cases f <;> rfl
@[simp] theorem isPh_withIdx (f : OFrag) (i : Nat) : (f.withIdx i).isPh = f.isPh := by
  cases f <;> rfl
@[simp] theorem isAbs_withSer (f : OFrag) (i : Nat) : (f.withSer i).isAbs = f.isAbs := by
  cases f <;> rfl
@[simp] theorem isPh_withSer (f : OFrag) (i : Nat) : (f.withSer i).isPh = f.isPh := by
  cases f <;> rfl

theorem absArePh_translate (dy : Rat) (fs : List OFrag) (h : AbsArePh fs) : AbsArePh (translateList dy fs) := by
  induction fs with
  | nil => intro f hf; simp [translateList] at hf
  | cons g gs ih =>
    intro f hf
    simp only [translateList, List.mem_cons] at hf
    rcases hf with rfl | hf
    · simpa using h g (by simp)
    · exact ih (fun x hx => h x (by simp [hx])) f hf

theorem absArePh_snoc (fs : List OFrag) (f : OFrag) (h : AbsArePh fs) (hf : f.isAbs = f.isPh) :
    AbsArePh (fs ++ [f]) := by
  intro g hg
  simp only [List.mem_append, List.mem_singleton] at hg
  rcases hg with hg | rfl
  · exact h g hg
  · exact hf

/-- What kind of fragment a layout returns: never a placeholder; absolutely positioned iff the box is. -/
theorem layoutBox_frag_kind (c : Ctx) (box : OBox) (idx : Nat) (y bs : Rat) (skip : Option Resume)
    (cb pie : Bool) (adjL : List Rat) (w : World) (f : OFrag)
    (h : (layoutBox c box idx y bs skip cb pie adjL w).frag = some f) :
    f.isPh = false ∧ f.isAbs = (box.st.pos == .abs) := by
  cases box with
  | para id n lineH st =>
    simp only [layoutBox, seenByCaller_frag] at h
    unfold finishPara at h
    dsimp only at h
    split at h
    · simp [abortResult] at h
    · obtain ⟨⟨g, rfl⟩, _⟩ := finishContainer_frag _ _ _ _ _ _ _ _ _ _ _ _ _ _ _ _ _ _ _ _ h
      exact ⟨rfl, rfl⟩
  | block id st kids =>
    simp only [layoutBox, seenByCaller_frag] at h
    unfold finishBlock at h
    split at h
    · simp [abortResult] at h
    · obtain ⟨⟨g, rfl⟩, _⟩ := finishContainer_frag _ _ _ _ _ _ _ _ _ _ _ _ _ _ _ _ _ _ _ _ h
      exact ⟨rfl, rfl⟩
    · obtain ⟨⟨g, rfl⟩, _⟩ := finishContainer_frag _ _ _ _ _ _ _ _ _ _ _ _ _ _ _ _ _ _ _ _ h
      exact ⟨rfl, rfl⟩

theorem conclude_none_children (index : Nat) (pie : Bool) (pb : Brk) (child : OBox) (s : KidsLoop)
    (frag : Option OFrag) (resume : Option Resume) (s3 : KidsLoop)
    (h : concludeKid index pie pb child s frag resume = (none, s3)) :
    ∃ f, frag = some f ∧ s3.newChildren = s.newChildren ++ [f.withIdx index] := by
  unfold concludeKid at h
  cases frag with
  | none =>
    dsimp only at h
    split at h
    · simp at h
    · split at h
      · simp at h
      · by_cases hall : s.newChildren.all OFrag.isAbs = true
        · simp [hall] at h
        · simp only [hall, Bool.false_eq_true, ↓reduceIte] at h
          by_cases hne : s.newChildren.isEmpty = true
          · simp [hne] at h
          · simp [hne] at h
  | some f =>
    cases resume with
    | some r => simp at h
    | none =>
      simp only [Prod.mk.injEq, true_and] at h
      exact ⟨f, rfl, by rw [← h]⟩

@[simp] theorem isAbs_placeFloat (shapes : List Shape) (f : OFrag) : (placeFloat shapes f).isAbs = f.isAbs := by
  unfold placeFloat
  simp only [isAbs_translate]
  split
  · split <;> simp
  · rfl

@[simp] theorem isPh_placeFloat (shapes : List Shape) (f : OFrag) : (placeFloat shapes f).isPh = f.isPh := by
  unfold placeFloat
  simp only [isPh_translate]
  split
  · split <;> simp
  · rfl

mutual
theorem box_some : (box : OBox) → ∀ (c : Ctx) (idx : Nat) (y bs : Rat) (skip : Option Resume)
    (cb : Bool) (adjL : List Rat) (w : World), (layoutBox c box idx y bs skip cb true adjL w).frag.isSome = true
  | .para id n lineH st => by
    intro c idx y bs skip cb adjL w
    simp only [layoutBox, seenByCaller_frag]
    exact finishPara_some _ _ _ _ _ _ _ _ (linebox_no_abort ..)
  | .block id st kids => by
    intro c idx y bs skip cb adjL w
    simp only [layoutBox, seenByCaller_frag]
    exact finishBlock_some _ _ _ _ _ _
      (fun page s => kids_not_aborted kids _ _ _ _ _ _ _ _ page s (by intro f hf; simp at hf))
theorem kids_not_aborted : (kids : List OBox) → ∀ (c : Ctx) (st : OStyle) (b : BoxSt) (cwc : Bool)
    (index skipIdx : Nat) (bs : Rat) (s : KidsLoop) (page : String) (s' : KidsLoop),
    AbsArePh s.newChildren → layoutKids c st b cwc kids index skipIdx bs true s ≠ .aborted page s'
  | [] => by
    intro c st b cwc index skipIdx bs s page s' _
    simp [layoutKids]
  | child :: rest => by
    intro c st b cwc index skipIdx bs s page s' hinv
    unfold layoutKids
    split
    · exact kids_not_aborted rest _ _ _ _ _ _ _ _ _ _ hinv
    · split
      · -- absolutely positioned child
        apply kids_not_aborted rest
        simp only [placeAbs]
        exact absArePh_snoc _ _ hinv rfl
      · -- floated child: laid out with `page_is_empty`, always a fragment
        rename_i hpos
        dsimp only
        have hsome := box_some child c index
          (floatY s.w.shapes child.st.clear (s.posY + collapseMargin s.cur)) bs none false []
          { s.w with shapes := [] }
        cases hfr : (layoutBox c child index
            (floatY s.w.shapes child.st.clear (s.posY + collapseMargin s.cur)) bs none false true []
            { s.w with shapes := [] }).frag with
        | none => rw [hfr] at hsome; simp at hsome
        | some f0 =>
          have hk := layoutBox_frag_kind _ _ _ _ _ _ _ _ _ _ _ hfr
          unfold floatStep floatDone
          simp only [hfr]
          split
          · rename_i out s3 heq
            split at heq
            · simp at heq
            · split at heq
              · simp only [Prod.mk.injEq, Option.some.injEq] at heq
                rw [← heq.1]; simp
              · simp only [Prod.mk.injEq, Option.some.injEq] at heq
                rw [← heq.1]; simp
          · rename_i s3 heq
            split at heq
            · simp only [Prod.mk.injEq, true_and] at heq
              apply kids_not_aborted rest
              rw [← heq]
              apply absArePh_snoc _ _ hinv
              simp [hk.1, hk.2, hpos]
            · split at heq <;> simp at heq
      · -- child in the normal flow
        rename_i hpos
        dsimp only
        split
        · simp
        · obtain ⟨dy, hdy⟩ := preFlow_children c { b with y := s.boxY } cwc true child s
          have hinv0 : AbsArePh (preFlow c { b with y := s.boxY } cwc true child s).newChildren := by
            rw [hdy]; exact absArePh_translate dy _ hinv
          have hnext : ∀ (s2 : KidsLoop) (frag : Option OFrag) (resume : Option Resume) (s3 : KidsLoop)
              (mbv : Brk), s2.newChildren = (preFlow c { b with y := s.boxY } cwc true child s).newChildren →
              (∀ f, frag = some f → f.isPh = false ∧ f.isAbs = (child.st.pos == .abs)) →
              concludeKid index true mbv child s2 frag resume = (none, s3) → AbsArePh s3.newChildren := by
            intro s2 frag resume s3 mbv h2 hk heq
            obtain ⟨f, hf, hs3⟩ := conclude_none_children _ _ _ _ _ _ _ _ heq
            rw [hs3, h2]
            apply absArePh_snoc _ _ hinv0
            have := hk f hf
            simp [this.1, this.2, hpos]
          cases hpe : pienc true (preFlow c { b with y := s.boxY } cwc true child s) with
          | true =>
            have hsome := box_some child c index s.posY bs
              (preFlow c { b with y := s.boxY } cwc true child s).skip st.isRoot
              (preFlow c { b with y := s.boxY } cwc true child s).cur
              (preFlow c { b with y := s.boxY } cwc true child s).w
            obtain ⟨f, y', hk⟩ := firstPass_keeps c bs (preFlow c { b with y := s.boxY } cwc true child s).posY _ hsome
            rw [hk]
            dsimp only
            have hfk : ∀ g, some f = some g → g.isPh = false ∧ g.isAbs = (child.st.pos == .abs) := by
              intro g hg
              cases hg
              have hfr := firstPass_keep _ _ _ _ _ _ _ hk
              rcases hfr with h | h
              · cases h
              · exact layoutBox_frag_kind _ _ _ _ _ _ _ _ _ _ _ h.symm
            split
            · rename_i out s3 heq
              intro hcontra
              subst hcontra
              exact conclude_not_aborted _ _ _ _ _ _ (by simpa using hinv0) (Or.inl rfl) _ _ _ heq
            · rename_i s3 heq
              exact kids_not_aborted rest _ _ _ _ _ _ _ _ _ _ (hnext _ _ _ _ _ (by simp) hfk heq)
          | false =>
            have hnph : (preFlow c { b with y := s.boxY } cwc true child s).newChildren.all OFrag.isPh = false := by
              simpa [pienc] using hpe
            split
            · rename_i frag posY hfp
              have hfk : ∀ g, frag = some g → g.isPh = false ∧ g.isAbs = (child.st.pos == .abs) := by
                intro g hg
                have hfr := firstPass_keep _ _ _ _ _ _ _ hfp
                rcases hfr with h | h
                · rw [h] at hg; cases hg
                · rw [h] at hg; exact layoutBox_frag_kind _ _ _ _ _ _ _ _ _ _ _ hg
              split
              · rename_i out s3 heq
                intro hcontra
                subst hcontra
                exact conclude_not_aborted _ _ _ _ _ _ (by simpa using hinv0) (Or.inr (by simpa using hnph)) _ _ _ heq
              · rename_i s3 heq
                exact kids_not_aborted rest _ _ _ _ _ _ _ _ _ _ (hnext _ _ _ _ _ (by simp) hfk heq)
            · rename_i bs' hfp
              have hfk : ∀ (y' bs2 : Rat) (sk : Option Resume) (cb' pe' : Bool) (adjL' : List Rat) (w' : World)
                  (g : OFrag), (layoutBox c child index y' bs2 sk cb' pe' adjL' w').frag = some g →
                  g.isPh = false ∧ g.isAbs = (child.st.pos == .abs) :=
                fun _ _ _ _ _ _ _ g hg => layoutBox_frag_kind _ _ _ _ _ _ _ _ _ _ _ hg
              split
              · rename_i out s3 heq
                intro hcontra
                subst hcontra
                exact conclude_not_aborted _ _ _ _ _ _ (by simpa using hinv0) (Or.inr (by simpa using hnph)) _ _ _ heq
              · rename_i s3 heq
                exact kids_not_aborted rest _ _ _ _ _ _ _ _ _ _
                  (hnext _ _ _ _ _ (by simp) (fun g hg => hfk _ _ _ _ _ _ _ g hg) heq)
end

end Wp.PMO
