/-
Geometry of PM stage 2c: every placed line fits above `pageBottom − bottomSpace`, unless it is the first line
of the first content placed on an empty page, or the first line of a column box.  Port of the first half of
`Lemmas/Geometry.lean` / `Lemmas/ParaGeo.lean` to the extended types, plus `columns_layout`.

Line heights are not recorded in paragraph fragments: they are read through `lh : id ↦ line height`, which
must agree with the source (`LhOk`; true of any `lh` built from a document with distinct paragraph ids).
-/
import WpModel.Lemmas.ColSegBlock
import WpModel.Lemmas.Geometry

namespace Wp.PMC
open Wp Wp.PM

/-! ### the overflow test -/

private theorem fudge_pos'' : (0 : Rat) < 1 + 1 / 1000000000 := by decide +kernel

theorem not_overflowsPage_of_le (c : CCtx) (bs y y' : Rat) (h : y ≤ y') (ho : c.overflowsPage bs y' = false) :
    c.overflowsPage bs y = false := by
  unfold CCtx.overflowsPage at *
  cases hi : c.inf with
  | true => rw [hi] at ho; simp at ho
  | false =>
    rw [hi] at ho
    simp only [Bool.false_or] at ho ⊢
    cases hy : overflows (c.pageBottom - bs) y with
    | false => rfl
    | true =>
      have := PM.overflows_mono _ _ _ h hy
      rw [this] at ho; cases ho

theorem not_overflowsPage_of_space_le (c : CCtx) (bs bs' y : Rat) (h : bs ≤ bs')
    (ho : c.overflowsPage bs' y = false) : c.overflowsPage bs y = false := by
  unfold CCtx.overflowsPage at *
  cases hi : c.inf with
  | true => rw [hi] at ho; simp at ho
  | false =>
    rw [hi] at ho
    simp only [Bool.false_or] at ho ⊢
    cases hy : overflows (c.pageBottom - bs) y with
    | false => rfl
    | true =>
      exfalso
      unfold overflows at *
      simp only [decide_eq_true_eq, decide_eq_false_iff_not] at *
      have : (c.pageBottom - bs') * (1 + 1 / 1000000000) ≤ (c.pageBottom - bs) * (1 + 1 / 1000000000) :=
        Rat.mul_le_mul_of_nonneg_right (by grind) (Rat.le_of_lt fudge_pos'')
      grind

theorem overflowsPage_inColumn (c : CCtx) (b : Bool) (bs y : Rat) :
    ({ c with inColumn := b } : CCtx).overflowsPage bs y = c.overflowsPage bs y := rfl

/-! ### the line loop -/

def LineFits (c : CCtx) (bs lineH : Rat) (pie : Bool) (k : Nat) (p : Nat × Rat) : Prop :=
  (pie = true ∧ p.1 = k) ∨ c.overflowsPage bs (p.2 + lineH) = false

theorem lineLoop_fits (c : CCtx) (st : PStyle) (b : BoxSt) (n : Nat) (lineH : Rat) (pie : Bool) (bs : Rat)
    (k : Nat) (fuel i : Nat) (y : Rat) (s : LineLoop) (hdeco : 0 ≤ b.bb + b.pb)
    (hfirst : s.lines = [] → i = k) (hs : ∀ p ∈ s.lines, LineFits c bs lineH pie k p) :
    ∀ p ∈ outLines (lineLoop c st b n lineH pie bs fuel i y s), LineFits c bs lineH pie k p := by
  fun_induction lineLoop c st b n lineH pie bs fuel i y s with
  | case1 i y s => simpa [outLines] using hs
  | case2 fuel i y s resume newPosY dbd offset overflow hov abort stop r lines' hb =>
    intro p hp
    simp only [outLines] at hp
    have hsub := breakLine_lines_sub st n i s.lines pie s.skip resume
    rw [hb] at hsub
    exact hs p (hsub p hp)
  | case3 fuel i y s resume newPosY dbd offset overflow hov shift newPosY' lineY mt' ih =>
    apply ih
    · intro h; simp at h
    · intro p hp
      rcases List.mem_append.mp hp with hp | hp
      · exact hs p hp
      · simp only [List.mem_singleton] at hp
        subst hp
        have hoff : 0 ≤ offset := by
          show 0 ≤ (if dbd = true then b.bb + b.pb else 0)
          split
          · exact hdeco
          · exact Rat.le_refl
        by_cases hfirstLine : s.lines = [] ∧ pie = true
        · left
          exact ⟨hfirstLine.2, hfirst hfirstLine.1⟩
        · right
          have hcond : (!s.lines.isEmpty || !pie) = true := by
            cases hl : s.lines with
            | nil =>
              have : pie = false := by
                cases hp : pie with
                | false => rfl
                | true => exact absurd ⟨hl, hp⟩ hfirstLine
              simp [this]
            | cons a l => simp
          have hno : c.overflowsPage bs (newPosY + offset) = false := by
            have : overflow = false := by simpa using hov
            have h2 : ((!s.lines.isEmpty || !pie) && c.overflowsPage bs (newPosY + offset)) = false := this
            rw [hcond] at h2
            simpa using h2
          have hno' : c.overflowsPage bs newPosY = false :=
            not_overflowsPage_of_le c bs _ _ (by grind) hno
          have hshift : shift = false := by
            show (pie && c.overflowsPage bs newPosY) = false
            rw [hno']; simp
          show c.overflowsPage bs (lineY + lineH) = false
          have : lineY = y := by
            show (if shift = true then y - s.mt else y) = y
            rw [hshift]; simp
          rw [this]
          exact hno'

/-! ### placed lines of a fragment tree -/

mutual
/-- All lines of the fragment `f`, laid out with `page_is_empty = pie`; `page_is_empty` stays true only along
first-placed children, and is taken to be true at the top of every column box. -/
def placedLines (lh : Nat → Rat) : CFrag → Bool → List PlacedLine
  | .para id _ _ _ _ lines, pie => paraPlaced pie id (lh id) lines
  | .block _ _ _ _ kids, pie => placedList lh kids pie
  | .cols _ _ _ _ kids, pie => placedList lh kids pie
  | .column _ _ _ _ kids, _ => placedList lh kids true
def placedList (lh : Nat → Rat) : List CFrag → Bool → List PlacedLine
  | [], _ => []
  | f :: rest, pie => placedLines lh f pie ++ placedList lh rest false
end

def LinesOk (c : CCtx) (bs : Rat) (L : List PlacedLine) : Prop :=
  ∀ p ∈ L, p.exempt = true ∨ c.overflowsPage bs p.bottom = false

theorem linesOk_nil (c : CCtx) (bs : Rat) : LinesOk c bs [] := by
  intro p hp; cases hp

theorem linesOk_append (c : CCtx) (bs : Rat) (A B : List PlacedLine) :
    LinesOk c bs (A ++ B) ↔ LinesOk c bs A ∧ LinesOk c bs B := by
  unfold LinesOk
  constructor
  · intro h
    exact ⟨fun p hp => h p (List.mem_append_left _ hp), fun p hp => h p (List.mem_append_right _ hp)⟩
  · intro h p hp
    rcases List.mem_append.mp hp with hp | hp
    · exact h.1 p hp
    · exact h.2 p hp

theorem linesOk_mono (c : CCtx) (bs bs' : Rat) (L : List PlacedLine) (h : bs ≤ bs') (hL : LinesOk c bs' L) :
    LinesOk c bs L := by
  intro p hp
  rcases hL p hp with h1 | h1
  · left; exact h1
  · right; exact not_overflowsPage_of_space_le c bs bs' _ h h1

theorem linesOk_sub (c : CCtx) (bs : Rat) (A B : List PlacedLine) (h : ∀ p ∈ A, p ∈ B) (hB : LinesOk c bs B) :
    LinesOk c bs A := fun p hp => hB p (h p hp)

theorem linesOk_inColumn (c : CCtx) (b : Bool) (bs : Rat) (L : List PlacedLine) :
    LinesOk { c with inColumn := b } bs L ↔ LinesOk c bs L := Iff.rfl

/-- Lines placed with `page_is_empty` true instead of false: the same, the first one exempt. -/
def PieWeaker (A B : List PlacedLine) : Prop := ∀ p ∈ A, p.exempt = true ∨ p ∈ B

theorem paraPlaced_pie (id : Nat) (lineH : Rat) (lines : List (Nat × Rat)) :
    PieWeaker (paraPlaced true id lineH lines) (paraPlaced false id lineH lines) := by
  cases lines with
  | nil => intro p hp; simp [paraPlaced] at hp
  | cons a l =>
    intro p hp
    simp only [paraPlaced, List.mem_cons, List.mem_map] at hp ⊢
    rcases hp with rfl | h
    · left; rfl
    · right; right; exact h

mutual
theorem placedLines_pie (lh : Nat → Rat) : (f : CFrag) →
    PieWeaker (placedLines lh f true) (placedLines lh f false)
  | .para id _ _ _ _ lines => by simp only [placedLines]; exact paraPlaced_pie _ _ _
  | .block _ _ _ _ kids => by simp only [placedLines]; exact placedList_pie lh kids
  | .cols _ _ _ _ kids => by simp only [placedLines]; exact placedList_pie lh kids
  | .column _ _ _ _ kids => by simp only [placedLines]; intro p hp; right; exact hp
theorem placedList_pie (lh : Nat → Rat) : (fs : List CFrag) →
    PieWeaker (placedList lh fs true) (placedList lh fs false)
  | [] => by intro p hp; simp [placedList] at hp
  | f :: rest => by
    intro p hp
    simp only [placedList, List.mem_append] at hp ⊢
    rcases hp with hp | hp
    · rcases placedLines_pie lh f p hp with h | h
      · left; exact h
      · right; left; exact h
    · right; right; exact hp
end

theorem linesOk_pie (c : CCtx) (bs : Rat) (A B : List PlacedLine) (hw : PieWeaker A B) (hB : LinesOk c bs B) :
    LinesOk c bs A := by
  intro p hp
  rcases hw p hp with h | h
  · left; exact h
  · exact hB p h

theorem linesOk_placedList_anyPie (lh : Nat → Rat) (c : CCtx) (bs : Rat) (fs : List CFrag) (pie : Bool)
    (h : LinesOk c bs (placedList lh fs pie)) : LinesOk c bs (placedList lh fs true) := by
  cases pie with
  | true => exact h
  | false => exact linesOk_pie c bs _ _ (placedList_pie lh fs) h

theorem linesOk_placedLines_anyPie (lh : Nat → Rat) (c : CCtx) (bs : Rat) (f : CFrag) (pie pie' : Bool)
    (hp : pie = true → pie' = true) (h : LinesOk c bs (placedLines lh f pie)) :
    LinesOk c bs (placedLines lh f pie') := by
  cases pie <;> cases pie'
  · exact h
  · exact linesOk_pie c bs _ _ (placedLines_pie lh f) h
  · exact absurd (hp rfl) (by simp)
  · exact h

/-! ### paragraphs -/

theorem lineboxLayout_placed (c : CCtx) (st : PStyle) (b : BoxSt) (n : Nat) (lineH : Rat) (pie : Bool)
    (adj : List Rat) (bs posY : Rat) (skip : Option Resume) (dbd : Bool) (id : Nat) (hdeco : 0 ≤ b.bb + b.pb) :
    LinesOk c bs (paraPlaced pie id lineH (lineboxLayout c st b n lineH pie adj bs posY skip dbd).lines) := by
  have hl : (lineboxLayout c st b n lineH pie adj bs posY skip dbd).lines =
      outLines (lineboxLoop c st b n lineH pie adj bs posY skip dbd) := by
    unfold lineboxLayout
    split <;> simp_all [outLines]
  have hfit : ∀ p ∈ (lineboxLayout c st b n lineH pie adj bs posY skip dbd).lines,
      LineFits c bs lineH pie (skipLine skip) p := by
    rw [hl]; unfold lineboxLoop
    exact lineLoop_fits c st b n lineH pie bs (skipLine skip) _ _ _ _ hdeco (fun _ => rfl) (by simp)
  obtain ⟨m, _, hcont⟩ : ∃ m, m ≤ (skipLine skip - skipLine skip) + (n - skipLine skip) ∧
      (lineboxLayout c st b n lineH pie adj bs posY skip dbd).lines.map Prod.fst =
        List.range' (skipLine skip) m := by
    rw [hl]; unfold lineboxLoop
    exact lineLoop_contiguous c st b n lineH pie bs (skipLine skip) _ _ _ _ (Nat.le_refl _) (by simp)
  generalize (lineboxLayout c st b n lineH pie adj bs posY skip dbd).lines = lines at hfit hcont
  cases lines with
  | nil => exact linesOk_nil c bs
  | cons a l =>
    intro p hp
    simp only [paraPlaced, List.mem_cons, List.mem_map] at hp
    rcases hp with rfl | ⟨q, hq, rfl⟩
    · rcases hfit a (by simp) with h | h
      · left; exact h.1
      · right; exact h
    · right
      rcases hfit q (by simp [hq]) with h | h
      · exfalso
        cases m with
        | zero => simp at hcont
        | succ m =>
          simp only [List.map_cons, List.range'_succ, List.cons.injEq] at hcont
          have : q.1 ∈ List.range' (skipLine skip + 1) m := by
            rw [← hcont.2]; exact List.mem_map_of_mem hq
          simp only [List.mem_range'_1] at this
          omega
      · exact h

/-! ### `withIdx`, heights, `find_earlier_page_break` -/

@[simp] theorem placedLines_withIdx (lh : Nat → Rat) (f : CFrag) (i : Nat) (pie : Bool) :
    placedLines lh (f.withIdx i) pie = placedLines lh f pie := by
  cases f <;> simp [CFrag.withIdx, placedLines]

@[simp] theorem placedLines_withGeo (lh : Nat → Rat) (f : CFrag) (g : Geo) (pie : Bool) :
    placedLines lh (f.withGeo g) pie = placedLines lh f pie := by
  cases f <;> simp [CFrag.withGeo, placedLines]

theorem placedList_append (lh : Nat → Rat) (xs ys : List CFrag) (pie : Bool) :
    placedList lh (xs ++ ys) pie = placedList lh xs pie ++ placedList lh ys (pie && xs.isEmpty) := by
  induction xs generalizing pie with
  | nil => simp [placedList]
  | cons x xs ih =>
    simp only [List.cons_append, placedList, ih false, List.append_assoc]
    simp

theorem placedList_singleton (lh : Nat → Rat) (f : CFrag) (pie : Bool) :
    placedList lh [f] pie = placedLines lh f pie := by
  simp [placedList]

theorem placedList_map_setColHeight (lh : Nat → Rat) (h : Rat) (l : List CFrag) (pie : Bool) :
    placedList lh (l.map (setColHeight h)) pie = placedList lh l pie := by
  induction l generalizing pie with
  | nil => rfl
  | cons f fs ih => simp [placedList, ih, setColHeight]

theorem placedList_addTrailing (lh : Nat → Rat) (diff : Rat) (l : List CFrag) (pie : Bool) :
    placedList lh (addTrailing diff l).1 pie = placedList lh l pie := by
  induction l generalizing pie with
  | nil => simp [addTrailing]
  | cons f fs ih =>
    simp only [addTrailing]
    split <;> simp [placedList, ih, setColHeight]

theorem findEarlierPara_placed (lh : Nat → Rat) (id idx : Nat) (st : PStyle) (n : Nat) (g : Geo)
    (lines : List (Nat × Rat)) (x' : CFrag) (r : Resume) (h : findEarlierPara id idx st n g lines = some (x', r)) :
    ∀ pie, ∀ p ∈ placedLines lh x' pie, p ∈ placedLines lh (.para id idx st n g lines) pie := by
  unfold findEarlierPara at h
  split at h
  · cases h
  · dsimp only at h
    split at h
    · cases h
    · split at h
      · simp only [Option.some.injEq, Prod.mk.injEq] at h
        obtain ⟨rfl, _⟩ := h
        intro pie
        simp only [placedLines]; exact paraPlaced_take _ _ _ _ _
      · cases h

@[simp] theorem placedLines_cutEnd (lh : Nat → Rat) (f : CFrag) (pie : Bool) :
    placedLines lh f.cutEnd pie = placedLines lh f pie := by
  cases f <;> simp [CFrag.cutEnd, placedLines]

mutual
theorem findEarlierGo_placed (lh : Nat → Rat) (inCol : Bool) : (fs : List CFrag) →
    ∀ (kept : List CFrag) (r : Resume),
    (findEarlierGo inCol fs).found = some (kept, r) →
    ∀ pie, ∀ p ∈ placedList lh kept pie, p ∈ placedList lh fs pie
  | [] => by
    intro kept r h
    simp [findEarlierGo] at h
  | x :: xs => by
    intro kept r h pie
    rw [findEarlierGo] at h
    dsimp only at h
    split at h
    · rename_i kept0 r0 hfound
      simp only [Option.some.injEq, Prod.mk.injEq] at h
      obtain ⟨rfl, rfl⟩ := h
      have ih := findEarlierGo_placed lh inCol xs kept0 r0 hfound false
      intro p hp
      simp only [placedList, List.mem_append] at hp ⊢
      rcases hp with hp | hp
      · left; exact hp
      · right; exact ih p hp
    · rename_i hnone
      split at h
      · rw [hnone] at h; cases h
      · split at h
        · simp only [Option.some.injEq, Prod.mk.injEq] at h
          obtain ⟨rfl, rfl⟩ := h
          intro p hp
          simp only [placedList, List.mem_append, List.append_nil] at hp ⊢
          left; exact hp
        · split at h
          · split at h
            · rename_i x' r1 hfe
              simp only [Option.some.injEq, Prod.mk.injEq] at h
              obtain ⟨rfl, rfl⟩ := h
              have hsub := findEarlierFrag_placed lh inCol x x' r1 hfe
              intro p hp
              simp only [placedList, List.mem_append, List.append_nil, placedLines_cutEnd] at hp ⊢
              left
              exact hsub _ p hp
            · cases h
          · cases h
theorem findEarlierFrag_placed (lh : Nat → Rat) (inCol : Bool) : (x : CFrag) → ∀ (x' : CFrag) (r : Resume),
    findEarlierFrag inCol x = some (x', r) →
    ∀ pie, ∀ p ∈ placedLines lh x' pie, p ∈ placedLines lh x pie
  | .para id idx st n g lines => by
    intro x' r h
    simp only [findEarlierFrag] at h
    exact findEarlierPara_placed lh id idx st n g lines _ _ h
  | .block id idx st g kids => by
    intro x' r h
    simp only [findEarlierFrag] at h
    split at h
    · rename_i kids' r0 hfound
      simp only [Option.some.injEq, Prod.mk.injEq] at h
      obtain ⟨rfl, rfl⟩ := h
      intro pie
      simp only [placedLines]
      exact findEarlierGo_placed lh inCol kids kids' r0 hfound pie
    · cases h
  | .cols id idx st g kids => by
    intro x' r h
    simp [findEarlierFrag] at h
  | .column _ _ _ _ _ => by
    intro x' r h
    simp [findEarlierFrag] at h
end

theorem findEarlierList_placed (lh : Nat → Rat) (inCol : Bool) (fs kept : List CFrag) (r : Resume)
    (h : findEarlierList inCol fs = some (kept, r)) :
    ∀ pie, ∀ p ∈ placedList lh kept pie, p ∈ placedList lh fs pie :=
  findEarlierGo_placed lh inCol fs _ _ h

/-! ### used geometry of a returned fragment -/

theorem finishContainer_geo (isCol : Bool) (c : CCtx) (st : PStyle) (b : BoxSt) (pie : Bool) (bs : Rat)
    (cwc dbd : Bool) (resume : Option Resume) (posY : Rat) (adjL cur : List Rat) (curIsL : Bool)
    (np : NextPage) (hasKids : Bool) (pageEnd : String) (mk : Geo → CFrag) (f : CFrag)
    (h : (finishContainer isCol c st b pie bs cwc dbd resume posY adjL cur curIsL np hasKids pageEnd mk).frag
      = some f) :
    f = mk (finishTailC isCol c st b bs cwc dbd resume posY adjL cur curIsL hasKids).geo := by
  unfold finishContainer at h
  split at h
  · simp [noneResult] at h
  · simp only [Option.some.injEq] at h
    exact h.symm

theorem finishTailC_pb_bb (isCol : Bool) (c : CCtx) (st : PStyle) (b : BoxSt) (bs : Rat)
    (cwc dbd : Bool) (resume : Option Resume) (posY : Rat) (adjL cur : List Rat) (curIsL hasKids : Bool) :
    let g := (finishTailC isCol c st b bs cwc dbd resume posY adjL cur curIsL hasKids).geo
    (g.pb = b.pb ∧ g.bb = b.bb) ∨ (g.pb = 0 ∧ g.bb = 0) := by
  unfold finishTailC
  dsimp only
  by_cases h : (!st.clone && resume.isSome) = true
  · right; simp [h, geoOf]
  · left
    simp only [h]
    cases cwc <;> simp [geoOf]

@[simp] theorem prepareC_pb (isCol : Bool) (c : Ctx) (st : PStyle) (y bs : Rat) (skip : Option Resume) (cb pie : Bool)
    (adjL : List Rat) : (prepareC isCol c st y bs skip cb pie adjL).b.pb = st.pb := by
  unfold prepareC; dsimp only; repeat' split
  all_goals rfl

@[simp] theorem prepareC_bb (isCol : Bool) (c : Ctx) (st : PStyle) (y bs : Rat) (skip : Option Resume) (cb pie : Bool)
    (adjL : List Rat) : (prepareC isCol c st y bs skip cb pie adjL).b.bb = st.bb := by
  unfold prepareC; dsimp only; repeat' split
  all_goals rfl

theorem prepareC_bs (isCol : Bool) (c : Ctx) (st : PStyle) (y bs : Rat) (skip : Option Resume) (cb pie : Bool)
    (adjL : List Rat) :
    (prepareC isCol c st y bs skip cb pie adjL).bs = if st.clone then bs + (st.pb + st.bb + st.mb) else bs := by
  unfold prepareC; dsimp only; repeat' split
  all_goals first | rfl | simp_all

theorem prepareC_bs_le (isCol : Bool) (c : Ctx) (st : PStyle) (y bs : Rat) (skip : Option Resume) (cb pie : Bool)
    (adjL : List Rat) (h : st.DecoOk) : bs ≤ (prepareC isCol c st y bs skip cb pie adjL).bs := by
  rw [prepareC_bs]
  split
  · rename_i hc
    have := h.2 hc
    grind
  · exact Rat.le_refl

/-! ### hypotheses -/

mutual
/-- `PStyle.DecoOk` (stage 1) in every paragraph and block; for a container only `padding-bottom + border-bottom ≥ 0`
(CSS has no negative paddings or borders).  Nothing is asked of the container's `margin-bottom`: `block_box_layout`
lays a finished container out a second time only with a *larger* bottom space (`columns_bottom_space > 0`). -/
def DecoOk : ColBox → Prop
  | .para _ _ _ st => st.DecoOk
  | .block _ st kids => st.DecoOk ∧ DecoOkList kids
  | .columns _ st _ _ kids => 0 ≤ st.pb + st.bb ∧ DecoOkList kids
def DecoOkList : List ColBox → Prop
  | [] => True
  | b :: bs => DecoOk b ∧ DecoOkList bs
end

mutual
/-- `lh` gives every paragraph of the subtree its line height. -/
def LhOk (lh : Nat → Rat) : ColBox → Prop
  | .para id _ lineH _ => lh id = lineH
  | .block _ _ kids => LhOkList lh kids
  | .columns _ _ _ _ kids => LhOkList lh kids
def LhOkList (lh : Nat → Rat) : List ColBox → Prop
  | [] => True
  | b :: bs => LhOk lh b ∧ LhOkList lh bs
end

theorem DecoOk.pbbb : (box : ColBox) → DecoOk box → 0 ≤ box.st.pb + box.st.bb
  | .para _ _ _ _ => by intro h; unfold DecoOk at h; exact h.1
  | .block _ _ _ => by intro h; unfold DecoOk at h; exact h.1.1
  | .columns _ _ _ _ _ => by intro h; unfold DecoOk at h; exact h.1

theorem firstPass_redo (c : CCtx) (bs : Rat) (pienc : Bool) (posY : Rat) (r : LayoutResult) (bs' : Rat)
    (h : firstPass c bs pienc posY r = .redo bs') :
    ∃ f, r.frag = some f ∧ bs' = bs + (f.geo.pb + f.geo.bb) := by
  unfold firstPass at h
  split at h
  · cases h
  · rename_i f hf
    split at h
    · cases h
    · dsimp only at h
      split at h
      · cases h
      · split at h
        · simp only [FirstPass.redo.injEq] at h
          exact ⟨f, hf, h.symm⟩
        · cases h

/-! ### the invariant through the children loop -/

def KidsOutcome.children : KidsOutcome → List CFrag
  | .finished s => s.newChildren
  | .aborted _ s => s.newChildren
  | .stopped _ s => s.newChildren
  | .raised _ => []

theorem concludeKid_fits (lh : Nat → Rat) (c : CCtx) (bs : Rat) (index : Nat) (pie : Bool) (pb : Brk)
    (child : ColBox) (s : KidsLoop) (frag : Option CFrag) (resume : Option Resume)
    (hs : LinesOk c bs (placedList lh s.newChildren pie))
    (hf : ∀ f, frag = some f → LinesOk c bs (placedLines lh f (pie && s.newChildren.isEmpty))) :
    (∀ out s3, concludeKid c index pie pb child s frag resume = (some out, s3) →
      LinesOk c bs (placedList lh out.children pie)) ∧
    (∀ s3, concludeKid c index pie pb child s frag resume = (none, s3) →
      LinesOk c bs (placedList lh s3.newChildren pie)) := by
  cases frag with
  | none =>
    constructor
    · intro out s3 h
      unfold concludeKid at h
      dsimp only at h
      split at h
      · rename_i kept r' hearlier
        simp only [Prod.mk.injEq, Option.some.injEq] at h
        obtain ⟨rfl, rfl⟩ := h
        have hfound : findEarlierList c.inColumn s.newChildren = some (kept, r') := by
          split at hearlier
          · exact hearlier
          · cases hearlier
        exact linesOk_sub c bs _ _ (findEarlierList_placed lh _ _ _ _ hfound pie) hs
      · split at h
        · simp only [Prod.mk.injEq, Option.some.injEq] at h
          obtain ⟨rfl, rfl⟩ := h
          exact hs
        · split at h
          · simp only [Prod.mk.injEq, Option.some.injEq] at h
            obtain ⟨rfl, rfl⟩ := h
            exact hs
          · simp only [Prod.mk.injEq, Option.some.injEq] at h
            obtain ⟨rfl, rfl⟩ := h
            exact hs
    · intro s3 h
      unfold concludeKid at h
      dsimp only at h
      split at h
      · simp at h
      · split at h
        · simp at h
        · split at h <;> simp at h
  | some f =>
    have hnew : LinesOk c bs (placedList lh (s.newChildren ++ [f.withIdx index]) pie) := by
      rw [placedList_append, linesOk_append]
      refine ⟨hs, ?_⟩
      rw [placedList_singleton, placedLines_withIdx]
      exact hf f rfl
    cases resume with
    | some r' =>
      constructor
      · intro out s3 h
        simp only [concludeKid, Prod.mk.injEq, Option.some.injEq] at h
        obtain ⟨rfl, rfl⟩ := h
        exact hnew
      · intro s3 h
        simp [concludeKid] at h
    | none =>
      constructor
      · intro out s3 h
        simp [concludeKid] at h
      · intro s3 h
        simp only [concludeKid, Prod.mk.injEq, true_and] at h
        subst h
        exact hnew

theorem finishBlock_frag (isCol : Bool) (c : CCtx) (st : PStyle) (p : Prep) (pie : Bool) (out : KidsOutcome)
    (mk : Geo → List CFrag → CFrag) (f : CFrag) (h : (finishBlock isCol c st p pie out mk).frag = some f) :
    ∃ g, f = mk g out.children ∧ ((g.pb = p.b.pb ∧ g.bb = p.b.bb) ∨ (g.pb = 0 ∧ g.bb = 0)) := by
  cases out with
  | raised e => simp [finishBlock, raisedResult] at h
  | aborted page s => simp [finishBlock, noneResult] at h
  | stopped resume s =>
    simp only [finishBlock] at h
    have := finishContainer_geo _ _ _ _ _ _ _ _ _ _ _ _ _ _ _ _ _ _ h
    exact ⟨_, this, finishTailC_pb_bb _ _ _ _ _ _ _ _ _ _ _ _ _⟩
  | finished s =>
    simp only [finishBlock] at h
    have := finishContainer_geo _ _ _ _ _ _ _ _ _ _ _ _ _ _ _ _ _ _ h
    exact ⟨_, this, finishTailC_pb_bb _ _ _ _ _ _ _ _ _ _ _ _ _⟩

theorem finishPara_frag' (c : CCtx) (st : PStyle) (p : Prep) (pie : Bool) (id idx n : Nat) (R : LineResult)
    (f : CFrag) (h : (finishPara c st p pie id idx n R).frag = some f) :
    ∃ g, f = .para id idx st n g R.lines ∧ ((g.pb = p.b.pb ∧ g.bb = p.b.bb) ∨ (g.pb = 0 ∧ g.bb = 0)) := by
  unfold finishPara at h
  dsimp only at h
  split at h
  · simp [noneResult] at h
  · have := finishContainer_geo _ _ _ _ _ _ _ _ _ _ _ _ _ _ _ _ _ _ h
    refine ⟨_, this, ?_⟩
    have := finishTailC_pb_bb false c st { p.b with mt := R.mt } p.bs p.cwc (p.dbd || R.resume.isNone)
      (if R.stop = true then forgetIfFixed st { p.b with mt := R.mt } R.posY R.resume else none) R.posY p.adjL [] false
      (!R.lines.isEmpty)
    simpa using this

/-! ### `columns_layout` -/

/-- What the geometry proof needs from the two layout functions `columns_layout` calls. -/
structure EnvFits (lh : Nat → Rat) (env : ColEnv) : Prop where
  col : ∀ (c : CCtx) (a : Nat) (x y bs : Rat) (σ : Option Resume) (pie : Bool) (f : CFrag),
    (env.layCol c a x y bs σ pie).frag = some f → f.isColumn = true ∧ LinesOk c bs (placedLines lh f true)
  span : ∀ (c : CCtx) (i : Nat) (y bs : Rat) (σ : Option Resume) (pie : Bool) (adjL : List Rat) (f : CFrag),
    (env.laySpan c i y bs σ pie adjL).frag = some f → LinesOk c bs (placedLines lh f pie)

theorem placedLines_column_pie (lh : Nat → Rat) (f : CFrag) (h : f.isColumn = true) (p q : Bool) :
    placedLines lh f p = placedLines lh f q := by
  cases f <;> first | (simp [CFrag.isColumn] at h; done) | simp [placedLines]

/-- The real columns of a group fit above the bottom space they were given. -/
theorem realLoop_fits (lh : Nat → Rat) (env : ColEnv) (he : EnvFits lh env) (c : CCtx) (a : Nat) (y : Rat)
    (cs : ColSpec) (opie hd : Bool) (obs : Rat) (bsIn : Rat) :
    ∀ (fuel i : Nat) (s : RealOut), s.bs = bsIn → obs ≤ bsIn →
      LinesOk c bsIn (placedList lh s.columns false) →
      LinesOk c bsIn (placedList lh (realLoop env c a y cs opie hd obs fuel i s).columns false) ∧
      obs ≤ (realLoop env c a y cs opie hd obs fuel i s).bs := by
  intro fuel
  induction fuel with
  | zero => intro i s hb hle hs; simp only [realLoop]; exact ⟨hs, by rw [hb]; exact hle⟩
  | succ fuel ih =>
    intro i s hb hle hs
    unfold realLoop
    dsimp only
    split
    · exact ⟨hs, by rw [hb]; exact hle⟩
    · split
      · exact ⟨linesOk_nil c bsIn, by rw [hb]; exact hle⟩
      · rename_i f hf
        have hfit := he.col c a (colX cs i) y s.bs s.skip opie f hf
        rw [hb] at hfit
        have hnew : LinesOk c bsIn (placedList lh (s.columns ++ [f]) false) := by
          rw [placedList_append, linesOk_append]
          refine ⟨hs, ?_⟩
          rw [placedList_singleton]
          simp only [Bool.false_and]
          rw [placedLines_column_pie lh f hfit.1 false true]
          exact hfit.2
        split
        · exact ⟨hnew, Rat.le_refl⟩
        · split
          · exact ⟨hnew, by rw [hb]; exact hle⟩
          · exact ih (i + 1) _ hb hle hnew

theorem linesOk_placedList_pieOf (lh : Nat → Rat) (c : CCtx) (bs : Rat) (fs : List CFrag) (pie : Bool)
    (h : LinesOk c bs (placedList lh fs false)) : LinesOk c bs (placedList lh fs pie) := by
  cases pie with
  | false => exact h
  | true => exact linesOk_placedList_anyPie lh c bs fs false h

/-- Every line placed by the loop over `columns_and_blocks` fits above the *original* bottom space (`obs`). -/
theorem colsLoop_fits (lh : Nat → Rat) (env : ColEnv) (he : EnvFits lh env) (c : CCtx) (cs : ColSpec) (hd : Bool)
    (obs : Rat) (last fuel : Nat) (pie0 : Bool) :
    ∀ (items : List ColItem) (s : ColsState), obs ≤ s.bs → (s.pie = true → s.newChildren = [] ∧ pie0 = true) →
      LinesOk c obs (placedList lh s.newChildren pie0) →
      LinesOk c obs (placedList lh (colsLoop env c cs hd obs last fuel items s).newChildren pie0) := by
  intro items
  induction items with
  | nil => intro s _ _ hs; simpa [colsLoop] using hs
  | cons it rest ih =>
    intro s hbs hpie hs
    cases it with
    | span i =>
      unfold colsLoop
      dsimp only
      split
      · exact hs
      · split
        · exact hs
        · rename_i f hf
          have hfit := he.span c i s.y obs (subSkipOf s.skip) s.pie s.adj f hf
          have hnew : LinesOk c obs (placedList lh (s.newChildren ++ [f]) pie0) := by
            rw [placedList_append, linesOk_append]
            refine ⟨hs, ?_⟩
            rw [placedList_singleton]
            apply linesOk_placedLines_anyPie lh c obs f s.pie _ _ hfit
            intro hp
            obtain ⟨h1, h2⟩ := hpie hp
            simp [h1, h2]
          split
          · exact hnew
          · apply ih
            · exact hbs
            · intro h; cases h
            · exact hnew
    | group a len =>
      unfold colsLoop
      dsimp only
      split
      · exact hs
      · -- the bottom space of the real columns
        generalize hbsIn : (if c.pageBottom - (s.y + collapseMargin s.adj) -
            (trialLoop env c a 0 (s.y + collapseMargin s.adj) (c.pageBottom - (s.y + collapseMargin s.adj) - obs)
              cs.count s.skip (cs.balance || decide (a < last)) s.nextPage).height > s.bs
          then c.pageBottom - (s.y + collapseMargin s.adj) -
            (trialLoop env c a 0 (s.y + collapseMargin s.adj) (c.pageBottom - (s.y + collapseMargin s.adj) - obs)
              cs.count s.skip (cs.balance || decide (a < last)) s.nextPage).height
          else s.bs) = bsIn
        have hle : obs ≤ bsIn := by
          rw [← hbsIn]
          split
          · rename_i h; exact Rat.le_trans hbs (Rat.le_of_lt h)
          · exact hbs
        generalize hR : realLoop env c a (s.y + collapseMargin s.adj) cs s.pie hd obs fuel 0
          { columns := [], maxColH := 0, skip := s.skip, colSkip := s.colSkip,
            nextPage := (trialLoop env c a 0 (s.y + collapseMargin s.adj)
              (c.pageBottom - (s.y + collapseMargin s.adj) - obs) cs.count s.skip
              (cs.balance || decide (a < last)) s.nextPage).nextPage,
            bs := bsIn, breakPage := s.breakPage, err := none } = R
        have hreal := realLoop_fits lh env he c a (s.y + collapseMargin s.adj) cs s.pie hd obs bsIn fuel 0
          { columns := [], maxColH := 0, skip := s.skip, colSkip := s.colSkip,
            nextPage := (trialLoop env c a 0 (s.y + collapseMargin s.adj)
              (c.pageBottom - (s.y + collapseMargin s.adj) - obs) cs.count s.skip
              (cs.balance || decide (a < last)) s.nextPage).nextPage,
            bs := bsIn, breakPage := s.breakPage, err := none } rfl hle (linesOk_nil c bsIn)
        rw [hR] at hreal
        split
        · exact hs
        · have hnew : LinesOk c obs (placedList lh (s.newChildren ++ R.columns.map (setColHeight R.maxColH)) pie0) := by
            rw [placedList_append, linesOk_append]
            refine ⟨hs, ?_⟩
            rw [placedList_map_setColHeight]
            exact linesOk_placedList_pieOf lh c obs _ _ (linesOk_mono c obs bsIn _ hle hreal.1)
          split
          · exact hnew
          · apply ih
            · exact hreal.2
            · intro h; cases h
            · exact hnew

theorem colsFinish_frag (id idx : Nat) (st : PStyle) (nkids : Nat) (mt y contentY : Rat) (adjL : List Rat)
    (s : ColsState) (f : CFrag) (h : (colsFinish id idx st nkids mt y contentY adjL s).frag = some f) :
    ∃ g diff, f = .cols id idx st g (addTrailing diff s.newChildren).1 ∧ g.mb = st.mb ∧ g.pb = st.pb ∧ g.bb = st.bb := by
  unfold colsFinish at h
  split at h
  · simp [raisedResult] at h
  · dsimp only at h
    split at h
    · simp at h
    · split at h
      · simp [raisedResult] at h
      · simp only [Option.some.injEq] at h
        exact ⟨_, _, h.symm, rfl, rfl, rfl⟩

theorem columnsLayout_fits (lh : Nat → Rat) (env : ColEnv) (he : EnvFits lh env) (c : CCtx) (id idx : Nat)
    (st : PStyle) (cs : ColSpec) (flags : List Bool) (nkids fuel : Nat) (mt y0 bs0 : Rat) (skip : Option Resume)
    (pie : Bool) (adjL : List Rat) (f : CFrag)
    (h : (columnsLayout env c id idx st cs flags nkids fuel mt y0 bs0 skip pie adjL).frag = some f) :
    LinesOk c bs0 (placedLines lh f pie) ∧ f.geo.mb = st.mb ∧ f.geo.pb = st.pb ∧ f.geo.bb = st.bb := by
  unfold columnsLayout at h
  split at h
  · simp [raisedResult] at h
  · dsimp only at h
    obtain ⟨g, diff, rfl, h1, h2, h3⟩ := colsFinish_frag _ _ _ _ _ _ _ _ _ _ h
    refine ⟨?_, h1, h2, h3⟩
    simp only [placedLines, placedList_addTrailing]
    rw [← linesOk_inColumn c true]
    apply colsLoop_fits lh env he
    · simp only [colsInit]
      split
      · split
        · rename_i hgt; exact Rat.le_of_lt hgt
        · exact Rat.le_refl
      · exact Rat.le_refl
    · intro hp
      simp only [colsInit] at hp ⊢
      exact ⟨trivial, hp⟩
    · simp only [colsInit, placedList]
      exact linesOk_nil _ _

theorem columnsBoxLayout_fits (lh : Nat → Rat) (env : ColEnv) (he : EnvFits lh env) (c : CCtx) (id idx : Nat)
    (st : PStyle) (cs : ColSpec) (flags : List Bool) (nkids fuel : Nat) (y bs : Rat) (skip : Option Resume)
    (cb pie : Bool) (adjL : List Rat) (f : CFrag)
    (h : (columnsBoxLayout env c id idx st cs flags nkids fuel y bs skip cb pie adjL).frag = some f) :
    LinesOk c bs (placedLines lh f pie) ∧ f.geo.pb = st.pb ∧ f.geo.bb = st.bb := by
  unfold columnsBoxLayout at h
  dsimp only at h
  generalize (if (decide (c.currentPage > 1) && pie && (cb || !adjL.isEmpty) && !c.forcedBreak) = true
    then (0 : Rat) else st.mt) = mt at h
  have h1 := fun b g hg => columnsLayout_fits lh env he c id idx st cs flags nkids fuel mt y b skip pie adjL g hg
  split at h
  · have := h1 bs f h; exact ⟨this.1, this.2.2⟩
  · split at h
    · split at h
      · simp [raisedResult] at h
      · rename_i f1 hf1
        split at h
        · have := h1 _ f h
          have hg := h1 bs f1 hf1
          refine ⟨linesOk_mono c bs _ _ ?_ this.1, this.2.2⟩
          rw [hg.2.1, hg.2.2.1, hg.2.2.2]
          grind
        · have := h1 bs f h; exact ⟨this.1, this.2.2⟩
    · have := h1 bs f h; exact ⟨this.1, this.2.2⟩

theorem columnStyle_decoOk (st : PStyle) : (columnStyle st).DecoOk := by
  constructor
  · simp only [columnStyle]; decide +kernel
  · intro h; simp [columnStyle] at h

mutual
/-- **Every placed line of a layout fits** above `pageBottom − bs`, except the first line of the first content
when the layout started on an empty page, and the first line of a column box. Second part: the bottom padding and
border of the returned fragment are those of the box, or 0. -/
theorem box_fits (lh : Nat → Rat) : (box : ColBox) → DecoOk box → LhOk lh box → ∀ (c : CCtx) (idx : Nat) (y bs : Rat)
    (skip : Option Resume) (cb pie : Bool) (adjL : List Rat) (f : CFrag),
    (layoutBox c box idx y bs skip cb pie adjL).frag = some f →
    LinesOk c bs (placedLines lh f pie) ∧
      ((f.geo.pb = box.st.pb ∧ f.geo.bb = box.st.bb) ∨ (f.geo.pb = 0 ∧ f.geo.bb = 0))
  | .para id n lineH st => by
    intro hd hl c idx y bs skip cb pie adjL f hf
    unfold DecoOk at hd
    unfold LhOk at hl
    simp only [layoutBox] at hf
    obtain ⟨g, rfl, hg⟩ := finishPara_frag' _ _ _ _ _ _ _ _ _ hf
    constructor
    · simp only [placedLines, hl]
      apply linesOk_mono c bs _ _ (prepareC_bs_le false c.base st y bs skip cb pie adjL hd)
      apply lineboxLayout_placed
      simp only [prepareC_bb, prepareC_pb]
      have := hd.1
      grind
    · simpa [CFrag.geo, ColBox.st] using hg
  | .block id st kids => by
    intro hd hl c idx y bs skip cb pie adjL f hf
    unfold DecoOk at hd
    unfold LhOk at hl
    simp only [layoutBox] at hf
    obtain ⟨g, rfl, hg⟩ := finishBlock_frag _ _ _ _ _ _ _ _ hf
    constructor
    · simp only [placedLines]
      apply linesOk_mono c bs _ _ (prepareC_bs_le false c.base st y bs skip cb pie adjL hd.1)
      exact kids_fits lh kids hd.2 hl c st [] 0 (skipIdxOf skip) 0 _ pie _ (by simp [placedList, linesOk_nil])
    · simpa [CFrag.geo, ColBox.st] using hg
  | .columns id st cs flags kids => by
    intro hd hl c idx y bs skip cb pie adjL f hf
    unfold DecoOk at hd
    unfold LhOk at hl
    simp only [layoutBox] at hf
    have := columnsBoxLayout_fits lh _ ?_ c id idx st cs flags kids.length (sizeKids kids + 1) y bs skip cb pie adjL
      f hf
    · exact ⟨this.1, Or.inl (by simpa [ColBox.st] using this.2)⟩
    · constructor
      · intro c' a x y' bs' σ pie' f' hf'
        dsimp only at hf'
        obtain ⟨g, rfl, _⟩ := finishBlock_frag _ _ _ _ _ _ _ _ hf'
        refine ⟨rfl, ?_⟩
        simp only [placedLines]
        apply linesOk_placedList_anyPie lh c' bs' _ pie'
        apply linesOk_mono c' bs' _ _
          (prepareC_bs_le true c'.base (columnStyle st) y' bs' σ false pie' [] (columnStyle_decoOk st))
        exact kids_fits lh kids hd.2 hl c' (columnStyle st) _ 0 _ a _ pie' _ (by simp [placedList, linesOk_nil])
      · intro c' i y' bs' σ pie' adjL' f' hf'
        exact nth_fits lh kids hd.2 hl c' i y' bs' σ cb pie' adjL' f' hf'
theorem nth_fits (lh : Nat → Rat) : (kids : List ColBox) → DecoOkList kids → LhOkList lh kids → ∀ (c : CCtx) (i : Nat)
    (y bs : Rat) (skip : Option Resume) (cb pie : Bool) (adjL : List Rat) (f : CFrag),
    (layoutNth c kids i y bs skip cb pie adjL).frag = some f → LinesOk c bs (placedLines lh f pie)
  | [] => by
    intro _ _ c i y bs skip cb pie adjL f hf
    simp [layoutNth, raisedResult] at hf
  | b :: rest => by
    intro hd hl c i y bs skip cb pie adjL f hf
    unfold DecoOkList at hd
    unfold LhOkList at hl
    cases i with
    | zero =>
      simp only [layoutNth] at hf
      exact (box_fits lh b hd.1 hl.1 c 0 y bs skip cb pie adjL f hf).1
    | succ i =>
      simp only [layoutNth] at hf
      exact nth_fits lh rest hd.2 hl.2 c i y bs skip cb pie adjL f hf
theorem kids_fits (lh : Nat → Rat) : (rest : List ColBox) → DecoOkList rest → LhOkList lh rest → ∀ (c : CCtx)
    (st : PStyle) (flags : List Bool) (index skipIdx base : Nat) (bs : Rat) (pie : Bool) (s : KidsLoop),
    LinesOk c bs (placedList lh s.newChildren pie) →
    LinesOk c bs (placedList lh (layoutKids c st rest flags index skipIdx base bs pie s).children pie)
  | [] => by
    intro _ _ c st flags index skipIdx base bs pie s hs
    simpa [layoutKids, KidsOutcome.children] using hs
  | child :: rest => by
    intro hd hl c st flags index skipIdx base bs pie s hs
    unfold DecoOkList at hd
    unfold LhOkList at hl
    unfold layoutKids
    split
    · exact kids_fits lh rest hd.2 hl.2 c st flags.tail (index + 1) skipIdx base bs pie s hs
    · split
      · simpa [KidsOutcome.children] using hs
      · dsimp only
        split
        · simpa [KidsOutcome.children] using hs
        · split
          · exact linesOk_nil c bs
          · split
            · -- first pass kept (or discarded) the child
              rename_i frag posY hfp
              have hfrag : ∀ f, frag = some f →
                  LinesOk c bs (placedLines lh f (pie && s.newChildren.isEmpty)) := by
                intro f hf
                rcases firstPass_keep _ _ _ _ _ _ _ hfp with h | h
                · rw [h] at hf; cases hf
                · rw [h] at hf
                  exact (box_fits lh child hd.1 hl.1 _ _ _ _ _ _ _ _ f hf).1
              split
              · rename_i out s3 heq
                refine (concludeKid_fits lh c bs _ pie _ child _ _ _ ?_ ?_).1 out s3 heq
                · simpa using hs
                · simpa using hfrag
              · rename_i s3 heq
                refine kids_fits lh rest hd.2 hl.2 c st flags.tail (index + 1) skipIdx base bs pie s3
                  ((concludeKid_fits lh c bs _ pie _ child _ _ _ ?_ ?_).2 s3 heq)
                · simpa using hs
                · simpa using hfrag
            · -- second layout with a larger bottom space
              rename_i bs' hfp
              obtain ⟨f1, hf1, hbs'⟩ := firstPass_redo _ _ _ _ _ _ hfp
              have hle : bs ≤ bs' := by
                have h1 := (box_fits lh child hd.1 hl.1 _ _ _ _ _ _ _ _ f1 hf1).2
                have h2 := DecoOk.pbbb child hd.1
                rcases h1 with ⟨h3, h4⟩ | ⟨h3, h4⟩ <;> rw [hbs', h3, h4] <;> grind
              split
              · exact linesOk_nil c bs
              · have hfrag : ∀ f,
                    (layoutBox c child (index - base) s.posY bs' s.skip st.isRoot (pie && s.newChildren.isEmpty)
                      (s.setCur (layoutBox c child (index - base) s.posY bs s.skip st.isRoot
                        (pie && s.newChildren.isEmpty) s.cur).adjL s.curIsL).cur).frag = some f →
                    LinesOk c bs (placedLines lh f (pie && s.newChildren.isEmpty)) := by
                  intro f hf
                  exact linesOk_mono c bs bs' _ hle (box_fits lh child hd.1 hl.1 _ _ _ _ _ _ _ _ f hf).1
                split
                · rename_i out s3 heq
                  refine (concludeKid_fits lh c bs _ pie _ child _ _ _ ?_ ?_).1 out s3 heq
                  · simpa using hs
                  · simpa using hfrag
                · rename_i s3 heq
                  refine kids_fits lh rest hd.2 hl.2 c st flags.tail (index + 1) skipIdx base bs pie s3
                    ((concludeKid_fits lh c bs _ pie _ child _ _ _ ?_ ?_).2 s3 heq)
                  · simpa using hs
                  · simpa using hfrag
end

end Wp.PMC
