/-
Post-condition of `layoutBox` for every document (fixed heights allowed) and its proof for paragraphs.
-/
import WpModel.Lemmas.LossyEarlier
import WpModel.Lemmas.SegmentPara

namespace Wp.PM
open Wp

/-- What a layout returning a fragment guarantees, fixed heights allowed (`fl` = some ancestor has a fixed
height): with no resume position the fragment is complete unless under a fixed height (`PartT`); with a resume
position, fragment + rest are sandwiched between the free lines and all lines asked for, and the position is
strictly later. -/
def BoxPostT (box : PBox) (skip : Option Resume) (fl : Bool) (frag : Option Frag) (resume : Option Resume) : Prop :=
  ∀ f, frag = some f → match resume with
    | none => PartT f box skip fl
    | some ρ => PartT f box skip true ∧
        SandT fl (fragLines f) (linesFrom box (some ρ)) (freeFrom box (some ρ)) (linesFrom box skip) (freeFrom box skip) ∧
        pos box skip < pos box (some ρ)

theorem boxPostT_none (box : PBox) (skip resume : Option Resume) (fl : Bool) : BoxPostT box skip fl none resume := by
  intro f h; cases h

theorem forgetIfFixed_cases (st : PStyle) (b : BoxSt) (posY : Rat) (r : Option Resume) :
    forgetIfFixed st b posY r = r ∨ (forgetIfFixed st b posY r = none ∧ fixedSt st = true) := by
  unfold forgetIfFixed fixedSt
  split
  · split
    · right; simp [*]
    · left; rfl
  · left; rfl

theorem finishPara_fragT (c : Ctx) (st : PStyle) (p : Prep) (pie : Bool) (id idx n : Nat) (R : LineResult)
    (f : Frag) (h : (finishPara c st p pie id idx n R).frag = some f) :
    R.abort = false ∧ (∃ g, f = .para id idx st n g R.lines) ∧
    ∃ b posY, (finishPara c st p pie id idx n R).resume =
      if R.stop then forgetIfFixed st b posY R.resume else none := by
  unfold finishPara at h ⊢
  dsimp only at h ⊢
  cases ha : R.abort with
  | true => rw [ha] at h; simp [abortResult] at h
  | false =>
    rw [ha] at h
    simp only [Bool.false_eq_true, ↓reduceIte] at h ⊢
    obtain ⟨hg, hr⟩ := finishContainer_frag _ _ _ _ _ _ _ _ _ _ _ _ _ _ _ _ _ _ h
    exact ⟨trivial, hg, _, _, hr⟩

theorem para_specT (id n : Nat) (lineH : Rat) (st : PStyle) (hw : WellFormed (.para id n lineH st))
    (c : Ctx) (idx : Nat) (y bs : Rat) (skip : Option Resume) (cb pie : Bool) (adjL : List Rat) (fl : Bool) :
    BoxPostT (.para id n lineH st) skip fl
      (layoutBox c (.para id n lineH st) idx y bs skip cb pie adjL).frag
      (layoutBox c (.para id n lineH st) idx y bs skip cb pie adjL).resume := by
  simp only [WellFormed] at hw
  obtain ⟨ho, _⟩ := hw
  intro f hf
  simp only [layoutBox] at hf ⊢
  obtain ⟨hab, ⟨g, rfl⟩, b, posY, hres⟩ := finishPara_fragT _ _ _ _ _ _ _ _ _ hf
  rw [hres]
  obtain ⟨h1, h2⟩ := linebox_spec _ _ _ _ _ _ _ _ _ _ _ ho hab
  have hk : skipLine (subSkipOf skip) = paraStart skip := rfl
  rw [hk] at h1 h2
  split
  · -- no resume position
    rename_i hnone
    split at hnone
    · rename_i hstop
      obtain ⟨m, hm1, hmn, hl, hr⟩ := h2 hstop
      rw [hr] at hnone
      rcases forgetIfFixed_cases st b posY (some (Resume.node 0 (some (Resume.line (paraStart skip + m))))) with h | h
      · rw [h] at hnone; cases hnone
      · simp only [PartT, true_and]
        exact ⟨m, hl, by omega, by simp [h.2]⟩
    · rename_i hstop
      simp only [PartT, true_and]
      exact ⟨n - paraStart skip, h1 (by simpa using hstop), by omega, fun _ => rfl⟩
  · rename_i ρ hsome
    split at hsome
    · rename_i hstop
      obtain ⟨m, hm1, hmn, hl, hr⟩ := h2 hstop
      rw [hr] at hsome
      rcases forgetIfFixed_cases st b posY (some (Resume.node 0 (some (Resume.line (paraStart skip + m))))) with h | h
      · rw [h] at hsome
        simp only [Option.some.injEq] at hsome
        subst hsome
        have hps : paraStart (some (Resume.node 0 (some (Resume.line (paraStart skip + m))))) =
            paraStart skip + m := rfl
        refine ⟨?_, ?_, ?_⟩
        · simp only [PartT, true_and]
          exact ⟨m, hl, by omega, by simp⟩
        · simp only [fragLines]
          exact para_sandT id n lineH st skip _ fl _ m hl hps (by omega)
        · simp only [pos]
          rw [hps]
          omega
      · rw [h.1] at hsome; cases hsome
    · cases hsome

end Wp.PM
