/-
Lemmas on the anonymous-table rules of Model/AnonBoxes.lean (`table_boxes_children`,
`wrap_improper`, `wrap_table`) used by Props/C08.lean.  Core Lean only.
-/
import WpModel.Model.AnonBoxes

namespace Wp.Bx
open KBox

/-- A table wrapper: the anonymous block / inline-block `wrap_table` returns. -/
def IsWrapper (w : KBox) : Prop :=
  w.inst.wrapper = true ∧ (w.kind = .BlockBox ∨ w.kind = .InlineBlockBox)

/-- What `wrap_improper` puts in place of a run of improper children: the result of
`table_boxes_children` on a fresh anonymous box of class `wt`. -/
def WrappedAs (wt : BoxKind) (o : KBox) : Prop :=
  if Gen.isSub wt .TableBox = true then IsWrapper o else o.kind = wt ∧ o.inst.wrapper = false

theorem initInst_wrapper (cls : BoxKind) (e : El) : (initInst cls e).wrapper = false := by
  unfold initInst; split <;> rfl

theorem anonFrom_kind (cls : BoxKind) (p : KBox) (ks : List KBox) : (anonFrom cls p ks).kind = cls := rfl

theorem anonFrom_wrapper (cls : BoxKind) (p : KBox) (ks : List KBox) :
    (anonFrom cls p ks).inst.wrapper = false := by
  simp [anonFrom, KBox.inst, initInst_wrapper]

theorem wrapTable_isWrapper (n : Nat) (box : KBox) (children : List KBox) (w : KBox)
    (h : wrapTable n box children = .ok w) : IsWrapper w := by
  cases n with
  | zero => unfold wrapTable at h; cases h
  | succ n =>
    unfold wrapTable at h
    split at h
    · cases h
    · split at h
      · cases h
      · split at h
        · cases h
        · simp only at h
          split at h
          · cases h
          · split at h
            · cases h
            · cases h
              refine ⟨by simp [KBox.withInst, KBox.withStyle, KBox.inst, anonFrom], ?_⟩
              simp only [KBox.withInst, KBox.withStyle, anonFrom, KBox.kind]
              split <;> simp

/-- Class and wrapper flag of the result of `table_boxes_children`. -/
theorem tbc_result (n : Nat) (box : KBox) (children : List KBox) (r : KBox)
    (h : tbc n box children = .ok r) :
    if Gen.isSub box.kind .TableBox = true then IsWrapper r
    else r.kind = box.kind ∧ r.inst.wrapper = box.inst.wrapper := by
  cases n with
  | zero => unfold tbc at h; cases h
  | succ n =>
    unfold tbc at h
    simp only at h
    split at h
    · cases h
    · split at h
      · cases h
      · split at h
        · cases h
        · split at h
          · rename_i ht
            rw [if_pos ht]
            exact wrapTable_isWrapper n box _ r h
          · rename_i ht
            rw [if_neg ht]
            cases h
            obtain ⟨k, st, el, inst, text, kids, cols⟩ := box
            exact ⟨rfl, rfl⟩

theorem wrappedAs_of_tbc (n : Nat) (wt : BoxKind) (box : KBox) (l : List KBox) (w : KBox)
    (hw : tbc n (anonFrom wt box []) l = .ok w) : WrappedAs wt w := by
  have := tbc_result n _ _ _ hw
  rw [anonFrom_kind, anonFrom_wrapper] at this
  exact this

/-- Every output of `wrap_improper` is an input that passes the test, or a wrapper of the class. -/
theorem wrapImproper_spec : ∀ (n : Nat) (box : KBox) (children : List KBox) (wt : BoxKind)
    (test : KBox → Bool) (improper out : List KBox),
    wrapImproper n box children wt test improper = .ok out →
    ∀ o ∈ out, (o ∈ children ∧ test o = true) ∨ WrappedAs wt o
  | 0, box, children, wt, test, improper, out, h => by unfold wrapImproper at h; cases h
  | n + 1, box, [], wt, test, improper, out, h => by
    unfold wrapImproper at h
    split at h
    · split at h
      · cases h
      · rename_i w hw
        cases h
        intro o ho
        simp only [List.mem_singleton] at ho
        subst ho
        right
        exact wrappedAs_of_tbc n wt box _ o hw
    · cases h; intro o ho; cases ho
  | n + 1, box, c :: cs, wt, test, improper, out, h => by
    unfold wrapImproper at h
    split at h
    · rename_i htest
      split at h
      · split at h
        · cases h
        · rename_i w hw
          split at h
          · cases h
          · rename_i rest hrest
            cases h
            intro o ho
            cases ho with
            | head =>
              right
              exact wrappedAs_of_tbc n wt box _ w hw
            | tail _ ho' =>
              cases ho' with
              | head => exact Or.inl ⟨List.mem_cons_self, htest⟩
              | tail _ ho'' =>
                rcases wrapImproper_spec n box cs wt test [] rest hrest o ho'' with ⟨h1, h2⟩ | h1
                · exact Or.inl ⟨List.mem_cons_of_mem _ h1, h2⟩
                · exact Or.inr h1
      · split at h
        · cases h
        · rename_i rest hrest
          cases h
          intro o ho
          cases ho with
          | head => exact Or.inl ⟨List.mem_cons_self, htest⟩
          | tail _ ho' =>
            rcases wrapImproper_spec n box cs wt test [] rest hrest o ho' with ⟨h1, h2⟩ | h1
            · exact Or.inl ⟨List.mem_cons_of_mem _ h1, h2⟩
            · exact Or.inr h1
    · intro o ho
      rcases wrapImproper_spec n box cs wt test (c :: improper) out h o ho with ⟨h1, h2⟩ | h1
      · exact Or.inl ⟨List.mem_cons_of_mem _ h1, h2⟩
      · exact Or.inr h1


/-- No wrapper is made when every child passes the test. -/
theorem wrapImproper_all_pass : ∀ (n : Nat) (box : KBox) (children : List KBox) (wt : BoxKind)
    (test : KBox → Bool) (out : List KBox), (∀ c ∈ children, test c = true) →
    wrapImproper n box children wt test [] = .ok out → out = children
  | 0, box, children, wt, test, out, _, h => by unfold wrapImproper at h; cases h
  | n + 1, box, [], wt, test, out, _, h => by
    unfold wrapImproper at h
    simp at h
    exact h
  | n + 1, box, c :: cs, wt, test, out, hall, h => by
    unfold wrapImproper at h
    rw [if_pos (hall c List.mem_cons_self)] at h
    simp only [List.isEmpty_nil, Bool.not_true, Bool.false_eq_true, if_false] at h
    split at h
    · cases h
    · rename_i rest hrest
      cases h
      rw [wrapImproper_all_pass n box cs wt test rest (fun d hd => hall d (List.mem_cons_of_mem _ hd)) hrest]

theorem mem_rule13Last (l : List KBox) : ∀ o ∈ rule13Last l, o ∈ l := by
  intro o ho
  unfold rule13Last at ho
  split at ho
  · split at ho
    · exact (List.dropLast_subset _) ho
    · exact ho
  · exact ho

theorem mem_rule13First (l : List KBox) : ∀ o ∈ rule13First l, o ∈ l := by
  intro o ho
  unfold rule13First at ho
  split at ho
  · split at ho
    · exact List.mem_cons_of_mem _ ho
    · exact ho
  · exact ho

theorem mem_rule13 (l : List KBox) : ∀ o ∈ rule13 l, o ∈ l := by
  intro o ho
  unfold rule13 at ho
  split at ho
  · exact mem_rule13Last l o (mem_rule13First _ o ho)
  · exact ho

theorem mem_rule14 (l : List KBox) : ∀ (prev : Option KBox), ∀ o ∈ rule14 prev l, o ∈ l := by
  induction l with
  | nil => intro prev o ho; simp [rule14] at ho
  | cons c cs ih =>
    intro prev o ho
    unfold rule14 at ho
    split at ho
    · exact List.mem_cons_of_mem _ (ih _ o ho)
    · cases ho with
      | head => exact List.mem_cons_self
      | tail _ h' => exact List.mem_cons_of_mem _ (ih _ o h')

theorem isA_kind_iff (c : KBox) (k : BoxKind) (cls : BoxClass)
    (h : ∀ j : BoxKind, Gen.isSub j cls = true ↔ j = k) : c.isA cls = true ↔ c.kind = k := by
  unfold KBox.isA; exact h c.kind

theorem isA_cell_iff (c : KBox) : c.isA .TableCellBox = true ↔ c.kind = .TableCellBox :=
  isA_kind_iff c _ _ (by intro j; cases j <;> decide)

theorem isA_row_iff (c : KBox) : c.isA .TableRowBox = true ↔ c.kind = .TableRowBox :=
  isA_kind_iff c _ _ (by intro j; cases j <;> decide)

theorem isA_col_iff (c : KBox) : c.isA .TableColumnBox = true ↔ c.kind = .TableColumnBox :=
  isA_kind_iff c _ _ (by intro j; cases j <;> decide)

theorem wrappedAs_kind (wt : BoxKind) (o : KBox) (h : WrappedAs wt o) (hwt : Gen.isSub wt .TableBox = false) :
    o.kind = wt := by
  unfold WrappedAs at h
  rw [if_neg (by simp [hwt])] at h
  exact h.1

/-- Rule 2.3 + 3.x on a row: the children of a `TableRowBox` are cells. -/
theorem tbc_row (n : Nat) (box : KBox) (children : List KBox) (r : KBox) (hk : box.kind = .TableRowBox)
    (h : tbc (n + 1) box children = .ok r) :
    ∃ ks, r = box.withKids ks ∧ ∀ o ∈ ks, o.kind = .TableCellBox := by
  unfold tbc at h
  simp only [hk] at h
  simp only [show Gen.isSub .TableRowBox .TableColumnBox = false from rfl,
    show Gen.isSub .TableRowBox .TableColumnGroupBox = false from rfl,
    show Gen.isSub .TableRowBox .TableBox = false from rfl,
    show Gen.isSub .TableRowBox .TableRowGroupBox = false from rfl,
    show Gen.isSub .TableRowBox .TableRowBox = true from rfl,
    show Gen.isSub .TableRowBox .InlineBox = false from rfl,
    Bool.false_eq_true, if_false, if_true] at h
  split at h
  · cases h
  · rename_i c2 h2
    have hcells : ∀ o ∈ c2, o.kind = .TableCellBox := by
      intro o ho
      rcases wrapImproper_spec n box _ _ _ [] c2 h2 o ho with ⟨_, ht⟩ | hw
      · exact (isA_cell_iff o).1 ht
      · exact wrappedAs_kind _ o hw rfl
    split at h
    · cases h
    · rename_i c3 h3
      cases h
      have : c3 = c2 := by
        refine wrapImproper_all_pass n box c2 _ _ c3 ?_ h3
        intro c hc
        have := hcells c hc
        simp [this, show Gen.properTableChild .TableCellBox = false from rfl]
      subst this
      exact ⟨c3, rfl, hcells⟩

/-- Rule 2.2 + 3.x on a row group: the children of a `TableRowGroupBox` are rows. -/
theorem tbc_row_group (n : Nat) (box : KBox) (children : List KBox) (r : KBox)
    (hk : box.kind = .TableRowGroupBox) (h : tbc (n + 1) box children = .ok r) :
    ∃ ks, r = box.withKids ks ∧ ∀ o ∈ ks, o.kind = .TableRowBox := by
  unfold tbc at h
  simp only [hk] at h
  simp only [show Gen.isSub .TableRowGroupBox .TableColumnBox = false from rfl,
    show Gen.isSub .TableRowGroupBox .TableColumnGroupBox = false from rfl,
    show Gen.isSub .TableRowGroupBox .TableBox = false from rfl,
    show Gen.isSub .TableRowGroupBox .TableRowGroupBox = true from rfl,
    show Gen.isSub .TableRowGroupBox .TableRowBox = false from rfl,
    show Gen.isSub .TableRowGroupBox .InlineBox = false from rfl,
    Bool.false_eq_true, if_false, if_true] at h
  split at h
  · cases h
  · rename_i c1 h1
    have hrows : ∀ o ∈ c1, o.kind = .TableRowBox := by
      intro o ho
      rcases wrapImproper_spec n box _ _ _ [] c1 h1 o ho with ⟨_, ht⟩ | hw
      · exact (isA_row_iff o).1 ht
      · exact wrappedAs_kind _ o hw rfl
    split at h
    · cases h
    · rename_i c2 h2
      have e2 : c2 = c1 := by
        refine wrapImproper_all_pass n box c1 _ _ c2 ?_ h2
        intro c hc
        have hr := hrows c hc
        have : c.isA .TableCellBox = false := by
          cases hcell : c.isA .TableCellBox
          · rfl
          · rw [(isA_cell_iff c).1 hcell] at hr; cases hr
        simp [this]
      subst e2
      split at h
      · cases h
      · rename_i c3 h3
        cases h
        have e3 : c3 = c2 := by
          refine wrapImproper_all_pass n box c2 _ _ c3 ?_ h3
          intro c hc
          simp only [hrows c hc]
          decide
        subst e3
        exact ⟨c3, rfl, hrows⟩


/-! ### `wrap_table` -/

theorem sortTableKids_spec (l : List KBox) : ∀ (cols rows caps : List KBox),
    sortTableKids l = .ok (cols, rows, caps) →
    (∀ c ∈ cols, c ∈ l ∧ (c.kind = .TableColumnBox ∨ c.kind = .TableColumnGroupBox)) ∧
    (∀ c ∈ rows, c ∈ l ∧ (c.kind = .TableRowBox ∨ c.kind = .TableRowGroupBox)) ∧
    (∀ c ∈ caps, c ∈ l ∧ c.kind = .TableCaptionBox) := by
  induction l with
  | nil => intro cols rows caps h; unfold sortTableKids at h; cases h; simp
  | cons c cs ih =>
    intro cols rows caps h
    unfold sortTableKids at h
    split at h
    · cases h
    · rename_i cols0 rows0 caps0 hrec
      obtain ⟨i1, i2, i3⟩ := ih cols0 rows0 caps0 hrec
      have lift : ∀ {p : KBox → Prop} {l0 : List KBox}, (∀ x ∈ l0, x ∈ cs ∧ p x) → ∀ x ∈ l0, x ∈ c :: cs ∧ p x :=
        fun hh x hx => ⟨List.mem_cons_of_mem _ (hh x hx).1, (hh x hx).2⟩
      split at h
      · rename_i hk
        cases h
        refine ⟨?_, lift i2, lift i3⟩
        intro x hx
        cases hx with
        | head => exact ⟨List.mem_cons_self, by simpa using hk⟩
        | tail _ h' => exact lift i1 x h'
      · split at h
        · rename_i hk
          cases h
          refine ⟨lift i1, ?_, lift i3⟩
          intro x hx
          cases hx with
          | head => exact ⟨List.mem_cons_self, by simpa using hk⟩
          | tail _ h' => exact lift i2 x h'
        · split at h
          · rename_i hk
            cases h
            refine ⟨lift i1, lift i2, ?_⟩
            intro x hx
            cases hx with
            | head => exact ⟨List.mem_cons_self, by simpa using hk⟩
            | tail _ h' => exact lift i3 x h'
          · cases h

theorem withInst_kind (b : KBox) (i : Inst) : (b.withInst i).kind = b.kind := by
  obtain ⟨k, st, el, inst, text, kids, cols⟩ := b; rfl

theorem withKids_kind (b : KBox) (ks : List KBox) : (b.withKids ks).kind = b.kind := by
  obtain ⟨k, st, el, inst, text, kids, cols⟩ := b; rfl

theorem splitGroups_kinds (l : List KBox) : ∀ (h f : Option KBox) (acc : List KBox),
    (∀ x, h = some x → x.kind = .TableRowGroupBox) → (∀ x, f = some x → x.kind = .TableRowGroupBox) →
    (∀ x ∈ acc, x.kind = .TableRowGroupBox) → (∀ x ∈ l, x.kind = .TableRowGroupBox) →
    (∀ x, (splitGroups l h f acc).1 = some x → x.kind = .TableRowGroupBox) ∧
    (∀ x, (splitGroups l h f acc).2.1 = some x → x.kind = .TableRowGroupBox) ∧
    (∀ x ∈ (splitGroups l h f acc).2.2, x.kind = .TableRowGroupBox) := by
  induction l with
  | nil => intro h f acc h1 h2 h3 _; simp only [splitGroups]; exact ⟨h1, h2, h3⟩
  | cons g gs ih =>
    intro h f acc h1 h2 h3 h4
    have hg := h4 g List.mem_cons_self
    have hgs : ∀ x ∈ gs, x.kind = .TableRowGroupBox := fun x hx => h4 x (List.mem_cons_of_mem _ hx)
    unfold splitGroups
    split
    · refine ih _ _ _ ?_ h2 h3 hgs
      intro x hx; cases hx; rw [withInst_kind]; exact hg
    · split
      · refine ih _ _ _ h1 ?_ h3 hgs
        intro x hx; cases hx; rw [withInst_kind]; exact hg
      · refine ih _ _ _ h1 h2 ?_ hgs
        intro x hx
        cases hx with
        | head => exact hg
        | tail _ h' => exact h3 x h'

theorem setGroups_kinds (gs : List KBox) : ∀ (os : List (List (List TableGrid.CellOut))) (k : BoxKind),
    (∀ x ∈ gs, x.kind = k) → ∀ x ∈ setGroups gs os, x.kind = k := by
  induction gs with
  | nil => intro os k _ x hx; simp [setGroups] at hx
  | cons g gs ih =>
    intro os k h x hx
    cases os with
    | nil => simp only [setGroups] at hx; exact h x hx
    | cons o os =>
      simp only [setGroups] at hx
      cases hx with
      | head => rw [withKids_kind]; exact h g List.mem_cons_self
      | tail _ h' => exact ih os k (fun y hy => h y (List.mem_cons_of_mem _ hy)) x h'

theorem setColGroups_kinds (gs : List KBox) : ∀ (os : List TableGrid.ColGroupOut) (k : BoxKind),
    (∀ x ∈ gs, x.kind = k) → ∀ x ∈ setColGroups gs os, x.kind = k := by
  induction gs with
  | nil => intro os k _ x hx; simp [setColGroups] at hx
  | cons g gs ih =>
    intro os k h x hx
    cases os with
    | nil => simp only [setColGroups] at hx; exact h x hx
    | cons o os =>
      simp only [setColGroups] at hx
      cases hx with
      | head => rw [withKids_kind, withInst_kind]; exact h g List.mem_cons_self
      | tail _ h' => exact ih os k (fun y hy => h y (List.mem_cons_of_mem _ hy)) x h'

theorem isA_rowgroup_iff (c : KBox) : c.isA .TableRowGroupBox = true ↔ c.kind = .TableRowGroupBox :=
  isA_kind_iff c _ _ (by intro j; cases j <;> decide)

theorem isA_colgroup_iff (c : KBox) : c.isA .TableColumnGroupBox = true ↔ c.kind = .TableColumnGroupBox :=
  isA_kind_iff c _ _ (by intro j; cases j <;> decide)

/-- The shape `wrap_table` gives to a table: an anonymous wrapper (inline-block for an inline table,
block otherwise) holding the top captions, the table, the bottom captions; the table's children are
row groups, its `column_groups` column groups; `float` and `position` move to the wrapper. -/
structure TableShape (box : KBox) (children : List KBox) (w : KBox) : Prop where
  wrapper : IsWrapper w
  kind : w.kind = if box.isA .InlineTableBox = true then .InlineBlockBox else .BlockBox
  anon : w.st.anon = true
  parts : ∃ top table bottom, w.kids = top ++ [table] ++ bottom ∧ table.kind = box.kind ∧
    (∀ c ∈ top ++ bottom, c.kind = .TableCaptionBox ∧ c ∈ children) ∧
    (∀ c ∈ top, c.st.capBottom = false) ∧ (∀ c ∈ bottom, c.st.capBottom = true) ∧
    (∀ g ∈ table.kids, g.kind = .TableRowGroupBox) ∧ (∀ g ∈ table.cols, g.kind = .TableColumnGroupBox) ∧
    (Gen.wrapperTakesFloat = true → w.st.flt = box.st.flt ∧ w.st.foot = box.st.foot ∧
      table.st.flt = false ∧ table.st.foot = false) ∧
    (Gen.wrapperTakesPosition = true → w.st.abs = box.st.abs ∧ w.st.run = box.st.run ∧
      table.st.abs = false ∧ table.st.run = false)

theorem wrapTable_shape (n : Nat) (box : KBox) (children : List KBox) (w : KBox)
    (h : wrapTable (n + 1) box children = .ok w) : TableShape box children w := by
  have hw := wrapTable_isWrapper (n + 1) box children w h
  unfold wrapTable at h
  split at h
  · cases h
  · rename_i columns rows allCaptions hsort
    obtain ⟨_, _, scaps⟩ := sortTableKids_spec children columns rows allCaptions hsort
    split at h
    · cases h
    · rename_i columnGroups hcg
      split at h
      · cases h
      · rename_i rowGroups0 hrg
        simp only at h
        split at h
        · cases h
        · split at h
          · cases h
          · rename_i out _
            cases h
            have hrg0 : ∀ x ∈ rowGroups0, x.kind = .TableRowGroupBox := by
              intro x hx
              rcases wrapImproper_spec n box rows _ _ [] rowGroups0 hrg x hx with ⟨_, ht⟩ | hwr
              · exact (isA_rowgroup_iff x).1 ht
              · exact wrappedAs_kind _ x hwr rfl
            have hcg0 : ∀ x ∈ columnGroups, x.kind = .TableColumnGroupBox := by
              intro x hx
              rcases wrapImproper_spec n box columns _ _ [] columnGroups hcg x hx with ⟨_, ht⟩ | hwr
              · exact (isA_colgroup_iff x).1 ht
              · exact wrappedAs_kind _ x hwr rfl
            obtain ⟨s1, s2, s3⟩ := splitGroups_kinds rowGroups0 none none [] (by simp) (by simp) (by simp) hrg0
            refine ⟨hw, ?_, ?_, ?_⟩
            · simp only [KBox.withInst, KBox.withStyle, anonFrom, KBox.kind]
            · simp [KBox.withInst, KBox.withStyle, anonFrom, KBox.st, anonStyle]
            · refine ⟨allCaptions.filter isTopCaption, _, allCaptions.filter (fun c => !isTopCaption c), rfl, ?_, ?_, ?_, ?_, ?_, ?_, ?_, ?_⟩
              · obtain ⟨k, st, el, inst, text, kids, cols⟩ := box; rfl
              · intro c hc
                simp only [List.mem_append, List.mem_filter] at hc
                rcases hc with hc | hc
                · exact ⟨(scaps c hc.1).2, (scaps c hc.1).1⟩
                · exact ⟨(scaps c hc.1).2, (scaps c hc.1).1⟩
              · intro c hc
                simp only [List.mem_filter, isTopCaption, Bool.not_eq_true'] at hc
                exact hc.2
              · intro c hc
                simp only [List.mem_filter, isTopCaption, Bool.not_not] at hc
                exact hc.2
              · intro g hg
                have : g ∈ setGroups ((splitGroups rowGroups0 none none []).1.toList ++
                    (splitGroups rowGroups0 none none []).2.2.reverse ++
                    (splitGroups rowGroups0 none none []).2.1.toList) out.groups := by
                  obtain ⟨k, st, el, inst, text, kids, cols⟩ := box
                  simpa [KBox.withKids, KBox.withCols, KBox.withStyle, KBox.kids] using hg
                refine setGroups_kinds _ _ _ ?_ g this
                intro x hx
                simp only [List.mem_append, Option.mem_toList, List.mem_reverse] at hx
                rcases hx with (hx | hx) | hx
                · exact s1 x hx
                · exact s3 x hx
                · exact s2 x hx
              · intro g hg
                have : g ∈ setColGroups columnGroups out.colGroups := by
                  obtain ⟨k, st, el, inst, text, kids, cols⟩ := box
                  simpa [KBox.withKids, KBox.withCols, KBox.withStyle, KBox.cols] using hg
                exact setColGroups_kinds _ _ _ hcg0 g this
              · intro hf
                obtain ⟨k, st, el, inst, text, kids, cols⟩ := box
                simp [KBox.withInst, KBox.withStyle, KBox.withKids, KBox.withCols, anonFrom, KBox.st, hf, anonStyle]
              · intro hp
                obtain ⟨k, st, el, inst, text, kids, cols⟩ := box
                simp [KBox.withInst, KBox.withStyle, KBox.withKids, KBox.withCols, anonFrom, KBox.st, hp, anonStyle]


/-! ### the remaining classes of parents -/

theorem internal_iff (j : BoxKind) :
    Gen.internalTableOrCaption j = (Gen.properTableChild j || j == .TableCellBox) := by
  cases j <;> rfl

theorem proper_parents_table (j : BoxKind) (h : Gen.properTableChild j = true) :
    (Gen.properParents j).contains .TableBox = true ∧ (Gen.properParents j).contains .InlineTableBox = true := by
  cases j <;> first | (exact absurd h (by decide)) | decide

theorem not_cell_of_proper (c : KBox) (h : Gen.properTableChild c.kind = true) : c.isA .TableCellBox = false := by
  cases hc : c.isA .TableCellBox
  · rfl
  · rw [(isA_cell_iff c).1 hc] at h; exact absurd h (by decide)

/-- Rules 2.1 + 3.x on a table: everything that is not a proper table child ends up in an anonymous
row; then `wrap_table`. -/
theorem tbc_table (n : Nat) (box : KBox) (children : List KBox) (r : KBox)
    (hk : box.kind = .TableBox ∨ box.kind = .InlineTableBox) (h : tbc (n + 1) box children = .ok r) :
    ∃ c3, TableShape box c3 r ∧ ∀ o ∈ c3, Gen.properTableChild o.kind = true := by
  have e1 : Gen.isSub box.kind .TableColumnBox = false := by rcases hk with hk | hk <;> rw [hk] <;> rfl
  have e2 : Gen.isSub box.kind .TableColumnGroupBox = false := by rcases hk with hk | hk <;> rw [hk] <;> rfl
  have e3 : Gen.isSub box.kind .TableBox = true := by rcases hk with hk | hk <;> rw [hk] <;> rfl
  have e4 : Gen.isSub box.kind .TableRowBox = false := by rcases hk with hk | hk <;> rw [hk] <;> rfl
  have e5 : Gen.isSub box.kind .InlineBox = false := by rcases hk with hk | hk <;> rw [hk] <;> rfl
  unfold tbc at h
  simp only [e1, e2, e3, e4, e5, Bool.false_eq_true, if_false, if_true] at h
  split at h
  · cases h
  · rename_i c1 h1
    have hp : ∀ o ∈ c1, Gen.properTableChild o.kind = true := by
      intro o ho
      rcases wrapImproper_spec n box _ _ _ [] c1 h1 o ho with ⟨_, ht⟩ | hw
      · exact ht
      · rw [wrappedAs_kind _ o hw rfl]; rfl
    split at h
    · cases h
    · rename_i c2 h2
      have e2' : c2 = c1 := by
        refine wrapImproper_all_pass n box c1 _ _ c2 ?_ h2
        intro c hc
        simp [not_cell_of_proper c (hp c hc)]
      subst e2'
      split at h
      · cases h
      · rename_i c3 h3
        have e3' : c3 = c2 := by
          refine wrapImproper_all_pass n box c2 _ _ c3 ?_ h3
          intro c hc
          have := proper_parents_table c.kind (hp c hc)
          rcases hk with hk | hk
          · rw [hk]; simp only [this.1, Bool.or_true]
          · rw [hk]; simp only [this.2, Bool.or_true]
        subst e3'
        cases n with
        | zero => unfold wrapTable at h; cases h
        | succ n => exact ⟨c3, wrapTable_shape n box c3 r h, hp⟩

/-- Parents that are no table part: no internal table box or caption is left among the children —
cells were put in anonymous rows, rows / groups / columns / captions in anonymous tables, which
`wrap_table` turned into wrappers. -/
theorem tbc_other (n : Nat) (box : KBox) (children : List KBox) (r : KBox)
    (e1 : Gen.isSub box.kind .TableColumnBox = false) (e2 : Gen.isSub box.kind .TableColumnGroupBox = false)
    (e3 : Gen.isSub box.kind .TableBox = false) (e4 : Gen.isSub box.kind .TableRowGroupBox = false)
    (e5 : Gen.isSub box.kind .TableRowBox = false)
    (hpp : ∀ j, (Gen.properParents j).contains box.kind = false)
    (h : tbc (n + 1) box children = .ok r) :
    ∃ ks, r = box.withKids ks ∧
      ∀ o ∈ ks, (o ∈ children ∧ Gen.internalTableOrCaption o.kind = false) ∨ IsWrapper o := by
  unfold tbc at h
  simp only [e1, e2, e3, e4, e5, Bool.false_eq_true, if_false] at h
  generalize hc0 : rule14 none (if Gen.tabularContainer box.kind = true then rule13 children else children) = c0 at h
  have hsub : ∀ o ∈ c0, o ∈ children := by
    intro o ho
    rw [← hc0] at ho
    have := mem_rule14 _ none o ho
    split at this
    · exact mem_rule13 _ o this
    · exact this
  split at h
  · cases h
  · rename_i c2 h2
    have hc2 : ∀ o ∈ c2, (o ∈ children ∧ o.isA .TableCellBox = false) ∨ o.kind = .TableRowBox := by
      intro o ho
      rcases wrapImproper_spec n box _ _ _ [] c2 h2 o ho with ⟨hm, ht⟩ | hw
      · exact Or.inl ⟨hsub o hm, by simpa using ht⟩
      · exact Or.inr (wrappedAs_kind _ o hw rfl)
    have key : ∀ (wt : BoxKind) (c3 : List KBox), Gen.isSub wt .TableBox = true →
        wrapImproper n box c2 wt (fun c => !Gen.properTableChild c.kind) [] = .ok c3 →
        ∀ o ∈ c3, (o ∈ children ∧ Gen.internalTableOrCaption o.kind = false) ∨ IsWrapper o := by
      intro wt c3 hwt h3 o ho
      rcases wrapImproper_spec n box _ _ _ [] c3 h3 o ho with ⟨hm, ht⟩ | hw
      · have hnp : Gen.properTableChild o.kind = false := by simpa using ht
        rcases hc2 o hm with ⟨hin, hcell⟩ | hrow
        · left
          refine ⟨hin, ?_⟩
          rw [internal_iff, hnp]
          cases hk : (o.kind == BoxKind.TableCellBox)
          · rfl
          · have : o.kind = .TableCellBox := by simpa using hk
            rw [(isA_cell_iff o).2 this] at hcell; cases hcell
        · rw [hrow] at hnp; exact absurd hnp (by decide)
      · right
        unfold WrappedAs at hw
        rw [if_pos hwt] at hw
        exact hw
    by_cases hin : Gen.isSub box.kind .InlineBox = true
    · -- the parent is an inline box: rule 3.2 with an inline table
      rw [if_pos hin] at h
      split at h
      · cases h
      · rename_i c3 h3
        cases h
        exact ⟨c3, rfl, key .InlineTableBox c3 rfl h3⟩
    · rw [if_neg hin] at h
      split at h
      · cases h
      · rename_i c3 h3
        cases h
        refine ⟨c3, rfl, key .TableBox c3 rfl ?_⟩
        have : (fun c : KBox => !Gen.properTableChild c.kind || (Gen.properParents c.kind).contains box.kind) =
            (fun c : KBox => !Gen.properTableChild c.kind) := by
          funext c; rw [hpp c.kind, Bool.or_false]
        rw [← this]; exact h3

/-- Rule 1.2: a column group keeps only columns, and gets anonymous ones when it has none. -/
theorem tbc_column_group (n : Nat) (box : KBox) (children : List KBox) (r : KBox)
    (hk : box.kind = .TableColumnGroupBox) (h : tbc (n + 1) box children = .ok r) :
    ∃ ks, r = box.withKids ks ∧ ks ≠ [] ∧ ∀ o ∈ ks, o.kind = .TableColumnBox := by
  unfold tbc at h
  simp only [hk] at h
  simp only [show Gen.isSub .TableColumnGroupBox .TableColumnBox = false from rfl,
    show Gen.isSub .TableColumnGroupBox .TableColumnGroupBox = true from rfl,
    show Gen.isSub .TableColumnGroupBox .TableBox = false from rfl,
    show Gen.isSub .TableColumnGroupBox .TableRowGroupBox = false from rfl,
    show Gen.isSub .TableColumnGroupBox .TableRowBox = false from rfl,
    show Gen.isSub .TableColumnGroupBox .InlineBox = false from rfl,
    show Gen.tabularContainer .TableColumnGroupBox = false from rfl,
    Bool.false_eq_true, if_false, if_true] at h
  generalize hc0 : (if (List.filter (fun c => c.isA BoxClass.TableColumnBox) children).isEmpty = true then
      List.replicate (groupSpan box) (anonFrom BoxKind.TableColumnBox box [])
    else List.filter (fun c => c.isA BoxClass.TableColumnBox) children) = cols at h
  have hcols : cols ≠ [] ∧ ∀ o ∈ cols, o.kind = .TableColumnBox := by
    rw [← hc0]
    split
    · refine ⟨?_, fun o ho => by rw [(List.mem_replicate.mp ho).2]; rfl⟩
      have hpos : 0 < groupSpan box := by
        unfold groupSpan elSpan
        split
        · rename_i hne
          cases hkk : box.kids with
          | nil => simp [hkk] at hne
          | cons a as => simp
        · split
          · rename_i v _
            have : (1 : Int) ≤ max v 1 := Int.le_max_right v 1
            omega
          · omega
      intro he
      have := congrArg List.length he
      simp at this
      omega
    · rename_i hne
      refine ⟨by simpa using hne, ?_⟩
      intro o ho
      exact (isA_col_iff o).1 (List.mem_filter.mp ho).2
  -- rule 1.4 cannot drop a column: it only drops white-space text
  have h14 : rule14 none cols = cols := by
    have : ∀ (prev : Option KBox) (l : List KBox), (∀ o ∈ l, o.kind = .TableColumnBox) → rule14 prev l = l := by
      intro prev l
      induction l generalizing prev with
      | nil => intro _; rfl
      | cons c cs ih =>
        intro hl
        unfold rule14 rule14Drop
        have hc : isWhitespace c = false := by
          unfold isWhitespace KBox.isA
          rw [hl c List.mem_cons_self]; rfl
        simp only [hc, Bool.and_false, Bool.false_eq_true, if_false]
        rw [ih _ (fun o ho => hl o (List.mem_cons_of_mem _ ho))]
    exact this none cols hcols.2
  rw [h14] at h
  split at h
  · cases h
  · rename_i c2 h2
    have e2 : c2 = cols := by
      refine wrapImproper_all_pass n box cols _ _ c2 ?_ h2
      intro c hc
      have : c.isA .TableCellBox = false := by
        unfold KBox.isA; rw [hcols.2 c hc]; rfl
      simp [this]
    subst e2
    split at h
    · cases h
    · rename_i c3 h3
      cases h
      have e3 : c3 = c2 := by
        refine wrapImproper_all_pass n box c2 _ _ c3 ?_ h3
        intro c hc
        simp only [hcols.2 c hc]
        decide
      subst e3
      exact ⟨c3, rfl, hcols⟩

/-- Rule 1.1: a column has no children. -/
theorem tbc_column (n : Nat) (box : KBox) (children : List KBox) (r : KBox)
    (hk : box.kind = .TableColumnBox) (h : tbc (n + 2) box children = .ok r) : r = box.withKids [] := by
  unfold tbc at h
  simp only [hk] at h
  simp only [show Gen.isSub .TableColumnBox .TableColumnBox = true from rfl,
    show Gen.isSub .TableColumnBox .TableBox = false from rfl,
    show Gen.isSub .TableColumnBox .TableRowGroupBox = false from rfl,
    show Gen.isSub .TableColumnBox .TableRowBox = false from rfl,
    show Gen.isSub .TableColumnBox .InlineBox = false from rfl,
    show Gen.tabularContainer .TableColumnBox = false from rfl,
    Bool.false_eq_true, if_false, if_true, rule14] at h
  unfold wrapImproper at h
  simp only [List.isEmpty_nil, Bool.not_true, Bool.false_eq_true, if_false] at h
  cases h
  rfl

end Wp.Bx
