/-
C17 helper development (no Mathlib): from a grammar on the *laid-out* box tree (blocks, lines, inline
boxes, atomic inlines, tables with row groups / rows / cells; anything may be positioned, floated or
create a context) to `okCtx` of what the dispatcher builds, and from the items due on the box tree
(`dueN`) to `expN` of the built structure.  With `PaintCount.lean`: paint-once for whole pages, every
item kind.
-/
import WpModel.Lemmas.PaintCount
import WpModel.Lemmas.PaintOnceTransfer

set_option linter.unusedSimpArgs false
set_option linter.unusedVariables false

namespace Wp.Stacking
open Wp Wp.Gen

/-! ### `okCtxL` is a `∀ ∈` -/

theorem okCtxL_iff (l : List Node) : okCtxL l ↔ ∀ n ∈ l, okCtx n := by
  induction l with
  | nil => simp [okCtxL]
  | cons x xs ih => simp [okCtxL, ih]

theorem okCtxL_nil : okCtxL [] := by simp [okCtxL]

theorem okCtxL_append {l m : List Node} (h1 : okCtxL l) (h2 : okCtxL m) : okCtxL (l ++ m) := by
  rw [okCtxL_iff] at *
  intro n hn
  rcases List.mem_append.mp hn with h | h
  · exact h1 n h
  · exact h2 n h

theorem okCtxL_filter {l : List Node} (p : Node → Bool) (h : okCtxL l) : okCtxL (l.filter p) := by
  rw [okCtxL_iff] at *
  intro n hn
  exact h n (List.mem_filter.mp hn).1

theorem okCtxL_sortZ {l : List Node} (h : okCtxL l) : okCtxL (sortZ l) := by
  rw [okCtxL_iff] at *
  intro n hn
  exact h n ((sortZ_perm l).mem_iff.mp hn)

/-- The body condition of a context root on dispatched children. -/
def bodyOK2 (a : Attrs) (ks : List Node) : Prop :=
  (a.kind.drawInline = true ∧ lastIsLine ks = false ∧ okInlineL ks) ∨
  (a.kind.drawInline = false ∧
    ((okFlowL ks ∧ lastIsLine ks = false) ∨ (lastIsLine ks = true ∧ okInlineL ks)))

theorem okCtx_mkCtx_node (a : Attrs) (ks own blocks floats bc : List Node)
    (hroot : rootPainted a) (hx : a.kind.dilText = false) (hr : a.kind.drawReplaced = false)
    (hb : blocks = (Node.regionL ks).filter Node.isBlockLevel)
    (hc : bc = (Node.regionL ks).filter Node.isBlockOrCell)
    (hown : okCtxL own) (hfl : okCtxL floats) (hbody : bodyOK2 a ks) :
    okCtx (mkCtx (.node a ks) own blocks floats bc) := by
  simp only [mkCtx, splitZ_eq, okCtx]
  exact ⟨hroot, hx, hr, hb, hc, okCtxL_sortZ (okCtxL_filter _ hown), okCtxL_filter _ hown,
    okCtxL_sortZ (okCtxL_filter _ hown), hfl, hbody⟩

theorem okCtx_mkCtx_leaf (a : Attrs) (own : List Node)
    (h2 : a.kind.drawOwnDecoration = true) (h6 : a.kind.drawInline = false) (hx : a.kind.dilText = false)
    (hown : okCtxL own) : okCtx (mkCtx (.leaf a) own [] [] []) := by
  simp only [mkCtx, splitZ_eq, okCtx]
  exact ⟨h2, h6, hx, trivial, trivial, okCtxL_sortZ (okCtxL_filter _ hown), okCtxL_filter _ hown,
    okCtxL_sortZ (okCtxL_filter _ hown), okCtxL_nil⟩

/-! ### The grammar on laid-out boxes -/

/-- What a box that leaves the tree (or an atomic inline) must satisfy: painted root class, and a
block-container / inline body. -/
def leafUnitOK (a : Attrs) : Prop :=
  a.kind.drawOwnDecoration = true ∧ a.kind.drawInline = false ∧ a.kind.dilText = false

mutual
def hInline : Box → Prop
  | .ph b => hInline b
  | .leaf a =>
    if leavesTree a || a.kind.dispStackingClass then
      leafUnitOK a ∧ (leavesTree a = false → a.kind.dilAllowed = true)
    else
      a.kind.dispBlockLevel = false ∧ a.kind.dispCell = false ∧ a.kind.drawTable = false ∧
      a.kind.dilInlineOrLine = false ∧ a.kind.dilTextChild = a.kind.dilText ∧
      ((a.kind.dilText = true ∧ noDeco a ∧ a.kind.drawReplaced = false ∧ a.kind.dilInlineReplaced = false) ∨
       (a.kind.dilText = false ∧ a.kind.dilInlineReplaced = true ∧ a.kind.drawReplaced = true))
  | .node a kids =>
    if leavesTree a || a.kind.dispStackingClass then
      rootPainted a ∧ (leavesTree a = false → a.kind.dilAllowed = true) ∧ a.kind.dilText = false ∧
      a.kind.drawReplaced = false ∧
      ((a.kind.drawInline = true ∧ lastIsLine (listS kids).1 = false ∧ hInlineL kids) ∨
       (a.kind.drawInline = false ∧
         ((hFlowL kids ∧ lastIsLine (listS kids).1 = false) ∨
          (lastIsLine (listS kids).1 = true ∧ hInlineL kids))))
    else
      a.kind.dispBlockLevel = false ∧ a.kind.dispCell = false ∧ a.kind.drawTable = false ∧
      a.kind.dilInlineOrLine = true ∧ a.kind.dilTextChild = false ∧ a.kind.dilText = false ∧
      a.kind.drawReplaced = false ∧ hInlineL kids
def hInlineL : List Box → Prop
  | [] => True
  | b :: bs => hInline b ∧ hInlineL bs
def hFlow : Box → Prop
  | .ph b => hFlow b
  | .leaf a =>
    if leavesTree a then leafUnitOK a
    else a.kind.dispStackingClass = false ∧ a.kind.dispBlockLevel = true ∧ a.kind.dispCell = false ∧
      a.kind.drawTable = false ∧ a.kind.dilText = false
  | .node a kids =>
    if leavesTree a then
      rootPainted a ∧ a.kind.dilText = false ∧ a.kind.drawReplaced = false ∧
      ((a.kind.drawInline = true ∧ lastIsLine (listS kids).1 = false ∧ hInlineL kids) ∨
       (a.kind.drawInline = false ∧
         ((hFlowL kids ∧ lastIsLine (listS kids).1 = false) ∨
          (lastIsLine (listS kids).1 = true ∧ hInlineL kids))))
    else
      a.kind.dispStackingClass = false ∧ a.kind.dispBlockLevel = true ∧ a.kind.dispCell = false ∧
      a.kind.dilText = false ∧ a.kind.drawReplaced = false ∧
      ((a.kind.drawTable = true ∧ lastIsLine (listS kids).1 = false ∧ hGroups kids) ∨
       (a.kind.drawTable = false ∧
         ((hFlowL kids ∧ lastIsLine (listS kids).1 = false) ∨
          (lastIsLine (listS kids).1 = true ∧ hInlineL kids))))
def hFlowL : List Box → Prop
  | [] => True
  | b :: bs => hFlow b ∧ hFlowL bs
/-- A row group (or, if it leaves the tree, a context whose root must be of a painted class — which a
row group is not: known finding). -/
def hGroup : Box → Prop
  | .ph b => hGroup b
  | .leaf a => leavesTree a = true ∧ leafUnitOK a
  | .node a kids =>
    if leavesTree a then
      rootPainted a ∧ a.kind.dilText = false ∧ a.kind.drawReplaced = false ∧
      ((a.kind.drawInline = true ∧ lastIsLine (listS kids).1 = false ∧ hInlineL kids) ∨
       (a.kind.drawInline = false ∧
         ((hFlowL kids ∧ lastIsLine (listS kids).1 = false) ∨
          (lastIsLine (listS kids).1 = true ∧ hInlineL kids))))
    else
      a.kind.dispStackingClass = false ∧ a.kind.dispBlockLevel = false ∧ a.kind.dispCell = false ∧
      a.kind.drawTable = false ∧ a.kind.dilText = false ∧ a.kind.drawReplaced = false ∧
      a.border = none ∧ hRows kids
def hGroups : List Box → Prop
  | [] => True
  | b :: bs => hGroup b ∧ hGroups bs
def hRow : Box → Prop
  | .ph b => hRow b
  | .leaf a => leavesTree a = true ∧ leafUnitOK a
  | .node a kids =>
    if leavesTree a then
      rootPainted a ∧ a.kind.dilText = false ∧ a.kind.drawReplaced = false ∧
      ((a.kind.drawInline = true ∧ lastIsLine (listS kids).1 = false ∧ hInlineL kids) ∨
       (a.kind.drawInline = false ∧
         ((hFlowL kids ∧ lastIsLine (listS kids).1 = false) ∨
          (lastIsLine (listS kids).1 = true ∧ hInlineL kids))))
    else
      a.kind.dispStackingClass = false ∧ a.kind.dispBlockLevel = false ∧ a.kind.dispCell = false ∧
      a.kind.drawTable = false ∧ a.kind.dilText = false ∧ a.kind.drawReplaced = false ∧
      a.border = none ∧ hCells kids
def hRows : List Box → Prop
  | [] => True
  | b :: bs => hRow b ∧ hRows bs
def hCell : Box → Prop
  | .ph b => hCell b
  | .leaf a => leavesTree a = true ∧ leafUnitOK a
  | .node a kids =>
    if leavesTree a then
      rootPainted a ∧ a.kind.dilText = false ∧ a.kind.drawReplaced = false ∧
      ((a.kind.drawInline = true ∧ lastIsLine (listS kids).1 = false ∧ hInlineL kids) ∨
       (a.kind.drawInline = false ∧
         ((hFlowL kids ∧ lastIsLine (listS kids).1 = false) ∨
          (lastIsLine (listS kids).1 = true ∧ hInlineL kids))))
    else
      a.kind.dispStackingClass = false ∧ a.kind.dispBlockLevel = false ∧ a.kind.dispCell = true ∧
      a.kind.drawReplaced = false ∧
      ((hFlowL kids ∧ lastIsLine (listS kids).1 = false) ∨
       (lastIsLine (listS kids).1 = true ∧ hInlineL kids))
def hCells : List Box → Prop
  | [] => True
  | b :: bs => hCell b ∧ hCells bs
end

/-! ### Transfer -/

def optInline : Option Node → Prop
  | none => True
  | some n => okInline n
def optFlow : Option Node → Prop
  | none => True
  | some n => okFlow n
def optGroup : Option Node → Prop
  | none => True
  | some n => okGroups [n]
def optRow : Option Node → Prop
  | none => True
  | some n => okRows [n]
def optCell : Option Node → Prop
  | none => True
  | some n => okCells [n]

theorem okGroups_cons (n : Node) (l : List Node) : okGroups (n :: l) ↔ okGroups [n] ∧ okGroups l := by
  cases n <;> simp [okGroups]
theorem okRows_cons (n : Node) (l : List Node) : okRows (n :: l) ↔ okRows [n] ∧ okRows l := by
  cases n <;> simp [okRows]
theorem okCells_cons (n : Node) (l : List Node) : okCells (n :: l) ↔ okCells [n] ∧ okCells l := by
  cases n <;> simp [okCells]

structure TrL (l : List Box) : Prop where
  inl : hInlineL l → okInlineL (listS l).1 ∧ okCtxL (listS l).2.cc ∧ okCtxL (listS l).2.floats
  flow : hFlowL l → okFlowL (listS l).1 ∧ okCtxL (listS l).2.cc ∧ okCtxL (listS l).2.floats
  grp : hGroups l → okGroups (listS l).1 ∧ okCtxL (listS l).2.cc ∧ okCtxL (listS l).2.floats
  row : hRows l → okRows (listS l).1 ∧ okCtxL (listS l).2.cc ∧ okCtxL (listS l).2.floats
  cell : hCells l → okCells (listS l).1 ∧ okCtxL (listS l).2.cc ∧ okCtxL (listS l).2.floats

structure Tr (b : Box) : Prop where
  inl : hInline b → optInline (dispatchS b).1 ∧ okCtxL (dispatchS b).2.cc ∧ okCtxL (dispatchS b).2.floats
  flow : hFlow b → optFlow (dispatchS b).1 ∧ okCtxL (dispatchS b).2.cc ∧ okCtxL (dispatchS b).2.floats
  grp : hGroup b → optGroup (dispatchS b).1 ∧ okCtxL (dispatchS b).2.cc ∧ okCtxL (dispatchS b).2.floats
  row : hRow b → optRow (dispatchS b).1 ∧ okCtxL (dispatchS b).2.cc ∧ okCtxL (dispatchS b).2.floats
  cell : hCell b → optCell (dispatchS b).1 ∧ okCtxL (dispatchS b).2.cc ∧ okCtxL (dispatchS b).2.floats

/-- The branches of `_dispatch` that build a context, on a box whose context is well-formed. -/
theorem tr_unit (a : Attrs) (self : Node) (inner : Delta)
    (hu : (leavesTree a || a.kind.dispStackingClass) = true)
    (hallowed : leavesTree a = false → ctxAllowed self = true)
    (hw : ∀ own, okCtxL own → okCtx (mkCtx self own inner.blocks inner.floats inner.bc))
    (hcc : okCtxL inner.cc) :
    optInline (coreS a self inner).1 ∧ okCtxL (coreS a self inner).2.cc ∧
      okCtxL (coreS a self inner).2.floats ∧
    (leavesTree a = true → (coreS a self inner).1 = none) := by
  unfold coreS
  have hnil := hw [] okCtxL_nil
  by_cases h1 : definesContext a = true
  · simp [h1, optInline, okCtxL, hw _ hcc]
  · by_cases h2 : a.positioned = true
    · simp [h1, h2, optInline, okCtxL, hnil, hcc]
    · by_cases h3 : a.floated = true
      · simp [h1, h2, h3, optInline, okCtxL, hnil, hcc]
      · have hl : leavesTree a = false := by simp [leavesTree, h1, h2, h3]
        have h4 : a.kind.dispStackingClass = true := by simpa [hl] using hu
        have hallow := hallowed hl
        simp only [h1, h2, h3, h4, Bool.false_eq_true, ↓reduceIte, optInline, hl, false_implies,
          and_true, okCtxL, hcc]
        simp only [mkCtx] at hnil ⊢
        rw [okInline]
        exact ⟨hallow, hnil⟩

theorem body_tr (a : Attrs) (kids : List Box) (ih : TrL kids)
    (h : (a.kind.drawInline = true ∧ lastIsLine (listS kids).1 = false ∧ hInlineL kids) ∨
         (a.kind.drawInline = false ∧
           ((hFlowL kids ∧ lastIsLine (listS kids).1 = false) ∨
            (lastIsLine (listS kids).1 = true ∧ hInlineL kids)))) :
    bodyOK2 a (listS kids).1 ∧ okCtxL (listS kids).2.cc ∧ okCtxL (listS kids).2.floats := by
  rcases h with ⟨h6, hl, hk⟩ | ⟨h6, ⟨hk, hl⟩ | ⟨hl, hk⟩⟩
  · obtain ⟨w, c, f⟩ := ih.inl hk
    exact ⟨Or.inl ⟨h6, hl, w⟩, c, f⟩
  · obtain ⟨w, c, f⟩ := ih.flow hk
    exact ⟨Or.inr ⟨h6, Or.inl ⟨w, hl⟩⟩, c, f⟩
  · obtain ⟨w, c, f⟩ := ih.inl hk
    exact ⟨Or.inr ⟨h6, Or.inr ⟨hl, w⟩⟩, c, f⟩

theorem flow_body_tr (kids : List Box) (ih : TrL kids)
    (h : (hFlowL kids ∧ lastIsLine (listS kids).1 = false) ∨
         (lastIsLine (listS kids).1 = true ∧ hInlineL kids)) :
    ((okFlowL (listS kids).1 ∧ lastIsLine (listS kids).1 = false) ∨
      (lastIsLine (listS kids).1 = true ∧ okInlineL (listS kids).1)) ∧
    okCtxL (listS kids).2.cc ∧ okCtxL (listS kids).2.floats := by
  rcases h with ⟨hk, hl⟩ | ⟨hl, hk⟩
  · obtain ⟨w, c, f⟩ := ih.flow hk
    exact ⟨Or.inl ⟨w, hl⟩, c, f⟩
  · obtain ⟨w, c, f⟩ := ih.inl hk
    exact ⟨Or.inr ⟨hl, w⟩, c, f⟩

/-- A parent box that leaves the tree: its context is well-formed, nothing stays in the tree. -/
theorem unit_node (a : Attrs) (kids : List Box) (ih : TrL kids) (hl : leavesTree a = true)
    (hroot : rootPainted a) (hx : a.kind.dilText = false) (hr : a.kind.drawReplaced = false)
    (hbody : (a.kind.drawInline = true ∧ lastIsLine (listS kids).1 = false ∧ hInlineL kids) ∨
         (a.kind.drawInline = false ∧
           ((hFlowL kids ∧ lastIsLine (listS kids).1 = false) ∨
            (lastIsLine (listS kids).1 = true ∧ hInlineL kids)))) :
    (dispatchS (.node a kids)).1 = none ∧ okCtxL (dispatchS (.node a kids)).2.cc ∧
      okCtxL (dispatchS (.node a kids)).2.floats := by
  obtain ⟨hb, hc, hf⟩ := body_tr a kids ih hbody
  have hcoh := blocks_listS kids
  obtain ⟨_, r2, r3, r4⟩ := tr_unit a (.node a (listS kids).1) (listS kids).2 (by simp [hl])
    (fun h => by rw [hl] at h; cases h)
    (fun own ho => okCtx_mkCtx_node a _ own _ _ _ hroot hx hr hcoh.1 hcoh.2 ho hf hb) hc
  rw [dispatchS]
  exact ⟨r4 hl, r2, r3⟩

theorem unit_leaf (a : Attrs) (hl : leavesTree a = true) (h : leafUnitOK a) :
    (dispatchS (.leaf a)).1 = none ∧ okCtxL (dispatchS (.leaf a)).2.cc ∧
      okCtxL (dispatchS (.leaf a)).2.floats := by
  obtain ⟨_, r2, r3, r4⟩ := tr_unit a (.leaf a) {} (by simp [hl])
    (fun h => by rw [hl] at h; cases h)
    (fun own ho => okCtx_mkCtx_leaf a own h.1 h.2.1 h.2.2 ho) okCtxL_nil
  rw [dispatchS]
  exact ⟨r4 hl, r2, r3⟩

mutual
theorem tr_box : ∀ (b : Box), Tr b
  | .ph b => by
    have ih := tr_box b
    refine ⟨?_, ?_, ?_, ?_, ?_⟩
    · intro h; rw [hInline] at h; rw [dispatchS]; exact ih.inl h
    · intro h; rw [hFlow] at h; rw [dispatchS]; exact ih.flow h
    · intro h; rw [hGroup] at h; rw [dispatchS]; exact ih.grp h
    · intro h; rw [hRow] at h; rw [dispatchS]; exact ih.row h
    · intro h; rw [hCell] at h; rw [dispatchS]; exact ih.cell h
  | .leaf a => by
    refine ⟨?_, ?_, ?_, ?_, ?_⟩
    · intro h
      rw [hInline] at h
      by_cases hu : (leavesTree a || a.kind.dispStackingClass) = true
      · simp only [hu, ↓reduceIte] at h
        rw [dispatchS]
        obtain ⟨r1, r2, r3, _⟩ := tr_unit a (.leaf a) {} hu
          (fun hl => by simpa [ctxAllowed, Node.attrs?] using h.2 hl)
          (fun own ho => okCtx_mkCtx_leaf a own h.1.1 h.1.2.1 h.1.2.2 ho) okCtxL_nil
        exact ⟨r1, r2, r3⟩
      · simp only [hu, Bool.false_eq_true, ↓reduceIte] at h
        simp only [Bool.or_eq_true, not_or, Bool.not_eq_true] at hu
        rw [dispatchS]
        obtain ⟨e1, e2, e3⟩ := coreS_plain a (.leaf a) {} hu.1 hu.2
        rw [e1, e2, e3]
        refine ⟨?_, okCtxL_nil, okCtxL_nil⟩
        simp only [optInline, okInline]
        exact h
    · intro h
      rw [hFlow] at h
      by_cases hu : leavesTree a = true
      · simp only [hu, ↓reduceIte] at h
        obtain ⟨r1, r2, r3⟩ := unit_leaf a hu h
        rw [r1]; exact ⟨trivial, r2, r3⟩
      · simp only [hu, Bool.false_eq_true, ↓reduceIte] at h
        simp only [Bool.not_eq_true] at hu
        rw [dispatchS]
        obtain ⟨e1, e2, e3⟩ := coreS_plain a (.leaf a) {} hu h.1
        rw [e1, e2, e3]
        refine ⟨?_, okCtxL_nil, okCtxL_nil⟩
        simp only [optFlow, okFlow]
        exact ⟨h.2.1, h.2.2.1, h.2.2.2.1, h.2.2.2.2⟩
    · intro h
      rw [hGroup] at h
      obtain ⟨r1, r2, r3⟩ := unit_leaf a h.1 h.2
      rw [r1]; exact ⟨trivial, r2, r3⟩
    · intro h
      rw [hRow] at h
      obtain ⟨r1, r2, r3⟩ := unit_leaf a h.1 h.2
      rw [r1]; exact ⟨trivial, r2, r3⟩
    · intro h
      rw [hCell] at h
      obtain ⟨r1, r2, r3⟩ := unit_leaf a h.1 h.2
      rw [r1]; exact ⟨trivial, r2, r3⟩
  | .node a kids => by
    have ih := tr_list kids
    have hcoh := blocks_listS kids
    refine ⟨?_, ?_, ?_, ?_, ?_⟩
    · intro h
      rw [hInline] at h
      rw [dispatchS]
      by_cases hu : (leavesTree a || a.kind.dispStackingClass) = true
      · simp only [hu, ↓reduceIte] at h
        obtain ⟨hroot, hallow, hx, hr, hbody⟩ := h
        obtain ⟨hb, hc, hf⟩ := body_tr a kids ih hbody
        obtain ⟨r1, r2, r3, _⟩ := tr_unit a (.node a (listS kids).1) (listS kids).2 hu
          (fun hl => by simpa [ctxAllowed, Node.attrs?] using hallow hl)
          (fun own ho => okCtx_mkCtx_node a _ own _ _ _ hroot hx hr hcoh.1 hcoh.2 ho hf hb) hc
        exact ⟨r1, r2, r3⟩
      · simp only [hu, Bool.false_eq_true, ↓reduceIte] at h
        simp only [Bool.or_eq_true, not_or, Bool.not_eq_true] at hu
        obtain ⟨e1, e2, e3⟩ := coreS_plain a (.node a (listS kids).1) (listS kids).2 hu.1 hu.2
        rw [e1, e2, e3]
        obtain ⟨hb, hc, ht, hio, htc, hx, hr, hk⟩ := h
        obtain ⟨w, c, f⟩ := ih.inl hk
        refine ⟨?_, c, f⟩
        simp only [optInline, okInline]
        exact ⟨hb, hc, ht, hio, htc, hx, hr, w⟩
    · intro h
      rw [hFlow] at h
      by_cases hu : leavesTree a = true
      · simp only [hu, ↓reduceIte] at h
        obtain ⟨r1, r2, r3⟩ := unit_node a kids ih hu h.1 h.2.1 h.2.2.1 h.2.2.2
        rw [r1]; exact ⟨trivial, r2, r3⟩
      · simp only [hu, Bool.false_eq_true, ↓reduceIte] at h
        simp only [Bool.not_eq_true] at hu
        obtain ⟨hs, hbl, hc, hx, hr, hbody⟩ := h
        rw [dispatchS]
        obtain ⟨e1, e2, e3⟩ := coreS_plain a (.node a (listS kids).1) (listS kids).2 hu hs
        rw [e1, e2, e3]
        rcases hbody with ⟨ht, hl, hg⟩ | ⟨ht, hb⟩
        · obtain ⟨w, c, f⟩ := ih.grp hg
          refine ⟨?_, c, f⟩
          simp only [optFlow, okFlow]
          exact ⟨hbl, hc, hx, hr, Or.inl ⟨ht, hl, w⟩⟩
        · obtain ⟨w, c, f⟩ := flow_body_tr kids ih hb
          refine ⟨?_, c, f⟩
          simp only [optFlow, okFlow]
          exact ⟨hbl, hc, hx, hr, Or.inr ⟨ht, w⟩⟩
    · intro h
      rw [hGroup] at h
      by_cases hu : leavesTree a = true
      · simp only [hu, ↓reduceIte] at h
        obtain ⟨r1, r2, r3⟩ := unit_node a kids ih hu h.1 h.2.1 h.2.2.1 h.2.2.2
        rw [r1]; exact ⟨trivial, r2, r3⟩
      · simp only [hu, Bool.false_eq_true, ↓reduceIte] at h
        simp only [Bool.not_eq_true] at hu
        obtain ⟨hs, hbl, hc, ht, hx, hr, hbd, hk⟩ := h
        rw [dispatchS]
        obtain ⟨e1, e2, e3⟩ := coreS_plain a (.node a (listS kids).1) (listS kids).2 hu hs
        rw [e1, e2, e3]
        obtain ⟨w, c, f⟩ := ih.row hk
        refine ⟨?_, c, f⟩
        simp only [optGroup, okGroups]
        exact ⟨⟨hbl, hc, ht, hx, hr, hbd, w⟩, trivial⟩
    · intro h
      rw [hRow] at h
      by_cases hu : leavesTree a = true
      · simp only [hu, ↓reduceIte] at h
        obtain ⟨r1, r2, r3⟩ := unit_node a kids ih hu h.1 h.2.1 h.2.2.1 h.2.2.2
        rw [r1]; exact ⟨trivial, r2, r3⟩
      · simp only [hu, Bool.false_eq_true, ↓reduceIte] at h
        simp only [Bool.not_eq_true] at hu
        obtain ⟨hs, hbl, hc, ht, hx, hr, hbd, hk⟩ := h
        rw [dispatchS]
        obtain ⟨e1, e2, e3⟩ := coreS_plain a (.node a (listS kids).1) (listS kids).2 hu hs
        rw [e1, e2, e3]
        obtain ⟨w, c, f⟩ := ih.cell hk
        refine ⟨?_, c, f⟩
        simp only [optRow, okRows]
        exact ⟨⟨hbl, hc, ht, hx, hr, hbd, w⟩, trivial⟩
    · intro h
      rw [hCell] at h
      by_cases hu : leavesTree a = true
      · simp only [hu, ↓reduceIte] at h
        obtain ⟨r1, r2, r3⟩ := unit_node a kids ih hu h.1 h.2.1 h.2.2.1 h.2.2.2
        rw [r1]; exact ⟨trivial, r2, r3⟩
      · simp only [hu, Bool.false_eq_true, ↓reduceIte] at h
        simp only [Bool.not_eq_true] at hu
        obtain ⟨hs, hbl, hc, hr, hbody⟩ := h
        rw [dispatchS]
        obtain ⟨e1, e2, e3⟩ := coreS_plain a (.node a (listS kids).1) (listS kids).2 hu hs
        rw [e1, e2, e3]
        obtain ⟨w, c, f⟩ := flow_body_tr kids ih hbody
        refine ⟨?_, c, f⟩
        simp only [optCell, okCells]
        exact ⟨⟨hbl, hc, hr, w⟩, trivial⟩
theorem tr_list : ∀ (l : List Box), TrL l
  | [] => ⟨fun _ => by simp [listS, okInlineL, okCtxL], fun _ => by simp [listS, okFlowL, okCtxL],
           fun _ => by simp [listS, okGroups, okCtxL], fun _ => by simp [listS, okRows, okCtxL],
           fun _ => by simp [listS, okCells, okCtxL]⟩
  | b :: bs => by
    have h1 := tr_box b
    have h2 := tr_list bs
    refine ⟨?_, ?_, ?_, ?_, ?_⟩
    · intro h
      rw [hInlineL] at h
      obtain ⟨a1, a2, a3⟩ := h1.inl h.1
      obtain ⟨b1, b2, b3⟩ := h2.inl h.2
      rw [listS]
      refine ⟨?_, okCtxL_append a2 b2, okCtxL_append a3 b3⟩
      cases hd : (dispatchS b).1 with
      | none => simpa using b1
      | some n => rw [hd] at a1; simp only [okInlineL]; exact ⟨a1, b1⟩
    · intro h
      rw [hFlowL] at h
      obtain ⟨a1, a2, a3⟩ := h1.flow h.1
      obtain ⟨b1, b2, b3⟩ := h2.flow h.2
      rw [listS]
      refine ⟨?_, okCtxL_append a2 b2, okCtxL_append a3 b3⟩
      cases hd : (dispatchS b).1 with
      | none => simpa using b1
      | some n => rw [hd] at a1; simp only [okFlowL]; exact ⟨a1, b1⟩
    · intro h
      rw [hGroups] at h
      obtain ⟨a1, a2, a3⟩ := h1.grp h.1
      obtain ⟨b1, b2, b3⟩ := h2.grp h.2
      rw [listS]
      refine ⟨?_, okCtxL_append a2 b2, okCtxL_append a3 b3⟩
      cases hd : (dispatchS b).1 with
      | none => simpa using b1
      | some n => rw [hd] at a1; exact (okGroups_cons n _).mpr ⟨a1, b1⟩
    · intro h
      rw [hRows] at h
      obtain ⟨a1, a2, a3⟩ := h1.row h.1
      obtain ⟨b1, b2, b3⟩ := h2.row h.2
      rw [listS]
      refine ⟨?_, okCtxL_append a2 b2, okCtxL_append a3 b3⟩
      cases hd : (dispatchS b).1 with
      | none => simpa using b1
      | some n => rw [hd] at a1; exact (okRows_cons n _).mpr ⟨a1, b1⟩
    · intro h
      rw [hCells] at h
      obtain ⟨a1, a2, a3⟩ := h1.cell h.1
      obtain ⟨b1, b2, b3⟩ := h2.cell h.2
      rw [listS]
      refine ⟨?_, okCtxL_append a2 b2, okCtxL_append a3 b3⟩
      cases hd : (dispatchS b).1 with
      | none => simpa using b1
      | some n => rw [hd] at a1; exact (okCells_cons n _).mpr ⟨a1, b1⟩
end

/-! ### The items due, on the laid-out tree -/

mutual
/-- Items a laid-out subtree is due: every box its own (a cell according to `empty-cells` and the
`border-collapse` `tc` of its table, a table with its columns and collapsed borders), nothing at or
below a singular transform. -/
def dueN (s : Sel) (tc : Bool) : Box → Nat
  | .ph b => dueN s tc b
  | .leaf a =>
    if a.matrix = .singular then 0
    else if leavesTree a || a.kind.dispStackingClass then s.plainOwn a else s.nodeOwn tc a
  | .node a kids =>
    if a.matrix = .singular then 0
    else if leavesTree a || a.kind.dispStackingClass then s.plainOwn a + dueL s false kids
    else s.nodeOwn tc a + dueL s (if a.kind.drawTable then a.collapse else tc) kids
def dueL (s : Sel) (tc : Bool) : List Box → Nat
  | [] => 0
  | b :: bs => dueN s tc b + dueL s tc bs
end

def optExpN (s : Sel) (tc : Bool) : Option Node → Nat
  | none => 0
  | some n => expN s tc n

theorem expL_append (s : Sel) (tc : Bool) (l m : List Node) :
    expL s tc (l ++ m) = expL s tc l + expL s tc m := by
  induction l with
  | nil => simp [expL]
  | cons x xs ih => simp [expL, ih, Nat.add_assoc]

theorem expL_perm (s : Sel) (tc : Bool) {l m : List Node} (h : l.Perm m) : expL s tc l = expL s tc m := by
  induction h with
  | nil => rfl
  | cons x _ ih => simp [expL, ih]
  | swap x y l => simp [expL]; omega
  | trans _ _ ih1 ih2 => exact ih1.trans ih2

theorem expL_split (s : Sel) (tc : Bool) (l : List Node) :
    expL s tc (l.filter (fun n => decide (n.zIndex < 0))) +
    expL s tc (l.filter (fun n => decide (n.zIndex = 0))) +
    expL s tc (l.filter (fun n => decide (0 < n.zIndex))) = expL s tc l := by
  induction l with
  | nil => simp [expL]
  | cons x xs ih =>
    by_cases h1 : x.zIndex < 0
    · have h2 : ¬ x.zIndex = 0 := by omega
      have h3 : ¬ 0 < x.zIndex := by omega
      simp [List.filter_cons, h1, h2, h3, expL]; omega
    · by_cases h2 : x.zIndex = 0
      · have h3 : ¬ 0 < x.zIndex := by omega
        simp [List.filter_cons, h1, h2, h3, expL]; omega
      · have h3 : 0 < x.zIndex := by omega
        simp [List.filter_cons, h1, h2, h3, expL]; omega

theorem expL_init (s : Sel) (tc : Bool) (own : List Node) :
    expL s tc (sortZ (own.filter (fun n => decide (n.zIndex < 0)))) +
    expL s tc (own.filter (fun n => decide (n.zIndex = 0))) +
    expL s tc (sortZ (own.filter (fun n => decide (0 < n.zIndex)))) = expL s tc own := by
  rw [expL_perm s tc (sortZ_perm _), expL_perm s tc (sortZ_perm _)]
  exact expL_split s tc own

theorem expN_mkCtx_node (s : Sel) (tc : Bool) (a : Attrs) (ks own blocks floats bc : List Node) :
    expN s tc (mkCtx (.node a ks) own blocks floats bc) =
      if a.matrix = .singular then 0
      else s.plainOwn a + expL s false ks + expL s false own + expL s false floats := by
  have := expL_init s false own
  simp only [mkCtx, splitZ_eq, expN]
  by_cases hs : a.matrix = .singular
  · simp [hs]
  · simp only [hs, ↓reduceIte]; omega

theorem expN_mkCtx_leaf (s : Sel) (tc : Bool) (a : Attrs) (own blocks floats bc : List Node) :
    expN s tc (mkCtx (.leaf a) own blocks floats bc) =
      if a.matrix = .singular then 0
      else s.plainOwn a + expL s false own + expL s false floats := by
  have := expL_init s false own
  simp only [mkCtx, splitZ_eq, expN]
  by_cases hs : a.matrix = .singular
  · simp [hs]
  · simp only [hs, ↓reduceIte]; omega

/-- `expL` of a list of contexts does not read the table flag. -/
theorem expN_ctx_tc (s : Sel) (tc tc' : Bool) (box : Node) (neg zero pos blocks floats bc : List Node)
    (z : Int) :
    expN s tc (.ctx box neg zero pos blocks floats bc z) =
      expN s tc' (.ctx box neg zero pos blocks floats bc z) := by
  cases box <;> simp [expN]

theorem dueN_coreS_node (s : Sel) (tc : Bool) (a : Attrs) (ks : List Node) (inner : Delta)
    (hs : a.matrix = .singular → definesContext a = true) :
    optExpN s tc (coreS a (.node a ks) inner).1 + expL s false (coreS a (.node a ks) inner).2.cc +
      expL s false (coreS a (.node a ks) inner).2.floats =
    if a.matrix = .singular then 0
    else if leavesTree a || a.kind.dispStackingClass then
      s.plainOwn a + expL s false ks + expL s false inner.cc + expL s false inner.floats
    else s.nodeOwn tc a + expL s (if a.kind.drawTable then a.collapse else tc) ks +
      expL s false inner.cc + expL s false inner.floats := by
  unfold coreS
  by_cases h1 : definesContext a = true
  · simp [h1, leavesTree, optExpN, expL, expN_mkCtx_node]
  · have hns : ¬ a.matrix = .singular := fun h => h1 (hs h)
    by_cases h2 : a.positioned = true
    · simp [h1, h2, hns, leavesTree, optExpN, expL, expN_mkCtx_node]; omega
    · by_cases h3 : a.floated = true
      · simp [h1, h2, h3, hns, leavesTree, optExpN, expL, expN_mkCtx_node]; omega
      · by_cases h4 : a.kind.dispStackingClass = true
        · simp [h1, h2, h3, h4, hns, leavesTree, optExpN, expL, expN_mkCtx_node]; omega
        · simp [h1, h2, h3, h4, hns, leavesTree, optExpN, expN]

theorem dueN_coreS_leaf (s : Sel) (tc : Bool) (a : Attrs)
    (hs : a.matrix = .singular → definesContext a = true) :
    optExpN s tc (coreS a (.leaf a) {}).1 + expL s false (coreS a (.leaf a) {}).2.cc +
      expL s false (coreS a (.leaf a) {}).2.floats =
    if a.matrix = .singular then 0
    else if leavesTree a || a.kind.dispStackingClass then s.plainOwn a else s.nodeOwn tc a := by
  unfold coreS
  by_cases h1 : definesContext a = true
  · simp [h1, leavesTree, optExpN, expL, expN_mkCtx_leaf]
  · have hns : ¬ a.matrix = .singular := fun h => h1 (hs h)
    by_cases h2 : a.positioned = true
    · simp [h1, h2, hns, leavesTree, optExpN, expL, expN_mkCtx_leaf]
    · by_cases h3 : a.floated = true
      · simp [h1, h2, h3, hns, leavesTree, optExpN, expL, expN_mkCtx_leaf]
      · by_cases h4 : a.kind.dispStackingClass = true
        · simp [h1, h2, h3, h4, hns, leavesTree, optExpN, expL, expN_mkCtx_leaf]
        · simp [h1, h2, h3, h4, hns, leavesTree, optExpN, expN, expL]

mutual
theorem due_dispatchS (s : Sel) : ∀ (b : Box) (tc : Bool), singOK b →
    optExpN s tc (dispatchS b).1 + expL s false (dispatchS b).2.cc +
      expL s false (dispatchS b).2.floats = dueN s tc b
  | .ph b, tc, h => by
    rw [singOK] at h; rw [dispatchS, dueN]; exact due_dispatchS s b tc h
  | .leaf a, tc, h => by
    rw [singOK] at h
    rw [dispatchS, dueN_coreS_leaf s tc a h, dueN]
  | .node a kids, tc, h => by
    rw [singOK] at h
    rw [dispatchS, dueN_coreS_node s tc a _ _ h.1, dueN]
    by_cases hs : a.matrix = .singular
    · simp [hs]
    · by_cases hu : (leavesTree a || a.kind.dispStackingClass) = true
      · have ih := due_listS s kids false h.2
        simp only [hs, hu, ↓reduceIte]; omega
      · have ih := due_listS s kids (if a.kind.drawTable then a.collapse else tc) h.2
        simp only [hs, hu, Bool.false_eq_true, ↓reduceIte]; omega
theorem due_listS (s : Sel) : ∀ (l : List Box) (tc : Bool), singOKL l →
    expL s tc (listS l).1 + expL s false (listS l).2.cc + expL s false (listS l).2.floats = dueL s tc l
  | [], tc, _ => by simp [listS, expL, dueL]
  | b :: bs, tc, h => by
    rw [singOKL] at h
    have h1 := due_dispatchS s b tc h.1
    have h2 := due_listS s bs tc h.2
    rw [listS, dueL]
    simp only [Delta.append, expL_append]
    cases hd : (dispatchS b).1 with
    | none => simp [hd, optExpN] at h1 ⊢; omega
    | some n => simp [hd, optExpN, expL] at h1 ⊢; omega
end

/-! ### Page children -/

/-- A child of the page box (root element, margin boxes): always the root of a context. -/
def hRoot : Box → Prop
  | .leaf a => leafUnitOK a
  | .node a kids =>
    rootPainted a ∧ a.kind.dilText = false ∧ a.kind.drawReplaced = false ∧
    ((a.kind.drawInline = true ∧ lastIsLine (listS kids).1 = false ∧ hInlineL kids) ∨
     (a.kind.drawInline = false ∧
       ((hFlowL kids ∧ lastIsLine (listS kids).1 = false) ∨
        (lastIsLine (listS kids).1 = true ∧ hInlineL kids))))
  | .ph _ => False

/-- What a child of the page is due. -/
def dueRoot (s : Sel) : Box → Nat
  | .leaf a => if a.matrix = .singular then 0 else s.plainOwn a
  | .node a kids => if a.matrix = .singular then 0 else s.plainOwn a + dueL s false kids
  | .ph _ => 0

theorem okCtx_fromBoxS (b : Box) (h : hRoot b) : okCtx (fromBoxS b) := by
  cases b with
  | leaf a =>
    rw [hRoot] at h
    simpa [fromBoxS, childrenS] using okCtx_mkCtx_leaf a [] h.1 h.2.1 h.2.2 okCtxL_nil
  | node a kids =>
    rw [hRoot] at h
    obtain ⟨hroot, hx, hr, hbody⟩ := h
    obtain ⟨hb, hc, hf⟩ := body_tr a kids (tr_list kids) hbody
    have hcoh := blocks_listS kids
    simpa [fromBoxS, childrenS] using
      okCtx_mkCtx_node a _ _ _ _ _ hroot hx hr hcoh.1 hcoh.2 hc hf hb
  | ph b => rw [hRoot] at h; exact h.elim

theorem expN_fromBoxS (s : Sel) (tc : Bool) (b : Box) (h : singOK b) (hr : hRoot b) :
    expN s tc (fromBoxS b) = dueRoot s b := by
  cases b with
  | leaf a =>
    simp only [fromBoxS, childrenS, expN_mkCtx_leaf, dueRoot]
    split <;> simp [expL]
  | node a kids =>
    rw [singOK] at h
    have := due_listS s kids false h.2
    simp only [fromBoxS, childrenS, expN_mkCtx_node, dueRoot]
    by_cases hs : a.matrix = .singular
    · simp [hs]
    · simp only [hs, ↓reduceIte]; omega
  | ph b => rw [hRoot] at hr; exact hr.elim

end Wp.Stacking
