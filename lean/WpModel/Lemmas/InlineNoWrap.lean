/-
C09 — `white-space: nowrap | pre` inside nested inline boxes: `split_inline_level` ends a line only at a
preserved line break, whatever the nesting (no opportunity between two children, no re-broken waiting
child, no "put the child on the next line").  Core Lean only.
-/
import WpModel.Lemmas.LineFloatsInline
import WpModel.Lemmas.LineBreak
namespace Wp.LFIL
open Wp Wp.Py Wp.LB Wp.IR Wp.C09L

/-- the box under its `trailing_collapsible_space` flags -/
def unwrapN : Node → Node
  | .flagged n => unwrapN n
  | n => n

/-- the character just before the place a `resume_at` points to, in the tree under a box -/
def charBefore : Node → Skip → Option Char
  | node, .mk k none =>
    match unwrapN node with
    | .text s => s[k - 1]?
    | _ => none
  | node, .mk idx (some sub) =>
    match unwrapN node with
    | .box _ _ _ kids =>
      (match kids[idx]? with
       | some c => charBefore c sub
       | none => none)
    | _ => none

theorem find_get {t : Text} {c : Char} {i : Nat} (h : find t c = some i) : t[i]? = some c := by
  unfold find at h
  have h1 := List.findIdx?_eq_some_iff_getElem.mp h
  obtain ⟨hlt, hp, _⟩ := h1
  rw [List.getElem?_eq_getElem hlt]
  simp only [beq_iff_eq] at hp
  rw [hp]

/-- `split_text_box` under a non-wrapping `white-space`: the next line starts right after a newline -/
theorem splitTextBox_no_wrap (st : Style) (hw : st.ws.textWrap = false) (s : Text) (avail : MaxW) (k : Nat) (ils : Bool)
    (ts : TextSplit) (hs : splitTextBox st s avail k ils = .ok ts) (q : Nat) (hres : ts.resume = some q) :
    s[q - 1]? = some '\n' := by
  unfold splitTextBox at hs
  simp only at hs
  split at hs
  · cases hs; cases hres
  · cases hsf : splitFirstLine st (s.drop k) avail ils false with
    | error e => rw [hsf] at hs; cases hs
    | ok rr =>
      rw [hsf] at hs
      simp only [Except.bind] at hs
      have hnl := no_wrap_breaks_only_at_newline true st (s.drop k) avail ils false rr hw hsf
      split at hs
      · cases hs
      · cases hri : rr.resume with
        | none => rw [hri] at hs; simp only at hs; cases hs; cases hres
        | some ri =>
          rw [hri] at hs hnl
          simp only at hs
          split at hs
          · cases hs
          · cases hs
            simp only at hres
            cases hres
            cases hfi : find (s.drop k) '\n' with
            | none => rw [hfi] at hnl; cases hnl
            | some i =>
              rw [hfi] at hnl
              simp only [Option.map] at hnl
              cases hnl
              have hg := find_get hfi
              rw [List.getElem?_drop] at hg
              have : i + 1 + k - 1 = k + i := by omega
              rw [this]
              exact hg

/-- a text box under a non-wrapping `white-space`: the next line starts right after a newline -/
theorem textLevel_no_wrap (st : Style) (hw : st.ws.textWrap = false) (s : Text) (posX maxX : Rat) (skip : Option Skip)
    (o : LevelOut) (h : textLevel st s posX maxX skip = .ok o) (r : Skip) (hr : o.resume = some r) :
    charBefore (.text s) r = some '\n' := by
  unfold textLevel at h
  split at h
  · cases h
  · simp only [Except.map] at h
    split at h
    · cases h
    · rename_i ts hs
      cases h
      simp only at hr
      cases hres : ts.resume with
      | none => rw [hres] at hr; cases hr
      | some q =>
        rw [hres] at hr
        simp only [Option.map] at hr
        cases hr
        simp only [charBefore, unwrapN]
        exact splitTextBox_no_wrap st hw s _ _ _ ts hs q hres

/-- the `resume_at` of the children loop under `pre` / `nowrap` is the `resume_at` of one child's own split
(whatever `last_letter` is, `True` included since fix fd6f32a: no break opportunity between two children) -/
theorem boxLoop_no_wrap_child (ws : WS) (hnb : ws.noBreakBetween = true) (hbi : ws.breakInside = false)
    (split : Split) (rs maxX : Rat) (skip : Option Skip) :
    ∀ (kids : List Node) (index : Nat) (posX : Rat) (waiting : List Entry) (firstL : Option Char) (lastL : Last)
      (pres : Bool) (sub : Option Skip) (lo : LoopOut),
      boxLoop ws split rs maxX skip kids index posX [] waiting firstL lastL pres sub = .ok lo →
      ∀ s, lo.resume = some s → ∃ j child sub' px mx sk out, kids[j]? = some child ∧ s = .mk (index + j) (some sub') ∧
        split child px mx sk = .ok out ∧ out.resume = some sub'
  | [], _, _, _, _, _, _, _, lo, h => by
    unfold boxLoop at h
    cases h
    intro s hs; cases hs
  | child :: rest, index, posX, waiting, firstL, lastL, pres, sub, lo, h => by
    unfold boxLoop at h
    simp only [hnb, if_true, Bool.false_eq_true, if_false, List.nil_append] at h
    cases h0 : split child posX maxX sub with
    | error e => rw [h0] at h; cases h
    | ok out0 =>
      rw [h0] at h
      simp only [Except.bind] at h
      have hsrc : ∀ out, (if (rest.isEmpty && rs != 0 && out0.resume.isNone) = true
          then split child posX (maxX - rs) sub else Except.ok out0) = .ok out →
          ∃ mx, split child posX mx sub = .ok out := by
        intro out ho
        split at ho
        · exact ⟨_, ho⟩
        · cases ho; exact ⟨_, h0⟩
      generalize hsecond : (if (rest.isEmpty && rs != 0 && out0.resume.isNone) = true
          then split child posX (maxX - rs) sub else Except.ok out0) = second at h hsrc
      cases second with
      | error e => cases h
      | ok out =>
        obtain ⟨mx, hout⟩ := hsrc out rfl
        simp only at h
        have here : ∀ r, out.resume = some r → ∀ s, some (Skip.mk index (some r)) = some s →
            ∃ j child' sub' px mx sk out', (child :: rest)[j]? = some child' ∧ s = .mk (index + j) (some sub') ∧
              split child' px mx sk = .ok out' ∧ out'.resume = some sub' := by
          intro r hr s hs
          cases hs
          exact ⟨0, child, r, posX, mx, sub, out, rfl, rfl, hout, hr⟩
        have later : ∀ (lo' : LoopOut), (∀ s, lo'.resume = some s → ∃ j child' sub' px mx sk out', rest[j]? = some child' ∧
              s = .mk (index + 1 + j) (some sub') ∧ split child' px mx sk = .ok out' ∧ out'.resume = some sub') →
            ∀ s, lo'.resume = some s → ∃ j child' sub' px mx sk out', (child :: rest)[j]? = some child' ∧
              s = .mk (index + j) (some sub') ∧ split child' px mx sk = .ok out' ∧ out'.resume = some sub' := by
          intro lo' ih s hs
          obtain ⟨j, c', sub', px, mx', sk, out', hj, hs', hsp, hre⟩ := ih s hs
          refine ⟨j + 1, c', sub', px, mx', sk, out', by simpa using hj, ?_, hsp, hre⟩
          rw [hs']; congr 1; omega
        cases hf : out.frag with
        | none =>
          rw [hf] at h
          simp only at h
          cases hr : out.resume with
          | some r =>
            rw [hr] at h
            simp only at h
            cases h
            exact here r hr
          | none =>
            rw [hr] at h
            simp only at h
            exact later lo (boxLoop_no_wrap_child ws hnb hbi split rs maxX skip rest _ _ _ _ _ _ _ lo h)
        | some f =>
          rw [hf] at h
          simp only [tryWaiting_no_wrap ws hbi, List.getLast?_nil] at h
          cases hr : out.resume with
          | some r =>
            rw [hr] at h
            simp only [ite_self] at h
            cases h
            exact here r hr
          | none =>
            rw [hr] at h
            simp only [ite_self] at h
            exact later lo (boxLoop_no_wrap_child ws hnb hbi split rs maxX skip rest _ _ _ _ _ _ _ lo h)

theorem no_wrap_tables (ws : WS) (hw : ws.textWrap = false) : ws.noBreakBetween = true ∧ ws.breakInside = false := by
  cases ws <;> first | (exact absurd hw (by decide)) | decide

/-- the children loop of an inline box whose children satisfy the statement (`ih`) satisfies it -/
theorem boxLoop_no_wrap_core (ws : WS) (hnb : ws.noBreakBetween = true) (hbi : ws.breakInside = false)
    (split : Split) (ls rs : Rat) (deco : Bool) (kids : List Node)
    (ih : ∀ c px mx sk out, split c px mx sk = .ok out → ∀ r, out.resume = some r → charBefore c r = some '\n')
    (mx : Rat) (skip sub : Option Skip) (n : Nat) (posX : Rat) (lo : LoopOut)
    (hl : boxLoop ws split rs mx skip (kids.drop n) n posX [] [] none .none false sub = .ok lo) :
    ∀ r, lo.resume = some r → charBefore (.box ls rs deco kids) r = some '\n' := by
  intro r hr
  obtain ⟨j, child, sub', px, mx', sk, out, hj, hs, hsp, hre⟩ :=
    boxLoop_no_wrap_child ws hnb hbi split rs mx skip _ _ _ _ _ _ _ _ lo hl r hr
  have h2 := ih child px mx' sk out hsp sub' hre
  rw [hs]
  rw [List.getElem?_drop] at hj
  simp only [charBefore, unwrapN, hj]
  exact h2

theorem charBefore_flagged (n : Node) (r : Skip) : charBefore (.flagged n) r = charBefore n r := by
  cases r with
  | mk k sub => cases sub <;> simp [charBefore, unwrapN]

/-- **`nowrap` / `pre` inside nested inline boxes**: whatever the nesting, the spacing, the widths, the
resume position and the `trailing_collapsible_space` flags, when `split_inline_level` says the content
continues on a next line, the character just before the resume point is a preserved line break — lines
never end at a space (collapsed or not), between two boxes or inside a re-broken waiting child. -/
theorem splitLevel_no_wrap (st : Style) (hw : st.ws.textWrap = false) : ∀ (fuel : Nat) (node : Node) (posX maxX : Rat)
    (skip : Option Skip) (o : LevelOut), splitLevel st fuel node posX maxX skip = .ok o →
    ∀ r, o.resume = some r → charBefore node r = some '\n'
  | 0, _, _, _, _, _, h => by cases h
  | _ + 1, .text s, posX, maxX, skip, o, h => by
    intro r hr
    exact textLevel_no_wrap st hw s posX maxX skip o h r hr
  | fuel + 1, .flagged n, posX, maxX, skip, o, h => by
    intro r hr
    simp only [splitLevel] at h
    rw [charBefore_flagged]
    exact splitLevel_no_wrap st hw fuel n posX maxX skip o h r hr
  | fuel + 1, .box ls rs deco kids, posX, maxX0, skip, o, h => by
    simp only [splitLevel] at h
    unfold boxLevel at h
    simp only [Except.map] at h
    obtain ⟨hnb, hbi⟩ := no_wrap_tables st.ws hw
    split at h
    · cases h
    · rename_i lo hl
      cases h
      exact boxLoop_no_wrap_core st.ws hnb hbi (splitLevel st fuel) ls rs deco kids
        (fun c px mx sk out hsp => splitLevel_no_wrap st hw fuel c px mx sk out hsp) _ skip _ _ posX lo hl

theorem splitLine_resume (st : Style) (fuel : Nat) (kids : List Node) (posX lineX maxX : Rat) (skip : Option Skip)
    (lo : LineOut) (h : splitLine st fuel kids posX lineX maxX skip = .ok lo) :
    ∃ o, splitLevel st (fuel + 1) (.box 0 0 false kids) posX maxX skip = .ok o ∧ lo.resume = o.resume := by
  unfold splitLine at h
  simp only [Except.map] at h
  split at h
  · cases h
  · rename_i o ho
    refine ⟨o, ho, ?_⟩
    cases h
    split <;> rfl

/-- **paragraph level**: under `nowrap` / `pre` every line box of a paragraph of nested inline boxes that
is followed by another line ends at a preserved line break. -/
theorem nextLine_no_wrap (p : IR.Para) (hw : p.st.ws.textWrap = false)
    (skip : Option Skip) (y : Rat) (first : Bool)
    (l : IR.OutLine) (h : IR.nextLine p skip y first = .ok (some l)) (r : Skip) (hr : l.resume = some r) :
    charBefore (.box 0 0 false p.kids) r = some '\n' := by
  unfold IR.nextLine at h
  simp only [Except.bind] at h
  split at h
  · cases h
  · rename_i sr hsr
    split at h
    · cases h
    · rename_i skip'
      split at h
      · cases h
      · rename_i lo hlo
        obtain ⟨o, ho, hres⟩ := splitLine_resume _ _ _ _ _ _ _ lo hlo
        have key : ∀ r, lo.resume = some r → charBefore (.box 0 0 false p.kids) r = some '\n' := by
          intro r hr
          rw [hres] at hr
          exact splitLevel_no_wrap p.st hw _ _ _ _ _ o ho r hr
        split at h
        · cases h
          exact key r hr
        · split at h
          · cases h
          · rename_i rl hrl
            simp only [Except.map] at h
            split at h
            · cases h
            · cases h
              exact key r hr

end Wp.LFIL
