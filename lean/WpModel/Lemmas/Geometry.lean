/-
Geometry of whole PM layouts: the lines placed by `layoutBox` (with the flag "first content of an empty
page"), the invariant "every placed line ends above the page bottom" lifted from `lineboxLayout` to
fragment trees (through `find_earlier_page_break`, the relayout with a larger bottom space, cloned
decorations), the height given to fragmented / unfragmented boxes by `finishTail`, the position of the
border box computed by `prepare` / `finishTail`, and laws of `collapseMargin`.
-/
import WpModel.Lemmas.ParaGeo
import WpModel.Lemmas.SegmentBlock
import WpModel.Lemmas.CollapseMargin

namespace Wp.PM
open Wp

/-- A style with every length 0, `auto` height, no forced / avoided break, `orphans = widows = 1`
(base of the concrete examples). -/
def plainSt : PStyle where
  mt := 0
  mb := 0
  pt := 0
  pb := 0
  bt := 0
  bb := 0
  height := none
  minH := 0
  maxH := none
  brkBefore := .auto
  brkAfter := .auto
  brkInside := .auto
  clone := false
  page := ""
  orphans := 1
  widows := 1
  isRoot := false

/-! ### the overflow test -/

private theorem fudge_pos' : (0 : Rat) < 1 + 1 / 1000000000 := by decide +kernel

/-- A smaller bottom space only makes fewer positions overflow. -/
theorem not_overflowsPage_of_space_le (c : Ctx) (bs bs' y : Rat) (h : bs ≤ bs')
    (ho : c.overflowsPage bs' y = false) : c.overflowsPage bs y = false := by
  cases hy : c.overflowsPage bs y with
  | false => rfl
  | true =>
    exfalso
    unfold Ctx.overflowsPage overflows at *
    simp only [decide_eq_true_eq, decide_eq_false_iff_not] at *
    have : (c.pageBottom - bs') * (1 + 1 / 1000000000) ≤ (c.pageBottom - bs) * (1 + 1 / 1000000000) :=
      Rat.mul_le_mul_of_nonneg_right (by grind) (Rat.le_of_lt fudge_pos')
    grind

/-! ### placed lines of a fragment tree -/

/-- A line of a paragraph fragment, with the geometry needed to state that it fits:
`exempt` = it is the first line of the first content placed on a page that was empty. -/
structure PlacedLine where
  exempt : Bool
  para : Nat        -- id of the paragraph
  line : Nat        -- line number in the paragraph
  y : Rat           -- top of the line box
  lineH : Rat
  deriving Repr, DecidableEq

def PlacedLine.bottom (p : PlacedLine) : Rat := p.y + p.lineH

/-- The lines of a paragraph fragment laid out with `page_is_empty = pie`. -/
def paraPlaced (pie : Bool) (id : Nat) (lineH : Rat) : List (Nat × Rat) → List PlacedLine
  | [] => []
  | p :: rest =>
    { exempt := pie, para := id, line := p.1, y := p.2, lineH := lineH } ::
      rest.map (fun q => { exempt := false, para := id, line := q.1, y := q.2, lineH := lineH })

mutual
/-- All lines of the fragment `f` of the source box `box`, laid out with `page_is_empty = pie`.
The line height is read in the source box (fragment children are matched to source children through
`.idx`); `page_is_empty` stays true only along first-placed children. -/
def placedLines : Frag → Bool → PBox → List PlacedLine
  | .para _ _ _ _ _ lines, pie, box =>
    match box with
    | .para id _ lineH _ => paraPlaced pie id lineH lines
    | .block _ _ _ => []
  | .block _ _ _ _ fkids, pie, box =>
    match box with
    | .block _ _ kids => placedLinesList fkids pie kids
    | .para _ _ _ _ => []
def placedLinesList : List Frag → Bool → List PBox → List PlacedLine
  | [], _, _ => []
  | f :: rest, pie, kids =>
    (match kids[f.idx]? with
      | some kb => placedLines f pie kb
      | none => []) ++ placedLinesList rest false kids
end

/-- Every placed line ends above `pageBottom − bs` (with the fudge factor of the layout) or is exempt. -/
def LinesOk (c : Ctx) (bs : Rat) (L : List PlacedLine) : Prop :=
  ∀ p ∈ L, p.exempt = true ∨ c.overflowsPage bs p.bottom = false

theorem linesOk_nil (c : Ctx) (bs : Rat) : LinesOk c bs [] := by
  intro p hp; cases hp

theorem linesOk_append (c : Ctx) (bs : Rat) (A B : List PlacedLine) :
    LinesOk c bs (A ++ B) ↔ LinesOk c bs A ∧ LinesOk c bs B := by
  unfold LinesOk
  constructor
  · intro h
    exact ⟨fun p hp => h p (List.mem_append_left _ hp), fun p hp => h p (List.mem_append_right _ hp)⟩
  · intro h p hp
    rcases List.mem_append.mp hp with hp | hp
    · exact h.1 p hp
    · exact h.2 p hp

theorem linesOk_mono (c : Ctx) (bs bs' : Rat) (L : List PlacedLine) (h : bs ≤ bs') (hL : LinesOk c bs' L) :
    LinesOk c bs L := by
  intro p hp
  rcases hL p hp with h1 | h1
  · left; exact h1
  · right; exact not_overflowsPage_of_space_le c bs bs' _ h h1

theorem linesOk_sub (c : Ctx) (bs : Rat) (A B : List PlacedLine) (h : ∀ p ∈ A, p ∈ B) (hB : LinesOk c bs B) :
    LinesOk c bs A := fun p hp => hB p (h p hp)

/-! ### paragraphs -/

theorem paraPlaced_take (pie : Bool) (id : Nat) (lineH : Rat) (lines : List (Nat × Rat)) (m : Nat) :
    ∀ p ∈ paraPlaced pie id lineH (lines.take m), p ∈ paraPlaced pie id lineH lines := by
  cases lines with
  | nil => simp
  | cons a l =>
    cases m with
    | zero => simp [paraPlaced]
    | succ m =>
      intro p hp
      simp only [List.take_succ_cons, paraPlaced, List.mem_cons, List.mem_map] at hp ⊢
      rcases hp with hp | ⟨q, hq, rfl⟩
      · left; exact hp
      · right; exact ⟨q, List.mem_of_mem_take hq, rfl⟩

/-- The lines kept by `_linebox_layout` fit, the first one excepted when the page was empty. -/
theorem lineboxLayout_placed (c : Ctx) (st : PStyle) (b : BoxSt) (n : Nat) (lineH : Rat) (pie : Bool)
    (adj : List Rat) (bs posY : Rat) (skip : Option Resume) (dbd : Bool) (id : Nat) (hdeco : 0 ≤ b.bb + b.pb) :
    LinesOk c bs (paraPlaced pie id lineH (lineboxLayout c st b n lineH pie adj bs posY skip dbd).lines) := by
  have hl : (lineboxLayout c st b n lineH pie adj bs posY skip dbd).lines =
      outLines (lineboxLoop c st b n lineH pie adj bs posY skip dbd) := by
    unfold lineboxLayout
    split <;> simp_all [outLines]
  have hfit : ∀ p ∈ (lineboxLayout c st b n lineH pie adj bs posY skip dbd).lines,
      LineFits c bs lineH pie (skipLine skip) p := by
    rw [hl]; unfold lineboxLoop
    exact lineLoop_fits c st b n lineH pie bs (skipLine skip) _ _ _ _ hdeco (fun _ => rfl) (by simp)
  obtain ⟨m, _, hcont⟩ : ∃ m, m ≤ (skipLine skip - skipLine skip) + (n - skipLine skip) ∧
      (lineboxLayout c st b n lineH pie adj bs posY skip dbd).lines.map Prod.fst =
        List.range' (skipLine skip) m := by
    rw [hl]; unfold lineboxLoop
    exact lineLoop_contiguous c st b n lineH pie bs (skipLine skip) _ _ _ _ (Nat.le_refl _) (by simp)
  generalize (lineboxLayout c st b n lineH pie adj bs posY skip dbd).lines = lines at hfit hcont
  cases lines with
  | nil => exact linesOk_nil c bs
  | cons a l =>
    intro p hp
    simp only [paraPlaced, List.mem_cons, List.mem_map] at hp
    rcases hp with rfl | ⟨q, hq, rfl⟩
    · rcases hfit a (by simp) with h | h
      · left; exact h.1
      · right; exact h
    · right
      rcases hfit q (by simp [hq]) with h | h
      · exfalso
        -- q is not the first line: line numbers are consecutive
        cases m with
        | zero => simp at hcont
        | succ m =>
          simp only [List.map_cons, List.range'_succ, List.cons.injEq] at hcont
          have : q.1 ∈ List.range' (skipLine skip + 1) m := by
            rw [← hcont.2]; exact List.mem_map_of_mem hq
          simp only [List.mem_range'_1] at this
          omega
      · exact h

/-! ### `withIdx`, `find_earlier_page_break` -/

@[simp] theorem placedLines_withIdx (f : Frag) (i : Nat) (pie : Bool) (box : PBox) :
    placedLines (f.withIdx i) pie box = placedLines f pie box := by
  cases f <;> cases box <;> simp [Frag.withIdx, placedLines]

theorem placedLinesList_snoc (xs : List Frag) (f : Frag) (pie : Bool) (kids : List PBox) :
    placedLinesList (xs ++ [f]) pie kids =
      placedLinesList xs pie kids ++
        (match kids[f.idx]? with
          | some kb => placedLines f (pie && xs.isEmpty) kb
          | none => []) := by
  induction xs generalizing pie with
  | nil => simp [placedLinesList]
  | cons x xs ih =>
    simp only [List.cons_append, placedLinesList, ih false, List.append_assoc]
    simp

@[simp] theorem placedLines_cutEnd (f : Frag) (pie : Bool) (box : PBox) :
    placedLines f.cutEnd pie box = placedLines f pie box := by
  cases f <;> cases box <;> simp [Frag.cutEnd, placedLines]

theorem findEarlierPara_placed (id idx : Nat) (st : PStyle) (n : Nat) (g : Geo) (lines : List (Nat × Rat))
    (x' : Frag) (r : Resume) (h : findEarlierPara id idx st n g lines = some (x', r)) :
    x'.idx = idx ∧ ∀ pie box, ∀ p ∈ placedLines x' pie box, p ∈ placedLines (.para id idx st n g lines) pie box := by
  unfold findEarlierPara at h
  split at h
  · cases h
  · dsimp only at h
    split at h
    · cases h
    · split at h
      · simp only [Option.some.injEq, Prod.mk.injEq] at h
        obtain ⟨rfl, _⟩ := h
        refine ⟨rfl, ?_⟩
        intro pie box
        cases box with
        | para id' n' lh st' => simp only [placedLines]; exact paraPlaced_take _ _ _ _ _
        | block _ _ _ => simp [placedLines]
      · cases h

mutual
theorem findEarlierGo_placed : (fs : List Frag) → ∀ (kept : List Frag) (r : Resume),
    (findEarlierGo fs).found = some (kept, r) →
    ∀ pie kids, ∀ p ∈ placedLinesList kept pie kids, p ∈ placedLinesList fs pie kids
  | [] => by
    intro kept r h
    simp [findEarlierGo] at h
  | x :: xs => by
    intro kept r h pie kids
    rw [findEarlierGo] at h
    dsimp only at h
    split at h
    · rename_i kept0 r0 hfound
      simp only [Option.some.injEq, Prod.mk.injEq] at h
      obtain ⟨rfl, rfl⟩ := h
      have ih := findEarlierGo_placed xs kept0 r0 hfound false kids
      intro p hp
      simp only [placedLinesList, List.mem_append] at hp ⊢
      rcases hp with hp | hp
      · left; exact hp
      · right; exact ih p hp
    · split at h
      · simp only [Option.some.injEq, Prod.mk.injEq] at h
        obtain ⟨rfl, rfl⟩ := h
        intro p hp
        simp only [placedLinesList, List.mem_append, List.append_nil] at hp ⊢
        left; exact hp
      · split at h
        · split at h
          · rename_i x' r1 hfe
            simp only [Option.some.injEq, Prod.mk.injEq] at h
            obtain ⟨rfl, rfl⟩ := h
            obtain ⟨hidx, hsub⟩ := findEarlierFrag_placed x x' r1 hfe
            intro p hp
            simp only [placedLinesList, List.mem_append, List.append_nil, idx_cutEnd, hidx, placedLines_cutEnd] at hp ⊢
            left
            split at hp
            · exact hsub _ _ p hp
            · cases hp
          · simp at h
        · simp at h
theorem findEarlierFrag_placed : (x : Frag) → ∀ (x' : Frag) (r : Resume), findEarlierFrag x = some (x', r) →
    x'.idx = x.idx ∧ ∀ pie box, ∀ p ∈ placedLines x' pie box, p ∈ placedLines x pie box
  | .para id idx st n g lines => by
    intro x' r h
    simp only [findEarlierFrag] at h
    exact findEarlierPara_placed id idx st n g lines x' r h
  | .block id idx st g kids => by
    intro x' r h
    simp only [findEarlierFrag] at h
    split at h
    · rename_i kids' r0 hfound
      simp only [Option.some.injEq, Prod.mk.injEq] at h
      obtain ⟨rfl, rfl⟩ := h
      refine ⟨rfl, ?_⟩
      intro pie box
      cases box with
      | para _ _ _ _ => simp [placedLines]
      | block id' st' bkids =>
        simp only [placedLines]
        exact findEarlierGo_placed kids kids' r0 hfound pie bkids
    · cases h
end


/-! ### used geometry of a returned fragment -/

def Frag.kids : Frag → List Frag
  | .para _ _ _ _ _ _ => []
  | .block _ _ _ _ ks => ks

/-- The fragment returned by `finishContainer` carries the geometry computed by `finishTail`. -/
theorem finishContainer_geo (c : Ctx) (st : PStyle) (b : BoxSt) (isStart pie : Bool) (bs : Rat)
    (cwc dbd : Bool) (resume : Option Resume) (posY : Rat) (adjL cur : List Rat) (curIsL : Bool)
    (np : NextPage) (hasKids : Bool) (pageEnd : String) (mk : Geo → Frag) (f : Frag)
    (h : (finishContainer c st b isStart pie bs cwc dbd resume posY adjL cur curIsL np hasKids pageEnd mk).frag
      = some f) :
    f = mk (finishTail c st b bs cwc dbd resume posY adjL cur curIsL hasKids).geo ∧
    (finishContainer c st b isStart pie bs cwc dbd resume posY adjL cur curIsL np hasKids pageEnd mk).resume
      = resume ∧
    (finishContainer c st b isStart pie bs cwc dbd resume posY adjL cur curIsL np hasKids pageEnd mk).collapsingThrough
      = (finishTail c st b bs cwc dbd resume posY adjL cur curIsL hasKids).through := by
  unfold finishContainer at h ⊢
  split
  · rename_i hc; rw [if_pos hc] at h; cases h
  · rename_i hc; rw [if_neg hc] at h
    simp only [Option.some.injEq] at h
    exact ⟨h.symm, rfl, rfl⟩

/-- Bottom padding and border of the used geometry: those of the box, or 0 after decoration removal. -/
theorem finishTail_pb_bb (c : Ctx) (st : PStyle) (b : BoxSt) (bs : Rat)
    (cwc dbd : Bool) (resume : Option Resume) (posY : Rat) (adjL cur : List Rat) (curIsL hasKids : Bool) :
    let g := (finishTail c st b bs cwc dbd resume posY adjL cur curIsL hasKids).geo
    (g.pb = b.pb ∧ g.bb = b.bb) ∨ (g.pb = 0 ∧ g.bb = 0) := by
  unfold finishTail
  dsimp only
  by_cases h : (!st.clone && resume.isSome) = true
  · right; simp [h, geoOf]
  · left
    simp only [h]
    cases cwc <;> simp [geoOf]

@[simp] theorem prepare_pb (c : Ctx) (st : PStyle) (y bs : Rat) (skip : Option Resume) (cb pie : Bool)
    (adjL : List Rat) : (prepare c st y bs skip cb pie adjL).b.pb = st.pb := by
  unfold prepare; dsimp only; repeat' split
  all_goals rfl

@[simp] theorem prepare_bb (c : Ctx) (st : PStyle) (y bs : Rat) (skip : Option Resume) (cb pie : Bool)
    (adjL : List Rat) : (prepare c st y bs skip cb pie adjL).b.bb = st.bb := by
  unfold prepare; dsimp only; repeat' split
  all_goals rfl

@[simp] theorem prepare_mb (c : Ctx) (st : PStyle) (y bs : Rat) (skip : Option Resume) (cb pie : Bool)
    (adjL : List Rat) : (prepare c st y bs skip cb pie adjL).b.mb = st.mb := by
  unfold prepare; dsimp only; repeat' split
  all_goals rfl

@[simp] theorem prepare_dbd (c : Ctx) (st : PStyle) (y bs : Rat) (skip : Option Resume) (cb pie : Bool)
    (adjL : List Rat) : (prepare c st y bs skip cb pie adjL).dbd = st.clone := by
  unfold prepare; dsimp only; repeat' split
  all_goals rfl

/-- The `bottom_space` used inside the box: enlarged by the cloned bottom decorations. -/
theorem prepare_bs (c : Ctx) (st : PStyle) (y bs : Rat) (skip : Option Resume) (cb pie : Bool)
    (adjL : List Rat) :
    (prepare c st y bs skip cb pie adjL).bs = if st.clone then bs + (st.pb + st.bb + st.mb) else bs := by
  unfold prepare; dsimp only; repeat' split
  all_goals first | rfl | simp_all

/-! ### hypotheses on the decorations -/

/-- Bottom padding + border is not negative (always true of CSS used values), and when the decorations
are cloned, bottom padding + border + *margin* is not negative (a negative bottom margin larger than
the decorations would *shrink* `bottom_space`). -/
def PStyle.DecoOk (st : PStyle) : Prop :=
  0 ≤ st.pb + st.bb ∧ (st.clone = true → 0 ≤ st.pb + st.bb + st.mb)

mutual
def DecoOk : PBox → Prop
  | .para _ _ _ st => st.DecoOk
  | .block _ st kids => st.DecoOk ∧ DecoOkList kids
def DecoOkList : List PBox → Prop
  | [] => True
  | b :: bs => DecoOk b ∧ DecoOkList bs
end

theorem DecoOk.st : (box : PBox) → DecoOk box → box.st.DecoOk
  | .para _ _ _ _ => by intro h; unfold DecoOk at h; exact h
  | .block _ _ _ => by intro h; unfold DecoOk at h; exact h.1

theorem prepare_bs_le (c : Ctx) (st : PStyle) (y bs : Rat) (skip : Option Resume) (cb pie : Bool)
    (adjL : List Rat) (h : st.DecoOk) : bs ≤ (prepare c st y bs skip cb pie adjL).bs := by
  rw [prepare_bs]
  split
  · rename_i hc
    have := h.2 hc
    grind
  · exact Rat.le_refl

/-- What `layoutBox` returns is built by `finishContainer` from the `prepare`d box: shape of the fragment and
its bottom decorations. -/
theorem layoutBox_frag_deco (c : Ctx) (box : PBox) (idx : Nat) (y bs : Rat) (skip : Option Resume)
    (cb pie : Bool) (adjL : List Rat) (f : Frag)
    (h : (layoutBox c box idx y bs skip cb pie adjL).frag = some f) :
    (f.geo.pb = box.st.pb ∧ f.geo.bb = box.st.bb) ∨ (f.geo.pb = 0 ∧ f.geo.bb = 0) := by
  cases box with
  | para id n lineH st =>
    simp only [layoutBox, finishPara] at h
    split at h
    · simp [abortResult] at h
    · obtain ⟨rfl, _⟩ := finishContainer_geo _ _ _ _ _ _ _ _ _ _ _ _ _ _ _ _ _ _ h
      have := finishTail_pb_bb c st
        { (prepare c st y bs skip cb pie adjL).b with
          mt := (lineboxLayout c st (prepare c st y bs skip cb pie adjL).b n lineH pie
            (prepare c st y bs skip cb pie adjL).cur (prepare c st y bs skip cb pie adjL).bs
            (prepare c st y bs skip cb pie adjL).posY (subSkipOf skip) (prepare c st y bs skip cb pie adjL).dbd).mt }
      simpa [Frag.geo, PBox.st] using this _ _ _ _ _ _ _ _ _
  | block id st kids =>
    simp only [layoutBox, finishBlock] at h
    split at h
    · simp [abortResult] at h
    · obtain ⟨rfl, _⟩ := finishContainer_geo _ _ _ _ _ _ _ _ _ _ _ _ _ _ _ _ _ _ h
      have := finishTail_pb_bb c st (prepare c st y bs skip cb pie adjL).b
      simpa [Frag.geo, PBox.st] using this _ _ _ _ _ _ _ _ _
    · obtain ⟨rfl, _⟩ := finishContainer_geo _ _ _ _ _ _ _ _ _ _ _ _ _ _ _ _ _ _ h
      have := finishTail_pb_bb c st (prepare c st y bs skip cb pie adjL).b
      simpa [Frag.geo, PBox.st] using this _ _ _ _ _ _ _ _ _

theorem firstPass_redo (c : Ctx) (bs : Rat) (pienc : Bool) (posY : Rat) (r : LayoutResult) (bs' : Rat)
    (h : firstPass c bs pienc posY r = .redo bs') :
    ∃ f, r.frag = some f ∧ bs' = bs + (f.geo.pb + f.geo.bb) := by
  unfold firstPass at h
  split at h
  · cases h
  · rename_i f hf
    split at h
    · cases h
    · dsimp only at h
      split at h
      · cases h
      · split at h
        · simp only [FirstPass.redo.injEq] at h
          exact ⟨f, hf, h.symm⟩
        · cases h


/-! ### the invariant through the children loop -/

def KidsOutcome.state : KidsOutcome → KidsLoop
  | .finished s => s
  | .aborted _ s => s
  | .stopped _ s => s

/-- The placed lines of one child, seen from the parent. -/
def childPlaced (f : Frag) (pie : Bool) (kids : List PBox) : List PlacedLine :=
  match kids[f.idx]? with
  | some kb => placedLines f pie kb
  | none => []

theorem placedLinesList_snoc' (xs : List Frag) (f : Frag) (pie : Bool) (kids : List PBox) :
    placedLinesList (xs ++ [f]) pie kids = placedLinesList xs pie kids ++ childPlaced f (pie && xs.isEmpty) kids :=
  placedLinesList_snoc xs f pie kids

theorem concludeKid_fits (c : Ctx) (bs : Rat) (all : List PBox) (index : Nat) (pie : Bool) (pb : Brk)
    (child : PBox) (s : KidsLoop) (frag : Option Frag) (resume : Option Resume)
    (hall : all[index]? = some child)
    (hs : LinesOk c bs (placedLinesList s.newChildren pie all))
    (hf : ∀ f, frag = some f → LinesOk c bs (placedLines f (pie && s.newChildren.isEmpty) child)) :
    (∀ out s3, concludeKid index pie pb child s frag resume = (some out, s3) →
      LinesOk c bs (placedLinesList out.state.newChildren pie all)) ∧
    (∀ s3, concludeKid index pie pb child s frag resume = (none, s3) →
      LinesOk c bs (placedLinesList s3.newChildren pie all)) := by
  cases frag with
  | none =>
    constructor
    · intro out s3 h
      unfold concludeKid at h
      dsimp only at h
      split at h
      · rename_i kept r' hearlier
        simp only [Prod.mk.injEq, Option.some.injEq] at h
        obtain ⟨rfl, rfl⟩ := h
        have hfound : (findEarlierGo s.newChildren).found = some (kept, r') := by
          split at hearlier
          · exact hearlier
          · cases hearlier
        exact linesOk_sub c bs _ _ (findEarlierGo_placed _ _ _ hfound pie all) hs
      · split at h
        · simp only [Prod.mk.injEq, Option.some.injEq] at h
          obtain ⟨rfl, rfl⟩ := h
          exact hs
        · split at h
          · simp only [Prod.mk.injEq, Option.some.injEq] at h
            obtain ⟨rfl, rfl⟩ := h
            exact hs
          · simp only [Prod.mk.injEq, Option.some.injEq] at h
            obtain ⟨rfl, rfl⟩ := h
            exact hs
    · intro s3 h
      unfold concludeKid at h
      dsimp only at h
      split at h
      · simp at h
      · split at h
        · simp at h
        · split at h <;> simp at h
  | some f =>
    have hnew : LinesOk c bs (placedLinesList (s.newChildren ++ [f.withIdx index]) pie all) := by
      rw [placedLinesList_snoc', linesOk_append]
      refine ⟨hs, ?_⟩
      simp only [childPlaced, idx_withIdx, hall, placedLines_withIdx]
      exact hf f rfl
    cases resume with
    | some r' =>
      constructor
      · intro out s3 h
        simp only [concludeKid, Prod.mk.injEq, Option.some.injEq] at h
        obtain ⟨rfl, rfl⟩ := h
        exact hnew
      · intro s3 h
        simp [concludeKid] at h
    | none =>
      constructor
      · intro out s3 h
        simp [concludeKid] at h
      · intro s3 h
        simp only [concludeKid, Prod.mk.injEq, true_and] at h
        subst h
        exact hnew

theorem finishBlock_frag (c : Ctx) (st : PStyle) (p : Prep) (pie : Bool) (id idx : Nat) (out : KidsOutcome)
    (f : Frag) (h : (finishBlock c st p pie id idx out).frag = some f) :
    ∃ g, f = .block id idx st g out.state.newChildren := by
  cases out with
  | aborted page s => simp [finishBlock, abortResult] at h
  | stopped resume s =>
    simp only [finishBlock] at h
    obtain ⟨rfl, _⟩ := finishContainer_geo _ _ _ _ _ _ _ _ _ _ _ _ _ _ _ _ _ _ h
    exact ⟨_, rfl⟩
  | finished s =>
    simp only [finishBlock] at h
    obtain ⟨rfl, _⟩ := finishContainer_geo _ _ _ _ _ _ _ _ _ _ _ _ _ _ _ _ _ _ h
    exact ⟨_, rfl⟩

theorem finishPara_frag' (c : Ctx) (st : PStyle) (p : Prep) (pie : Bool) (id idx n : Nat) (R : LineResult)
    (f : Frag) (h : (finishPara c st p pie id idx n R).frag = some f) :
    ∃ g, f = .para id idx st n g R.lines := by
  unfold finishPara at h
  dsimp only at h
  split at h
  · simp [abortResult] at h
  · obtain ⟨rfl, _⟩ := finishContainer_geo _ _ _ _ _ _ _ _ _ _ _ _ _ _ _ _ _ _ h
    exact ⟨_, rfl⟩

mutual
/-- **Every placed line of a layout fits** above `pageBottom − bs`, except the first line of the first
content when the layout started on an empty page. -/
theorem box_fits : (box : PBox) → DecoOk box → ∀ (c : Ctx) (idx : Nat) (y bs : Rat) (skip : Option Resume)
    (cb pie : Bool) (adjL : List Rat) (f : Frag),
    (layoutBox c box idx y bs skip cb pie adjL).frag = some f → LinesOk c bs (placedLines f pie box)
  | .para id n lineH st => by
    intro hd c idx y bs skip cb pie adjL f hf
    unfold DecoOk at hd
    simp only [layoutBox] at hf
    obtain ⟨g, rfl⟩ := finishPara_frag' _ _ _ _ _ _ _ _ _ hf
    simp only [placedLines]
    apply linesOk_mono c bs _ _ (prepare_bs_le c st y bs skip cb pie adjL hd)
    apply lineboxLayout_placed
    simp only [prepare_bb, prepare_pb]
    have := hd.1
    grind
  | .block id st kids => by
    intro hd c idx y bs skip cb pie adjL f hf
    unfold DecoOk at hd
    simp only [layoutBox] at hf
    obtain ⟨g, rfl⟩ := finishBlock_frag _ _ _ _ _ _ _ _ hf
    simp only [placedLines]
    apply linesOk_mono c bs _ _ (prepare_bs_le c st y bs skip cb pie adjL hd.1)
    exact kids_fits kids hd.2 c st kids 0 (skipIdxOf skip) _ pie _ (by intro j; simp)
      (by simp [placedLinesList, linesOk_nil])
theorem kids_fits : (rest : List PBox) → DecoOkList rest → ∀ (c : Ctx) (st : PStyle) (all : List PBox)
    (index skipIdx : Nat) (bs : Rat) (pie : Bool) (s : KidsLoop),
    (∀ j, rest[j]? = all[index + j]?) →
    LinesOk c bs (placedLinesList s.newChildren pie all) →
    LinesOk c bs (placedLinesList (layoutKids c st rest index skipIdx bs pie s).state.newChildren pie all)
  | [] => by
    intro _ c st all index skipIdx bs pie s _ hs
    simpa [layoutKids, KidsOutcome.state] using hs
  | child :: rest => by
    intro hd c st all index skipIdx bs pie s hall hs
    unfold DecoOkList at hd
    have hrest : ∀ j, rest[j]? = all[index + 1 + j]? := by
      intro j
      have := hall (j + 1)
      simp only [List.getElem?_cons_succ] at this
      rw [this]; congr 1; omega
    have hchild : all[index]? = some child := by
      have := hall 0
      simpa using this.symm
    unfold layoutKids
    split
    · exact kids_fits rest hd.2 c st all (index + 1) skipIdx bs pie s hrest hs
    · dsimp only
      split
      · simpa [KidsOutcome.state] using hs
      · split
        · -- first pass kept (or discarded) the child
          rename_i frag posY hfp
          have hfrag : ∀ f, frag = some f →
              LinesOk c bs (placedLines f (pie && s.newChildren.isEmpty) child) := by
            intro f hf
            rcases firstPass_keep _ _ _ _ _ _ _ hfp with h | h
            · rw [h] at hf; cases hf
            · rw [h] at hf
              exact box_fits child hd.1 _ _ _ _ _ _ _ _ f hf
          split
          · rename_i out s3 heq
            refine (concludeKid_fits c bs all index pie _ child _ _ _ hchild ?_ ?_).1 out s3 heq
            · simpa using hs
            · simpa using hfrag
          · rename_i s3 heq
            refine kids_fits rest hd.2 c st all (index + 1) skipIdx bs pie s3 hrest
              ((concludeKid_fits c bs all index pie _ child _ _ _ hchild ?_ ?_).2 s3 heq)
            · simpa using hs
            · simpa using hfrag
        · -- second layout with a larger bottom space
          rename_i bs' hfp
          obtain ⟨f1, hf1, hbs'⟩ := firstPass_redo _ _ _ _ _ _ hfp
          have hle : bs ≤ bs' := by
            have h1 := layoutBox_frag_deco _ _ _ _ _ _ _ _ _ _ hf1
            have h2 := (DecoOk.st child hd.1).1
            rcases h1 with ⟨h3, h4⟩ | ⟨h3, h4⟩ <;> rw [hbs', h3, h4] <;> grind
          have hfrag : ∀ f,
              (layoutBox c child index s.posY bs' s.skip st.isRoot (pie && s.newChildren.isEmpty)
                (s.setCur (layoutBox c child index s.posY bs s.skip st.isRoot (pie && s.newChildren.isEmpty) s.cur).adjL
                  s.curIsL).cur).frag = some f →
              LinesOk c bs (placedLines f (pie && s.newChildren.isEmpty) child) := by
            intro f hf
            exact linesOk_mono c bs bs' _ hle (box_fits child hd.1 _ _ _ _ _ _ _ _ f hf)
          split
          · rename_i out s3 heq
            refine (concludeKid_fits c bs all index pie _ child _ _ _ hchild ?_ ?_).1 out s3 heq
            · simpa using hs
            · simpa using hfrag
          · rename_i s3 heq
            refine kids_fits rest hd.2 c st all (index + 1) skipIdx bs pie s3 hrest
              ((concludeKid_fits c bs all index pie _ child _ _ _ hchild ?_ ?_).2 s3 heq)
            · simpa using hs
            · simpa using hfrag
end


/-! ### at most one exempt line: the very first placed line, and only on an empty page -/

/-- `L` has no exempt line, except possibly its head when `pie`. -/
def ExemptHeadOnly (pie : Bool) (L : List PlacedLine) : Prop :=
  (∀ p ∈ L.tail, p.exempt = false) ∧ (pie = false → ∀ p ∈ L, p.exempt = false)

theorem exemptHeadOnly_append (pie : Bool) (A B : List PlacedLine) (hA : ExemptHeadOnly pie A)
    (hB : ∀ p ∈ B, p.exempt = false) : ExemptHeadOnly pie (A ++ B) := by
  constructor
  · cases A with
    | nil => intro p hp; exact hB p (List.mem_of_mem_tail hp)
    | cons a A =>
      intro p hp
      simp only [List.cons_append, List.tail_cons, List.mem_append] at hp
      rcases hp with hp | hp
      · exact hA.1 p (by simpa using hp)
      · exact hB p hp
  · intro hpie p hp
    rcases List.mem_append.mp hp with hp | hp
    · exact hA.2 hpie p hp
    · exact hB p hp

theorem paraPlaced_exempt (pie : Bool) (id : Nat) (lineH : Rat) (lines : List (Nat × Rat)) :
    ExemptHeadOnly pie (paraPlaced pie id lineH lines) := by
  cases lines with
  | nil => simp [paraPlaced, ExemptHeadOnly]
  | cons a l =>
    constructor
    · intro p hp
      simp only [paraPlaced, List.tail_cons, List.mem_map] at hp
      obtain ⟨q, _, rfl⟩ := hp
      rfl
    · intro hpie p hp
      simp only [paraPlaced, List.mem_cons, List.mem_map] at hp
      rcases hp with rfl | ⟨q, _, rfl⟩
      · exact hpie
      · rfl

mutual
theorem placedLines_exempt : (f : Frag) → ∀ (pie : Bool) (box : PBox), ExemptHeadOnly pie (placedLines f pie box)
  | .para id idx st n g lines => by
    intro pie box
    cases box with
    | para id' n' lh st' => simp only [placedLines]; exact paraPlaced_exempt _ _ _ _
    | block _ _ _ => simp [placedLines, ExemptHeadOnly]
  | .block id idx st g fkids => by
    intro pie box
    cases box with
    | para _ _ _ _ => simp [placedLines, ExemptHeadOnly]
    | block id' st' kids => simp only [placedLines]; exact placedLinesList_exempt fkids pie kids
theorem placedLinesList_exempt : (fs : List Frag) → ∀ (pie : Bool) (kids : List PBox),
    ExemptHeadOnly pie (placedLinesList fs pie kids)
  | [] => by intro pie kids; simp [placedLinesList, ExemptHeadOnly]
  | f :: rest => by
    intro pie kids
    simp only [placedLinesList]
    apply exemptHeadOnly_append
    · split
      · exact placedLines_exempt f pie _
      · simp [ExemptHeadOnly]
    · exact (placedLinesList_exempt rest false kids).2 rfl
end


/-! ### pages -/

/-- The source the root fragment of a page was laid out from. -/
def pageSource (d : Doc) (p : Page) : PBox := if p.type.blank then emptyRoot d.root else d.root

/-- `remake_page` lays the root (or its empty copy on a blank page) out at the top of an empty page whose
bottom is the page height, with no bottom space. -/
theorem remakePage_root (d : Doc) (index : Nat) (resume : Option Resume) (np : NextPage) (right : Bool)
    (p : Page) (hp : remakePage d index resume np right = some p) :
    ∃ c : Ctx, c.pageBottom = d.pageH ∧
      (layoutBox c (pageSource d p) 0 0 0 resume false true []).frag = some p.root ∧
      (p.type.blank = false → p.resume = (layoutBox c (pageSource d p) 0 0 0 resume false true []).resume) := by
  unfold remakePage at hp
  dsimp only at hp
  split at hp
  · simp at hp
  · rename_i f hfrag
    simp only [Option.some.injEq] at hp
    subst hp
    refine ⟨{ pageBottom := d.pageH, currentPage := index + 1, forcedBreak := forcedBreakOf np }, rfl, ?_, ?_⟩
    · simpa [pageSource] using hfrag
    · intro hb
      simp only at hb
      simp [pageSource, hb]

theorem decoOk_emptyRoot (b : PBox) (h : DecoOk b) : DecoOk (emptyRoot b) := by
  cases b with
  | para id n lh st => simpa [emptyRoot, DecoOk] using h
  | block id st kids =>
    simp only [DecoOk] at h
    simp [emptyRoot, DecoOk, DecoOkList, h.1]

theorem decoOk_pageSource (d : Doc) (p : Page) (h : DecoOk d.root) : DecoOk (pageSource d p) := by
  unfold pageSource
  split
  · exact decoOk_emptyRoot _ h
  · exact h


/-! ### the height computed by the tail of `block_container_layout` -/

/-- `position_y` after the margin bookkeeping at the end of `block_container_layout` (margins after the last
child / of an empty box; bottom padding / border / root stop the collapsing). -/
def tailPosY (st : PStyle) (b : BoxSt) (posY : Rat) (cur : List Rat) (hasKids : Bool) : Rat :=
  let through := !hasKids &&
    ((st.height = none || st.height = some 0) && st.minH = 0 && b.bt = 0 && b.pt = 0 && b.bb = 0 && b.pb = 0)
  let (posY, cur) : Rat × List Rat :=
    if !hasKids then (if through then (posY, cur) else (posY + collapseMargin cur, []))
    else if st.height ≠ none then (posY, []) else (posY, cur)
  if b.bb ≠ 0 || b.pb ≠ 0 || st.isRoot then posY + collapseMargin cur else posY

/-- The used `position_y` of the box: moved by the collapsed margins when the box collapses with its
children. -/
def tailY (b : BoxSt) (cwc : Bool) (adjL : List Rat) : Rat :=
  if cwc then b.y + collapseMargin adjL - b.mt else b.y


theorem finishTail_geo_frame (c : Ctx) (st : PStyle) (b : BoxSt) (bs : Rat)
    (cwc dbd : Bool) (resume : Option Resume) (posY : Rat) (adjL cur : List Rat) (curIsL hasKids : Bool) :
    let g := (finishTail c st b bs cwc dbd resume posY adjL cur curIsL hasKids).geo
    g.y = tailY b cwc adjL ∧ g.mt = b.mt ∧ g.bt = b.bt ∧ g.pt = b.pt := by
  unfold finishTail tailY
  dsimp only
  cases cwc <;> simp [geoOf] <;> split <;> simp


/-- The height before stretching / clamping: `position_y − content_box_y` for `height: auto`. -/
def tailH0 (st : PStyle) (b : BoxSt) (cwc : Bool) (posY : Rat) (adjL cur : List Rat) (hasKids : Bool) : Rat :=
  match st.height with
  | none => tailPosY st b posY cur hasKids - (tailY b cwc adjL + b.mt + b.bt + b.pt)
  | some h => h

theorem finishTail_h_unfragmented (c : Ctx) (st : PStyle) (b : BoxSt) (bs : Rat)
    (cwc dbd : Bool) (posY : Rat) (adjL cur : List Rat) (curIsL hasKids : Bool) :
    (finishTail c st b bs cwc dbd none posY adjL cur curIsL hasKids).geo.h =
      max (match st.maxH with
        | none => tailH0 st b cwc posY adjL cur hasKids
        | some m => min (tailH0 st b cwc posY adjL cur hasKids) m) st.minH := by
  unfold finishTail tailH0 tailPosY tailY
  cases cwc <;> cases hasKids <;> cases hh : st.height <;> cases hm : st.maxH <;>
    simp [geoOf] <;> repeat' split
  all_goals grind

theorem finishTail_fragmented_plain (c : Ctx) (st : PStyle) (b : BoxSt) (bs : Rat)
    (cwc : Bool) (r : Resume) (posY : Rat) (adjL cur : List Rat) (curIsL hasKids : Bool)
    (hc : st.clone = false) :
    let g := (finishTail c st b bs cwc false (some r) posY adjL cur curIsL hasKids).geo
    g.mb = 0 ∧ g.pb = 0 ∧ g.bb = 0 ∧
    g.h = max (tailH0 st b cwc posY adjL cur hasKids) (c.pageBottom - bs - (tailY b cwc adjL + b.mt + b.bt + b.pt)) := by
  unfold finishTail tailH0 tailPosY tailY
  cases cwc <;> cases hasKids <;> cases hh : st.height <;>
    simp [geoOf, hc] <;> repeat' split
  all_goals grind

theorem finishTail_fragmented_clone (c : Ctx) (st : PStyle) (b : BoxSt) (bs : Rat)
    (cwc : Bool) (r : Resume) (posY : Rat) (adjL cur : List Rat) (curIsL hasKids : Bool)
    (hc : st.clone = true) :
    let g := (finishTail c st b bs cwc true (some r) posY adjL cur curIsL hasKids).geo
    let h0 := tailH0 st b cwc posY adjL cur hasKids
    let room := c.pageBottom - bs - (tailY b cwc adjL + b.mt + b.bt + b.pt)
    g.mb = b.mb ∧ g.pb = b.pb ∧ g.bb = b.bb ∧
    g.h = if h0 + (b.pb + b.bb + b.mb) < room then room else h0 := by
  unfold finishTail tailH0 tailPosY tailY
  cases cwc <;> cases hasKids <;> cases hh : st.height <;>
    simp [geoOf, hc] <;> repeat' split
  all_goals grind

/-- The geometry of a fragment returned by `layoutBox` is the one `finishTail` computes from the
`prepare`d box (top margin possibly zeroed by the tall-first-line rule for a paragraph), with the box's own
`bottom_space`; when the box is fragmented, `draw_bottom_decoration` is exactly `box-decoration-break: clone`. -/
theorem layoutBox_geo_tail (c : Ctx) (box : PBox) (idx : Nat) (y bs : Rat) (skip : Option Resume)
    (cb pie : Bool) (adjL : List Rat) (f : Frag)
    (h : (layoutBox c box idx y bs skip cb pie adjL).frag = some f) :
    ∃ (b : BoxSt) (dbd : Bool) (posY : Rat) (adjL' cur : List Rat) (curIsL hasKids : Bool),
      f.geo = (finishTail c box.st b (prepare c box.st y bs skip cb pie adjL).bs
        (prepare c box.st y bs skip cb pie adjL).cwc dbd
        (layoutBox c box idx y bs skip cb pie adjL).resume posY adjL' cur curIsL hasKids).geo ∧
      ((layoutBox c box idx y bs skip cb pie adjL).resume.isSome = true → dbd = box.st.clone) ∧
      b.y = (prepare c box.st y bs skip cb pie adjL).b.y ∧
      b.pb = box.st.pb ∧ b.bb = box.st.bb ∧ b.mb = box.st.mb ∧
      b.pt = (prepare c box.st y bs skip cb pie adjL).b.pt ∧ b.bt = (prepare c box.st y bs skip cb pie adjL).b.bt := by
  cases box with
  | para id n lineH st =>
    simp only [layoutBox, finishPara, PBox.st] at h ⊢
    split at h
    · simp [abortResult] at h
    · rename_i hab
      rw [if_neg hab]
      obtain ⟨rfl, hr, _⟩ := finishContainer_geo _ _ _ _ _ _ _ _ _ _ _ _ _ _ _ _ _ _ h
      rw [hr]
      refine ⟨_, _, _, _, _, _, _, rfl, ?_, rfl, ?_, ?_, ?_, rfl, rfl⟩
      · intro hs
        have : (lineboxLayout c st (prepare c st y bs skip cb pie adjL).b n lineH pie
            (prepare c st y bs skip cb pie adjL).cur (prepare c st y bs skip cb pie adjL).bs
            (prepare c st y bs skip cb pie adjL).posY (subSkipOf skip)
            (prepare c st y bs skip cb pie adjL).dbd).resume.isSome = true := by
          split at hs
          · unfold forgetIfFixed at hs
            split at hs
            · split at hs
              · simp at hs
              · exact hs
            · exact hs
          · simp at hs
        simp only [prepare_dbd]
        cases hres : (lineboxLayout c st (prepare c st y bs skip cb pie adjL).b n lineH pie
            (prepare c st y bs skip cb pie adjL).cur (prepare c st y bs skip cb pie adjL).bs
            (prepare c st y bs skip cb pie adjL).posY (subSkipOf skip) st.clone).resume with
        | none => rw [prepare_dbd] at this; rw [hres] at this; simp at this
        | some r => simp
      · simp
      · simp
      · simp
  | block id st kids =>
    simp only [layoutBox, finishBlock, PBox.st] at h ⊢
    split at h
    · simp [abortResult] at h
    · obtain ⟨rfl, hr, _⟩ := finishContainer_geo _ _ _ _ _ _ _ _ _ _ _ _ _ _ _ _ _ _ h
      rw [hr]
      exact ⟨_, _, _, _, _, _, _, rfl, by simp, rfl, by simp, by simp, by simp, rfl, rfl⟩
    · obtain ⟨rfl, hr, _⟩ := finishContainer_geo _ _ _ _ _ _ _ _ _ _ _ _ _ _ _ _ _ _ h
      rw [hr]
      exact ⟨_, _, _, _, _, _, _, rfl, by simp, rfl, by simp, by simp, by simp, rfl, rfl⟩


/-! ### the position handed from child to child -/

/-- What `_in_flow_layout` does with `position_y` after the first layout of a child: unchanged when the child
is dropped or collapses through, else the bottom of its border box. -/
theorem firstPass_posY (c : Ctx) (bs : Rat) (pienc : Bool) (posY : Rat) (r : LayoutResult)
    (frag : Option Frag) (posY' : Rat) (h : firstPass c bs pienc posY r = .keep frag posY') :
    (frag = none ∧ posY' = posY) ∨
    (∃ f, frag = some f ∧ r.frag = some f ∧
      ((r.collapsingThrough = true ∧ posY' = posY) ∨
       (r.collapsingThrough = false ∧ posY' = f.geo.borderBoxY + f.geo.borderHeight))) := by
  unfold firstPass at h
  split at h
  · simp only [FirstPass.keep.injEq] at h; left; exact ⟨h.1.symm, h.2.symm⟩
  · rename_i f hf
    split at h
    · rename_i ht
      simp only [FirstPass.keep.injEq] at h
      right; exact ⟨f, h.1.symm, hf, Or.inl ⟨ht, h.2.symm⟩⟩
    · rename_i ht
      dsimp only at h
      split at h
      · simp only [FirstPass.keep.injEq] at h; left; exact ⟨h.1.symm, h.2.symm⟩
      · split at h
        · cases h
        · simp only [FirstPass.keep.injEq] at h
          right; exact ⟨f, h.1.symm, hf, Or.inr ⟨by simpa using ht, h.2.symm⟩⟩

/-- `concludeKid` only touches `newChildren`. -/
theorem concludeKid_frame (index : Nat) (pie : Bool) (pb : Brk) (child : PBox) (s : KidsLoop)
    (frag : Option Frag) (resume : Option Resume) :
    (∀ out s3, concludeKid index pie pb child s frag resume = (some out, s3) →
      out.state.adjL = s.adjL ∧ out.state.cur = s.cur ∧ out.state.curIsL = s.curIsL ∧ out.state.posY = s.posY) ∧
    (∀ s3, concludeKid index pie pb child s frag resume = (none, s3) →
      s3.adjL = s.adjL ∧ s3.cur = s.cur ∧ s3.curIsL = s.curIsL ∧ s3.posY = s.posY ∧ s3.skip = s.skip ∧
      ∃ f, frag = some f ∧ resume = none ∧ s3.newChildren = s.newChildren ++ [f.withIdx index]) := by
  cases frag with
  | none =>
    constructor
    · intro out s3 h
      unfold concludeKid at h
      dsimp only at h
      split at h
      · simp only [Prod.mk.injEq, Option.some.injEq] at h
        obtain ⟨rfl, rfl⟩ := h
        simp [KidsOutcome.state]
      · split at h
        · simp only [Prod.mk.injEq, Option.some.injEq] at h
          obtain ⟨rfl, rfl⟩ := h
          simp [KidsOutcome.state]
        · split at h
          · simp only [Prod.mk.injEq, Option.some.injEq] at h
            obtain ⟨rfl, rfl⟩ := h
            simp [KidsOutcome.state]
          · simp only [Prod.mk.injEq, Option.some.injEq] at h
            obtain ⟨rfl, rfl⟩ := h
            simp [KidsOutcome.state]
    · intro s3 h
      unfold concludeKid at h
      dsimp only at h
      split at h
      · simp at h
      · split at h
        · simp at h
        · split at h <;> simp at h
  | some f =>
    cases resume with
    | some r' =>
      constructor
      · intro out s3 h
        simp only [concludeKid, Prod.mk.injEq, Option.some.injEq] at h
        obtain ⟨rfl, rfl⟩ := h
        simp [KidsOutcome.state]
      · intro s3 h
        simp [concludeKid] at h
    | none =>
      constructor
      · intro out s3 h
        simp [concludeKid] at h
      · intro s3 h
        simp only [concludeKid, Prod.mk.injEq, true_and] at h
        subst h
        exact ⟨rfl, rfl, rfl, rfl, rfl, f, rfl, rfl, rfl⟩


/-! ### the shared `adjoining_margins` object -/

theorem setCur_false (s : KidsLoop) (l : List Rat) :
    (s.setCur l false) = { s with cur := l, curIsL := false } := by
  simp [KidsLoop.setCur]

theorem adoptAdj_frozen (s : KidsLoop) (had : Bool) (adj : AdjOut) (frag : Option Frag)
    (h : s.curIsL = false) : (s.adoptAdj had adj frag).adjL = s.adjL ∧ (s.adoptAdj had adj frag).curIsL = false := by
  unfold KidsLoop.adoptAdj
  split
  · exact ⟨rfl, h⟩
  · cases adj <;> cases frag <;> simp [KidsLoop.setCur, KidsLoop.appendCur, h]

/-- Once the loop's `adjoining_margins` variable no longer is the list object the box received, that object
is not modified any more. -/
theorem layoutKids_adjL_frozen (c : Ctx) (st : PStyle) : (rest : List PBox) → ∀ (index skipIdx : Nat) (bs : Rat)
    (pie : Bool) (s : KidsLoop), s.curIsL = false →
    (layoutKids c st rest index skipIdx bs pie s).state.adjL = s.adjL
  | [] => by intro index skipIdx bs pie s _; simp [layoutKids, KidsOutcome.state]
  | child :: rest => by
    intro index skipIdx bs pie s hs
    unfold layoutKids
    split
    · exact layoutKids_adjL_frozen c st rest _ _ _ _ s hs
    · dsimp only
      split
      · simp [KidsOutcome.state]
      · split
        · rename_i frag posY hfp
          split
          · rename_i out s3 heq
            have h1 := (concludeKid_frame _ _ _ _ _ _ _).1 out s3 heq
            rw [h1.1]
            simp only
            rw [(adoptAdj_frozen _ _ _ _ (by simp [hs, setCur_false])).1]
            simp [hs, setCur_false]
          · rename_i s3 heq
            have h1 := (concludeKid_frame _ _ _ _ _ _ _).2 s3 heq
            rw [layoutKids_adjL_frozen c st rest _ _ _ _ s3 ?_, h1.1]
            · simp only
              rw [(adoptAdj_frozen _ _ _ _ (by simp [hs, setCur_false])).1]
              simp [hs, setCur_false]
            · rw [h1.2.2.1]
              simp only
              exact (adoptAdj_frozen _ _ _ _ (by simp [hs, setCur_false])).2
        · rename_i bs' hfp
          split
          · rename_i out s3 heq
            have h1 := (concludeKid_frame _ _ _ _ _ _ _).1 out s3 heq
            rw [h1.1]
            simp only
            rw [(adoptAdj_frozen _ _ _ _ (by simp [hs, setCur_false])).1]
            simp [hs, setCur_false]
          · rename_i s3 heq
            have h1 := (concludeKid_frame _ _ _ _ _ _ _).2 s3 heq
            rw [layoutKids_adjL_frozen c st rest _ _ _ _ s3 ?_, h1.1]
            · simp only
              rw [(adoptAdj_frozen _ _ _ _ (by simp [hs, setCur_false])).1]
              simp [hs, setCur_false]
            · rw [h1.2.2.1]
              simp only
              exact (adoptAdj_frozen _ _ _ _ (by simp [hs, setCur_false])).2


/-! ### the top of the border box -/

@[simp] theorem finishContainer_adjL (c : Ctx) (st : PStyle) (b : BoxSt) (isStart pie : Bool) (bs : Rat)
    (cwc dbd : Bool) (resume : Option Resume) (posY : Rat) (adjL cur : List Rat) (curIsL : Bool)
    (np : NextPage) (hasKids : Bool) (pageEnd : String) (mk : Geo → Frag) :
    (finishContainer c st b isStart pie bs cwc dbd resume posY adjL cur curIsL np hasKids pageEnd mk).adjL = adjL := by
  unfold finishContainer; split <;> rfl

theorem prepare_adjL (c : Ctx) (st : PStyle) (y bs : Rat) (skip : Option Resume) (cb pie : Bool)
    (adjL : List Rat) :
    (prepare c st y bs skip cb pie adjL).adjL = adjL ++ [(prepare c st y bs skip cb pie adjL).b.mt] := by
  unfold prepare; dsimp only; repeat' split
  all_goals rfl

theorem prepare_y (c : Ctx) (st : PStyle) (y bs : Rat) (skip : Option Resume) (cb pie : Bool)
    (adjL : List Rat) :
    (prepare c st y bs skip cb pie adjL).b.y =
      if (prepare c st y bs skip cb pie adjL).cwc then y
      else y + collapseMargin (prepare c st y bs skip cb pie adjL).adjL - (prepare c st y bs skip cb pie adjL).b.mt := by
  unfold prepare; dsimp only; repeat' split
  all_goals simp_all

theorem prepare_curIsL (c : Ctx) (st : PStyle) (y bs : Rat) (skip : Option Resume) (cb pie : Bool)
    (adjL : List Rat) :
    (prepare c st y bs skip cb pie adjL).curIsL = (prepare c st y bs skip cb pie adjL).cwc := by
  unfold prepare; dsimp only; repeat' split
  all_goals rfl

def outMt : LineOutcome → Rat
  | .done s => s.mt
  | .broke _ _ _ s => s.mt

/-- The tall-first-line rule (only on an empty page) is the only thing that changes the top margin. -/
theorem lineLoop_mt (c : Ctx) (st : PStyle) (b : BoxSt) (n : Nat) (lineH : Rat) (pie : Bool) (bs : Rat)
    (fuel i : Nat) (y : Rat) (s : LineLoop) :
    outMt (lineLoop c st b n lineH pie bs fuel i y s) = s.mt ∨
      (pie = true ∧ outMt (lineLoop c st b n lineH pie bs fuel i y s) = 0) := by
  fun_induction lineLoop c st b n lineH pie bs fuel i y s with
  | case1 i y s => left; rfl
  | case2 fuel i y s resume newPosY dbd offset overflow hov abort stop r lines' hb => left; rfl
  | case3 fuel i y s resume newPosY dbd offset overflow hov shift newPosY' lineY mt' ih =>
    rcases ih with h | h
    · rw [h]
      simp only
      by_cases hs : shift = true
      · right
        have : pie = true := by
          have h1 : (pie && c.overflowsPage bs newPosY) = true := hs
          simp only [Bool.and_eq_true] at h1; exact h1.1
        refine ⟨this, ?_⟩
        show (if shift = true then 0 else s.mt) = 0
        rw [if_pos hs]
      · left
        show (if shift = true then 0 else s.mt) = s.mt
        rw [if_neg hs]
    · right; exact h

theorem lineboxLayout_mt (c : Ctx) (st : PStyle) (b : BoxSt) (n : Nat) (lineH : Rat) (pie : Bool)
    (adj : List Rat) (bs posY : Rat) (skip : Option Resume) (dbd : Bool) :
    (lineboxLayout c st b n lineH pie adj bs posY skip dbd).mt = b.mt ∨
      (pie = true ∧ (lineboxLayout c st b n lineH pie adj bs posY skip dbd).mt = 0) := by
  have h := lineLoop_mt c st b n lineH pie bs (n - skipLine skip) (skipLine skip) (lineStart adj posY)
    { lines := [], posY := lineStart adj posY, skip := skip, mt := b.mt, dbd := dbd }
  unfold lineboxLayout lineboxLoop
  split <;> rename_i heq <;> rw [heq] at h <;> simpa [outMt] using h

/-- **Top of the border box** (`prepare` + `finishTail`): the border box of a returned fragment starts at the
position handed by the parent plus the collapsed adjoining margins — the final content of the list object the
box received (its own top margin appended, and those of its first descendants when it collapses with
them). For a paragraph that does not collapse with its line box (top border / padding) whose first line was
translated by the tall-first-line rule, minus the top margin that rule removed. -/
theorem layoutBox_border_top (c : Ctx) (box : PBox) (idx : Nat) (y bs : Rat) (skip : Option Resume)
    (cb pie : Bool) (adjL : List Rat) (f : Frag)
    (h : (layoutBox c box idx y bs skip cb pie adjL).frag = some f) :
    f.geo.borderBoxY = y + collapseMargin (layoutBox c box idx y bs skip cb pie adjL).adjL
      - (if (prepare c box.st y bs skip cb pie adjL).cwc then 0
         else (prepare c box.st y bs skip cb pie adjL).b.mt - f.geo.mt) ∧
    (f.geo.mt = (prepare c box.st y bs skip cb pie adjL).b.mt ∨
      (pie = true ∧ (∃ id n lh st, box = .para id n lh st) ∧ f.geo.mt = 0)) := by
  cases box with
  | para id n lineH st =>
    simp only [layoutBox, finishPara, PBox.st] at h ⊢
    split at h
    · simp [abortResult] at h
    · rename_i hab
      rw [if_neg hab]
      obtain ⟨rfl, _⟩ := finishContainer_geo _ _ _ _ _ _ _ _ _ _ _ _ _ _ _ _ _ _ h
      simp only [Frag.geo]
      have hfr := finishTail_geo_frame c st
        { (prepare c st y bs skip cb pie adjL).b with
          mt := (lineboxLayout c st (prepare c st y bs skip cb pie adjL).b n lineH pie
            (prepare c st y bs skip cb pie adjL).cur (prepare c st y bs skip cb pie adjL).bs
            (prepare c st y bs skip cb pie adjL).posY (subSkipOf skip) (prepare c st y bs skip cb pie adjL).dbd).mt }
      have hmt := lineboxLayout_mt c st (prepare c st y bs skip cb pie adjL).b n lineH pie
            (prepare c st y bs skip cb pie adjL).cur (prepare c st y bs skip cb pie adjL).bs
            (prepare c st y bs skip cb pie adjL).posY (subSkipOf skip) (prepare c st y bs skip cb pie adjL).dbd
      constructor
      · simp only [Geo.borderBoxY]
        rw [(hfr _ _ _ _ _ _ _ _ _).1, (hfr _ _ _ _ _ _ _ _ _).2.1]
        simp only [finishContainer]
        split <;> simp only [tailY, prepare_y]
        · split <;> grind
        · split <;> grind
      · rw [(hfr _ _ _ _ _ _ _ _ _).2.1]
        rcases hmt with hmt | hmt
        · left; exact hmt
        · right; exact ⟨hmt.1, ⟨_, _, _, _, rfl⟩, hmt.2⟩
  | block id st kids =>
    have hfrozen : (prepare c st y bs skip cb pie adjL).cwc = false →
        (layoutKids c st kids 0 (skipIdxOf skip) (prepare c st y bs skip cb pie adjL).bs pie
        { newChildren := [], posY := (prepare c st y bs skip cb pie adjL).posY,
          adjL := (prepare c st y bs skip cb pie adjL).adjL, cur := (prepare c st y bs skip cb pie adjL).cur,
          curIsL := (prepare c st y bs skip cb pie adjL).curIsL,
          nextPage := { brk := none, page := none }, skip := subSkipOf skip }).state.adjL
          = (prepare c st y bs skip cb pie adjL).adjL := by
      intro hcwc
      exact layoutKids_adjL_frozen c st kids 0 (skipIdxOf skip) (prepare c st y bs skip cb pie adjL).bs pie _
        (by simp [prepare_curIsL, hcwc])
    simp only [layoutBox, finishBlock, PBox.st] at h ⊢
    have hfr := finishTail_geo_frame c st (prepare c st y bs skip cb pie adjL).b
    split at h
    · simp [abortResult] at h
    · rename_i heq
      rw [heq] at hfrozen
      simp only [KidsOutcome.state] at hfrozen
      obtain ⟨rfl, _⟩ := finishContainer_geo _ _ _ _ _ _ _ _ _ _ _ _ _ _ _ _ _ _ h
      simp only [Frag.geo]
      constructor
      · simp only [Geo.borderBoxY]
        rw [(hfr _ _ _ _ _ _ _ _ _).1, (hfr _ _ _ _ _ _ _ _ _).2.1]
        rw [finishContainer_adjL]
        simp only [tailY, prepare_y]
        by_cases hc : (prepare c st y bs skip cb pie adjL).cwc = true
        · simp only [hc, if_true]; grind
        · have hc' : (prepare c st y bs skip cb pie adjL).cwc = false := by simpa using hc
          rw [hfrozen hc']; simp only [hc']; simp; grind
      · left; exact (hfr _ _ _ _ _ _ _ _ _).2.1
    · rename_i heq
      rw [heq] at hfrozen
      simp only [KidsOutcome.state] at hfrozen
      obtain ⟨rfl, _⟩ := finishContainer_geo _ _ _ _ _ _ _ _ _ _ _ _ _ _ _ _ _ _ h
      simp only [Frag.geo]
      constructor
      · simp only [Geo.borderBoxY]
        rw [(hfr _ _ _ _ _ _ _ _ _).1, (hfr _ _ _ _ _ _ _ _ _).2.1]
        rw [finishContainer_adjL]
        simp only [tailY, prepare_y]
        by_cases hc : (prepare c st y bs skip cb pie adjL).cwc = true
        · simp only [hc, if_true]; grind
        · have hc' : (prepare c st y bs skip cb pie adjL).cwc = false := by simpa using hc
          rw [hfrozen hc']; simp only [hc']; simp; grind
      · left; exact (hfr _ _ _ _ _ _ _ _ _).2.1


end Wp.PM
