/-
Footnote conservation, box level: what `block_level_layout` does to the footnote state
(`layoutBoxF` / `layoutKidsF`), for every `footnote-policy` (since repair 67bf2ca `footnote-policy: block` cancels a
paragraph only when something is before it on the page, and `block_container_layout` then un-lays-out all its calls).
-/
import WpModel.Lemmas.FootConservePara

namespace Wp.PMF
open Wp Wp.PM

/-! ### hypotheses on the source tree -/

mutual
/-- Everything the conservation proof needs of a source subtree, in one recursion: no fixed height and
`orphans, widows ≥ 1` (stage-1 `Good`), every call on an existing line, and the
call table `tbl` of the layout context answers, for the lines of each paragraph, with that paragraph's calls. -/
def FootOk (tbl : List (Nat × Nat × Fn)) : FootBox → Prop
  | .para id n _ st calls => st.height = none ∧ 1 ≤ st.orphans ∧ 1 ≤ st.widows ∧
      (∀ c ∈ calls, c.line < n) ∧ (∀ i, tblFns tbl [(id, i)] = lineFns st calls i)
  | .block _ st kids => st.height = none ∧ FootOkList tbl kids
def FootOkList (tbl : List (Nat × Nat × Fn)) : List FootBox → Prop
  | [] => True
  | b :: bs => FootOk tbl b ∧ FootOkList tbl bs
end

mutual
theorem footOk_good (tbl : List (Nat × Nat × Fn)) : (b : FootBox) → FootOk tbl b → Good b.erase
  | .para _ _ _ _ _ => by
    intro h; simp only [FootOk] at h; simp only [FootBox.erase, Good]; exact ⟨h.1, h.2.1, h.2.2.1⟩
  | .block _ _ kids => by
    intro h; simp only [FootOk] at h; simp only [FootBox.erase, Good]
    exact ⟨h.1, footOkList_good tbl kids h.2⟩
theorem footOkList_good (tbl : List (Nat × Nat × Fn)) : (bs : List FootBox) → FootOkList tbl bs →
    GoodList (eraseList bs)
  | [] => by intro _; simp [eraseList, GoodList]
  | b :: bs => by
    intro h; simp only [FootOkList] at h; simp only [eraseList, GoodList]
    exact ⟨footOk_good tbl b h.1, footOkList_good tbl bs h.2⟩
end

/-- Footnotes called on the lines of a laid-out fragment, in tree order. -/
def fragFns (c : FCtx) : Option Frag → List Fn
  | none => []
  | some f => tblFns c.tbl (flines f)

theorem tblFns_append (tbl : List (Nat × Nat × Fn)) (a b : List (Nat × Nat)) :
    tblFns tbl (a ++ b) = tblFns tbl a ++ tblFns tbl b := by
  induction a with
  | nil => rfl
  | cons x xs ih => simp [tblFns, ih]

theorem tblFns_para (tbl : List (Nat × Nat × Fn)) (id : Nat) (st : PStyle) (calls : List Call)
    (h : ∀ i, tblFns tbl [(id, i)] = lineFns st calls i) (is : List Nat) :
    tblFns tbl (is.map (fun i => (id, i))) = idxFns st calls is := by
  induction is with
  | nil => rfl
  | cons i is ih =>
    have := h i
    simp only [tblFns, List.append_nil] at this
    simp only [List.map_cons, tblFns, idxFns, ih, this]

theorem tblFns_paraLines (tbl : List (Nat × Nat × Fn)) (id : Nat) (st : PStyle) (calls : List Call)
    (h : ∀ i, tblFns tbl [(id, i)] = lineFns st calls i) (lines : List (Nat × Rat)) :
    tblFns tbl (lines.map (fun l => (id, l.1))) = lineFnsList st calls lines := by
  rw [lineFnsList_eq, ← tblFns_para tbl id st calls h, List.map_map]
  rfl

theorem flines_eq : (f : Frag) → flines f = fragLines f := by
  intro f
  exact flines_eq_aux f
where
  flines_eq_aux : (f : Frag) → flines f = fragLines f := fun f => by
    induction f using Frag.rec (motive_2 := fun fs => flinesList fs = fragLinesList fs) with
    | para id idx st n g lines => simp [flines, fragLines]
    | block id idx st g kids ih => simp [flines, fragLines, ih]
    | nil => simp [flinesList, fragLinesList]
    | cons f fs ih1 ih2 => simp [flinesList, fragLinesList, ih1, ih2]

/-! ### paragraphs -/

theorem breakLine_no_abort' (st : PStyle) (n i : Nat) (lines : List (Nat × Rat))
    (skip resume : Option Resume) : (breakLine st n i lines true skip resume).1 = false := by
  unfold breakLine
  simp

/-- On an empty page the line loop never aborts the paragraph, whatever the footnote policies. -/
theorem lineLoopF_no_abort (c : FCtx) (st : PStyle) (calls : List Call) (b : BoxSt) (n : Nat) (lineH bs : Rat)
    (fuel i : Nat) (y : Rat) (s : LineLoop) (fs : FState) :
    ∀ a stp r s', (lineLoopF c st calls b n lineH true bs fuel i y s fs).1 = .broke a stp r s' → a = false := by
  fun_induction lineLoopF c st calls b n lineH true bs fuel i y s fs with
  | case1 => intro a stp r s' h; cases h
  | case2 fuel i y s fs resume newPosY dbd offset overflow hov abort stop r lines' hb =>
    intro a stp r2 s' h
    have := breakLine_no_abort' st n i s.lines s.skip resume
    rw [hb] at this
    simp only [LineOutcome.broke.injEq] at h
    rw [← h.1]; exact this
  | case3 fuel i y s fs resume newPosY dbd offset overflow hov shift newPosY' lineY mt' fs' hfl ih => exact ih
  | case4 fuel i y s fs resume newPosY dbd offset overflow hov shift newPosY' mt' fs' hfl abort stop r lines' hb =>
    intro a stp r2 s' h
    have := breakLine_no_abort' st n i s.lines s.skip resume
    rw [hb] at this
    simp only [LineOutcome.broke.injEq] at h
    rw [← h.1]; exact this
  | case5 fuel i y s fs resume newPosY dbd offset overflow hov shift newPosY' mt' fs' hfl =>
    have := footLoop_no_abort_pie c (!s.lines.isEmpty || !true) bs (newPosY' + offset) (lineFns st calls i) fs
    rw [hfl] at this
    exact absurd rfl this

theorem lineboxF_no_abort (c : FCtx) (st : PStyle) (calls : List Call) (b : BoxSt) (n : Nat) (lineH : Rat)
    (adj : List Rat) (bs posY : Rat) (skip : Option Resume) (dbd : Bool) (fs : FState) :
    (lineboxLayoutF c st calls b n lineH true adj bs posY skip dbd fs).1.abort = false := by
  unfold lineboxLayoutF
  dsimp only
  cases hl : (lineboxLoopF c st calls b n lineH true adj bs posY skip dbd fs).1 with
  | done s => rfl
  | broke a st' r s =>
    simp only [lineResultOf]
    unfold lineboxLoopF at hl
    exact lineLoopF_no_abort c st calls b n lineH bs _ _ _ _ fs a st' r s hl

theorem lineResultOf_abort (n : Nat) (o : LineOutcome) : (lineResultOf n o).abort = outAbort o := by
  cases o <;> rfl

theorem lineResultOf_lines (n : Nat) (o : LineOutcome) : (lineResultOf n o).lines = outLines o := by
  cases o <;> rfl

/-- What `finishPara` returns, by case. -/
theorem finishPara_cases (c : Ctx) (st : PStyle) (p : Prep) (pie : Bool) (id idx n : Nat) (r : LineResult) :
    (r.abort = true → (finishPara c st p pie id idx n r).frag = none) ∧
    (r.abort = false →
      (dropped st pie (if r.stop then forgetIfFixed st { p.b with mt := r.mt } r.posY r.resume else none) = true →
        (finishPara c st p pie id idx n r).frag = none) ∧
      (dropped st pie (if r.stop then forgetIfFixed st { p.b with mt := r.mt } r.posY r.resume else none) = false →
        ∃ g, (finishPara c st p pie id idx n r).frag = some (.para id idx st n g r.lines))) := by
  unfold finishPara
  dsimp only
  constructor
  · intro h; simp [h, abortResult]
  · intro h
    simp only [h, Bool.false_eq_true, ↓reduceIte]
    unfold finishContainer dropped
    constructor
    · intro hd; rw [if_pos hd]
    · intro hd
      rw [if_neg (by simp [hd])]
      exact ⟨_, rfl⟩

/-- The post-condition on the footnote state of a layout that started in `fs` and returned `frag`. -/
def StatePost (c : FCtx) (fs : FState) (frag : Option Frag) (fs' : FState) : Prop :=
  StOk fs' ∧ act fs' = act fs ++ fragFns c frag ∧ (∀ g ∈ fs.pending, g ∈ fs'.pending ∨ g ∈ fragFns c frag)

theorem callFn_mem_lineFns (st : PStyle) (calls : List Call) (cl : Call) (h : cl ∈ calls) :
    mkFn st cl ∈ lineFns st calls cl.line := by
  simp only [lineFns, List.mem_map, List.mem_filter]
  exact ⟨cl, ⟨h, by simp⟩, rfl⟩

theorem lineFns_sub_calls (st : PStyle) (calls : List Call) (i : Nat) (g : Fn) (h : g ∈ lineFns st calls i) :
    g ∈ calls.map (mkFn st) := by
  simp only [lineFns, List.mem_map, List.mem_filter] at h ⊢
  obtain ⟨cl, ⟨h1, _⟩, h2⟩ := h
  exact ⟨cl, h1, h2⟩

theorem idxFns_sub_calls (st : PStyle) (calls : List Call) (is : List Nat) (g : Fn) (h : g ∈ idxFns st calls is) :
    g ∈ calls.map (mkFn st) := by
  rw [idxFns_mem] at h
  obtain ⟨i, _, hi⟩ := h
  exact lineFns_sub_calls st calls i g hi

/-- **State post-condition of the layout of a paragraph.** -/
theorem paraF_state (id n : Nat) (lineH : Rat) (st : PStyle) (calls : List Call) (c : FCtx)
    (hok : FootOk c.tbl (.para id n lineH st calls))
    (idx : Nat) (y bs : Rat) (skip : Option Resume) (cb pie : Bool) (adjL : List Rat) (fs : FState)
    (hskip : skip.isSome = true → pie = true) (hst : StOk fs)
    (hND : (idxFns st calls (List.range' (paraStart skip) (n - paraStart skip))).Nodup)
    (hP : ∀ g ∈ idxFns st calls (List.range' (paraStart skip) (n - paraStart skip)), g ∈ fs.pending) :
    StatePost c fs (layoutBoxF c (.para id n lineH st calls) idx y bs skip cb pie adjL fs).r.frag
      (layoutBoxF c (.para id n lineH st calls) idx y bs skip cb pie adjL fs).fs := by
  simp only [FootOk] at hok
  obtain ⟨hh, ho, hw, hcalls, htbl⟩ := hok
  simp only [layoutBoxF]
  generalize hp : prepare (ctxOf c fs) st y bs skip cb pie adjL = p
  -- the line loop
  have hloop := lineLoopF_state c st calls p.b n lineH pie p.bs (paraStart skip) (n - paraStart skip)
    (paraStart skip) (lineStart p.cur p.posY)
    { lines := [], posY := lineStart p.cur p.posY, skip := subSkipOf skip, mt := p.b.mt, dbd := p.dbd } fs
    (act fs) fs.pending (Nat.le_refl _) (by simp) rfl hND hP (fun g hg => hst.disj g hg) hst
    (by simp [idxFns]) (fun g hg => Or.inl hg)
  have hlr : lineboxLayoutF c st calls p.b n lineH pie p.cur p.bs p.posY (subSkipOf skip) p.dbd fs =
      (lineResultOf n (lineLoopF c st calls p.b n lineH pie p.bs (n - paraStart skip) (paraStart skip)
        (lineStart p.cur p.posY)
        { lines := [], posY := lineStart p.cur p.posY, skip := subSkipOf skip, mt := p.b.mt, dbd := p.dbd } fs).1,
       (lineLoopF c st calls p.b n lineH pie p.bs (n - paraStart skip) (paraStart skip)
        (lineStart p.cur p.posY)
        { lines := [], posY := lineStart p.cur p.posY, skip := subSkipOf skip, mt := p.b.mt, dbd := p.dbd } fs).2) := rfl
  have hnoab : pie = true → (lineResultOf n (lineLoopF c st calls p.b n lineH pie p.bs (n - paraStart skip)
      (paraStart skip) (lineStart p.cur p.posY)
      { lines := [], posY := lineStart p.cur p.posY, skip := subSkipOf skip, mt := p.b.mt, dbd := p.dbd } fs).1).abort
      = false := by
    intro hpie
    subst hpie
    have := lineboxF_no_abort c st calls p.b n lineH p.cur p.bs p.posY (subSkipOf skip) p.dbd fs
    rw [hlr] at this
    exact this
  rw [hlr]
  generalize lineLoopF c st calls p.b n lineH pie p.bs (n - paraStart skip) (paraStart skip)
    (lineStart p.cur p.posY)
    { lines := [], posY := lineStart p.cur p.posY, skip := subSkipOf skip, mt := p.b.mt, dbd := p.dbd } fs = o
    at hloop hnoab
  obtain ⟨X, hs1, ha1, hj1, hX, hX0⟩ := hloop
  dsimp only
  generalize hr : lineResultOf n o.1 = r
  have hlines : r.lines = outLines o.1 := by rw [← hr]; exact lineResultOf_lines n o.1
  have habort : r.abort = outAbort o.1 := by rw [← hr]; exact lineResultOf_abort n o.1
  rw [← hlines] at ha1 hj1
  obtain ⟨hc1, hc2⟩ := finishPara_cases (ctxOf c o.2) st p pie id idx n r
  -- un-laying-out every call of the paragraph restores the entry state, when the paragraph is new here
  have hall : pie = false → ∀ G : List Fn, (∀ g ∈ G, g ∈ calls.map (mkFn st)) →
      (∀ g ∈ lineFnsList st calls r.lines ++ X, g ∈ G) →
      StatePost c fs none (unlayAll c o.2 G) := by
    intro hpie G hG1 hG2
    have hsk : skip = none := by
      cases skip with
      | none => rfl
      | some x => have := hskip rfl; rw [hpie] at this; cases this
    subst hsk
    have hk0 : paraStart none = 0 := rfl
    rw [hk0] at hP
    simp only [Nat.sub_zero] at hP
    obtain ⟨u1, u2, u3⟩ := unlayAll_spec c G o.2 hs1
    refine ⟨u1, ?_, ?_⟩
    · simp only [fragFns, List.append_nil]
      rw [u2, ha1, List.append_assoc]
      apply filter_cut _ _ _ _ hG2
      intro g hg hgG
      have := hG1 g hgG
      simp only [List.mem_map] at this
      obtain ⟨cl, hcl, rfl⟩ := this
      have hm := callFn_mem_lineFns st calls cl hcl
      have : mkFn st cl ∈ idxFns st calls (List.range' 0 n) := by
        rw [idxFns_mem]
        exact ⟨cl.line, by simp [List.mem_range']; exact hcalls cl hcl, hm⟩
      exact hst.disj _ hg (hP _ this)
    · intro g hg
      left
      rw [u3 g]
      rcases hj1 g hg with h | h | h
      · exact Or.inl h
      · exact Or.inr (hG2 g (by simp [h]))
      · exact Or.inr (hG2 g (by simp [h]))
  unfold finishParaF
  dsimp only
  by_cases hab : r.abort = true
  · rw [if_pos hab]
    have hpie : pie = false := by
      cases pie with
      | false => rfl
      | true =>
        have := hnoab rfl
        rw [hr] at this
        rw [this] at hab; cases hab
    have := hall hpie (lineFnsList st calls r.lines ++ calls.map (mkFn st))
      (fun g hg => by
        simp only [List.mem_append] at hg
        rcases hg with h | h
        · rw [lineFnsList_eq] at h; exact idxFns_sub_calls st calls _ g h
        · exact h)
      (fun g hg => by
        simp only [List.mem_append] at hg ⊢
        rcases hg with h | h
        · exact Or.inl h
        · exact Or.inr (hX g h))
    rw [hc1 hab]
    exact this
  · rw [if_neg hab]
    have hab' : r.abort = false := by simpa using hab
    have hXnil : X = [] := hX0 (by rw [← habort]; exact hab')
    subst hXnil
    simp only [List.append_nil] at ha1 hall
    have hj1' : ∀ g ∈ fs.pending, g ∈ o.2.pending ∨ g ∈ lineFnsList st calls r.lines := by
      intro g hg
      rcases hj1 g hg with h | h | h
      · exact Or.inl h
      · exact Or.inr h
      · simp at h
    obtain ⟨hd1, hd2⟩ := hc2 hab'
    by_cases hdr : dropped st pie (if r.stop then forgetIfFixed st { p.b with mt := r.mt } r.posY r.resume else none) = true
    · rw [if_pos hdr, hd1 hdr]
      have hpie : pie = false := by
        unfold dropped at hdr
        simp only [Bool.and_eq_true, Bool.not_eq_true'] at hdr
        exact hdr.2
      apply hall hpie
      · intro g hg
        simp only [List.mem_append] at hg
        rcases hg with h | h
        · rw [lineFnsList_eq] at h; exact idxFns_sub_calls st calls _ g h
        · exact h
      · intro g hg; simp [hg]
    · rw [if_neg hdr]
      obtain ⟨geo, hfr⟩ := hd2 (by simpa using hdr)
      rw [hfr]
      have hff : fragFns c (some (Frag.para id idx st n geo r.lines)) = lineFnsList st calls r.lines := by
        simp only [fragFns, flines]
        exact tblFns_paraLines c.tbl id st calls htbl r.lines
      exact ⟨hs1, by rw [hff]; exact ha1, by rw [hff]; exact hj1'⟩

end Wp.PMF
