/-
C03 geometry for multi-column containers, the other half of the exemption "first line of a column box": when the
container itself is laid out with `page_is_empty = False` (something was placed on the page before it), EVERY
column box of its fragment — the first group included — is laid out with `page_is_empty = False`, so all their
lines end above the bottom space.  (`afterSpan lh kids true` = the lines of all column boxes, none exempt.)
-/
import WpModel.Lemmas.ColGeoStrict

namespace Wp.PMC
open Wp Wp.PM

theorem colsLoop_first (lh : Nat → Rat) (env : ColEnv) (he : EnvFits lh env) (hs : EnvStrict lh env) (c : CCtx)
    (cs : ColSpec) (hd : Bool) (obs : Rat) (last fuel : Nat) :
    ∀ (items : List ColItem) (s : ColsState), obs ≤ s.bs → s.pie = false →
      LinesOk c obs (afterSpan lh s.newChildren true) →
      LinesOk c obs (afterSpan lh (colsLoop env c cs hd obs last fuel items s).newChildren true) := by
  intro items
  induction items with
  | nil => intro s _ _ h; simpa [colsLoop] using h
  | cons it rest ih =>
    intro s hbs hpie hok
    cases it with
    | span i =>
      unfold colsLoop
      dsimp only
      split
      · exact hok
      · split
        · exact hok
        · rename_i f hf
          have hnc := hs.span c i s.y obs (subSkipOf s.skip) s.pie s.adj f hf
          have hnew : LinesOk c obs (afterSpan lh (s.newChildren ++ [f]) true) := by
            rw [afterSpan_append, linesOk_append]
            refine ⟨hok, ?_⟩
            simp only [afterSpan, hnc, Bool.false_and, Bool.false_eq_true, if_false, List.append_nil]
            exact linesOk_nil c obs
          split
          · exact hnew
          · apply ih
            · exact hbs
            · rfl
            · exact hnew
    | group a len =>
      unfold colsLoop
      dsimp only
      split
      · exact hok
      · generalize hbsIn : (if c.pageBottom - (s.y + collapseMargin s.adj) -
            (trialLoop env c a 0 (s.y + collapseMargin s.adj) (c.pageBottom - (s.y + collapseMargin s.adj) - obs)
              cs.count s.skip (cs.balance || decide (a < last)) s.nextPage).height > s.bs
          then c.pageBottom - (s.y + collapseMargin s.adj) -
            (trialLoop env c a 0 (s.y + collapseMargin s.adj) (c.pageBottom - (s.y + collapseMargin s.adj) - obs)
              cs.count s.skip (cs.balance || decide (a < last)) s.nextPage).height
          else s.bs) = bsIn
        have hle : obs ≤ bsIn := by
          rw [← hbsIn]
          split
          · rename_i h; exact Rat.le_trans hbs (Rat.le_of_lt h)
          · exact hbs
        generalize hR : realLoop env c a (s.y + collapseMargin s.adj) cs s.pie hd obs fuel 0
          { columns := [], maxColH := 0, skip := s.skip, colSkip := s.colSkip,
            nextPage := (trialLoop env c a 0 (s.y + collapseMargin s.adj)
              (c.pageBottom - (s.y + collapseMargin s.adj) - obs) cs.count s.skip
              (cs.balance || decide (a < last)) s.nextPage).nextPage,
            bs := bsIn, breakPage := s.breakPage, err := none } = R
        have hfits := realLoop_fits lh env he c a (s.y + collapseMargin s.adj) cs s.pie hd obs bsIn fuel 0
          { columns := [], maxColH := 0, skip := s.skip, colSkip := s.colSkip,
            nextPage := (trialLoop env c a 0 (s.y + collapseMargin s.adj)
              (c.pageBottom - (s.y + collapseMargin s.adj) - obs) cs.count s.skip
              (cs.balance || decide (a < last)) s.nextPage).nextPage,
            bs := bsIn, breakPage := s.breakPage, err := none } rfl hle (linesOk_nil c bsIn)
        have hreal := realLoop_strict lh env hs c a (s.y + collapseMargin s.adj) cs s.pie hd obs bsIn fuel 0
          { columns := [], maxColH := 0, skip := s.skip, colSkip := s.colSkip,
            nextPage := (trialLoop env c a 0 (s.y + collapseMargin s.adj)
              (c.pageBottom - (s.y + collapseMargin s.adj) - obs) cs.count s.skip
              (cs.balance || decide (a < last)) s.nextPage).nextPage,
            bs := bsIn, breakPage := s.breakPage, err := none } rfl (by intro f hf; simp at hf)
        rw [hR] at hreal hfits
        split
        · exact hok
        · have hnew : LinesOk c obs (afterSpan lh (s.newChildren ++ R.columns.map (setColHeight R.maxColH)) true) := by
            rw [afterSpan_append, linesOk_append, afterSpan_map_setColHeight]
            refine ⟨hok, ?_⟩
            simp only [Bool.true_or]
            apply linesOk_afterSpan_columns
            intro f hf
            have := hreal f hf
            rw [hpie] at this
            exact ⟨this.1, linesOk_mono c obs bsIn _ hle this.2⟩
          split
          · exact hnew
          · apply ih
            · exact hfits.2
            · rfl
            · exact hnew

theorem columnsLayout_first (lh : Nat → Rat) (env : ColEnv) (he : EnvFits lh env) (hs : EnvStrict lh env)
    (c : CCtx) (id idx : Nat) (st : PStyle) (cs : ColSpec) (flags : List Bool) (nkids fuel : Nat) (mt y0 bs0 : Rat)
    (skip : Option Resume) (adjL : List Rat) (f : CFrag)
    (h : (columnsLayout env c id idx st cs flags nkids fuel mt y0 bs0 skip false adjL).frag = some f) :
    LinesOk c bs0 (afterSpan lh f.kids true) := by
  unfold columnsLayout at h
  split at h
  · simp [raisedResult] at h
  · dsimp only at h
    obtain ⟨g, diff, rfl, _, _, _⟩ := colsFinish_frag _ _ _ _ _ _ _ _ _ _ h
    simp only [CFrag.kids, afterSpan_addTrailing]
    rw [← linesOk_inColumn c true]
    apply colsLoop_first lh env he hs
    · simp only [colsInit]
      split
      · split
        · rename_i hgt; exact Rat.le_of_lt hgt
        · exact Rat.le_refl
      · exact Rat.le_refl
    · simp [colsInit]
    · simp only [colsInit, afterSpan]
      exact linesOk_nil _ _

theorem columnsBoxLayout_first (lh : Nat → Rat) (env : ColEnv) (he : EnvFits lh env) (hs : EnvStrict lh env)
    (c : CCtx) (id idx : Nat) (st : PStyle) (cs : ColSpec) (flags : List Bool) (nkids fuel : Nat) (y bs : Rat)
    (skip : Option Resume) (cb : Bool) (adjL : List Rat) (f : CFrag)
    (h : (columnsBoxLayout env c id idx st cs flags nkids fuel y bs skip cb false adjL).frag = some f) :
    LinesOk c bs (afterSpan lh f.kids true) := by
  unfold columnsBoxLayout at h
  dsimp only at h
  generalize (if (decide (c.currentPage > 1) && false && (cb || !adjL.isEmpty) && !c.forcedBreak) = true
    then (0 : Rat) else st.mt) = mt at h
  have h1 := fun b g hg => columnsLayout_first lh env he hs c id idx st cs flags nkids fuel mt y b skip adjL g hg
  split at h
  · exact h1 bs f h
  · split at h
    · split at h
      · simp [raisedResult] at h
      · split at h
        · rename_i hpos
          refine linesOk_mono c bs _ _ ?_ (h1 _ f h)
          have : (0 : Rat) < _ := hpos
          grind
        · exact h1 bs f h
    · exact h1 bs f h

/-- **A container that is not the first content of its page**: every line of every column box of its fragment
ends above the bottom space — no exemption for the first line of any column. -/
theorem container_not_first_fits (lh : Nat → Rat) (id : Nat) (st : PStyle) (cs : ColSpec) (flags : List Bool)
    (kids : List ColBox) (hd : DecoOk (.columns id st cs flags kids)) (hl : LhOk lh (.columns id st cs flags kids))
    (c : CCtx) (idx : Nat) (y bs : Rat) (skip : Option Resume) (cb : Bool) (adjL : List Rat) (f : CFrag)
    (hf : (layoutBox c (.columns id st cs flags kids) idx y bs skip cb false adjL).frag = some f) :
    LinesOk c bs (afterSpan lh f.kids true) := by
  unfold DecoOk at hd
  unfold LhOk at hl
  simp only [layoutBox] at hf
  refine columnsBoxLayout_first lh _ ?_ ?_ c id idx st cs flags kids.length (sizeKids kids + 1) y bs skip cb adjL
    f hf
  · constructor
    · intro c' a x y' bs' σ pie' f' hf'
      dsimp only at hf'
      obtain ⟨g, rfl, _⟩ := finishBlock_frag _ _ _ _ _ _ _ _ hf'
      refine ⟨rfl, ?_⟩
      simp only [placedLines]
      apply linesOk_placedList_anyPie lh c' bs' _ pie'
      apply linesOk_mono c' bs' _ _
        (prepareC_bs_le true c'.base (columnStyle st) y' bs' σ false pie' [] (columnStyle_decoOk st))
      exact kids_fits lh kids hd.2 hl c' (columnStyle st) _ 0 _ a _ pie' _ (by simp [placedList, linesOk_nil])
    · intro c' i y' bs' σ pie' adjL' f' hf'
      exact nth_fits lh kids hd.2 hl c' i y' bs' σ cb pie' adjL' f' hf'
  · constructor
    · intro c' a x y' bs' σ pie' f' hf'
      dsimp only at hf'
      obtain ⟨g, rfl, _⟩ := finishBlock_frag _ _ _ _ _ _ _ _ hf'
      refine ⟨rfl, ?_⟩
      simp only [CFrag.kids]
      apply linesOk_mono c' bs' _ _
        (prepareC_bs_le true c'.base (columnStyle st) y' bs' σ false pie' [] (columnStyle_decoOk st))
      exact kids_fits lh kids hd.2 hl c' (columnStyle st) _ 0 _ a _ pie' _ (by simp [placedList, linesOk_nil])
    · intro c' i y' bs' σ pie' adjL' f' hf'
      exact layoutNth_not_column c' kids i y' bs' σ cb pie' adjL' f' hf'

end Wp.PMC
