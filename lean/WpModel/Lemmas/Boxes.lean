/-
Lemmas on the kind-tree rewriters of Model/AnonBoxes.lean used by Props/C08.lean.  Core Lean only.
-/
import WpModel.Model.AnonBoxes

namespace Wp.Bx
open KBox

/-! ## inline_in_block -/

/-- What a line box may hold: inline-level boxes, and boxes out of normal flow (floats, absolutely
positioned boxes and running elements are kept in the line where they occur). -/
def inlineContent (c : KBox) : Bool := c.isA .InlineLevelBox || !c.inFlow

def blockLevel (c : KBox) : Bool := c.isA .BlockLevelBox

/-- CSS 2.1 §9.2.1.1: the children of a block container box are either one line box holding only
inline content, or only block-level boxes. -/
def LinesOrBlocks (kids : List KBox) : Prop :=
  (∃ l, kids = [l] ∧ l.kind = .LineBox ∧ ∀ c ∈ l.kids, inlineContent c = true) ∨
  (∀ c ∈ kids, blockLevel c = true)

mutual
/-- Every block container below (outside running elements, which are left alone) satisfies
`LinesOrBlocks`; every line box holds only inline content. -/
def WF : KBox → Prop
  | .mk k st _ _ _ kids _ =>
    st.run = true ∨
      (WFList kids ∧ (Gen.isSub k .BlockContainerBox = true → LinesOrBlocks kids) ∧
       (k = .LineBox → ∀ c ∈ kids, inlineContent c = true))
def WFList : List KBox → Prop
  | [] => True
  | c :: cs => WF c ∧ WFList cs
end

mutual
/-- Input of `inline_in_block` as the earlier passes leave it: no line box yet, and the children of
block containers are inline-level or block-level (stray table parts have been wrapped). -/
def Good : KBox → Prop
  | .mk k _ _ _ _ kids _ =>
    k ≠ .LineBox ∧ GoodList kids ∧
    (Gen.isSub k .BlockContainerBox = true →
      ∀ c ∈ kids, c.isA .InlineLevelBox = true ∨ c.isA .BlockLevelBox = true) ∧
    (Gen.isSub k .TextBox = true → kids = [])
def GoodList : List KBox → Prop
  | [] => True
  | c :: cs => Good c ∧ GoodList cs
end

theorem wfList_iff (l : List KBox) : WFList l ↔ ∀ c ∈ l, WF c := by
  induction l with
  | nil => simp [WFList]
  | cons c cs ih => simp [WFList, ih]

theorem goodList_iff (l : List KBox) : GoodList l ↔ ∀ c ∈ l, Good c := by
  induction l with
  | nil => simp [GoodList]
  | cons c cs ih => simp [GoodList, ih]

/-- The parts of a box that `inline_in_block` never changes. -/
def Same (a b : KBox) : Prop :=
  b.kind = a.kind ∧ b.st = a.st ∧ b.inst.noFloat = a.inst.noFloat ∧ b.text = a.text ∧ b.el = a.el

theorem Same.isA {a b : KBox} (h : Same a b) (c : BoxClass) : b.isA c = a.isA c := by
  simp [KBox.isA, h.1]

theorem Same.inFlow {a b : KBox} (h : Same a b) : b.inFlow = a.inFlow := by
  simp [KBox.inFlow, KBox.isFloated, h.2.1, h.2.2.1]

theorem iib_same (f : Bool) (b b' : KBox) (h : iib f b = .ok b') : Same b b' := by
  obtain ⟨k, st, el, inst, text, kids, cols⟩ := b
  unfold iib at h
  simp only at h
  split at h
  · cases h; simp [Same, KBox.kind, KBox.st, KBox.inst, KBox.text, KBox.el]
  · split at h
    · cases h
    · split at h
      · cases h; simp [Same, KBox.kind, KBox.st, KBox.inst, KBox.text, KBox.el]
      · split at h
        · cases h
        · cases h; simp [Same, KBox.kind, KBox.st, KBox.inst, KBox.text, KBox.el, KBox.withKids]

/-- The first loop keeps the children in order, drops only empty text boxes, and replaces every kept
child by its own `inline_in_block`. -/
theorem iibKids_mem (kids : List KBox) : ∀ (t : Bool) (out : List KBox) (t' : Bool),
    iibKids t kids = .ok (out, t') → ∀ o ∈ out, ∃ c ∈ kids, ∃ f, iib f c = .ok o := by
  induction kids with
  | nil => intro t out t' h; unfold iibKids at h; cases h; simp
  | cons c cs ih =>
    intro t out t' h o ho
    unfold iibKids at h
    split at h
    · obtain ⟨c', hc', f, hf⟩ := ih _ _ _ h o ho
      exact ⟨c', List.mem_cons_of_mem _ hc', f, hf⟩
    · split at h
      · cases h
      · rename_i c1 hc1
        split at h
        · cases h
        · rename_i rest t1 hrest
          cases h
          cases ho with
          | head => exact ⟨c, List.mem_cons_self, t, hc1⟩
          | tail _ ho' =>
            obtain ⟨c', hc', f, hf⟩ := ih _ _ _ hrest o ho'
            exact ⟨c', List.mem_cons_of_mem _ hc', f, hf⟩

theorem anon_line_wf (parent : KBox) (cs : List KBox) (h : ∀ c ∈ cs, WF c ∧ inlineContent c = true) :
    WF (anonFrom .LineBox parent cs) := by
  unfold anonFrom WF
  right
  refine ⟨(wfList_iff cs).2 (fun c hc => (h c hc).1), ?_, fun _ c hc => (h c hc).2⟩
  intro hb; exact absurd hb (by decide)

theorem anon_block_line_wf (parent : KBox) (cs : List KBox) (h : ∀ c ∈ cs, WF c ∧ inlineContent c = true) :
    WF (anonFrom .BlockBox parent [anonFrom .LineBox parent cs]) ∧
    blockLevel (anonFrom .BlockBox parent [anonFrom .LineBox parent cs]) = true := by
  refine ⟨?_, by simp [blockLevel, KBox.isA, anonFrom, KBox.kind]; decide⟩
  unfold anonFrom WF
  right
  refine ⟨⟨anon_line_wf parent cs h, trivial⟩, ?_, fun hk => by cases hk⟩
  intro _
  left
  refine ⟨_, rfl, by simp [KBox.kind], ?_⟩
  intro c hc
  simp only [KBox.kids] at hc
  exact (h c hc).2

/-- The second loop: `line` holds inline content, `acc` block-level boxes; the result is one line
box (only when nothing block-level was met) or block-level boxes only. -/
theorem groupLines_spec (parent : KBox) (kids : List KBox) :
    ∀ (line acc out : List KBox),
      (∀ c ∈ kids, WF c ∧ (c.isA .InlineLevelBox = true ∨ c.isA .BlockLevelBox = true)) →
      (∀ c ∈ line, WF c ∧ inlineContent c = true) → (∀ c ∈ acc, WF c ∧ blockLevel c = true) →
      groupLines parent kids line acc = .ok out →
      WFList out ∧ LinesOrBlocks out := by
  induction kids with
  | nil =>
    intro line acc out _ hline hacc h
    unfold groupLines at h
    have hl' : ∀ c ∈ line.reverse, WF c ∧ inlineContent c = true :=
      fun c hc => hline c (List.mem_reverse.mp hc)
    split at h
    · split at h
      · cases h
        have hb := anon_block_line_wf parent line.reverse hl'
        have hall : ∀ c ∈ (anonFrom .BlockBox parent [anonFrom .LineBox parent line.reverse] :: acc).reverse,
            WF c ∧ blockLevel c = true := by
          intro c hc
          rw [List.mem_reverse] at hc
          cases hc with
          | head => exact hb
          | tail _ h' => exact hacc c h'
        exact ⟨(wfList_iff _).2 (fun c hc => (hall c hc).1), Or.inr (fun c hc => (hall c hc).2)⟩
      · cases h
        refine ⟨⟨anon_line_wf parent _ hl', trivial⟩, Or.inl ⟨_, rfl, by simp [anonFrom, KBox.kind], ?_⟩⟩
        intro c hc
        simp only [anonFrom, KBox.kids] at hc
        exact (hl' c hc).2
    · cases h
      have hall : ∀ c ∈ acc.reverse, WF c ∧ blockLevel c = true :=
        fun c hc => hacc c (List.mem_reverse.mp hc)
      exact ⟨(wfList_iff _).2 (fun c hc => (hall c hc).1), Or.inr (fun c hc => (hall c hc).2)⟩
  | cons c cs ih =>
    intro line acc out hkids hline hacc h
    have hc := hkids c List.mem_cons_self
    have hcs : ∀ d ∈ cs, WF d ∧ (d.isA .InlineLevelBox = true ∨ d.isA .BlockLevelBox = true) :=
      fun d hd => hkids d (List.mem_cons_of_mem _ hd)
    unfold groupLines at h
    split at h
    · cases h
    · split at h
      · rename_i _ habs
        simp only [Bool.and_eq_true] at habs
        refine ih (c :: line) acc out hcs ?_ hacc h
        intro d hd
        cases hd with
        | head =>
          refine ⟨hc.1, ?_⟩
          have : c.inFlow = false := by simp [KBox.inFlow, show c.st.abs = true from habs.2]
          simp [inlineContent, this]
        | tail _ h' => exact hline d h'
      · split at h
        · rename_i _ _ hinl
          have hic : inlineContent c = true := by
            simp only [Bool.or_eq_true, Bool.and_eq_true] at hinl
            rcases hinl with h1 | h1
            · simp [inlineContent, h1]
            · have : c.inFlow = false := by simpa using h1.2
              simp [inlineContent, this]
          split at h
          · refine ih (c :: line) acc out hcs ?_ hacc h
            intro d hd
            cases hd with
            | head => exact ⟨hc.1, hic⟩
            | tail _ h' => exact hline d h'
          · exact ih line acc out hcs hline hacc h
        · rename_i _ _ hinl
          have hbl : blockLevel c = true := by
            simp only [Bool.or_eq_true, not_or] at hinl
            rcases hc.2 with h1 | h1
            · exact absurd h1 hinl.1
            · exact h1
          have hanon := anon_block_line_wf parent line.reverse (fun e he => hline e (List.mem_reverse.mp he))
          split at h
          · refine ih [] _ out hcs (by simp) ?_ h
            intro d hd
            cases hd with
            | head => exact ⟨hc.1, hbl⟩
            | tail _ h' =>
              cases h' with
              | head => exact hanon
              | tail _ h'' => exact hacc d h''
          · refine ih [] _ out hcs (by simp) ?_ h
            intro d hd
            cases hd with
            | head => exact ⟨hc.1, hbl⟩
            | tail _ h' => exact hacc d h'


theorem good_kids {k st el inst text kids cols} (h : Good (.mk k st el inst text kids cols)) :
    k ≠ .LineBox ∧ GoodList kids ∧ (Gen.isSub k .BlockContainerBox = true →
      ∀ c ∈ kids, c.isA .InlineLevelBox = true ∨ c.isA .BlockLevelBox = true) ∧
    (Gen.isSub k .TextBox = true → kids = []) := by
  unfold Good at h; exact h

mutual
/-- After `inline_in_block` every block container holds one line box or only block-level boxes. -/
theorem iib_wf : ∀ (b : KBox) (f : Bool) (b' : KBox), Good b → iib f b = .ok b' → WF b'
  | .mk k st el inst text kids cols, f, b', hg, h => by
    obtain ⟨hk, hgl, hflow, _⟩ := good_kids hg
    unfold iib at h
    simp only at h
    split at h
    · rename_i hcond
      cases h
      unfold WF
      simp only [Bool.or_eq_true] at hcond
      rcases hcond with he | hr
      · right
        have : kids = [] := by simpa using he
        subst this
        exact ⟨trivial, fun _ => Or.inr (by simp), fun _ => by simp⟩
      · left; exact hr
    · split at h
      · cases h
      · rename_i children trailing hkids
        have hwf : WFList children := iibKids_wf kids false children trailing hgl hkids
        have hmem := iibKids_mem kids false children trailing hkids
        split at h
        · cases h
          unfold WF
          right
          refine ⟨hwf, fun hb => ?_, fun hl => absurd hl hk⟩
          rename_i hnb
          simp [hb] at hnb
        · rename_i hbc
          have hbc' : Gen.isSub k .BlockContainerBox = true := by simpa using hbc
          split at h
          · cases h
          · rename_i newChildren hgroup
            cases h
            have hkidsR : ∀ c ∈ children, WF c ∧ (c.isA .InlineLevelBox = true ∨ c.isA .BlockLevelBox = true) := by
              intro c hc
              refine ⟨(wfList_iff children).1 hwf c hc, ?_⟩
              obtain ⟨c0, hc0, f0, hf0⟩ := hmem c hc
              have hs := iib_same f0 c0 c hf0
              rw [hs.isA, hs.isA]
              exact hflow hbc' c0 hc0
            have := groupLines_spec _ children [] [] newChildren hkidsR (by simp) (by simp) hgroup
            unfold KBox.withKids WF
            right
            exact ⟨this.1, fun _ => this.2, fun hl => absurd hl hk⟩
theorem iibKids_wf : ∀ (kids : List KBox) (t : Bool) (out : List KBox) (t' : Bool),
    GoodList kids → iibKids t kids = .ok (out, t') → WFList out
  | [], t, out, t', _, h => by
    unfold iibKids at h; cases h; trivial
  | c :: cs, t, out, t', hg, h => by
    unfold GoodList at hg
    unfold iibKids at h
    by_cases hdrop : (Gen.isSub c.kind .TextBox && c.text.isEmpty) = true
    · rw [if_pos hdrop] at h; exact iibKids_wf cs _ out t' hg.2 h
    · rw [if_neg hdrop] at h
      cases hc1 : iib t c with
      | error e => rw [hc1] at h; cases h
      | ok c1 =>
        rw [hc1] at h
        simp only at h
        cases hrest : iibKids false cs with
        | error e => rw [hrest] at h; cases h
        | ok r =>
          obtain ⟨rest, t1⟩ := r
          rw [hrest] at h
          simp only at h
          cases h
          exact ⟨iib_wf c t c1 hg.1 hc1, iibKids_wf cs false rest _ hg.2 hrest⟩
end

theorem isA_line_iff (c : KBox) : c.isA .LineBox = true ↔ c.kind = .LineBox := by
  unfold KBox.isA
  cases c.kind <;> decide

theorem groupLines_ok (parent : KBox) (kids : List KBox) (h : ∀ c ∈ kids, c.kind ≠ .LineBox) :
    ∀ (line acc : List KBox), ∃ out, groupLines parent kids line acc = .ok out := by
  induction kids with
  | nil =>
    intro line acc
    unfold groupLines
    split
    · split <;> exact ⟨_, rfl⟩
    · exact ⟨_, rfl⟩
  | cons c cs ih =>
    intro line acc
    have hcs : ∀ d ∈ cs, d.kind ≠ .LineBox := fun d hd => h d (List.mem_cons_of_mem _ hd)
    have hc : ¬ (c.isA .LineBox = true) := by
      rw [isA_line_iff]; exact h c List.mem_cons_self
    unfold groupLines
    rw [if_neg hc]
    split
    · exact ih hcs _ _
    · split
      · split
        · exact ih hcs _ _
        · exact ih hcs _ _
      · split
        · exact ih hcs _ _
        · exact ih hcs _ _

theorem good_kind {b : KBox} (h : Good b) : b.kind ≠ .LineBox := by
  obtain ⟨k, st, el, inst, text, kids, cols⟩ := b
  exact (good_kids h).1

mutual
/-- No assertion of `inline_in_block` can fail on such an input. -/
theorem iib_ok : ∀ (b : KBox) (f : Bool), Good b → ∃ b', iib f b = .ok b'
  | .mk k st el inst text kids cols, f, hg => by
    obtain ⟨hk, hgl, hflow, _⟩ := good_kids hg
    unfold iib
    simp only
    split
    · exact ⟨_, rfl⟩
    · obtain ⟨r, hr⟩ := iibKids_ok kids false hgl
      obtain ⟨children, trailing⟩ := r
      rw [hr]
      simp only
      split
      · exact ⟨_, rfl⟩
      · have hmem := iibKids_mem kids false children trailing hr
        have hkinds : ∀ c ∈ children, c.kind ≠ .LineBox := by
          intro c hc
          obtain ⟨c0, hc0, f0, hf0⟩ := hmem c hc
          rw [(iib_same f0 c0 c hf0).1]
          exact good_kind ((goodList_iff kids).1 hgl c0 hc0)
        obtain ⟨out, hout⟩ := groupLines_ok
          (KBox.mk k st el { inst with lcs := _, tcs := _ } text children cols) children hkinds [] []
        rw [hout]
        exact ⟨_, rfl⟩
theorem iibKids_ok : ∀ (kids : List KBox) (t : Bool), GoodList kids → ∃ r, iibKids t kids = .ok r
  | [], t, _ => by unfold iibKids; exact ⟨_, rfl⟩
  | c :: cs, t, hg => by
    unfold GoodList at hg
    unfold iibKids
    split
    · exact iibKids_ok cs _ hg.2
    · obtain ⟨c1, hc1⟩ := iib_ok c t hg.1
      obtain ⟨r, hr⟩ := iibKids_ok cs false hg.2
      rw [hc1, hr]
      exact ⟨_, rfl⟩
end


/-! ### text preservation -/

mutual
/-- The text of a subtree, in document order. -/
def leafText : KBox → Text
  | .mk _ _ _ _ text kids _ => text ++ leafTextL kids
def leafTextL : List KBox → Text
  | [] => []
  | c :: cs => leafText c ++ leafTextL cs
end

/-- The text without its U+0020 characters. -/
def noSp (t : Text) : Text := t.filter (fun c => c != 32)

@[simp] theorem noSp_nil : noSp [] = [] := rfl

theorem noSp_append (a b : Text) : noSp (a ++ b) = noSp a ++ noSp b := by simp [noSp]

theorem leafTextL_append (a b : List KBox) : leafTextL (a ++ b) = leafTextL a ++ leafTextL b := by
  induction a with
  | nil => simp [leafTextL]
  | cons c cs ih => simp [leafTextL, ih]

theorem leafTextL_reverse_cons (c : KBox) (l : List KBox) :
    leafTextL (c :: l).reverse = leafTextL l.reverse ++ leafText c := by
  simp [leafTextL_append, leafTextL]

theorem leafText_anon (cls : BoxKind) (parent : KBox) (kids : List KBox) :
    leafText (anonFrom cls parent kids) = leafTextL kids := by
  simp [anonFrom, leafText]

/-- Text boxes have no children. -/
def TextLeaf (c : KBox) : Prop := c.isA .TextBox = true → c.kids = []

theorem good_textLeaf {c : KBox} (h : Good c) : TextLeaf c := by
  obtain ⟨k, st, el, inst, text, kids, cols⟩ := c
  exact (good_kids h).2.2.2

theorem leafText_of_text (c : KBox) (h : TextLeaf c) (ht : c.isA .TextBox = true) : leafText c = c.text := by
  obtain ⟨k, st, el, inst, text, kids, cols⟩ := c
  have : kids = [] := h ht
  subst this
  simp [leafText, leafTextL, KBox.text]

/-- The second loop only drops text boxes holding one space. -/
theorem groupLines_text (parent : KBox) (kids : List KBox) :
    ∀ (line acc out : List KBox), (∀ c ∈ kids, TextLeaf c) →
      groupLines parent kids line acc = .ok out →
      noSp (leafTextL out) = noSp (leafTextL acc.reverse) ++ noSp (leafTextL line.reverse) ++ noSp (leafTextL kids) := by
  induction kids with
  | nil =>
    intro line acc out _ h
    unfold groupLines at h
    split at h
    · split at h
      · cases h
        simp [leafTextL_append, leafTextL, leafText_anon, noSp_append]
      · cases h
        rename_i hacc
        have : acc = [] := by simpa using hacc
        subst this
        simp [leafTextL, leafText_anon, noSp_append]
    · cases h
      rename_i hl
      have : line = [] := by simpa using hl
      subst this
      simp [leafTextL, noSp]
  | cons c cs ih =>
    intro line acc out hg h
    have hgc := hg c List.mem_cons_self
    have hgs : ∀ d ∈ cs, TextLeaf d := fun d hd => hg d (List.mem_cons_of_mem _ hd)
    unfold groupLines at h
    split at h
    · cases h
    · split at h
      · rw [ih _ _ _ hgs h, leafTextL_reverse_cons]
        simp [leafTextL, noSp_append]
      · split at h
        · split at h
          · rw [ih _ _ _ hgs h, leafTextL_reverse_cons]
            simp [leafTextL, noSp_append]
          · rename_i hdrop
            rw [ih _ _ _ hgs h]
            simp only [Bool.or_eq_true, Bool.not_eq_true', not_or, Bool.not_eq_false, Bool.and_eq_true,
              beq_iff_eq] at hdrop
            have ht : leafText c = [Ch.sp] := by
              rw [leafText_of_text c hgc hdrop.2.1.1]; exact hdrop.2.1.2
            simp [leafTextL, ht, noSp_append, noSp, Ch.sp]
        · split at h
          · rw [ih _ _ _ hgs h]
            simp [leafTextL_append, leafTextL, leafText_anon, noSp_append]
          · rename_i hl
            have : line = [] := by simpa using hl
            subst this
            rw [ih _ _ _ hgs h, leafTextL_reverse_cons]
            simp [leafTextL, noSp_append]

mutual
/-- `inline_in_block` keeps the text of the tree, in order, up to U+0020 characters (it removes
text boxes emptied by `process_whitespace` and the single collapsible space that would start a line). -/
theorem iib_text : ∀ (b : KBox) (f : Bool) (b' : KBox), Good b → iib f b = .ok b' →
    noSp (leafText b') = noSp (leafText b)
  | .mk k st el inst text kids cols, f, b', hg, h => by
    obtain ⟨hk, hgl, hflow, _⟩ := good_kids hg
    unfold iib at h
    simp only at h
    split at h
    · cases h; simp [leafText]
    · split at h
      · cases h
      · rename_i children trailing hkids
        have hkt := iibKids_text kids false children trailing hgl hkids
        split at h
        · cases h; simp [leafText, noSp_append, hkt]
        · split at h
          · cases h
          · rename_i newChildren hgroup
            cases h
            have hmem := iibKids_mem kids false children trailing hkids
            have hgood : ∀ c ∈ children, TextLeaf c := by
              intro c hc
              obtain ⟨c0, hc0, f0, hf0⟩ := hmem c hc
              exact iib_good c0 f0 c ((goodList_iff kids).1 hgl c0 hc0) hf0
            have := groupLines_text _ children [] [] newChildren hgood hgroup
            simp only [List.reverse_nil, leafTextL, noSp, List.filter_nil, List.nil_append] at this
            simp only [KBox.withKids, leafText, noSp_append]
            rw [show noSp (leafTextL newChildren) = noSp (leafTextL children) from this, hkt]
theorem iibKids_text : ∀ (kids : List KBox) (t : Bool) (out : List KBox) (t' : Bool),
    GoodList kids → iibKids t kids = .ok (out, t') → noSp (leafTextL out) = noSp (leafTextL kids)
  | [], t, out, t', _, h => by
    unfold iibKids at h; cases h; rfl
  | c :: cs, t, out, t', hg, h => by
    unfold GoodList at hg
    unfold iibKids at h
    by_cases hdrop : (Gen.isSub c.kind .TextBox && c.text.isEmpty) = true
    · rw [if_pos hdrop] at h
      rw [iibKids_text cs _ out t' hg.2 h]
      simp only [Bool.and_eq_true] at hdrop
      have ht := leafText_of_text c (good_textLeaf hg.1) hdrop.1
      have he : c.text = [] := by simpa using hdrop.2
      simp [leafTextL, ht, he]
    · rw [if_neg hdrop] at h
      cases hc1 : iib t c with
      | error e => rw [hc1] at h; cases h
      | ok c1 =>
        rw [hc1] at h
        simp only at h
        cases hrest : iibKids false cs with
        | error e => rw [hrest] at h; cases h
        | ok r =>
          obtain ⟨rest, t1⟩ := r
          rw [hrest] at h
          simp only at h
          cases h
          simp only [leafTextL, noSp_append]
          rw [iib_text c t c1 hg.1 hc1, iibKids_text cs false rest _ hg.2 hrest]
/-- The result is again free of stray text-box children (needed to re-use `leafText_of_text`). -/
theorem iib_good : ∀ (b : KBox) (f : Bool) (b' : KBox), Good b → iib f b = .ok b' → TextLeaf b'
  | .mk k st el inst text kids cols, f, b', hg, h => by
    obtain ⟨hk, hgl, hflow, htext⟩ := good_kids hg
    intro ht
    have hs := iib_same f _ b' h
    rw [hs.isA] at ht
    have hk0 : kids = [] := htext ht
    subst hk0
    unfold iib at h
    simp at h
    cases h
    rfl
end


/-! ## block_in_inline -/

mutual
/-- No block-level box in normal flow is a child of the box or of an inline box below it. -/
def NoBlk : KBox → Prop
  | .mk _ _ _ _ _ kids _ => NoBlkL kids
def NoBlkL : List KBox → Prop
  | [] => True
  | c :: cs =>
    ¬ (c.isA .BlockLevelBox = true ∧ c.inFlow = true) ∧ (c.isA .InlineBox = true → NoBlk c) ∧ NoBlkL cs
end

mutual
/-- Every line box below (outside running elements) is free of block-level boxes in normal flow,
through any depth of inline boxes. -/
def WF2 : KBox → Prop
  | .mk k st _ _ _ kids _ => st.run = true ∨ ((k = .LineBox → NoBlkL kids) ∧ WF2L kids)
def WF2L : List KBox → Prop
  | [] => True
  | c :: cs => WF2 c ∧ WF2L cs
end

mutual
/-- Input of `block_in_inline` as `inline_in_block` leaves it: line boxes are never children of a
line box or of an inline box. -/
def Pre : KBox → Prop
  | .mk k _ _ _ _ kids _ =>
    ((k = .LineBox ∨ Gen.isSub k .InlineBox = true) → ∀ c ∈ kids, c.kind ≠ .LineBox) ∧ PreL kids
def PreL : List KBox → Prop
  | [] => True
  | c :: cs => Pre c ∧ PreL cs
end

theorem preL_iff (l : List KBox) : PreL l ↔ ∀ c ∈ l, Pre c := by
  induction l with
  | nil => simp [PreL]
  | cons c cs ih => simp [PreL, ih]

theorem wf2L_append (a b : List KBox) : WF2L (a ++ b) ↔ WF2L a ∧ WF2L b := by
  induction a with
  | nil => simp [WF2L]
  | cons c cs ih => simp [WF2L, ih, and_assoc]

theorem noBlkL_append (a b : List KBox) : NoBlkL (a ++ b) ↔ NoBlkL a ∧ NoBlkL b := by
  induction a with
  | nil => simp [NoBlkL]
  | cons c cs ih => simp [NoBlkL, ih, and_assoc]

theorem pre_kids {b : KBox} (h : Pre b) :
    ((b.kind = .LineBox ∨ b.isA .InlineBox = true) → ∀ c ∈ b.kids, c.kind ≠ .LineBox) ∧ PreL b.kids := by
  obtain ⟨k, st, el, inst, text, kids, cols⟩ := b
  unfold Pre at h
  exact h

theorem wf2_withKids (b : KBox) (ks : List KBox) (h1 : b.kind = .LineBox → NoBlkL ks) (h2 : WF2L ks) :
    WF2 (b.withKids ks) := by
  obtain ⟨k, st, el, inst, text, kids, cols⟩ := b
  unfold KBox.withKids WF2
  exact Or.inr ⟨h1, h2⟩

theorem bii_same : ∀ (n : Nat) (b b' : KBox), bii n b = .ok b' →
    b'.kind = b.kind ∧ b'.st = b.st ∧ b'.inst = b.inst
  | 0, b, b', h => by unfold bii at h; cases h
  | n + 1, b, b', h => by
    unfold bii at h
    split at h
    · cases h; exact ⟨rfl, rfl, rfl⟩
    · split at h
      · cases h
      · cases h
        obtain ⟨k, st, el, inst, text, kids, cols⟩ := b
        exact ⟨rfl, rfl, rfl⟩

theorem withKids_proj (b : KBox) (ks : List KBox) :
    (b.withKids ks).kind = b.kind ∧ (b.withKids ks).st = b.st ∧ (b.withKids ks).inst = b.inst ∧
    (b.withKids ks).kids = ks := by
  obtain ⟨k, st, el, inst, text, kids, cols⟩ := b
  exact ⟨rfl, rfl, rfl, rfl⟩

theorem flow_of_same {a b : KBox} (hk : b.kind = a.kind) (hs : b.st = a.st) (hi : b.inst = a.inst) :
    (∀ c, b.isA c = a.isA c) ∧ b.inFlow = a.inFlow := by
  constructor
  · intro c; simp [KBox.isA, hk]
  · simp [KBox.inFlow, KBox.isFloated, hs, hi]

theorem noBlk_withKids (b : KBox) (ks : List KBox) : NoBlk (b.withKids ks) ↔ NoBlkL ks := by
  obtain ⟨k, st, el, inst, text, kids, cols⟩ := b
  simp [KBox.withKids, NoBlk]

theorem isA_block_not_line (b : KBox) (h : b.isA .BlockLevelBox = true) : b.kind ≠ .LineBox := by
  intro hk
  unfold KBox.isA at h
  rw [hk] at h
  exact absurd h (by decide)

/-- The statements proved together by induction on the fuel. -/
structure BiiFacts (n : Nat) : Prop where
  bii : ∀ (b b' : KBox), Pre b → b.kind ≠ .LineBox → bii n b = .ok b' → WF2 b'
  kids : ∀ (parent : KBox) (kids out : List KBox), PreL kids → biiKids n parent kids = .ok out → WF2L out
  line : ∀ (parent line : KBox) (stack : List Nat) (emitted : Bool) (out : List KBox),
    Pre line → line.kind = .LineBox → biiLine n parent line stack emitted = .ok out → WF2L out
  inner : ∀ (box : KBox) (stack : List Nat) (box' : KBox) (blk : Option KBox) (resume : List Nat),
    Pre box → (box.kind = .LineBox ∨ box.isA .InlineBox = true) →
    inner n box stack = .ok (box', blk, resume) →
    ∃ ks, box' = box.withKids ks ∧ NoBlkL ks ∧ WF2L ks ∧
      ∀ b, blk = some b → Pre b ∧ b.isA .BlockLevelBox = true
  innerKids : ∀ (kids : List KBox) (idx : Nat) (stack : List Nat) (acc : List KBox) (r : InnerLoop),
    PreL kids → (∀ c ∈ kids, c.kind ≠ .LineBox) → NoBlkL acc.reverse → WF2L acc.reverse →
    innerKids n kids idx stack acc = .ok r →
    match r with
    | .found ks b _ => NoBlkL ks ∧ WF2L ks ∧ Pre b ∧ b.isA .BlockLevelBox = true
    | .done ks => NoBlkL ks ∧ WF2L ks

theorem preL_drop (l : List KBox) (k : Nat) (h : PreL l) : PreL (l.drop k) := by
  rw [preL_iff] at h ⊢
  intro c hc
  exact h c (List.mem_of_mem_drop hc)

theorem biiFacts : ∀ n, BiiFacts n
  | 0 => by
    refine ⟨?_, ?_, ?_, ?_, ?_⟩
    · intro b b' _ _ h; unfold Wp.Bx.bii at h; cases h
    · intro parent kids out _ h; unfold biiKids at h; cases h
    · intro parent line stack emitted out _ _ h; unfold biiLine at h; cases h
    · intro box stack box' blk resume _ _ h; unfold Wp.Bx.inner at h; cases h
    · intro kids idx stack acc r _ _ _ _ h; unfold Wp.Bx.innerKids at h; cases h
  | n + 1 => by
    have IH := biiFacts n
    refine ⟨?_, ?_, ?_, ?_, ?_⟩
    · -- bii
      intro b b' hpre hk h
      unfold Wp.Bx.bii at h
      split at h
      · rename_i hc
        cases h
        obtain ⟨k, st, el, inst, text, kids, cols⟩ := b
        unfold WF2
        simp only [KBox.kids, KBox.st, Bool.or_eq_true] at hc
        rcases hc with he | hr
        · have : kids = [] := by simpa using he
          subst this
          exact Or.inr ⟨fun _ => trivial, trivial⟩
        · exact Or.inl hr
      · split at h
        · cases h
        · rename_i ks hks
          cases h
          exact wf2_withKids b ks (fun hl => absurd hl hk) (IH.kids b b.kids ks (pre_kids hpre).2 hks)
    · -- biiKids
      intro parent kids out hpre h
      cases kids with
      | nil => unfold biiKids at h; cases h; trivial
      | cons c cs =>
        unfold PreL at hpre
        unfold biiKids at h
        split at h
        · rename_i hline
          split at h
          · cases h
          · split at h
            · cases h
            · rename_i pieces hp
              split at h
              · cases h
              · rename_i rest hr
                cases h
                rw [wf2L_append]
                exact ⟨IH.line parent c [] false pieces hpre.1 ((isA_line_iff c).1 hline) hp,
                  IH.kids parent cs rest hpre.2 hr⟩
        · rename_i hline
          split at h
          · cases h
          · rename_i c' hc'
            split at h
            · cases h
            · rename_i rest hr
              cases h
              have hk : c.kind ≠ .LineBox := fun hk => hline ((isA_line_iff c).2 hk)
              exact ⟨IH.bii c c' hpre.1 hk hc', IH.kids parent cs rest hpre.2 hr⟩
    · -- biiLine
      intro parent line stack emitted out hpre hkind h
      unfold biiLine at h
      split at h
      · cases h
      · rename_i newLine _ hin
        obtain ⟨ks, rfl, h1, h2, _⟩ := IH.inner line stack newLine none _ hpre (Or.inl hkind) hin
        have hw : WF2 (line.withKids ks) := wf2_withKids line ks (fun _ => h1) h2
        split at h
        · cases h
          refine ⟨?_, trivial⟩
          unfold anonFrom WF2
          exact Or.inr ⟨(fun hk => by cases hk), hw, trivial⟩
        · cases h; exact ⟨hw, trivial⟩
      · rename_i newLine block stack' hin
        obtain ⟨ks, rfl, h1, h2, h3⟩ := IH.inner line stack newLine (some block) stack' hpre (Or.inl hkind) hin
        obtain ⟨hpb, hbl⟩ := h3 block rfl
        have hw : WF2 (line.withKids ks) := wf2_withKids line ks (fun _ => h1) h2
        split at h
        · cases h
        · rename_i block' hb
          split at h
          · cases h
          · rename_i rest hrest
            cases h
            refine ⟨?_, IH.bii block block' hpb (isA_block_not_line block hbl) hb,
              IH.line parent line stack' true rest hpre hkind hrest⟩
            unfold anonFrom WF2
            exact Or.inr ⟨(fun hk => by cases hk), hw, trivial⟩
    · -- inner
      intro box stack box' blk resume hpre hkind h
      unfold Wp.Bx.inner at h
      simp only at h
      have hpk := pre_kids hpre
      have hnl : ∀ c ∈ box.kids, c.kind ≠ .LineBox := hpk.1 hkind
      split at h
      · cases h
      · rename_i ks b res hik
        have := IH.innerKids _ _ _ [] (.found ks b res) (preL_drop _ _ hpk.2)
          (fun c hc => hnl c (List.mem_of_mem_drop hc)) trivial trivial hik
        simp only at this
        cases h
        exact ⟨ks, rfl, this.1, this.2.1, fun b' hb' => by cases hb'; exact this.2.2⟩
      · rename_i ks hik
        have := IH.innerKids _ _ _ [] (.done ks) (preL_drop _ _ hpk.2)
          (fun c hc => hnl c (List.mem_of_mem_drop hc)) trivial trivial hik
        simp only at this
        cases h
        exact ⟨ks, rfl, this.1, this.2, fun b' hb' => by cases hb'⟩
    · -- innerKids
      intro kids idx stack acc r hpre hnl hacc1 hacc2 h
      cases kids with
      | nil =>
        unfold Wp.Bx.innerKids at h
        cases h
        exact ⟨hacc1, hacc2⟩
      | cons c cs =>
        unfold PreL at hpre
        have hck : c.kind ≠ .LineBox := hnl c List.mem_cons_self
        have hcs : ∀ d ∈ cs, d.kind ≠ .LineBox := fun d hd => hnl d (List.mem_cons_of_mem _ hd)
        unfold Wp.Bx.innerKids at h
        split at h
        · rename_i hblk
          split at h
          · cases h
          · cases h
            simp only [Bool.and_eq_true] at hblk
            exact ⟨hacc1, hacc2, hpre.1, hblk.1⟩
        · rename_i hblk
          have hnb : ¬ (c.isA .BlockLevelBox = true ∧ c.inFlow = true) := by
            simpa [Bool.and_eq_true] using hblk
          split at h
          · rename_i hinl
            split at h
            · cases h
            · rename_i c' blk resume hin
              obtain ⟨ks, rfl, h1, h2, h3⟩ := IH.inner c stack c' (some blk) resume hpre.1 (Or.inr hinl) hin
              cases h
              obtain ⟨p1, p2, p3, _⟩ := withKids_proj c ks
              obtain ⟨f1, f2⟩ := flow_of_same p1 p2 p3
              have hone : NoBlkL [c.withKids ks] := by
                refine ⟨?_, fun _ => (noBlk_withKids c ks).2 h1, trivial⟩
                rw [f1, f2]; exact hnb
              have hwf : WF2 (c.withKids ks) := wf2_withKids c ks (fun hl => absurd hl hck) h2
              simp only [List.reverse_cons]
              exact ⟨(noBlkL_append _ _).2 ⟨hacc1, hone⟩, (wf2L_append _ _).2 ⟨hacc2, hwf, trivial⟩,
                h3 blk rfl⟩
            · rename_i c' _ hin
              obtain ⟨ks, rfl, h1, h2, _⟩ := IH.inner c stack c' none _ hpre.1 (Or.inr hinl) hin
              obtain ⟨p1, p2, p3, _⟩ := withKids_proj c ks
              obtain ⟨f1, f2⟩ := flow_of_same p1 p2 p3
              have hone : NoBlkL [c.withKids ks] := by
                refine ⟨?_, fun _ => (noBlk_withKids c ks).2 h1, trivial⟩
                rw [f1, f2]; exact hnb
              have hwf : WF2 (c.withKids ks) := wf2_withKids c ks (fun hl => absurd hl hck) h2
              refine IH.innerKids cs (idx + 1) [] (c.withKids ks :: acc) r hpre.2 hcs ?_ ?_ h
              · simp only [List.reverse_cons]; exact (noBlkL_append _ _).2 ⟨hacc1, hone⟩
              · simp only [List.reverse_cons]; exact (wf2L_append _ _).2 ⟨hacc2, hwf, trivial⟩
          · rename_i hinl
            split at h
            · cases h
            · split at h
              · cases h
              · rename_i c' hc'
                obtain ⟨p1, p2, p3⟩ := bii_same n c c' hc'
                obtain ⟨f1, f2⟩ := flow_of_same p1 p2 p3
                have hone : NoBlkL [c'] := by
                  refine ⟨?_, fun hi => ?_, trivial⟩
                  · rw [f1, f2]; exact hnb
                  · rw [f1] at hi; exact absurd hi hinl
                have hwf : WF2 c' := IH.bii c c' hpre.1 hck hc'
                refine IH.innerKids cs (idx + 1) [] (c' :: acc) r hpre.2 hcs ?_ ?_ h
                · simp only [List.reverse_cons]; exact (noBlkL_append _ _).2 ⟨hacc1, hone⟩
                · simp only [List.reverse_cons]; exact (wf2L_append _ _).2 ⟨hacc2, hwf, trivial⟩


/-! ### text preservation of `block_in_inline` -/

mutual
/-- Line boxes and inline boxes carry no text of their own (text lives in text boxes). -/
def Leafy : KBox → Prop
  | .mk k _ _ _ text kids _ => ((k = .LineBox ∨ Gen.isSub k .InlineBox = true) → text = []) ∧ LeafyL kids
def LeafyL : List KBox → Prop
  | [] => True
  | c :: cs => Leafy c ∧ LeafyL cs
end

theorem leafyL_iff (l : List KBox) : LeafyL l ↔ ∀ c ∈ l, Leafy c := by
  induction l with
  | nil => simp [LeafyL]
  | cons c cs ih => simp [LeafyL, ih]

theorem leafy_kids {b : KBox} (h : Leafy b) :
    ((b.kind = .LineBox ∨ b.isA .InlineBox = true) → b.text = []) ∧ LeafyL b.kids := by
  obtain ⟨k, st, el, inst, text, kids, cols⟩ := b
  unfold Leafy at h
  exact h

theorem leafyL_drop (l : List KBox) (k : Nat) (h : LeafyL l) : LeafyL (l.drop k) := by
  rw [leafyL_iff] at h ⊢
  intro c hc
  exact h c (List.mem_of_mem_drop hc)

theorem leafText_withKids (b : KBox) (ks : List KBox) : leafText (b.withKids ks) = b.text ++ leafTextL ks := by
  obtain ⟨k, st, el, inst, text, kids, cols⟩ := b
  simp [KBox.withKids, leafText, KBox.text]

theorem leafText_eq (b : KBox) : leafText b = b.text ++ leafTextL b.kids := by
  obtain ⟨k, st, el, inst, text, kids, cols⟩ := b
  simp [leafText, KBox.text, KBox.kids]

/-- Text of `kids` still to come when the first of them is resumed at `stack` (`[]`: from its start). -/
def textAt : KBox → List Nat → Text
  | box, [] => leafTextL box.kids
  | box, i :: tl =>
    match tl, box.kids.drop i with
    | [], ks => leafTextL ks
    | _ :: _, c :: rest => textAt c tl ++ leafTextL rest
    | _ :: _, [] => []

/-- The same for a list of children whose first one is resumed at `stack`. -/
def kidsText (kids : List KBox) (stack : List Nat) : Text :=
  match stack, kids with
  | [], ks => leafTextL ks
  | _ :: _, c :: rest => textAt c stack ++ leafTextL rest
  | _ :: _, [] => []

/-- Text after a resume position `res` (absolute indices) in a list starting at index `idx`. -/
def resumeText (kids : List KBox) (idx : Nat) (res : List Nat) : Text :=
  match res with
  | [] => []
  | j :: tl => kidsText (kids.drop (j - idx)) tl

theorem textAt_cons (box : KBox) (i : Nat) (tl : List Nat) :
    textAt box (i :: tl) = kidsText (box.kids.drop i) tl := by
  cases tl with
  | nil => simp [textAt, kidsText]
  | cons t ts =>
    cases h : box.kids.drop i with
    | nil => simp [textAt, kidsText, h]
    | cons c rest => simp [textAt, kidsText, h]

theorem textAt_nil (box : KBox) : textAt box [] = leafTextL box.kids := by simp [textAt]

theorem kidsText_nil (kids : List KBox) : kidsText kids [] = leafTextL kids := by
  cases kids <;> simp [kidsText]

theorem kidsText_cons (c : KBox) (cs : List KBox) (stack : List Nat) (hc : c.text = []) :
    kidsText (c :: cs) stack = textAt c stack ++ leafTextL cs := by
  cases stack with
  | nil => simp [kidsText, textAt, leafTextL, leafText_eq c, hc]
  | cons i tl => simp [kidsText]

/-- The statements on text proved together by induction on the fuel. -/
structure BiiText (n : Nat) : Prop where
  bii : ∀ (b b' : KBox), Leafy b → bii n b = .ok b' → leafText b' = leafText b
  kids : ∀ (parent : KBox) (kids out : List KBox), LeafyL kids → biiKids n parent kids = .ok out →
    leafTextL out = leafTextL kids
  line : ∀ (parent line : KBox) (stack : List Nat) (emitted : Bool) (out : List KBox),
    Leafy line → line.text = [] → biiLine n parent line stack emitted = .ok out →
    leafTextL out = textAt line stack
  inner : ∀ (box : KBox) (stack : List Nat) (box' : KBox) (blk : Option KBox) (resume : List Nat),
    Leafy box → inner n box stack = .ok (box', blk, resume) →
    ∃ ks, box' = box.withKids ks ∧
      match blk with
      | none => leafTextL ks = textAt box stack
      | some b => leafTextL ks ++ leafText b ++ textAt box resume = textAt box stack ∧ resume ≠ [] ∧ Leafy b
  innerKids : ∀ (kids : List KBox) (idx : Nat) (stack : List Nat) (acc : List KBox) (r : InnerLoop),
    LeafyL kids → innerKids n kids idx stack acc = .ok r →
    match r with
    | .found ks b res =>
      leafTextL ks ++ leafText b ++ resumeText kids idx res = leafTextL acc.reverse ++ kidsText kids stack ∧
      (∃ j tl, res = j :: tl ∧ idx ≤ j) ∧ Leafy b
    | .done ks => leafTextL ks = leafTextL acc.reverse ++ kidsText kids stack

theorem resumeText_shift (c : KBox) (cs : List KBox) (idx j : Nat) (tl : List Nat) (h : idx + 1 ≤ j) :
    resumeText (c :: cs) idx (j :: tl) = resumeText cs (idx + 1) (j :: tl) := by
  simp only [resumeText]
  have : j - idx = (j - (idx + 1)) + 1 := by omega
  rw [this, List.drop_succ_cons]

theorem biiText : ∀ n, BiiText n
  | 0 => by
    refine ⟨?_, ?_, ?_, ?_, ?_⟩
    · intro b b' _ h; unfold Wp.Bx.bii at h; cases h
    · intro parent kids out _ h; unfold biiKids at h; cases h
    · intro parent line stack emitted out _ _ h; unfold biiLine at h; cases h
    · intro box stack box' blk resume _ h; unfold Wp.Bx.inner at h; cases h
    · intro kids idx stack acc r _ h; unfold Wp.Bx.innerKids at h; cases h
  | n + 1 => by
    have IH := biiText n
    refine ⟨?_, ?_, ?_, ?_, ?_⟩
    · -- bii
      intro b b' hl h
      unfold Wp.Bx.bii at h
      split at h
      · cases h; rfl
      · split at h
        · cases h
        · rename_i ks hks
          cases h
          rw [leafText_withKids, leafText_eq b, IH.kids b b.kids ks (leafy_kids hl).2 hks]
    · -- biiKids
      intro parent kids out hl h
      cases kids with
      | nil => unfold biiKids at h; cases h; rfl
      | cons c cs =>
        unfold LeafyL at hl
        unfold biiKids at h
        split at h
        · rename_i hline
          split at h
          · cases h
          · split at h
            · cases h
            · rename_i pieces hp
              split at h
              · cases h
              · rename_i rest hr
                cases h
                have hct : c.text = [] := (leafy_kids hl.1).1 (Or.inl ((isA_line_iff c).1 hline))
                rw [leafTextL_append, IH.line parent c [] false pieces hl.1 hct hp,
                  IH.kids parent cs rest hl.2 hr, textAt_nil]
                simp [leafTextL, leafText_eq c, hct]
        · split at h
          · cases h
          · rename_i c' hc'
            split at h
            · cases h
            · rename_i rest hr
              cases h
              simp only [leafTextL]
              rw [IH.bii c c' hl.1 hc', IH.kids parent cs rest hl.2 hr]
    · -- biiLine
      intro parent line stack emitted out hl ht h
      unfold biiLine at h
      split at h
      · cases h
      · rename_i newLine _ hin
        obtain ⟨ks, rfl, h1⟩ := IH.inner line stack newLine none _ hl hin
        simp only at h1
        split at h
        · cases h
          simp [leafTextL, leafText_anon, leafText_withKids, ht, h1]
        · cases h
          simp [leafTextL, leafText_withKids, ht, h1]
      · rename_i newLine block stack' hin
        obtain ⟨ks, rfl, h1⟩ := IH.inner line stack newLine (some block) stack' hl hin
        simp only at h1
        obtain ⟨h1, _, hlb⟩ := h1
        split at h
        · cases h
        · rename_i block' hb
          split at h
          · cases h
          · rename_i rest hrest
            cases h
            simp only [leafTextL, leafText_anon, leafText_withKids, ht, List.nil_append, List.append_nil]
            rw [IH.bii block block' hlb hb, IH.line parent line stack' true rest hl ht hrest, ← h1]
            simp
    · -- inner
      intro box stack box' blk resume hl h
      unfold Wp.Bx.inner at h
      simp only at h
      have hlk := (leafy_kids hl).2
      cases stack with
      | nil =>
        simp only [List.drop_zero] at h
        split at h
        · cases h
        · rename_i ks b res hik
          have := IH.innerKids _ _ _ [] (.found ks b res) hlk hik
          simp only [List.reverse_nil, leafTextL, List.nil_append, kidsText_nil] at this
          obtain ⟨t1, ⟨j, tl, rfl, _⟩, t3⟩ := this
          cases h
          refine ⟨ks, rfl, ?_, by simp, t3⟩
          rw [textAt_cons, textAt_nil]
          simpa [resumeText] using t1
        · rename_i ks hik
          have := IH.innerKids _ _ _ [] (.done ks) hlk hik
          simp only [List.reverse_nil, leafTextL, List.nil_append, kidsText_nil] at this
          cases h
          exact ⟨ks, rfl, by simpa [textAt_nil] using this⟩
      | cons i tl =>
        simp only at h
        split at h
        · cases h
        · rename_i ks b res hik
          have := IH.innerKids _ _ _ [] (.found ks b res) (leafyL_drop _ i hlk) hik
          simp only [List.reverse_nil, leafTextL, List.nil_append] at this
          obtain ⟨t1, ⟨j, tl', rfl, hj⟩, t3⟩ := this
          cases h
          refine ⟨ks, rfl, ?_, by simp, t3⟩
          rw [textAt_cons, textAt_cons]
          simp only [resumeText, List.drop_drop] at t1
          have : i + (j - i) = j := by omega
          rw [this] at t1
          exact t1
        · rename_i ks hik
          have := IH.innerKids _ _ _ [] (.done ks) (leafyL_drop _ i hlk) hik
          simp only [List.reverse_nil, leafTextL, List.nil_append] at this
          cases h
          exact ⟨ks, rfl, by rw [textAt_cons]; exact this⟩
    · -- innerKids
      intro kids idx stack acc r hl h
      cases kids with
      | nil =>
        unfold Wp.Bx.innerKids at h
        cases h
        cases stack <;> simp [kidsText, leafTextL]
      | cons c cs =>
        unfold LeafyL at hl
        unfold Wp.Bx.innerKids at h
        split at h
        · split at h
          · cases h
          · rename_i hst
            cases h
            have : stack = [] := by simpa using hst
            subst this
            refine ⟨?_, ⟨idx + 1, [], rfl, by omega⟩, hl.1⟩
            simp [resumeText, kidsText, leafTextL, List.append_assoc]
        · split at h
          · rename_i hinl
            have hct : c.text = [] := (leafy_kids hl.1).1 (Or.inr hinl)
            split at h
            · cases h
            · rename_i c' blk resume hin
              obtain ⟨ks, rfl, h1⟩ := IH.inner c stack c' (some blk) resume hl.1 hin
              simp only at h1
              obtain ⟨h1, hne, hlb⟩ := h1
              cases h
              refine ⟨?_, ⟨idx, resume, rfl, Nat.le_refl _⟩, hlb⟩
              simp only [List.reverse_cons, leafTextL_append, leafTextL, leafText_withKids, hct,
                List.nil_append, List.append_nil, resumeText, Nat.sub_self, List.drop_zero]
              rw [kidsText_cons c cs stack hct, ← h1]
              cases resume with
              | nil => exact absurd rfl hne
              | cons r rs => simp [kidsText, List.append_assoc]
            · rename_i c' _ hin
              obtain ⟨ks, rfl, h1⟩ := IH.inner c stack c' none _ hl.1 hin
              simp only at h1
              have := IH.innerKids cs (idx + 1) [] (c.withKids ks :: acc) r hl.2 h
              have hacc : leafTextL (c.withKids ks :: acc).reverse = leafTextL acc.reverse ++ textAt c stack := by
                simp [leafTextL_append, leafTextL, leafText_withKids, hct, h1]
              cases r with
              | found ks' b res =>
                simp only at this ⊢
                obtain ⟨t1, ⟨j, tl, rfl, hj⟩, t3⟩ := this
                refine ⟨?_, ⟨j, tl, rfl, by omega⟩, t3⟩
                rw [resumeText_shift c cs idx j tl hj, t1, hacc, kidsText_nil, kidsText_cons c cs stack hct]
                simp [List.append_assoc]
              | done ks' =>
                simp only at this ⊢
                rw [this, hacc, kidsText_nil, kidsText_cons c cs stack hct]
                simp [List.append_assoc]
          · split at h
            · cases h
            · rename_i hst
              have hs : stack = [] := by simpa using hst
              subst hs
              split at h
              · cases h
              · rename_i c' hc'
                have hT := IH.bii c c' hl.1 hc'
                have := IH.innerKids cs (idx + 1) [] (c' :: acc) r hl.2 h
                have hacc : leafTextL (c' :: acc).reverse = leafTextL acc.reverse ++ leafText c := by
                  simp [leafTextL_append, leafTextL, hT]
                cases r with
                | found ks' b res =>
                  simp only at this ⊢
                  obtain ⟨t1, ⟨j, tl, rfl, hj⟩, t3⟩ := this
                  refine ⟨?_, ⟨j, tl, rfl, by omega⟩, t3⟩
                  rw [resumeText_shift c cs idx j tl hj, t1, hacc, kidsText_nil, kidsText_nil]
                  simp [leafTextL, List.append_assoc]
                | done ks' =>
                  simp only at this ⊢
                  rw [this, hacc, kidsText_nil, kidsText_nil]
                  simp [leafTextL, List.append_assoc]


/-! ### `inline_in_block` establishes the precondition of `block_in_inline` -/

theorem pre_anon (cls : BoxKind) (parent : KBox) (ks : List KBox) (h : PreL ks)
    (hk : (cls = .LineBox ∨ Gen.isSub cls .InlineBox = true) → ∀ c ∈ ks, c.kind ≠ .LineBox) :
    Pre (anonFrom cls parent ks) := by
  unfold anonFrom Pre; exact ⟨hk, h⟩

theorem leafy_anon (cls : BoxKind) (parent : KBox) (ks : List KBox) (h : LeafyL ks) :
    Leafy (anonFrom cls parent ks) := by
  unfold anonFrom Leafy; exact ⟨fun _ => rfl, h⟩

/-- What the second loop needs of every box it moves around. -/
def Fit (c : KBox) : Prop := Pre c ∧ Leafy c ∧ c.kind ≠ .LineBox

theorem fit_lists (l : List KBox) (h : ∀ c ∈ l, Fit c) : PreL l ∧ LeafyL l :=
  ⟨(preL_iff l).2 (fun c hc => (h c hc).1), (leafyL_iff l).2 (fun c hc => (h c hc).2.1)⟩

theorem fit_anon_block (parent : KBox) (line : List KBox) (h : ∀ c ∈ line, Fit c) :
    Fit (anonFrom .BlockBox parent [anonFrom .LineBox parent line]) := by
  obtain ⟨h1, h2⟩ := fit_lists line h
  refine ⟨pre_anon _ _ _ ⟨pre_anon _ _ _ h1 (fun _ c hc => (h c hc).2.2), trivial⟩ ?_,
    leafy_anon _ _ _ ⟨leafy_anon _ _ _ h2, trivial⟩, by simp [anonFrom, KBox.kind]⟩
  intro hk
  rcases hk with hk | hk
  · cases hk
  · exact absurd hk (by decide)

theorem groupLines_post (parent : KBox) (kids : List KBox) :
    ∀ (line acc out : List KBox), (∀ c ∈ kids, Fit c) → (∀ c ∈ line, Fit c) → (∀ c ∈ acc, Fit c) →
      groupLines parent kids line acc = .ok out →
      PreL out ∧ LeafyL out ∧ ∀ c ∈ out, c.kind = .LineBox → out = [c] := by
  induction kids with
  | nil =>
    intro line acc out _ hline hacc h
    unfold groupLines at h
    have hl' : ∀ c ∈ line.reverse, Fit c := fun c hc => hline c (List.mem_reverse.mp hc)
    split at h
    · split at h
      · cases h
        have hall : ∀ c ∈ (anonFrom .BlockBox parent [anonFrom .LineBox parent line.reverse] :: acc).reverse, Fit c := by
          intro c hc
          rw [List.mem_reverse] at hc
          cases hc with
          | head => exact fit_anon_block parent _ hl'
          | tail _ h' => exact hacc c h'
        obtain ⟨p1, p2⟩ := fit_lists _ hall
        exact ⟨p1, p2, fun c hc hk => absurd hk (hall c hc).2.2⟩
      · cases h
        obtain ⟨h1, h2⟩ := fit_lists _ hl'
        exact ⟨⟨pre_anon _ _ _ h1 (fun _ c hc => (hl' c hc).2.2), trivial⟩,
          ⟨leafy_anon _ _ _ h2, trivial⟩, fun c hc _ => by simp at hc; rw [hc]⟩
    · cases h
      have hall : ∀ c ∈ acc.reverse, Fit c := fun c hc => hacc c (List.mem_reverse.mp hc)
      obtain ⟨p1, p2⟩ := fit_lists _ hall
      exact ⟨p1, p2, fun c hc hk => absurd hk (hall c hc).2.2⟩
  | cons c cs ih =>
    intro line acc out hkids hline hacc h
    have hc := hkids c List.mem_cons_self
    have hcs : ∀ d ∈ cs, Fit d := fun d hd => hkids d (List.mem_cons_of_mem _ hd)
    have hcl : ∀ d ∈ c :: line, Fit d := by
      intro d hd
      cases hd with
      | head => exact hc
      | tail _ h' => exact hline d h'
    unfold groupLines at h
    split at h
    · cases h
    · split at h
      · exact ih _ _ _ hcs hcl hacc h
      · split at h
        · split at h
          · exact ih _ _ _ hcs hcl hacc h
          · exact ih _ _ _ hcs hline hacc h
        · split at h
          · refine ih _ _ _ hcs (by simp) ?_ h
            intro d hd
            cases hd with
            | head => exact hc
            | tail _ h' =>
              cases h' with
              | head => exact fit_anon_block parent _ (fun e he => hline e (List.mem_reverse.mp he))
              | tail _ h'' => exact hacc d h''
          · refine ih _ _ _ hcs (by simp) ?_ h
            intro d hd
            cases hd with
            | head => exact hc
            | tail _ h' => exact hacc d h'

theorem isSub_bc_not_inline (k : BoxKind) (h : Gen.isSub k .BlockContainerBox = true) :
    ¬ (k = .LineBox ∨ Gen.isSub k .InlineBox = true) := by
  cases k <;> first | (exact absurd h (by decide)) | decide

mutual
/-- The output of `inline_in_block` has its line boxes only as children of block containers, and
text only in text boxes: the precondition of `block_in_inline`. -/
theorem iib_post : ∀ (b : KBox) (f : Bool) (b' : KBox), Good b → Leafy b → iib f b = .ok b' →
    Pre b' ∧ Leafy b'
  | .mk k st el inst text kids cols, f, b', hg, hl, h => by
    obtain ⟨hk, hgl, hflow, _⟩ := good_kids hg
    have hlk := leafy_kids hl
    have hgk : ∀ c ∈ kids, c.kind ≠ .LineBox := fun c hc => good_kind ((goodList_iff kids).1 hgl c hc)
    unfold iib at h
    simp only at h
    split at h
    · rename_i hcond
      cases h
      simp only [Bool.or_eq_true] at hcond
      -- returned as it is: `Pre` holds because the input has no line box at all
      have hpre : PreL kids := by
        rcases hcond with he | _
        · have : kids = [] := by simpa using he
          subst this; trivial
        · exact pre_of_good_list kids hgl
      exact ⟨by unfold Pre; exact ⟨fun _ => hgk, hpre⟩, by unfold Leafy; exact ⟨hlk.1, hlk.2⟩⟩
    · split at h
      · cases h
      · rename_i children trailing hkids
        obtain ⟨hp, hlf⟩ := iibKids_post kids false children trailing hgl hlk.2 hkids
        have hmem := iibKids_mem kids false children trailing hkids
        have hck : ∀ c ∈ children, c.kind ≠ .LineBox := by
          intro c hc
          obtain ⟨c0, hc0, f0, hf0⟩ := hmem c hc
          rw [(iib_same f0 c0 c hf0).1]; exact hgk c0 hc0
        split at h
        · cases h
          exact ⟨by unfold Pre; exact ⟨fun _ => hck, hp⟩, by unfold Leafy; exact ⟨hlk.1, hlf⟩⟩
        · rename_i hbc
          have hbc' : Gen.isSub k .BlockContainerBox = true := by simpa using hbc
          split at h
          · cases h
          · rename_i newChildren hgroup
            cases h
            have hfit : ∀ c ∈ children, Fit c := fun c hc =>
              ⟨(preL_iff children).1 hp c hc, (leafyL_iff children).1 hlf c hc, hck c hc⟩
            obtain ⟨q1, q2, _⟩ := groupLines_post _ children [] [] newChildren hfit (by simp) (by simp) hgroup
            unfold KBox.withKids
            exact ⟨by unfold Pre; exact ⟨fun hki => absurd hki (isSub_bc_not_inline k hbc'), q1⟩,
              by unfold Leafy; exact ⟨hlk.1, q2⟩⟩
theorem iibKids_post : ∀ (kids : List KBox) (t : Bool) (out : List KBox) (t' : Bool),
    GoodList kids → LeafyL kids → iibKids t kids = .ok (out, t') → PreL out ∧ LeafyL out
  | [], t, out, t', _, _, h => by
    unfold iibKids at h; cases h; exact ⟨trivial, trivial⟩
  | c :: cs, t, out, t', hg, hl, h => by
    unfold GoodList at hg
    unfold LeafyL at hl
    unfold iibKids at h
    by_cases hdrop : (Gen.isSub c.kind .TextBox && c.text.isEmpty) = true
    · rw [if_pos hdrop] at h; exact iibKids_post cs _ out t' hg.2 hl.2 h
    · rw [if_neg hdrop] at h
      cases hc1 : iib t c with
      | error e => rw [hc1] at h; cases h
      | ok c1 =>
        rw [hc1] at h
        simp only at h
        cases hrest : iibKids false cs with
        | error e => rw [hrest] at h; cases h
        | ok r =>
          obtain ⟨rest, t1⟩ := r
          rw [hrest] at h
          simp only at h
          cases h
          obtain ⟨a1, a2⟩ := iib_post c t c1 hg.1 hl.1 hc1
          obtain ⟨b1, b2⟩ := iibKids_post cs false rest _ hg.2 hl.2 hrest
          exact ⟨⟨a1, b1⟩, ⟨a2, b2⟩⟩
/-- A tree without any line box satisfies `Pre`. -/
theorem pre_of_good : ∀ (b : KBox), Good b → Pre b
  | .mk k st el inst text kids cols, hg => by
    obtain ⟨_, hgl, _, _⟩ := good_kids hg
    unfold Pre
    exact ⟨fun _ c hc => good_kind ((goodList_iff kids).1 hgl c hc), pre_of_good_list kids hgl⟩
theorem pre_of_good_list : ∀ (l : List KBox), GoodList l → PreL l
  | [], _ => trivial
  | c :: cs, hg => by
    unfold GoodList at hg
    exact ⟨pre_of_good c hg.1, pre_of_good_list cs hg.2⟩
end

end Wp.Bx
