/-
`find_earlier_page_break` re-slices already laid-out complete children: what is kept plus what the
returned resume position designates is what was there, and the position is strictly later.
-/
import WpModel.Lemmas.Segment

namespace Wp.PM
open Wp

/-- Post-condition of `findEarlierGo` on complete fragments `fs` of the boxes `bs` (positions from `i`,
the first one resumed at `sub`). -/
def EarlierPost (bs : List PBox) (i : Nat) (sub : Option Resume) (kept : List Frag) (r : Resume) : Prop :=
  ∃ m sub', r = .node (i + m) sub' ∧ m < bs.length ∧
    fragLinesList kept ++ linesFromKids bs m sub' = linesFromKids bs 0 sub ∧
    posKids bs 0 sub < posKids bs m sub'

mutual
theorem findEarlierGo_spec : (fs : List Frag) → ∀ (bs : List PBox) (i : Nat) (sub : Option Resume),
    GoodList bs → FullFrom fs bs i sub →
    ((findEarlierGo fs).found = none → (findEarlierGo fs).prev = fs.head?) ∧
    (∀ kept r, (findEarlierGo fs).found = some (kept, r) → EarlierPost bs i sub kept r)
  | [] => by
    intro bs i sub _ _
    simp [findEarlierGo]
  | x :: xs => by
    intro bs i sub hg hf
    cases bs with
    | nil => simp [FullFrom] at hf
    | cons b bs' =>
      simp only [FullFrom] at hf
      obtain ⟨hx, hxi, hxs⟩ := hf
      simp only [GoodList] at hg
      obtain ⟨hgb, hgbs⟩ := hg
      obtain ⟨ihprev, ihfound⟩ := findEarlierGo_spec xs bs' (i + 1) none hgbs hxs
      have hxl := full_lines x b sub hx
      rw [findEarlierGo]
      dsimp only
      split
      · -- a break was found among the later siblings
        rename_i kept r hfound
        refine ⟨by simp, ?_⟩
        intro kept' r' h
        simp only [Option.some.injEq, Prod.mk.injEq] at h
        obtain ⟨rfl, rfl⟩ := h
        obtain ⟨m, sub', hr, hm, hlines, hpos⟩ := ihfound kept r hfound
        refine ⟨m + 1, sub', by rw [hr]; congr 1; omega, by simp; omega, ?_, ?_⟩
        · simp only [fragLinesList, linesFromKids, List.append_assoc]
          rw [hlines, hxl]
        · simp only [posKids]
          have := pos_lt_size b sub
          omega
      · rename_i hnone
        have hprev := ihprev hnone
        split
        · -- break after x
          rename_i p hba
          refine ⟨by simp, ?_⟩
          intro kept' r' h
          simp only [Option.some.injEq, Prod.mk.injEq] at h
          obtain ⟨rfl, rfl⟩ := h
          -- p is the head of xs
          have hp : xs.head? = some p := by
            rw [← hprev]
            split at hba
            · rename_i p' hp'
              split at hba
              · simp only [Option.some.injEq] at hba; rw [hp', hba]
              · cases hba
            · cases hba
          cases xs with
          | nil => simp at hp
          | cons p' xs' =>
            simp only [List.head?_cons, Option.some.injEq] at hp
            subst hp
            cases bs' with
            | nil => simp [FullFrom] at hxs
            | cons b1 bs'' =>
              simp only [FullFrom] at hxs
              refine ⟨1, none, by rw [hxs.2.1], by simp, ?_, ?_⟩
              · simp only [fragLinesList, linesFromKids, List.append_nil]
                rw [hxl]
              · simp only [posKids]
                have := pos_lt_size b sub
                omega
        · split
          · split
            · -- break inside x
              rename_i x' r hfe
              refine ⟨by simp, ?_⟩
              intro kept' r' h
              simp only [Option.some.injEq, Prod.mk.injEq] at h
              obtain ⟨rfl, rfl⟩ := h
              obtain ⟨hl, hp⟩ := findEarlierFrag_spec x b sub hgb hx x' r hfe
              refine ⟨0, some r, by rw [hxi]; rfl, by simp, ?_, ?_⟩
              · simp only [fragLinesList, linesFromKids, List.append_nil, fragLines_cutEnd]
                rw [← List.append_assoc, hl]
              · simpa only [posKids] using hp
            · exact ⟨by simp, by simp⟩
          · exact ⟨by simp, by simp⟩
theorem findEarlierFrag_spec : (x : Frag) → ∀ (b : PBox) (σ : Option Resume), Good b → Full x b σ →
    ∀ x' r, findEarlierFrag x = some (x', r) →
    fragLines x' ++ linesFrom b (some r) = linesFrom b σ ∧ pos b σ < pos b (some r)
  | .para id idx st n g lines => by
    intro b σ hg hf x' r h
    cases b with
    | block _ _ _ => simp [Full] at hf
    | para id' n' lh st' =>
      simp only [Full] at hf
      obtain ⟨rfl, rfl, rfl, hl⟩ := hf
      simp only [Good] at hg
      simp only [findEarlierFrag] at h
      obtain ⟨m, kept, hm1, hmn, rfl, rfl, hk⟩ :=
        findEarlierPara_spec id idx st n g lines (paraStart σ) x' r hg.2.1 hg.2.2 hl h
      constructor
      · simp only [fragLines, linesFrom]
        have : paraStart (some (Resume.node 0 (some (Resume.line (paraStart σ + m))))) = paraStart σ + m := rfl
        rw [this, ← paraLines_split id (paraStart σ) m n (by omega), ← hk, List.map_map]
        rfl
      · simp only [pos]
        have : paraStart (some (Resume.node 0 (some (Resume.line (paraStart σ + m))))) = paraStart σ + m := rfl
        rw [this]
        omega
  | .block id idx st g kids => by
    intro b σ hg hf x' r h
    cases b with
    | para _ _ _ _ => simp [Full] at hf
    | block id' st' bkids =>
      simp only [Full] at hf
      simp only [Good] at hg
      simp only [findEarlierFrag] at h
      split at h
      · rename_i kids' r0 hfound
        simp only [Option.some.injEq, Prod.mk.injEq] at h
        obtain ⟨rfl, rfl⟩ := h
        have hgd : GoodList (bkids.drop (skipIdxOf σ)) := goodList_drop bkids _ hg.2
        obtain ⟨m, sub', rfl, hm, hlines, hpos⟩ :=
          (findEarlierGo_spec kids _ _ _ hgd hf).2 kids' r0 hfound
        constructor
        · simp only [fragLines, linesFrom, skipIdxOf_node, subSkipOf_node]
          rw [linesFromKids_drop, hlines]
          have := linesFromKids_drop bkids (skipIdxOf σ) 0 (subSkipOf σ)
          simpa using this.symm
        · simp only [pos, skipIdxOf_node, subSkipOf_node]
          rw [posKids_drop]
          have := posKids_drop bkids (skipIdxOf σ) 0 (subSkipOf σ)
          simp only [Nat.add_zero] at this
          rw [this]
          omega
      · cases h
end

end Wp.PM
