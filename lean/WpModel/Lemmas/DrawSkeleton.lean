/-
Lemmas about Model/DrawSkeleton: the effect of drawing on the multi-stream world (`Eff`), stage composition, and the
mutual induction showing that `draw_stacking_context` is stack-neutral and creates only balanced streams.
Core Lean only.
-/
import WpModel.Model.DrawSkeleton
import WpModel.Lemmas.PdfStream
import WpModel.Lemmas.PdfWorld
namespace Wp.Pdf

/-- Stream `i` exists, has exactly the API-level stack `st` open, and writes to an existing dictionary. -/
def StkAt (w : World) (i : Nat) (st : List Fr) : Prop :=
  ∃ s, w.streams[i]? = some s ∧ Inv s st ∧ s.res < w.res.length

theorem StkAt.lt {w : World} {i : Nat} {st : List Fr} (h : StkAt w i st) : i < w.streams.length := by
  obtain ⟨s, hs, _⟩ := h
  exact (List.getElem?_eq_some_iff.mp hs).1

theorem StkAt.mono {w w' : World} {i : Nat} {st : List Fr} (h : StkAt w i st)
    (hs : w'.streams[i]? = w.streams[i]?) (hr : w.res.length ≤ w'.res.length) : StkAt w' i st := by
  obtain ⟨s, h1, h2, h3⟩ := h
  exact ⟨s, by rw [hs, h1], h2, Nat.lt_of_lt_of_le h3 hr⟩

/-- Effect of drawing on target stream `t`: other existing streams untouched, `t` ends with stack `st'`, every stream
created meanwhile is balanced. -/
structure Eff (w w' : World) (t : Nat) (st' : List Fr) : Prop where
  slen : w.streams.length ≤ w'.streams.length
  rlen : w.res.length ≤ w'.res.length
  frame : ∀ i, i < w.streams.length → i ≠ t → w'.streams[i]? = w.streams[i]?
  target : StkAt w' t st'
  fresh : ∀ i, w.streams.length ≤ i → i < w'.streams.length → StkAt w' i []

theorem Eff.refl {w : World} {t : Nat} {st : List Fr} (h : StkAt w t st) : Eff w w t st :=
  ⟨Nat.le_refl _, Nat.le_refl _, fun _ _ _ => rfl, h, fun i h1 h2 => absurd h2 (by omega)⟩

/-- Two stages on the same target. -/
theorem Eff.trans {w w1 w2 : World} {t : Nat} {a b : List Fr} (ht : t < w.streams.length)
    (h1 : Eff w w1 t a) (h2 : Eff w1 w2 t b) : Eff w w2 t b := by
  refine ⟨Nat.le_trans h1.slen h2.slen, Nat.le_trans h1.rlen h2.rlen, ?_, h2.target, ?_⟩
  · intro i hi hne
    rw [h2.frame i (Nat.lt_of_lt_of_le hi h1.slen) hne, h1.frame i hi hne]
  · intro i hi1 hi2
    by_cases hlt : i < w1.streams.length
    · exact (h1.fresh i hi1 hlt).mono (h2.frame i hlt (by omega)) h2.rlen
    · exact h2.fresh i (by omega) hi2

/-- A stage on `t`, then a stage on a stream `u` created by the first one that ends balanced. -/
theorem Eff.trans_other {w w1 w2 : World} {t u : Nat} {a : List Fr} (ht : t < w.streams.length)
    (hu : w.streams.length ≤ u) (hu1 : u < w1.streams.length) (h1 : Eff w w1 t a) (h2 : Eff w1 w2 u []) :
    Eff w w2 t a := by
  have htu : t ≠ u := by omega
  refine ⟨Nat.le_trans h1.slen h2.slen, Nat.le_trans h1.rlen h2.rlen, ?_, ?_, ?_⟩
  · intro i hi hne
    rw [h2.frame i (Nat.lt_of_lt_of_le hi h1.slen) (by omega), h1.frame i hi hne]
  · exact h1.target.mono (h2.frame t h1.target.lt htu) h2.rlen
  · intro i hi1 hi2
    by_cases hiu : i = u
    · subst hiu; exact h2.target
    · by_cases hlt : i < w1.streams.length
      · exact (h1.fresh i hi1 hlt).mono (h2.frame i hlt hiu) h2.rlen
      · exact h2.fresh i (by omega) hi2

/-- One API call on stream `h`, legal at the API level. -/
theorem onCall_eff (w : World) (h : Nat) (c : Call) (st st' : List Fr) (hs : StkAt w h st)
    (ha : apiStep st c = some st') : ∃ w', w.onCall h c = .ok w' ∧ Eff w w' h st' ∧
      w'.streams.length = w.streams.length := by
  obtain ⟨s, hget, hinv, hres⟩ := hs
  have hhlt : h < w.streams.length := (List.getElem?_eq_some_iff.mp hget).1
  obtain ⟨r, hr⟩ : ∃ r, w.res[s.res]? = some r := ⟨w.res[s.res], by simp [hres]⟩
  obtain ⟨s', r', hstep, hinv', _⟩ := stepS_inv r s c st st' hinv ha
  refine ⟨{ w with streams := w.streams.set h s', res := w.res.set s.res r' }, ?_, ?_, by simp⟩
  · simp [World.onCall, hget, hr, hstep]
  · refine ⟨by simp, by simp, ?_, ?_, ?_⟩
    · intro i _ hne
      simp [List.getElem?_set, Ne.symm hne]
    · refine ⟨s', by simp [List.getElem?_set, hhlt], hinv', ?_⟩
      rw [stepS_res r s c s' r' hstep]; simpa using hres
    · intro i h1 h2
      simp at h2; omega

/-- `add_group` on stream `h`: one new balanced stream, `h` untouched. -/
theorem addGroup_eff (w : World) (h : Nat) (st : List Fr) (hs : StkAt w h st) :
    ∃ w', w.addGroup h = .ok w' ∧ Eff w w' h st ∧ w'.streams.length = w.streams.length + 1 := by
  obtain ⟨s, hget, hinv, hres⟩ := hs
  have hhlt : h < w.streams.length := (List.getElem?_eq_some_iff.mp hget).1
  obtain ⟨r, hr⟩ : ∃ r, w.res[s.res]? = some r := ⟨w.res[s.res], by simp [hres]⟩
  refine ⟨_, by simp only [World.addGroup, hget, hr]; rfl, ?_, by simp⟩
  refine ⟨by simp, by simp, ?_, ?_, ?_⟩
  · intro i hi _
    simp [List.getElem?_append_left hi]
  · exact ⟨s, by simp [List.getElem?_append_left hhlt, hget], hinv, by simp; omega⟩
  · intro i h1 h2
    simp at h2
    have : i = w.streams.length := by omega
    subst this
    refine ⟨freshStream s w.res.length (some (XKey.x r.xobj.length).render), by simp,
      ⟨by cases hm : s.mark <;> simp [freshStream, cfg, vis, hm], by simp [freshStream]⟩, ?_⟩
    simp [freshStream]


/-! ### Stages -/

theorem thenDo_ok (x : Except PyErr World) (f : Stage) (w : World) (h : x = .ok w) : (x |>> f) = f w := by
  subst h; rfl

/-- Sequencing two stages whose effects are described by predicates on the world. -/
theorem comp {P Q : World → Prop} (x : Except PyErr World) (f : Stage)
    (h1 : ∃ w1, x = .ok w1 ∧ P w1) (h2 : ∀ w1, P w1 → ∃ w2, f w1 = .ok w2 ∧ Q w2) :
    ∃ w2, (x |>> f) = .ok w2 ∧ Q w2 := by
  obtain ⟨w1, hx, hp⟩ := h1
  rw [thenDo_ok x f w1 hx]
  exact h2 w1 hp

/-- A stage on the target stream: from stack `a` to stack `b`. -/
def StageEff (f : Stage) (t : Nat) (a b : List Fr) : Prop :=
  ∀ w, StkAt w t a → ∃ w', f w = .ok w' ∧ Eff w w' t b

theorem StageEff.seq {f g : Stage} {t : Nat} {a b c : List Fr} (h1 : StageEff f t a b) (h2 : StageEff g t b c) :
    StageEff (fun w => f w |>> g) t a c := by
  intro w hs
  obtain ⟨w1, e1, f1⟩ := h1 w hs
  obtain ⟨w2, e2, f2⟩ := h2 w1 f1.target
  exact ⟨w2, by simp only [thenDo_ok _ _ _ e1, e2], Eff.trans hs.lt f1 f2⟩

theorem StageEff.call (t : Nat) (c : Call) (a b : List Fr) (ha : apiStep a c = some b) :
    StageEff (fun w => w.onCall t c) t a b := by
  intro w hs
  obtain ⟨w', h1, h2, _⟩ := onCall_eff w t c a b hs ha
  exact ⟨w', h1, h2⟩

theorem StageEff.id (t : Nat) (a : List Fr) : StageEff (fun w => .ok w) t a a :=
  fun w hs => ⟨w, rfl, Eff.refl hs⟩

theorem StageEff.stageIf (b : Bool) {f : Stage} {t : Nat} {a : List Fr} (h : StageEff f t a a) :
    StageEff (stageIf b f) t a a := by
  intro w hs
  unfold Wp.Pdf.stageIf
  split
  · exact h w hs
  · exact ⟨w, rfl, Eff.refl hs⟩

theorem clipEnd_eff (t : Nat) (a : List Fr) (hnt : inText a = false) : StageEff (clipEnd t) t a a := by
  unfold clipEnd
  exact StageEff.seq (StageEff.call t _ a a (by simp [apiStep, Call.graphicsOnly, hnt]))
    (StageEff.call t _ a a (by simp [apiStep, Call.graphicsOnly, hnt]))

theorem transformStage_eff (t : Nat) (tr : Transform) (a : List Fr) (hnt : inText a = false) :
    StageEff (transformStage t tr) t a a := by
  cases tr with
  | none => exact StageEff.id t a
  | singular => exact StageEff.id t a
  | regular x1 x2 x3 x4 x5 x6 =>
    exact StageEff.call t _ a a (by simp [apiStep, Call.graphicsOnly, hnt])

theorem absClipStage_eff (t : Nat) (re : Option String) (a : List Fr) (hnt : inText a = false) :
    StageEff (absClipStage t re) t a a := by
  cases re with
  | none => exact StageEff.id t a
  | some s =>
    exact StageEff.seq (StageEff.call t _ a a (by simp [apiStep, Call.graphicsOnly, hnt])) (clipEnd_eff t a hnt)

theorem finishCtx_eff (t : Nat) (st : List Fr) : StageEff (finishCtx t) t (.M :: .q :: st) st := by
  unfold finishCtx
  exact StageEff.seq (StageEff.call t _ _ (.q :: st) (by simp [apiStep])) (StageEff.call t _ _ st (by simp [apiStep]))

theorem drawGroupOn_eff (t : Nat) (o : Num) (k : XKey) (a : List Fr) (hnt : inText a = false) :
    StageEff (drawGroupOn t o (some k)) t a a := by
  unfold drawGroupOn
  have hq : inText (.q :: a) = false := by simpa [inText] using hnt
  exact StageEff.seq (StageEff.call t .push a (.q :: a) (by simp [apiStep, hnt]))
    (StageEff.seq (StageEff.call t (.setAlpha o true (some true)) (.q :: a) (.q :: a)
      (by simp [apiStep, Call.graphicsOnly, Call.textOnly]))
    (StageEff.seq (StageEff.call t (.drawX k) (.q :: a) (.q :: a) (by simp [apiStep, Call.graphicsOnly, hq]))
    (StageEff.call t .pop (.q :: a) a (by simp [apiStep]))))


/-! ### The skeleton -/

/-- API-level effect, on the current stream, of what `draw_stacking_context` delegates: calls on the current stream,
and nested stacking contexts (which leave it as they found it and need it outside a text object). -/
def itemsApi : List Fr → List Item → Option (List Fr)
  | st, [] => some st
  | st, .onCur c :: is => (apiStep st c).bind (fun st' => itemsApi st' is)
  | st, .ctx _ :: is => if inText st then none else itemsApi st is
  | _, _ => none

/-- The delegated drawing leaves the current stream as it found it, from any state outside a text object. -/
def Neutral (is : List Item) : Prop := ∀ st, inText st = false → itemsApi st is = some st

mutual
  /-- Items whose calls are all on the current stream (nested contexts included, recursively). -/
  def itemOK : Item → Prop
    | .onCur _ => True
    | .ctx c => ctxOK c
    | .call _ => False
    | .ctxOn _ _ => False
  def itemsOK : List Item → Prop
    | [] => True
    | i :: is => itemOK i ∧ itemsOK is
  def ctxOK : Ctx → Prop
    | .mk _ rcb pre cb inner post =>
      (itemsOK rcb ∧ itemsOK pre ∧ itemsOK cb ∧ itemsOK inner ∧ itemsOK post) ∧
      (Neutral rcb ∧ Neutral pre ∧ Neutral cb ∧ Neutral inner ∧ Neutral post)
end

theorem inText_cons_q (st : List Fr) : inText (.q :: st) = inText st := by simp [inText]
theorem inText_cons_M (st : List Fr) : inText (.M :: st) = inText st := by simp [inText]
theorem inText_cons_T (st : List Fr) : inText (.T :: st) = true := by simp [inText]

/-- Points 2–10 on the current stream. -/
theorem middle_eff (cur : Nat) (t : Transform) (clip : Bool) (pre cb inner post : List Item) (a : List Fr)
    (hnt : inText a = false)
    (hpre : StageEff (fun w => drawItems w cur pre) cur a a)
    (hcb : StageEff (fun w => drawItems w cur cb) cur (.q :: a) (.q :: a))
    (hinner : StageEff (fun w => drawItems w cur inner) cur (.q :: a) (.q :: a))
    (hpost : StageEff (fun w => drawItems w cur post) cur a a) :
    StageEff (fun w => transformStage cur t w |>> fun w => drawItems w cur pre |>> fun w => w.onCall cur .push |>>
      fun w => stageIf clip (fun w => drawItems w cur cb |>> clipEnd cur) w |>>
      fun w => drawItems w cur inner |>> fun w => w.onCall cur .pop |>> fun w => drawItems w cur post) cur a a := by
  have hq : inText (.q :: a) = false := by rw [inText_cons_q]; exact hnt
  exact StageEff.seq (transformStage_eff cur t a hnt)
    (StageEff.seq hpre
    (StageEff.seq (StageEff.call cur .push a (.q :: a) (by simp [apiStep, hnt]))
    (StageEff.seq (StageEff.stageIf clip (StageEff.seq hcb (clipEnd_eff cur _ hq)))
    (StageEff.seq hinner
    (StageEff.seq (StageEff.call cur .pop (.q :: a) a (by simp [apiStep])) hpost)))))

/-- `stacked`, `begin_marked_content`, viewport clip, clip rectangle. -/
theorem head_eff (orig : Nat) (p : CtxProps) (rcb : List Item) (st : List Fr) (hnt : inText st = false)
    (hrcb : StageEff (fun w => drawItems w orig rcb) orig (.M :: .q :: st) (.M :: .q :: st)) :
    StageEff (fun w => w.onCall orig .push |>> fun w => w.onCall orig (.beginMarked p.tag true none) |>>
      fun w => stageIf p.rootClip (fun w => drawItems w orig rcb |>> clipEnd orig) w |>>
      absClipStage orig p.absClip) orig st (.M :: .q :: st) := by
  have hm : inText (.M :: .q :: st) = false := by rw [inText_cons_M, inText_cons_q]; exact hnt
  exact StageEff.seq (StageEff.call orig .push st (.q :: st) (by simp [apiStep, hnt]))
    (StageEff.seq (StageEff.call orig _ (.q :: st) (.M :: .q :: st) (by simp [apiStep]))
    (StageEff.seq (StageEff.stageIf p.rootClip (StageEff.seq hrcb (clipEnd_eff orig _ hm)))
      (absClipStage_eff orig p.absClip _ hm)))


theorem stageIf_true (f : Stage) (w : World) : stageIf true f w = f w := rfl
theorem stageIf_false (f : Stage) (w : World) : stageIf false f w = .ok w := rfl
theorem stageIf_true' (f : Stage) : stageIf true f = f := rfl

theorem nextGroupKey_some {w : World} {h : Nat} {st : List Fr} (hs : StkAt w h st) :
    ∃ k, nextGroupKey w h = some k := by
  obtain ⟨s, hget, _, hres⟩ := hs
  unfold nextGroupKey
  rw [hget]
  simp only
  have : ∃ r, w.res[s.res]? = some r := ⟨w.res[s.res], by simp [hres]⟩
  obtain ⟨r, hr⟩ := this
  rw [hr]
  exact ⟨_, rfl⟩

/-- After the head: opacity group switch, transform or early return, points 2–10, drawing the group, closing. -/
theorem body_eff (w0 w4 : World) (orig : Nat) (p : CtxProps) (pre cb inner post : List Item) (st : List Fr)
    (hnt : inText st = false) (h0 : orig < w0.streams.length) (e4 : Eff w0 w4 orig (.M :: .q :: st))
    (hpre : ∀ cur a, inText a = false → StageEff (fun w => drawItems w cur pre) cur a a)
    (hcb : ∀ cur a, inText a = false → StageEff (fun w => drawItems w cur cb) cur a a)
    (hinner : ∀ cur a, inText a = false → StageEff (fun w => drawItems w cur inner) cur a a)
    (hpost : ∀ cur a, inText a = false → StageEff (fun w => drawItems w cur post) cur a a) :
    ∃ w', (stageIf (opacityLt1 p.opacity) (fun w => w.addGroup orig) w4 |>> fun w =>
      match p.transform with
      | .singular => finishCtx orig w
      | t =>
        (transformStage (if opacityLt1 p.opacity then w4.streams.length else orig) t w |>>
          fun w => drawItems w (if opacityLt1 p.opacity then w4.streams.length else orig) pre |>>
          fun w => w.onCall (if opacityLt1 p.opacity then w4.streams.length else orig) .push |>>
          fun w => stageIf p.clip (fun w => drawItems w (if opacityLt1 p.opacity then w4.streams.length else orig) cb |>>
            clipEnd (if opacityLt1 p.opacity then w4.streams.length else orig)) w |>>
          fun w => drawItems w (if opacityLt1 p.opacity then w4.streams.length else orig) inner |>>
          fun w => w.onCall (if opacityLt1 p.opacity then w4.streams.length else orig) .pop |>>
          fun w => drawItems w (if opacityLt1 p.opacity then w4.streams.length else orig) post) |>>
        stageIf (opacityLt1 p.opacity) (drawGroupOn orig p.opacity (nextGroupKey w4 orig)) |>>
        finishCtx orig) = .ok w' ∧ Eff w0 w' orig st := by
  have hm : inText (.M :: .q :: st) = false := by rw [inText_cons_M, inText_cons_q]; exact hnt
  have hq0 : inText ([.q] : List Fr) = false := by simp [inText]
  have hnil : inText ([] : List Fr) = false := by simp [inText]
  have h4 : orig < w4.streams.length := Nat.lt_of_lt_of_le h0 e4.slen
  cases hop : opacityLt1 p.opacity
  · -- no opacity group: everything on `orig`
    simp only [stageIf_false, Bool.false_eq_true, if_false]
    rw [thenDo_ok _ _ w4 rfl]
    have hfin := finishCtx_eff orig st
    cases htr : p.transform with
    | singular =>
      obtain ⟨w', h1, e1⟩ := hfin w4 e4.target
      exact ⟨w', h1, Eff.trans h0 e4 e1⟩
    | none =>
      have hmid := middle_eff orig .none p.clip pre cb inner post _ hm (hpre orig _ hm)
        (hcb orig _ (by rw [inText_cons_q]; exact hm)) (hinner orig _ (by rw [inText_cons_q]; exact hm)) (hpost orig _ hm)
      obtain ⟨w', h1, e1⟩ := (StageEff.seq (StageEff.seq hmid (StageEff.id orig _)) hfin) w4 e4.target
      exact ⟨w', h1, Eff.trans h0 e4 e1⟩
    | regular x1 x2 x3 x4 x5 x6 =>
      have hmid := middle_eff orig (.regular x1 x2 x3 x4 x5 x6) p.clip pre cb inner post _ hm (hpre orig _ hm)
        (hcb orig _ (by rw [inText_cons_q]; exact hm)) (hinner orig _ (by rw [inText_cons_q]; exact hm)) (hpost orig _ hm)
      obtain ⟨w', h1, e1⟩ := (StageEff.seq (StageEff.seq hmid (StageEff.id orig _)) hfin) w4 e4.target
      exact ⟨w', h1, Eff.trans h0 e4 e1⟩
  · -- opacity < 1: points 2–10 go to a new group stream
    simp only [stageIf_true, stageIf_true', if_true]
    obtain ⟨k, hk⟩ := nextGroupKey_some e4.target
    obtain ⟨w5, hg, e5, hlen5⟩ := addGroup_eff w4 orig _ e4.target
    rw [thenDo_ok _ _ w5 hg, hk]
    have hgs : StkAt w5 w4.streams.length [] := e5.fresh _ (Nat.le_refl _) (by omega)
    have e05 : Eff w0 w5 orig (.M :: .q :: st) := Eff.trans h0 e4 e5
    have hfin := finishCtx_eff orig st
    have hgrp := drawGroupOn_eff orig p.opacity k _ hm
    cases htr : p.transform with
    | singular =>
      obtain ⟨w', h1, e1⟩ := hfin w5 e5.target
      exact ⟨w', h1, Eff.trans h0 e05 e1⟩
    | none =>
      have hmid := middle_eff w4.streams.length .none p.clip pre cb inner post [] hnil (hpre _ _ hnil)
        (hcb _ _ hq0) (hinner _ _ hq0) (hpost _ _ hnil)
      obtain ⟨w6, h6, e6⟩ := hmid w5 hgs
      have e46 : Eff w4 w6 orig (.M :: .q :: st) :=
        Eff.trans_other h4 (Nat.le_refl _) (by omega) e5 e6
      obtain ⟨w', h1, e1⟩ := (StageEff.seq hgrp hfin) w6 e46.target
      refine ⟨w', ?_, Eff.trans h0 e4 (Eff.trans h4 e46 e1)⟩
      simp only [thenDo_ok _ _ w6 h6]
      exact h1
    | regular x1 x2 x3 x4 x5 x6 =>
      have hmid := middle_eff w4.streams.length (.regular x1 x2 x3 x4 x5 x6) p.clip pre cb inner post [] hnil
        (hpre _ _ hnil) (hcb _ _ hq0) (hinner _ _ hq0) (hpost _ _ hnil)
      obtain ⟨w6, h6, e6⟩ := hmid w5 hgs
      have e46 : Eff w4 w6 orig (.M :: .q :: st) :=
        Eff.trans_other h4 (Nat.le_refl _) (by omega) e5 e6
      obtain ⟨w', h1, e1⟩ := (StageEff.seq hgrp hfin) w6 e46.target
      refine ⟨w', ?_, Eff.trans h0 e4 (Eff.trans h4 e46 e1)⟩
      simp only [thenDo_ok _ _ w6 h6]
      exact h1


mutual
  /-- Delegated drawing on the current stream has its API-level effect and creates only balanced streams. -/
  theorem items_stage : ∀ (is : List Item), itemsOK is → ∀ (cur : Nat) (st st' : List Fr),
      itemsApi st is = some st' → StageEff (fun w => drawItems w cur is) cur st st'
    | [], _, cur, st, st', ha => by
      simp only [itemsApi, Option.some.injEq] at ha
      subst ha
      intro w hs
      exact ⟨w, by show drawItems w cur [] = .ok w; rw [drawItems], Eff.refl hs⟩
    | .onCur c :: is, hok, cur, st, st', ha => by
      simp only [itemsApi] at ha
      cases h1 : apiStep st c with
      | none => rw [h1] at ha; simp at ha
      | some stm =>
        rw [h1] at ha
        have ih := items_stage is hok.2 cur stm st' (by simpa using ha)
        have := StageEff.seq (StageEff.call cur c st stm h1) ih
        intro w hs
        obtain ⟨w', e1, f1⟩ := this w hs
        exact ⟨w', by show drawItems w cur (.onCur c :: is) = .ok w'; rw [drawItems, drawItem]; exact e1, f1⟩
    | .ctx c :: is, hok, cur, st, st', ha => by
      simp only [itemsApi] at ha
      cases hnt : inText st with
      | true => rw [hnt] at ha; simp at ha
      | false =>
        rw [hnt] at ha
        have ih := items_stage is hok.2 cur st st' (by simpa using ha)
        have hc := ctx_stage c hok.1 cur st hnt
        have := StageEff.seq hc ih
        intro w hs
        obtain ⟨w', e1, f1⟩ := this w hs
        exact ⟨w', by show drawItems w cur (.ctx c :: is) = .ok w'; rw [drawItems, drawItem]; exact e1, f1⟩
    | .call _ :: _, hok, _, _, _, _ => absurd hok.1 (by simp [itemOK])
    | .ctxOn _ _ :: _, hok, _, _, _, _ => absurd hok.1 (by simp [itemOK])

  /-- **The skeleton of `draw_stacking_context` is stack-neutral on the stream it is called with, touches no other
  existing stream, and every stream it creates (opacity groups, recursively) ends balanced.** -/
  theorem ctx_stage : ∀ (c : Ctx), ctxOK c → ∀ (orig : Nat) (st : List Fr), inText st = false →
      StageEff (fun w => drawCtx w orig c) orig st st
    | .mk p rcb pre cb inner post, hok, orig, st, hnt => by
      obtain ⟨⟨o1, o2, o3, o4, o5⟩, n1, n2, n3, n4, n5⟩ := hok
      have hm : inText (.M :: .q :: st) = false := by rw [inText_cons_M, inText_cons_q]; exact hnt
      have hrcb := items_stage rcb o1 orig _ _ (n1 _ hm)
      have hpre : ∀ cur a, inText a = false → StageEff (fun w => drawItems w cur pre) cur a a :=
        fun cur a ha => items_stage pre o2 cur a a (n2 a ha)
      have hcb : ∀ cur a, inText a = false → StageEff (fun w => drawItems w cur cb) cur a a :=
        fun cur a ha => items_stage cb o3 cur a a (n3 a ha)
      have hinner : ∀ cur a, inText a = false → StageEff (fun w => drawItems w cur inner) cur a a :=
        fun cur a ha => items_stage inner o4 cur a a (n4 a ha)
      have hpost : ∀ cur a, inText a = false → StageEff (fun w => drawItems w cur post) cur a a :=
        fun cur a ha => items_stage post o5 cur a a (n5 a ha)
      intro w hs
      obtain ⟨w4, h4, e4⟩ := head_eff orig p rcb st hnt hrcb w hs
      obtain ⟨w', h', e'⟩ := body_eff w w4 orig p pre cb inner post st hnt hs.lt e4 hpre hcb hinner hpost
      refine ⟨w', ?_, e'⟩
      show drawCtx w orig (.mk p rcb pre cb inner post) = .ok w'
      rw [drawCtx, thenDo_ok _ _ w4 h4]
      exact h'
end

end Wp.Pdf
