/-
C17 helper development (no Mathlib): every item painted by `draw_stacking_context` carries the
graphics environment of the call extended — opacity groups and transforms only ever grow as a
suffix, the stack of clip paths only grows.  Consequence: what a context paints is inside its own
opacity group / transform / `clip` / viewport clip.
-/
import WpModel.Model.PaintOrder

set_option linter.unusedSimpArgs false

namespace Wp.Stacking
open Wp Wp.Gen

/-- `e ≤ f`: `f` is `e` with more groups / transforms appended and at least as many clips. -/
def Env.le (e f : Env) : Prop :=
  e.alphas <+: f.alphas ∧ e.transforms <+: f.transforms ∧ e.clips <+: f.clips

theorem Env.le_refl (e : Env) : e.le e := ⟨List.prefix_refl _, List.prefix_refl _, List.prefix_refl _⟩

theorem Env.le_trans {e f g : Env} (h1 : e.le f) (h2 : f.le g) : e.le g :=
  ⟨h1.1.trans h2.1, h1.2.1.trans h2.2.1, h1.2.2.trans h2.2.2⟩

theorem Env.le_clip (e : Env) (c : Clip) : e.le (e.clip c) :=
  ⟨List.prefix_refl _, List.prefix_refl _, List.prefix_append _ _⟩

/-- All painted items of a list are in an environment extending `e`. -/
def AllGe (e : Env) (l : List Item) : Prop :=
  ∀ it ∈ l, match it with
    | .paint _ _ _ f => e.le f
    | .raise _ => True

theorem AllGe.nil (e : Env) : AllGe e [] := by intro it h; cases h

theorem AllGe.append {e : Env} {l m : List Item} (h1 : AllGe e l) (h2 : AllGe e m) :
    AllGe e (l ++ m) := by
  intro it h
  rcases List.mem_append.mp h with h | h
  · exact h1 it h
  · exact h2 it h

theorem AllGe.mono {e f : Env} {l : List Item} (hef : e.le f) (h : AllGe f l) : AllGe e l := by
  intro it hit
  have := h it hit
  cases it with
  | paint r i c g => exact Env.le_trans hef this
  | raise _ => trivial

theorem AllGe.single (e f : Env) (r : Role) (i c : Nat) (h : e.le f) : AllGe e [.paint r i c f] := by
  intro it hit
  rcases List.mem_singleton.mp hit with rfl
  exact h

theorem AllGe.raise (e : Env) (x : PyErr) : AllGe e [.raise x] := by
  intro it hit
  rcases List.mem_singleton.mp hit with rfl
  trivial

theorem AllGe.flatMap {α} {e : Env} (l : List α) (f : α → List Item) (h : ∀ x ∈ l, AllGe e (f x)) :
    AllGe e (l.flatMap f) := by
  intro it hit
  rcases List.mem_flatMap.mp hit with ⟨x, hx, hi⟩
  exact h x hx it hi

theorem allGe_attrErr (e : Env) (s : String) : AllGe e (attrErr s) := AllGe.raise e _

theorem allGe_drawBackground (role : Role) (id : Nat) (bg : Option (Option Nat)) (cb : Bool) (e : Env) :
    AllGe e (drawBackground role id bg cb e) := by
  unfold drawBackground
  split
  · exact AllGe.nil e
  · exact AllGe.nil e
  · split
    · exact AllGe.single _ _ _ _ _ (Env.le_trans (e.le_clip _) ((e.clip _).le_clip _))
    · exact AllGe.single _ _ _ _ _ (e.le_clip _)

theorem allGe_drawBorder (a : Attrs) (e : Env) : AllGe e (drawBorder a e) := by
  unfold drawBorder
  split
  · exact AllGe.nil e
  · split
    · exact AllGe.nil e
    · split
      · exact AllGe.single _ _ _ _ _ e.le_refl
      · intro it hit
        rcases List.eq_of_mem_replicate hit with rfl
        exact e.le_clip _

theorem allGe_decoration (a : Attrs) (e : Env) : AllGe e (decoration a e) :=
  (allGe_drawBackground _ _ _ _ e).append (allGe_drawBorder a e)

theorem allGe_drawText (a : Attrs) (e : Env) : AllGe e (drawText a e) := by
  unfold drawText
  split
  · exact AllGe.nil e
  · exact AllGe.single _ _ _ _ _ e.le_refl

theorem allGe_ownOutline (a : Attrs) (e : Env) : AllGe e (ownOutline a e) := by
  unfold ownOutline
  split
  · split
    · intro it hit
      rcases List.eq_of_mem_replicate hit with rfl
      exact e.le_clip _
    · exact AllGe.nil e
  · exact AllGe.nil e

theorem allGe_cellBackground (t : Attrs) (e : Env) (c : Node) : AllGe e (cellBackground t e c) := by
  unfold cellBackground
  split
  · split
    · exact allGe_drawBackground _ _ _ _ e
    · exact AllGe.nil e
  · exact allGe_attrErr e _

theorem allGe_rowBackgrounds (t : Attrs) (e : Env) (r : Node) : AllGe e (rowBackgrounds t e r) := by
  unfold rowBackgrounds
  split
  · exact (allGe_drawBackground _ _ _ _ e).append (AllGe.flatMap _ _ (fun c _ => allGe_cellBackground t e c))
  · exact allGe_attrErr e _

theorem allGe_groupBackgrounds (t : Attrs) (e : Env) (g : Node) : AllGe e (groupBackgrounds t e g) := by
  unfold groupBackgrounds
  split
  · exact (allGe_drawBackground _ _ _ _ e).append (AllGe.flatMap _ _ (fun r _ => allGe_rowBackgrounds t e r))
  · exact allGe_attrErr e _

theorem allGe_cellBorder (e : Env) (c : Node) : AllGe e (cellBorder e c) := by
  unfold cellBorder
  split
  · split
    · exact allGe_drawBorder _ e
    · exact AllGe.nil e
  · exact allGe_attrErr e _

theorem allGe_rowBorders (e : Env) (r : Node) : AllGe e (rowBorders e r) := by
  unfold rowBorders
  split
  · exact AllGe.flatMap _ _ (fun c _ => allGe_cellBorder e c)
  · exact allGe_attrErr e _

theorem allGe_groupBorders (e : Env) (g : Node) : AllGe e (groupBorders e g) := by
  unfold groupBorders
  split
  · exact AllGe.flatMap _ _ (fun r _ => allGe_rowBorders e r)
  · exact allGe_attrErr e _

theorem allGe_drawTable (t : Attrs) (groups : List Node) (e : Env) : AllGe e (drawTable t groups e) := by
  unfold drawTable drawTableBackgrounds drawTableBorders columnBackgrounds
  refine AllGe.append (AllGe.append (AllGe.append (allGe_drawBackground _ _ _ _ e) ?_) ?_) ?_
  · refine AllGe.flatMap _ _ (fun g _ => AllGe.append (allGe_drawBackground _ _ _ _ e) ?_)
    exact AllGe.flatMap _ _ (fun c _ => allGe_drawBackground _ _ _ _ e)
  · exact AllGe.flatMap _ _ (fun g _ => allGe_groupBackgrounds t e g)
  · split
    · exact AllGe.single _ _ _ _ _ e.le_refl
    · exact (allGe_drawBorder t e).append (AllGe.flatMap _ _ (fun g _ => allGe_groupBorders e g))

theorem allGe_drawBlock (n : Node) (e : Env) : AllGe e (drawBlock n e) := by
  unfold drawBlock
  split
  · split
    · exact allGe_drawTable _ _ e
    · exact allGe_decoration _ e
  · split
    · exact allGe_drawTable _ _ e
    · exact allGe_decoration _ e
  · exact allGe_attrErr e _

theorem allGe_drawReplaced (a : Attrs) (e : Env) : AllGe e (drawReplaced a e) := by
  unfold drawReplaced
  split
  · exact AllGe.nil e
  · exact AllGe.single _ _ _ _ _ e.le_refl

theorem allGe_inlBoxWith (a : Attrs) (k : Env → List Item) (e : Env) (hk : AllGe e (k e)) :
    AllGe e (inlBoxWith a k e) := by
  unfold inlBoxWith
  refine (allGe_decoration a e).append ?_
  split
  · exact hk
  · split
    · exact allGe_drawReplaced a e
    · split
      · exact AllGe.raise e _
      · exact allGe_drawText a e

theorem AllGe.ite (e : Env) (c : Bool) (l : List Item) (h : AllGe e l) :
    AllGe e (if c then l else []) := by
  cases c
  · exact AllGe.nil e
  · exact h

theorem allGe_point7With (a : Attrs) (kids : List Node) (k : Env → List Item) (e : Env)
    (hk : AllGe e (k e)) : AllGe e (point7With a kids k e) := by
  unfold point7With
  split
  · exact allGe_drawReplaced a e
  · exact AllGe.ite e _ _ hk

/-- The environment inside a context extends the one it is drawn in. -/
theorem ctxEnv_ge (a : Attrs) (pov : Bool) (e : Env) : e.le (ctxEnv a pov e) := by
  unfold ctxEnv
  by_cases h1 : (a.isRoot && !pov) = true <;> by_cases h2 : (a.absPos && a.clipProp) = true <;>
    by_cases h3 : a.opacity < 1 <;> cases a.matrix <;>
    simp [h1, h2, h3, Env.le, Env.clip]

/-- The body of `draw_stacking_context`: everything is painted inside `ctxEnv`. -/
theorem allGe_paintBodyWith (pov : Bool) (a : Attrs)
    (neg blocks floats ik pt7 zero pos outl : Env → List Item) (env : Env)
    (h : ∀ e, AllGe e (neg e) ∧ AllGe e (blocks e) ∧ AllGe e (floats e) ∧ AllGe e (ik e) ∧
      AllGe e (pt7 e) ∧ AllGe e (zero e) ∧ AllGe e (pos e) ∧ AllGe e (outl e)) :
    AllGe (ctxEnv a pov env) (paintBodyWith pov a neg blocks floats ik pt7 zero pos outl env) := by
  unfold paintBodyWith
  split
  · exact AllGe.nil _
  · simp only
    generalize ctxEnv a pov env = e
    have hclip : e.le (if (!a.overflowVisible && !a.kind.drawPage) = true then e.clip (.overflow a.id) else e) := by
      split
      · exact e.le_clip _
      · exact e.le_refl
    generalize (if (!a.overflowVisible && !a.kind.drawPage) = true then e.clip (.overflow a.id) else e) = e1 at hclip
    obtain ⟨h1, h2, h3, h4, h5, h6, h7, _⟩ := h e1
    refine AllGe.append (AllGe.append (AllGe.append ?_ (AllGe.mono hclip ?_)) (allGe_ownOutline a e))
      (h e).2.2.2.2.2.2.2
    · split
      · exact allGe_decoration a e
      · exact AllGe.nil e
    · refine AllGe.append (AllGe.append (AllGe.append (AllGe.append (AllGe.append (AllGe.append h1 h2) h3) ?_) h5) h6) h7
      split
      · exact allGe_inlBoxWith a ik e1 h4
      · exact AllGe.nil e1

/-- The five list traversals of the paint model, for one environment. -/
structure GeL (pov : Bool) (l : List Node) (e : Env) : Prop where
  paint : AllGe e (paintList pov l e)
  pt7 : AllGe e (point7List pov l e)
  kids : AllGe e (inlKids pov l e)
  lines : AllGe e (inlList pov l e)
  outl : AllGe e (outlineList l e)

theorem paintList_cons (pov : Bool) (n : Node) (l : List Node) (e : Env) :
    paintList pov (n :: l) e = paintList pov [n] e ++ paintList pov l e := by
  simp [paintList]
theorem point7List_cons (pov : Bool) (n : Node) (l : List Node) (e : Env) :
    point7List pov (n :: l) e = point7List pov [n] e ++ point7List pov l e := by
  cases n <;> simp [point7List]
theorem inlKids_cons (pov : Bool) (n : Node) (l : List Node) (e : Env) :
    inlKids pov (n :: l) e = inlKids pov [n] e ++ inlKids pov l e := by
  cases n <;> simp [inlKids]
theorem inlList_cons (pov : Bool) (n : Node) (l : List Node) (e : Env) :
    inlList pov (n :: l) e = inlList pov [n] e ++ inlList pov l e := by
  cases n <;> simp [inlList]
theorem outlineList_cons (n : Node) (l : List Node) (e : Env) :
    outlineList (n :: l) e = outlineList [n] e ++ outlineList l e := by
  cases n <;> simp [outlineList]

mutual
theorem ge_node (pov : Bool) : ∀ (n : Node) (e : Env), GeL pov [n] e
  | .leaf a, e => by
    refine ⟨?_, ?_, ?_, ?_, ?_⟩
    · simp only [paintList, paint, List.append_nil]; exact allGe_attrErr e _
    · simp only [point7List, List.append_nil]
      exact allGe_point7With a [] _ e (AllGe.nil e)
    · simp only [inlKids, List.append_nil]
      split
      · exact allGe_drawText a e
      · exact allGe_inlBoxWith a _ e (AllGe.nil e)
    · simp only [inlList, List.append_nil]
      exact allGe_inlBoxWith a _ e (AllGe.nil e)
    · simp only [outlineList, List.append_nil]; exact allGe_ownOutline a e
  | .node a kids, e => by
    have hk := ge_list pov kids
    refine ⟨?_, ?_, ?_, ?_, ?_⟩
    · simp only [paintList, paint, List.append_nil]; exact allGe_attrErr e _
    · simp only [point7List, List.append_nil]
      exact allGe_point7With a kids _ e (hk e).lines
    · simp only [inlKids, List.append_nil]
      split
      · exact allGe_drawText a e
      · exact allGe_inlBoxWith a _ e (hk e).kids
    · simp only [inlList, List.append_nil]
      exact allGe_inlBoxWith a _ e (hk e).kids
    · simp only [outlineList, List.append_nil]
      exact (allGe_ownOutline a e).append (hk e).outl
  | .ph b, e => by
    refine ⟨?_, ?_, ?_, ?_, ?_⟩
    · simp only [paintList, paint, List.append_nil]; exact allGe_attrErr e _
    · simp only [point7List, List.append_nil]; exact allGe_attrErr e _
    · simp only [inlKids, List.append_nil]; exact allGe_attrErr e _
    · simp only [inlList, List.append_nil]; exact allGe_attrErr e _
    · simp only [outlineList]; exact AllGe.nil e
  | .ctx box neg zero pos blocks floats bc z, e => by
    have hp : AllGe e (paint pov (.ctx box neg zero pos blocks floats bc z) e) := by
      have hneg := ge_list pov neg
      have hzero := ge_list pov zero
      have hpos := ge_list pov pos
      have hfl := ge_list pov floats
      have hbc := ge_list pov bc
      have hbl : ∀ e', AllGe e' (blocks.flatMap (drawBlock · e')) :=
        fun e' => AllGe.flatMap _ _ (fun b _ => allGe_drawBlock b e')
      match box with
      | .leaf a =>
        rw [paint]
        refine AllGe.mono (ctxEnv_ge a pov e) (allGe_paintBodyWith pov a _ _ _ _ _ _ _ _ e ?_)
        intro e'
        exact ⟨(hneg e').paint, hbl e', (hfl e').paint, AllGe.nil e',
          (allGe_point7With a [] _ e' (AllGe.nil e')).append (hbc e').pt7, (hzero e').paint,
          (hpos e').paint, AllGe.nil e'⟩
      | .node a kids =>
        have hk := ge_list pov kids
        rw [paint]
        refine AllGe.mono (ctxEnv_ge a pov e) (allGe_paintBodyWith pov a _ _ _ _ _ _ _ _ e ?_)
        intro e'
        exact ⟨(hneg e').paint, hbl e', (hfl e').paint, (hk e').kids,
          (allGe_point7With a kids _ e' (hk e').lines).append (hbc e').pt7, (hzero e').paint,
          (hpos e').paint, (hk e').outl⟩
      | .ph _ => rw [paint]; exact allGe_attrErr e _
      | .ctx .. => rw [paint]; exact allGe_attrErr e _
    refine ⟨?_, ?_, ?_, ?_, ?_⟩
    · simp only [paintList, List.append_nil]; exact hp
    · simp only [point7List, List.append_nil]; exact allGe_attrErr e _
    · simp only [inlKids, List.append_nil]
      split
      · exact AllGe.raise e _
      · exact hp
    · simp only [inlList, List.append_nil]
      split
      · exact AllGe.raise e _
      · exact hp
    · simp only [outlineList]; exact AllGe.nil e
theorem ge_list (pov : Bool) : ∀ (l : List Node) (e : Env), GeL pov l e
  | [], e => ⟨by simp [paintList, AllGe.nil], by simp [point7List, AllGe.nil],
      by simp [inlKids, AllGe.nil], by simp [inlList, AllGe.nil], by simp [outlineList, AllGe.nil]⟩
  | n :: l, e => by
    have h1 := ge_node pov n e
    have h2 := ge_list pov l e
    refine ⟨?_, ?_, ?_, ?_, ?_⟩
    · rw [paintList_cons]; exact h1.paint.append h2.paint
    · rw [point7List_cons]; exact h1.pt7.append h2.pt7
    · rw [inlKids_cons]; exact h1.kids.append h2.kids
    · rw [inlList_cons]; exact h1.lines.append h2.lines
    · rw [outlineList_cons]; exact h1.outl.append h2.outl
end

end Wp.Stacking
