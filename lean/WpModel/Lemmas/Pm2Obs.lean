/-
The abstraction the Python harness applies to a render for the C04 break checker (`BreakTrace.badObs`): one
observation per pair of adjacent sibling boxes that both show text — the break values meeting between them, the
last page showing a word of the first, the first page showing a word of the second, and the side of that page.
-/
import WpModel.Model.BreakTrace
import WpModel.Lemmas.Pm2Words
import WpModel.Lemmas.Pm2First

namespace Wp.PM
open Wp

/-- Adjacent pairs of a list of siblings. -/
def adjPairs : List PBox → List (PBox × PBox)
  | a :: b :: rest => (a, b) :: adjPairs (b :: rest)
  | _ => []

mutual
/-- Every pair of adjacent siblings of the tree. -/
def sibPairs : PBox → List (PBox × PBox)
  | .para _ _ _ _ => []
  | .block _ _ kids => adjPairs kids ++ sibPairsList kids
def sibPairsList : List PBox → List (PBox × PBox)
  | [] => []
  | b :: bs => sibPairs b ++ sibPairsList bs
end

theorem adjPairs_get (kids : List PBox) (a b : PBox) (h : (a, b) ∈ adjPairs kids) :
    ∃ j, kids[j]? = some a ∧ kids[j + 1]? = some b := by
  induction kids with
  | nil => simp [adjPairs] at h
  | cons x xs ih =>
    cases xs with
    | nil => simp [adjPairs] at h
    | cons y ys =>
      simp only [adjPairs, List.mem_cons, Prod.mk.injEq] at h
      rcases h with ⟨rfl, rfl⟩ | h
      · exact ⟨0, by simp, by simp⟩
      · obtain ⟨j, h1, h2⟩ := ih h
        exact ⟨j + 1, by simpa using h1, by simpa using h2⟩

mutual
theorem sibPairs_sibAt : (box : PBox) → ∀ a b, (a, b) ∈ sibPairs box → ∃ π j, SibAt box π j a b
  | .para _ _ _ _ => by intro a b h; simp [sibPairs] at h
  | .block id st kids => by
    intro a b h
    simp only [sibPairs, List.mem_append] at h
    rcases h with h | h
    · obtain ⟨j, h1, h2⟩ := adjPairs_get kids a b h
      exact ⟨[], j, by simp [SibAt, h1, h2]⟩
    · obtain ⟨i, k, hk, π, j, hs⟩ := sibPairsList_sibAt kids a b h
      exact ⟨i :: π, j, by simp only [SibAt]; exact ⟨k, hk, hs⟩⟩
theorem sibPairsList_sibAt : (bs : List PBox) → ∀ a b, (a, b) ∈ sibPairsList bs →
    ∃ (i : Nat) (k : PBox), bs[i]? = some k ∧ ∃ π j, SibAt k π j a b
  | [] => by intro a b h; simp [sibPairsList] at h
  | x :: xs => by
    intro a b h
    simp only [sibPairsList, List.mem_append] at h
    rcases h with h | h
    · exact ⟨0, x, by simp, sibPairs_sibAt x a b h⟩
    · obtain ⟨i, k, hk, hs⟩ := sibPairsList_sibAt xs a b h
      exact ⟨i + 1, k, by simpa using hk, hs⟩
end

/-- The observation for one pair, if both boxes show text. -/
def obsOfPair (d : Doc) (pages : List Page) (ab : PBox × PBox) : Option BreakTrace.Obs :=
  match (Trace.pagesOf (allWords ab.1) (pageWordsOf pages)).getLast?,
        (Trace.pagesOf (allWords ab.2) (pageWordsOf pages)).head? with
  | some pa, some pb =>
    some { values := valuesBetween ab.1 ab.2, pageA := pa, pageB := pb,
           rightB := (pages[pb]?.map (fun p => p.type.right)).getD false, ltr := d.rootLtr }
  | _, _ => none

def obsOf (d : Doc) (pages : List Page) : List BreakTrace.Obs :=
  (sibPairs d.root).filterMap (obsOfPair d pages)

/-- The checker reports nothing iff every observation is accepted. -/
theorem badObs_eq_nil_of (os : List BreakTrace.Obs) (h : ∀ o ∈ os, BreakTrace.obsOk o = true) :
    BreakTrace.badObs os = [] := by
  unfold BreakTrace.badObs
  simp only [List.map_eq_nil_iff, List.filter_eq_nil_iff]
  intro x hx
  have := h x.1 (List.fst_mem_of_mem_zipIdx hx)
  simp [this]

/-! ### `pagesOf` -/

theorem mem_pagesOf (ws : List Nat) (pw : List (List Nat)) (i : Nat) :
    i ∈ Trace.pagesOf ws pw ↔ ∃ page, pw[i]? = some page ∧ ∃ w ∈ page, w ∈ ws := by
  unfold Trace.pagesOf
  simp only [List.mem_map, List.mem_filter, List.any_eq_true, Prod.exists, exists_eq_right]
  constructor
  · rintro ⟨page, hmem, w, hw, hc⟩
    rw [List.mem_zipIdx_iff_getElem?] at hmem
    exact ⟨page, hmem, w, hw, by simpa using hc⟩
  · rintro ⟨page, hget, w, hw, hc⟩
    exact ⟨page, by rw [List.mem_zipIdx_iff_getElem?]; exact hget, w, hw, by simpa using hc⟩

theorem zipIdx_sorted (xs : List (List Nat)) (k : Nat) :
    List.Pairwise (fun a b : List Nat × Nat => a.2 < b.2) (xs.zipIdx k) := by
  induction xs generalizing k with
  | nil => simp
  | cons x xs ih =>
    rw [List.zipIdx_cons, List.pairwise_cons]
    refine ⟨?_, ih (k + 1)⟩
    intro y hy
    have := (List.mem_zipIdx hy).1
    simp only
    omega

theorem pagesOf_sorted (ws : List Nat) (pw : List (List Nat)) :
    List.Pairwise (· < ·) (Trace.pagesOf ws pw) := by
  unfold Trace.pagesOf
  rw [List.pairwise_map]
  exact (zipIdx_sorted pw 0).filter _

theorem pagesOf_head_le (ws : List Nat) (pw : List (List Nat)) (h : Nat)
    (hh : (Trace.pagesOf ws pw).head? = some h) : ∀ i ∈ Trace.pagesOf ws pw, h ≤ i := by
  have hs := pagesOf_sorted ws pw
  obtain ⟨t, ht⟩ := List.head?_eq_some_iff.mp hh
  rw [ht] at hs ⊢
  intro i hi
  rcases List.mem_cons.mp hi with rfl | hi
  · exact Nat.le_refl _
  · exact Nat.le_of_lt ((List.pairwise_cons.mp hs).1 i hi)

/-- A page word of `allWords b` is the word of a line of `b` shown by that page. -/
theorem page_word_line (pages : List Page) (i : Nat) (page : List Nat) (b : PBox)
    (hp : (pageWordsOf pages)[i]? = some page) (w : Nat) (hw : w ∈ page) (hb : w ∈ allWords b) :
    ∃ pg l, pages[i]? = some pg ∧ l ∈ fragLines pg.root ∧ l ∈ linesFrom b none := by
  unfold pageWordsOf at hp
  rw [List.getElem?_map] at hp
  cases hpg : pages[i]? with
  | none => rw [hpg] at hp; cases hp
  | some pg =>
    rw [hpg] at hp
    simp only [Option.map_some, Option.some.injEq] at hp
    subst hp
    rw [allWords_eq] at hb
    simp only [List.mem_map] at hw hb
    obtain ⟨l, hl, rfl⟩ := hw
    obtain ⟨l', hl', he⟩ := hb
    have := wordId_inj _ _ _ _ he
    have : l' = l := Prod.ext this.1 this.2
    subst this
    exact ⟨pg, l', rfl, hl, hl'⟩

theorem mem_pagesLines (Ps : List Page) (pg : Page) (l : Nat × Nat) (hpg : pg ∈ Ps) (hl : l ∈ fragLines pg.root) :
    l ∈ pagesLines Ps := by
  induction Ps with
  | nil => cases hpg
  | cons p ps ih =>
    simp only [pagesLines, List.mem_append]
    rcases List.mem_cons.mp hpg with rfl | h
    · left; exact hl
    · right; exact ih h

mutual
theorem linesFrom_nodup_aux : (b : PBox) → ∀ l ∈ linesFrom b none, l.1 ∈ (paras b).map Prod.fst
  | .para id n lh st => by
    intro l hl
    simp only [linesFrom, paraLines, List.mem_map] at hl
    obtain ⟨i, _, rfl⟩ := hl
    simp [paras]
  | .block id st kids => by
    intro l hl
    simp only [linesFrom, skipIdxOf_none, subSkipOf_none] at hl
    simp only [paras]
    exact linesFromKids_nodup_aux kids l hl
theorem linesFromKids_nodup_aux : (bs : List PBox) → ∀ l ∈ linesFromKids bs 0 none,
    l.1 ∈ (parasList bs).map Prod.fst
  | [] => by intro l hl; simp [linesFromKids] at hl
  | b :: bs => by
    intro l hl
    simp only [linesFromKids, List.mem_append] at hl
    simp only [parasList, List.map_append, List.mem_append]
    rcases hl with hl | hl
    · left; exact linesFrom_nodup_aux b l hl
    · right; exact linesFromKids_nodup_aux bs l hl
end

mutual
/-- Distinct paragraph ids: no line occurs twice in the document. -/
theorem linesFrom_nodup : (b : PBox) → UniqueParaIds b → (linesFrom b none).Nodup
  | .para id n lh st => by
    intro _
    simp only [linesFrom, paraLines]
    rw [List.nodup_iff_pairwise_ne, List.pairwise_map]
    have := List.nodup_iff_pairwise_ne.mp (List.nodup_range' (s := paraStart none) (n := n - paraStart none) 1)
    exact this.imp (fun hne hab => hne (by simpa using hab))
  | .block id st kids => by
    intro h
    simp only [linesFrom, skipIdxOf_none, subSkipOf_none]
    exact linesFromKids_nodup kids h
theorem linesFromKids_nodup : (bs : List PBox) → ((parasList bs).map Prod.fst).Nodup →
    (linesFromKids bs 0 none).Nodup
  | [] => by intro _; simp [linesFromKids]
  | b :: bs => by
    intro h
    simp only [parasList, List.map_append] at h
    rw [List.nodup_append] at h
    simp only [linesFromKids]
    rw [List.nodup_append]
    refine ⟨linesFrom_nodup b h.1, linesFromKids_nodup bs h.2.1, ?_⟩
    intro x hx y hy hxy
    subst hxy
    exact h.2.2 _ (linesFrom_nodup_aux b x hx) _ (linesFromKids_nodup_aux bs x hy) rfl
end

end Wp.PM
