/-
The `while True` loop of `avoid_collisions`: measure, termination, induction principle, exit condition.
-/
import WpModel.Lemmas.Floats

namespace Wp.Floats

/-- Number of shapes whose bottom is below `y`: the loop's measure. -/
def loopMeasure (shapes : List Shape) (y : Rat) : Nat :=
  (shapes.filter (fun s => decide (s.bottom > y))).length

theorem loopMeasure_le (shapes : List Shape) (y : Rat) : loopMeasure shapes y ≤ shapes.length := by
  unfold loopMeasure; exact List.length_filter_le _ _

/-- "The box does not fit at `y`": the condition under which the loop tries to move down. -/
def blockedAt (shapes : List Shape) (w h l0 r0 y : Rat) : Bool :=
  let b := bounds (colliding shapes y h) l0 r0
  b.constrained && Gen.blockedTest w b.r b.l

theorem mem_colliding {shapes : List Shape} {y h : Rat} {s : Shape} :
    s ∈ colliding shapes y h ↔ s ∈ shapes ∧ collides s y h = true := by
  simp [colliding]

/-- Every candidate lower position is the bottom of a colliding shape and is strictly below `y`. -/
theorem mem_lowerPositions {col : List Shape} {y q : Rat} :
    q ∈ lowerPositions col y ↔ (∃ s ∈ col, s.bottom = q) ∧ q > y := by
  simp only [lowerPositions, Gen.lowerTest, List.mem_map, List.mem_filter, decide_eq_true_eq]
  constructor
  · rintro ⟨s, ⟨h1, h2⟩, h3⟩
    exact ⟨⟨s, h1, h3⟩, by rw [← h3]; exact h2⟩
  · rintro ⟨⟨s, h1, h3⟩, h2⟩
    exact ⟨s, ⟨h1, by rw [← h3] at h2; exact h2⟩, h3⟩

/-- The next position chosen by `continue`. -/
theorem next_position {shapes : List Shape} {h y p : Rat} {ps : List Rat}
    (hl : lowerPositions (colliding shapes y h) y = p :: ps) :
    (∃ s ∈ shapes, collides s y h = true ∧ s.bottom = minList p ps) ∧ minList p ps > y ∧
    (∀ s ∈ shapes, collides s y h = true → s.bottom > y → minList p ps ≤ s.bottom) := by
  have hmem : minList p ps ∈ lowerPositions (colliding shapes y h) y := by
    rw [hl]; exact minList_mem_cons p ps
  rcases mem_lowerPositions.mp hmem with ⟨⟨s, hs, hb⟩, hgt⟩
  refine ⟨⟨s, (mem_colliding.mp hs).1, (mem_colliding.mp hs).2, hb⟩, hgt, ?_⟩
  intro s' hs' hc' hb'
  have : s'.bottom ∈ lowerPositions (colliding shapes y h) y :=
    mem_lowerPositions.mpr ⟨⟨s', mem_colliding.mpr ⟨hs', hc'⟩, rfl⟩, hb'⟩
  rw [hl] at this
  exact minList_le_all p ps _ this

theorem measure_decreases {shapes : List Shape} {h y p : Rat} {ps : List Rat}
    (hl : lowerPositions (colliding shapes y h) y = p :: ps) :
    loopMeasure shapes (minList p ps) < loopMeasure shapes y := by
  rcases next_position hl with ⟨⟨s, hs, _, hb⟩, hgt, _⟩
  unfold loopMeasure
  apply filter_length_lt _ _ shapes _ s hs
  · simp; rw [hb]; exact hgt
  · simp [hb]
  · intro a _ ha
    simp at ha ⊢
    grind

/-- One unfolding of the loop. -/
theorem avoidLoop_succ (fuel : Nat) (shapes : List Shape) (w h l0 r0 y : Rat) :
    avoidLoop (fuel + 1) shapes w h l0 r0 y =
      (let col := colliding shapes y h
       let b := bounds col l0 r0
       if b.constrained && Gen.blockedTest w b.r b.l then
         match lowerPositions col y with
         | [] => some ⟨y, b.l, b.r⟩
         | p :: ps => avoidLoop fuel shapes w h l0 r0 (minList p ps)
       else some ⟨y, b.l, b.r⟩) := by
  rfl

/-- Termination: any fuel above the measure yields a result. -/
theorem avoidLoop_isSome (fuel : Nat) (shapes : List Shape) (w h l0 r0 y : Rat)
    (hf : loopMeasure shapes y < fuel) : (avoidLoop fuel shapes w h l0 r0 y).isSome = true := by
  induction fuel generalizing y with
  | zero => omega
  | succ n ih =>
    rw [avoidLoop_succ]
    simp only
    split
    · split
      · rfl
      · rename_i p ps hl
        apply ih
        have := measure_decreases hl
        omega
    · rfl

/-- The result does not depend on the fuel once it is above the measure. -/
theorem avoidLoop_fuel_irrelevant (f1 f2 : Nat) (shapes : List Shape) (w h l0 r0 y : Rat)
    (h1 : loopMeasure shapes y < f1) (h2 : loopMeasure shapes y < f2) :
    avoidLoop f1 shapes w h l0 r0 y = avoidLoop f2 shapes w h l0 r0 y := by
  induction f1 generalizing y f2 with
  | zero => omega
  | succ n ih =>
    cases f2 with
    | zero => omega
    | succ m =>
      rw [avoidLoop_succ, avoidLoop_succ]
      simp only
      split
      · split
        · rfl
        · rename_i p ps hl
          have := measure_decreases hl
          apply ih <;> omega
      · rfl

/-- Induction principle over the positions visited by the loop: `P` holds at the start and is
preserved by every `continue`; then it holds at the result, together with the exit condition. -/
theorem avoidLoop_induct (P : Rat → Prop) (shapes : List Shape) (w h l0 r0 : Rat)
    (hstep : ∀ y p ps, P y → blockedAt shapes w h l0 r0 y = true →
      lowerPositions (colliding shapes y h) y = p :: ps → P (minList p ps))
    (fuel : Nat) (y : Rat) (res : LoopRes) (h0 : P y)
    (hres : avoidLoop fuel shapes w h l0 r0 y = some res) :
    P res.y ∧
    res.l = (bounds (colliding shapes res.y h) l0 r0).l ∧
    res.r = (bounds (colliding shapes res.y h) l0 r0).r ∧
    (blockedAt shapes w h l0 r0 res.y = false ∨
      lowerPositions (colliding shapes res.y h) res.y = []) := by
  induction fuel generalizing y with
  | zero => simp [avoidLoop] at hres
  | succ n ih =>
    rw [avoidLoop_succ] at hres
    simp only at hres
    split at hres
    · rename_i hb
      split at hres
      · rename_i hl
        simp at hres; subst hres
        exact ⟨h0, rfl, rfl, Or.inr hl⟩
      · rename_i p ps hl
        exact ih (minList p ps) (hstep y p ps h0 (by simpa [blockedAt] using hb) hl) hres
    · rename_i hb
      simp at hres; subst hres
      refine ⟨h0, rfl, rfl, Or.inl ?_⟩
      simpa [blockedAt] using hb

end Wp.Floats
