/-
The `/W` array of a CID font (Model/PdfFonts `wLoop` / `wArray`) read back by a PDF reader (`wDecode`) is the width
table it was built from, for glyph ids in strictly increasing order (`sorted(widths)` of a dict).  Core Lean only.
-/
import WpModel.Model.PdfFonts
namespace Wp.PdfFonts

/-- The `(cid, width)` pairs one group `c [w1 … wn]` stands for. -/
def decG (g : Nat × List Int) : List (Nat × Int) :=
  ((List.range g.2.length).zip g.2).map (fun p => (g.1 + p.1, p.2))

def dec (gs : List (Nat × List Int)) : List (Nat × Int) := gs.flatMap decG

theorem wDecode_groups (gs : List (Nat × List Int)) :
    wDecode (gs.flatMap (fun g => [WItem.cid g.1, WItem.widths g.2])) = dec gs := by
  induction gs with
  | nil => rfl
  | cons g gs ih =>
    simp only [List.flatMap_cons, List.cons_append, List.nil_append, wDecode, dec]
    rw [ih]; rfl

theorem decG_snoc (c : Nat) (ws : List Int) (w : Int) :
    decG (c, ws ++ [w]) = decG (c, ws) ++ [(c + ws.length, w)] := by
  simp only [decG, List.length_append, List.length_singleton]
  rw [show ws.length + 1 = ws.length.succ from rfl, List.range_succ,
    List.zip_append (by simp), List.map_append]
  rfl

theorem decG_single (c : Nat) (w : Int) : decG (c, [w]) = [(c, w)] := by
  simp [decG, List.range_succ]

theorem dec_append (a b : List (Nat × List Int)) : dec (a ++ b) = dec a ++ dec b := by
  simp [dec, List.flatMap_append]

theorem dec_single (g : Nat × List Int) : dec [g] = decG g := by simp [dec]

/-- Invariant of the loop: the groups built so far decode to the pairs consumed so far, and the last group ends just
after the last consumed glyph id. -/
structure WInv (pre : List (Nat × Int)) (acc : List (Nat × List Int)) : Prop where
  dec_eq : dec acc = pre
  nonempty : pre ≠ [] → acc ≠ []
  last : ∀ g p, acc.getLast? = some g → pre.getLast? = some p → g.1 + g.2.length = p.1 + 1

theorem wLoop_spec (cids : List Nat) (rest pre : List (Nat × Int)) (acc : List (Nat × List Int))
    (hc : cids = pre.map (·.1) ++ rest.map (·.1))
    (hs : (pre.map (·.1) ++ rest.map (·.1)).Pairwise (· < ·)) (hI : WInv pre acc) :
    ∃ out, wLoop cids rest acc = .ok out ∧ dec out = pre ++ rest := by
  induction rest generalizing pre acc with
  | nil => exact ⟨acc, rfl, by simp [hI.dec_eq]⟩
  | cons cw rest ih =>
    obtain ⟨c, w⟩ := cw
    have hc' : cids = (pre ++ [(c, w)]).map (·.1) ++ rest.map (·.1) := by
      rw [hc]; simp
    have hs' : ((pre ++ [(c, w)]).map (·.1) ++ rest.map (·.1)).Pairwise (· < ·) := by
      have : (pre ++ [(c, w)]).map (·.1) ++ rest.map (·.1) = pre.map (·.1) ++ ((c, w) :: rest).map (·.1) := by simp
      rw [this]; exact hs
    obtain ⟨hpre, hrest, hcross⟩ := List.pairwise_append.mp hs
    simp only [List.map_cons] at hrest hcross
    obtain ⟨hgt, _⟩ := List.pairwise_cons.mp hrest
    simp only [wLoop]
    by_cases hb : (c = 0 ∨ (!cids.contains (c - 1)) = true)
    · -- a new group
      rw [if_pos hb]
      have hI' : WInv (pre ++ [(c, w)]) (acc ++ [(c, [w])]) := by
        refine ⟨?_, fun _ => by simp, ?_⟩
        · rw [dec_append, dec_single, decG_single, hI.dec_eq]
        · intro g p hg hp
          rw [List.getLast?_concat] at hg hp
          cases hg; cases hp; rfl
      obtain ⟨out, ho, hd⟩ := ih (pre ++ [(c, w)]) (acc ++ [(c, [w])]) hc' hs' hI'
      exact ⟨out, ho, by rw [hd]; simp⟩
    · -- the glyph id before this one is used: it is the previous pair, its group goes on
      rw [if_neg hb]
      have hc0 : c ≠ 0 := fun e => hb (Or.inl e)
      have hmem : (c - 1) ∈ cids := by
        have : ¬ ((!cids.contains (c - 1)) = true) := fun e => hb (Or.inr e)
        simpa using this
      have hin : (c - 1) ∈ pre.map (·.1) := by
        rw [hc] at hmem
        simp only [List.map_cons, List.mem_append, List.mem_cons] at hmem
        rcases hmem with h | h | h
        · exact h
        · omega
        · have := hgt _ h; omega
      have hne : pre ≠ [] := by intro e; subst e; simp at hin
      obtain ⟨p, hp⟩ : ∃ p, pre.getLast? = some p := by
        cases h : pre.getLast? with
        | none => exact absurd (List.getLast?_eq_none_iff.mp h) hne
        | some p => exact ⟨p, rfl⟩
      obtain ⟨init, rfl⟩ := List.getLast?_eq_some_iff.mp hp
      have hp1 : p.1 = c - 1 := by
        have hlt : p.1 < c := hcross p.1 (by simp) c (by simp)
        simp only [List.map_append, List.map_cons, List.map_nil, List.mem_append, List.mem_singleton] at hin
        rcases hin with h | h
        · simp only [List.map_append, List.map_cons, List.map_nil] at hpre
          have := (List.pairwise_append.mp hpre).2.2 _ h p.1 (by simp)
          omega
        · omega
      have hane := hI.nonempty hne
      obtain ⟨g, hg⟩ : ∃ g, acc.getLast? = some g := by
        cases h : acc.getLast? with
        | none => exact absurd (List.getLast?_eq_none_iff.mp h) hane
        | some g => exact ⟨g, rfl⟩
      obtain ⟨ainit, rfl⟩ := List.getLast?_eq_some_iff.mp hg
      have hend : g.1 + g.2.length = c := by
        have := hI.last g p hg hp; omega
      simp only [hg, List.dropLast_concat]
      have hI' : WInv (init ++ [p] ++ [(c, w)]) (ainit ++ [(g.1, g.2 ++ [w])]) := by
        refine ⟨?_, fun _ => by simp, ?_⟩
        · have h0 := hI.dec_eq
          rw [dec_append, dec_single] at h0
          rw [dec_append, dec_single, decG_snoc, hend, ← List.append_assoc, h0]
        · intro g' p' hg' hp'
          rw [List.getLast?_concat] at hg' hp'
          cases hg'; cases hp'
          simp only [List.length_append, List.length_singleton]
          omega
      obtain ⟨out, ho, hd⟩ := ih (init ++ [p] ++ [(c, w)]) (ainit ++ [(g.1, g.2 ++ [w])]) hc' hs' hI'
      exact ⟨out, ho, by rw [hd]; simp⟩

end Wp.PdfFonts
