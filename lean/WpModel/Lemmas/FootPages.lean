/-
From `layoutBoxF` to pages of the footnote model: what `remakePageF` / `makeAllPagesF` do to the lines.
-/
import WpModel.Lemmas.SegmentPages
import WpModel.Lemmas.FootSegment

namespace Wp.PMF
open Wp Wp.PM

theorem erase_emptyRootF (b : FootBox) : (emptyRootF b).erase = emptyRoot b.erase := by
  cases b <;> simp [emptyRootF, FootBox.erase, emptyRoot, eraseList]

/-- What `remake_page` does, read off its definition. -/
theorem remakePageF_spec (d : FDoc) (index : Nat) (resume : Option Resume) (np : NextPage) (right : Bool)
    (pending reported : List Fn) (p : FPage) (hp : remakePageF d index resume np right pending reported = some p) :
    p.page.type.blank = isBlankF d resume np right reported ∧
    (p.page.type.blank = true → p.page.resume = resume ∧ p.page.nextPage = np ∧
      ∃ c fs, (layoutBoxF c (emptyRootF d.root) 0 0 0 resume false true [] fs).r.frag = some p.page.root) ∧
    (p.page.type.blank = false →
      ∃ c fs, (layoutBoxF c d.root 0 0 0 resume false true [] fs).r.frag = some p.page.root ∧
        p.page.resume = (layoutBoxF c d.root 0 0 0 resume false true [] fs).r.resume) := by
  unfold remakePageF at hp
  dsimp only at hp
  split at hp
  · simp at hp
  · rename_i f hfrag
    simp only [Option.some.injEq] at hp
    subst hp
    refine ⟨rfl, ?_, ?_⟩
    · intro hb
      simp only at hb
      simp only [hb, ↓reduceIte] at hfrag ⊢
      exact ⟨trivial, trivial, _, _, hfrag⟩
    · intro hb
      simp only at hb
      simp only [hb, Bool.false_eq_true, ↓reduceIte] at hfrag ⊢
      exact ⟨_, _, hfrag, rfl⟩

/-- Lines and position of one page. -/
theorem remakePageF_lines (d : FDoc) (hg : Good d.root.erase) (index : Nat) (resume : Option Resume) (np : NextPage)
    (right : Bool) (pending reported : List Fn) (p : FPage)
    (hp : remakePageF d index resume np right pending reported = some p) :
    (p.page.type.blank = true → fragLines p.page.root = [] ∧ p.page.resume = resume ∧ p.page.nextPage = np) ∧
    (p.page.type.blank = false →
      fragLines p.page.root ++ restOut d.root.erase p.page.resume = linesFrom d.root.erase resume ∧
      ∀ r, p.page.resume = some r → pos d.root.erase resume < pos d.root.erase (some r)) := by
  obtain ⟨_, h1, h2⟩ := remakePageF_spec d index resume np right pending reported p hp
  constructor
  · intro hb
    obtain ⟨hr, hn, c, fs, hf⟩ := h1 hb
    refine ⟨?_, hr, hn⟩
    have hs := boxF_spec (emptyRootF d.root) (by rw [erase_emptyRootF]; exact good_emptyRoot _ hg)
      c 0 0 0 resume false true [] fs
    have := boxPost_lines _ _ _ _ _ hs hf
    rw [erase_emptyRootF, linesFrom_emptyRoot] at this
    exact (List.append_eq_nil_iff.mp this).1
  · intro hb
    obtain ⟨c, fs, hf, hr⟩ := h2 hb
    have hs := boxF_spec d.root hg c 0 0 0 resume false true [] fs
    rw [hr]
    refine ⟨boxPost_lines _ _ _ _ _ hs hf, ?_⟩
    intro r hr'
    rw [hr'] at hs
    exact boxPost_progress _ _ _ _ _ hs hf

/-- All lines shown by a list of pages, in order. -/
def pagesLinesF : List FPage → List (Nat × Nat)
  | [] => []
  | p :: ps => fragLines p.page.root ++ pagesLinesF ps

/-- What is still to be shown when `make_all_pages` is about to make a page: `resume_at = None` means
"everything" on the first page and "nothing" once footnotes are the only thing left. -/
def remaining (d : FDoc) (resume : Option Resume) (reported : List Fn) : List (Nat × Nat) :=
  if resume = none ∧ reported ≠ [] then [] else linesFrom d.root.erase resume

theorem makeAllPagesF_lines (d : FDoc) (hg : Good d.root.erase) : ∀ (fuel index : Nat) (resume : Option Resume)
    (np : NextPage) (right : Bool) (pending reported : List Fn) (pages : List FPage),
    (resume = none → reported = [] → isBlank (requestedSide d.rootLtr np.brk) right = false) →
    makeAllPagesF d fuel index resume np right pending reported = some pages →
    pagesLinesF pages = remaining d resume reported := by
  intro fuel
  induction fuel with
  | zero => intro index resume np right pending reported pages _ h; simp [makeAllPagesF] at h
  | succ fuel ih =>
    intro index resume np right pending reported pages hstart h
    unfold makeAllPagesF at h
    split at h
    · cases h
    · rename_i p hp
      obtain ⟨hbl, _, _⟩ := remakePageF_spec d index resume np right pending reported p hp
      obtain ⟨l1, l2⟩ := remakePageF_lines d hg index resume np right pending reported p hp
      cases hb : p.page.type.blank with
      | true =>
        obtain ⟨hl, hr, hn⟩ := l1 hb
        -- either a side-blank page with something left, or only footnotes are left
        have hcase : resume ≠ none ∨ (resume = none ∧ reported ≠ []) := by
          by_cases he : resume = none
          · right
            refine ⟨he, fun hrep => ?_⟩
            have := hstart he hrep
            rw [hb] at hbl
            simp [isBlankF, this, hrep] at hbl
          · left; exact he
        split at h
        · -- last page
          rename_i hstop
          simp only [Option.some.injEq] at h
          subst h
          simp only [Bool.and_eq_true, Option.isNone_iff_eq_none] at hstop
          rcases hcase with hc | hc
          · rw [hr] at hstop; exact absurd hstop.1 hc
          · simp [pagesLinesF, hl, remaining, hc.1, hc.2]
        · rename_i hcont
          split at h
          · rename_i ps hps
            simp only [Option.some.injEq] at h
            subst h
            simp only [pagesLinesF, hl, List.nil_append]
            rw [hr] at hps hcont
            rcases hcase with hc | hc
            · rw [ih (index + 1) resume p.page.nextPage (!right) _ _ ps (fun he => absurd he hc) hps]
              simp [remaining, hc]
            · have hrep : p.reported ≠ [] := by
                intro he; simp [hc.1, he] at hcont
              rw [ih (index + 1) resume p.page.nextPage (!right) _ _ ps (fun _ he => absurd he hrep) hps]
              simp [remaining, hc.1, hc.2, hrep]
          · cases h
      | false =>
        obtain ⟨hl, _⟩ := l2 hb
        have hrem : remaining d resume reported = linesFrom d.root.erase resume := by
          rw [hb] at hbl
          unfold remaining
          split
          · rename_i hc
            have : (!reported.isEmpty && resume.isNone) = true := by
              simp [hc.1, hc.2]
            simp [isBlankF, this] at hbl
          · rfl
        rw [hrem]
        split at h
        · rename_i hstop
          simp only [Option.some.injEq] at h
          subst h
          simp only [Bool.and_eq_true, Option.isNone_iff_eq_none] at hstop
          rw [hstop.1] at hl
          simpa [pagesLinesF, restOut] using hl
        · rename_i hcont
          split at h
          · rename_i ps hps
            simp only [Option.some.injEq] at h
            subst h
            simp only [pagesLinesF]
            cases hres : p.page.resume with
            | none =>
              have hrep : p.reported ≠ [] := by
                intro he; simp [hres, he] at hcont
              rw [hres] at hps hl
              rw [ih (index + 1) none p.page.nextPage (!right) _ _ ps (fun _ he => absurd he hrep) hps]
              simpa [remaining, hrep, restOut] using hl
            | some r =>
              rw [hres] at hps hl
              rw [ih (index + 1) (some r) p.page.nextPage (!right) _ _ ps (by intro he; cases he) hps]
              simpa [remaining, restOut] using hl
          · cases h

end Wp.PMF
