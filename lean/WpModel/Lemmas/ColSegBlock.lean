/-
Port of `Lemmas/SegmentBlock.lean`: post-condition of `layoutBox` / `layoutKids` (conservation + progress) for
nested blocks, plus the new part: column boxes, the chain of columns of `columns_layout` and the container.
-/
import WpModel.Lemmas.ColSegEarlier

namespace Wp.PMC
open Wp Wp.PM

def KidsPost (all : List ColBox) (i0 : Nat) (sub0 : Option Resume) : KidsOutcome → Prop
  | .finished s' => FullFrom s'.newChildren all i0 sub0
  | .aborted _ _ => True
  | .raised _ => True
  | .stopped ρ s' => ∃ m, ρ.isSome = true ∧ skipIdxOf ρ = i0 + m ∧
      fragLinesList s'.newChildren ++ linesFromKids all m (subSkipOf ρ) = linesFromKids all 0 sub0 ∧
      posKids all 0 sub0 < posKids all m (subSkipOf ρ)

theorem fragLinesList_append (a b : List CFrag) :
    fragLinesList (a ++ b) = fragLinesList a ++ fragLinesList b := by
  induction a with
  | nil => simp [fragLinesList]
  | cons x xs ih => simp [fragLinesList, ih]

theorem linesFromKids_append_zero (B R : List ColBox) (sub0 : Option Resume) :
    linesFromKids (B ++ R) 0 sub0 =
      linesFromKids B 0 sub0 ++ linesFromKids R 0 (if B = [] then sub0 else none) := by
  cases B with
  | nil => simp [linesFromKids]
  | cons b B => rw [linesFromKids_append_lt _ _ _ _ (by simp)]; simp

theorem posKids_append_zero (B : List ColBox) (child : ColBox) (rest : List ColBox) (sub0 : Option Resume) :
    posKids (B ++ child :: rest) 0 sub0 ≤ sizeKids B + pos child (if B = [] then sub0 else none) := by
  cases B with
  | nil => simp [posKids, sizeKids]
  | cons b B =>
    rw [posKids_append_lt _ _ _ _ (by simp)]
    have := posKids_lt (b :: B) 0 sub0 (by simp)
    omega

theorem stop_before_spec (B R : List ColBox) (i0 : Nat) (sub0 : Option Resume) (s' : KidsLoop)
    (hinv : FullFrom s'.newChildren B i0 sub0) (hne : s'.newChildren ≠ []) :
    KidsPost (B ++ R) i0 sub0 (.stopped (some (.node (i0 + B.length) none)) s') := by
  have hlen := fullFrom_length _ _ _ _ hinv
  have hB : 0 < B.length := by
    rw [← hlen]; exact List.length_pos_iff.mpr hne
  refine ⟨B.length, rfl, rfl, ?_, ?_⟩
  · rw [fullFrom_lines _ _ _ _ hinv, linesFromKids_append_lt _ _ _ _ hB]
    have := linesFromKids_append_len B R 0 none
    simp only [Nat.add_zero] at this
    simp only [subSkipOf_node]
    rw [this]
  · rw [posKids_append_lt _ _ _ _ hB]
    have := posKids_append_len B R 0 none
    simp only [Nat.add_zero] at this
    simp only [subSkipOf_node]
    rw [this]
    have := posKids_lt B 0 sub0 hB
    omega

theorem conclude_spec (c : CCtx) (index : Nat) (pie : Bool) (pb : Brk) (child : ColBox) (s : KidsLoop)
    (frag : Option CFrag) (resume : Option Resume) (B rest : List ColBox) (i0 : Nat) (sub0 : Option Resume)
    (hgB : GoodList B) (hinv : FullFrom s.newChildren B i0 sub0) (hidx : index = i0 + B.length)
    (hchild : BoxPost child (if B = [] then sub0 else none) frag resume) :
    (∀ out s3, concludeKid c index pie pb child s frag resume = (some out, s3) →
      KidsPost (B ++ child :: rest) i0 sub0 out) ∧
    (∀ s3, concludeKid c index pie pb child s frag resume = (none, s3) →
      FullFrom s3.newChildren (B ++ [child]) i0 sub0 ∧ s3.skip = s.skip) := by
  cases frag with
  | none =>
    constructor
    · intro out s3 h
      unfold concludeKid at h
      dsimp only at h
      split at h
      · -- an earlier break
        rename_i kept r' hearlier
        simp only [Prod.mk.injEq, Option.some.injEq] at h
        obtain ⟨rfl, rfl⟩ := h
        have hfound : findEarlierList c.inColumn s.newChildren = some (kept, r') := by
          split at hearlier
          · exact hearlier
          · cases hearlier
        obtain ⟨m, sub', rfl, hm, hlines, hpos⟩ :=
          findEarlierList_spec c.inColumn _ _ _ _ hgB hinv kept r' hfound
        have h0 : 0 < B.length := by omega
        refine ⟨m, rfl, rfl, ?_, ?_⟩
        · simp only [subSkipOf_node]
          rw [linesFromKids_append_lt _ _ _ _ hm, linesFromKids_append_lt _ _ _ _ h0, ← List.append_assoc, hlines]
        · simp only [subSkipOf_node]
          rw [posKids_append_lt _ _ _ _ hm, posKids_append_lt _ _ _ _ h0]
          exact hpos
      · split at h
        · simp only [Prod.mk.injEq, Option.some.injEq] at h
          obtain ⟨rfl, rfl⟩ := h
          trivial
        · split at h
          · rename_i hne
            simp only [Prod.mk.injEq, Option.some.injEq] at h
            obtain ⟨rfl, rfl⟩ := h
            rw [hidx]
            apply stop_before_spec _ _ _ _ _ hinv
            intro he; rw [he] at hne; simp at hne
          · simp only [Prod.mk.injEq, Option.some.injEq] at h
            obtain ⟨rfl, rfl⟩ := h
            trivial
    · intro s3 h
      unfold concludeKid at h
      dsimp only at h
      split at h
      · simp at h
      · split at h
        · simp at h
        · split at h <;> simp at h
  | some f =>
    have hc := hchild f rfl
    cases resume with
    | some r' =>
      simp only at hc
      obtain ⟨hl, hp⟩ := hc
      constructor
      · intro out s3 h
        simp only [concludeKid, Prod.mk.injEq, Option.some.injEq] at h
        obtain ⟨rfl, rfl⟩ := h
        refine ⟨B.length, rfl, by rw [hidx]; rfl, ?_, ?_⟩
        · simp only [subSkipOf_node]
          rw [fragLinesList_append, fullFrom_lines _ _ _ _ hinv, linesFromKids_append_zero]
          have := linesFromKids_append_len B (child :: rest) 0 (some r')
          simp only [Nat.add_zero] at this
          rw [this]
          simp only [fragLinesList, fragLines_withIdx, List.append_nil, linesFromKids, List.append_assoc]
          rw [← List.append_assoc (fragLines f), hl]
        · simp only [subSkipOf_node]
          have := posKids_append_len B (child :: rest) 0 (some r')
          simp only [Nat.add_zero] at this
          rw [this]
          have := posKids_append_zero B child rest sub0
          simp only [posKids]
          omega
      · intro s3 h
        simp [concludeKid] at h
    | none =>
      simp only at hc
      constructor
      · intro out s3 h
        simp [concludeKid] at h
      · intro s3 h
        simp only [concludeKid, Prod.mk.injEq, true_and] at h
        subst h
        refine ⟨?_, rfl⟩
        apply fullFrom_snoc _ _ _ _ _ _ hinv (full_withIdx _ _ _ _ hc)
        rw [idx_withIdx _ _ (full_not_column _ _ _ hc)]
        simp [hidx]

/-! ### the loop state helpers keep the children -/

@[simp] theorem setCur_newChildren' (s : KidsLoop) (l : List Rat) (b : Bool) :
    (s.setCur l b).newChildren = s.newChildren := by
  unfold KidsLoop.setCur; split <;> rfl

@[simp] theorem appendCur_newChildren' (s : KidsLoop) (m : Rat) :
    (s.appendCur m).newChildren = s.newChildren := by
  unfold KidsLoop.appendCur; split <;> rfl

@[simp] theorem adoptAdj_newChildren' (s : KidsLoop) (h : Bool) (a : AdjOut) (f : Option CFrag) :
    (s.adoptAdj h a f).newChildren = s.newChildren := by
  unfold KidsLoop.adoptAdj
  split
  · rfl
  · cases a <;> cases f <;> simp

theorem firstPass_keep (c : CCtx) (bs : Rat) (pienc : Bool) (posY : Rat) (r : LayoutResult)
    (frag : Option CFrag) (y : Rat) (h : firstPass c bs pienc posY r = .keep frag y) :
    frag = none ∨ frag = r.frag := by
  unfold firstPass at h
  split at h
  · simp only [FirstPass.keep.injEq] at h; left; exact h.1.symm
  · rename_i f hf
    split at h
    · simp only [FirstPass.keep.injEq] at h; right; rw [hf]; exact h.1.symm
    · dsimp only at h
      split at h
      · simp only [FirstPass.keep.injEq] at h; left; exact h.1.symm
      · split at h
        · cases h
        · simp only [FirstPass.keep.injEq] at h; right; rw [hf]; exact h.1.symm

theorem boxPost_none (box : ColBox) (skip resume : Option Resume) : BoxPost box skip none resume := by
  intro f h; cases h

theorem meetBreak_nil (c : CCtx) (s : KidsLoop) (child : ColBox) (h : s.newChildren = []) :
    (meetBreak c s child).2 = false := by
  unfold meetBreak; simp [h]

theorem finishBlock_post (c : CCtx) (st : PStyle) (p : Prep) (pie : Bool) (id idx : Nat) (out : KidsOutcome)
    (kids : List ColBox) (skip : Option Resume) (hh : st.height = none)
    (hout : KidsPost (kids.drop (skipIdxOf skip)) (skipIdxOf skip) (subSkipOf skip) out) :
    BoxPost (.block id st kids) skip (finishBlock false c st p pie out (fun g ks => .block id idx st g ks)).frag
      (finishBlock false c st p pie out (fun g ks => .block id idx st g ks)).resume := by
  intro f hf
  cases out with
  | raised e => simp [finishBlock, raisedResult] at hf
  | aborted page s => simp [finishBlock, noneResult] at hf
  | stopped resume s =>
    simp only [finishBlock] at hf ⊢
    obtain ⟨⟨g, rfl⟩, hr⟩ := finishContainer_frag _ _ _ _ _ _ _ _ _ _ _ _ _ _ _ _ _ _ hf
    rw [hr, forgetIfFixed_none _ _ _ _ hh]
    obtain ⟨m, hsome, hidx, hlines, hpos⟩ := hout
    cases resume with
    | none => simp at hsome
    | some ρ =>
      simp only
      constructor
      · simp only [fragLines, linesFrom]
        rw [hidx, linesFromKids_drop, hlines]
        have := linesFromKids_drop kids (skipIdxOf skip) 0 (subSkipOf skip)
        simpa using this.symm
      · simp only [pos]
        rw [hidx, posKids_drop]
        have := posKids_drop kids (skipIdxOf skip) 0 (subSkipOf skip)
        simp only [Nat.add_zero] at this
        rw [this]
        omega
  | finished s =>
    simp only [finishBlock] at hf ⊢
    obtain ⟨⟨g, rfl⟩, hr⟩ := finishContainer_frag _ _ _ _ _ _ _ _ _ _ _ _ _ _ _ _ _ _ hf
    rw [hr]
    simp only [Full]
    exact hout

/-! ### column boxes -/

/-- Lines / position of the children of a container from child `a + skipIdxOf σ` (resumed at `subSkipOf σ`) on:
`σ` is a skip stack of a column box whose first child is child `a` of the container. -/
def colLines (kids : List ColBox) (a : Nat) (σ : Option Resume) : List (Nat × Nat) :=
  linesFromKids kids (a + skipIdxOf σ) (subSkipOf σ)
def colPos (kids : List ColBox) (a : Nat) (σ : Option Resume) : Nat :=
  posKids kids (a + skipIdxOf σ) (subSkipOf σ)

/-- Post-condition of the layout of one column box. -/
def ColPost (kids : List ColBox) (a : Nat) (σ : Option Resume) (r : LayoutResult) : Prop :=
  ∀ f, r.frag = some f → f.isColumn = true ∧ match r.resume with
    | none => fragLines f = colLines kids a σ
    | some ρ => fragLines f ++ colLines kids a (some ρ) = colLines kids a σ ∧
        colPos kids a σ < colPos kids a (some ρ)

theorem finishColumn_post (c : CCtx) (st : PStyle) (p : Prep) (pie : Bool) (id : Nat) (x : Rat) (out : KidsOutcome)
    (kids : List ColBox) (a : Nat) (σ : Option Resume) (hh : st.height = none)
    (hout : KidsPost (kids.drop (a + skipIdxOf σ)) (skipIdxOf σ) (subSkipOf σ) out) :
    ColPost kids a σ (finishBlock true c st p pie out (fun g ks => .column id st x g ks)) := by
  intro f hf
  cases out with
  | raised e => simp [finishBlock, raisedResult] at hf
  | aborted page s => simp [finishBlock, noneResult] at hf
  | stopped resume s =>
    simp only [finishBlock] at hf ⊢
    obtain ⟨⟨g, rfl⟩, hr⟩ := finishContainer_frag _ _ _ _ _ _ _ _ _ _ _ _ _ _ _ _ _ _ hf
    rw [hr, forgetIfFixed_none _ _ _ _ hh]
    refine ⟨rfl, ?_⟩
    obtain ⟨m, hsome, hidx, hlines, hpos⟩ := hout
    cases resume with
    | none => simp at hsome
    | some ρ =>
      simp only [colLines, colPos]
      constructor
      · simp only [fragLines]
        rw [hidx, ← Nat.add_assoc, linesFromKids_drop kids (a + skipIdxOf σ) m, hlines]
        have := linesFromKids_drop kids (a + skipIdxOf σ) 0 (subSkipOf σ)
        simpa using this.symm
      · rw [hidx, ← Nat.add_assoc, posKids_drop kids (a + skipIdxOf σ) m]
        have := posKids_drop kids (a + skipIdxOf σ) 0 (subSkipOf σ)
        simp only [Nat.add_zero] at this
        rw [this]
        omega
  | finished s =>
    simp only [finishBlock] at hf ⊢
    obtain ⟨⟨g, rfl⟩, hr⟩ := finishContainer_frag _ _ _ _ _ _ _ _ _ _ _ _ _ _ _ _ _ _ hf
    rw [hr]
    refine ⟨rfl, ?_⟩
    simp only [fragLines, colLines]
    rw [fullFrom_lines _ _ _ _ hout]
    have := linesFromKids_drop kids (a + skipIdxOf σ) 0 (subSkipOf σ)
    simpa using this.symm

/-! ### heights of the columns are adjusted afterwards: lines unchanged -/

@[simp] theorem fragLines_withGeo (f : CFrag) (g : Geo) : fragLines (f.withGeo g) = fragLines f := by
  cases f <;> simp [CFrag.withGeo, fragLines]
@[simp] theorem isColumn_withGeo (f : CFrag) (g : Geo) : (f.withGeo g).isColumn = f.isColumn := by
  cases f <;> rfl
@[simp] theorem fragLines_setColHeight (h : Rat) (f : CFrag) : fragLines (setColHeight h f) = fragLines f := by
  simp [setColHeight]
@[simp] theorem isColumn_setColHeight (h : Rat) (f : CFrag) : (setColHeight h f).isColumn = f.isColumn := by
  simp [setColHeight]

theorem fragLinesList_map_setColHeight (h : Rat) (l : List CFrag) :
    fragLinesList (l.map (setColHeight h)) = fragLinesList l := by
  induction l with
  | nil => rfl
  | cons f fs ih => simp [fragLinesList, ih]

theorem allColumns_map_setColHeight (h : Rat) (l : List CFrag) (hl : allColumns l) :
    allColumns (l.map (setColHeight h)) := by
  induction l with
  | nil => trivial
  | cons f fs ih =>
    simp only [allColumns] at hl
    simp only [List.map_cons, allColumns, isColumn_setColHeight]
    exact ⟨hl.1, ih hl.2⟩

theorem addTrailing_spec (diff : Rat) (l : List CFrag) :
    fragLinesList (addTrailing diff l).1 = fragLinesList l ∧ (allColumns l → allColumns (addTrailing diff l).1) ∧
    ((addTrailing diff l).1 = [] ↔ l = []) := by
  induction l with
  | nil => simp [addTrailing, fragLinesList]
  | cons f fs ih =>
    simp only [addTrailing]
    split
    · simp only [fragLinesList, fragLines_setColHeight, ih.1, allColumns, isColumn_setColHeight]
      refine ⟨trivial, ?_, by simp⟩
      intro h; exact ⟨h.1, ih.2.1 h.2⟩
    · simp only [fragLinesList, ih.1, allColumns]
      refine ⟨trivial, ?_, by simp⟩
      intro h; exact ⟨h.1, ih.2.1 h.2⟩

theorem allColumns_append (a b : List CFrag) (ha : allColumns a) (hb : allColumns b) : allColumns (a ++ b) := by
  induction a with
  | nil => simpa using hb
  | cons f fs ih =>
    simp only [allColumns] at ha
    simp only [List.cons_append, allColumns]
    exact ⟨ha.1, ih ha.2⟩

/-! ### without spanning children there is one group -/

theorem normFlags_noSpan : (n : Nat) → (flags : List Bool) → NoSpanFlags flags →
    normFlags flags n = List.replicate n false
  | 0, _, _ => by simp [normFlags]
  | n + 1, flags, h => by
    have htail : NoSpanFlags flags.tail := by
      intro f hf; exact h f (List.mem_of_mem_tail hf)
    simp only [normFlags, normFlags_noSpan n flags.tail htail, List.replicate_succ, List.cons.injEq, and_true]
    cases flags with
    | nil => rfl
    | cons f fs => exact h f (by simp)

theorem noSpanFlags_replicate (n : Nat) : NoSpanFlags (List.replicate n false) := by
  intro f hf; exact (List.mem_replicate.mp hf).2

theorem colItemsGo_false : (m i a len : Nat) →
    colItemsGo (List.replicate m false) i (some (a, len)) = [.group a (len + m)]
  | 0, _, _, _ => by simp [colItemsGo]
  | m + 1, i, a, len => by
    simp only [List.replicate_succ, colItemsGo]
    rw [colItemsGo_false m (i + 1) a (len + 1)]
    congr 2; omega

theorem colItems_noSpan (flags : List Bool) (h : NoSpanFlags flags) (n k : Nat) :
    colItems flags n k = if n ≤ k then [] else [.group k (n - k)] := by
  unfold colItems
  rw [normFlags_noSpan n flags h, List.drop_replicate]
  by_cases hk : n ≤ k
  · have : n - k = 0 := by omega
    simp [hk, this, colItemsGo]
  · simp only [hk, if_false]
    obtain ⟨m, hm⟩ : ∃ m, n - k = m + 1 := ⟨n - k - 1, by omega⟩
    rw [hm, List.replicate_succ, colItemsGo, colItemsGo_false]
    congr 2; omega

/-! ### the chain of columns of one group -/

/-- What the loop producing the real columns returns. -/
def RealPost (kids : List ColBox) (a : Nat) (σ0 : Option Resume) (bp0 : Bool) (r : RealOut) : Prop :=
  r.err = none →
  (r.columns = [] ∧ r.breakPage = true) ∨
  (r.breakPage = bp0 ∧ r.columns ≠ [] ∧ allColumns r.columns ∧
    match r.colSkip with
    | none => fragLinesList r.columns = colLines kids a σ0
    | some ρ => fragLinesList r.columns ++ colLines kids a (some ρ) = colLines kids a σ0 ∧
        colPos kids a σ0 < colPos kids a (some ρ))

theorem realLoop_spec (env : ColEnv) (kids : List ColBox) (a : Nat)
    (hcol : ∀ c' x y bs σ pie, ColPost kids a σ (env.layCol c' a x y bs σ pie))
    (c : CCtx) (y : Rat) (cs : ColSpec) (opie hd : Bool) (obs : Rat) (σ0 : Option Resume) (bp0 : Bool) :
    ∀ (fuel i : Nat) (s : RealOut),
      allColumns s.columns → fragLinesList s.columns ++ colLines kids a s.skip = colLines kids a σ0 →
      colPos kids a σ0 ≤ colPos kids a s.skip → (s.columns ≠ [] → colPos kids a σ0 < colPos kids a s.skip) →
      s.breakPage = bp0 →
      RealPost kids a σ0 bp0 (realLoop env c a y cs opie hd obs fuel i s) := by
  intro fuel
  induction fuel with
  | zero => intro i s _ _ _ _ _; simp [realLoop, RealPost]
  | succ fuel ih =>
    intro i s hall hlines hle hlt hbp
    unfold realLoop
    dsimp only
    have hpost := hcol c (colX cs i) y s.bs s.skip opie
    split
    · intro h; simp at h
    · split
      · intro _; left; exact ⟨rfl, rfl⟩
      · rename_i f hf
        obtain ⟨hfc, hres⟩ := hpost f hf
        have hall' : allColumns (s.columns ++ [f]) := allColumns_append _ _ hall ⟨hfc, trivial⟩
        have hne : s.columns ++ [f] ≠ [] := by simp
        cases hr : (env.layCol c a (colX cs i) y s.bs s.skip opie).resume with
        | none =>
          rw [hr] at hres
          simp only [Option.isNone_none, if_true]
          intro _; right
          refine ⟨hbp, hne, hall', ?_⟩
          simp only [fragLinesList_append, fragLinesList, List.append_nil]
          rw [hres]; exact hlines
        | some ρ =>
          rw [hr] at hres
          simp only at hres
          simp only [Option.isNone_some, Bool.false_eq_true, if_false]
          have hl2 : fragLinesList (s.columns ++ [f]) ++ colLines kids a (some ρ) = colLines kids a σ0 := by
            simp only [fragLinesList_append, fragLinesList, List.append_nil, List.append_assoc]
            rw [hres.1]; exact hlines
          have hp2 : colPos kids a σ0 < colPos kids a (some ρ) := by have := hres.2; omega
          split
          · intro _; right
            exact ⟨hbp, hne, hall', hl2, hp2⟩
          · apply ih
            · exact hall'
            · exact hl2
            · exact Nat.le_of_lt hp2
            · intro _; exact hp2
            · exact hbp

/-- State of `columns_layout` after its only group (no spanning children). -/
def GroupPost (kids : List ColBox) (a : Nat) (σ0 : Option Resume) (s : ColsState) : Prop :=
  s.err = none →
  (s.newChildren = []) ∨
  (s.index = a ∧ s.breakPage = false ∧ s.skip = none ∧ s.newChildren ≠ [] ∧ allColumns s.newChildren ∧
    match s.colSkip with
    | none => fragLinesList s.newChildren = colLines kids a σ0
    | some ρ => fragLinesList s.newChildren ++ colLines kids a (some ρ) = colLines kids a σ0 ∧
        colPos kids a σ0 < colPos kids a (some ρ))

theorem colsLoop_group_spec (env : ColEnv) (kids : List ColBox) (a len : Nat)
    (hcol : ∀ c' x y bs σ pie, ColPost kids a σ (env.layCol c' a x y bs σ pie))
    (c : CCtx) (cs : ColSpec) (hd : Bool) (obs : Rat) (last fuel : Nat) (init : ColsState)
    (hn : init.newChildren = []) (hb : init.breakPage = false) :
    GroupPost kids a init.skip (colsLoop env c cs hd obs last fuel [.group a len] init) := by
  unfold colsLoop
  dsimp only
  split
  · intro h; simp at h
  · have hreal := realLoop_spec env kids a hcol c (init.y + collapseMargin init.adj) cs init.pie hd obs init.skip false
      fuel 0
      { columns := [], maxColH := 0, skip := init.skip, colSkip := init.colSkip,
        nextPage := (trialLoop env c a 0 (init.y + collapseMargin init.adj)
          (c.pageBottom - (init.y + collapseMargin init.adj) - obs) cs.count init.skip
          (cs.balance || decide (a < last)) init.nextPage).nextPage,
        bs := if c.pageBottom - (init.y + collapseMargin init.adj) - (trialLoop env c a 0 (init.y + collapseMargin init.adj)
          (c.pageBottom - (init.y + collapseMargin init.adj) - obs) cs.count init.skip
          (cs.balance || decide (a < last)) init.nextPage).height > init.bs
          then c.pageBottom - (init.y + collapseMargin init.adj) - (trialLoop env c a 0 (init.y + collapseMargin init.adj)
          (c.pageBottom - (init.y + collapseMargin init.adj) - obs) cs.count init.skip
          (cs.balance || decide (a < last)) init.nextPage).height else init.bs,
        breakPage := init.breakPage, err := none }
      trivial (by simp [fragLinesList]) (Nat.le_refl _) (by intro h; exact absurd rfl h) hb
    split
    · intro h; simp at h
    · rename_i herr
      have hr := hreal herr
      have hfin : ∀ (b : Bool) (s' : ColsState), (if b = true then s'
          else colsLoop env c cs hd obs last fuel [] s') = s' := by
        intro b s'; split
        · rfl
        · simp [colsLoop]
      rw [hfin]
      intro _
      rcases hr with ⟨hc, _⟩ | ⟨hbp, hne, hall, hm⟩
      · left; simp [hn, hc]
      · right
        refine ⟨rfl, hbp, rfl, ?_, ?_, ?_⟩
        · simp [hn, hne]
        · simp only [hn, List.nil_append]; exact allColumns_map_setColHeight _ _ hall
        · simp only [hn, List.nil_append, fragLinesList_map_setColHeight]
          exact hm

theorem colLines_firstItemSkip (kids : List ColBox) (skip : Option Resume) :
    colLines kids (skipIdxOf skip) (firstItemSkip skip) = linesFromKids kids (skipIdxOf skip) (subSkipOf skip) := by
  cases skip <;> simp [colLines, firstItemSkip]

theorem colPos_firstItemSkip (kids : List ColBox) (skip : Option Resume) :
    colPos kids (skipIdxOf skip) (firstItemSkip skip) = posKids kids (skipIdxOf skip) (subSkipOf skip) := by
  cases skip <;> simp [colPos, firstItemSkip]

theorem colsFinish_post (kids : List ColBox) (id idx : Nat) (st : PStyle) (cs : ColSpec) (flags : List Bool)
    (mt y contentY : Rat) (adjL : List Rat) (skip : Option Resume) (s : ColsState) (hnk : kids.length ≠ 0)
    (hg : GroupPost kids (skipIdxOf skip) (firstItemSkip skip) s) :
    BoxPost (.columns id st cs flags kids) skip
      (colsFinish id idx st kids.length mt y contentY adjL s).frag
      (colsFinish id idx st kids.length mt y contentY adjL s).resume := by
  intro f hf
  unfold colsFinish at hf ⊢
  cases herr : s.err with
  | some e => rw [herr] at hf; simp [raisedResult] at hf
  | none =>
    rw [herr] at hf
    dsimp only at hf ⊢
    by_cases hne : (decide (kids.length ≠ 0) && s.newChildren.isEmpty) = true
    · rw [if_pos hne] at hf; simp at hf
    · rw [if_neg hne] at hf ⊢
      cases hnp : s.nextPage with
      | none => rw [hnp] at hf; simp [raisedResult] at hf
      | some np =>
        rw [hnp] at hf
        simp only [Option.some.injEq] at hf
        subst hf
        dsimp only
        rcases hg herr with hnil | ⟨hidx, hbp, hsk, hne', hall, hm⟩
        · rw [hnil] at hne; simp [hnk] at hne
        · obtain ⟨hl1, hl2, _⟩ := addTrailing_spec (colsHeight st (s.y + collapseMargin s.adj - contentY)).2
            s.newChildren
          unfold colsResume
          cases hcs : s.colSkip with
          | none =>
            rw [hcs] at hm
            simp only [Option.isSome_none, Bool.false_eq_true, if_false, hbp, hsk]
            simp only [Full]
            refine ⟨hl2 hall, ?_⟩
            rw [hl1, hm, colLines_firstItemSkip]
          | some ρ =>
            rw [hcs] at hm
            simp only [Option.isSome_some, if_true]
            constructor
            · simp only [fragLines, linesFrom, skipIdxOf_node, subSkipOf_node]
              rw [hl1, hidx]
              have := hm.1
              rw [colLines_firstItemSkip] at this
              exact this
            · simp only [pos, skipIdxOf_node, subSkipOf_node]
              rw [hidx]
              have := hm.2
              rw [colPos_firstItemSkip] at this
              exact this

theorem columnsLayout_post (env : ColEnv) (kids : List ColBox)
    (hcol : ∀ a c' x y bs σ pie, ColPost kids a σ (env.layCol c' a x y bs σ pie))
    (c : CCtx) (id idx : Nat) (st : PStyle) (cs : ColSpec) (flags : List Bool) (hfl : NoSpanFlags flags)
    (fuel : Nat) (mt y0 bs0 : Rat) (skip : Option Resume) (pie : Bool) (adjL : List Rat) :
    BoxPost (.columns id st cs flags kids) skip
      (columnsLayout env c id idx st cs flags kids.length fuel mt y0 bs0 skip pie adjL).frag
      (columnsLayout env c id idx st cs flags kids.length fuel mt y0 bs0 skip pie adjL).resume := by
  unfold columnsLayout
  split
  · intro f hf; simp [raisedResult] at hf
  · dsimp only
    rw [colItems_noSpan flags hfl]
    by_cases hk : kids.length ≤ skipIdxOf skip
    · -- nothing left to lay out
      rw [if_pos hk]
      simp only [colsLoop]
      by_cases hn : kids.length = 0
      · have hkids : kids = [] := List.length_eq_zero_iff.mp hn
        subst hkids
        intro f hf
        simp only [colsFinish, colsInit, List.length_nil, if_true, ne_eq, not_true_eq_false, Bool.false_and,
          decide_false, Bool.false_eq_true, if_false, addTrailing, Option.some.injEq] at hf ⊢
        subst hf
        simp [colsResume, Full, allColumns, fragLinesList, linesFromKids]
      · intro f hf
        simp [colsFinish, colsInit, hn] at hf
    · rw [if_neg hk]
      have hnk : kids.length ≠ 0 := by omega
      apply colsFinish_post kids id idx st cs flags _ _ _ adjL skip _ hnk
      have hinit : ∀ cy b, (colsInit kids.length cy b skip pie).skip = firstItemSkip skip := by
        intro cy b; simp [colsInit, hnk]
      rw [← hinit]
      exact colsLoop_group_spec env kids (skipIdxOf skip) (kids.length - skipIdxOf skip) (hcol _) _ cs _ bs0 _ fuel _
        rfl rfl

theorem columnsBoxLayout_post (env : ColEnv) (kids : List ColBox)
    (hcol : ∀ a c' x y bs σ pie, ColPost kids a σ (env.layCol c' a x y bs σ pie))
    (c : CCtx) (id idx : Nat) (st : PStyle) (cs : ColSpec) (flags : List Bool) (hfl : NoSpanFlags flags)
    (fuel : Nat) (y bs : Rat) (skip : Option Resume) (cb pie : Bool) (adjL : List Rat) :
    BoxPost (.columns id st cs flags kids) skip
      (columnsBoxLayout env c id idx st cs flags kids.length fuel y bs skip cb pie adjL).frag
      (columnsBoxLayout env c id idx st cs flags kids.length fuel y bs skip cb pie adjL).resume := by
  unfold columnsBoxLayout
  dsimp only
  generalize (if (decide (c.currentPage > 1) && pie && (cb || !adjL.isEmpty) && !c.forcedBreak) = true
    then (0 : Rat) else st.mt) = mt
  have h1 := fun b => columnsLayout_post env kids hcol c id idx st cs flags hfl fuel mt y b skip pie adjL
  split
  · exact h1 bs
  · split
    · split
      · intro f hf; simp [raisedResult] at hf
      · split
        · exact h1 _
        · exact h1 bs
    · exact h1 bs

theorem noSpanFlags_tail (flags : List Bool) (h : NoSpanFlags flags) : NoSpanFlags flags.tail := by
  intro f hf; exact h f (List.mem_of_mem_tail hf)

theorem noSpanFlags_head (flags : List Bool) (h : NoSpanFlags flags) : flags.head? ≠ some true := by
  cases flags with
  | nil => simp
  | cons f fs =>
    have := h f (by simp)
    simp [this]

mutual
/-- **Segment + progress post-condition of `block_level_layout`** for the extended grammar: every box without
fixed heights (containers excepted), with `orphans, widows ≥ 1` and without spanning children; every context,
position, skip stack. -/
theorem box_spec : (box : ColBox) → Good box → ∀ (c : CCtx) (idx : Nat) (y bs : Rat) (skip : Option Resume)
    (cb pie : Bool) (adjL : List Rat),
    BoxPost box skip (layoutBox c box idx y bs skip cb pie adjL).frag
      (layoutBox c box idx y bs skip cb pie adjL).resume
  | .para id n lineH st => by
    intro hg c idx y bs skip cb pie adjL
    exact para_spec id n lineH st hg c idx y bs skip cb pie adjL
  | .block id st kids => by
    intro hg c idx y bs skip cb pie adjL
    simp only [Good] at hg
    simp only [layoutBox]
    apply finishBlock_post _ _ _ _ _ _ _ _ _ hg.1
    have := kids_spec kids hg.2 c st [] [] (skipIdxOf skip) (subSkipOf skip) 0 (skipIdxOf skip) 0
      (prepareC false c.base st y bs skip cb pie adjL).bs pie
      { newChildren := [], posY := (prepareC false c.base st y bs skip cb pie adjL).posY,
        adjL := (prepareC false c.base st y bs skip cb pie adjL).adjL,
        cur := (prepareC false c.base st y bs skip cb pie adjL).cur,
        curIsL := (prepareC false c.base st y bs skip cb pie adjL).curIsL,
        nextPage := { brk := none, page := none }, skip := subSkipOf skip }
      (by intro f hf; simp at hf) (Nat.zero_le _)
      (by simp [GoodList]) (by simp [FullFrom]) (by intro _; exact ⟨rfl, rfl⟩) (by intro h; simp; omega)
      (by simp)
    simpa using this
  | .columns id st cs flags kids => by
    intro hg c idx y bs skip cb pie adjL
    simp only [Good] at hg
    simp only [layoutBox]
    apply columnsBoxLayout_post _ kids _ c id idx st cs flags hg.1
    intro a c' x y' bs' σ pie'
    dsimp only
    apply finishColumn_post _ _ _ _ _ _ _ kids a σ rfl
    have hfl : NoSpanFlags (normFlags flags kids.length) := by
      rw [normFlags_noSpan _ _ hg.1]; exact noSpanFlags_replicate _
    have := kids_spec kids hg.2 c' (columnStyle st) (normFlags flags kids.length) [] (skipIdxOf σ) (subSkipOf σ) 0
      (a + skipIdxOf σ) a
      (prepareC true c'.base (columnStyle st) y' bs' σ false pie' []).bs pie'
      { newChildren := [], posY := (prepareC true c'.base (columnStyle st) y' bs' σ false pie' []).posY,
        adjL := (prepareC true c'.base (columnStyle st) y' bs' σ false pie' []).adjL,
        cur := (prepareC true c'.base (columnStyle st) y' bs' σ false pie' []).cur,
        curIsL := (prepareC true c'.base (columnStyle st) y' bs' σ false pie' []).curIsL,
        nextPage := { brk := none, page := none }, skip := subSkipOf σ }
      hfl (Nat.le_add_right _ _)
      (by simp [GoodList]) (by simp [FullFrom]) (by intro _; exact ⟨rfl, by omega⟩) (by intro h; simp; omega)
      (by simp)
    simpa using this
theorem kids_spec : (rest : List ColBox) → GoodList rest → ∀ (c : CCtx) (st : PStyle) (flags : List Bool)
    (B : List ColBox) (i0 : Nat)
    (sub0 : Option Resume) (index skipIdx base : Nat) (bs : Rat) (pie : Bool) (s : KidsLoop),
    NoSpanFlags flags → base ≤ skipIdx →
    GoodList B → FullFrom s.newChildren B i0 sub0 →
    (index < skipIdx → B = [] ∧ i0 = skipIdx - base) → (skipIdx ≤ index → index - base = i0 + B.length) →
    s.skip = (if B = [] then sub0 else none) →
    KidsPost (B ++ rest.drop (skipIdx - index)) i0 sub0 (layoutKids c st rest flags index skipIdx base bs pie s)
  | [] => by
    intro _ c st flags B i0 sub0 index skipIdx base bs pie s _ _ hgB hinv _ _ _
    simp only [layoutKids, List.drop_nil, List.append_nil, KidsPost]
    exact hinv
  | child :: rest => by
    intro hg c st flags B i0 sub0 index skipIdx base bs pie s hfl hbase hgB hinv hlt hge hskip
    simp only [GoodList] at hg
    unfold layoutKids
    by_cases hc : index < skipIdx
    · rw [if_pos hc]
      obtain ⟨hB, hi0⟩ := hlt hc
      have hd : (child :: rest).drop (skipIdx - index) = rest.drop (skipIdx - (index + 1)) := by
        have : skipIdx - index = (skipIdx - (index + 1)) + 1 := by omega
        rw [this, List.drop_succ_cons]
      rw [hd]
      exact kids_spec rest hg.2 c st flags.tail B i0 sub0 (index + 1) skipIdx base bs pie s
        (noSpanFlags_tail _ hfl) hbase hgB hinv
        (fun _ => ⟨hB, hi0⟩) (by intro _; subst hB; simp; omega) hskip
    · rw [if_neg hc]
      rw [if_neg (noSpanFlags_head _ hfl)]
      have hidx := hge (by omega)
      have hd : skipIdx - index = 0 := by omega
      rw [hd, List.drop_zero]
      dsimp only
      split
      · -- forced break before `child`
        rename_i hforced
        rw [hidx]
        apply stop_before_spec _ _ _ _ _ hinv
        intro he
        rw [meetBreak_nil c s child he] at hforced
        cases hforced
      · have hnext : ∀ s3 : KidsLoop, FullFrom s3.newChildren (B ++ [child]) i0 sub0 → s3.skip = none →
            KidsPost (B ++ child :: rest) i0 sub0
              (layoutKids c st rest flags.tail (index + 1) skipIdx base bs pie s3) := by
          intro s3 h3 hs3
          have := kids_spec rest hg.2 c st flags.tail (B ++ [child]) i0 sub0 (index + 1) skipIdx base bs pie s3
            (noSpanFlags_tail _ hfl) hbase
            (goodList_append _ _ hgB (by simp [GoodList, hg.1])) h3 (by intro _; omega)
            (by intro _; simp; omega) (by simp [hs3])
          have hd' : skipIdx - (index + 1) = 0 := by omega
          simpa [hd'] using this
        split
        · trivial
        · split
          · -- first pass kept (or discarded) the child
            rename_i frag posY hfp
            have hchild : BoxPost child (if B = [] then sub0 else none) frag
                (layoutBox c child (index - base) s.posY bs s.skip st.isRoot (pie && s.newChildren.isEmpty)
                  s.cur).resume := by
              rcases firstPass_keep _ _ _ _ _ _ _ hfp with h | h
              · rw [h]; exact boxPost_none _ _ _
              · rw [h, ← hskip]; exact box_spec child hg.1 _ _ _ _ _ _ _ _
            split
            · rename_i out s3 heq
              exact (conclude_spec _ _ _ _ _ _ _ _ B rest i0 sub0 hgB (by simpa using hinv) hidx hchild).1 out s3 heq
            · rename_i s3 heq
              have hcs := (conclude_spec _ _ _ _ _ _ _ _ B rest i0 sub0 hgB (by simpa using hinv) hidx hchild).2
                s3 heq
              exact hnext s3 hcs.1 hcs.2
          · -- second layout with a larger bottom space
            rename_i bs' hfp
            split
            · trivial
            · have hchild : BoxPost child (if B = [] then sub0 else none)
                  (layoutBox c child (index - base) s.posY bs' s.skip st.isRoot (pie && s.newChildren.isEmpty)
                    (s.setCur (layoutBox c child (index - base) s.posY bs s.skip st.isRoot
                      (pie && s.newChildren.isEmpty) s.cur).adjL s.curIsL).cur).frag
                  (layoutBox c child (index - base) s.posY bs' s.skip st.isRoot (pie && s.newChildren.isEmpty)
                    (s.setCur (layoutBox c child (index - base) s.posY bs s.skip st.isRoot
                      (pie && s.newChildren.isEmpty) s.cur).adjL s.curIsL).cur).resume := by
                rw [← hskip]; exact box_spec child hg.1 _ _ _ _ _ _ _ _
              split
              · rename_i out s3 heq
                exact (conclude_spec _ _ _ _ _ _ _ _ B rest i0 sub0 hgB (by simpa using hinv) hidx hchild).1 out s3
                  heq
              · rename_i s3 heq
                have hcs := (conclude_spec _ _ _ _ _ _ _ _ B rest i0 sub0 hgB (by simpa using hinv) hidx hchild).2
                  s3 heq
                exact hnext s3 hcs.1 hcs.2
end

end Wp.PMC
