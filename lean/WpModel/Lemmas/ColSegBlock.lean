/-
Port of `Lemmas/SegmentBlock.lean`: post-condition of `layoutBox` / `layoutKids` (conservation + progress) for
nested blocks, plus the new part: column boxes, the chain of columns of `columns_layout` and the container.
-/
import WpModel.Lemmas.ColSegEarlier

namespace Wp.PMC
open Wp Wp.PM

def KidsPost (all : List ColBox) (i0 : Nat) (sub0 : Option Resume) : KidsOutcome → Prop
  | .finished s' => FullFrom s'.newChildren all i0 sub0
  | .aborted _ _ => True
  | .raised _ => True
  | .stopped ρ s' => ∃ m, ρ.isSome = true ∧ skipIdxOf ρ = i0 + m ∧ m < all.length ∧
      fragLinesList s'.newChildren ++ linesFromKids all m (subSkipOf ρ) = linesFromKids all 0 sub0 ∧
      posKids all 0 sub0 < posKids all m (subSkipOf ρ)

theorem fragLinesList_append (a b : List CFrag) :
    fragLinesList (a ++ b) = fragLinesList a ++ fragLinesList b := by
  induction a with
  | nil => simp [fragLinesList]
  | cons x xs ih => simp [fragLinesList, ih]

theorem linesFromKids_append_zero (B R : List ColBox) (sub0 : Option Resume) :
    linesFromKids (B ++ R) 0 sub0 =
      linesFromKids B 0 sub0 ++ linesFromKids R 0 (if B = [] then sub0 else none) := by
  cases B with
  | nil => simp [linesFromKids]
  | cons b B => rw [linesFromKids_append_lt _ _ _ _ (by simp)]; simp

theorem posKids_append_zero (B : List ColBox) (child : ColBox) (rest : List ColBox) (sub0 : Option Resume) :
    posKids (B ++ child :: rest) 0 sub0 ≤ sizeKids B + pos child (if B = [] then sub0 else none) := by
  cases B with
  | nil => simp [posKids, sizeKids]
  | cons b B =>
    rw [posKids_append_lt _ _ _ _ (by simp)]
    have := posKids_lt (b :: B) 0 sub0 (by simp)
    omega

theorem stop_before_spec (B R : List ColBox) (i0 : Nat) (sub0 : Option Resume) (s' : KidsLoop)
    (hinv : FullFrom s'.newChildren B i0 sub0) (hne : s'.newChildren ≠ []) (hR : R ≠ []) :
    KidsPost (B ++ R) i0 sub0 (.stopped (some (.node (i0 + B.length) none)) s') := by
  have hlen := fullFrom_length _ _ _ _ hinv
  have hB : 0 < B.length := by
    rw [← hlen]; exact List.length_pos_iff.mpr hne
  have hRl : 0 < R.length := List.length_pos_iff.mpr hR
  refine ⟨B.length, rfl, rfl, by simp; omega, ?_, ?_⟩
  · rw [fullFrom_lines _ _ _ _ hinv, linesFromKids_append_lt _ _ _ _ hB]
    have := linesFromKids_append_len B R 0 none
    simp only [Nat.add_zero] at this
    simp only [subSkipOf_node]
    rw [this]
  · rw [posKids_append_lt _ _ _ _ hB]
    have := posKids_append_len B R 0 none
    simp only [Nat.add_zero] at this
    simp only [subSkipOf_node]
    rw [this]
    have := posKids_lt B 0 sub0 hB
    omega

theorem conclude_spec (c : CCtx) (index : Nat) (pie : Bool) (pb : Brk) (child : ColBox) (s : KidsLoop)
    (frag : Option CFrag) (resume : Option Resume) (B rest : List ColBox) (i0 : Nat) (sub0 : Option Resume)
    (hgB : GoodList B) (hinv : FullFrom s.newChildren B i0 sub0) (hidx : index = i0 + B.length)
    (hchild : BoxPost child (if B = [] then sub0 else none) frag resume) :
    (∀ out s3, concludeKid c index pie pb child s frag resume = (some out, s3) →
      KidsPost (B ++ child :: rest) i0 sub0 out) ∧
    (∀ s3, concludeKid c index pie pb child s frag resume = (none, s3) →
      FullFrom s3.newChildren (B ++ [child]) i0 sub0 ∧ s3.skip = s.skip) := by
  cases frag with
  | none =>
    constructor
    · intro out s3 h
      unfold concludeKid at h
      dsimp only at h
      split at h
      · -- an earlier break
        rename_i kept r' hearlier
        simp only [Prod.mk.injEq, Option.some.injEq] at h
        obtain ⟨rfl, rfl⟩ := h
        have hfound : findEarlierList c.inColumn s.newChildren = some (kept, r') := by
          split at hearlier
          · exact hearlier
          · cases hearlier
        obtain ⟨m, sub', rfl, hm, hlines, hpos⟩ :=
          findEarlierList_spec c.inColumn _ _ _ _ hgB hinv kept r' hfound
        have h0 : 0 < B.length := by omega
        refine ⟨m, rfl, rfl, by simp; omega, ?_, ?_⟩
        · simp only [subSkipOf_node]
          rw [linesFromKids_append_lt _ _ _ _ hm, linesFromKids_append_lt _ _ _ _ h0, ← List.append_assoc, hlines]
        · simp only [subSkipOf_node]
          rw [posKids_append_lt _ _ _ _ hm, posKids_append_lt _ _ _ _ h0]
          exact hpos
      · split at h
        · simp only [Prod.mk.injEq, Option.some.injEq] at h
          obtain ⟨rfl, rfl⟩ := h
          trivial
        · split at h
          · rename_i hne
            simp only [Prod.mk.injEq, Option.some.injEq] at h
            obtain ⟨rfl, rfl⟩ := h
            rw [hidx]
            apply stop_before_spec _ _ _ _ _ hinv _ (by simp)
            intro he; rw [he] at hne; simp at hne
          · simp only [Prod.mk.injEq, Option.some.injEq] at h
            obtain ⟨rfl, rfl⟩ := h
            trivial
    · intro s3 h
      unfold concludeKid at h
      dsimp only at h
      split at h
      · simp at h
      · split at h
        · simp at h
        · split at h <;> simp at h
  | some f =>
    have hc := hchild f rfl
    cases resume with
    | some r' =>
      simp only at hc
      obtain ⟨hl, hp⟩ := hc
      constructor
      · intro out s3 h
        simp only [concludeKid, Prod.mk.injEq, Option.some.injEq] at h
        obtain ⟨rfl, rfl⟩ := h
        refine ⟨B.length, rfl, by rw [hidx]; rfl, by simp, ?_, ?_⟩
        · simp only [subSkipOf_node]
          rw [fragLinesList_append, fullFrom_lines _ _ _ _ hinv, linesFromKids_append_zero]
          have := linesFromKids_append_len B (child :: rest) 0 (some r')
          simp only [Nat.add_zero] at this
          rw [this]
          simp only [fragLinesList, fragLines_withIdx, List.append_nil, linesFromKids, List.append_assoc]
          rw [← List.append_assoc (fragLines f), hl]
        · simp only [subSkipOf_node]
          have := posKids_append_len B (child :: rest) 0 (some r')
          simp only [Nat.add_zero] at this
          rw [this]
          have := posKids_append_zero B child rest sub0
          simp only [posKids]
          omega
      · intro s3 h
        simp [concludeKid] at h
    | none =>
      simp only at hc
      constructor
      · intro out s3 h
        simp [concludeKid] at h
      · intro s3 h
        simp only [concludeKid, Prod.mk.injEq, true_and] at h
        subst h
        refine ⟨?_, rfl⟩
        apply fullFrom_snoc _ _ _ _ _ _ hinv (full_withIdx _ _ _ _ hc)
        rw [idx_withIdx _ _ (full_not_column _ _ _ hc)]
        simp [hidx]

/-! ### the loop state helpers keep the children -/

@[simp] theorem setCur_newChildren' (s : KidsLoop) (l : List Rat) (b : Bool) :
    (s.setCur l b).newChildren = s.newChildren := by
  unfold KidsLoop.setCur; split <;> rfl

@[simp] theorem appendCur_newChildren' (s : KidsLoop) (m : Rat) :
    (s.appendCur m).newChildren = s.newChildren := by
  unfold KidsLoop.appendCur; split <;> rfl

@[simp] theorem adoptAdj_newChildren' (s : KidsLoop) (h : Bool) (a : AdjOut) (f : Option CFrag) :
    (s.adoptAdj h a f).newChildren = s.newChildren := by
  unfold KidsLoop.adoptAdj
  split
  · rfl
  · cases a <;> cases f <;> simp

theorem firstPass_keep (c : CCtx) (bs : Rat) (pienc : Bool) (posY : Rat) (r : LayoutResult)
    (frag : Option CFrag) (y : Rat) (h : firstPass c bs pienc posY r = .keep frag y) :
    frag = none ∨ frag = r.frag := by
  unfold firstPass at h
  split at h
  · simp only [FirstPass.keep.injEq] at h; left; exact h.1.symm
  · rename_i f hf
    split at h
    · simp only [FirstPass.keep.injEq] at h; right; rw [hf]; exact h.1.symm
    · dsimp only at h
      split at h
      · simp only [FirstPass.keep.injEq] at h; left; exact h.1.symm
      · split at h
        · cases h
        · simp only [FirstPass.keep.injEq] at h; right; rw [hf]; exact h.1.symm

theorem boxPost_none (box : ColBox) (skip resume : Option Resume) : BoxPost box skip none resume := by
  intro f h; cases h

theorem meetBreak_nil (c : CCtx) (s : KidsLoop) (child : ColBox) (h : s.newChildren = []) :
    (meetBreak c s child).2 = false := by
  unfold meetBreak; simp [h]

theorem finishBlock_post (c : CCtx) (st : PStyle) (p : Prep) (pie : Bool) (id idx : Nat) (out : KidsOutcome)
    (kids : List ColBox) (skip : Option Resume) (hh : st.height = none)
    (hout : KidsPost (kids.drop (skipIdxOf skip)) (skipIdxOf skip) (subSkipOf skip) out) :
    BoxPost (.block id st kids) skip (finishBlock false c st p pie out (fun g ks => .block id idx st g ks)).frag
      (finishBlock false c st p pie out (fun g ks => .block id idx st g ks)).resume := by
  intro f hf
  cases out with
  | raised e => simp [finishBlock, raisedResult] at hf
  | aborted page s => simp [finishBlock, noneResult] at hf
  | stopped resume s =>
    simp only [finishBlock] at hf ⊢
    obtain ⟨⟨g, rfl⟩, hr⟩ := finishContainer_frag _ _ _ _ _ _ _ _ _ _ _ _ _ _ _ _ _ _ hf
    rw [hr, forgetIfFixed_none _ _ _ _ hh]
    obtain ⟨m, hsome, hidx, _, hlines, hpos⟩ := hout
    cases resume with
    | none => simp at hsome
    | some ρ =>
      simp only
      constructor
      · simp only [fragLines, linesFrom]
        rw [hidx, linesFromKids_drop, hlines]
        have := linesFromKids_drop kids (skipIdxOf skip) 0 (subSkipOf skip)
        simpa using this.symm
      · simp only [pos]
        rw [hidx, posKids_drop]
        have := posKids_drop kids (skipIdxOf skip) 0 (subSkipOf skip)
        simp only [Nat.add_zero] at this
        rw [this]
        omega
  | finished s =>
    simp only [finishBlock] at hf ⊢
    obtain ⟨⟨g, rfl⟩, hr⟩ := finishContainer_frag _ _ _ _ _ _ _ _ _ _ _ _ _ _ _ _ _ _ hf
    rw [hr]
    simp only [Full]
    exact hout

/-! ### column boxes -/

/-- Lines / position of the children of a container from child `a + skipIdxOf σ` (resumed at `subSkipOf σ`) on:
`σ` is a skip stack of a column box whose first child is child `a` of the container. -/
def colLines (kids : List ColBox) (a : Nat) (σ : Option Resume) : List (Nat × Nat) :=
  linesFromKids kids (a + skipIdxOf σ) (subSkipOf σ)
def colPos (kids : List ColBox) (a : Nat) (σ : Option Resume) : Nat :=
  posKids kids (a + skipIdxOf σ) (subSkipOf σ)

/-- Post-condition of the layout of one column box (`kids` = the children up to the end of the group). -/
def ColPost (kids : List ColBox) (a : Nat) (σ : Option Resume) (r : LayoutResult) : Prop :=
  (r.frag = none → r.resume = none) ∧
  ∀ f, r.frag = some f → f.isColumn = true ∧ match r.resume with
    | none => fragLines f = colLines kids a σ
    | some ρ => fragLines f ++ colLines kids a (some ρ) = colLines kids a σ ∧
        colPos kids a σ < colPos kids a (some ρ) ∧ a + skipIdxOf (some ρ) < kids.length

theorem finishContainer_none (isCol : Bool) (c : CCtx) (st : PStyle) (b : BoxSt) (pie : Bool) (bs : Rat)
    (cwc dbd : Bool) (resume : Option Resume) (posY : Rat) (adjL cur : List Rat) (curIsL : Bool)
    (np : NextPage) (hasKids : Bool) (pageEnd : String) (mk : Geo → CFrag)
    (h : (finishContainer isCol c st b pie bs cwc dbd resume posY adjL cur curIsL np hasKids pageEnd mk).frag
      = none) :
    (finishContainer isCol c st b pie bs cwc dbd resume posY adjL cur curIsL np hasKids pageEnd mk).resume
      = none := by
  unfold finishContainer at h ⊢
  split
  · simp [noneResult]
  · rename_i hc; rw [if_neg hc] at h; simp at h

theorem finishColumn_post (c : CCtx) (st : PStyle) (p : Prep) (pie : Bool) (id : Nat) (x : Rat) (out : KidsOutcome)
    (kids : List ColBox) (a : Nat) (σ : Option Resume) (hh : st.height = none)
    (hout : KidsPost (kids.drop (a + skipIdxOf σ)) (skipIdxOf σ) (subSkipOf σ) out) :
    ColPost kids a σ (finishBlock true c st p pie out (fun g ks => .column id st x g ks)) := by
  constructor
  · intro hn
    cases out with
    | raised e => simp [finishBlock, raisedResult]
    | aborted page s => simp [finishBlock, noneResult]
    | stopped resume s =>
      simp only [finishBlock] at hn ⊢
      exact finishContainer_none _ _ _ _ _ _ _ _ _ _ _ _ _ _ _ _ _ hn
    | finished s =>
      simp only [finishBlock] at hn ⊢
      exact finishContainer_none _ _ _ _ _ _ _ _ _ _ _ _ _ _ _ _ _ hn
  intro f hf
  cases out with
  | raised e => simp [finishBlock, raisedResult] at hf
  | aborted page s => simp [finishBlock, noneResult] at hf
  | stopped resume s =>
    simp only [finishBlock] at hf ⊢
    obtain ⟨⟨g, rfl⟩, hr⟩ := finishContainer_frag _ _ _ _ _ _ _ _ _ _ _ _ _ _ _ _ _ _ hf
    rw [hr, forgetIfFixed_none _ _ _ _ hh]
    refine ⟨rfl, ?_⟩
    obtain ⟨m, hsome, hidx, hmlen, hlines, hpos⟩ := hout
    cases resume with
    | none => simp at hsome
    | some ρ =>
      simp only [colLines, colPos]
      refine ⟨?_, ?_, ?_⟩
      · simp only [fragLines]
        rw [hidx, ← Nat.add_assoc, linesFromKids_drop kids (a + skipIdxOf σ) m, hlines]
        have := linesFromKids_drop kids (a + skipIdxOf σ) 0 (subSkipOf σ)
        simpa using this.symm
      · rw [hidx, ← Nat.add_assoc, posKids_drop kids (a + skipIdxOf σ) m]
        have := posKids_drop kids (a + skipIdxOf σ) 0 (subSkipOf σ)
        simp only [Nat.add_zero] at this
        rw [this]
        omega
      · rw [hidx]
        simp only [List.length_drop] at hmlen
        omega
  | finished s =>
    simp only [finishBlock] at hf ⊢
    obtain ⟨⟨g, rfl⟩, hr⟩ := finishContainer_frag _ _ _ _ _ _ _ _ _ _ _ _ _ _ _ _ _ _ hf
    rw [hr]
    refine ⟨rfl, ?_⟩
    simp only [fragLines, colLines]
    rw [fullFrom_lines _ _ _ _ hout]
    have := linesFromKids_drop kids (a + skipIdxOf σ) 0 (subSkipOf σ)
    simpa using this.symm

/-! ### heights of the columns are adjusted afterwards: lines unchanged -/

@[simp] theorem fragLines_withGeo (f : CFrag) (g : Geo) : fragLines (f.withGeo g) = fragLines f := by
  cases f <;> simp [CFrag.withGeo, fragLines]
@[simp] theorem isColumn_withGeo (f : CFrag) (g : Geo) : (f.withGeo g).isColumn = f.isColumn := by
  cases f <;> rfl
@[simp] theorem fragLines_setColHeight (h : Rat) (f : CFrag) : fragLines (setColHeight h f) = fragLines f := by
  simp [setColHeight]
@[simp] theorem isColumn_setColHeight (h : Rat) (f : CFrag) : (setColHeight h f).isColumn = f.isColumn := by
  simp [setColHeight]

theorem fragLinesList_map_setColHeight (h : Rat) (l : List CFrag) :
    fragLinesList (l.map (setColHeight h)) = fragLinesList l := by
  induction l with
  | nil => rfl
  | cons f fs ih => simp [fragLinesList, ih]

theorem addTrailing_spec (diff : Rat) (l : List CFrag) :
    fragLinesList (addTrailing diff l).1 = fragLinesList l ∧ ((addTrailing diff l).1 = [] ↔ l = []) := by
  induction l with
  | nil => simp [addTrailing, fragLinesList]
  | cons f fs ih =>
    simp only [addTrailing]
    split
    · simp only [fragLinesList, fragLines_setColHeight, ih.1]
      exact ⟨trivial, by simp⟩
    · simp only [fragLinesList, ih.1]
      exact ⟨trivial, by simp⟩

/-! ### list arithmetic for groups and spanning children -/

theorem linesFromKids_ge : (K : List ColBox) → (m : Nat) → (s : Option Resume) → K.length ≤ m →
    linesFromKids K m s = []
  | [], _, _, _ => by simp [linesFromKids]
  | x :: xs, 0, _, h => by simp at h
  | x :: xs, m + 1, s, h => by
    simp only [linesFromKids]
    exact linesFromKids_ge xs m s (by simpa using h)

theorem linesFromKids_take (K : List ColBox) (e m : Nat) (s : Option Resume) (hm : m < e) (he : e ≤ K.length) :
    linesFromKids K m s = linesFromKids (K.take e) m s ++ linesFromKids K e none := by
  have h1 := linesFromKids_append_lt (K.take e) (K.drop e) m s (by simp; omega)
  rw [List.take_append_drop] at h1
  rw [h1]
  have h2 := linesFromKids_drop K e 0 none
  simp only [Nat.add_zero] at h2
  rw [h2]

theorem posKids_take (K : List ColBox) (e m : Nat) (s : Option Resume) (hm : m < e) (he : e ≤ K.length) :
    posKids K m s = posKids (K.take e) m s := by
  have h1 := posKids_append_lt (K.take e) (K.drop e) m s (by simp; omega)
  rw [List.take_append_drop] at h1
  exact h1

theorem posKids_at_take (K : List ColBox) (e : Nat) (s : Option Resume) :
    sizeKids (K.take e) ≤ posKids K e s := by
  have := posKids_drop K e 0 s
  simp only [Nat.add_zero] at this
  omega

theorem linesFromKids_get : (K : List ColBox) → (i : Nat) → (b : ColBox) → (sub : Option Resume) → K[i]? = some b →
    linesFromKids K i sub = linesFrom b sub ++ linesFromKids K (i + 1) none
  | [], i, b, sub, h => by simp at h
  | x :: xs, 0, b, sub, h => by
    simp only [List.getElem?_cons_zero, Option.some.injEq] at h
    subst h
    simp [linesFromKids]
  | x :: xs, i + 1, b, sub, h => by
    simp only [List.getElem?_cons_succ] at h
    simp only [linesFromKids]
    exact linesFromKids_get xs i b sub h

theorem posKids_get : (K : List ColBox) → (i : Nat) → (b : ColBox) → (sub : Option Resume) → K[i]? = some b →
    posKids K i sub = sizeKids (K.take i) + pos b sub ∧
    ∀ s', sizeKids (K.take i) + sizeBox b ≤ posKids K (i + 1) s'
  | [], i, b, sub, h => by simp at h
  | x :: xs, 0, b, sub, h => by
    simp only [List.getElem?_cons_zero, Option.some.injEq] at h
    subst h
    refine ⟨by simp [posKids, sizeKids], ?_⟩
    intro s'
    simp only [List.take_zero, sizeKids, posKids]
    omega
  | x :: xs, i + 1, b, sub, h => by
    simp only [List.getElem?_cons_succ] at h
    obtain ⟨h1, h2⟩ := posKids_get xs i b sub h
    refine ⟨by simp only [posKids, List.take_succ_cons, sizeKids]; omega, ?_⟩
    intro s'
    have := h2 s'
    simp only [posKids, List.take_succ_cons, sizeKids]
    omega

theorem goodList_get : (K : List ColBox) → (i : Nat) → (b : ColBox) → GoodList K → K[i]? = some b → Good b
  | [], i, b, _, h => by simp at h
  | x :: xs, 0, b, hg, h => by
    simp only [List.getElem?_cons_zero, Option.some.injEq] at h
    subst h
    simp only [GoodList] at hg
    exact hg.1
  | x :: xs, i + 1, b, hg, h => by
    simp only [List.getElem?_cons_succ] at h
    simp only [GoodList] at hg
    exact goodList_get xs i b hg.2 h

theorem goodList_take (K : List ColBox) (e : Nat) (h : GoodList K) : GoodList (K.take e) := by
  induction K generalizing e with
  | nil => simpa using h
  | cons b bs ih =>
    cases e with
    | zero => simp [GoodList]
    | succ e =>
      simp only [GoodList] at h
      simp only [List.take_succ_cons, GoodList]
      exact ⟨h.1, ih e h.2⟩

/-! ### the items of `columns_and_blocks` -/

theorem normFlags_length : (n : Nat) → (flags : List Bool) → (normFlags flags n).length = n
  | 0, _ => by simp [normFlags]
  | n + 1, flags => by simp [normFlags, normFlags_length n flags.tail]

/-- `its` describes the children from position `m` on: spanning children one by one, the others in maximal
groups. `F` = one flag per child, `n` = number of children. -/
def ItemsOk (F : List Bool) (n : Nat) : Nat → List ColItem → Prop
  | m, [] => n ≤ m
  | m, .span i :: rest => i = m ∧ F[m]? = some true ∧ ItemsOk F n (m + 1) rest
  | m, .group a len :: rest => a = m ∧ 0 < len ∧ m + len ≤ n ∧ (∀ t, m ≤ t → t < m + len → F[t]? ≠ some true) ∧
      (m + len < n → F[m + len]? = some true) ∧ ItemsOk F n (m + len) rest

theorem colItemsGo_ok (F : List Bool) (n : Nat) (hF : F.length = n) : (fs : List Bool) → ∀ (i : Nat)
    (pending : Option (Nat × Nat)), fs = F.drop i → i ≤ n →
    match pending with
    | none => ItemsOk F n i (colItemsGo fs i none)
    | some (a, len) => a + len = i → 0 < len → (∀ t, a ≤ t → t < i → F[t]? ≠ some true) →
        ItemsOk F n a (colItemsGo fs i (some (a, len)))
  | [], i, pending, hfs, hi => by
    have hin : n ≤ i := by
      have := congrArg List.length hfs
      simp only [List.length_nil, List.length_drop] at this
      omega
    cases pending with
    | none => simp only [colItemsGo, ItemsOk]; exact hin
    | some p =>
      obtain ⟨a, len⟩ := p
      intro h1 h2 h3
      simp only [colItemsGo, ItemsOk]
      refine ⟨trivial, h2, by omega, ?_, by omega, by omega⟩
      intro t ht1 ht2
      exact h3 t ht1 (by omega)
  | f :: fs', i, pending, hfs, hi => by
    have hlt : i < n := by
      have := congrArg List.length hfs
      simp only [List.length_cons, List.length_drop] at this
      omega
    have hfi : F[i]? = some f := by
      have : (F.drop i)[0]? = some f := by rw [← hfs]; rfl
      simpa using this
    have hfs' : fs' = F.drop (i + 1) := by
      have : (f :: fs').tail = (F.drop i).tail := by rw [hfs]
      simpa [List.tail_drop] using this
    have ih := colItemsGo_ok F n hF fs' (i + 1)
    cases f with
    | true =>
      cases pending with
      | none =>
        simp only [colItemsGo, ItemsOk]
        exact ⟨trivial, hfi, ih none hfs' (by omega)⟩
      | some p =>
        obtain ⟨a, len⟩ := p
        intro h1 h2 h3
        simp only [colItemsGo, ItemsOk]
        subst h1
        exact ⟨trivial, h2, by omega, h3, fun _ => hfi, rfl, hfi, ih none hfs' (by omega)⟩
    | false =>
      cases pending with
      | none =>
        simp only [colItemsGo]
        apply ih (some (i, 1)) hfs' (by omega) rfl (by omega)
        intro t ht1 ht2
        have : t = i := by omega
        subst this
        rw [hfi]; simp
      | some p =>
        obtain ⟨a, len⟩ := p
        intro h1 h2 h3
        simp only [colItemsGo]
        apply ih (some (a, len + 1)) hfs' (by omega) (by omega) (by omega)
        intro t ht1 ht2
        by_cases hti : t = i
        · subst hti; rw [hfi]; simp
        · exact h3 t ht1 (by omega)

theorem colItems_ok (flags : List Bool) (n skip : Nat) :
    ItemsOk (normFlags flags n) n skip (colItems flags n skip) := by
  unfold colItems
  by_cases h : skip ≤ n
  · exact colItemsGo_ok (normFlags flags n) n (normFlags_length n flags) _ skip none rfl h
  · have : (normFlags flags n).drop skip = [] := by
      apply List.drop_eq_nil_of_le
      rw [normFlags_length]; omega
    rw [this]
    simp only [colItemsGo, ItemsOk]
    omega

/-! ### the chain of columns of one group -/

/-- What the loop producing the real columns returns (`kids` = the children up to the end of the group). -/
def RealPost (kids : List ColBox) (a : Nat) (σ0 : Option Resume) (bp0 : Bool) (r : RealOut) : Prop :=
  r.err = none →
  (r.columns = [] ∧ r.breakPage = true ∧ r.colSkip = none) ∨
  (r.breakPage = bp0 ∧ r.columns ≠ [] ∧
    match r.colSkip with
    | none => fragLinesList r.columns = colLines kids a σ0
    | some ρ => fragLinesList r.columns ++ colLines kids a (some ρ) = colLines kids a σ0 ∧
        colPos kids a σ0 < colPos kids a (some ρ) ∧ a + skipIdxOf (some ρ) < kids.length)

theorem realLoop_spec (env : ColEnv) (kids : List ColBox) (a : Nat)
    (hcol : ∀ σ, a + skipIdxOf σ < kids.length → ∀ c' x y bs pie, ColPost kids a σ (env.layCol c' a x y bs σ pie))
    (c : CCtx) (y : Rat) (cs : ColSpec) (opie hd : Bool) (obs : Rat) (σ0 : Option Resume) (bp0 : Bool) :
    ∀ (fuel i : Nat) (s : RealOut),
      a + skipIdxOf s.skip < kids.length →
      fragLinesList s.columns ++ colLines kids a s.skip = colLines kids a σ0 →
      colPos kids a σ0 ≤ colPos kids a s.skip → (s.columns ≠ [] → colPos kids a σ0 < colPos kids a s.skip) →
      s.breakPage = bp0 →
      RealPost kids a σ0 bp0 (realLoop env c a y cs opie hd obs fuel i s) := by
  intro fuel
  induction fuel with
  | zero => intro i s _ _ _ _ _; simp [realLoop, RealPost]
  | succ fuel ih =>
    intro i s hk hlines hle hlt hbp
    unfold realLoop
    dsimp only
    have hpost := hcol s.skip hk c (colX cs i) y s.bs opie
    split
    · intro h; simp at h
    · split
      · rename_i hnone
        intro _; left
        exact ⟨rfl, rfl, hpost.1 hnone⟩
      · rename_i f hf
        obtain ⟨hfc, hres⟩ := hpost.2 f hf
        have hne : s.columns ++ [f] ≠ [] := by simp
        cases hr : (env.layCol c a (colX cs i) y s.bs s.skip opie).resume with
        | none =>
          rw [hr] at hres
          simp only [Option.isNone_none, if_true]
          intro _; right
          refine ⟨hbp, hne, ?_⟩
          simp only [fragLinesList_append, fragLinesList, List.append_nil]
          rw [hres]; exact hlines
        | some ρ =>
          rw [hr] at hres
          simp only at hres
          simp only [Option.isNone_some, Bool.false_eq_true, if_false]
          have hl2 : fragLinesList (s.columns ++ [f]) ++ colLines kids a (some ρ) = colLines kids a σ0 := by
            simp only [fragLinesList_append, fragLinesList, List.append_nil, List.append_assoc]
            rw [hres.1]; exact hlines
          have hp2 : colPos kids a σ0 < colPos kids a (some ρ) := by have := hres.2.1; omega
          split
          · intro _; right
            exact ⟨hbp, hne, hl2, hp2, hres.2.2⟩
          · apply ih
            · exact hres.2.2
            · exact hl2
            · exact Nat.le_of_lt hp2
            · intro _; exact hp2
            · exact hbp

/-! ### the loop over `columns_and_blocks` -/

def GroupAt (F : List Bool) (n a e : Nat) : Prop :=
  a < e ∧ e ≤ n ∧ (∀ t, a ≤ t → t < e → F[t]? ≠ some true) ∧ (e < n → F[e]? = some true)

/-- What the layout of the spanning child at position `i` guarantees. -/
def SpanPost (K : List ColBox) (i : Nat) (sk : Option Resume) (r : LayoutResult) : Prop :=
  match K[i]? with
  | none => r.err ≠ none
  | some b => BoxPost b sk r.frag r.resume

structure LoopInv (K : List ColBox) (total : List (Nat × Nat)) (P0 : Nat) (m : Nat) (s : ColsState) : Prop where
  bp : s.breakPage = false
  cs : s.colSkip = none
  sk0 : skipIdxOf s.skip = 0
  skn : s.skip = none ∨ s.newChildren = []
  lines : fragLinesList s.newChildren ++ colLines K m s.skip = total
  pos : P0 ≤ colPos K m s.skip
  spos : s.newChildren ≠ [] → P0 < colPos K m s.skip

/-- State of `columns_layout` after the loop: what the resume position it is going to compute designates. -/
def LoopPost (K : List ColBox) (total : List (Nat × Nat)) (P0 : Nat) (s : ColsState) : Prop :=
  s.err = none → s.newChildren = [] ∨
    match colsResume s with
    | none => fragLinesList s.newChildren = total
    | some R => fragLinesList s.newChildren ++ linesFromKids K (skipIdxOf (some R)) (subSkipOf (some R)) = total ∧
        P0 < posKids K (skipIdxOf (some R)) (subSkipOf (some R))

theorem colsLoop_spec (env : ColEnv) (K : List ColBox) (F : List Bool)
    (hspan : ∀ c i y bs sk pie adj, SpanPost K i sk (env.laySpan c i y bs sk pie adj))
    (hcol : ∀ a e, GroupAt F K.length a e → ∀ σ, a + skipIdxOf σ < e → ∀ c' x y bs pie,
      ColPost (K.take e) a σ (env.layCol c' a x y bs σ pie))
    (c : CCtx) (cs : ColSpec) (hd : Bool) (obs : Rat) (last fuel : Nat) (total : List (Nat × Nat)) (P0 : Nat) :
    ∀ (its : List ColItem) (m : Nat) (s : ColsState), ItemsOk F K.length m its → LoopInv K total P0 m s →
      LoopPost K total P0 (colsLoop env c cs hd obs last fuel its s) := by
  intro its
  induction its with
  | nil =>
    intro m s hok hinv
    simp only [ItemsOk] at hok
    simp only [colsLoop]
    intro _
    rcases hinv.skn with hsk | hnil
    · right
      simp only [colsResume, hinv.cs, hinv.bp, hsk, Option.isSome_none, Bool.false_eq_true, if_false]
      have hl := hinv.lines
      rw [hsk] at hl
      simp only [colLines, skipIdxOf, subSkipOf, Nat.add_zero] at hl
      rw [linesFromKids_ge K m none hok] at hl
      simpa using hl
    · left; exact hnil
  | cons it rest ih =>
    intro m s hok hinv
    cases it with
    | span i =>
      simp only [ItemsOk] at hok
      obtain ⟨rfl, hFi, hrest⟩ := hok
      unfold colsLoop
      dsimp only
      have hsp := hspan c i s.y obs (subSkipOf s.skip) s.pie s.adj
      generalize env.laySpan c i s.y obs (subSkipOf s.skip) s.pie s.adj = r at hsp ⊢
      split
      · intro h; simp at h
      · rename_i herr
        unfold SpanPost at hsp
        cases hKi : K[i]? with
        | none => rw [hKi] at hsp; exact absurd herr hsp
        | some b =>
          rw [hKi] at hsp
          simp only at hsp
          have hcl : colLines K i s.skip = linesFrom b (subSkipOf s.skip) ++ linesFromKids K (i + 1) none := by
            simp only [colLines, hinv.sk0, Nat.add_zero]
            exact linesFromKids_get K i b _ hKi
          obtain ⟨hpg1, hpg2⟩ := posKids_get K i b (subSkipOf s.skip) hKi
          have hcp : colPos K i s.skip = sizeKids (K.take i) + pos b (subSkipOf s.skip) := by
            simp only [colPos, hinv.sk0, Nat.add_zero]; exact hpg1
          split
          · -- the spanning child could not be placed
            intro _
            by_cases hnil : s.newChildren = []
            · left; exact hnil
            · right
              have hsk : s.skip = none := by
                rcases hinv.skn with h | h
                · exact h
                · exact absurd h hnil
              simp only [colsResume, hinv.cs, Option.isSome_none, Bool.false_eq_true, if_false, if_true,
                skipIdxOf, subSkipOf]
              have hl := hinv.lines
              have hp := hinv.spos hnil
              rw [hsk] at hl hp
              simp only [colLines, colPos, skipIdxOf, subSkipOf, Nat.add_zero] at hl hp
              exact ⟨hl, hp⟩
          · rename_i f hf
            have hbp := hsp f hf
            cases hres : r.resume with
            | some ρ =>
              rw [hres] at hbp
              simp only at hbp
              simp only [Option.isSome_some, if_true]
              intro _
              right
              simp only [colsResume, Option.isSome_some, if_true, skipIdxOf, subSkipOf, Nat.add_zero]
              constructor
              · rw [fragLinesList_append]
                simp only [fragLinesList, List.append_nil, List.append_assoc]
                rw [linesFromKids_get K i b (some ρ) hKi, ← List.append_assoc (fragLines f), hbp.1, ← hcl]
                exact hinv.lines
              · have := (posKids_get K i b (some ρ) hKi).1
                rw [this]
                have := hinv.pos
                omega
            | none =>
              rw [hres] at hbp
              simp only at hbp
              simp only [Option.isSome_none, Bool.false_eq_true, if_false]
              apply ih (i + 1) _ hrest
              have hfl : fragLines f = linesFrom b (subSkipOf s.skip) := full_lines _ _ _ hbp
              have hps := pos_lt_size b (subSkipOf s.skip)
              have hge := hpg2 none
              have hp0 := hinv.pos
              constructor
              · exact hinv.bp
              · exact hinv.cs
              · rfl
              · left; rfl
              · simp only [colLines, skipIdxOf, subSkipOf, Nat.add_zero]
                rw [fragLinesList_append]
                simp only [fragLinesList, List.append_nil, List.append_assoc]
                rw [hfl, ← hcl]
                exact hinv.lines
              · simp only [colPos, skipIdxOf, subSkipOf, Nat.add_zero]; omega
              · intro _; simp only [colPos, skipIdxOf, subSkipOf, Nat.add_zero]; omega
    | group a len =>
      simp only [ItemsOk] at hok
      obtain ⟨rfl, hlen, hle, hfree, hend, hrest⟩ := hok
      have hgrp : GroupAt F K.length a (a + len) := ⟨by omega, hle, hfree, hend⟩
      have hlenT : (K.take (a + len)).length = a + len := by simp; omega
      unfold colsLoop
      dsimp only
      split
      · intro h; simp at h
      · generalize htr : trialLoop env c a 0 (s.y + collapseMargin s.adj)
          (c.pageBottom - (s.y + collapseMargin s.adj) - obs) cs.count s.skip
          (cs.balance || decide (a < last)) s.nextPage = t
        have hsk0 := hinv.sk0
        have hreal := realLoop_spec env (K.take (a + len)) a
          (fun σ hσ => hcol a (a + len) hgrp σ (by rw [hlenT] at hσ; exact hσ))
          c (s.y + collapseMargin s.adj) cs s.pie hd obs s.skip false fuel 0
          { columns := [], maxColH := 0, skip := s.skip, colSkip := s.colSkip, nextPage := t.nextPage,
            bs := if c.pageBottom - (s.y + collapseMargin s.adj) - t.height > s.bs
              then c.pageBottom - (s.y + collapseMargin s.adj) - t.height else s.bs,
            breakPage := s.breakPage, err := none }
          (by rw [hlenT, hsk0]; omega) (by simp [fragLinesList]) (Nat.le_refl _)
          (by intro h; exact absurd rfl h) hinv.bp
        generalize realLoop env c a (s.y + collapseMargin s.adj) cs s.pie hd obs fuel 0
          { columns := [], maxColH := 0, skip := s.skip, colSkip := s.colSkip, nextPage := t.nextPage,
            bs := if c.pageBottom - (s.y + collapseMargin s.adj) - t.height > s.bs
              then c.pageBottom - (s.y + collapseMargin s.adj) - t.height else s.bs,
            breakPage := s.breakPage, err := none } = R at hreal ⊢
        split
        · intro h; simp at h
        · rename_i herr
          have hR := hreal herr
          -- lines and positions of the group inside the whole container
          have hclT : colLines K a s.skip = colLines (K.take (a + len)) a s.skip ++ linesFromKids K (a + len) none := by
            simp only [colLines, hsk0, Nat.add_zero]
            exact linesFromKids_take K (a + len) a _ (by omega) hle
          have hcpT : colPos K a s.skip = colPos (K.take (a + len)) a s.skip := by
            simp only [colPos, hsk0, Nat.add_zero]
            exact posKids_take K (a + len) a _ (by omega) hle
          rcases hR with ⟨hc, hbp, hcsk⟩ | ⟨hbp, hne, hm⟩
          · -- no column could be rendered: the page is broken before the group
            simp only [hbp, Bool.true_or, if_true]
            intro _
            simp only [hc, List.map_nil, List.append_nil]
            by_cases hnil : s.newChildren = []
            · left; exact hnil
            · right
              have hsk : s.skip = none := by
                rcases hinv.skn with h | h
                · exact h
                · exact absurd h hnil
              simp only [colsResume, hcsk, hbp, Option.isSome_none, Bool.false_eq_true, if_false, if_true,
                skipIdxOf, subSkipOf]
              have hl := hinv.lines
              have hp := hinv.spos hnil
              rw [hsk] at hl hp
              simp only [colLines, colPos, skipIdxOf, subSkipOf, Nat.add_zero] at hl hp
              exact ⟨hl, hp⟩
          · cases hcs : R.colSkip with
            | some ρ =>
              rw [hcs] at hm
              simp only at hm
              obtain ⟨hl, hp, hk⟩ := hm
              rw [hlenT] at hk
              simp only [Option.isSome_some, Bool.or_true, if_true]
              intro _
              right
              simp only [colsResume, Option.isSome_some, if_true, skipIdxOf_node, subSkipOf_node]
              have hk' : a + skipIdxOf (some ρ) < a + len := hk
              constructor
              · rw [fragLinesList_append, fragLinesList_map_setColHeight, List.append_assoc,
                  linesFromKids_take K (a + len) _ _ hk' hle, ← List.append_assoc (fragLinesList R.columns)]
                have : fragLinesList R.columns ++ linesFromKids (K.take (a + len)) (a + skipIdxOf (some ρ))
                    (subSkipOf (some ρ)) = colLines (K.take (a + len)) a s.skip := hl
                rw [this, ← hclT]
                exact hinv.lines
              · rw [posKids_take K (a + len) _ _ hk' hle]
                have : colPos (K.take (a + len)) a s.skip < posKids (K.take (a + len)) (a + skipIdxOf (some ρ))
                    (subSkipOf (some ρ)) := hp
                have := hinv.pos
                omega
            | none =>
              rw [hcs] at hm
              simp only at hm
              simp only [hbp, hinv.bp, Option.isSome_none, Bool.or_false, Bool.false_eq_true, if_false]
              apply ih (a + len) _ hrest
              have hp0 := hinv.pos
              have hlt := posKids_lt (K.take (a + len)) a (subSkipOf s.skip) (by rw [hlenT]; omega)
              have hge := posKids_at_take K (a + len) none
              have hcp' : colPos (K.take (a + len)) a s.skip = posKids (K.take (a + len)) a (subSkipOf s.skip) := by
                simp only [colPos, hsk0, Nat.add_zero]
              constructor
              · rfl
              · rfl
              · rfl
              · left; rfl
              · simp only [colLines, skipIdxOf, subSkipOf, Nat.add_zero]
                rw [fragLinesList_append, fragLinesList_map_setColHeight, List.append_assoc, hm, ← hclT]
                exact hinv.lines
              · simp only [colPos, skipIdxOf, subSkipOf, Nat.add_zero]; omega
              · intro _; simp only [colPos, skipIdxOf, subSkipOf, Nat.add_zero]; omega

theorem colLines_firstItemSkip (kids : List ColBox) (skip : Option Resume) :
    colLines kids (skipIdxOf skip) (firstItemSkip skip) = linesFromKids kids (skipIdxOf skip) (subSkipOf skip) := by
  cases skip <;> simp [colLines, firstItemSkip]

theorem colPos_firstItemSkip (kids : List ColBox) (skip : Option Resume) :
    colPos kids (skipIdxOf skip) (firstItemSkip skip) = posKids kids (skipIdxOf skip) (subSkipOf skip) := by
  cases skip <;> simp [colPos, firstItemSkip]

theorem colsFinish_post (kids : List ColBox) (id idx : Nat) (st : PStyle) (cs : ColSpec) (flags : List Bool)
    (mt y contentY : Rat) (adjL : List Rat) (skip : Option Resume) (s : ColsState) (hnk : kids.length ≠ 0)
    (hg : LoopPost kids (linesFromKids kids (skipIdxOf skip) (subSkipOf skip))
      (posKids kids (skipIdxOf skip) (subSkipOf skip)) s) :
    BoxPost (.columns id st cs flags kids) skip
      (colsFinish id idx st kids.length mt y contentY adjL s).frag
      (colsFinish id idx st kids.length mt y contentY adjL s).resume := by
  intro f hf
  unfold colsFinish at hf ⊢
  cases herr : s.err with
  | some e => rw [herr] at hf; simp [raisedResult] at hf
  | none =>
    rw [herr] at hf
    dsimp only at hf ⊢
    by_cases hne : (decide (kids.length ≠ 0) && s.newChildren.isEmpty) = true
    · rw [if_pos hne] at hf; simp at hf
    · rw [if_neg hne] at hf ⊢
      cases hnp : s.nextPage with
      | none => rw [hnp] at hf; simp [raisedResult] at hf
      | some np =>
        rw [hnp] at hf
        simp only [Option.some.injEq] at hf
        subst hf
        dsimp only
        rcases hg herr with hnil | hm
        · rw [hnil] at hne; simp [hnk] at hne
        · obtain ⟨hl1, _⟩ := addTrailing_spec (colsHeight st (s.y + collapseMargin s.adj - contentY)).2
            s.newChildren
          cases hcr : colsResume s with
          | none =>
            rw [hcr] at hm
            simp only at hm ⊢
            simp only [Full]
            rw [hl1, hm]
          | some R =>
            rw [hcr] at hm
            simp only at hm ⊢
            constructor
            · simp only [fragLines, linesFrom]
              rw [hl1]; exact hm.1
            · simp only [pos]
              exact hm.2

theorem colItems_ge (flags : List Bool) (n k : Nat) (h : n ≤ k) : colItems flags n k = [] := by
  unfold colItems
  have : (normFlags flags n).drop k = [] := by
    apply List.drop_eq_nil_of_le
    rw [normFlags_length]; exact h
  rw [this]
  simp [colItemsGo]

theorem columnsLayout_post (env : ColEnv) (kids : List ColBox) (flags : List Bool)
    (hspan : ∀ c i y bs sk pie adj, SpanPost kids i sk (env.laySpan c i y bs sk pie adj))
    (hcol : ∀ a e, GroupAt (normFlags flags kids.length) kids.length a e → ∀ σ, a + skipIdxOf σ < e →
      ∀ c' x y bs pie, ColPost (kids.take e) a σ (env.layCol c' a x y bs σ pie))
    (c : CCtx) (id idx : Nat) (st : PStyle) (cs : ColSpec)
    (fuel : Nat) (mt y0 bs0 : Rat) (skip : Option Resume) (pie : Bool) (adjL : List Rat) :
    BoxPost (.columns id st cs flags kids) skip
      (columnsLayout env c id idx st cs flags kids.length fuel mt y0 bs0 skip pie adjL).frag
      (columnsLayout env c id idx st cs flags kids.length fuel mt y0 bs0 skip pie adjL).resume := by
  unfold columnsLayout
  split
  · intro f hf; simp [raisedResult] at hf
  · dsimp only
    by_cases hk : kids.length ≤ skipIdxOf skip
    · -- nothing left to lay out
      rw [colItems_ge flags _ _ hk]
      simp only [colsLoop]
      by_cases hn : kids.length = 0
      · have hkids : kids = [] := List.length_eq_zero_iff.mp hn
        subst hkids
        intro f hf
        simp only [colsFinish, colsInit, List.length_nil, if_true, ne_eq, not_true_eq_false, Bool.false_and,
          decide_false, Bool.false_eq_true, if_false, addTrailing, Option.some.injEq] at hf ⊢
        subst hf
        simp [colsResume, Full, fragLinesList, linesFromKids]
      · intro f hf
        simp [colsFinish, colsInit, hn] at hf
    · have hnk : kids.length ≠ 0 := by omega
      apply colsFinish_post kids id idx st cs flags _ _ _ adjL skip _ hnk
      apply colsLoop_spec env kids (normFlags flags kids.length) hspan hcol _ cs _ bs0 _ fuel _ _ _
        (skipIdxOf skip) _ (colItems_ok flags kids.length (skipIdxOf skip))
      have hsk : ∀ cy b, (colsInit kids.length cy b skip pie).skip = firstItemSkip skip := by
        intro cy b; simp [colsInit, hnk]
      constructor
      · simp [colsInit]
      · simp [colsInit]
      · rw [hsk]; cases skip <;> simp [firstItemSkip]
      · right; simp [colsInit]
      · rw [hsk, colLines_firstItemSkip]; simp [colsInit, fragLinesList]
      · rw [hsk, colPos_firstItemSkip]; exact Nat.le_refl _
      · intro h; simp [colsInit] at h

theorem columnsBoxLayout_post (env : ColEnv) (kids : List ColBox) (flags : List Bool)
    (hspan : ∀ c i y bs sk pie adj, SpanPost kids i sk (env.laySpan c i y bs sk pie adj))
    (hcol : ∀ a e, GroupAt (normFlags flags kids.length) kids.length a e → ∀ σ, a + skipIdxOf σ < e →
      ∀ c' x y bs pie, ColPost (kids.take e) a σ (env.layCol c' a x y bs σ pie))
    (c : CCtx) (id idx : Nat) (st : PStyle) (cs : ColSpec)
    (fuel : Nat) (y bs : Rat) (skip : Option Resume) (cb pie : Bool) (adjL : List Rat) :
    BoxPost (.columns id st cs flags kids) skip
      (columnsBoxLayout env c id idx st cs flags kids.length fuel y bs skip cb pie adjL).frag
      (columnsBoxLayout env c id idx st cs flags kids.length fuel y bs skip cb pie adjL).resume := by
  unfold columnsBoxLayout
  dsimp only
  generalize (if (decide (c.currentPage > 1) && pie && (cb || !adjL.isEmpty) && !c.forcedBreak) = true
    then (0 : Rat) else st.mt) = mt
  have h1 := fun b => columnsLayout_post env kids flags hspan hcol c id idx st cs fuel mt y b skip pie adjL
  split
  · exact h1 bs
  · split
    · split
      · intro f hf; simp [raisedResult] at hf
      · split
        · exact h1 _
        · exact h1 bs
    · exact h1 bs

/-! ### the children loop stops at the next spanning child -/

/-- No spanning child among the children the loop is going to visit. -/
def FlagsFree (flags : List Bool) (index skipIdx len : Nat) : Prop :=
  ∀ t, t < len → skipIdx ≤ index + t → flags[t]? ≠ some true

theorem flagsFree_tail (flags : List Bool) (index skipIdx len : Nat) (h : FlagsFree flags index skipIdx (len + 1)) :
    FlagsFree flags.tail (index + 1) skipIdx len := by
  intro t ht hs
  have := h (t + 1) (by omega) (by omega)
  cases flags with
  | nil => simp
  | cons f fs => simpa using this

theorem flagsFree_head (flags : List Bool) (index skipIdx len : Nat) (h : FlagsFree flags index skipIdx (len + 1))
    (hs : skipIdx ≤ index) : flags.head? ≠ some true := by
  have := h 0 (by omega) (by omega)
  cases flags with
  | nil => simp
  | cons f fs => simpa using this

theorem flagsFree_nil (index skipIdx len : Nat) : FlagsFree [] index skipIdx len := by
  intro t _ _; simp

/-- The loop over the children of a column box ends at the first spanning child: it is the loop over the
children before it. -/
theorem layoutKids_take (c : CCtx) (st : PStyle) : (rest : List ColBox) → ∀ (flags : List Bool)
    (j index skipIdx base : Nat) (bs : Rat) (pie : Bool) (s : KidsLoop),
    skipIdx ≤ index + j → flags[j]? = some true →
    layoutKids c st rest flags index skipIdx base bs pie s =
      layoutKids c st (rest.take j) flags index skipIdx base bs pie s
  | [], flags, j, index, skipIdx, base, bs, pie, s, _, _ => by simp
  | child :: rest, flags, 0, index, skipIdx, base, bs, pie, s, h1, h2 => by
    have hh : flags.head? = some true := by
      cases flags with
      | nil => simp at h2
      | cons f fs => simpa using h2
    simp only [List.take_zero]
    rw [layoutKids, layoutKids]
    rw [if_neg (by omega), if_pos hh]
  | child :: rest, flags, j + 1, index, skipIdx, base, bs, pie, s, h1, h2 => by
    have h2' : flags.tail[j]? = some true := by
      cases flags with
      | nil => simp at h2
      | cons f fs => simpa using h2
    have ih := fun s' => layoutKids_take c st rest flags.tail j (index + 1) skipIdx base bs pie s' (by omega) h2'
    simp only [List.take_succ_cons]
    rw [layoutKids, layoutKids]
    simp only [ih]

/-! ### the post-condition, for every box -/

/-- Segment + progress post-condition of every `block_level_layout` call on `box`. -/
def BoxSpec (box : ColBox) : Prop :=
  ∀ (c : CCtx) (idx : Nat) (y bs : Rat) (skip : Option Resume) (cb pie : Bool) (adjL : List Rat),
    BoxPost box skip (layoutBox c box idx y bs skip cb pie adjL).frag
      (layoutBox c box idx y bs skip cb pie adjL).resume

/-- The children loop (of a block, or of a column box up to the next spanning child), given the post-condition
of every child. -/
theorem kids_spec : (rest : List ColBox) → (∀ b ∈ rest, BoxSpec b) → GoodList rest → ∀ (c : CCtx) (st : PStyle)
    (flags : List Bool) (B : List ColBox) (i0 : Nat)
    (sub0 : Option Resume) (index skipIdx base : Nat) (bs : Rat) (pie : Bool) (s : KidsLoop),
    FlagsFree flags index skipIdx rest.length → base ≤ skipIdx →
    GoodList B → FullFrom s.newChildren B i0 sub0 →
    (index < skipIdx → B = [] ∧ i0 = skipIdx - base) → (skipIdx ≤ index → index - base = i0 + B.length) →
    s.skip = (if B = [] then sub0 else none) →
    KidsPost (B ++ rest.drop (skipIdx - index)) i0 sub0 (layoutKids c st rest flags index skipIdx base bs pie s)
  | [] => by
    intro _ _ c st flags B i0 sub0 index skipIdx base bs pie s _ _ hgB hinv _ _ _
    simp only [layoutKids, List.drop_nil, List.append_nil, KidsPost]
    exact hinv
  | child :: rest => by
    intro hbox hg c st flags B i0 sub0 index skipIdx base bs pie s hfl hbase hgB hinv hlt hge hskip
    simp only [GoodList] at hg
    have hbox' : ∀ b ∈ rest, BoxSpec b := fun b hb => hbox b (List.mem_cons_of_mem _ hb)
    have hchildSpec : BoxSpec child := hbox child (by simp)
    simp only [List.length_cons] at hfl
    unfold layoutKids
    by_cases hc : index < skipIdx
    · rw [if_pos hc]
      obtain ⟨hB, hi0⟩ := hlt hc
      have hd : (child :: rest).drop (skipIdx - index) = rest.drop (skipIdx - (index + 1)) := by
        have : skipIdx - index = (skipIdx - (index + 1)) + 1 := by omega
        rw [this, List.drop_succ_cons]
      rw [hd]
      exact kids_spec rest hbox' hg.2 c st flags.tail B i0 sub0 (index + 1) skipIdx base bs pie s
        (flagsFree_tail _ _ _ _ hfl) hbase hgB hinv
        (fun _ => ⟨hB, hi0⟩) (by intro _; subst hB; simp; omega) hskip
    · rw [if_neg hc]
      rw [if_neg (flagsFree_head _ _ _ _ hfl (by omega))]
      have hidx := hge (by omega)
      have hd : skipIdx - index = 0 := by omega
      rw [hd, List.drop_zero]
      dsimp only
      split
      · -- forced break before `child`
        rename_i hforced
        rw [hidx]
        apply stop_before_spec _ _ _ _ _ hinv _ (by simp)
        intro he
        rw [meetBreak_nil c s child he] at hforced
        cases hforced
      · have hnext : ∀ s3 : KidsLoop, FullFrom s3.newChildren (B ++ [child]) i0 sub0 → s3.skip = none →
            KidsPost (B ++ child :: rest) i0 sub0
              (layoutKids c st rest flags.tail (index + 1) skipIdx base bs pie s3) := by
          intro s3 h3 hs3
          have := kids_spec rest hbox' hg.2 c st flags.tail (B ++ [child]) i0 sub0 (index + 1) skipIdx base bs pie s3
            (flagsFree_tail _ _ _ _ hfl) hbase
            (goodList_append _ _ hgB (by simp [GoodList, hg.1])) h3 (by intro _; omega)
            (by intro _; simp; omega) (by simp [hs3])
          have hd' : skipIdx - (index + 1) = 0 := by omega
          simpa [hd'] using this
        split
        · trivial
        · split
          · -- first pass kept (or discarded) the child
            rename_i frag posY hfp
            have hchild : BoxPost child (if B = [] then sub0 else none) frag
                (layoutBox c child (index - base) s.posY bs s.skip st.isRoot (pie && s.newChildren.isEmpty)
                  s.cur).resume := by
              rcases firstPass_keep _ _ _ _ _ _ _ hfp with h | h
              · rw [h]; exact boxPost_none _ _ _
              · rw [h, ← hskip]; exact hchildSpec _ _ _ _ _ _ _ _
            split
            · rename_i out s3 heq
              exact (conclude_spec _ _ _ _ _ _ _ _ B rest i0 sub0 hgB (by simpa using hinv) hidx hchild).1 out s3 heq
            · rename_i s3 heq
              have hcs := (conclude_spec _ _ _ _ _ _ _ _ B rest i0 sub0 hgB (by simpa using hinv) hidx hchild).2
                s3 heq
              exact hnext s3 hcs.1 hcs.2
          · -- second layout with a larger bottom space
            rename_i bs' hfp
            split
            · trivial
            · have hchild : BoxPost child (if B = [] then sub0 else none)
                  (layoutBox c child (index - base) s.posY bs' s.skip st.isRoot (pie && s.newChildren.isEmpty)
                    (s.setCur (layoutBox c child (index - base) s.posY bs s.skip st.isRoot
                      (pie && s.newChildren.isEmpty) s.cur).adjL s.curIsL).cur).frag
                  (layoutBox c child (index - base) s.posY bs' s.skip st.isRoot (pie && s.newChildren.isEmpty)
                    (s.setCur (layoutBox c child (index - base) s.posY bs s.skip st.isRoot
                      (pie && s.newChildren.isEmpty) s.cur).adjL s.curIsL).cur).resume := by
                rw [← hskip]; exact hchildSpec _ _ _ _ _ _ _ _
              split
              · rename_i out s3 heq
                exact (conclude_spec _ _ _ _ _ _ _ _ B rest i0 sub0 hgB (by simpa using hinv) hidx hchild).1 out s3
                  heq
              · rename_i s3 heq
                have hcs := (conclude_spec _ _ _ _ _ _ _ _ B rest i0 sub0 hgB (by simpa using hinv) hidx hchild).2
                  s3 heq
                exact hnext s3 hcs.1 hcs.2

theorem layoutNth_spec (c : CCtx) : (K : List ColBox) → (i : Nat) → ∀ (y bs : Rat) (sk : Option Resume)
    (cb pie : Bool) (adj : List Rat),
    match K[i]? with
    | none => (layoutNth c K i y bs sk cb pie adj).err ≠ none
    | some b => layoutNth c K i y bs sk cb pie adj = layoutBox c b 0 y bs sk cb pie adj
  | [], i, y, bs, sk, cb, pie, adj => by simp [layoutNth, raisedResult]
  | b :: rest, 0, y, bs, sk, cb, pie, adj => by simp [layoutNth]
  | b :: rest, i + 1, y, bs, sk, cb, pie, adj => by
    simp only [List.getElem?_cons_succ, layoutNth]
    exact layoutNth_spec c rest i y bs sk cb pie adj

mutual
/-- **Segment + progress post-condition of `block_level_layout`** for the extended grammar: every box without
fixed heights (containers excepted) and with `orphans, widows ≥ 1` — spanning children included —, every context,
position, skip stack. -/
theorem box_spec : (box : ColBox) → Good box → BoxSpec box
  | .para id n lineH st => by
    intro hg c idx y bs skip cb pie adjL
    exact para_spec id n lineH st hg c idx y bs skip cb pie adjL
  | .block id st kids => by
    intro hg c idx y bs skip cb pie adjL
    simp only [Good] at hg
    simp only [layoutBox]
    apply finishBlock_post _ _ _ _ _ _ _ _ _ hg.1
    have := kids_spec kids (boxes_spec kids hg.2) hg.2 c st [] [] (skipIdxOf skip) (subSkipOf skip) 0 (skipIdxOf skip) 0
      (prepareC false c.base st y bs skip cb pie adjL).bs pie
      { newChildren := [], posY := (prepareC false c.base st y bs skip cb pie adjL).posY,
        adjL := (prepareC false c.base st y bs skip cb pie adjL).adjL,
        cur := (prepareC false c.base st y bs skip cb pie adjL).cur,
        curIsL := (prepareC false c.base st y bs skip cb pie adjL).curIsL,
        nextPage := { brk := none, page := none }, skip := subSkipOf skip }
      (flagsFree_nil _ _ _) (Nat.zero_le _)
      (by simp [GoodList]) (by simp [FullFrom]) (by intro _; exact ⟨rfl, rfl⟩) (by intro h; simp; omega)
      (by simp)
    simpa using this
  | .columns id st cs flags kids => by
    intro hg c idx y bs skip cb pie adjL
    simp only [Good] at hg
    have hboxes := boxes_spec kids hg
    simp only [layoutBox]
    apply columnsBoxLayout_post _ kids flags _ _ c id idx st cs
    · -- spanning children
      intro c' i y' bs' sk pie' adj'
      dsimp only
      have hn := layoutNth_spec c' kids i y' bs' sk cb pie' adj'
      unfold SpanPost
      cases hKi : kids[i]? with
      | none => rw [hKi] at hn; exact hn
      | some b =>
        rw [hKi] at hn
        simp only at hn ⊢
        rw [hn]
        exact hboxes b (List.mem_of_getElem? hKi) c' 0 y' bs' sk cb pie' adj'
    · -- groups of columns
      intro a e hgrp σ hσ c' x y' bs' pie'
      obtain ⟨hae, hen, hfree, hend⟩ := hgrp
      dsimp only
      have htake : layoutKids c' (columnStyle st) kids (normFlags flags kids.length) 0 (a + skipIdxOf σ) a
            (prepareC true c'.base (columnStyle st) y' bs' σ false pie' []).bs pie'
            { newChildren := [], posY := (prepareC true c'.base (columnStyle st) y' bs' σ false pie' []).posY,
              adjL := (prepareC true c'.base (columnStyle st) y' bs' σ false pie' []).adjL,
              cur := (prepareC true c'.base (columnStyle st) y' bs' σ false pie' []).cur,
              curIsL := (prepareC true c'.base (columnStyle st) y' bs' σ false pie' []).curIsL,
              nextPage := { brk := none, page := none }, skip := subSkipOf σ } =
          layoutKids c' (columnStyle st) (kids.take e) (normFlags flags kids.length) 0 (a + skipIdxOf σ) a
            (prepareC true c'.base (columnStyle st) y' bs' σ false pie' []).bs pie'
            { newChildren := [], posY := (prepareC true c'.base (columnStyle st) y' bs' σ false pie' []).posY,
              adjL := (prepareC true c'.base (columnStyle st) y' bs' σ false pie' []).adjL,
              cur := (prepareC true c'.base (columnStyle st) y' bs' σ false pie' []).cur,
              curIsL := (prepareC true c'.base (columnStyle st) y' bs' σ false pie' []).curIsL,
              nextPage := { brk := none, page := none }, skip := subSkipOf σ } := by
        by_cases he : e < kids.length
        · exact layoutKids_take c' (columnStyle st) kids _ e 0 _ a _ pie' _ (by omega) (hend he)
        · rw [List.take_of_length_le (by omega)]
      rw [htake]
      apply finishColumn_post _ _ _ _ _ _ _ (kids.take e) a σ rfl
      have hlenT : (kids.take e).length = e := by simp; omega
      have := kids_spec (kids.take e) (fun b hb => hboxes b (List.mem_of_mem_take hb)) (goodList_take kids e hg)
        c' (columnStyle st) (normFlags flags kids.length) [] (skipIdxOf σ) (subSkipOf σ) 0
        (a + skipIdxOf σ) a
        (prepareC true c'.base (columnStyle st) y' bs' σ false pie' []).bs pie'
        { newChildren := [], posY := (prepareC true c'.base (columnStyle st) y' bs' σ false pie' []).posY,
          adjL := (prepareC true c'.base (columnStyle st) y' bs' σ false pie' []).adjL,
          cur := (prepareC true c'.base (columnStyle st) y' bs' σ false pie' []).cur,
          curIsL := (prepareC true c'.base (columnStyle st) y' bs' σ false pie' []).curIsL,
          nextPage := { brk := none, page := none }, skip := subSkipOf σ }
        (by intro t ht hs; rw [hlenT] at ht; exact hfree t (by omega) ht) (Nat.le_add_right _ _)
        (by simp [GoodList]) (by simp [FullFrom]) (by intro _; exact ⟨rfl, by omega⟩) (by intro h; simp; omega)
        (by simp)
      simpa using this
theorem boxes_spec : (kids : List ColBox) → GoodList kids → ∀ b ∈ kids, BoxSpec b
  | [] => by intro _ b hb; simp at hb
  | x :: xs => by
    intro hg b hb
    simp only [GoodList] at hg
    rcases List.mem_cons.mp hb with h | h
    · rw [h]; exact box_spec x hg.1
    · exact boxes_spec xs hg.2 b h
end

end Wp.PMC
