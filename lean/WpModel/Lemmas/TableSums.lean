/-
Helper lemmas for `Props/C10.lean`: sums of rational lists, the selection sums of
`distribute_excess_width`, pointwise order of lists.
-/
import Mathlib.Tactic.Linarith
import Mathlib.Tactic.Ring
import Mathlib.Tactic.FieldSimp
import WpModel.Model.TableWidths

namespace Wp.Table

@[simp] theorem sumR_nil : sumR [] = 0 := rfl
@[simp] theorem sumR_cons (x : Rat) (xs : List Rat) : sumR (x :: xs) = x + sumR xs := rfl

theorem sumR_append (a b : List Rat) : sumR (a ++ b) = sumR a + sumR b := by
  induction a with
  | nil => simp
  | cons x xs ih => simp [ih]; ring

theorem sumR_map_add (l : List Rat) (c : Rat) :
    sumR (l.map (· + c)) = sumR l + (l.length : Rat) * c := by
  induction l with
  | nil => simp
  | cons x xs ih => simp [ih]; ring

theorem sumR_map_const_add (l : List Rat) (c : Rat) :
    sumR (l.map (c + ·)) = sumR l + (l.length : Rat) * c := by
  induction l with
  | nil => simp
  | cons x xs ih => simp [ih]; ring

theorem sumR_nonneg (l : List Rat) (h : ∀ x ∈ l, 0 ≤ x) : 0 ≤ sumR l := by
  induction l with
  | nil => simp
  | cons x xs ih =>
    simp only [sumR_cons]
    have h1 := h x (by simp)
    have h2 := ih (fun y hy => h y (by simp [hy]))
    linarith

theorem sumR_take_succ (l : List Rat) (i : Nat) (h : i < l.length) :
    sumR (l.take (i + 1)) = sumR (l.take i) + l[i] := by
  induction l generalizing i with
  | nil => simp at h
  | cons x xs ih =>
    cases i with
    | zero => simp
    | succ j =>
      simp only [List.length_cons, Nat.add_lt_add_iff_right] at h
      simp only [List.take_succ_cons, sumR_cons, List.getElem_cons_succ]
      rw [ih j h]; ring

/-! ### pointwise order -/

/-- `a ≤ b` pointwise (same length). -/
def LeList : List Rat → List Rat → Prop
  | [], [] => True
  | x :: xs, y :: ys => x ≤ y ∧ LeList xs ys
  | _, _ => False

theorem LeList.sum_le : ∀ {a b : List Rat}, LeList a b → sumR a ≤ sumR b
  | [], [], _ => by simp
  | x :: xs, y :: ys, h => by
    have := LeList.sum_le h.2
    simp only [sumR_cons]; linarith [h.1]
  | [], _ :: _, h => by simp [LeList] at h
  | _ :: _, [], h => by simp [LeList] at h

/-- Pointwise ordered lists with equal sums are equal. -/
theorem LeList.eq_of_sum_eq : ∀ {a b : List Rat}, LeList a b → sumR a = sumR b → a = b
  | [], [], _, _ => rfl
  | x :: xs, y :: ys, h, hs => by
    have hle := LeList.sum_le h.2
    simp only [sumR_cons] at hs
    have hxy : x = y := by linarith [h.1]
    have : sumR xs = sumR ys := by linarith
    rw [hxy, LeList.eq_of_sum_eq h.2 this]
  | [], _ :: _, h, _ => by simp [LeList] at h
  | _ :: _, [], h, _ => by simp [LeList] at h

theorem LeList.refl : ∀ (a : List Rat), LeList a a
  | [] => trivial
  | _ :: xs => ⟨le_refl _, LeList.refl xs⟩

theorem LeList.trans : ∀ {a b c : List Rat}, LeList a b → LeList b c → LeList a c
  | [], [], [], _, _ => trivial
  | _ :: _, _ :: _, _ :: _, h1, h2 => ⟨le_trans h1.1 h2.1, LeList.trans h1.2 h2.2⟩
  | [], [], _ :: _, _, h2 => by simp [LeList] at h2
  | [], _ :: _, _, h1, _ => by simp [LeList] at h1
  | _ :: _, [], _, h1, _ => by simp [LeList] at h1
  | _ :: _, _ :: _, [], _, h2 => by simp [LeList] at h2

/-- Two maps of the same list are pointwise ordered when the functions are. -/
theorem LeList.map {α} (l : List α) (f g : α → Rat) (h : ∀ x ∈ l, f x ≤ g x) :
    LeList (l.map f) (l.map g) := by
  induction l with
  | nil => trivial
  | cons x xs ih =>
    exact ⟨h x (by simp), ih (fun y hy => h y (by simp [hy]))⟩

/-! ### selection sums -/

theorem selSum_mul (sel : Sel) (f : ACol → Rat) (r : Rat) (i : Nat) (cols : List ACol) :
    selSum sel (fun c => f c * r) i cols = selSum sel f i cols * r := by
  induction cols generalizing i with
  | nil => simp [selSum]
  | cons c cs ih =>
    simp only [selSum, ih]
    split <;> ring

theorem selSum_const (sel : Sel) (v : Rat) (i : Nat) (cols : List ACol) :
    selSum sel (fun _ => v) i cols = (selCount sel i cols : Rat) * v := by
  induction cols generalizing i with
  | nil => simp [selSum, selCount]
  | cons c cs ih =>
    simp only [selSum, selCount, ih]
    split <;> push_cast <;> ring

theorem selSum_pos (sel : Sel) (f : ACol → Rat) (i : Nat) (cols : List ACol)
    (hpos : ∀ j c, sel j c = true → 0 < f c) (hne : selCount sel i cols ≠ 0) :
    0 < selSum sel f i cols := by
  induction cols generalizing i with
  | nil => simp [selCount] at hne
  | cons c cs ih =>
    simp only [selSum]
    have hnn : 0 ≤ selSum sel f (i + 1) cs := by
      by_cases h0 : selCount sel (i + 1) cs = 0
      · clear ih
        have : selSum sel f (i + 1) cs = 0 := by
          clear hne
          generalize i + 1 = k at h0
          induction cs generalizing k with
          | nil => simp [selSum]
          | cons d ds ih2 =>
            simp only [selCount] at h0
            simp only [selSum]
            by_cases hd : sel k d = true
            · simp [hd] at h0
            · simp only [hd]
              have := ih2 (k + 1) (by simpa [hd] using h0)
              simp [this]
        rw [this]
      · exact le_of_lt (ih (i + 1) h0)
    by_cases hc : sel i c = true
    · simp only [hc, if_true]
      have := hpos i c hc
      linarith
    · simp only [hc]
      simp only [selCount, hc] at hne
      have h0 : selCount sel (i + 1) cs ≠ 0 := by simpa using hne
      have := ih (i + 1) h0
      simp; exact this

/-- `addSel` changes the total by the selected amounts (lists of equal length). -/
theorem sumR_addSel (sel : Sel) (f : ACol → Rat) (i : Nat) (cols : List ACol) (cw : List Rat)
    (hlen : cw.length = cols.length) :
    sumR (addSel sel f i cols cw) = sumR cw + selSum sel f i cols := by
  induction cols generalizing i cw with
  | nil =>
    cases cw with
    | nil => simp [addSel, selSum]
    | cons _ _ => simp at hlen
  | cons c cs ih =>
    cases cw with
    | nil => simp at hlen
    | cons w ws =>
      simp only [List.length_cons, Nat.add_right_cancel_iff] at hlen
      simp only [addSel, selSum, sumR_cons, ih (i + 1) ws hlen]
      split <;> ring

theorem length_addSel (sel : Sel) (f : ACol → Rat) (i : Nat) (cols : List ACol) (cw : List Rat)
    (hlen : cw.length = cols.length) : (addSel sel f i cols cw).length = cw.length := by
  induction cols generalizing i cw with
  | nil => simp [addSel]
  | cons c cs ih =>
    cases cw with
    | nil => simp at hlen
    | cons w ws =>
      simp only [List.length_cons, Nat.add_right_cancel_iff] at hlen
      simp [addSel, ih (i + 1) ws hlen]

/-- Entries not selected are untouched; selected ones get their amount. -/
theorem getElem_addSel (sel : Sel) (f : ACol → Rat) (i : Nat) (cols : List ACol) (cw : List Rat)
    (j : Nat) (hj : j < cols.length) (hlen : cw.length = cols.length) :
    (addSel sel f i cols cw)[j]? =
      some (if sel (i + j) cols[j] then cw[j]'(hlen ▸ hj) + f cols[j] else cw[j]'(hlen ▸ hj)) := by
  induction cols generalizing i cw j with
  | nil => simp at hj
  | cons c cs ih =>
    cases cw with
    | nil => simp at hlen
    | cons w ws =>
      simp only [List.length_cons, Nat.add_right_cancel_iff] at hlen
      cases j with
      | zero => simp [addSel]
      | succ k =>
        simp only [List.length_cons, Nat.add_lt_add_iff_right] at hj
        simp only [addSel, List.getElem?_cons_succ, List.getElem_cons_succ]
        rw [ih (i + 1) ws k hj hlen]
        have : i + 1 + k = i + (k + 1) := by omega
        rw [this]

end Wp.Table
