/-
Lemmas about resource dictionaries (Model/PdfStream `Res`): generated keys are fresh, keys are never removed, every
name an emitted operator uses is a key of the dictionary of the emitting stream.  Core Lean only.
-/
import WpModel.Model.PdfStream
namespace Wp.Pdf

/-- Positional invariant of the generated keys: `s{n}` was inserted when the dictionary had `n` entries, so it sits at
index `n` (nothing is ever removed); same for `x{n}`. -/
structure Res.WF (r : Res) : Prop where
  sPos : ∀ i k d, r.extG[i]? = some (k, d) → ∀ n, k = GKey.s n → n = i
  xPos : ∀ i k v, r.xobj[i]? = some (k, v) → ∀ n, k = XKey.x n → n = i
  gNodup : (r.extG.map (·.1)).Nodup
  xNodup : (r.xobj.map (·.1)).Nodup

theorem hasG_iff (r : Res) (k : GKey) : r.hasG k = true ↔ k ∈ r.extG.map (·.1) := by
  simp [Res.hasG, List.any_eq_true]

theorem hasX_iff (r : Res) (k : XKey) : r.hasX k = true ↔ k ∈ r.xobj.map (·.1) := by
  simp [Res.hasX, List.any_eq_true]

/-- **Freshness**: the key `set_state` is about to use is not in the dictionary. -/
theorem fresh_s (r : Res) (h : r.WF) : r.hasG (.s r.extG.length) = false := by
  cases hc : r.hasG (.s r.extG.length) with
  | false => rfl
  | true =>
    rw [hasG_iff] at hc
    obtain ⟨⟨k, d⟩, hm, hk⟩ := List.mem_map.mp hc
    obtain ⟨i, hi, hget⟩ := List.getElem_of_mem hm
    have := h.sPos i k d (by rw [List.getElem?_eq_getElem hi, hget]) r.extG.length hk
    omega

theorem fresh_x (r : Res) (h : r.WF) : r.hasX (.x r.xobj.length) = false := by
  cases hc : r.hasX (.x r.xobj.length) with
  | false => rfl
  | true =>
    rw [hasX_iff] at hc
    obtain ⟨⟨k, d⟩, hm, hk⟩ := List.mem_map.mp hc
    obtain ⟨i, hi, hget⟩ := List.getElem_of_mem hm
    have := h.xPos i k d (by rw [List.getElem?_eq_getElem hi, hget]) r.xobj.length hk
    omega

theorem wf_empty : ({} : Res).WF := ⟨by simp, by simp, by simp, by simp⟩


theorem getElem?_append_singleton {α} (l : List α) (x : α) (i : Nat) (y : α)
    (h : (l ++ [x])[i]? = some y) : l[i]? = some y ∨ (i = l.length ∧ y = x) := by
  by_cases hi : i < l.length
  · left; rwa [List.getElem?_append_left hi] at h
  · right
    rw [List.getElem?_append_right (by omega)] at h
    have : i - l.length = 0 := by
      cases hd : i - l.length with
      | zero => rfl
      | succ n => rw [hd] at h; simp at h
    rw [this] at h
    simp at h
    exact ⟨by omega, h.symm⟩

/-- Adding a key that is absent, which is either an alpha key or the next `s{len}` key, keeps the invariant. -/
theorem Res.WF.addG {r : Res} (h : r.WF) (k : GKey) (d : ExtG) (habs : r.hasG k = false)
    (hk : ∀ n, k = .s n → n = r.extG.length) : (r.addG k d).WF := by
  refine ⟨?_, h.xPos, ?_, h.xNodup⟩
  · intro i k' d' hget n hn
    rcases getElem?_append_singleton _ _ _ _ hget with h1 | ⟨h1, h2⟩
    · exact h.sPos i k' d' h1 n hn
    · have : k' = k := by simpa using congrArg Prod.fst h2
      subst this; rw [h1]; exact hk n hn
  · simp only [Res.addG, List.map_append, List.map_cons, List.map_nil]
    rw [List.nodup_append]
    refine ⟨h.gNodup, by simp, ?_⟩
    intro a ha b hb
    simp at hb; subst hb
    intro heq; subst heq
    have := (hasG_iff r a).mpr ha
    rw [habs] at this; cases this

theorem Res.WF.ensureG_alpha {r : Res} (h : r.WF) (k : GKey) (d : ExtG) (hk : ∀ n, k ≠ .s n) : (r.ensureG k d).WF := by
  unfold Res.ensureG
  split
  · exact h
  · rename_i hn
    exact h.addG k d (by simpa using hn) (fun n hn => absurd hn (hk n))

theorem Res.WF.addX {r : Res} (h : r.WF) (k : XKey) (v : Option Nat) (habs : r.hasX k = false)
    (hk : ∀ n, k = .x n → n = r.xobj.length) : ({ r with xobj := r.xobj ++ [(k, v)] } : Res).WF := by
  refine ⟨h.sPos, ?_, h.gNodup, ?_⟩
  · intro i k' v' hget n hn
    rcases getElem?_append_singleton _ _ _ _ hget with h1 | ⟨h1, h2⟩
    · exact h.xPos i k' v' h1 n hn
    · have : k' = k := by simpa using congrArg Prod.fst h2
      subst this; rw [h1]; exact hk n hn
  · simp only [List.map_append, List.map_cons, List.map_nil]
    rw [List.nodup_append]
    refine ⟨h.xNodup, by simp, ?_⟩
    intro a ha b hb
    simp at hb; subst hb
    intro heq; subst heq
    have := (hasX_iff r a).mpr ha
    rw [habs] at this; cases this


/-! ### Every name used is defined -/

/-- The operator only names keys of `r` (the dictionary of the stream that emits it). -/
def opRefOK (r : Res) : Op → Prop
  | .gs k _ => r.hasG k = true
  | .Do k => r.hasX k = true
  | .sh n => n < r.shading
  | .scn _ (some p) _ => p < r.pattern.length
  | _ => True

/-- Nothing is ever removed from a resource dictionary. -/
structure Res.le (a b : Res) : Prop where
  g : ∀ k, a.hasG k = true → b.hasG k = true
  x : ∀ k, a.hasX k = true → b.hasX k = true
  sh : a.shading ≤ b.shading
  pat : a.pattern.length ≤ b.pattern.length

theorem Res.le.refl (r : Res) : r.le r := ⟨fun _ h => h, fun _ h => h, Nat.le_refl _, Nat.le_refl _⟩

theorem Res.le.trans {a b c : Res} (h1 : a.le b) (h2 : b.le c) : a.le c :=
  ⟨fun k h => h2.g k (h1.g k h), fun k h => h2.x k (h1.x k h), Nat.le_trans h1.sh h2.sh, Nat.le_trans h1.pat h2.pat⟩

theorem opRefOK.mono {a b : Res} (h : a.le b) (o : Op) (ho : opRefOK a o) : opRefOK b o := by
  cases o <;> simp only [opRefOK] at ho ⊢
  case gs k d => exact h.g k ho
  case Do k => exact h.x k ho
  case sh n => exact Nat.lt_of_lt_of_le ho h.sh
  case scn ops pat st =>
    cases pat with
    | none => trivial
    | some p => exact Nat.lt_of_lt_of_le ho h.pat

theorem addG_le (r : Res) (k : GKey) (d : ExtG) : r.le (r.addG k d) := by
  refine ⟨?_, fun _ h => h, Nat.le_refl _, Nat.le_refl _⟩
  intro k' h
  rw [hasG_iff] at h ⊢
  simp only [Res.addG, List.map_append, List.mem_append]
  exact Or.inl h

theorem addG_has (r : Res) (k : GKey) (d : ExtG) : (r.addG k d).hasG k = true := by
  rw [hasG_iff]; simp [Res.addG]

theorem ensureG_le (r : Res) (k : GKey) (d : ExtG) : r.le (r.ensureG k d) := by
  unfold Res.ensureG; split
  · exact Res.le.refl r
  · exact addG_le r k d

theorem ensureG_has (r : Res) (k : GKey) (d : ExtG) : (r.ensureG k d).hasG k = true := by
  unfold Res.ensureG; split
  · assumption
  · exact addG_has r k d

/-- All operators of the stream name keys of `r`. -/
def Good (r : Res) (s : SState) : Prop := ∀ o ∈ s.rops, opRefOK r o

theorem Good.mono {a b : Res} {s : SState} (hg : Good a s) (h : a.le b) : Good b s :=
  fun o ho => opRefOK.mono h o (hg o ho)

theorem Good.emit {r : Res} {s : SState} (hg : Good r s) (o : Op) (ho : opRefOK r o) : Good r (s.emit o) := by
  intro x hx
  simp only [SState.emit, List.mem_cons] at hx
  rcases hx with rfl | hx
  · exact ho
  · exact hg x hx

theorem Good.emitAll {r : Res} {s : SState} (hg : Good r s) (os : List Op) (ho : ∀ o ∈ os, opRefOK r o) :
    Good r (s.emitAll os) := by
  induction os generalizing s with
  | nil => exact hg
  | cons o os ih =>
    exact ih (hg.emit o (ho o List.mem_cons_self)) (fun x hx => ho x (List.mem_cons_of_mem _ hx))

theorem Good.of_rops {r : Res} {s s' : SState} (hg : Good r s) (h : ∀ o ∈ s'.rops, o ∈ s.rops) : Good r s' :=
  fun o ho => hg o (h o ho)

/-- The names a caller passes must be registered in the dictionary of the stream it calls
(`draw_x_object(group.id)` after `add_group` on the same stream, `paint_shading(shading.id)`, pattern ids). -/
def Call.scoped (r : Res) : Call → Prop
  | .drawX k => r.hasX k = true
  | .paintShading n => n < r.shading
  | .setColorSpecial (some p) _ _ => p < r.pattern.length
  | _ => True

/-- Result of one stream-level step: dictionary only grows, stays well formed, all names defined. -/
structure StepOK (r : Res) (s : SState) (r' : Res) (s' : SState) : Prop where
  le : r.le r'
  wf : r.WF → r'.WF
  good : Good r s → Good r' s'

theorem StepOK.same (r : Res) (s s' : SState) (h : ∀ o ∈ s'.rops, o ∈ s.rops) : StepOK r s r s' :=
  ⟨Res.le.refl r, id, fun hg => hg.of_rops h⟩

theorem StepOK.emit (r : Res) (s : SState) (o : Op) (ho : opRefOK r o) : StepOK r s r (s.emit o) :=
  ⟨Res.le.refl r, id, fun hg => hg.emit o ho⟩

theorem StepOK.emit_of (r : Res) (s s0 : SState) (o : Op) (hr : s0.rops = s.rops) (ho : opRefOK r o) :
    StepOK r s r (s0.emit o) :=
  ⟨Res.le.refl r, id, fun hg => Good.emit (s := s0) (fun x hx => hg x (hr ▸ hx)) o ho⟩

theorem StepOK.trans {r1 r2 r3 : Res} {s1 s2 s3 : SState} (h1 : StepOK r1 s1 r2 s2) (h2 : StepOK r2 s2 r3 s3) :
    StepOK r1 s1 r3 s3 :=
  ⟨h1.le.trans h2.le, fun w => h2.wf (h1.wf w), fun g => h2.good (h1.good g)⟩

theorem setAlphaStroke_ok (r : Res) (s : SState) (α : Num) :
    StepOK r s (setAlphaStroke r s α).2 (setAlphaStroke r s α).1 := by
  unfold setAlphaStroke
  split
  · refine ⟨ensureG_le _ _ _, fun w => w.ensureG_alpha _ _ (by intro n h; cases h), fun hg => ?_⟩
    apply Good.emit
    · exact Good.mono (s := { s with alphaS := some (GKey.A α) }) hg (ensureG_le _ _ _)
    · exact ensureG_has _ _ _
  · exact StepOK.same r s s (fun _ h => h)

theorem setAlphaFill_ok (r : Res) (s : SState) (α : Num) :
    StepOK r s (setAlphaFill r s α).2 (setAlphaFill r s α).1 := by
  unfold setAlphaFill
  split
  · refine ⟨ensureG_le _ _ _, fun w => w.ensureG_alpha _ _ (by intro n h; cases h), fun hg => ?_⟩
    apply Good.emit
    · exact Good.mono (s := { s with alphaF := some (GKey.a α) }) hg (ensureG_le _ _ _)
    · exact ensureG_has _ _ _
  · exact StepOK.same r s s (fun _ h => h)

theorem alphaStrokePart_ok (r : Res) (s : SState) (α : Num) (stroke : Bool) :
    StepOK r s (alphaStrokePart r s α stroke).2 (alphaStrokePart r s α stroke).1 := by
  unfold alphaStrokePart
  split
  · exact setAlphaStroke_ok r s α
  · exact StepOK.same r s s (fun _ h => h)

theorem setAlpha_ok (r : Res) (s : SState) (α : Num) (stroke : Bool) (fill : Option Bool) :
    StepOK r s (setAlpha r s α stroke fill).2 (setAlpha r s α stroke fill).1 := by
  unfold setAlpha
  split
  · exact (alphaStrokePart_ok r s α stroke).trans (setAlphaFill_ok _ _ α)
  · exact alphaStrokePart_ok r s α stroke

theorem colourOps_refOK (r : Res) (c : Colour) (stroke : Bool) : ∀ o ∈ colourOps c stroke, opRefOK r o := by
  intro o ho
  unfold colourOps at ho
  split at ho <;> simp at ho <;> rcases ho with rfl | rfl <;> simp [opRefOK]

theorem setColorOnly_ok (r : Res) (s : SState) (c : Colour) (stroke : Bool) :
    StepOK r s r (setColorOnly s c stroke) := by
  refine ⟨Res.le.refl r, id, fun hg => ?_⟩
  unfold setColorOnly
  split <;> split
  · exact hg
  · exact Good.emitAll (s := { s with colS := some c.key }) hg _ (colourOps_refOK r c stroke)
  · exact hg
  · exact Good.emitAll (s := { s with colF := some c.key }) hg _ (colourOps_refOK r c stroke)

theorem setColor_ok (r : Res) (s : SState) (c : Colour) (stroke : Bool) :
    StepOK r s (setColor r s c stroke).2 (setColor r s c stroke).1 := by
  unfold setColor
  exact (setAlpha_ok r s c.alpha stroke none).trans (setColorOnly_ok _ _ c stroke)

theorem setState_ok (r : Res) (s : SState) (d : ExtG) : StepOK r s (setState r s d).2 (setState r s d).1 := by
  unfold setState
  refine ⟨addG_le _ _ _, fun w => w.addG _ _ (fresh_s r w) (by intro n h; cases h; rfl), fun hg => ?_⟩
  exact Good.emit (Good.mono hg (addG_le _ _ _)) _ (addG_has _ _ _)


theorem softMaskState_ok (r : Res) (s : SState) :
    StepOK r s (softMaskState r s).2 (softMaskState r s).1 := by
  have h := setState_ok r s softMaskDict
  exact ⟨h.le, h.wf, fun hg => (h.good hg).of_rops (fun _ ho => ho)⟩

theorem popOps_sub (s : SState) : ∀ o ∈ (popOps s).rops, o ∈ s.rops ∨ o = .Q := by
  unfold popOps
  split
  · rename_i rest heq
    intro o ho; left; rw [heq]; exact List.mem_cons_of_mem _ ho
  · intro o ho
    simp only [SState.emit, List.mem_cons] at ho
    rcases ho with rfl | ho
    · right; rfl
    · left; exact ho

theorem beginText_sub (s : SState) : ∀ o ∈ (beginText s).rops, o ∈ s.rops ∨ o = .BT := by
  unfold beginText
  split
  · rename_i rest heq
    intro o ho; left; rw [heq]; exact List.mem_cons_of_mem _ ho
  · intro o ho
    simp only [SState.emit, List.mem_cons] at ho
    rcases ho with rfl | ho
    · right; rfl
    · left; exact ho

theorem good_of_sub {r : Res} {s s' : SState} (hg : Good r s) (o0 : Op) (h0 : opRefOK r o0)
    (h : ∀ o ∈ s'.rops, o ∈ s.rops ∨ o = o0) : Good r s' := by
  intro o ho
  rcases h o ho with h1 | rfl
  · exact hg o h1
  · exact h0

theorem beginMarked_good {r : Res} {s : SState} (hg : Good r s) (et : String) (mcid : Bool) (tag : Option String) :
    Good r (beginMarked s et mcid tag) := by
  unfold beginMarked
  split
  · exact hg
  · split
    · exact Good.emitAll (s := { s with marked := resolveTag et tag :: s.marked }) hg _
        (by intro o ho; simp at ho; rcases ho with rfl | rfl | rfl <;> simp [opRefOK])
    · exact Good.emitAll hg _ (by intro o ho; simp at ho; rcases ho with rfl | rfl <;> simp [opRefOK])

/-- **One call**: the dictionary only grows, generated keys stay fresh and unique, and every name used by an operator
of the stream is a key of its dictionary — provided the caller passes registered names (`Call.scoped`). -/
theorem popState_rops (s s' : SState) (h : popState s = .ok s') : s'.rops = (popOps s).rops := by
  unfold popState at h
  split at h <;> simp at h
  subst h; rfl

theorem stepS_ok (r : Res) (s : SState) (c : Call) (s' : SState) (r' : Res) (hsc : c.scoped r)
    (h : stepS r s c = .ok (s', r')) : StepOK r s r' s' := by
  cases c with
  | push =>
    simp only [stepS] at h
    split at h <;> simp at h
    obtain ⟨rfl, rfl⟩ := h
    exact StepOK.emit_of r s _ .q rfl (by simp [opRefOK])
  | pop =>
    simp only [stepS, Except.map] at h
    cases hp : popState s with
    | error e => rw [hp] at h; simp at h
    | ok sp =>
      rw [hp] at h; simp at h
      obtain ⟨rfl, rfl⟩ := h
      refine ⟨Res.le.refl r, id, fun hg => ?_⟩
      have hr := popState_rops s sp hp
      exact good_of_sub hg .Q (by simp [opRefOK]) (by rw [hr]; exact popOps_sub s)
  | transform a b c d e f =>
    simp only [stepS] at h
    split at h <;> simp at h
    obtain ⟨rfl, rfl⟩ := h
    exact StepOK.emit_of r s _ (.cm a b c d e f) rfl (by simp [opRefOK])
  | beginText =>
    simp only [stepS] at h; simp at h
    obtain ⟨rfl, rfl⟩ := h
    exact ⟨Res.le.refl r, id, fun hg => good_of_sub hg .BT (by simp [opRefOK]) (beginText_sub s)⟩
  | endText =>
    simp only [stepS] at h; simp at h
    obtain ⟨rfl, rfl⟩ := h
    exact StepOK.emit_of r s { s with oldFont := s.font, font := none } .ET rfl (by simp [opRefOK])
  | setColor col stroke =>
    simp only [stepS] at h; simp at h
    have := setColor_ok r s col stroke
    rw [h] at this; exact this
  | setFont f sz =>
    simp only [stepS] at h
    split at h <;> simp at h <;> obtain ⟨rfl, rfl⟩ := h
    · exact StepOK.same r s s (fun _ h => h)
    · exact StepOK.emit_of r s { s with font := some (f, sz.val) } (.Tf f sz) rfl (by simp [opRefOK])
  | setAlpha α stroke fill =>
    simp only [stepS] at h; simp at h
    have := setAlpha_ok r s α stroke fill
    rw [h] at this; exact this
  | setState d =>
    simp only [stepS] at h; simp at h
    have := setState_ok r s d
    rw [h] at this; exact this
  | softMaskState =>
    simp only [stepS] at h; simp at h
    have := softMaskState_ok r s
    rw [h] at this; exact this
  | setBlendMode mode =>
    simp only [stepS] at h; simp at h
    have := setState_ok r s { kind := "blend:" ++ mode }
    rw [h] at this; exact this
  | beginMarked et mcid tag =>
    simp only [stepS] at h; simp at h
    obtain ⟨rfl, rfl⟩ := h
    exact ⟨Res.le.refl r, id, fun hg => beginMarked_good hg et mcid tag⟩
  | endMarked =>
    simp only [stepS] at h
    split at h <;> simp at h <;> obtain ⟨rfl, rfl⟩ := h
    · exact StepOK.same r s s (fun _ h => h)
    · exact StepOK.emit r s .EMC (by simp [opRefOK])
  | drawX k =>
    simp only [stepS] at h; simp at h
    obtain ⟨rfl, rfl⟩ := h
    exact StepOK.emit r s _ hsc
  | paintShading n =>
    simp only [stepS] at h; simp at h
    obtain ⟨rfl, rfl⟩ := h
    exact StepOK.emit r s _ hsc
  | setColorSpace sp stroke =>
    simp only [stepS] at h; simp at h
    obtain ⟨rfl, rfl⟩ := h
    exact StepOK.emit r s (.cs sp stroke) (by simp [opRefOK])
  | setColorSpecial pat stroke operands =>
    simp only [stepS] at h; simp at h
    obtain ⟨rfl, rfl⟩ := h
    refine StepOK.emit r s (.scn operands pat stroke) ?_
    cases pat with
    | none => simp [opRefOK]
    | some p => exact hsc
  | raw k args flag text =>
    simp only [stepS] at h; simp at h
    obtain ⟨rfl, rfl⟩ := h
    exact StepOK.emit r s (.raw k.cls (rawText k args flag text)) (by simp [opRefOK])
  | rawTok c token =>
    simp only [stepS] at h; simp at h
    obtain ⟨rfl, rfl⟩ := h
    exact StepOK.emit r s (.raw c token) (by simp [opRefOK])

end Wp.Pdf
