/-
C17 helper development (no Mathlib): paint-once for backgrounds.

Part 1 (no hypothesis on the tree): for a *coherent* context — `blocks` / `blocks_and_cells` are the
block-level boxes / cells of its own pruned tree in tree order, which is what the dispatcher builds
(`dispatch_blocks_tree_order`) — points 4 and 7 of `draw_stacking_context` are tree recursions
(`flow4L`, `flow7L`).

Part 2: on the block / line / inline / inline-block grammar (no table boxes in flow), when every
context root is of a class whose decoration is painted (point 2, point 6) the background of every box
of the structure is painted exactly once, and not at all below a singular transform.
-/
import WpModel.Lemmas.StackingPartition
import WpModel.Model.PaintOrder
import WpModel.Lemmas.PaintEnv

set_option linter.unusedSimpArgs false
set_option linter.unusedVariables false

namespace Wp.Stacking
open Wp Wp.Gen

/-! ### Part 1: points 4 and 7 as tree recursions -/

mutual
/-- Point 4 restricted to the subtree of one entry of a children list. -/
def flow4 : Node → Env → List Item
  | .leaf a, e => if a.kind.dispBlockLevel then drawBlock (.leaf a) e else []
  | .node a kids, e =>
    (if a.kind.dispBlockLevel then drawBlock (.node a kids) e else []) ++ flow4L kids e
  | .ph _, _ => []
  | .ctx .., _ => []
def flow4L : List Node → Env → List Item
  | [], _ => []
  | n :: ns, e => flow4 n e ++ flow4L ns e
end

mutual
/-- Point 7 (the part over `blocks_and_cells`) restricted to the subtree of one entry. -/
def flow7 (pov : Bool) : Node → Env → List Item
  | .leaf a, e =>
    if a.kind.dispBlockLevel || a.kind.dispCell then point7With a [] (fun _ => []) e else []
  | .node a kids, e =>
    (if a.kind.dispBlockLevel || a.kind.dispCell then point7With a kids (inlList pov kids) e else []) ++
      flow7L pov kids e
  | .ph _, _ => []
  | .ctx .., _ => []
def flow7L (pov : Bool) : List Node → Env → List Item
  | [], _ => []
  | n :: ns, e => flow7 pov n e ++ flow7L pov ns e
end

theorem point7List_append (pov : Bool) (l m : List Node) (e : Env) :
    point7List pov (l ++ m) e = point7List pov l e ++ point7List pov m e := by
  induction l with
  | nil => simp [point7List]
  | cons x xs ih =>
    rw [List.cons_append, point7List_cons, point7List_cons pov x xs, ih, List.append_assoc]

mutual
theorem flow4_region : ∀ (n : Node) (e : Env),
    (n.region.filter Node.isBlockLevel).flatMap (drawBlock · e) = flow4 n e
  | .leaf a, e => by
    by_cases h : a.kind.dispBlockLevel = true <;>
      simp [Node.region, Node.isBlockLevel, flow4, h, List.filter_cons]
  | .node a kids, e => by
    have ih := flow4L_region kids e
    by_cases h : a.kind.dispBlockLevel = true <;>
      simp [Node.region, Node.isBlockLevel, flow4, h, List.filter_cons, ih]
  | .ph _, e => by simp [Node.region, flow4]
  | .ctx .., e => by simp [Node.region, flow4]
theorem flow4L_region : ∀ (l : List Node) (e : Env),
    ((Node.regionL l).filter Node.isBlockLevel).flatMap (drawBlock · e) = flow4L l e
  | [], e => by simp [Node.regionL, flow4L]
  | n :: ns, e => by
    simp [Node.regionL, flow4L, List.filter_append, List.flatMap_append, flow4_region n e,
      flow4L_region ns e]
end

mutual
theorem flow7_region (pov : Bool) : ∀ (n : Node) (e : Env),
    point7List pov (n.region.filter Node.isBlockOrCell) e = flow7 pov n e
  | .leaf a, e => by
    by_cases h : (a.kind.dispBlockLevel || a.kind.dispCell) = true <;>
      simp [Node.region, Node.isBlockOrCell, flow7, h, List.filter_cons, point7List]
  | .node a kids, e => by
    have ih := flow7L_region pov kids e
    by_cases h : (a.kind.dispBlockLevel || a.kind.dispCell) = true
    · simp only [Node.region, List.filter_cons, Node.isBlockOrCell, h, ↓reduceIte, flow7]
      rw [point7List, ih]
    · simp only [Node.region, List.filter_cons, Node.isBlockOrCell, h, Bool.false_eq_true,
        ↓reduceIte, flow7, List.nil_append]
      exact ih
  | .ph _, e => by simp [Node.region, flow7, point7List]
  | .ctx .., e => by simp [Node.region, flow7, point7List]
theorem flow7L_region (pov : Bool) : ∀ (l : List Node) (e : Env),
    point7List pov ((Node.regionL l).filter Node.isBlockOrCell) e = flow7L pov l e
  | [], e => by simp [Node.regionL, flow7L, point7List]
  | n :: ns, e => by
    simp [Node.regionL, flow7L, List.filter_append, point7List_append, flow7_region pov n e,
      flow7L_region pov ns e]
end

/-! ### Part 2: counting background items -/

/-- Is this item the background of box `i`? -/
def isBg (i : Nat) : Item → Bool
  | .paint .bg j _ _ => j == i
  | _ => false

/-- How many times the background of box `i` is painted by a display list. -/
def cntBg (i : Nat) (l : List Item) : Nat := l.countP (isBg i)

@[simp] theorem cntBg_nil (i : Nat) : cntBg i [] = 0 := rfl
@[simp] theorem cntBg_append (i : Nat) (l m : List Item) : cntBg i (l ++ m) = cntBg i l + cntBg i m := by
  simp [cntBg, List.countP_append]

/-- The box ids whose background colour is painted: `box.background` with a non-transparent colour. -/
def bgOf (a : Attrs) : List Nat :=
  match a.bg with
  | some (some _) => [a.id]
  | _ => []

theorem cntBg_drawBackground_bg (i id : Nat) (bg : Option (Option Nat)) (cb : Bool) (e : Env) :
    cntBg i (drawBackground .bg id bg cb e) =
      (match bg with | some (some _) => [id] | _ => []).count i := by
  unfold drawBackground
  cases bg with
  | none => simp
  | some b =>
    cases b with
    | none => simp
    | some c => by_cases h : id = i <;> simp [cntBg, isBg, h, List.count_cons]

theorem cntBg_drawBorder (i : Nat) (a : Attrs) (e : Env) : cntBg i (drawBorder a e) = 0 := by
  unfold drawBorder
  split
  · simp
  · split
    · simp
    · split
      · simp [cntBg, isBg]
      · simp [cntBg, List.countP_replicate, isBg]

theorem cntBg_decoration (i : Nat) (a : Attrs) (e : Env) :
    cntBg i (decoration a e) = (bgOf a).count i := by
  simp [decoration, cntBg_drawBackground_bg, cntBg_drawBorder, bgOf]

theorem cntBg_drawText (i : Nat) (a : Attrs) (e : Env) : cntBg i (drawText a e) = 0 := by
  unfold drawText; split <;> simp [cntBg, isBg]

theorem cntBg_ownOutline (i : Nat) (a : Attrs) (e : Env) : cntBg i (ownOutline a e) = 0 := by
  unfold ownOutline
  split
  · split
    · simp [cntBg, List.countP_replicate, isBg]
    · simp
  · simp

mutual
theorem cntBg_outline_node (i : Nat) : ∀ (n : Node) (e : Env), cntBg i (outlineList [n] e) = 0
  | .leaf a, e => by simp [outlineList, cntBg_ownOutline]
  | .node a kids, e => by simp [outlineList, cntBg_ownOutline, cntBg_outlineList i kids e]
  | .ph _, e => by simp [outlineList]
  | .ctx .., e => by simp [outlineList]
theorem cntBg_outlineList (i : Nat) : ∀ (l : List Node) (e : Env), cntBg i (outlineList l e) = 0
  | [], e => by simp [outlineList]
  | n :: ns, e => by
    rw [outlineList_cons]; simp [cntBg_outline_node i n e, cntBg_outlineList i ns e]
end

/-! ### The grammar of pruned trees and the expected backgrounds -/

mutual
/-- Box ids whose background is due, at the tree positions of a dispatched structure; nothing below
a context whose box has a singular transform. -/
def expBg : Node → List Nat
  | .leaf a => bgOf a
  | .node a kids => bgOf a ++ expBgL kids
  | .ph _ => []
  | .ctx (.leaf a) neg zero pos _ floats _ _ =>
    if a.matrix = .singular then []
    else bgOf a ++ (expBgL neg ++ (expBgL zero ++ (expBgL pos ++ expBgL floats)))
  | .ctx (.node a kids) neg zero pos _ floats _ _ =>
    if a.matrix = .singular then []
    else bgOf a ++ (expBgL kids ++ (expBgL neg ++ (expBgL zero ++ (expBgL pos ++ expBgL floats))))
  | .ctx (.ph _) .. => []
  | .ctx (.ctx ..) .. => []
def expBgL : List Node → List Nat
  | [] => []
  | n :: ns => expBg n ++ expBgL ns
end

/-- Hypothesis on context roots: the own decoration is painted by exactly one of point 2 / point 6
(false for grid containers and table parts: known finding `context-root-loses-decoration`). -/
def rootPainted (a : Attrs) : Prop :=
  (a.kind.drawOwnDecoration = true ∧ a.kind.drawInline = false) ∨
  (a.kind.drawOwnDecoration = false ∧ a.kind.drawInline = true ∧ a.kind.dilInlineOrLine = true)

mutual
/-- Inline-level content of a line: text and replaced leaves, inline boxes, atomic contexts. -/
def wfInline : Node → Prop
  | .leaf a => a.kind.dispBlockLevel = false ∧ a.kind.dispCell = false ∧
      (a.kind.dilTextChild = true → bgOf a = [])
  | .node a kids => a.kind.dispBlockLevel = false ∧ a.kind.dispCell = false ∧
      a.kind.dilInlineOrLine = true ∧ a.kind.dilTextChild = false ∧ wfInlineL kids
  | .ph _ => False
  | .ctx box neg zero pos blocks floats bc z =>
    ctxAllowed box = true ∧ wfCtx (.ctx box neg zero pos blocks floats bc z)
def wfInlineL : List Node → Prop
  | [] => True
  | n :: ns => wfInline n ∧ wfInlineL ns
/-- A box in block flow: block-level, not a table; its children are blocks or lines. -/
def wfFlow : Node → Prop
  | .leaf a => a.kind.dispBlockLevel = true ∧ a.kind.drawTable = false
  | .node a kids => a.kind.dispBlockLevel = true ∧ a.kind.drawTable = false ∧ a.kind.drawReplaced = false ∧
      ((wfFlowL kids ∧ lastIsLine kids = false) ∨ (lastIsLine kids = true ∧ wfInlineL kids))
  | .ph _ => False
  | .ctx .. => False
def wfFlowL : List Node → Prop
  | [] => True
  | n :: ns => wfFlow n ∧ wfFlowL ns
/-- A context: painted root class, coherent `blocks` / `blocks_and_cells`, well-formed lists. -/
def wfCtx : Node → Prop
  | .ctx (.leaf a) neg zero pos blocks floats bc _ =>
    rootPainted a ∧ blocks = [] ∧ bc = [] ∧
    wfCtxL neg ∧ wfCtxL zero ∧ wfCtxL pos ∧ wfCtxL floats
  | .ctx (.node a kids) neg zero pos blocks floats bc _ =>
    rootPainted a ∧ a.kind.drawReplaced = false ∧
    blocks = (Node.regionL kids).filter Node.isBlockLevel ∧
    bc = (Node.regionL kids).filter Node.isBlockOrCell ∧
    wfCtxL neg ∧ wfCtxL zero ∧ wfCtxL pos ∧ wfCtxL floats ∧
    ((a.kind.drawInline = true ∧ lastIsLine kids = false ∧ wfInlineL kids) ∨
     (a.kind.drawInline = false ∧
        ((wfFlowL kids ∧ lastIsLine kids = false) ∨ (lastIsLine kids = true ∧ wfInlineL kids))))
  | .ctx (.ph _) .. => False
  | .ctx (.ctx ..) .. => False
  | .leaf _ => False
  | .node _ _ => False
  | .ph _ => False
def wfCtxL : List Node → Prop
  | [] => True
  | n :: ns => wfCtx n ∧ wfCtxL ns
end

/-! ### The count of the body of `draw_stacking_context` -/

theorem cntBg_drawReplaced (i : Nat) (a : Attrs) (e : Env) : cntBg i (drawReplaced a e) = 0 := by
  unfold drawReplaced; split <;> simp [cntBg, isBg]

theorem cntBg_inlBoxWith (i : Nat) (a : Attrs) (k : Env → List Item) (e : Env) :
    cntBg i (inlBoxWith a k e) =
      (bgOf a).count i + (if a.kind.dilInlineOrLine then cntBg i (k e) else 0) := by
  unfold inlBoxWith
  rw [cntBg_append, cntBg_decoration]
  by_cases h1 : a.kind.dilInlineOrLine = true
  · simp [h1]
  · by_cases h2 : a.kind.dilInlineReplaced = true
    · simp [h1, h2, cntBg_drawReplaced]
    · by_cases h3 : a.kind.dilText = true
      · simp [h1, h2, h3, cntBg_drawText]
      · simp [h1, h2, h3, cntBg, isBg]

theorem cntBg_point7With (i : Nat) (a : Attrs) (kids : List Node) (k : Env → List Item) (e : Env)
    (hr : a.kind.drawReplaced = false) :
    cntBg i (point7With a kids k e) = if lastIsLine kids then cntBg i (k e) else 0 := by
  unfold point7With
  by_cases h : lastIsLine kids = true <;> simp [hr, h]

theorem cntBg_point7With_nil (i : Nat) (a : Attrs) (k : Env → List Item) (e : Env) :
    cntBg i (point7With a [] k e) = 0 := by
  unfold point7With
  by_cases hr : a.kind.drawReplaced = true <;> simp [hr, lastIsLine, cntBg_drawReplaced]

theorem cntBg_paintBodyWith (i : Nat) (pov : Bool) (a : Attrs)
    (neg blocks floats ik pt7 zero pos outl : Env → List Item) (env : Env)
    (ho : ∀ e, cntBg i (outl e) = 0) :
    cntBg i (paintBodyWith pov a neg blocks floats ik pt7 zero pos outl env) =
      if a.matrix = .singular then 0 else
        (if a.kind.drawOwnDecoration then (bgOf a).count i else 0) +
        cntBg i (neg (innerEnv a pov env)) + cntBg i (blocks (innerEnv a pov env)) +
        cntBg i (floats (innerEnv a pov env)) +
        (if a.kind.drawInline then
          (bgOf a).count i + (if a.kind.dilInlineOrLine then cntBg i (ik (innerEnv a pov env)) else 0)
         else 0) +
        cntBg i (pt7 (innerEnv a pov env)) + cntBg i (zero (innerEnv a pov env)) +
        cntBg i (pos (innerEnv a pov env)) := by
  unfold paintBodyWith
  by_cases hs : a.matrix = .singular
  · simp [hs]
  · simp only [hs, ↓reduceIte, cntBg_append, cntBg_ownOutline, ho, Nat.add_zero]
    have h2 : cntBg i (if a.kind.drawOwnDecoration = true then decoration a (ctxEnv a pov env) else []) =
        (if a.kind.drawOwnDecoration = true then (bgOf a).count i else 0) := by
      split <;> simp [cntBg_decoration]
    have h6 : ∀ e1, cntBg i (if a.kind.drawInline = true then inlBoxWith a ik e1 else []) =
        (if a.kind.drawInline = true then
          (bgOf a).count i + (if a.kind.dilInlineOrLine then cntBg i (ik e1) else 0) else 0) := by
      intro e1; split <;> simp [cntBg_inlBoxWith]
    rw [h2, h6]
    simp only [innerEnv]
    omega

/-! ### The main induction -/

/-- What is proved about a list of nodes, according to the role the list plays. -/
structure OnceL (pov : Bool) (i : Nat) (l : List Node) : Prop where
  inl : wfInlineL l → ∀ e,
    cntBg i (inlKids pov l e) = (expBgL l).count i ∧ cntBg i (inlList pov l e) = (expBgL l).count i ∧
    cntBg i (flow4L l e) = 0 ∧ cntBg i (flow7L pov l e) = 0
  flow : wfFlowL l → ∀ e, cntBg i (flow4L l e) + cntBg i (flow7L pov l e) = (expBgL l).count i
  ctx : wfCtxL l → ∀ e, cntBg i (paintList pov l e) = (expBgL l).count i

theorem flow_node_count (pov : Bool) (i : Nat) (a : Attrs) (kids : List Node) (ih : OnceL pov i kids)
    (hr : a.kind.drawReplaced = false)
    (h : (wfFlowL kids ∧ lastIsLine kids = false) ∨ (lastIsLine kids = true ∧ wfInlineL kids)) (e : Env) :
    cntBg i (flow4L kids e) + cntBg i (point7With a kids (inlList pov kids) e) +
      cntBg i (flow7L pov kids e) = (expBgL kids).count i := by
  rw [cntBg_point7With i a kids _ e hr]
  rcases h with ⟨hf, hl⟩ | ⟨hl, hi⟩
  · have := ih.flow hf e
    simp [hl]; omega
  · obtain ⟨_, h2, h3, h4⟩ := ih.inl hi e
    simp [hl, h2, h3, h4]

mutual
theorem once_node (pov : Bool) (i : Nat) : ∀ (n : Node), OnceL pov i [n]
  | .leaf a => by
    refine ⟨?_, ?_, ?_⟩
    · intro h e
      simp only [wfInlineL, wfInline, and_true] at h
      obtain ⟨hb, hc, ht⟩ := h
      refine ⟨?_, ?_, ?_, ?_⟩
      · simp only [inlKids, expBgL, expBg, List.append_nil]
        by_cases htc : a.kind.dilTextChild = true
        · simp [htc, cntBg_drawText, ht htc]
        · simp [htc, cntBg_inlBoxWith]
      · simp [inlList, expBgL, expBg, cntBg_inlBoxWith]
      · simp [flow4L, flow4, hb]
      · simp [flow7L, flow7, hb, hc]
    · intro h e
      simp only [wfFlowL, wfFlow, and_true] at h
      obtain ⟨hb, ht⟩ := h
      simp [flow4L, flow4, flow7L, flow7, hb, ht, drawBlock, cntBg_decoration, cntBg_point7With_nil,
        expBgL, expBg]
    · intro h; simp [wfCtxL, wfCtx] at h
  | .node a kids => by
    have ih := once_list pov i kids
    refine ⟨?_, ?_, ?_⟩
    · intro h e
      simp only [wfInlineL, wfInline, and_true] at h
      obtain ⟨hb, hc, hio, ht, hk⟩ := h
      obtain ⟨h1, h2, h3, h4⟩ := ih.inl hk e
      refine ⟨?_, ?_, ?_, ?_⟩
      · simp [inlKids, expBgL, expBg, ht, cntBg_inlBoxWith, hio, h1, List.count_append]
      · simp [inlList, expBgL, expBg, cntBg_inlBoxWith, hio, h1, List.count_append]
      · simp [flow4L, flow4, hb, h3]
      · simp [flow7L, flow7, hb, hc, h4]
    · intro h e
      simp only [wfFlowL, wfFlow, and_true] at h
      obtain ⟨hb, ht, hr, hk⟩ := h
      have := flow_node_count pov i a kids ih hr hk e
      simp only [flow4L, flow4, flow7L, flow7, hb, ht, drawBlock, Bool.true_or, ↓reduceIte,
        Bool.false_eq_true, List.append_nil, cntBg_append, cntBg_decoration, expBgL, expBg,
        List.count_append]
      omega
    · intro h; simp [wfCtxL, wfCtx] at h
  | .ph _ => by
    refine ⟨?_, ?_, ?_⟩
    · intro h; simp [wfInlineL, wfInline] at h
    · intro h; simp [wfFlowL, wfFlow] at h
    · intro h; simp [wfCtxL, wfCtx] at h
  | .ctx box neg zero pos blocks floats bc z => by
    have hctx : wfCtx (.ctx box neg zero pos blocks floats bc z) → ∀ e,
        cntBg i (paint pov (.ctx box neg zero pos blocks floats bc z) e) =
          (expBg (.ctx box neg zero pos blocks floats bc z)).count i := by
      have hneg := once_list pov i neg
      have hzero := once_list pov i zero
      have hpos := once_list pov i pos
      have hfl := once_list pov i floats
      match box with
      | .leaf a =>
        intro h e
        simp only [wfCtx] at h
        obtain ⟨hroot, hbl, hbc, wn, wz, wp, wf⟩ := h
        subst hbl; subst hbc
        rw [paint, cntBg_paintBodyWith _ _ _ _ _ _ _ _ _ _ _ _ (fun _ => rfl), expBg]
        by_cases hs : a.matrix = .singular
        · simp [hs]
        · simp only [hs, ↓reduceIte, List.flatMap_nil, cntBg_nil, cntBg_append, cntBg_point7With_nil,
            point7List, hneg.ctx wn, hzero.ctx wz, hpos.ctx wp, hfl.ctx wf, List.count_append]
          rcases hroot with ⟨h2, h6⟩ | ⟨h2, h6, hio⟩
          · simp [h2, h6]; omega
          · simp [h2, h6, hio]; omega
      | .node a kids =>
        have ih := once_list pov i kids
        intro h e
        simp only [wfCtx] at h
        obtain ⟨hroot, hr, hbl, hbc, wn, wz, wp, wf, hbody⟩ := h
        subst hbl; subst hbc
        rw [paint, cntBg_paintBodyWith _ _ _ _ _ _ _ _ _ _ _ _ (fun e' => cntBg_outlineList i kids e'),
          expBg]
        by_cases hs : a.matrix = .singular
        · simp [hs]
        · simp only [hs, ↓reduceIte, cntBg_append, flow4L_region, flow7L_region, hneg.ctx wn,
            hzero.ctx wz, hpos.ctx wp, hfl.ctx wf, List.count_append]
          rcases hbody with ⟨h6, hl, hk⟩ | ⟨h6, hk⟩
          · -- an inline box roots the context: point 6 paints it and its inline content
            have h2 : a.kind.drawOwnDecoration = false := by
              rcases hroot with ⟨_, h⟩ | ⟨h, _, _⟩
              · rw [h] at h6; cases h6
              · exact h
            have hio : a.kind.dilInlineOrLine = true := by
              rcases hroot with ⟨_, h⟩ | ⟨_, _, h⟩
              · rw [h] at h6; cases h6
              · exact h
            obtain ⟨h1, _, h3, h4⟩ := ih.inl hk (innerEnv a pov e)
            rw [cntBg_point7With i a kids _ _ hr]
            simp [h2, h6, hio, hl, h1, h3, h4]; omega
          · have h2 : a.kind.drawOwnDecoration = true := by
              rcases hroot with ⟨h, _⟩ | ⟨_, h, _⟩
              · exact h
              · rw [h] at h6; cases h6
            have := flow_node_count pov i a kids ih hr hk (innerEnv a pov e)
            simp [h2, h6]; omega
      | .ph _ => intro h; simp [wfCtx] at h
      | .ctx .. => intro h; simp [wfCtx] at h
    refine ⟨?_, ?_, ?_⟩
    · intro h e
      simp only [wfInlineL, wfInline, and_true] at h
      obtain ⟨ha, hw⟩ := h
      have := hctx hw e
      refine ⟨?_, ?_, ?_, ?_⟩
      · simp [inlKids, ha, expBgL, this]
      · simp [inlList, ha, expBgL, this]
      · simp [flow4L, flow4]
      · simp [flow7L, flow7]
    · intro h; simp [wfFlowL, wfFlow] at h
    · intro h e
      simp only [wfCtxL, and_true] at h
      simp [paintList, expBgL, hctx h e]
theorem once_list (pov : Bool) (i : Nat) : ∀ (l : List Node), OnceL pov i l
  | [] => ⟨fun _ _ => by simp [inlKids, inlList, flow4L, flow7L, expBgL],
           fun _ _ => by simp [flow4L, flow7L, expBgL],
           fun _ _ => by simp [paintList, expBgL]⟩
  | n :: l => by
    have h1 := once_node pov i n
    have h2 := once_list pov i l
    refine ⟨?_, ?_, ?_⟩
    · intro h e
      simp only [wfInlineL] at h
      obtain ⟨a1, a2, a3, a4⟩ := h1.inl (by simp [wfInlineL, h.1]) e
      obtain ⟨b1, b2, b3, b4⟩ := h2.inl h.2 e
      simp only [expBgL, List.append_nil, flow4L, flow7L] at a1 a2 a3 a4
      refine ⟨?_, ?_, ?_, ?_⟩
      · rw [inlKids_cons]; simp [expBgL, List.count_append, a1, b1]
      · rw [inlList_cons]; simp [expBgL, List.count_append, a2, b2]
      · simp [flow4L, a3, b3]
      · simp [flow7L, a4, b4]
    · intro h e
      simp only [wfFlowL] at h
      have a := h1.flow (by simp [wfFlowL, h.1]) e
      have b := h2.flow h.2 e
      simp only [expBgL, List.append_nil, flow4L, flow7L] at a
      simp only [flow4L, flow7L, expBgL, cntBg_append, List.count_append]
      omega
    · intro h e
      simp only [wfCtxL] at h
      have a := h1.ctx (by simp [wfCtxL, h.1]) e
      have b := h2.ctx h.2 e
      simp only [expBgL, List.append_nil, paintList] at a
      simp only [paintList, expBgL, cntBg_append, List.count_append]
      omega
end

end Wp.Stacking
