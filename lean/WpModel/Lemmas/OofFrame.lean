/-
The `crash` flag of the threaded state (set where `float_layout` / `absolute_box_layout` would call a
method on `None`) is never raised: a layout leaves it as it found it.
-/
import WpModel.Lemmas.OofTotal
import WpModel.Lemmas.OofPages

namespace Wp.PMO
open Wp Wp.PM

@[simp] theorem remove_crash (w : World) (l : List Nat) : (w.remove l).crash = w.crash := rfl
@[simp] theorem removeDropped_crash (w : World) (a b : List OFrag) : (w.removeDropped a b).crash = w.crash := rfl
@[simp] theorem shift_crash (w : World) (l : List Nat) (dy : Rat) : (w.shift l dy).crash = w.crash := rfl

def KidsOutcome.world : KidsOutcome → World
  | .finished s => s.w
  | .aborted _ s => s.w
  | .stopped _ s => s.w

theorem finishContainer_crash (c : Ctx) (st : OStyle) (b : BoxSt) (pie : Bool) (bs : Rat)
    (cwc dbd : Bool) (resume : Option Resume) (posY : Rat) (adjL cur : List Rat) (curIsL : Bool)
    (np : NextPage) (hasKids : Bool) (pageEnd : String) (kids : List OFrag) (lb : List Broken) (w : World)
    (mk : Geo → OFrag) :
    (finishContainer c st b pie bs cwc dbd resume posY adjL cur curIsL np hasKids pageEnd kids lb w mk).w.crash
      = w.crash := by
  unfold finishContainer
  split <;> rfl

@[simp] theorem seenByCaller_w (p : Prep) (r : LayoutResult) : (p.seenByCaller r).w = r.w := by
  unfold Prep.seenByCaller; split <;> rfl

theorem finishBlock_crash (c : Ctx) (st : OStyle) (p : Prep) (pie : Bool) (id idx : Nat) (out : KidsOutcome) :
    (finishBlock c st p pie id idx out).w.crash = out.world.crash := by
  cases out with
  | aborted page s => rfl
  | stopped r s => exact finishContainer_crash ..
  | finished s => exact finishContainer_crash ..

theorem finishPara_crash (c : Ctx) (st : OStyle) (p : Prep) (pie : Bool) (id idx n : Nat) (r : LineResult)
    (w : World) : (finishPara c st p pie id idx n r w).w.crash = w.crash := by
  unfold finishPara
  dsimp only
  split
  · rfl
  · exact finishContainer_crash ..

theorem preFlow_crash (c : Ctx) (b : BoxSt) (cwc pie : Bool) (child : OBox) (s : KidsLoop) :
    (preFlow c b cwc pie child s).w.crash = s.w.crash := by
  unfold preFlow
  split
  · rfl
  · dsimp only
    split <;> rfl

@[simp] theorem setCur_w (s : KidsLoop) (l : List Rat) (b : Bool) : (s.setCur l b).w = s.w := by
  unfold KidsLoop.setCur; split <;> rfl
@[simp] theorem appendCur_w (s : KidsLoop) (m : Rat) : (s.appendCur m).w = s.w := by
  unfold KidsLoop.appendCur; split <;> rfl
@[simp] theorem adoptAdj_w (s : KidsLoop) (h : Bool) (a : AdjOut) (f : Option OFrag) : (s.adoptAdj h a f).w = s.w := by
  unfold KidsLoop.adoptAdj
  split
  · rfl
  · cases a <;> cases f <;> simp

theorem dropFrag_crash (w : World) (a b : Option OFrag) : (dropFrag w a b).crash = w.crash := by
  unfold dropFrag; split <;> rfl

theorem concludeKid_crash (index : Nat) (pie : Bool) (pb : Brk) (child : OBox) (s : KidsLoop)
    (frag : Option OFrag) (resume : Option Resume) :
    (∀ out s3, concludeKid index pie pb child s frag resume = (some out, s3) → out.world.crash = s.w.crash) ∧
    (∀ s3, concludeKid index pie pb child s frag resume = (none, s3) → s3.w.crash = s.w.crash) := by
  unfold concludeKid
  cases frag with
  | none =>
    dsimp only
    constructor
    · intro out s3 h
      split at h
      · simp only [Prod.mk.injEq, Option.some.injEq] at h; rw [← h.1]; rfl
      · split at h
        · simp only [Prod.mk.injEq, Option.some.injEq] at h; rw [← h.1]; rfl
        · by_cases hall : s.newChildren.all OFrag.isAbs = true
          · simp [hall] at h
            rw [← h.1]; rfl
          · simp only [hall, Bool.false_eq_true, ↓reduceIte] at h
            by_cases hne : s.newChildren.isEmpty = true
            · simp [hne] at h; rw [← h.1]; rfl
            · simp [hne] at h; rw [← h.1]; rfl
    · intro s3 h
      split at h
      · simp at h
      · split at h
        · simp at h
        · by_cases hall : s.newChildren.all OFrag.isAbs = true
          · simp [hall] at h
          · simp only [hall, Bool.false_eq_true, ↓reduceIte] at h
            by_cases hne : s.newChildren.isEmpty = true
            · simp [hne] at h
            · simp [hne] at h
  | some f =>
    cases resume with
    | some r =>
      constructor
      · intro out s3 h
        simp only [Prod.mk.injEq, Option.some.injEq] at h; rw [← h.1]; rfl
      · intro s3 h; simp at h
    | none =>
      constructor
      · intro out s3 h; simp at h
      · intro s3 h
        simp only [Prod.mk.injEq, true_and] at h; rw [← h]

mutual
theorem layoutBox_crash : (box : OBox) → ∀ (c : Ctx) (idx : Nat) (y bs : Rat) (skip : Option Resume)
    (cb pie : Bool) (adjL : List Rat) (w : World),
    (layoutBox c box idx y bs skip cb pie adjL w).w.crash = w.crash
  | .para id n lineH st => by
    intro c idx y bs skip cb pie adjL w
    simp only [layoutBox, seenByCaller_w]
    exact finishPara_crash ..
  | .block id st kids => by
    intro c idx y bs skip cb pie adjL w
    simp only [layoutBox, seenByCaller_w]
    rw [finishBlock_crash]
    exact layoutKids_crash kids _ _ _ _ _ _ _ _ _
theorem layoutKids_crash : (kids : List OBox) → ∀ (c : Ctx) (st : OStyle) (b : BoxSt) (cwc : Bool)
    (index skipIdx : Nat) (bs : Rat) (pie : Bool) (s : KidsLoop),
    (layoutKids c st b cwc kids index skipIdx bs pie s).world.crash = s.w.crash
  | [] => by
    intro c st b cwc index skipIdx bs pie s
    simp [layoutKids, KidsOutcome.world]
  | child :: rest => by
    intro c st b cwc index skipIdx bs pie s
    unfold layoutKids
    split
    · exact layoutKids_crash rest _ _ _ _ _ _ _ _ _
    · split
      · rw [layoutKids_crash rest]
        rfl
      · dsimp only
        have hr := layoutBox_crash child c index
          (floatY s.w.shapes child.st.clear (s.posY + collapseMargin s.cur)) bs none false true []
          { s.w with shapes := [] }
        have hsome := box_some child c index
          (floatY s.w.shapes child.st.clear (s.posY + collapseMargin s.cur)) bs none false []
          { s.w with shapes := [] }
        cases hfr : (layoutBox c child index
            (floatY s.w.shapes child.st.clear (s.posY + collapseMargin s.cur)) bs none false true []
            { s.w with shapes := [] }).frag with
        | none => rw [hfr] at hsome; simp at hsome
        | some f0 =>
          unfold floatStep floatDone
          simp only [hfr]
          split
          · rename_i out s3 heq
            split at heq
            · simp at heq
            · split at heq
              · simp only [Prod.mk.injEq, Option.some.injEq] at heq
                rw [← heq.1]
                simp only [KidsOutcome.world, removeDropped_crash]
                exact hr
              · simp only [Prod.mk.injEq, Option.some.injEq] at heq
                rw [← heq.1]
                simp only [KidsOutcome.world]
                exact hr
          · rename_i s3 heq
            split at heq
            · simp only [Prod.mk.injEq, true_and] at heq
              rw [layoutKids_crash rest, ← heq]
              exact hr
            · split at heq <;> simp at heq
      · dsimp only
        split
        · rfl
        · have h0 := preFlow_crash c { b with y := s.boxY } cwc pie child s
          split
          · rename_i frag posY hfp
            have hr := layoutBox_crash child c index s.posY bs
              (preFlow c { b with y := s.boxY } cwc pie child s).skip st.isRoot
              (pienc pie (preFlow c { b with y := s.boxY } cwc pie child s))
              (preFlow c { b with y := s.boxY } cwc pie child s).cur
              (preFlow c { b with y := s.boxY } cwc pie child s).w
            split
            · rename_i out s3 heq
              rw [(concludeKid_crash _ _ _ _ _ _ _).1 out s3 heq]
              simp only [dropFrag_crash]
              rw [hr, h0]
            · rename_i s3 heq
              rw [layoutKids_crash rest, (concludeKid_crash _ _ _ _ _ _ _).2 s3 heq]
              simp only [dropFrag_crash]
              rw [hr, h0]
          · rename_i bs' hfp
            have hr := layoutBox_crash child c index s.posY bs
              (preFlow c { b with y := s.boxY } cwc pie child s).skip st.isRoot
              (pienc pie (preFlow c { b with y := s.boxY } cwc pie child s))
              (preFlow c { b with y := s.boxY } cwc pie child s).cur
              (preFlow c { b with y := s.boxY } cwc pie child s).w
            split
            · rename_i out s3 heq
              rw [(concludeKid_crash _ _ _ _ _ _ _).1 out s3 heq]
              simp only [adoptAdj_w, setCur_w]
              rw [layoutBox_crash child, dropFrag_crash, hr, h0]
            · rename_i s3 heq
              rw [layoutKids_crash rest, (concludeKid_crash _ _ _ _ _ _ _).2 s3 heq]
              simp only [adoptAdj_w, setCur_w]
              rw [layoutBox_crash child, dropFrag_crash, hr, h0]
end

/-! ### pages -/

theorem layoutAbs_isSome (c : Ctx) (fuel : Nat) (box : OBox) (idx : Nat) (y : Rat) (skip : Option Resume)
    (w : World) : (layoutAbs c fuel box idx y skip w).frag.isSome = true := by
  have hs := box_some box c idx y 0 skip false [] { w with shapes := [], absL := [] }
  cases fuel with
  | zero => rw [layoutAbs]; exact hs
  | succ n => rw [layoutAbs]; simpa using hs

theorem layoutAbs_crash (c : Ctx) : ∀ (fuel : Nat) (box : OBox) (idx : Nat) (y : Rat) (skip : Option Resume)
    (w : World), (layoutAbs c fuel box idx y skip w).w.crash = w.crash
  | 0, box, idx, y, skip, w => by
    rw [layoutAbs]
    exact layoutBox_crash box c idx y 0 skip false true [] { w with shapes := [], absL := [] }
  | fuel + 1, box, idx, y, skip, w => by
    rw [layoutAbs_succ]
    have hfold : ∀ (es : List AbsEntry) (acc : World × List (Nat × OFrag)),
        (es.foldl (nestedAbsStep c fuel) acc).1.crash = acc.1.crash := by
      intro es
      induction es with
      | nil => intro acc; rfl
      | cons e es ih =>
        intro acc
        simp only [List.foldl_cons]
        rw [ih]
        unfold nestedAbsStep
        dsimp only
        have hs := layoutAbs_isSome c fuel e.box e.idx e.y none acc.1
        cases hfr : (layoutAbs c fuel e.box e.idx e.y none acc.1).frag with
        | none => rw [hfr] at hs; simp at hs
        | some f => simp only; exact layoutAbs_crash c fuel e.box e.idx e.y none acc.1
    simp only
    rw [hfold]
    exact layoutBox_crash box c idx y 0 skip false true [] { w with shapes := [], absL := [] }

theorem contStep_crash (c : Ctx) (rootTop : Rat) (acc : World × List OFrag) (e : Broken) :
    (contStep c rootTop acc e).1.crash = acc.1.crash := by
  unfold contStep
  dsimp only
  split
  · have hsome := box_some e.box c 0 (floatY acc.1.shapes e.box.st.clear rootTop) 0 (some e.resume) false []
      { acc.1 with shapes := [] }
    have hr := layoutBox_crash e.box c 0 (floatY acc.1.shapes e.box.st.clear rootTop) 0 (some e.resume) false true []
      { acc.1 with shapes := [] }
    cases hfr : (layoutBox c e.box 0 (floatY acc.1.shapes e.box.st.clear rootTop) 0 (some e.resume) false true []
        { acc.1 with shapes := [] }).frag with
    | none => rw [hfr] at hsome; simp at hsome
    | some f0 =>
      unfold floatDone
      simp only [hfr]
      exact hr
  · have hsome := layoutAbs_isSome c (boxDepth e.box) e.box e.idx rootTop (some e.resume) acc.1
    have hr := layoutAbs_crash c (boxDepth e.box) e.box e.idx rootTop (some e.resume) acc.1
    cases hfr : (layoutAbs c (boxDepth e.box) e.box e.idx rootTop (some e.resume) acc.1).frag with
    | none => rw [hfr] at hsome; simp at hsome
    | some f => simp only; exact hr

theorem contFold_crash (c : Ctx) (rootTop : Rat) (es : List Broken) (acc : World × List OFrag) :
    (es.foldl (contStep c rootTop) acc).1.crash = acc.1.crash := by
  induction es generalizing acc with
  | nil => rfl
  | cons e es ih => simp only [List.foldl_cons]; rw [ih, contStep_crash]

theorem absStep_crash (c : Ctx) (acc : World × List (Nat × OFrag)) (e : AbsEntry) :
    (absStep c acc e).1.crash = acc.1.crash := by
  unfold absStep
  dsimp only
  have hsome := layoutAbs_isSome c (boxDepth e.box) e.box e.idx e.y none acc.1
  have hr := layoutAbs_crash c (boxDepth e.box) e.box e.idx e.y none acc.1
  cases hfr : (layoutAbs c (boxDepth e.box) e.box e.idx e.y none acc.1).frag with
  | none => rw [hfr] at hsome; simp at hsome
  | some f => simp only; exact hr

theorem absFold_crash (c : Ctx) (es : List AbsEntry) (acc : World × List (Nat × OFrag)) :
    (es.foldl (absStep c) acc).1.crash = acc.1.crash := by
  induction es generalizing acc with
  | nil => rfl
  | cons e es ih => simp only [List.foldl_cons]; rw [ih, absStep_crash]

/-- No page is ever marked as crashed: `float_layout` and `absolute_box_layout` always get a box. -/
theorem remakePage_no_crash (d : Doc) (index : Nat) (resume : Option Resume) (np : NextPage) (right : Bool)
    (brokenIn : List Broken) (rootTop : Rat) (p : Page)
    (hp : remakePage d index resume np right brokenIn rootTop = some p) : p.crash = false := by
  unfold remakePage at hp
  dsimp only at hp
  split at hp
  · simp at hp
  · simp only [Option.some.injEq] at hp
    rw [← hp]
    simp only
    rw [absFold_crash]
    simp only
    rw [layoutBox_crash, contFold_crash]
    rfl

end Wp.PMO
