/-
Page-level lifting of `container_after_span_fits` (`Lemmas/ColGeoStrict.lean`): `strictLines` collects, over a whole
fragment tree, the lines of the column boxes that follow a spanning block in their container (none exempt); every
one of them ends above the bottom space of the layout call, hence above the page bottom.
-/
import WpModel.Lemmas.ColGeoStrict

namespace Wp.PMC
open Wp Wp.PM

mutual
/-- The `afterSpan` lines of every container fragment of the tree. -/
def strictLines (lh : Nat → Rat) : CFrag → List PlacedLine
  | .para _ _ _ _ _ _ => []
  | .block _ _ _ _ kids => strictList lh kids
  | .cols _ _ _ _ kids => afterSpan lh kids false ++ strictList lh kids
  | .column _ _ _ _ kids => strictList lh kids
def strictList (lh : Nat → Rat) : List CFrag → List PlacedLine
  | [] => []
  | f :: rest => strictLines lh f ++ strictList lh rest
end

theorem strictList_append (lh : Nat → Rat) (xs ys : List CFrag) :
    strictList lh (xs ++ ys) = strictList lh xs ++ strictList lh ys := by
  induction xs with
  | nil => simp [strictList]
  | cons x xs ih => simp [strictList, ih]

@[simp] theorem strictLines_withIdx (lh : Nat → Rat) (f : CFrag) (i : Nat) :
    strictLines lh (f.withIdx i) = strictLines lh f := by
  cases f <;> simp [CFrag.withIdx, strictLines]

@[simp] theorem strictLines_withGeo (lh : Nat → Rat) (f : CFrag) (g : Geo) :
    strictLines lh (f.withGeo g) = strictLines lh f := by
  cases f <;> simp [CFrag.withGeo, strictLines]

@[simp] theorem strictLines_cutEnd (lh : Nat → Rat) (f : CFrag) : strictLines lh f.cutEnd = strictLines lh f := by
  cases f <;> simp [CFrag.cutEnd, strictLines]

theorem strictList_map_setColHeight (lh : Nat → Rat) (h : Rat) (l : List CFrag) :
    strictList lh (l.map (setColHeight h)) = strictList lh l := by
  induction l with
  | nil => rfl
  | cons f fs ih => simp [strictList, ih, setColHeight]

theorem strictList_addTrailing (lh : Nat → Rat) (diff : Rat) (l : List CFrag) :
    strictList lh (addTrailing diff l).1 = strictList lh l := by
  induction l with
  | nil => simp [addTrailing]
  | cons f fs ih =>
    simp only [addTrailing]
    split <;> simp [strictList, ih, setColHeight]

/-! ### `find_earlier_page_break` keeps a part of what was laid out -/

mutual
theorem findEarlierGo_strict (lh : Nat → Rat) (inCol : Bool) : (fs : List CFrag) →
    ∀ (kept : List CFrag) (r : Resume), (findEarlierGo inCol fs).found = some (kept, r) →
    ∀ p ∈ strictList lh kept, p ∈ strictList lh fs
  | [] => by
    intro kept r h
    simp [findEarlierGo] at h
  | x :: xs => by
    intro kept r h
    rw [findEarlierGo] at h
    dsimp only at h
    split at h
    · rename_i kept0 r0 hfound
      simp only [Option.some.injEq, Prod.mk.injEq] at h
      obtain ⟨rfl, rfl⟩ := h
      have ih := findEarlierGo_strict lh inCol xs kept0 r0 hfound
      intro p hp
      simp only [strictList, List.mem_append] at hp ⊢
      rcases hp with hp | hp
      · left; exact hp
      · right; exact ih p hp
    · rename_i hnone
      split at h
      · rw [hnone] at h; cases h
      · split at h
        · simp only [Option.some.injEq, Prod.mk.injEq] at h
          obtain ⟨rfl, rfl⟩ := h
          intro p hp
          simp only [strictList, List.mem_append, List.append_nil] at hp ⊢
          left; exact hp
        · split at h
          · split at h
            · rename_i x' r1 hfe
              simp only [Option.some.injEq, Prod.mk.injEq] at h
              obtain ⟨rfl, rfl⟩ := h
              have hsub := findEarlierFrag_strict lh inCol x x' r1 hfe
              intro p hp
              simp only [strictList, List.mem_append, List.append_nil, strictLines_cutEnd] at hp ⊢
              left
              exact hsub p hp
            · cases h
          · cases h
theorem findEarlierFrag_strict (lh : Nat → Rat) (inCol : Bool) : (x : CFrag) → ∀ (x' : CFrag) (r : Resume),
    findEarlierFrag inCol x = some (x', r) → ∀ p ∈ strictLines lh x', p ∈ strictLines lh x
  | .para id idx st n g lines => by
    intro x' r h
    simp only [findEarlierFrag, findEarlierPara] at h
    split at h
    · cases h
    · split at h
      · cases h
      · split at h
        · simp only [Option.some.injEq, Prod.mk.injEq] at h
          obtain ⟨rfl, _⟩ := h
          intro p hp; simp [strictLines] at hp
        · cases h
  | .block id idx st g kids => by
    intro x' r h
    simp only [findEarlierFrag] at h
    split at h
    · rename_i kids' r0 hfound
      simp only [Option.some.injEq, Prod.mk.injEq] at h
      obtain ⟨rfl, rfl⟩ := h
      simp only [strictLines]
      exact findEarlierGo_strict lh inCol kids kids' r0 hfound
    · cases h
  | .cols id idx st g kids => by
    intro x' r h
    simp [findEarlierFrag] at h
  | .column _ _ _ _ _ => by
    intro x' r h
    simp [findEarlierFrag] at h
end

/-! ### the children loop -/

theorem concludeKid_strict (lh : Nat → Rat) (c : CCtx) (bs : Rat) (index : Nat) (pie : Bool) (pb : Brk)
    (child : ColBox) (s : KidsLoop) (frag : Option CFrag) (resume : Option Resume)
    (hs : LinesOk c bs (strictList lh s.newChildren))
    (hf : ∀ f, frag = some f → LinesOk c bs (strictLines lh f)) :
    (∀ out s3, concludeKid c index pie pb child s frag resume = (some out, s3) →
      LinesOk c bs (strictList lh out.children)) ∧
    (∀ s3, concludeKid c index pie pb child s frag resume = (none, s3) →
      LinesOk c bs (strictList lh s3.newChildren)) := by
  cases frag with
  | none =>
    constructor
    · intro out s3 h
      unfold concludeKid at h
      dsimp only at h
      split at h
      · rename_i kept r' hearlier
        simp only [Prod.mk.injEq, Option.some.injEq] at h
        obtain ⟨rfl, rfl⟩ := h
        have hfound : findEarlierList c.inColumn s.newChildren = some (kept, r') := by
          split at hearlier
          · exact hearlier
          · cases hearlier
        exact linesOk_sub c bs _ _ (findEarlierGo_strict lh _ _ _ _ hfound) hs
      · split at h
        · simp only [Prod.mk.injEq, Option.some.injEq] at h
          obtain ⟨rfl, rfl⟩ := h
          exact hs
        · split at h
          · simp only [Prod.mk.injEq, Option.some.injEq] at h
            obtain ⟨rfl, rfl⟩ := h
            exact hs
          · simp only [Prod.mk.injEq, Option.some.injEq] at h
            obtain ⟨rfl, rfl⟩ := h
            exact hs
    · intro s3 h
      unfold concludeKid at h
      dsimp only at h
      split at h
      · simp at h
      · split at h
        · simp at h
        · split at h <;> simp at h
  | some f =>
    have hnew : LinesOk c bs (strictList lh (s.newChildren ++ [f.withIdx index])) := by
      rw [strictList_append, linesOk_append]
      refine ⟨hs, ?_⟩
      simp only [strictList, List.append_nil, strictLines_withIdx]
      exact hf f rfl
    cases resume with
    | some r' =>
      constructor
      · intro out s3 h
        simp only [concludeKid, Prod.mk.injEq, Option.some.injEq] at h
        obtain ⟨rfl, rfl⟩ := h
        exact hnew
      · intro s3 h
        simp [concludeKid] at h
    | none =>
      constructor
      · intro out s3 h
        simp [concludeKid] at h
      · intro s3 h
        simp only [concludeKid, Prod.mk.injEq, true_and] at h
        subst h
        exact hnew

/-! ### `columns_layout` -/

theorem strictLines_column (lh : Nat → Rat) (f : CFrag) (h : f.isColumn = true) :
    strictLines lh f = strictList lh f.kids := by
  cases f <;> first | (simp [CFrag.isColumn] at h; done) | simp [strictLines, CFrag.kids]

/-- What the lifting needs from the two layout functions `columns_layout` calls. -/
structure EnvNested (lh : Nat → Rat) (env : ColEnv) : Prop where
  col : ∀ (c : CCtx) (a : Nat) (x y bs : Rat) (σ : Option Resume) (pie : Bool) (f : CFrag),
    (env.layCol c a x y bs σ pie).frag = some f → f.isColumn = true ∧ LinesOk c bs (strictList lh f.kids)
  span : ∀ (c : CCtx) (i : Nat) (y bs : Rat) (σ : Option Resume) (pie : Bool) (adjL : List Rat) (f : CFrag),
    (env.laySpan c i y bs σ pie adjL).frag = some f → LinesOk c bs (strictLines lh f)

theorem realLoop_nested (lh : Nat → Rat) (env : ColEnv) (hn : EnvNested lh env) (c : CCtx) (a : Nat) (y : Rat)
    (cs : ColSpec) (opie hd : Bool) (obs : Rat) (bsIn : Rat) :
    ∀ (fuel i : Nat) (s : RealOut), s.bs = bsIn → LinesOk c bsIn (strictList lh s.columns) →
      LinesOk c bsIn (strictList lh (realLoop env c a y cs opie hd obs fuel i s).columns) := by
  intro fuel
  induction fuel with
  | zero => intro i s _ h; simpa [realLoop] using h
  | succ fuel ih =>
    intro i s hb h
    unfold realLoop
    dsimp only
    split
    · exact h
    · split
      · exact linesOk_nil c bsIn
      · rename_i f0 hf0
        have hfit := hn.col c a (colX cs i) y s.bs s.skip opie f0 hf0
        rw [hb] at hfit
        have hnew : LinesOk c bsIn (strictList lh (s.columns ++ [f0])) := by
          rw [strictList_append, linesOk_append]
          refine ⟨h, ?_⟩
          simp only [strictList, List.append_nil]
          rw [strictLines_column lh f0 hfit.1]
          exact hfit.2
        split
        · exact hnew
        · split
          · exact hnew
          · exact ih (i + 1) _ hb hnew

theorem colsLoop_nested (lh : Nat → Rat) (env : ColEnv) (he : EnvFits lh env) (hn : EnvNested lh env) (c : CCtx)
    (cs : ColSpec) (hd : Bool) (obs : Rat) (last fuel : Nat) :
    ∀ (items : List ColItem) (s : ColsState), obs ≤ s.bs →
      LinesOk c obs (strictList lh s.newChildren) →
      LinesOk c obs (strictList lh (colsLoop env c cs hd obs last fuel items s).newChildren) := by
  intro items
  induction items with
  | nil => intro s _ h; simpa [colsLoop] using h
  | cons it rest ih =>
    intro s hbs hok
    cases it with
    | span i =>
      unfold colsLoop
      dsimp only
      split
      · exact hok
      · split
        · exact hok
        · rename_i f hf
          have hfit := hn.span c i s.y obs (subSkipOf s.skip) s.pie s.adj f hf
          have hnew : LinesOk c obs (strictList lh (s.newChildren ++ [f])) := by
            rw [strictList_append, linesOk_append]
            refine ⟨hok, ?_⟩
            simpa [strictList] using hfit
          split
          · exact hnew
          · exact ih _ hbs hnew
    | group a len =>
      unfold colsLoop
      dsimp only
      split
      · exact hok
      · generalize hbsIn : (if c.pageBottom - (s.y + collapseMargin s.adj) -
            (trialLoop env c a 0 (s.y + collapseMargin s.adj) (c.pageBottom - (s.y + collapseMargin s.adj) - obs)
              cs.count s.skip (cs.balance || decide (a < last)) s.nextPage).height > s.bs
          then c.pageBottom - (s.y + collapseMargin s.adj) -
            (trialLoop env c a 0 (s.y + collapseMargin s.adj) (c.pageBottom - (s.y + collapseMargin s.adj) - obs)
              cs.count s.skip (cs.balance || decide (a < last)) s.nextPage).height
          else s.bs) = bsIn
        have hle : obs ≤ bsIn := by
          rw [← hbsIn]
          split
          · rename_i h; exact Rat.le_trans hbs (Rat.le_of_lt h)
          · exact hbs
        generalize hR : realLoop env c a (s.y + collapseMargin s.adj) cs s.pie hd obs fuel 0
          { columns := [], maxColH := 0, skip := s.skip, colSkip := s.colSkip,
            nextPage := (trialLoop env c a 0 (s.y + collapseMargin s.adj)
              (c.pageBottom - (s.y + collapseMargin s.adj) - obs) cs.count s.skip
              (cs.balance || decide (a < last)) s.nextPage).nextPage,
            bs := bsIn, breakPage := s.breakPage, err := none } = R
        have hfits := realLoop_fits lh env he c a (s.y + collapseMargin s.adj) cs s.pie hd obs bsIn fuel 0
          { columns := [], maxColH := 0, skip := s.skip, colSkip := s.colSkip,
            nextPage := (trialLoop env c a 0 (s.y + collapseMargin s.adj)
              (c.pageBottom - (s.y + collapseMargin s.adj) - obs) cs.count s.skip
              (cs.balance || decide (a < last)) s.nextPage).nextPage,
            bs := bsIn, breakPage := s.breakPage, err := none } rfl hle (linesOk_nil c bsIn)
        have hreal := realLoop_nested lh env hn c a (s.y + collapseMargin s.adj) cs s.pie hd obs bsIn fuel 0
          { columns := [], maxColH := 0, skip := s.skip, colSkip := s.colSkip,
            nextPage := (trialLoop env c a 0 (s.y + collapseMargin s.adj)
              (c.pageBottom - (s.y + collapseMargin s.adj) - obs) cs.count s.skip
              (cs.balance || decide (a < last)) s.nextPage).nextPage,
            bs := bsIn, breakPage := s.breakPage, err := none } rfl (linesOk_nil c bsIn)
        rw [hR] at hreal hfits
        split
        · exact hok
        · have hnew : LinesOk c obs (strictList lh (s.newChildren ++ R.columns.map (setColHeight R.maxColH))) := by
            rw [strictList_append, linesOk_append, strictList_map_setColHeight]
            exact ⟨hok, linesOk_mono c obs bsIn _ hle hreal⟩
          split
          · exact hnew
          · exact ih _ hfits.2 hnew

theorem columnsLayout_page (lh : Nat → Rat) (env : ColEnv) (he : EnvFits lh env) (hs : EnvStrict lh env)
    (hn : EnvNested lh env)
    (c : CCtx) (id idx : Nat) (st : PStyle) (cs : ColSpec) (flags : List Bool) (nkids fuel : Nat) (mt y0 bs0 : Rat)
    (skip : Option Resume) (pie : Bool) (adjL : List Rat) (f : CFrag)
    (h : (columnsLayout env c id idx st cs flags nkids fuel mt y0 bs0 skip pie adjL).frag = some f) :
    LinesOk c bs0 (strictLines lh f) := by
  have hstrict := columnsLayout_strict lh env he hs c id idx st cs flags nkids fuel mt y0 bs0 skip pie adjL f h
  unfold columnsLayout at h
  split at h
  · simp [raisedResult] at h
  · dsimp only at h
    obtain ⟨g, diff, rfl, _, _, _⟩ := colsFinish_frag _ _ _ _ _ _ _ _ _ _ h
    simp only [strictLines, CFrag.kids] at hstrict ⊢
    rw [linesOk_append]
    refine ⟨hstrict, ?_⟩
    rw [strictList_addTrailing, ← linesOk_inColumn c true]
    apply colsLoop_nested lh env he hn
    · simp only [colsInit]
      split
      · split
        · rename_i hgt; exact Rat.le_of_lt hgt
        · exact Rat.le_refl
      · exact Rat.le_refl
    · simp only [colsInit, strictList]
      exact linesOk_nil _ _

theorem columnsBoxLayout_page (lh : Nat → Rat) (env : ColEnv) (he : EnvFits lh env) (hs : EnvStrict lh env)
    (hn : EnvNested lh env)
    (c : CCtx) (id idx : Nat) (st : PStyle) (cs : ColSpec) (flags : List Bool) (nkids fuel : Nat) (y bs : Rat)
    (skip : Option Resume) (cb pie : Bool) (adjL : List Rat) (f : CFrag)
    (h : (columnsBoxLayout env c id idx st cs flags nkids fuel y bs skip cb pie adjL).frag = some f) :
    LinesOk c bs (strictLines lh f) := by
  unfold columnsBoxLayout at h
  dsimp only at h
  generalize (if (decide (c.currentPage > 1) && pie && (cb || !adjL.isEmpty) && !c.forcedBreak) = true
    then (0 : Rat) else st.mt) = mt at h
  have h1 := fun b g hg =>
    columnsLayout_page lh env he hs hn c id idx st cs flags nkids fuel mt y b skip pie adjL g hg
  split at h
  · exact h1 bs f h
  · split at h
    · split at h
      · simp [raisedResult] at h
      · split at h
        · rename_i hpos
          refine linesOk_mono c bs _ _ ?_ (h1 _ f h)
          have : (0 : Rat) < _ := hpos
          grind
        · exact h1 bs f h
    · exact h1 bs f h

/-! ### the whole layout -/

mutual
/-- **Every column box that follows a spanning block, anywhere in the fragment tree of a layout, fits entirely.** -/
theorem box_page (lh : Nat → Rat) : (box : ColBox) → DecoOk box → LhOk lh box → ∀ (c : CCtx) (idx : Nat) (y bs : Rat)
    (skip : Option Resume) (cb pie : Bool) (adjL : List Rat) (f : CFrag),
    (layoutBox c box idx y bs skip cb pie adjL).frag = some f → LinesOk c bs (strictLines lh f)
  | .para id n lineH st => by
    intro hd hl c idx y bs skip cb pie adjL f hf
    simp only [layoutBox] at hf
    obtain ⟨g, rfl, _⟩ := finishPara_frag' _ _ _ _ _ _ _ _ _ hf
    simp only [strictLines]
    exact linesOk_nil c bs
  | .block id st kids => by
    intro hd hl c idx y bs skip cb pie adjL f hf
    unfold DecoOk at hd
    unfold LhOk at hl
    simp only [layoutBox] at hf
    obtain ⟨g, rfl, _⟩ := finishBlock_frag _ _ _ _ _ _ _ _ hf
    simp only [strictLines]
    apply linesOk_mono c bs _ _ (prepareC_bs_le false c.base st y bs skip cb pie adjL hd.1)
    exact kids_page lh kids hd.2 hl c st [] 0 (skipIdxOf skip) 0 _ pie _ (by simp [strictList, linesOk_nil])
  | .columns id st cs flags kids => by
    intro hd hl c idx y bs skip cb pie adjL f hf
    have hd0 := hd
    have hl0 := hl
    unfold DecoOk at hd
    unfold LhOk at hl
    simp only [layoutBox] at hf
    refine columnsBoxLayout_page lh _ ?_ ?_ ?_ c id idx st cs flags kids.length (sizeKids kids + 1) y bs skip cb pie
      adjL f hf
    · constructor
      · intro c' a x y' bs' σ pie' f' hf'
        dsimp only at hf'
        obtain ⟨g, rfl, _⟩ := finishBlock_frag _ _ _ _ _ _ _ _ hf'
        refine ⟨rfl, ?_⟩
        simp only [placedLines]
        apply linesOk_placedList_anyPie lh c' bs' _ pie'
        apply linesOk_mono c' bs' _ _
          (prepareC_bs_le true c'.base (columnStyle st) y' bs' σ false pie' [] (columnStyle_decoOk st))
        exact kids_fits lh kids hd.2 hl c' (columnStyle st) _ 0 _ a _ pie' _ (by simp [placedList, linesOk_nil])
      · intro c' i y' bs' σ pie' adjL' f' hf'
        exact nth_fits lh kids hd.2 hl c' i y' bs' σ cb pie' adjL' f' hf'
    · constructor
      · intro c' a x y' bs' σ pie' f' hf'
        dsimp only at hf'
        obtain ⟨g, rfl, _⟩ := finishBlock_frag _ _ _ _ _ _ _ _ hf'
        refine ⟨rfl, ?_⟩
        simp only [CFrag.kids]
        apply linesOk_mono c' bs' _ _
          (prepareC_bs_le true c'.base (columnStyle st) y' bs' σ false pie' [] (columnStyle_decoOk st))
        exact kids_fits lh kids hd.2 hl c' (columnStyle st) _ 0 _ a _ pie' _ (by simp [placedList, linesOk_nil])
      · intro c' i y' bs' σ pie' adjL' f' hf'
        exact layoutNth_not_column c' kids i y' bs' σ cb pie' adjL' f' hf'
    · constructor
      · intro c' a x y' bs' σ pie' f' hf'
        dsimp only at hf'
        obtain ⟨g, rfl, _⟩ := finishBlock_frag _ _ _ _ _ _ _ _ hf'
        refine ⟨rfl, ?_⟩
        simp only [CFrag.kids]
        apply linesOk_mono c' bs' _ _
          (prepareC_bs_le true c'.base (columnStyle st) y' bs' σ false pie' [] (columnStyle_decoOk st))
        exact kids_page lh kids hd.2 hl c' (columnStyle st) _ 0 _ a _ pie' _ (by simp [strictList, linesOk_nil])
      · intro c' i y' bs' σ pie' adjL' f' hf'
        exact nth_page lh kids hd.2 hl c' i y' bs' σ cb pie' adjL' f' hf'
theorem nth_page (lh : Nat → Rat) : (kids : List ColBox) → DecoOkList kids → LhOkList lh kids → ∀ (c : CCtx) (i : Nat)
    (y bs : Rat) (skip : Option Resume) (cb pie : Bool) (adjL : List Rat) (f : CFrag),
    (layoutNth c kids i y bs skip cb pie adjL).frag = some f → LinesOk c bs (strictLines lh f)
  | [] => by
    intro _ _ c i y bs skip cb pie adjL f hf
    simp [layoutNth, raisedResult] at hf
  | b :: rest => by
    intro hd hl c i y bs skip cb pie adjL f hf
    unfold DecoOkList at hd
    unfold LhOkList at hl
    cases i with
    | zero =>
      simp only [layoutNth] at hf
      exact box_page lh b hd.1 hl.1 c 0 y bs skip cb pie adjL f hf
    | succ i =>
      simp only [layoutNth] at hf
      exact nth_page lh rest hd.2 hl.2 c i y bs skip cb pie adjL f hf
theorem kids_page (lh : Nat → Rat) : (rest : List ColBox) → DecoOkList rest → LhOkList lh rest → ∀ (c : CCtx)
    (st : PStyle) (flags : List Bool) (index skipIdx base : Nat) (bs : Rat) (pie : Bool) (s : KidsLoop),
    LinesOk c bs (strictList lh s.newChildren) →
    LinesOk c bs (strictList lh (layoutKids c st rest flags index skipIdx base bs pie s).children)
  | [] => by
    intro _ _ c st flags index skipIdx base bs pie s hs
    simpa [layoutKids, KidsOutcome.children] using hs
  | child :: rest => by
    intro hd hl c st flags index skipIdx base bs pie s hs
    unfold DecoOkList at hd
    unfold LhOkList at hl
    unfold layoutKids
    split
    · exact kids_page lh rest hd.2 hl.2 c st flags.tail (index + 1) skipIdx base bs pie s hs
    · split
      · simpa [KidsOutcome.children] using hs
      · dsimp only
        split
        · simpa [KidsOutcome.children] using hs
        · split
          · exact linesOk_nil c bs
          · split
            · -- first pass kept (or discarded) the child
              rename_i frag posY hfp
              have hfrag : ∀ f, frag = some f → LinesOk c bs (strictLines lh f) := by
                intro f hf
                rcases firstPass_keep _ _ _ _ _ _ _ hfp with h | h
                · rw [h] at hf; cases hf
                · rw [h] at hf
                  exact box_page lh child hd.1 hl.1 _ _ _ _ _ _ _ _ f hf
              split
              · rename_i out s3 heq
                refine (concludeKid_strict lh c bs _ pie _ child _ _ _ ?_ ?_).1 out s3 heq
                · simpa using hs
                · simpa using hfrag
              · rename_i s3 heq
                refine kids_page lh rest hd.2 hl.2 c st flags.tail (index + 1) skipIdx base bs pie s3
                  ((concludeKid_strict lh c bs _ pie _ child _ _ _ ?_ ?_).2 s3 heq)
                · simpa using hs
                · simpa using hfrag
            · -- second layout with a larger bottom space
              rename_i bs' hfp
              obtain ⟨f1, hf1, hbs'⟩ := firstPass_redo _ _ _ _ _ _ hfp
              have hle : bs ≤ bs' := by
                have h1 := (box_fits lh child hd.1 hl.1 _ _ _ _ _ _ _ _ f1 hf1).2
                have h2 := DecoOk.pbbb child hd.1
                rcases h1 with ⟨h3, h4⟩ | ⟨h3, h4⟩ <;> rw [hbs', h3, h4] <;> grind
              split
              · exact linesOk_nil c bs
              · have hfrag : ∀ f,
                    (layoutBox c child (index - base) s.posY bs' s.skip st.isRoot (pie && s.newChildren.isEmpty)
                      (s.setCur (layoutBox c child (index - base) s.posY bs s.skip st.isRoot
                        (pie && s.newChildren.isEmpty) s.cur).adjL s.curIsL).cur).frag = some f →
                    LinesOk c bs (strictLines lh f) := by
                  intro f hf
                  exact linesOk_mono c bs bs' _ hle (box_page lh child hd.1 hl.1 _ _ _ _ _ _ _ _ f hf)
                split
                · rename_i out s3 heq
                  refine (concludeKid_strict lh c bs _ pie _ child _ _ _ ?_ ?_).1 out s3 heq
                  · simpa using hs
                  · simpa using hfrag
                · rename_i s3 heq
                  refine kids_page lh rest hd.2 hl.2 c st flags.tail (index + 1) skipIdx base bs pie s3
                    ((concludeKid_strict lh c bs _ pie _ child _ _ _ ?_ ?_).2 s3 heq)
                  · simpa using hs
                  · simpa using hfrag
end

end Wp.PMC
