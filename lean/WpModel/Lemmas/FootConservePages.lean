/-
Footnote conservation, page level: `make_page`'s reported-footnotes loop, one page, all pages.
-/
import WpModel.Lemmas.FootConserve
import WpModel.Lemmas.FootPages

namespace Wp.PMF
open Wp Wp.PM

/-! ### the reported footnotes are placed first -/

theorem placeReported_spec (c : FCtx) (L : List Fn) (i : Nat) (fs : FState) (hok : StOk fs) (hr : fs.reported = [])
    (hL : ∀ f ∈ L, f ∉ fs.pending ∧ f ∉ act fs) (hnd : L.Nodup) :
    StOk (placeReported c L i fs) ∧ act (placeReported c L i fs) = act fs ++ L ∧
    (placeReported c L i fs).pending = fs.pending := by
  induction L generalizing i fs with
  | nil => simp [placeReported, hok]
  | cons f rest ih =>
    rw [List.nodup_cons] at hnd
    obtain ⟨hfp, hfa⟩ := hL f (by simp)
    have hfc : f ∉ fs.cur := fun h => hfa (by simp [act, h])
    have hpe : (fs.pending ++ [f]).erase f = fs.pending := by
      rw [List.erase_append_right _ hfp]; simp
    unfold placeReported
    dsimp only
    -- state after `layout_footnote`
    have hp1 : (layoutFootnote c { fs with pending := fs.pending ++ [f] } f).1.pending = fs.pending := by
      simp [hpe]
    have hc1 : (layoutFootnote c { fs with pending := fs.pending ++ [f] } f).1.cur = fs.cur ++ [f] := by simp
    have hr1 : (layoutFootnote c { fs with pending := fs.pending ++ [f] } f).1.reported = [] := by simp [hr]
    have hact0 : act fs = fs.cur := by simp [act, hr]
    split
    · -- overflow: this footnote and the following ones stay reported
      refine ⟨⟨?_, ?_, ?_⟩, ?_, ?_⟩
      · simpa [hpe] using hok.pnd
      · have : act { reportFootnote c (layoutFootnote c { fs with pending := fs.pending ++ [f] } f).1 f with
            reported := f :: rest } = fs.cur ++ f :: rest := by
          simp only [act, reportFootnote_cur, hc1]
          rw [List.erase_append_right _ hfc]; simp
        rw [this, List.nodup_append]
        have hcn : fs.cur.Nodup := by rw [← hact0]; exact hok.actnd
        refine ⟨hcn, List.nodup_cons.mpr hnd, ?_⟩
        intro a ha b hb he
        subst he
        exact (hL a hb).2 (by rw [hact0]; exact ha)
      · intro g hg
        have : act { reportFootnote c (layoutFootnote c { fs with pending := fs.pending ++ [f] } f).1 f with
            reported := f :: rest } = fs.cur ++ f :: rest := by
          simp only [act, reportFootnote_cur, hc1]
          rw [List.erase_append_right _ hfc]; simp
        rw [this] at hg
        simp only [reportFootnote_pending, hp1]
        simp only [List.mem_append] at hg
        rcases hg with h | h
        · exact hok.disj g (by rw [hact0]; exact h)
        · exact (hL g h).1
      · simp only [act, reportFootnote_cur, hc1]
        rw [List.erase_append_right _ hfc, hr]; simp
      · simp [hpe]
    · -- placed; go on
      have hok1 : StOk (layoutFootnote c { fs with pending := fs.pending ++ [f] } f).1 := by
        refine ⟨by rw [hp1]; exact hok.pnd, ?_, ?_⟩
        · simp only [act, hc1, hr1, List.append_nil]
          rw [List.nodup_append]
          have hcn : fs.cur.Nodup := by rw [← hact0]; exact hok.actnd
          refine ⟨hcn, by simp, ?_⟩
          intro a ha b hb he
          simp only [List.mem_singleton] at hb
          subst hb; subst he; exact hfc ha
        · intro g hg
          simp only [act, hc1, hr1, List.append_nil, List.mem_append, List.mem_singleton] at hg
          rw [hp1]
          rcases hg with h | h
          · exact hok.disj g (by rw [hact0]; exact h)
          · subst h; exact hfp
      have hact1 : act (layoutFootnote c { fs with pending := fs.pending ++ [f] } f).1 = act fs ++ [f] := by
        simp [act, hr]
      obtain ⟨i1, i2, i3⟩ := ih (i + 1) _ hok1 hr1 (by
        intro g hg
        rw [hp1, hact1]
        refine ⟨(hL g (by simp [hg])).1, ?_⟩
        simp only [List.mem_append, List.mem_singleton, not_or]
        exact ⟨(hL g (by simp [hg])).2, fun he => hnd.1 (he ▸ hg)⟩) hnd.2
      refine ⟨i1, ?_, ?_⟩
      · rw [i2, hact1]; simp
      · rw [i3, hp1]

/-! ### an emptied root (blank page) leaves the footnote state alone -/

theorem emptyRootF_state (c : FCtx) (b : FootBox) (idx : Nat) (y bs : Rat) (skip : Option Resume) (cb pie : Bool)
    (adjL : List Rat) (fs : FState) :
    (layoutBoxF c (emptyRootF b) idx y bs skip cb pie adjL fs).fs = fs := by
  cases b with
  | para id n lineH st calls =>
    simp only [emptyRootF, layoutBoxF]
    rw [lineboxLayoutF_embed, finishParaF_embed]
  | block id st kids =>
    simp only [emptyRootF, layoutBoxF, layoutKidsF, finishBlockF]

/-! ### what is left after a page -/

/-- The lines of a page and what remains after it (the case analysis of `makeAllPagesF_lines`, per page). -/
theorem page_remaining (d : FDoc) (hg : Good d.root.erase) (index : Nat) (resume : Option Resume) (np : NextPage)
    (right : Bool) (pending reported : List Fn) (p : FPage)
    (hstart : resume = none → reported = [] → isBlank (requestedSide d.rootLtr np.brk) right = false)
    (hp : remakePageF d index resume np right pending reported = some p) :
    (p.page.resume = none → p.reported = [] → fragLines p.page.root = remaining d resume reported) ∧
    (¬(p.page.resume = none ∧ p.reported = []) →
      fragLines p.page.root ++ remaining d p.page.resume p.reported = remaining d resume reported) := by
  obtain ⟨hbl, _, _⟩ := remakePageF_spec d index resume np right pending reported p hp
  obtain ⟨l1, l2⟩ := remakePageF_lines d hg index resume np right pending reported p hp
  cases hb : p.page.type.blank with
  | true =>
    obtain ⟨hl, hr, hn⟩ := l1 hb
    have hcase : resume ≠ none ∨ (resume = none ∧ reported ≠ []) := by
      by_cases he : resume = none
      · right
        refine ⟨he, fun hrep => ?_⟩
        have := hstart he hrep
        rw [hb] at hbl
        simp [isBlankF, this, hrep] at hbl
      · left; exact he
    constructor
    · intro h1 h2
      rcases hcase with hc | hc
      · rw [hr] at h1; exact absurd h1 hc
      · simp [hl, remaining, hc.1, hc.2]
    · intro hnl
      rw [hl, hr]
      rcases hcase with hc | hc
      · simp [remaining, hc]
      · have hrep : p.reported ≠ [] := by
          intro he; exact hnl ⟨by rw [hr]; exact hc.1, he⟩
        simp [remaining, hc.1, hc.2, hrep]
  | false =>
    obtain ⟨hl, _⟩ := l2 hb
    have hrem : remaining d resume reported = linesFrom d.root.erase resume := by
      rw [hb] at hbl
      unfold remaining
      split
      · rename_i hc
        have : (!reported.isEmpty && resume.isNone) = true := by simp [hc.1, hc.2]
        simp [isBlankF, this] at hbl
      · rfl
    rw [hrem]
    constructor
    · intro h1 _
      rw [h1] at hl
      simpa [restOut] using hl
    · intro hnl
      cases hres : p.page.resume with
      | none =>
        have hrep : p.reported ≠ [] := fun he => hnl ⟨hres, he⟩
        rw [hres] at hl
        simpa [remaining, hrep, restOut] using hl
      | some r =>
        rw [hres] at hl
        simpa [remaining, restOut] using hl

/-! ### one page -/

/-- What holds between two pages: the lists are consistent and every footnote called on a line still to be
laid out is pending. -/
structure PInv (d : FDoc) (resume : Option Resume) (pending reported : List Fn) : Prop where
  pnd : pending.Nodup
  rnd : reported.Nodup
  disj : ∀ g ∈ reported, g ∉ pending
  rem : ∀ g ∈ tblFns (callTable d.root) (remaining d resume reported), g ∈ pending
  remnd : (tblFns (callTable d.root) (remaining d resume reported)).Nodup

theorem remakePageF_foot (d : FDoc) (hok : FootOk (callTable d.root) d.root) (index : Nat) (resume : Option Resume)
    (np : NextPage) (right : Bool) (pending reported : List Fn) (p : FPage)
    (hstart : resume = none → reported = [] → isBlank (requestedSide d.rootLtr np.brk) right = false)
    (hinv : PInv d resume pending reported)
    (hp : remakePageF d index resume np right pending reported = some p) :
    p.cur ++ p.reported = reported ++ tblFns (callTable d.root) (fragLines p.page.root) ∧
    (¬(p.page.resume = none ∧ p.reported = []) → PInv d p.page.resume p.pending p.reported) := by
  have hg : Good d.root.erase := footOk_good _ _ hok
  obtain ⟨hrem1, hrem2⟩ := page_remaining d hg index resume np right pending reported p hstart hp
  obtain ⟨hbl, _, _⟩ := remakePageF_spec d index resume np right pending reported p hp
  obtain ⟨l1, _⟩ := remakePageF_lines d hg index resume np right pending reported p hp
  -- the state in which the root is laid out
  have hfs0 : StOk { pending := pending, cur := [], reported := [], pageBottom := d.pageH, areaH := none } :=
    ⟨hinv.pnd, by simp [act], by simp [act]⟩
  obtain ⟨s1, s2, s3⟩ := placeReported_spec (pageCtxOf d index resume np right reported) reported 0
    { pending := pending, cur := [], reported := [], pageBottom := d.pageH, areaH := none } hfs0 rfl
    (fun f hf => ⟨hinv.disj f hf, by simp [act]⟩) hinv.rnd
  simp only [act, List.nil_append] at s2
  unfold remakePageF at hp
  dsimp only at hp
  split at hp
  · cases hp
  · rename_i f hfrag
    simp only [Option.some.injEq] at hp
    cases hb : isBlankF d resume np right reported with
    | true =>
      -- blank page: the emptied root does nothing
      simp only [hb, ↓reduceIte] at hp hfrag
      have hst := emptyRootF_state (pageCtxOf d index resume np right reported) d.root 0 0 0 resume false true []
        (pageStart d (pageCtxOf d index resume np right reported) pending reported)
      rw [hst] at hp
      subst hp
      have hlines : fragLines f = [] := by
        have := (l1 (by rw [hbl]; exact hb)).1
        simpa using this
      simp only [pageStart] at *
      refine ⟨by rw [hlines]; simpa [tblFns, act] using s2, ?_⟩
      intro hnl
      have hnd := s1.actnd
      simp only [act] at hnd
      rw [List.nodup_append] at hnd
      refine ⟨by rw [s3]; exact hinv.pnd, hnd.2.1, ?_, ?_, ?_⟩
      · intro g hg; exact s1.disj g (by simp [act, hg])
      · intro g hg
        rw [s3]
        apply hinv.rem
        have := hrem2 hnl
        simp only [hlines, List.nil_append] at this
        rw [← this]; exact hg
      · have := hrem2 hnl
        simp only [hlines, List.nil_append] at this
        rw [this]; exact hinv.remnd
    | false =>
      simp only [hb, Bool.false_eq_true, ↓reduceIte] at hp hfrag
      have hrem : remaining d resume reported = linesFrom d.root.erase resume := by
        unfold remaining
        split
        · rename_i hc
          have : (!reported.isEmpty && resume.isNone) = true := by simp [hc.1, hc.2]
          simp [isBlankF, this] at hb
        · rfl
      have hR := boxF_state d.root (pageCtxOf d index resume np right reported) hok 0 0 0 resume false true []
        (pageStart d (pageCtxOf d index resume np right reported) pending reported) (fun _ => rfl) s1
        (by rw [← hrem]; exact hinv.remnd)
        (by intro g hg; simp only [pageStart]; rw [s3]; apply hinv.rem; rw [hrem]; exact hg)
      rw [hfrag] at hR
      obtain ⟨r1, r2, r3⟩ := hR
      subst hp
      simp only [pageStart] at *
      have htbl : (pageCtxOf d index resume np right reported).tbl = callTable d.root := rfl
      simp only [fragFns_some, htbl] at r2 r3
      refine ⟨by simp only [act] at r2; rw [s2] at r2; exact r2, ?_⟩
      intro hnl
      have hnd := r1.actnd
      simp only [act] at hnd
      rw [List.nodup_append] at hnd
      have hsplit := hrem2 hnl
      refine ⟨r1.pnd, hnd.2.1, fun g hg => r1.disj g (by simp [act, hg]), ?_, ?_⟩
      · intro g hg
        have hgall : g ∈ tblFns (callTable d.root) (remaining d resume reported) := by
          rw [← hsplit, tblFns_append]; simp [hg]
        have hgp := hinv.rem g hgall
        rw [← s3] at hgp
        rcases r3 g hgp with h | h
        · exact h
        · exfalso
          have hndall := hinv.remnd
          rw [← hsplit, tblFns_append, List.nodup_append] at hndall
          exact hndall.2.2 g h g hg rfl
      · have hndall := hinv.remnd
        rw [← hsplit, tblFns_append, List.nodup_append] at hndall
        exact hndall.2.1

/-! ### all pages -/

/-- Footnotes in the footnote areas of the pages, in page order. -/
def pagesCur : List FPage → List Fn
  | [] => []
  | p :: ps => p.cur ++ pagesCur ps

theorem makeAllPagesF_foot (d : FDoc) (hok : FootOk (callTable d.root) d.root) : ∀ (fuel index : Nat)
    (resume : Option Resume) (np : NextPage) (right : Bool) (pending reported : List Fn) (pages : List FPage),
    (resume = none → reported = [] → isBlank (requestedSide d.rootLtr np.brk) right = false) →
    PInv d resume pending reported →
    makeAllPagesF d fuel index resume np right pending reported = some pages →
    pagesCur pages = reported ++ tblFns (callTable d.root) (remaining d resume reported) := by
  intro fuel
  induction fuel with
  | zero => intro index resume np right pending reported pages _ _ h; simp [makeAllPagesF] at h
  | succ fuel ih =>
    intro index resume np right pending reported pages hstart hinv h
    have hg : Good d.root.erase := footOk_good _ _ hok
    unfold makeAllPagesF at h
    split at h
    · cases h
    · rename_i p hp
      obtain ⟨hrem1, hrem2⟩ := page_remaining d hg index resume np right pending reported p hstart hp
      obtain ⟨hf1, hf2⟩ := remakePageF_foot d hok index resume np right pending reported p hstart hinv hp
      split at h
      · rename_i hstop
        simp only [Option.some.injEq] at h
        subst h
        simp only [Bool.and_eq_true, Option.isNone_iff_eq_none, List.isEmpty_iff] at hstop
        have := hrem1 hstop.1 hstop.2
        rw [hstop.2, List.append_nil] at hf1
        simp [pagesCur, hf1, this]
      · rename_i hcont
        have hnl : ¬(p.page.resume = none ∧ p.reported = []) := by
          intro hc
          apply hcont
          simp [hc.1, hc.2]
        split at h
        · rename_i ps hps
          simp only [Option.some.injEq] at h
          subst h
          have hi := ih (index + 1) p.page.resume p.page.nextPage (!right) p.pending p.reported ps
            (fun h1 h2 => absurd ⟨h1, h2⟩ hnl) (hf2 hnl) hps
          simp only [pagesCur]
          rw [hi, ← List.append_assoc, hf1, List.append_assoc, ← tblFns_append, hrem2 hnl]
        · cases h

end Wp.PMF
