/-
Helper lemmas for C18 (`resolve_links`, `sorted(pdf_names)`).  Core Lean only.
-/
import WpModel.Model.Outline
import WpModel.Lemmas.C18PdfString

namespace Wp.C18
open Wp Wp.Outline Wp.PdfStr

/-! ### first loop: named destinations -/

theorem pageAnchors_seen (as : List Anchor) :
    ∀ (seen : List String), (pageAnchors as seen).2 = seen ++ (pageAnchors as seen).1.map (·.name) := by
  induction as with
  | nil => intro seen; simp [pageAnchors]
  | cons a as ih =>
    intro seen
    simp only [pageAnchors]
    by_cases h : seen.contains a.name = true
    · rw [if_pos h]; exact ih seen
    · rw [if_neg h]; simp only [List.map_cons]; rw [ih]; simp

theorem pageAnchors_sublist (as : List Anchor) :
    ∀ (seen : List String), List.Sublist (pageAnchors as seen).1 as := by
  induction as with
  | nil => intro seen; simp [pageAnchors]
  | cons a as ih =>
    intro seen
    simp only [pageAnchors]
    by_cases h : seen.contains a.name = true
    · rw [if_pos h]; exact List.Sublist.cons _ (ih seen)
    · rw [if_neg h]; exact List.Sublist.cons_cons _ (ih _)

/-- Kept names are new and pairwise distinct. -/
theorem pageAnchors_nodup (as : List Anchor) :
    ∀ (seen : List String), ((pageAnchors as seen).1.map (·.name)).Nodup ∧
      ∀ n ∈ (pageAnchors as seen).1.map (·.name), n ∉ seen := by
  induction as with
  | nil => intro seen; simp [pageAnchors]
  | cons a as ih =>
    intro seen
    simp only [pageAnchors]
    by_cases h : seen.contains a.name = true
    · rw [if_pos h]; exact ih seen
    · rw [if_neg h]
      have hns : a.name ∉ seen := by
        intro hm; exact h (List.contains_iff_mem.mpr hm)
      obtain ⟨h1, h2⟩ := ih (seen ++ [a.name])
      simp only [List.map_cons, List.nodup_cons, List.mem_cons]
      refine ⟨⟨?_, h1⟩, ?_⟩
      · intro hm; exact h2 _ hm (by simp)
      · intro n hn
        rcases hn with e | e
        · rw [e]; exact hns
        · intro hm; exact h2 n e (by simp [hm])

/-- Every anchor name is either already seen or kept: nothing is lost. -/
theorem pageAnchors_complete (as : List Anchor) :
    ∀ (seen : List String), ∀ a ∈ as, a.name ∈ (pageAnchors as seen).2 := by
  induction as with
  | nil => intro seen a ha; cases ha
  | cons b as ih =>
    intro seen a ha
    simp only [pageAnchors]
    by_cases h : seen.contains b.name = true
    · rw [if_pos h]
      rcases List.mem_cons.mp ha with e | e
      · rw [e, pageAnchors_seen]; exact List.mem_append_left _ (List.contains_iff_mem.mp h)
      · exact ih seen a e
    · rw [if_neg h]
      simp only []
      rcases List.mem_cons.mp ha with e | e
      · rw [e, pageAnchors_seen]; simp
      · exact ih _ a e

/-- The anchor kept for a name is the first one carrying it. -/
theorem pageAnchors_first (as : List Anchor) :
    ∀ (seen : List String) (n : String), n ∉ seen →
      (pageAnchors as seen).1.find? (fun a => a.name == n) = as.find? (fun a => a.name == n) := by
  induction as with
  | nil => intro seen n _; simp [pageAnchors]
  | cons a as ih =>
    intro seen n hn
    simp only [pageAnchors]
    by_cases h : seen.contains a.name = true
    · rw [if_pos h]
      have hne : (a.name == n) = false := by
        apply Bool.eq_false_iff.mpr
        intro he
        have : a.name = n := by simpa using he
        rw [this] at h
        exact hn (List.contains_iff_mem.mp h)
      rw [List.find?_cons, hne]; exact ih seen n hn
    · rw [if_neg h]
      simp only [List.find?_cons]
      by_cases he : (a.name == n) = true
      · rw [he]
      · have he' : (a.name == n) = false := by simpa using he
        rw [he']
        apply ih
        intro hm
        rcases List.mem_append.mp hm with h1 | h1
        · exact hn h1
        · have : n = a.name := by simpa using h1
          rw [this] at he'; simp at he'

/-- Threading `anchors` through the pages is deduplicating the concatenation. -/
theorem allAnchors_flatten (pages : List LPage) :
    ∀ (seen : List String), (allAnchors pages seen).1.flatten = (pageAnchors (pages.flatMap (·.anchors)) seen).1 ∧
      (allAnchors pages seen).2 = (pageAnchors (pages.flatMap (·.anchors)) seen).2 := by
  have happ : ∀ (as bs : List Anchor) (seen : List String),
      (pageAnchors (as ++ bs) seen).1 = (pageAnchors as seen).1 ++ (pageAnchors bs (pageAnchors as seen).2).1 ∧
      (pageAnchors (as ++ bs) seen).2 = (pageAnchors bs (pageAnchors as seen).2).2 := by
    intro as
    induction as with
    | nil => intro bs seen; simp [pageAnchors]
    | cons a as ih =>
      intro bs seen
      simp only [List.cons_append, pageAnchors]
      by_cases h : seen.contains a.name = true
      · simp only [if_pos h]; exact ih bs seen
      · simp only [if_neg h]
        have := ih bs (seen ++ [a.name])
        exact ⟨by rw [this.1]; simp, this.2⟩
  induction pages with
  | nil => intro seen; simp [allAnchors, pageAnchors]
  | cons p rest ih =>
    intro seen
    simp only [allAnchors, List.flatMap_cons, List.flatten_cons]
    have h1 := happ p.anchors (rest.flatMap (·.anchors)) seen
    have h2 := ih (pageAnchors p.anchors seen).2
    exact ⟨by rw [h1.1, h2.1], by rw [h1.2, h2.2]⟩

theorem allAnchors_length (pages : List LPage) :
    ∀ (seen : List String), (allAnchors pages seen).1.length = pages.length := by
  induction pages with
  | nil => intro seen; rfl
  | cons p rest ih => intro seen; simp [allAnchors, ih]

/-- Each page lists only its own anchors. -/
theorem allAnchors_sublist (pages : List LPage) :
    ∀ (seen : List String) (i : Nat) (hi : i < pages.length) (h2 : i < (allAnchors pages seen).1.length),
      List.Sublist ((allAnchors pages seen).1[i]) (pages[i]).anchors := by
  induction pages with
  | nil => intro seen i hi; simp at hi
  | cons p rest ih =>
    intro seen i hi h2
    cases i with
    | zero => simp only [allAnchors, List.getElem_cons_zero]; exact pageAnchors_sublist _ _
    | succ i =>
      simp only [allAnchors, List.getElem_cons_succ]
      exact ih _ i (by simpa using hi) _

/-! ### second loop: links -/

theorem pageLinks_eq_filter (names : List String) (ls : List Link) :
    pageLinks names ls = ls.filter (fun l => !(l.type == "internal") || names.contains l.target) := by
  induction ls with
  | nil => rfl
  | cons l ls ih =>
    simp only [pageLinks, List.filter_cons]
    by_cases h1 : (l.type == "internal") = true
    · rw [if_pos h1]
      by_cases h2 : names.contains l.target = true
      · simp [h1, ih]
      · simp [h1, ih]
    · rw [if_neg h1]; simp [h1, ih]

/-! ### name order -/

/-- Strict lexicographic order on code-point lists (`str.__lt__`). -/
theorem nameLt_irrefl (a : List Nat) : nameLt a a = false := by
  induction a with
  | nil => rfl
  | cons x xs ih => simp [nameLt, ih]

theorem nameLt_trans : ∀ (a b c : List Nat), nameLt a b = true → nameLt b c = true → nameLt a c = true
  | [], [], _, h, _ => by simp [nameLt] at h
  | [], _ :: _, [], _, h => by simp [nameLt] at h
  | [], _ :: _, _ :: _, _, _ => by simp [nameLt]
  | _ :: _, [], _, h, _ => by simp [nameLt] at h
  | _ :: _, _ :: _, [], _, h => by simp [nameLt] at h
  | x :: xs, y :: ys, z :: zs, h1, h2 => by
    simp only [nameLt] at h1 h2 ⊢
    by_cases hxy : x < y
    · by_cases hyz : y < z
      · rw [if_pos (by omega)]
      · rw [if_neg hyz] at h2
        by_cases hzy : z < y
        · rw [if_pos hzy] at h2; simp at h2
        · have : y = z := by omega
          subst this; rw [if_pos hxy]
    · rw [if_neg hxy] at h1
      by_cases hyx : y < x
      · rw [if_pos hyx] at h1; simp at h1
      · rw [if_neg hyx] at h1
        have : x = y := by omega
        subst this
        by_cases hyz : x < z
        · rw [if_pos hyz]
        · rw [if_neg hyz] at h2 ⊢
          by_cases hzy : z < x
          · rw [if_pos hzy] at h2; simp at h2
          · rw [if_neg hzy] at h2 ⊢
            exact nameLt_trans xs ys zs h1 h2

/-- Trichotomy: distinct names are comparable. -/
theorem nameLt_total : ∀ (a b : List Nat), a ≠ b → nameLt a b = true ∨ nameLt b a = true
  | [], [], h => by simp at h
  | [], _ :: _, _ => by simp [nameLt]
  | _ :: _, [], _ => by simp [nameLt]
  | x :: xs, y :: ys, h => by
    simp only [nameLt]
    by_cases hxy : x < y
    · left; rw [if_pos hxy]
    · by_cases hyx : y < x
      · right; rw [if_pos hyx]
      · have : x = y := by omega
        subst this
        simp only [if_neg hxy]
        have hne : xs ≠ ys := by intro e; exact h (by rw [e])
        rcases nameLt_total xs ys hne with h1 | h1
        · left; exact h1
        · right; exact h1

/-- Sorted by name, strictly. -/
def StrictSorted : List (List Nat × Nat) → Prop
  | [] => True
  | [_] => True
  | x :: y :: rest => nameLt x.1 y.1 = true ∧ StrictSorted (y :: rest)

theorem StrictSorted.tail {x : List Nat × Nat} {l : List (List Nat × Nat)} (h : StrictSorted (x :: l)) :
    StrictSorted l := by
  cases l with
  | nil => trivial
  | cons y rest => exact h.2

/-- A `(name, destination)` pair as a PDF reader sees it: the key bytes and the destination. -/
def withKey (e : List Nat × Nat) : List Nat × Nat := (keyBytes e.1, e.2)

theorem insertName_perm (x : List Nat × Nat) (l : List (List Nat × Nat)) : (insertName x l).Perm (x :: l) := by
  induction l with
  | nil => simp [insertName]
  | cons y ys ih =>
    simp only [insertName]
    by_cases h : nameLt (keyBytes y.1) (keyBytes x.1) = true
    · rw [if_pos h]
      exact (List.Perm.cons y ih).trans (List.Perm.swap x y ys)
    · rw [if_neg h]

theorem sortNames_perm (l : List (List Nat × Nat)) : (sortNames l).Perm l := by
  induction l with
  | nil => simp [sortNames]
  | cons x xs ih =>
    simp only [sortNames]
    exact (insertName_perm x (sortNames xs)).trans (List.Perm.cons x ih)

theorem insertName_sorted (x : List Nat × Nat) (l : List (List Nat × Nat)) (hs : StrictSorted (l.map withKey))
    (hne : ∀ y ∈ l, keyBytes y.1 ≠ keyBytes x.1) : StrictSorted ((insertName x l).map withKey) := by
  induction l with
  | nil => simp [insertName, StrictSorted]
  | cons y ys ih =>
    simp only [insertName]
    by_cases h : nameLt (keyBytes y.1) (keyBytes x.1) = true
    · rw [if_pos h]
      have hrec := ih hs.tail (fun z hz => hne z (List.mem_cons_of_mem _ hz))
      -- the head of `insertName x ys` is `x` or the head of `ys`
      cases ys with
      | nil => simp only [insertName, List.map_cons, List.map_nil, StrictSorted]; exact ⟨h, trivial⟩
      | cons z zs =>
        simp only [insertName] at hrec ⊢
        by_cases h2 : nameLt (keyBytes z.1) (keyBytes x.1) = true
        · rw [if_pos h2] at hrec ⊢
          exact ⟨hs.1, hrec⟩
        · rw [if_neg h2] at hrec ⊢
          exact ⟨h, hrec⟩
    · rw [if_neg h]
      have hxy : nameLt (keyBytes x.1) (keyBytes y.1) = true := by
        rcases nameLt_total (keyBytes x.1) (keyBytes y.1) (fun e => hne y (by simp) e.symm) with h1 | h1
        · exact h1
        · exact absurd h1 h
      exact ⟨hxy, hs⟩

/-- The array written by `generate_pdf` is strictly increasing in the byte order of its keys as soon as
the keys are distinct. -/
theorem sortNames_sorted (l : List (List Nat × Nat)) (hnd : (l.map (fun e => keyBytes e.1)).Nodup) :
    StrictSorted ((sortNames l).map withKey) := by
  induction l with
  | nil => simp [sortNames, StrictSorted]
  | cons x xs ih =>
    simp only [List.map_cons, List.nodup_cons] at hnd
    simp only [sortNames]
    apply insertName_sorted x _ (ih hnd.2)
    intro y hy e
    have : y ∈ xs := (sortNames_perm xs).mem_iff.mp hy
    exact hnd.1 (by rw [← e]; exact List.mem_map_of_mem (f := fun e => keyBytes e.1) this)

/-! ### the keys as a PDF reader compares them -/

theorem keyBytes_ascii (name : List Nat) (h : ∀ c ∈ name, c < 128) : keyBytes name = name := by
  unfold keyBytes
  rw [if_pos]
  simpa using h

/-- Distinct names are written as distinct keys (names are sequences of Unicode scalar values). -/
theorem keyBytes_injective (a b : List Nat) (ha : ∀ c ∈ a, Scalar c) (hb : ∀ c ∈ b, Scalar c)
    (h : keyBytes a = keyBytes b) : a = b := by
  unfold keyBytes at h
  by_cases h1 : a.all (· < 128) = true <;> by_cases h2 : b.all (· < 128) = true
  · rw [if_pos h1, if_pos h2] at h; exact h
  · rw [if_pos h1, if_neg h2] at h
    rw [h] at h1; simp at h1
  · rw [if_neg h1, if_pos h2] at h
    rw [← h] at h2; simp at h2
  · rw [if_neg h1, if_neg h2] at h
    have e : a.flatMap Wp.PdfStr.utf16be = b.flatMap Wp.PdfStr.utf16be := by
      injection h with _ h; injection h
    have := utf16_roundtrip a ha
    rw [e, utf16_roundtrip b hb] at this
    exact (Option.some.inj this).symm

theorem keys_nodup (l : List (List Nat × Nat)) (hnd : (l.map (·.1)).Nodup) (hs : ∀ e ∈ l, ∀ c ∈ e.1, Scalar c) :
    (l.map (fun e => keyBytes e.1)).Nodup := by
  induction l with
  | nil => simp
  | cons x xs ih =>
    simp only [List.map_cons, List.nodup_cons] at hnd ⊢
    refine ⟨?_, ih hnd.2 (fun e he => hs e (List.mem_cons_of_mem _ he))⟩
    intro hm
    obtain ⟨y, hy, e⟩ := List.mem_map.mp hm
    have := keyBytes_injective y.1 x.1 (hs y (List.mem_cons_of_mem _ hy)) (hs x (by simp)) e
    exact hnd.1 (by rw [← this]; exact List.mem_map_of_mem (f := (·.1)) hy)

end Wp.C18
