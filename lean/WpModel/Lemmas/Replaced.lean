/-
Helper lemmas for Props/C13 (arithmetic of `a * h / w`, the violation classifier, option bounds).
-/
import WpModel.Model.Replaced
import Mathlib.Tactic.Linarith
import Mathlib.Tactic.FieldSimp
import Mathlib.Tactic.Ring
import Mathlib.Tactic.NormNum

set_option linter.unusedSimpArgs false
set_option linter.unusedVariables false
set_option linter.unnecessarySeqFocus false

namespace Wp.C13
open Wp Wp.Replaced

theorem pyDiv_ok {s : String} {a b : Rat} (h : b ≠ 0) : pyDiv s a b = .ok (a / b) := by
  simp [pyDiv, h]

theorem viol_eq_min {x lo : Rat} {hi : MaxLen} : viol x lo hi = .min ↔ x < lo := by
  unfold viol; split_ifs <;> simp_all

theorem viol_eq_max {x lo : Rat} {hi : MaxLen} :
    viol x lo hi = .max ↔ lo ≤ x ∧ ∃ m, hi = some m ∧ m < x := by
  unfold viol gtMax
  cases hi <;> simp <;> split_ifs <;> simp_all

theorem viol_eq_ok {x lo : Rat} {hi : MaxLen} :
    viol x lo hi = .ok ↔ lo ≤ x ∧ ∀ m, hi = some m → x ≤ m := by
  unfold viol gtMax
  cases hi <;> simp <;> split_ifs <;> simp_all

theorem capMax_some {lo m : Rat} {hi : MaxLen} :
    capMax lo hi = some m ↔ ∃ m0, hi = some m0 ∧ m = max lo m0 := by
  cases hi <;> simp [capMax, eq_comm]

theorem capMax_ge {lo m : Rat} {hi : MaxLen} (h : capMax lo hi = some m) : lo ≤ m := by
  obtain ⟨m0, _, rfl⟩ := capMax_some.mp h
  exact le_max_left _ _

/-- `a·h/w ≤ h` when `a ≤ w`. -/
theorem scale_le {a w h : Rat} (hw : 0 < w) (hh : 0 ≤ h) (ha : a ≤ w) : a * h / w ≤ h := by
  rw [div_le_iff₀ hw]; nlinarith

theorem scale_ge {a w h : Rat} (hw : 0 < w) (hh : 0 ≤ h) (ha : w ≤ a) : h ≤ a * h / w := by
  rw [le_div_iff₀ hw]; nlinarith

/-- `a/w ≤ b/h → a·h/w ≤ b`. -/
theorem cross_le {a b w h : Rat} (hw : 0 < w) (hh : 0 < h) (hab : a / w ≤ b / h) : a * h / w ≤ b := by
  rw [div_le_div_iff₀ hw hh] at hab
  rw [div_le_iff₀ hw]; linarith

theorem cross_ge {a b w h : Rat} (hw : 0 < w) (hh : 0 < h) (hab : a / w ≤ b / h) : a ≤ b * w / h := by
  rw [div_le_div_iff₀ hw hh] at hab
  rw [le_div_iff₀ hh]; linarith

theorem cross_lt {a b w h : Rat} (hw : 0 < w) (hh : 0 < h) (hab : ¬ a / w ≤ b / h) : b * w / h ≤ a := by
  rw [div_le_div_iff₀ hw hh] at hab
  rw [div_le_iff₀ hh]; linarith

theorem cross_gt {a b w h : Rat} (hw : 0 < w) (hh : 0 < h) (hab : ¬ a / w ≤ b / h) : b ≤ a * h / w := by
  rw [div_le_div_iff₀ hw hh] at hab
  rw [le_div_iff₀ hw]; linarith

theorem minExt_le {x : Rat} {mx : MaxLen} {m : Rat} (h : mx = some m) : minExt x mx ≤ m := by
  subst h; exact min_le_right _ _

theorem le_minExt {x lo : Rat} {mx : MaxLen} (hx : lo ≤ x) (hm : ∀ m, mx = some m → lo ≤ m) :
    lo ≤ minExt x mx := by
  cases mx with
  | none => exact hx
  | some m => exact le_min hx (hm m rfl)

theorem minExt_eq (x : Rat) (mx : MaxLen) : minExt x mx = x ∨ mx = some (minExt x mx) := by
  cases mx with
  | none => exact Or.inl rfl
  | some m =>
    rcases min_choice x m with h | h
    · exact Or.inl h
    · exact Or.inr (by simp [minExt, h])

/-! ### `min_max_auto_replaced` -/


theorem mmar_total_with (ew eh : Rat) (hew : ew ≠ 0) (heh : eh ≠ 0) (w h minW minH : Rat) (maxW maxH : MaxLen) :
    ∃ r, mmarCoreWith ew eh w h minW minH maxW maxH = .ok r := by
  have hw : (if w = 0 then ew else w) ≠ 0 := by split_ifs with h0 <;> assumption
  have hh : (if h = 0 then eh else h) ≠ 0 := by split_ifs with h0 <;> assumption
  simp only [mmarCoreWith]
  generalize hvw : viol w minW (capMax minW maxW) = vw
  generalize hvh : viol h minH (capMax minH maxH) = vh
  cases vw <;> cases vh
  all_goals
    try (obtain ⟨_, mw, hmw, _⟩ := viol_eq_max.mp hvw)
    try (obtain ⟨_, mh, hmh, _⟩ := viol_eq_max.mp hvh)
    simp [*, finite, pyDiv_ok hw, pyDiv_ok hh]
  all_goals (try simp only [bind, Except.bind, pure, Except.pure])
  all_goals first | exact ⟨_, _, rfl⟩ | (split_ifs <;> exact ⟨_, _, rfl⟩)


theorem minmax_within_with (ew eh w h minW minH : Rat) (maxW maxH : MaxLen) (hw : 0 < w) (hh : 0 < h)
    (w' h' : Rat) (hres : mmarCoreWith ew eh w h minW minH maxW maxH = .ok (w', h')) :
    (minW ≤ w' ∧ ∀ m, capMax minW maxW = some m → w' ≤ m) ∧
    (minH ≤ h' ∧ ∀ m, capMax minH maxH = some m → h' ≤ m) := by
  have hw0 : w ≠ 0 := ne_of_gt hw
  have hh0 : h ≠ 0 := ne_of_gt hh
  simp only [mmarCoreWith, if_neg hw0, if_neg hh0] at hres
  generalize hvw : viol w minW (capMax minW maxW) = vw at hres
  generalize hvh : viol h minH (capMax minH maxH) = vh at hres
  have geW : ∀ m, capMax minW maxW = some m → minW ≤ m := fun m hm => capMax_ge hm
  have geH : ∀ m, capMax minH maxH = some m → minH ≤ m := fun m hm => capMax_ge hm
  cases vw <;> cases vh
  · -- ok ok
    simp [pure, Except.pure] at hres
    obtain ⟨rfl, rfl⟩ := hres
    exact ⟨viol_eq_ok.mp hvw, viol_eq_ok.mp hvh⟩
  · -- ok min
    obtain ⟨h1, h2⟩ := viol_eq_ok.mp hvw
    have h3 := viol_eq_min.mp hvh
    simp [pyDiv_ok hh0, bind, Except.bind, pure, Except.pure] at hres
    obtain ⟨rfl, rfl⟩ := hres
    refine ⟨⟨le_minExt ?_ geW, fun m hm => minExt_le hm⟩, le_refl _, geH⟩
    exact le_trans h1 (scale_ge hh (le_of_lt hw) (le_of_lt h3))
  · -- ok max
    obtain ⟨h1, h2⟩ := viol_eq_ok.mp hvw
    obtain ⟨h3, mh, hmh, h4⟩ := viol_eq_max.mp hvh
    simp [hmh, finite, pyDiv_ok hh0, bind, Except.bind, pure, Except.pure] at hres
    obtain ⟨rfl, rfl⟩ := hres
    refine ⟨⟨le_max_right _ _, fun m hm => max_le ?_ (geW m hm)⟩, geH _ hmh, fun m hm => ?_⟩
    · exact le_trans (scale_le hh (le_of_lt hw) (le_of_lt h4)) (h2 m hm)
    · rw [hmh] at hm; exact le_of_eq (Option.some.inj hm)
  · -- min ok
    have h1 := viol_eq_min.mp hvw
    obtain ⟨h3, h4⟩ := viol_eq_ok.mp hvh
    simp [pyDiv_ok hw0, bind, Except.bind, pure, Except.pure] at hres
    obtain ⟨rfl, rfl⟩ := hres
    refine ⟨⟨le_refl _, geW⟩, le_minExt ?_ geH, fun m hm => minExt_le hm⟩
    exact le_trans h3 (scale_ge hw (le_of_lt hh) (le_of_lt h1))
  · -- min min
    have h1 := viol_eq_min.mp hvw
    have h3 := viol_eq_min.mp hvh
    simp [pyDiv_ok hw0, pyDiv_ok hh0, bind, Except.bind, pure, Except.pure] at hres
    split_ifs at hres with hab
    · simp at hres
      obtain ⟨rfl, rfl⟩ := hres
      exact ⟨⟨le_minExt (cross_ge hw hh hab) geW, fun m hm => minExt_le hm⟩, le_refl _, geH⟩
    · simp at hres
      obtain ⟨rfl, rfl⟩ := hres
      exact ⟨⟨le_refl _, geW⟩, le_minExt (cross_gt hw hh hab) geH, fun m hm => minExt_le hm⟩
  · -- min max
    obtain ⟨h3, mh, hmh, h4⟩ := viol_eq_max.mp hvh
    simp [hmh, finite, bind, Except.bind, pure, Except.pure] at hres
    obtain ⟨rfl, rfl⟩ := hres
    refine ⟨⟨le_refl _, geW⟩, geH _ hmh, fun m hm => ?_⟩
    rw [hmh] at hm; exact le_of_eq (Option.some.inj hm)
  · -- max ok
    obtain ⟨h1, mw, hmw, h2⟩ := viol_eq_max.mp hvw
    obtain ⟨h3, h4⟩ := viol_eq_ok.mp hvh
    simp [hmw, finite, pyDiv_ok hw0, bind, Except.bind, pure, Except.pure] at hres
    obtain ⟨rfl, rfl⟩ := hres
    refine ⟨⟨geW _ hmw, fun m hm => ?_⟩, le_max_right _ _, fun m hm => max_le ?_ (geH m hm)⟩
    · rw [hmw] at hm; exact le_of_eq (Option.some.inj hm)
    · exact le_trans (scale_le hw (le_of_lt hh) (le_of_lt h2)) (h4 m hm)
  · -- max min
    obtain ⟨h1, mw, hmw, h2⟩ := viol_eq_max.mp hvw
    simp [hmw, finite, bind, Except.bind, pure, Except.pure] at hres
    obtain ⟨rfl, rfl⟩ := hres
    refine ⟨⟨geW _ hmw, fun m hm => ?_⟩, le_refl _, geH⟩
    rw [hmw] at hm; exact le_of_eq (Option.some.inj hm)
  · -- max max
    obtain ⟨h1, mw, hmw, h2⟩ := viol_eq_max.mp hvw
    obtain ⟨h3, mh, hmh, h4⟩ := viol_eq_max.mp hvh
    simp [hmw, hmh, finite, pyDiv_ok hw0, pyDiv_ok hh0, bind, Except.bind, pure, Except.pure] at hres
    split_ifs at hres with hab
    · simp at hres
      obtain ⟨rfl, rfl⟩ := hres
      refine ⟨⟨geW _ hmw, fun m hm => ?_⟩, le_max_left _ _, fun m hm => ?_⟩
      · rw [hmw] at hm; exact le_of_eq (Option.some.inj hm)
      · rw [hmh] at hm; obtain rfl := Option.some.inj hm
        exact max_le (geH _ hmh) (cross_le hw hh hab)
    · simp at hres
      obtain ⟨rfl, rfl⟩ := hres
      refine ⟨⟨le_max_left _ _, fun m hm => ?_⟩, geH _ hmh, fun m hm => ?_⟩
      · rw [hmw] at hm; obtain rfl := Option.some.inj hm
        exact max_le (geW _ hmw) (cross_lt hw hh hab)
      · rw [hmh] at hm; exact le_of_eq (Option.some.inj hm)


theorem minmax_ratio_with (ew eh w h minW minH : Rat) (maxW maxH : MaxLen) (hw : 0 < w) (hh : 0 < h)
    (w' h' : Rat) (hres : mmarCoreWith ew eh w h minW minH maxW maxH = .ok (w', h')) :
    (viol w minW (capMax minW maxW) = .ok → viol h minH (capMax minH maxH) = .ok → w' = w ∧ h' = h) ∧
    (viol w minW (capMax minW maxW) = .max → viol h minH (capMax minH maxH) = .ok →
      capMax minW maxW = some w' ∧ (w' * h = h' * w ∨ h' = minH)) ∧
    (viol w minW (capMax minW maxW) = .min → viol h minH (capMax minH maxH) = .ok →
      w' = minW ∧ (w' * h = h' * w ∨ capMax minH maxH = some h')) ∧
    (viol w minW (capMax minW maxW) = .ok → viol h minH (capMax minH maxH) = .max →
      capMax minH maxH = some h' ∧ (w' * h = h' * w ∨ w' = minW)) ∧
    (viol w minW (capMax minW maxW) = .ok → viol h minH (capMax minH maxH) = .min →
      h' = minH ∧ (w' * h = h' * w ∨ capMax minW maxW = some w')) := by
  have hw0 : w ≠ 0 := ne_of_gt hw
  have hh0 : h ≠ 0 := ne_of_gt hh
  simp only [mmarCoreWith, if_neg hw0, if_neg hh0] at hres
  refine ⟨?_, ?_, ?_, ?_, ?_⟩ <;> intro hvw hvh <;> rw [hvw, hvh] at hres
  · simp [pure, Except.pure] at hres
    exact ⟨hres.1.symm, hres.2.symm⟩
  · obtain ⟨h1, mw, hmw, h2⟩ := viol_eq_max.mp hvw
    simp [hmw, finite, pyDiv_ok hw0, bind, Except.bind, pure, Except.pure] at hres
    obtain ⟨rfl, rfl⟩ := hres
    refine ⟨hmw, ?_⟩
    rcases max_choice (mw * h / w) minH with hc | hc
    · left; rw [hc]; field_simp
    · right; exact hc
  · simp [pyDiv_ok hw0, bind, Except.bind, pure, Except.pure] at hres
    obtain ⟨rfl, rfl⟩ := hres
    refine ⟨rfl, ?_⟩
    rcases minExt_eq (minW * h / w) (capMax minH maxH) with hc | hc
    · left; rw [hc]; field_simp
    · right; exact hc
  · obtain ⟨h3, mh, hmh, h4⟩ := viol_eq_max.mp hvh
    simp [hmh, finite, pyDiv_ok hh0, bind, Except.bind, pure, Except.pure] at hres
    obtain ⟨rfl, rfl⟩ := hres
    refine ⟨hmh, ?_⟩
    rcases max_choice (mh * w / h) minW with hc | hc
    · left; rw [hc]; field_simp
    · right; exact hc
  · simp [pyDiv_ok hh0, bind, Except.bind, pure, Except.pure] at hres
    obtain ⟨rfl, rfl⟩ := hres
    refine ⟨rfl, ?_⟩
    rcases minExt_eq (minH * w / h) (capMax minW maxW) with hc | hc
    · left; rw [hc]; field_simp
    · right; exact hc

/-! ### the min/max decorators -/


/-- What the min/max decorators need of the decorated function. -/
structure WidthFn (f : RBox → Except Err RBox) : Prop where
  limits : ∀ b b', f b = .ok b' → b'.minWidth = b.minWidth ∧ b'.maxWidth = b.maxWidth
  keeps : ∀ b b' w, b.width = some w → f b = .ok b' → b'.width = some w

theorem mmwMax_spec (f : RBox → Except Err RBox) (hf : WidthFn f) (ml mr : Len) (px : Rat) (b b' : RBox)
    (hres : mmwMax f ml mr px b = .ok b') :
    b'.minWidth = b.minWidth ∧ b'.maxWidth = b.maxWidth ∧
    ∃ w, b'.width = some w ∧ ∀ m, b.maxWidth = some m → w ≤ m := by
  unfold mmwMax at hres
  rcases hw : b.width with _ | w
  · simp [hw, num, bind, Except.bind] at hres
  · simp only [hw, num, bind, Except.bind] at hres
    rcases hm : b.maxWidth with _ | m
    · simp [hm, pure, Except.pure] at hres
      subst hres
      exact ⟨rfl, hm, w, hw, by simp⟩
    · simp only [hm] at hres
      split_ifs at hres with hgt
      · obtain ⟨l1, l2⟩ := hf.limits _ _ hres
        have := hf.keeps _ _ m rfl hres
        exact ⟨l1, l2, m, this, by simp⟩
      · simp [pure, Except.pure] at hres
        subst hres
        exact ⟨rfl, hm, w, hw, by intro m' hm'; obtain rfl := Option.some.inj hm'; exact not_lt.mp hgt⟩

theorem mmwMin_spec (f : RBox → Except Err RBox) (hf : WidthFn f) (ml mr : Len) (px : Rat) (b b' : RBox)
    (hres : mmwMin f ml mr px b = .ok b') :
    b'.minWidth = b.minWidth ∧ b'.maxWidth = b.maxWidth ∧
    ∃ w, b'.width = some w ∧ b.minWidth ≤ w ∧ (w = b.minWidth ∨ b.width = some w) := by
  unfold mmwMin at hres
  rcases hw : b.width with _ | w
  · simp [hw, num, bind, Except.bind] at hres
  · simp only [hw, num, bind, Except.bind] at hres
    split_ifs at hres with hlt
    · obtain ⟨l1, l2⟩ := hf.limits _ _ hres
      have := hf.keeps _ _ b.minWidth rfl hres
      exact ⟨l1, l2, _, this, le_refl _, Or.inl rfl⟩
    · simp [pure, Except.pure] at hres
      subst hres
      exact ⟨rfl, rfl, w, hw, not_lt.mp hlt, Or.inr rfl⟩

theorem withMinMaxWidth_bounds (f : RBox → Except Err RBox) (hf : WidthFn f) (b b' : RBox)
    (hres : withMinMaxWidth f b = .ok b') :
    b'.minWidth = b.minWidth ∧ b'.maxWidth = b.maxWidth ∧
    ∃ w, b'.width = some w ∧ b.minWidth ≤ w ∧ (w = b.minWidth ∨ ∀ m, b.maxWidth = some m → w ≤ m) := by
  unfold withMinMaxWidth at hres
  simp only [bind, Except.bind] at hres
  rcases h1 : f b with e | b1
  · simp [h1] at hres
  · simp only [h1] at hres
    obtain ⟨l1min, l1max⟩ := hf.limits b b1 h1
    rcases h2 : mmwMax f b.marginLeft b.marginRight b.positionX b1 with e | b2
    · simp [h2] at hres
    · simp only [h2] at hres
      obtain ⟨l2min, l2max, w2, hw2, hle2⟩ := mmwMax_spec f hf _ _ _ _ _ h2
      obtain ⟨l3min, l3max, w3, hw3, hge3, hor⟩ := mmwMin_spec f hf _ _ _ _ _ hres
      refine ⟨by rw [l3min, l2min, l1min], by rw [l3max, l2max, l1max], w3, hw3,
        by rw [← l1min, ← l2min]; exact hge3, ?_⟩
      rcases hor with h | h
      · left; rw [h, l2min, l1min]
      · right; intro m hm
        rw [hw2] at h; obtain rfl := Option.some.inj h
        exact hle2 m (by rw [l1max]; exact hm)

/-! ### `block_level_width` -/


theorem rbwCore_keeps_width (i : Intr) (cb : Cb) (b : RBox) (w : Rat) (hw : b.width = some w) :
    rbwCore i cb b = .ok b := by
  simp [rbwCore, hw, pure, Except.pure, bind, Except.bind]

theorem blwMargins_width (b : RBox) (cb : Cb) (w : Rat) : (blwMargins b cb w).width = b.width := by
  unfold blwMargins; rcases b.marginLeft with _ | ml <;> rcases b.marginRight with _ | mr <;> rfl

theorem blwAutoWidth_width (b : RBox) (cb : Cb) : ∃ w, (blwAutoWidth b cb).width = some w := by
  unfold blwAutoWidth
  rcases h : b.width with _ | w
  · exact ⟨_, rfl⟩
  · exact ⟨w, h⟩

theorem blwCore_width (b : RBox) (cb : Cb) : ∃ w, (blwCore b cb).width = some w := by
  unfold blwCore
  obtain ⟨w, hw⟩ := blwAutoWidth_width (blwOverConstrained (blwOverflow b cb) cb) cb
  simp only [hw]
  exact ⟨w, by rw [blwMargins_width, hw]⟩




theorem blwOverflow_fields (b : RBox) (cb : Cb) :
    (blwOverflow b cb).width = b.width ∧ (blwOverflow b cb).minWidth = b.minWidth ∧
    (blwOverflow b cb).maxWidth = b.maxWidth := by
  unfold blwOverflow
  rcases h : b.width with _ | w
  · simp [h]
  · simp only []; split_ifs <;> simp [h]

theorem blwOverConstrained_fields (b : RBox) (cb : Cb) :
    (blwOverConstrained b cb).width = b.width ∧ (blwOverConstrained b cb).minWidth = b.minWidth ∧
    (blwOverConstrained b cb).maxWidth = b.maxWidth := by
  unfold blwOverConstrained
  rcases h : b.width with _ | w <;> rcases b.marginLeft with _ | ml <;> rcases b.marginRight with _ | mr <;>
    simp [h]
  split_ifs <;> simp [h]

theorem blwAutoWidth_fields (b : RBox) (cb : Cb) :
    (∀ w, b.width = some w → (blwAutoWidth b cb).width = some w) ∧
    (blwAutoWidth b cb).minWidth = b.minWidth ∧ (blwAutoWidth b cb).maxWidth = b.maxWidth := by
  unfold blwAutoWidth
  rcases h : b.width with _ | w <;> simp [h]

theorem blwMargins_fields (b : RBox) (cb : Cb) (w : Rat) :
    (blwMargins b cb w).minWidth = b.minWidth ∧ (blwMargins b cb w).maxWidth = b.maxWidth := by
  unfold blwMargins; rcases b.marginLeft with _ | ml <;> rcases b.marginRight with _ | mr <;> simp

theorem blwCore_fields (b : RBox) (cb : Cb) :
    (∀ w, b.width = some w → (blwCore b cb).width = some w) ∧
    (blwCore b cb).minWidth = b.minWidth ∧ (blwCore b cb).maxWidth = b.maxWidth := by
  obtain ⟨a1, a2, a3⟩ := blwOverflow_fields b cb
  obtain ⟨b1, b2, b3⟩ := blwOverConstrained_fields (blwOverflow b cb) cb
  obtain ⟨c1, c2, c3⟩ := blwAutoWidth_fields (blwOverConstrained (blwOverflow b cb) cb) cb
  unfold blwCore
  obtain ⟨w, hw⟩ := blwAutoWidth_width (blwOverConstrained (blwOverflow b cb) cb) cb
  simp only [hw]
  obtain ⟨d2, d3⟩ := blwMargins_fields (blwAutoWidth (blwOverConstrained (blwOverflow b cb) cb) cb) cb w
  refine ⟨fun w' hw' => ?_, by rw [d2, c2, b2, a2], by rw [d3, c3, b3, a3]⟩
  rw [blwMargins_width]
  exact c1 w' (by rw [b1, a1]; exact hw')

theorem blw_widthFn (cb : Cb) : WidthFn (fun b => .ok (blwCore b cb)) where
  limits := by
    intro b b' h
    obtain rfl := Except.ok.inj h
    exact (blwCore_fields b cb).2
  keeps := by
    intro b b' w hw h
    obtain rfl := Except.ok.inj h
    exact (blwCore_fields b cb).1 w hw


/-! ### the CSS 2.1 10.3.2 table as equations of `rbwCore` -/

theorem rbwCore_point1 (i : Intr) (cb : Cb) (b : RBox) (iw : Rat)
    (hw : b.width = none) (hh : b.height = none) (hi : i.w = some iw) :
    rbwCore i cb b = .ok { b with width := some iw } := by
  simp [rbwCore, hw, hh, hi, bind, Except.bind, pure, Except.pure]

theorem rbwCore_point2a (i : Intr) (cb : Cb) (b : RBox) (ih r : Rat)
    (hw : b.width = none) (hh : b.height = none) (hi : i.w = none) (hr : i.ratio = some r) (hih : i.h = some ih) :
    rbwCore i cb b = .ok { b with width := some (ih * r) } := by
  simp [rbwCore, hw, hh, hi, hr, hih, bind, Except.bind, pure, Except.pure]

theorem rbwCore_point3 (i : Intr) (cb : Cb) (b : RBox) (r : Rat)
    (hw : b.width = none) (hh : b.height = none) (hi : i.w = none) (hr : i.ratio = some r) (hih : i.h = none) :
    rbwCore i cb b = blockLevelWidth b cb := by
  have key : ∀ b', blockLevelWidth b cb = .ok b' → ∃ w, b'.width = some w := by
    intro b' hb'
    obtain ⟨_, _, w, hw', _⟩ := withMinMaxWidth_bounds _ (blw_widthFn cb) b b' hb'
    exact ⟨w, hw'⟩
  simp only [rbwCore, hw, hh, hi, hr, hih, bind, Except.bind, pure, Except.pure]
  rcases hb : blockLevelWidth b cb with e | b'
  · simp
  · obtain ⟨w, hw'⟩ := key b' hb
    simp [hw']

theorem rbwCore_point2b (i : Intr) (cb : Cb) (b : RBox) (h r : Rat)
    (hw : b.width = none) (hh : b.height = some h) (hr : i.ratio = some r) :
    rbwCore i cb b = .ok { b with width := some (h * r) } := by
  simp [rbwCore, hw, hh, hr, num, bind, Except.bind, pure, Except.pure]

theorem rbwCore_point4 (i : Intr) (cb : Cb) (b : RBox) (iw : Rat)
    (hw : b.width = none) (hr : i.ratio = none) (hi : i.w = some iw) :
    rbwCore i cb b = .ok { b with width := some iw } := by
  rcases hh : b.height with _ | h <;>
    simp [rbwCore, hw, hh, hr, hi, num, bind, Except.bind, pure, Except.pure]

theorem rbwCore_point5 (i : Intr) (cb : Cb) (b : RBox)
    (hw : b.width = none) (hr : i.ratio = none) (hi : i.w = none) :
    rbwCore i cb b = .ok { b with width := some Gen.replacedDefaultWidth } := by
  rcases hh : b.height with _ | h <;>
    simp [rbwCore, hw, hh, hr, hi, num, bind, Except.bind, pure, Except.pure]


/-! ### `replaced_box_height` -/


theorem rbhCore_keeps_height (i : Intr) (b : RBox) (h : Rat) (hh : b.height = some h) :
    rbhCore i b = .ok b := by
  rcases hr : i.ratio with _ | r <;> rcases hih : i.h with _ | ih <;>
    simp [rbhCore, hh, hr, hih, bind, Except.bind, pure, Except.pure]

theorem rbhCore_ratio (i : Intr) (b : RBox) (w r : Rat)
    (hw : b.width = some w) (hh : b.height = none) (hr : i.ratio = some r) (hr0 : r ≠ 0) :
    rbhCore i b = .ok { b with height := some (w / r) } := by
  rcases hih : i.h with _ | ih <;>
    simp [rbhCore, hw, hh, hr, hr0, hih, num, pyDiv, bind, Except.bind, pure, Except.pure]

theorem rbhCore_ratio_zero (i : Intr) (b : RBox) (w : Rat)
    (hw : b.width = some w) (hh : b.height = none) (hr : i.ratio = some 0) :
    ∃ s, rbhCore i b = .error (.zeroDivision s) := by
  rcases hih : i.h with _ | ih <;>
    simp [rbhCore, hw, hh, hr, hih, num, pyDiv, bind, Except.bind, pure, Except.pure]

theorem rbhCore_intrinsic (i : Intr) (b : RBox) (w ih : Rat)
    (hw : b.width = some w) (hh : b.height = none) (hr : i.ratio = none) (hih : i.h = some ih) :
    rbhCore i b = .ok { b with height := some ih } := by
  simp [rbhCore, hw, hh, hr, hih, bind, Except.bind, pure, Except.pure]

theorem rbhCore_default (i : Intr) (b : RBox) (w : Rat)
    (hw : b.width = some w) (hh : b.height = none) (hr : i.ratio = none) (hih : i.h = none) :
    rbhCore i b = .ok { b with height := some Gen.replacedDefaultHeight } := by
  simp [rbhCore, hw, hh, hr, hih, bind, Except.bind, pure, Except.pure]

theorem rbhCore_both_auto (i : Intr) (b : RBox) (ih : Rat)
    (hw : b.width = none) (hh : b.height = none) (hih : i.h = some ih) :
    rbhCore i b = .ok { b with height := some ih } := by
  rcases hr : i.ratio with _ | r <;>
    simp [rbhCore, hw, hh, hr, hih, bind, Except.bind, pure, Except.pure]

theorem rbhCore_both_auto_none (i : Intr) (b : RBox)
    (hw : b.width = none) (hh : b.height = none) (hih : i.h = none) :
    ∃ s, rbhCore i b = .error (.typeError s) := by
  refine ⟨"replaced_box_height.height=None", ?_⟩
  simp [rbhCore, hw, hh, hih, bind, Except.bind, throw, throwThe, MonadExceptOf.throw]



/-- Every branch of `rbwCore` either sets a numeric width leaving the limits alone, or is point 3. -/
theorem rbwCore_cases (i : Intr) (cb : Cb) (b : RBox) :
    (∃ b' w, rbwCore i cb b = .ok b' ∧ b'.minWidth = b.minWidth ∧ b'.maxWidth = b.maxWidth ∧
      b'.width = some w ∧ ∀ w0, b.width = some w0 → w = w0) ∨
    (b.width = none ∧ rbwCore i cb b = blockLevelWidth b cb) := by
  rcases hw : b.width with _ | w
  · rcases hr : i.ratio with _ | r
    · rcases hi : i.w with _ | iw
      · exact Or.inl ⟨_, _, rbwCore_point5 i cb b hw hr hi, rfl, rfl, rfl, by simp⟩
      · exact Or.inl ⟨_, _, rbwCore_point4 i cb b iw hw hr hi, rfl, rfl, rfl, by simp⟩
    · rcases hh : b.height with _ | h
      · rcases hi : i.w with _ | iw
        · rcases hih : i.h with _ | ih
          · exact Or.inr ⟨rfl, rbwCore_point3 i cb b r hw hh hi hr hih⟩
          · exact Or.inl ⟨_, _, rbwCore_point2a i cb b ih r hw hh hi hr hih, rfl, rfl, rfl, by simp⟩
        · exact Or.inl ⟨_, _, rbwCore_point1 i cb b iw hw hh hi, rfl, rfl, rfl, by simp⟩
      · exact Or.inl ⟨_, _, rbwCore_point2b i cb b h r hw hh hr, rfl, rfl, rfl, by simp⟩
  · exact Or.inl ⟨b, w, rbwCore_keeps_width i cb b w hw, rfl, rfl, hw, by simp⟩

theorem withMinMaxWidth_total (f : RBox → Except Err RBox) (hf : WidthFn f)
    (htot : ∀ b, ∃ b' w, f b = .ok b' ∧ b'.width = some w) (b : RBox) :
    ∃ b', withMinMaxWidth f b = .ok b' := by
  obtain ⟨b1, w1, h1, hw1⟩ := htot b
  have hmax : ∃ b2 w2, mmwMax f b.marginLeft b.marginRight b.positionX b1 = .ok b2 ∧ b2.width = some w2 := by
    unfold mmwMax
    simp only [hw1, num, bind, Except.bind]
    rcases b1.maxWidth with _ | m
    · exact ⟨b1, w1, rfl, hw1⟩
    · simp only []
      split_ifs
      · exact htot _
      · exact ⟨b1, w1, rfl, hw1⟩
  obtain ⟨b2, w2, h2, hw2⟩ := hmax
  have hmin : ∃ b3, mmwMin f b.marginLeft b.marginRight b.positionX b2 = .ok b3 := by
    unfold mmwMin
    simp only [hw2, num, bind, Except.bind]
    split_ifs
    · obtain ⟨b3, w3, h3, _⟩ := htot { b2 with width := some b2.minWidth, marginLeft := b.marginLeft, marginRight := b.marginRight, positionX := b.positionX }
      exact ⟨b3, h3⟩
    · exact ⟨b2, rfl⟩
  obtain ⟨b3, h3⟩ := hmin
  exact ⟨b3, by simp [withMinMaxWidth, h1, h2, h3, bind, Except.bind]⟩

theorem blockLevelWidth_total (b : RBox) (cb : Cb) : ∃ b', blockLevelWidth b cb = .ok b' :=
  withMinMaxWidth_total _ (blw_widthFn cb)
    (fun b => by obtain ⟨w, hw⟩ := blwCore_width b cb; exact ⟨_, w, rfl, hw⟩) b

theorem blockLevelWidth_spec (b b' : RBox) (cb : Cb) (h : blockLevelWidth b cb = .ok b') :
    b'.minWidth = b.minWidth ∧ b'.maxWidth = b.maxWidth ∧ ∃ w, b'.width = some w :=
  let ⟨l1, l2, w, hw, _⟩ := withMinMaxWidth_bounds _ (blw_widthFn cb) b b' h
  ⟨l1, l2, w, hw⟩

theorem rbwCore_spec (i : Intr) (cb : Cb) (b : RBox) :
    ∃ b' w, rbwCore i cb b = .ok b' ∧ b'.minWidth = b.minWidth ∧ b'.maxWidth = b.maxWidth ∧
      b'.width = some w ∧ ∀ w0, b.width = some w0 → w = w0 := by
  rcases rbwCore_cases i cb b with h | ⟨hw, h⟩
  · exact h
  · obtain ⟨b', hb'⟩ := blockLevelWidth_total b cb
    obtain ⟨l1, l2, w, hw'⟩ := blockLevelWidth_spec b b' cb hb'
    exact ⟨b', w, by rw [h, hb'], l1, l2, hw', by simp [hw]⟩

theorem rbw_widthFn (i : Intr) (cb : Cb) : WidthFn (rbwCore i cb) where
  limits := by
    intro b b' h
    obtain ⟨b'', w, h', l1, l2, _, _⟩ := rbwCore_spec i cb b
    rw [h'] at h; obtain rfl := Except.ok.inj h
    exact ⟨l1, l2⟩
  keeps := by
    intro b b' w hw h
    rw [rbwCore_keeps_width i cb b w hw] at h
    obtain rfl := Except.ok.inj h
    exact hw

/-- `replaced_box_width` never raises. -/
theorem replacedBoxWidth_total' (i : Intr) (cb : Cb) (b : RBox) : ∃ b', replacedBoxWidth i cb b = .ok b' :=
  withMinMaxWidth_total _ (rbw_widthFn i cb)
    (fun b => by obtain ⟨b', w, h, _, _, hw, _⟩ := rbwCore_spec i cb b; exact ⟨b', w, h, hw⟩) b



structure HeightFn (f : RBox → Except Err RBox) : Prop where
  limits : ∀ b b', f b = .ok b' → b'.minHeight = b.minHeight ∧ b'.maxHeight = b.maxHeight
  keeps : ∀ b b' h, b.height = some h → f b = .ok b' → b'.height = some h

theorem mmhMax_spec (f : RBox → Except Err RBox) (hf : HeightFn f) (mt mb : Len) (b b' : RBox)
    (hres : mmhMax f mt mb b = .ok b') :
    b'.minHeight = b.minHeight ∧ b'.maxHeight = b.maxHeight ∧
    ∃ h, b'.height = some h ∧ ∀ m, b.maxHeight = some m → h ≤ m := by
  unfold mmhMax at hres
  rcases hw : b.height with _ | w
  · simp [hw, num, bind, Except.bind] at hres
  · simp only [hw, num, bind, Except.bind] at hres
    rcases hm : b.maxHeight with _ | m
    · simp [hm, pure, Except.pure] at hres
      subst hres
      exact ⟨rfl, hm, w, hw, by simp⟩
    · simp only [hm] at hres
      split_ifs at hres with hgt
      · obtain ⟨l1, l2⟩ := hf.limits _ _ hres
        have := hf.keeps _ _ m rfl hres
        exact ⟨l1, l2, m, this, by simp⟩
      · simp [pure, Except.pure] at hres
        subst hres
        exact ⟨rfl, hm, w, hw, by intro m' hm'; obtain rfl := Option.some.inj hm'; exact not_lt.mp hgt⟩

theorem mmhMin_spec (f : RBox → Except Err RBox) (hf : HeightFn f) (mt mb : Len) (b b' : RBox)
    (hres : mmhMin f mt mb b = .ok b') :
    b'.minHeight = b.minHeight ∧ b'.maxHeight = b.maxHeight ∧
    ∃ h, b'.height = some h ∧ b.minHeight ≤ h ∧ (h = b.minHeight ∨ b.height = some h) := by
  unfold mmhMin at hres
  rcases hw : b.height with _ | w
  · simp [hw, num, bind, Except.bind] at hres
  · simp only [hw, num, bind, Except.bind] at hres
    split_ifs at hres with hlt
    · obtain ⟨l1, l2⟩ := hf.limits _ _ hres
      have := hf.keeps _ _ b.minHeight rfl hres
      exact ⟨l1, l2, _, this, le_refl _, Or.inl rfl⟩
    · simp [pure, Except.pure] at hres
      subst hres
      exact ⟨rfl, rfl, w, hw, not_lt.mp hlt, Or.inr rfl⟩

theorem withMinMaxHeight_bounds (f : RBox → Except Err RBox) (hf : HeightFn f) (b b' : RBox)
    (hres : withMinMaxHeight f b = .ok b') :
    b'.minHeight = b.minHeight ∧ b'.maxHeight = b.maxHeight ∧
    ∃ h, b'.height = some h ∧ b.minHeight ≤ h ∧ (h = b.minHeight ∨ ∀ m, b.maxHeight = some m → h ≤ m) := by
  unfold withMinMaxHeight at hres
  simp only [bind, Except.bind] at hres
  rcases h1 : f b with e | b1
  · simp [h1] at hres
  · simp only [h1] at hres
    obtain ⟨l1min, l1max⟩ := hf.limits b b1 h1
    rcases h2 : mmhMax f b.marginTop b.marginBottom b1 with e | b2
    · simp [h2] at hres
    · simp only [h2] at hres
      obtain ⟨l2min, l2max, w2, hw2, hle2⟩ := mmhMax_spec f hf _ _ _ _ h2
      obtain ⟨l3min, l3max, w3, hw3, hge3, hor⟩ := mmhMin_spec f hf _ _ _ _ hres
      refine ⟨by rw [l3min, l2min, l1min], by rw [l3max, l2max, l1max], w3, hw3,
        by rw [← l1min, ← l2min]; exact hge3, ?_⟩
      rcases hor with h | h
      · left; rw [h, l2min, l1min]
      · right; intro m hm
        rw [hw2] at h; obtain rfl := Option.some.inj h
        exact hle2 m (by rw [l1max]; exact hm)

theorem withMinMaxHeight_total (f : RBox → Except Err RBox)
    (htot : ∀ b w, b.width = some w → ∃ b' h, f b = .ok b' ∧ b'.height = some h ∧ b'.width = some w)
    (b : RBox) (w : Rat) (hb : b.width = some w) :
    ∃ b', withMinMaxHeight f b = .ok b' := by
  obtain ⟨b1, w1, h1, hw1, hP1⟩ := htot b w hb
  have hmax : ∃ b2 w2, mmhMax f b.marginTop b.marginBottom b1 = .ok b2 ∧ b2.height = some w2 ∧ b2.width = some w := by
    unfold mmhMax
    simp only [hw1, num, bind, Except.bind]
    rcases b1.maxHeight with _ | m
    · exact ⟨b1, w1, rfl, hw1, hP1⟩
    · simp only []
      split_ifs
      · exact htot _ w hP1
      · exact ⟨b1, w1, rfl, hw1, hP1⟩
  obtain ⟨b2, w2, h2, hw2, hP2⟩ := hmax
  have hmin : ∃ b3, mmhMin f b.marginTop b.marginBottom b2 = .ok b3 := by
    unfold mmhMin
    simp only [hw2, num, bind, Except.bind]
    split_ifs
    · obtain ⟨b3, w3, h3, _⟩ := htot { b2 with height := some b2.minHeight, marginTop := b.marginTop, marginBottom := b.marginBottom } w hP2
      exact ⟨b3, h3⟩
    · exact ⟨b2, rfl⟩
  obtain ⟨b3, h3⟩ := hmin
  exact ⟨b3, by simp [withMinMaxHeight, h1, h2, h3, bind, Except.bind]⟩




/-- Every successful branch of `rbhCore` sets a numeric height and leaves everything else alone. -/
theorem rbhCore_ok (i : Intr) (b b' : RBox) (hres : rbhCore i b = .ok b') :
    ∃ h, b' = { b with height := some h } ∧ ∀ h0, b.height = some h0 → h = h0 := by
  rcases Option.eq_none_or_eq_some b.height with hh | ⟨h0, hh⟩
  · rcases Option.eq_none_or_eq_some b.width with hw | ⟨w, hw⟩
    · rcases Option.eq_none_or_eq_some i.h with hih | ⟨ih, hih⟩
      · obtain ⟨s, hs⟩ := rbhCore_both_auto_none i b hw hh hih
        rw [hs] at hres; cases hres
      · rw [rbhCore_both_auto i b ih hw hh hih] at hres
        obtain rfl := Except.ok.inj hres
        exact ⟨ih, rfl, by simp [hh]⟩
    · rcases Option.eq_none_or_eq_some i.ratio with hr | ⟨r, hr⟩
      · rcases Option.eq_none_or_eq_some i.h with hih | ⟨ih, hih⟩
        · rw [rbhCore_default i b w hw hh hr hih] at hres
          obtain rfl := Except.ok.inj hres
          exact ⟨_, rfl, by simp [hh]⟩
        · rw [rbhCore_intrinsic i b w ih hw hh hr hih] at hres
          obtain rfl := Except.ok.inj hres
          exact ⟨_, rfl, by simp [hh]⟩
      · by_cases hr0 : r = 0
        · subst hr0
          obtain ⟨s, hs⟩ := rbhCore_ratio_zero i b w hw hh hr
          rw [hs] at hres; cases hres
        · rw [rbhCore_ratio i b w r hw hh hr hr0] at hres
          obtain rfl := Except.ok.inj hres
          exact ⟨_, rfl, by simp [hh]⟩
  · rw [rbhCore_keeps_height i b h0 hh] at hres
    obtain rfl := Except.ok.inj hres
    refine ⟨h0, ?_, by simp [hh]⟩
    rw [← hh]

theorem rbh_heightFn (i : Intr) : HeightFn (rbhCore i) where
  limits := by
    intro b b' h
    obtain ⟨x, rfl, _⟩ := rbhCore_ok i b b' h
    exact ⟨rfl, rfl⟩
  keeps := by
    intro b b' h hh hres
    obtain ⟨x, rfl, hx⟩ := rbhCore_ok i b b' hres
    simp [hx h hh]

/-- With a numeric width and a non-zero (or absent) ratio `rbhCore` succeeds. -/
theorem rbhCore_total (i : Intr) (hr : i.ratio ≠ some 0) (b : RBox) (w : Rat) (hw : b.width = some w) :
    ∃ b' h, rbhCore i b = .ok b' ∧ b'.height = some h ∧ b'.width = some w := by
  rcases hh : b.height with _ | h0
  · rcases hr' : i.ratio with _ | r
    · rcases hih : i.h with _ | ih
      · exact ⟨_, _, rbhCore_default i b w hw hh hr' hih, rfl, hw⟩
      · exact ⟨_, _, rbhCore_intrinsic i b w ih hw hh hr' hih, rfl, hw⟩
    · have hr0 : r ≠ 0 := by rintro rfl; exact hr hr'
      exact ⟨_, _, rbhCore_ratio i b w r hw hh hr' hr0, rfl, hw⟩
  · exact ⟨b, h0, rbhCore_keeps_height i b h0 hh, hh, hw⟩

theorem replacedBoxHeight_total' (i : Intr) (hr : i.ratio ≠ some 0) (b : RBox) (w : Rat) (hw : b.width = some w) :
    ∃ b', replacedBoxHeight i b = .ok b' :=
  withMinMaxHeight_total _ (fun b w hw => rbhCore_total i hr b w hw) b w hw



/-! ### the literals of the source -/

theorem epsW_pos : 0 < Gen.minMaxEpsWidth := by unfold Gen.minMaxEpsWidth; norm_num
theorem epsH_pos : 0 < Gen.minMaxEpsHeight := by unfold Gen.minMaxEpsHeight; norm_num

theorem mmarCore_no_violation (w h minW minH : Rat) (maxW maxH : MaxLen)
    (hvw : viol w minW (capMax minW maxW) = .ok) (hvh : viol h minH (capMax minH maxH) = .ok) :
    mmarCore w h minW minH maxW maxH = .ok (w, h) := by
  simp [mmarCore, mmarCoreWith, hvw, hvh, pure, Except.pure]

end Wp.C13
