/-
C17 helper development (core only): the corner-overlap ratio of `Box.rounded_box`.
-/
import WpModel.Model.RoundedBox

namespace Wp.Rounded
open Wp

theorem rat_min_le_left (a b : Rat) : min a b ≤ a := by
  rw [Rat.min_def]; split
  · exact Rat.le_refl
  · rename_i h; exact Rat.le_of_lt (Rat.not_le.mp h)

theorem rat_min_le_right (a b : Rat) : min a b ≤ b := by
  rw [Rat.min_def]; split
  · assumption
  · exact Rat.le_refl

theorem rat_le_min {a b c : Rat} (h1 : c ≤ a) (h2 : c ≤ b) : c ≤ min a b := by
  rw [Rat.min_def]; split <;> assumption

theorem rat_max_ge_left (a b : Rat) : a ≤ max a b := by
  rw [Rat.max_def]; split
  · assumption
  · exact Rat.le_refl

theorem shrink_nonneg (r i : Rat) : 0 ≤ shrink r i := rat_max_ge_left 0 _

theorem foldl_min_le (l : List (Rat × Rat)) (m : Rat) :
    l.foldl (fun m p => min m (p.1 / p.2)) m ≤ m ∧
    ∀ p ∈ l, l.foldl (fun m p => min m (p.1 / p.2)) m ≤ p.1 / p.2 := by
  induction l generalizing m with
  | nil => exact ⟨Rat.le_refl, fun p hp => by cases hp⟩
  | cons x xs ih =>
    simp only [List.foldl_cons]
    have h := ih (min m (x.1 / x.2))
    refine ⟨Rat.le_trans h.1 (rat_min_le_left _ _), ?_⟩
    intro p hp
    rcases List.mem_cons.mp hp with rfl | hp
    · exact Rat.le_trans h.1 (rat_min_le_right _ _)
    · exact h.2 p hp

theorem le_foldl_min (l : List (Rat × Rat)) (m c : Rat) (hm : c ≤ m) (h : ∀ p ∈ l, c ≤ p.1 / p.2) :
    c ≤ l.foldl (fun m p => min m (p.1 / p.2)) m := by
  induction l generalizing m with
  | nil => exact hm
  | cons x xs ih =>
    simp only [List.foldl_cons]
    exact ih _ (rat_le_min hm (h x (by simp))) (fun p hp => h p (by simp [hp]))

/-- The ratio never enlarges a radius. -/
theorem overlapRatio_le_one (pairs : List (Rat × Rat)) : overlapRatio pairs ≤ 1 :=
  (foldl_min_le _ 1).1

/-- The ratio is at most `extent / sum` for every pair of adjacent radii with a positive sum. -/
theorem overlapRatio_le (pairs : List (Rat × Rat)) (p : Rat × Rat) (hp : p ∈ pairs) (hs : 0 < p.2) :
    overlapRatio pairs ≤ p.1 / p.2 :=
  (foldl_min_le _ 1).2 p (List.mem_filter.mpr ⟨hp, by simpa using hs⟩)

theorem one_le_div {e s : Rat} (hs : 0 < s) (h : s ≤ e) : 1 ≤ e / s := by
  have h1 : (0 : Rat) ≤ s⁻¹ := Rat.le_of_lt (Rat.inv_pos.mpr hs)
  have := Rat.mul_le_mul_of_nonneg_right h h1
  rw [Rat.div_def]
  rwa [Rat.mul_inv_cancel _ (Rat.ne_of_gt hs)] at this

theorem mul_le_of_le_div {e s m : Rat} (hs : 0 < s) (h : m ≤ e / s) : s * m ≤ e := by
  have := Rat.mul_le_mul_of_nonneg_right h (Rat.le_of_lt hs)
  rw [Rat.div_mul_cancel (Rat.ne_of_gt hs)] at this
  rwa [Rat.mul_comm]

/-- Without overlap (every sum of adjacent radii fits its side) nothing is scaled. -/
theorem overlapRatio_eq_one (pairs : List (Rat × Rat)) (h : ∀ p ∈ pairs, 0 < p.2 → p.2 ≤ p.1) :
    overlapRatio pairs = 1 := by
  apply Rat.le_antisymm (overlapRatio_le_one pairs)
  apply le_foldl_min _ _ _ Rat.le_refl
  intro p hp
  have := List.mem_filter.mp hp
  have hs : 0 < p.2 := by simpa using this.2
  exact one_le_div hs (h p this.1 hs)

/-- The ratio is positive when every side with rounded corners has a positive length. -/
theorem overlapRatio_pos (pairs : List (Rat × Rat)) (h : ∀ p ∈ pairs, 0 < p.2 → 0 < p.1) :
    0 < overlapRatio pairs := by
  have key : ∀ (l : List (Rat × Rat)) (m : Rat), 0 < m → (∀ p ∈ l, 0 < p.2 ∧ 0 < p.1) →
      0 < l.foldl (fun m p => min m (p.1 / p.2)) m := by
    intro l
    induction l with
    | nil => intro m hm _; exact hm
    | cons x xs ih =>
      intro m hm hl
      simp only [List.foldl_cons]
      apply ih
      · have hx := hl x (by simp)
        have hd : 0 < x.1 / x.2 := by
          rw [Rat.div_def]; exact Rat.mul_pos hx.2 (Rat.inv_pos.mpr hx.1)
        rw [Rat.min_def]; split <;> assumption
      · intro p hp; exact hl p (by simp [hp])
  apply key _ 1 (by decide)
  intro p hp
  have := List.mem_filter.mp hp
  have hs : 0 < p.2 := by simpa using this.2
  exact ⟨hs, h p this.1 hs⟩

/-- After scaling, two adjacent radii fit their side (css-backgrounds-3 "corner overlap"). -/
theorem scaled_sum_fits (pairs : List (Rat × Rat)) (e a b : Rat) (hp : (e, a + b) ∈ pairs)
    (ha : 0 ≤ a) (hb : 0 ≤ b) (he : 0 ≤ e) :
    a * overlapRatio pairs + b * overlapRatio pairs ≤ e := by
  rw [← Rat.add_mul]
  by_cases hs : 0 < a + b
  · exact mul_le_of_le_div hs (overlapRatio_le pairs (e, a + b) hp hs)
  · have h0 : a + b = 0 := Rat.le_antisymm (Rat.not_lt.mp hs) (Rat.add_nonneg ha hb)
    rw [h0, Rat.zero_mul]; exact he

end Wp.Rounded
