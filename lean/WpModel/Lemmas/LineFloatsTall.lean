/-
Lemmas for the second pass of `get_next_linebox` (`Model/LineFloatsInline.tallLoop`): a line not higher
than the strut is laid out once (refinement to `LFI.nextLine`); through every re-layout the lines stay
stacked downwards.  Core Lean only.
-/
import WpModel.Lemmas.LineFloatsInline
namespace Wp.LFIL
open Wp Wp.Py Wp.LB Wp.Floats Wp.IR

/-- **refinement: a line not higher than the strut is laid out once.**  When the lines of the paragraph are
not higher than the strut the line box is first placed with, the `while True` loop of `get_next_linebox`
(`tallLoop`) stops after its first pass and is the single-pass model `LFI.nextLine`. -/
theorem nextLineTall_eq_nextLine (shapes : List Shape) (p : IR.Para) (hne : shapes.isEmpty = false)
    (hle : p.lineHeight ≤ LFI.strutHeight p) (skip : Option Skip) (y : Rat) (first : Bool) :
    LFI.nextLineTall shapes p (LFI.strutHeight p) p.lineHeight skip y first = LFI.nextLine shapes p skip y first := by
  unfold LFI.nextLineTall LFI.nextLine LFI.tentative
  cases skipFirst p.st.ws depthBound (.box 0 0 false p.kids) skip with
  | error e => rfl
  | ok sr =>
    cases sr with
    | cont => rfl
    | skip skip' =>
      simp only [hne, Bool.false_eq_true, if_false, Except.bind]
      cases IP.minContentWidth p.st p.kids p.indent true true false skip' with
      | error e => rfl
      | ok w0 =>
        simp only [Except.map]
        cases avoidCollisions shapes (LF.lineABox y w0 (LFI.strutHeight p)) { cx := p.cbx, w := p.width, rtl := false } false with
        | error e => rfl
        | ok place =>
          simp only
          unfold LFI.tallLoop
          simp only [Except.bind]
          cases splitLine p.st depthBound p.kids (place.x + if first then p.indent else 0) place.x (place.x + place.avail) skip' with
          | error e => rfl
          | ok lo =>
            simp only
            cases hph : (phantomL lo.kids && !lo.preserved) with
            | true => simp only [if_true]
            | false =>
              simp only [Bool.false_eq_true, if_false]
              cases removeLast p.st depthBound lo.kids with
              | error e => rfl
              | ok rl =>
                simp only
                cases avoidCollisions shapes (LF.lineABox place.y lo.w p.st.fs) { cx := p.cbx, w := p.width, rtl := false } false with
                | error e => rfl
                | ok place2 =>
                  simp only
                  cases textAlign p.align (.inl place.x (lo.w - rl.2) false []) (lo.w - rl.2) place2.avail
                      (lo.resume.isNone || lo.preserved) with
                  | error e => rfl
                  | ok r => simp only [hle, if_true]
theorem iterLinesTall_eq_iterLines (shapes : List Shape) (p : IR.Para) (hne : shapes.isEmpty = false)
    (hle : p.lineHeight ≤ LFI.strutHeight p) : ∀ (fuel : Nat) (skip : Option Skip) (y : Rat) (first : Bool),
    LFI.iterLinesTall shapes p (LFI.strutHeight p) p.lineHeight fuel skip y first = LFI.iterLines shapes p fuel skip y first
  | 0, _, _, _ => rfl
  | fuel + 1, skip, y, first => by
    unfold LFI.iterLinesTall LFI.iterLines
    rw [nextLineTall_eq_nextLine shapes p hne hle]
    cases LFI.nextLine shapes p skip y first with
    | error e => rfl
    | ok o =>
      cases o with
      | none => rfl
      | some line =>
        simp only
        cases line.resume with
        | none => rfl
        | some r => simp only; rw [iterLinesTall_eq_iterLines shapes p hne hle fuel]

/-- every pass of the loop places the line at or below the position it started from -/
theorem tallLoop_below (shapes : List Shape) (p : IR.Para) (lineH : Rat) (skip' : Option Skip) (first : Bool) :
    ∀ (n : Nat) (px py avail cand : Rat) (l : IR.OutLine),
      LFI.tallLoop shapes p lineH skip' first n px py avail cand = .ok (some l) → py ≤ l.y ∧ (l.h = 0 ∨ l.h = lineH)
  | 0, _, _, _, _, _, h => by cases h
  | n + 1, px, py, avail, cand, l, h => by
    unfold LFI.tallLoop at h
    simp only [Except.bind] at h
    split at h
    · cases h
    · rename_i lo hlo
      split at h
      · cases h; exact ⟨Rat.le_refl, Or.inl rfl⟩
      · split at h
        · cases h
        · rename_i rl hrl
          split at h
          · cases h
          · rename_i place2 hp2
            split at h
            · cases h
            · rename_i r hta
              split at h
              · cases h; exact ⟨Rat.le_refl, Or.inr rfl⟩
              · split at h
                · cases h
                · rename_i place3 hp3
                  split at h
                  · cases h; exact ⟨Rat.le_refl, Or.inr rfl⟩
                  · have hy : py ≤ place3.y := (LFL.avoid_line shapes py _ _ _ rfl place3 hp3).1
                    have ih := tallLoop_below shapes p lineH skip' first n _ _ _ _ l h
                    exact ⟨Rat.le_trans hy ih.1, ih.2⟩

theorem nextLineTall_below (shapes : List Shape) (p : IR.Para) (strut lineH : Rat) (skip : Option Skip) (y : Rat)
    (first : Bool) (l : IR.OutLine) (h : LFI.nextLineTall shapes p strut lineH skip y first = .ok (some l)) :
    y ≤ l.y ∧ (l.h = 0 ∨ l.h = lineH) := by
  unfold LFI.nextLineTall at h
  simp only [Except.bind] at h
  split at h
  · cases h
  · split at h
    · cases h
    · split at h
      · cases h
      · rename_i wh hwh
        split at h
        · cases h
        · rename_i place hpl
          have hy : y ≤ place.y := (LFL.avoid_line shapes y _ _ _ rfl place hpl).1
          have := tallLoop_below shapes p lineH _ first _ _ _ _ _ l h
          exact ⟨Rat.le_trans hy this.1, this.2⟩

/-- **lines higher than the strut next to floats never overlap each other**: through every re-layout of
the second pass, each line starts at or below the bottom of the one before. -/
theorem iterLinesTall_stacked (shapes : List Shape) (p : IR.Para) (strut lineH : Rat) : ∀ (fuel : Nat)
    (skip : Option Skip) (y : Rat) (first : Bool) (ls : List IR.OutLine),
    LFI.iterLinesTall shapes p strut lineH fuel skip y first = some (.ok ls) → StackedBelow y ls
  | 0, _, _, _, _, h => by cases h
  | fuel + 1, skip, y, first, ls, h => by
    unfold LFI.iterLinesTall at h
    cases hn : LFI.nextLineTall shapes p strut lineH skip y first with
    | error e => rw [hn] at h; cases h
    | ok o =>
      rw [hn] at h
      cases o with
      | none => simp only at h; cases h; trivial
      | some line =>
        simp only at h
        have hb := (nextLineTall_below shapes p strut lineH skip y first line hn).1
        cases hr : line.resume with
        | none => rw [hr] at h; simp only at h; cases h; exact ⟨hb, trivial⟩
        | some r =>
          rw [hr] at h
          simp only at h
          cases hi : LFI.iterLinesTall shapes p strut lineH fuel (some r) (line.y + line.h) false with
          | none => rw [hi] at h; cases h
          | some res =>
            rw [hi] at h
            cases res with
            | error e => cases h
            | ok rest =>
              simp only [Option.map, Except.map] at h
              cases h
              exact ⟨hb, iterLinesTall_stacked shapes p strut lineH fuel (some r) _ false rest hi⟩

end Wp.LFIL
