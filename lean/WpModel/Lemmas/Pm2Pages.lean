/-
From the cut lemma to pages: some page of the pagination hands over exactly the resume position "start of `b`"
with the resolved break value; position of the lines of `a` and `b` in the document; the first line after a
boundary is on the page that starts there.
-/
import WpModel.Lemmas.Pm2Cut
import WpModel.Lemmas.SegmentPages

namespace Wp.PM
open Wp

/-! ### one page -/

/-- What `remake_page` stores for a non-blank page: everything comes from one layout of the root. -/
theorem remakePage_full (d : Doc) (index : Nat) (resume : Option Resume) (np : NextPage) (right : Bool)
    (p : Page) (hp : remakePage d index resume np right = some p) (hb : p.type.blank = false) :
    ∃ c, (layoutBox c d.root 0 0 0 resume false true []).frag = some p.root ∧
      p.resume = (layoutBox c d.root 0 0 0 resume false true []).resume ∧
      p.nextPage = (layoutBox c d.root 0 0 0 resume false true []).nextPage := by
  unfold remakePage at hp
  dsimp only at hp
  split at hp
  · simp at hp
  · rename_i f hfrag
    simp only [Option.some.injEq] at hp
    subst hp
    simp only at hb
    simp only [hb, Bool.false_eq_true, ↓reduceIte] at hfrag ⊢
    exact ⟨_, hfrag, rfl, rfl⟩

/-- Type of the page `remake_page` makes (side, index, blank, name). -/
theorem remakePage_type' (d : Doc) (index : Nat) (resume : Option Resume) (np : NextPage) (right : Bool)
    (p : Page) (hp : remakePage d index resume np right = some p) :
    p.type.right = right ∧ p.type.index = index ∧
    p.type.blank = isBlank (requestedSide d.rootLtr np.brk) right ∧
    p.type.name = (if p.type.blank then "" else (match np.page with | some n => n | none => "")) ∧
    (p.type.blank = true → p.resume = resume ∧ p.nextPage = np) := by
  unfold remakePage at hp
  dsimp only at hp
  split at hp
  · simp at hp
  · simp only [Option.some.injEq] at hp
    subst hp
    refine ⟨rfl, rfl, rfl, rfl, ?_⟩
    intro hb
    simp only at hb
    simp [hb]

/-- A non-blank page started before the boundary ends before it or exactly at it. -/
theorem remakePage_cut (d : Doc) (hg : Good d.root) (π : List Nat) (j : Nat) (a b : PBox)
    (hs : SibAt d.root π j a b) (hm : meets a b = true) (index : Nat) (resume : Option Resume) (np : NextPage)
    (right : Bool) (p : Page) (hp : remakePage d index resume np right = some p) (hb : p.type.blank = false)
    (hv : Valid d.root resume) (hbef : Before resume π j) :
    ∃ r, p.resume = some r ∧ Valid d.root (some r) ∧
      (Before (some r) π j ∨ (r = resAt π j ∧ p.nextPage = cutPage a b)) := by
  obtain ⟨c, hf, hr, hn⟩ := remakePage_full d index resume np right p hp hb
  obtain ⟨r, hres, hcase⟩ := box_cut d.root hg c 0 0 0 resume false true [] π j a b hv hs hm hbef p.root hf
  refine ⟨r, by rw [hr, hres], ?_, ?_⟩
  · exact (box_ev d.root hg c 0 0 0 resume false true [] hv p.root hf).2 r hres
  · rw [hn]; exact hcase

/-! ### the pages -/

/-- **Some page ends exactly at the boundary.** -/
theorem pages_reach (d : Doc) (hg : Good d.root) (π : List Nat) (j : Nat) (a b : PBox)
    (hs : SibAt d.root π j a b) (hm : meets a b = true) :
    ∀ (fuel index : Nat) (resume : Option Resume) (np : NextPage) (right : Bool) (pages : List Page),
    Valid d.root resume → Before resume π j →
    (resume = none → isBlank (requestedSide d.rootLtr np.brk) right = false) →
    makeAllPages d fuel index resume np right = some pages →
    ∃ P1 p P2 fuel', pages = P1 ++ p :: P2 ∧ p.type.blank = false ∧
      p.resume = some (resAt π j) ∧ p.nextPage = cutPage a b ∧
      makeAllPages d fuel' (p.type.index + 1) p.resume p.nextPage (!p.type.right) = some P2 := by
  intro fuel
  induction fuel with
  | zero => intro index resume np right pages _ _ _ h; simp [makeAllPages] at h
  | succ fuel ih =>
    intro index resume np right pages hv hbef hstart h
    unfold makeAllPages at h
    split at h
    · cases h
    · rename_i p hp
      obtain ⟨hright, hindex, hbl, _, hkeep⟩ := remakePage_type' d index resume np right p hp
      cases hb : p.type.blank with
      | true =>
        obtain ⟨hr, hn⟩ := hkeep hb
        have hrs : resume ≠ none := by
          intro he
          have := hstart he
          rw [← hbl, hb] at this
          cases this
        split at h
        · rename_i hnone; rw [hr] at hnone; exact absurd hnone hrs
        · rename_i r hsome
          split at h
          · rename_i ps hps
            simp only [Option.some.injEq] at h
            subst h
            rw [hr] at hps
            obtain ⟨P1, q, P2, fuel', rfl, h1, h2, h3, h4⟩ :=
              ih (index + 1) resume p.nextPage (!right) ps hv hbef (fun he => absurd he hrs) hps
            exact ⟨p :: P1, q, P2, fuel', rfl, h1, h2, h3, h4⟩
          · cases h
      | false =>
        obtain ⟨r, hr, hvr, hcase⟩ := remakePage_cut d hg π j a b hs hm index resume np right p hp hb hv hbef
        split at h
        · rename_i hnone; rw [hr] at hnone; cases hnone
        · rename_i r' hsome
          split at h
          · rename_i ps hps
            simp only [Option.some.injEq] at h
            subst h
            rcases hcase with hbef' | ⟨hexact, hnp⟩
            · rw [hr] at hps
              obtain ⟨P1, q, P2, fuel', rfl, h1, h2, h3, h4⟩ :=
                ih (index + 1) (some r) p.nextPage (!right) ps hvr hbef' (fun he => by cases he) hps
              exact ⟨p :: P1, q, P2, fuel', rfl, h1, h2, h3, h4⟩
            · refine ⟨[], p, ps, fuel, rfl, hb, by rw [hr, hexact], hnp, ?_⟩
              rw [hindex, hright]; exact hps
          · cases h

/-! ### where the lines of `a` and `b` are -/

theorem linesFromKids_at (kids : List PBox) (m : Nat) (x : PBox) (sub : Option Resume) (h : kids[m]? = some x) :
    linesFromKids kids m sub = linesFrom x sub ++ linesFromKids kids (m + 1) none := by
  induction kids generalizing m with
  | nil => simp at h
  | cons k ks ih =>
    cases m with
    | zero =>
      simp at h; subst h
      simp [linesFromKids]
    | succ m =>
      simp only [linesFromKids]
      exact ih m (by simpa using h)

theorem linesFromKids_prefix (kids : List PBox) (m : Nat) :
    ∃ pre, linesFromKids kids 0 none = pre ++ linesFromKids kids m none := by
  induction kids generalizing m with
  | nil => exact ⟨[], by simp [linesFromKids]⟩
  | cons k ks ih =>
    cases m with
    | zero => exact ⟨[], rfl⟩
    | succ m =>
      obtain ⟨pre, hpre⟩ := ih m
      refine ⟨linesFrom k none ++ pre, ?_⟩
      simp only [linesFromKids, hpre, List.append_assoc]

/-- The lines of the document: something, then the lines of `a`, then what the resume position "start of `b`"
designates, which begins with the lines of `b`. -/
theorem linesFrom_split : ∀ (π : List Nat) (box : PBox) (j : Nat) (a b : PBox), SibAt box π j a b →
    ∃ pre post, linesFrom box none = pre ++ linesFrom a none ++ linesFrom box (some (resAt π j)) ∧
      linesFrom box (some (resAt π j)) = linesFrom b none ++ post
  | [], box, j, a, b => by
    intro hs
    cases box with
    | para _ _ _ _ => simp [SibAt] at hs
    | block id st kids =>
      simp only [SibAt] at hs
      obtain ⟨pre, hpre⟩ := linesFromKids_prefix kids j
      refine ⟨pre, linesFromKids kids (j + 1 + 1) none, ?_, ?_⟩
      · simp only [linesFrom, skipIdxOf_none, subSkipOf_none, resAt, skipIdxOf_node, subSkipOf_node]
        rw [hpre, linesFromKids_at kids j a none hs.1, List.append_assoc]
      · simp only [linesFrom, resAt, skipIdxOf_node, subSkipOf_node]
        exact linesFromKids_at kids (j + 1) b none hs.2
  | i :: π, box, j, a, b => by
    intro hs
    cases box with
    | para _ _ _ _ => simp [SibAt] at hs
    | block id st kids =>
      simp only [SibAt] at hs
      obtain ⟨k, hk, hsk⟩ := hs
      obtain ⟨pre', post', h1, h2⟩ := linesFrom_split π k j a b hsk
      obtain ⟨pre, hpre⟩ := linesFromKids_prefix kids i
      refine ⟨pre ++ pre', post' ++ linesFromKids kids (i + 1) none, ?_, ?_⟩
      · simp only [linesFrom, skipIdxOf_none, subSkipOf_none, resAt, skipIdxOf_node, subSkipOf_node]
        rw [hpre, linesFromKids_at kids i k none hk, linesFromKids_at kids i k _ hk, h1]
        simp only [List.append_assoc]
      · simp only [linesFrom, resAt, skipIdxOf_node, subSkipOf_node]
        rw [linesFromKids_at kids i k _ hk, h2, List.append_assoc]

theorem pagesLines_append (A B : List Page) : pagesLines (A ++ B) = pagesLines A ++ pagesLines B := by
  induction A with
  | nil => rfl
  | cons p ps ih => simp [pagesLines, ih]

end Wp.PM
