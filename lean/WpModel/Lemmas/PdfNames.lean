/- Lemmas about Model/PdfNames: Python's order on sequences, `sorted` sorts and permutes.  Core Lean only. -/
import WpModel.Model.PdfNames
namespace Wp.PdfNames

theorem lexLt_irrefl (a : List Nat) : lexLt a a = false := by
  induction a with
  | nil => rfl
  | cons x xs ih => simp [lexLt, ih]

theorem lexLe_total (a b : List Nat) : lexLe a b = true ∨ lexLe b a = true := by
  induction a generalizing b with
  | nil => cases b <;> simp [lexLe, lexLt]
  | cons x xs ih =>
    cases b with
    | nil => simp [lexLe, lexLt]
    | cons y ys =>
      simp only [lexLe, lexLt, Bool.not_eq_true', Bool.or_eq_false_iff, decide_eq_false_iff_not, Bool.and_eq_false_iff,
        beq_eq_false_iff_ne]
      rcases Nat.lt_trichotomy x y with h | h | h
      · left; exact ⟨by omega, Or.inl (by omega)⟩
      · subst h
        rcases ih ys with h1 | h1
        · left; exact ⟨by omega, Or.inr (by simpa [lexLe] using h1)⟩
        · right; exact ⟨by omega, Or.inr (by simpa [lexLe] using h1)⟩
      · right; exact ⟨by omega, Or.inl (by omega)⟩

theorem lexLt_trans (a b c : List Nat) (h1 : lexLt a b = true) (h2 : lexLt b c = true) : lexLt a c = true := by
  induction a generalizing b c with
  | nil => cases c <;> cases b <;> simp_all [lexLt]
  | cons x xs ih =>
    cases b with
    | nil => simp [lexLt] at h1
    | cons y ys =>
      cases c with
      | nil => simp [lexLt] at h2
      | cons z zs =>
        simp only [lexLt, Bool.or_eq_true, decide_eq_true_eq, Bool.and_eq_true, beq_iff_eq] at h1 h2 ⊢
        rcases h1 with h1 | ⟨rfl, h1⟩ <;> rcases h2 with h2 | ⟨rfl, h2⟩
        · left; omega
        · left; exact h1
        · left; exact h2
        · right; exact ⟨rfl, ih ys zs h1 h2⟩

theorem lexLe_of_lt (a b : List Nat) (h : lexLt a b = true) : lexLe a b = true := by
  rcases lexLe_total a b with h1 | h1
  · exact h1
  · -- b ≤ a and a < b is impossible
    simp only [lexLe, Bool.not_eq_true'] at h1
    rw [h] at h1; cases h1


theorem sortedBy_cons (le : List Nat → List Nat → Bool) (a : List Nat) (l : List (List Nat)) :
    sortedBy le (a :: l) = true ↔ (∀ b, l.head? = some b → le a b = true) ∧ sortedBy le l = true := by
  cases l with
  | nil => simp [sortedBy]
  | cons b rest => simp [sortedBy]

theorem insertName_head (x : PyStr) (l : List PyStr) (b : PyStr) (h : (insertName x l).head? = some b) :
    b = x ∨ l.head? = some b := by
  cases l with
  | nil => simp [insertName] at h; exact Or.inl h.symm
  | cons y ys =>
    simp only [insertName] at h
    split at h
    · simp at h; exact Or.inl h.symm
    · simp at h; right; simp [h]

theorem insertName_sorted (x : PyStr) (l : List PyStr) (h : sortedBy lexLe l = true) :
    sortedBy lexLe (insertName x l) = true := by
  induction l with
  | nil => simp [insertName, sortedBy]
  | cons y ys ih =>
    simp only [insertName]
    split
    · rename_i hlt
      rw [sortedBy_cons]
      exact ⟨fun b hb => by simp at hb; subst hb; exact lexLe_of_lt _ _ hlt, h⟩
    · rename_i hnlt
      rw [sortedBy_cons] at h ⊢
      refine ⟨?_, ih h.2⟩
      intro b hb
      rcases insertName_head x ys b hb with rfl | h2
      · -- ¬ x < y  means  y ≤ x
        simpa [lexLe] using hnlt
      · exact h.1 b h2

/-- `sorted()` returns the names in non-decreasing Python order. -/
theorem pySorted_sorted (l : List PyStr) : sortedBy lexLe (pySorted l) = true := by
  induction l with
  | nil => rfl
  | cons x xs ih => exact insertName_sorted x _ ih

theorem insertName_perm (x : PyStr) (l : List PyStr) : (insertName x l).Perm (x :: l) := by
  induction l with
  | nil => simp [insertName]
  | cons y ys ih =>
    simp only [insertName]
    split
    · exact List.Perm.refl _
    · exact (List.Perm.cons y ih).trans (List.Perm.swap x y ys)

/-- … and keeps exactly the given names (one key per anchor). -/
theorem pySorted_perm (l : List PyStr) : (pySorted l).Perm l := by
  induction l with
  | nil => exact List.Perm.refl _
  | cons x xs ih => exact (insertName_perm x _).trans (List.Perm.cons x ih)

theorem insertName_all (p : PyStr → Bool) (x : PyStr) (l : List PyStr) (hx : p x = true) (hl : l.all p = true) :
    (insertName x l).all p = true := by
  induction l with
  | nil => simp [insertName, hx]
  | cons y ys ih =>
    simp only [List.all_cons, Bool.and_eq_true] at hl
    simp only [insertName]
    split
    · simp [hx, hl.1, hl.2]
    · simp [hl.1, ih hl.2]

theorem pySorted_all (p : PyStr → Bool) (l : List PyStr) (h : l.all p = true) : (pySorted l).all p = true := by
  induction l with
  | nil => rfl
  | cons x xs ih =>
    simp only [List.all_cons, Bool.and_eq_true] at h
    exact insertName_all p x _ h.1 (ih h.2)

theorem map_keyBytes_ascii (l : List PyStr) (h : l.all isAscii = true) : l.map keyBytes = l := by
  induction l with
  | nil => rfl
  | cons x xs ih =>
    simp only [List.all_cons, Bool.and_eq_true] at h
    simp [keyBytes, h.1, ih h.2]

end Wp.PdfNames
