/- Lemmas about Model/PdfNames: Python's order on sequences, `sorted` sorts and permutes.  Core Lean only. -/
import WpModel.Model.PdfNames
namespace Wp.PdfNames

theorem lexLt_irrefl (a : List Nat) : lexLt a a = false := by
  induction a with
  | nil => rfl
  | cons x xs ih => simp [lexLt, ih]

theorem lexLe_total (a b : List Nat) : lexLe a b = true ∨ lexLe b a = true := by
  induction a generalizing b with
  | nil => cases b <;> simp [lexLe, lexLt]
  | cons x xs ih =>
    cases b with
    | nil => simp [lexLe, lexLt]
    | cons y ys =>
      simp only [lexLe, lexLt, Bool.not_eq_true', Bool.or_eq_false_iff, decide_eq_false_iff_not, Bool.and_eq_false_iff,
        beq_eq_false_iff_ne]
      rcases Nat.lt_trichotomy x y with h | h | h
      · left; exact ⟨by omega, Or.inl (by omega)⟩
      · subst h
        rcases ih ys with h1 | h1
        · left; exact ⟨by omega, Or.inr (by simpa [lexLe] using h1)⟩
        · right; exact ⟨by omega, Or.inr (by simpa [lexLe] using h1)⟩
      · right; exact ⟨by omega, Or.inl (by omega)⟩

theorem lexLt_trans (a b c : List Nat) (h1 : lexLt a b = true) (h2 : lexLt b c = true) : lexLt a c = true := by
  induction a generalizing b c with
  | nil => cases c <;> cases b <;> simp_all [lexLt]
  | cons x xs ih =>
    cases b with
    | nil => simp [lexLt] at h1
    | cons y ys =>
      cases c with
      | nil => simp [lexLt] at h2
      | cons z zs =>
        simp only [lexLt, Bool.or_eq_true, decide_eq_true_eq, Bool.and_eq_true, beq_iff_eq] at h1 h2 ⊢
        rcases h1 with h1 | ⟨rfl, h1⟩ <;> rcases h2 with h2 | ⟨rfl, h2⟩
        · left; omega
        · left; exact h1
        · left; exact h2
        · right; exact ⟨rfl, ih ys zs h1 h2⟩

theorem lexLe_of_lt (a b : List Nat) (h : lexLt a b = true) : lexLe a b = true := by
  rcases lexLe_total a b with h1 | h1
  · exact h1
  · -- b ≤ a and a < b is impossible
    simp only [lexLe, Bool.not_eq_true'] at h1
    rw [h] at h1; cases h1


theorem sortedBy_cons (le : List Nat → List Nat → Bool) (a : List Nat) (l : List (List Nat)) :
    sortedBy le (a :: l) = true ↔ (∀ b, l.head? = some b → le a b = true) ∧ sortedBy le l = true := by
  cases l with
  | nil => simp [sortedBy]
  | cons b rest => simp [sortedBy]

theorem insertName_head (x : PyStr) (l : List PyStr) (b : PyStr) (h : (insertName x l).head? = some b) :
    b = x ∨ l.head? = some b := by
  cases l with
  | nil => simp [insertName] at h; exact Or.inl h.symm
  | cons y ys =>
    simp only [insertName] at h
    split at h
    · simp at h; exact Or.inl h.symm
    · simp at h; right; simp [h]

theorem insertName_sorted (x : PyStr) (l : List PyStr) (h : sortedBy lexLe l = true) :
    sortedBy lexLe (insertName x l) = true := by
  induction l with
  | nil => simp [insertName, sortedBy]
  | cons y ys ih =>
    simp only [insertName]
    split
    · rename_i hlt
      rw [sortedBy_cons]
      exact ⟨fun b hb => by simp at hb; subst hb; exact lexLe_of_lt _ _ hlt, h⟩
    · rename_i hnlt
      rw [sortedBy_cons] at h ⊢
      refine ⟨?_, ih h.2⟩
      intro b hb
      rcases insertName_head x ys b hb with rfl | h2
      · -- ¬ x < y  means  y ≤ x
        simpa [lexLe] using hnlt
      · exact h.1 b h2

/-- `sorted()` returns the names in non-decreasing Python order. -/
theorem pySorted_sorted (l : List PyStr) : sortedBy lexLe (pySorted l) = true := by
  induction l with
  | nil => rfl
  | cons x xs ih => exact insertName_sorted x _ ih

theorem insertName_perm (x : PyStr) (l : List PyStr) : (insertName x l).Perm (x :: l) := by
  induction l with
  | nil => simp [insertName]
  | cons y ys ih =>
    simp only [insertName]
    split
    · exact List.Perm.refl _
    · exact (List.Perm.cons y ih).trans (List.Perm.swap x y ys)

/-- … and keeps exactly the given names (one key per anchor). -/
theorem pySorted_perm (l : List PyStr) : (pySorted l).Perm l := by
  induction l with
  | nil => exact List.Perm.refl _
  | cons x xs ih => exact (insertName_perm x _).trans (List.Perm.cons x ih)

theorem insertName_all (p : PyStr → Bool) (x : PyStr) (l : List PyStr) (hx : p x = true) (hl : l.all p = true) :
    (insertName x l).all p = true := by
  induction l with
  | nil => simp [insertName, hx]
  | cons y ys ih =>
    simp only [List.all_cons, Bool.and_eq_true] at hl
    simp only [insertName]
    split
    · simp [hx, hl.1, hl.2]
    · simp [hl.1, ih hl.2]

theorem pySorted_all (p : PyStr → Bool) (l : List PyStr) (h : l.all p = true) : (pySorted l).all p = true := by
  induction l with
  | nil => rfl
  | cons x xs ih =>
    simp only [List.all_cons, Bool.and_eq_true] at h
    exact insertName_all p x _ h.1 (ih h.2)

theorem map_keyBytes_ascii (l : List PyStr) (h : l.all isAscii = true) : l.map keyBytes = l := by
  induction l with
  | nil => rfl
  | cons x xs ih =>
    simp only [List.all_cons, Bool.and_eq_true] at h
    simp [keyBytes, h.1, ih h.2]

/-! ### `sorted(…, key=…)` -/

theorem map_insertBy (key : PyStr → List Nat) (x : PyStr) (l : List PyStr) :
    (insertBy key x l).map key = insertName (key x) (l.map key) := by
  induction l with
  | nil => rfl
  | cons y ys ih =>
    simp only [insertBy, List.map_cons, insertName]
    split
    · rfl
    · simp [ih]

/-- Sorting by a key and then taking the keys is sorting the keys. -/
theorem map_pySortedBy (key : PyStr → List Nat) (l : List PyStr) :
    (pySortedBy key l).map key = pySorted (l.map key) := by
  induction l with
  | nil => rfl
  | cons x xs ih => simp only [pySortedBy, pySorted, List.map_cons, map_insertBy, ih]

theorem insertBy_perm (key : PyStr → List Nat) (x : PyStr) (l : List PyStr) : (insertBy key x l).Perm (x :: l) := by
  induction l with
  | nil => simp [insertBy]
  | cons y ys ih =>
    simp only [insertBy]
    split
    · exact List.Perm.refl _
    · exact (List.Perm.cons y ih).trans (List.Perm.swap x y ys)

theorem pySortedBy_perm (key : PyStr → List Nat) (l : List PyStr) : (pySortedBy key l).Perm l := by
  induction l with
  | nil => exact List.Perm.refl _
  | cons x xs ih => exact (insertBy_perm key x _).trans (List.Perm.cons x ih)

/-- For names that are all ASCII the key is the name: the repaired order is the old `sorted(pdf_names)` order. -/
theorem insertBy_ascii (x : PyStr) (l : List PyStr) (hx : isAscii x = true) (hl : l.all isAscii = true) :
    insertBy keyBytes x l = insertName x l := by
  induction l with
  | nil => rfl
  | cons y ys ih =>
    simp only [List.all_cons, Bool.and_eq_true] at hl
    simp only [insertBy, insertName, keyBytes, hx, hl.1, if_true, ih hl.2]

theorem pySortedBy_ascii (l : List PyStr) (h : l.all isAscii = true) : pySortedBy keyBytes l = pySorted l := by
  induction l with
  | nil => rfl
  | cons x xs ih =>
    simp only [List.all_cons, Bool.and_eq_true] at h
    simp only [pySortedBy, pySorted, ih h.2]
    exact insertBy_ascii x _ h.1 (pySorted_all isAscii xs h.2)

/-! ### `/EmbeddedFiles`: where sorting the serialised strings sorts the keys -/

/-- No byte that pydyf escapes and none at or below `)`: the closing parenthesis sorts before every byte of the name. -/
def plainName (s : List Nat) : Bool := s.all (fun b => 41 < b && b != 92)

theorem escape_plain (s : List Nat) (h : plainName s = true) :
    s.flatMap (fun b => if b = 92 ∨ b = 40 ∨ b = 41 then [92, b] else [b]) = s := by
  induction s with
  | nil => rfl
  | cons b bs ih =>
    simp only [plainName, List.all_cons, Bool.and_eq_true, decide_eq_true_eq, bne_iff_ne] at h
    have hb : ¬ (b = 92 ∨ b = 40 ∨ b = 41) := by omega
    have hbs : plainName bs = true := by simpa [plainName] using h.2
    simp only [List.flatMap_cons, hb, if_false, ih hbs]
    rfl

theorem litData_plain (s : List Nat) (h : plainName s = true) : litData s = 40 :: (s ++ [41]) := by
  unfold litData
  rw [escape_plain s h]
  rfl

theorem lexLt_terminated (s t : List Nat) (hs : plainName s = true) (ht : plainName t = true) :
    lexLt (s ++ [41]) (t ++ [41]) = lexLt s t := by
  induction s generalizing t with
  | nil =>
    cases t with
    | nil => simp [lexLt]
    | cons b bs =>
      simp only [plainName, List.all_cons, Bool.and_eq_true, decide_eq_true_eq] at ht
      simp [lexLt, ht.1.1]
  | cons a as ih =>
    simp only [plainName, List.all_cons, Bool.and_eq_true, decide_eq_true_eq] at hs
    cases t with
    | nil =>
      have h1 : ¬ a < 41 := by omega
      have h2 : ¬ a = 41 := by omega
      simp [lexLt, h1, h2]
    | cons b bs =>
      simp only [plainName, List.all_cons, Bool.and_eq_true, decide_eq_true_eq] at ht
      simp only [List.cons_append, lexLt]
      rw [ih bs (by simpa [plainName] using hs.2) (by simpa [plainName] using ht.2)]

theorem lexLe_litData (s t : List Nat) (hs : plainName s = true) (ht : plainName t = true) :
    lexLe (litData s) (litData t) = lexLe s t := by
  rw [litData_plain s hs, litData_plain t ht]
  simp only [lexLe, lexLt, Nat.lt_irrefl, decide_false, beq_self_eq_true, Bool.true_and, Bool.false_or]
  rw [lexLt_terminated t s ht hs]

theorem sortedBy_of_map_litData (l : List (List Nat)) (hp : ∀ x ∈ l, plainName x = true)
    (h : sortedBy lexLe (l.map litData) = true) : sortedBy lexLe l = true := by
  induction l with
  | nil => rfl
  | cons a rest ih =>
    cases rest with
    | nil => rfl
    | cons b more =>
      simp only [List.map_cons, sortedBy, Bool.and_eq_true] at h ⊢
      refine ⟨?_, ih (fun x hx => hp x (List.mem_cons_of_mem _ hx)) (by simpa [sortedBy] using h.2)⟩
      rw [← lexLe_litData a b (hp a (by simp)) (hp b (by simp))]
      exact h.1

/-! ### distinct names give distinct keys -/

/-- Unicode scalar values: what a Python `str` that can be encoded holds (no lone surrogates). -/
def scalar (c : Nat) : Bool := c < 0x110000 && !(0xD800 ≤ c && c ≤ 0xDFFF)
def validStr (s : PyStr) : Bool := s.all scalar

theorem utf16be_ne_nil (c : Nat) : utf16be c ≠ [] := by
  unfold utf16be; split <;> simp

theorem utf16be_head_inj (c d : Nat) (r r' : List Nat) (hc : scalar c = true) (hd : scalar d = true)
    (h : utf16be c ++ r = utf16be d ++ r') : c = d ∧ r = r' := by
  simp only [scalar, Bool.and_eq_true, decide_eq_true_eq, Bool.not_eq_true', Bool.and_eq_false_iff,
    decide_eq_false_iff_not] at hc hd
  unfold utf16be at h
  by_cases h1 : c < 0x10000 <;> by_cases h2 : d < 0x10000 <;> simp only [h1, h2, if_true, if_false] at h
  · simp only [List.cons_append, List.nil_append, List.cons.injEq] at h
    exact ⟨by omega, h.2.2⟩
  · simp only [List.cons_append, List.nil_append, List.cons.injEq] at h
    omega
  · simp only [List.cons_append, List.nil_append, List.cons.injEq] at h
    omega
  · simp only [List.cons_append, List.nil_append, List.cons.injEq] at h
    exact ⟨by omega, h.2.2.2.2⟩

theorem flatMap_utf16be_inj (s t : PyStr) (hs : validStr s = true) (ht : validStr t = true)
    (h : s.flatMap utf16be = t.flatMap utf16be) : s = t := by
  induction s generalizing t with
  | nil =>
    cases t with
    | nil => rfl
    | cons d ds =>
      simp only [List.flatMap_nil, List.flatMap_cons] at h
      have := utf16be_ne_nil d
      cases hd : utf16be d with
      | nil => exact absurd hd this
      | cons x xs => rw [hd] at h; simp at h
  | cons c cs ih =>
    cases t with
    | nil =>
      simp only [List.flatMap_nil, List.flatMap_cons] at h
      have := utf16be_ne_nil c
      cases hd : utf16be c with
      | nil => exact absurd hd this
      | cons x xs => rw [hd] at h; simp at h
    | cons d ds =>
      simp only [validStr, List.all_cons, Bool.and_eq_true] at hs ht
      simp only [List.flatMap_cons] at h
      obtain ⟨e, hr⟩ := utf16be_head_inj c d _ _ hs.1 ht.1 h
      rw [e, ih ds (by simpa [validStr] using hs.2) (by simpa [validStr] using ht.2) hr]

theorem keyBytes_inj (s t : PyStr) (hs : validStr s = true) (ht : validStr t = true)
    (h : keyBytes s = keyBytes t) : s = t := by
  unfold keyBytes at h
  by_cases a : isAscii s = true <;> by_cases b : isAscii t = true <;> simp only [a, b, if_true, if_false] at h
  · exact h
  · subst h
    simp [isAscii] at a
  · subst h
    simp [isAscii] at b
  · exact flatMap_utf16be_inj s t hs ht (by simpa using h)

theorem lexLt_trichotomy (a b : List Nat) : lexLt a b = true ∨ a = b ∨ lexLt b a = true := by
  induction a generalizing b with
  | nil => cases b <;> simp [lexLt]
  | cons x xs ih =>
    cases b with
    | nil => simp [lexLt]
    | cons y ys =>
      simp only [lexLt, Bool.or_eq_true, decide_eq_true_eq, Bool.and_eq_true, beq_iff_eq, List.cons.injEq]
      rcases Nat.lt_trichotomy x y with h | h | h
      · exact Or.inl (Or.inl h)
      · subst h
        rcases ih ys with h1 | h1 | h1
        · exact Or.inl (Or.inr ⟨rfl, h1⟩)
        · exact Or.inr (Or.inl ⟨rfl, h1⟩)
        · exact Or.inr (Or.inr (Or.inr ⟨rfl, h1⟩))
      · exact Or.inr (Or.inr (Or.inl h))

/-- Sorted without repeats is strictly sorted. -/
theorem sortedBy_strict (l : List (List Nat)) (hs : sortedBy lexLe l = true) (hn : l.Nodup) :
    sortedBy lexLt l = true := by
  induction l with
  | nil => rfl
  | cons a rest ih =>
    cases rest with
    | nil => rfl
    | cons b more =>
      simp only [sortedBy, Bool.and_eq_true] at hs ⊢
      have hn' := List.nodup_cons.mp hn
      refine ⟨?_, ih (by simpa [sortedBy] using hs.2) hn'.2⟩
      have hne : a ≠ b := fun e => hn'.1 (e ▸ List.mem_cons_self)
      rcases lexLt_trichotomy a b with h | h | h
      · exact h
      · exact absurd h hne
      · have := hs.1; simp [lexLe, h] at this

theorem map_keyBytes_nodup (l : List PyStr) (hn : l.Nodup) (hv : ∀ x ∈ l, validStr x = true) :
    (l.map keyBytes).Nodup := by
  induction l with
  | nil => simp
  | cons a rest ih =>
    have hn' := List.nodup_cons.mp hn
    simp only [List.map_cons, List.nodup_cons, List.mem_map, not_exists, not_and]
    refine ⟨?_, ih hn'.2 (fun x hx => hv x (List.mem_cons_of_mem _ hx))⟩
    intro x hx heq
    have := keyBytes_inj x a (hv x (List.mem_cons_of_mem _ hx)) (hv a List.mem_cons_self) heq
    exact hn'.1 (this ▸ hx)

end Wp.PdfNames
