/-
Lemmas on the slot assignment of `wrap_table` (Model/TableGrid.lean) used by Props/C08.lean.
Core Lean only.
-/
import WpModel.Model.TableGrid

namespace Wp.TableGrid

/-! ### `firstFree` -/

theorem le_foldl_max (l : List Nat) (m : Nat) : m ≤ l.foldl max m := by
  induction l generalizing m with
  | nil => simp
  | cons a l ih => simp only [List.foldl_cons]; exact Nat.le_trans (Nat.le_max_left m a) (ih _)

theorem mem_le_foldl_max (l : List Nat) (m : Nat) : ∀ y ∈ l, y ≤ l.foldl max m := by
  induction l generalizing m with
  | nil => intro y hy; cases hy
  | cons a l ih =>
    intro y hy
    simp only [List.foldl_cons]
    cases hy with
    | head => exact Nat.le_trans (Nat.le_max_right m a) (le_foldl_max l _)
    | tail _ h => exact ih _ y h

theorem lt_bound (occ : List Nat) : ∀ y ∈ occ, y < bound occ := by
  intro y hy
  unfold bound
  exact Nat.lt_succ_of_le (mem_le_foldl_max occ 0 y hy)

theorem firstFreeGo_spec (occ : List Nat) (n x : Nat) (h : ∀ y ∈ occ, y < x + n) :
    x ≤ firstFreeGo occ n x ∧ firstFreeGo occ n x ∉ occ ∧
    ∀ c, x ≤ c → c < firstFreeGo occ n x → c ∈ occ := by
  induction n generalizing x with
  | zero =>
    simp only [firstFreeGo]
    refine ⟨Nat.le_refl _, ?_, ?_⟩
    · intro hx; have := h x hx; omega
    · intro c h1 h2; omega
  | succ n ih =>
    simp only [firstFreeGo]
    by_cases hx : occ.contains x = true
    · rw [if_pos hx]
      have := ih (x + 1) (by intro y hy; have := h y hy; omega)
      refine ⟨by omega, this.2.1, ?_⟩
      intro c h1 h2
      by_cases hc : c = x
      · subst hc; simpa using hx
      · exact this.2.2 c (by omega) h2
    · rw [if_neg hx]
      refine ⟨Nat.le_refl _, ?_, ?_⟩
      · simpa using hx
      · intro c h1 h2; omega

/-- The `while` loop ends on a column that is not occupied, having skipped only occupied ones. -/
theorem firstFree_spec (occ : List Nat) (x : Nat) :
    x ≤ firstFree occ x ∧ firstFree occ x ∉ occ ∧ ∀ c, x ≤ c → c < firstFree occ x → c ∈ occ := by
  unfold firstFree
  apply firstFreeGo_spec
  intro y hy
  have := lt_bound occ y hy
  omega

/-! ### `rangeList`, `markRows` -/

theorem mem_rangeList (a b c : Nat) : c ∈ rangeList a b ↔ a ≤ c ∧ c < b := by
  unfold rangeList
  simp only [List.mem_map, List.mem_range]
  constructor
  · rintro ⟨k, hk, rfl⟩; omega
  · intro h; exact ⟨c - a, by omega, by omega⟩

theorem markRows_length (later : List (List Nat)) (n : Nat) (cols : List Nat) :
    (markRows later n cols).length = later.length := by
  induction later generalizing n with
  | nil => simp [markRows]
  | cons r rs ih => cases n <;> simp [markRows, ih]

/-- Marking only adds columns. -/
theorem markRows_mono (later : List (List Nat)) (n : Nat) (cols : List Nat) (k : Nat) (o : List Nat)
    (h : later[k]? = some o) : ∃ o', (markRows later n cols)[k]? = some o' ∧ ∀ c ∈ o, c ∈ o' := by
  induction later generalizing n k with
  | nil => simp at h
  | cons r rs ih =>
    cases n with
    | zero => exact ⟨o, by simpa [markRows] using h, fun c hc => hc⟩
    | succ n =>
      cases k with
      | zero =>
        simp only [List.getElem?_cons_zero, Option.some.injEq] at h
        subst h
        exact ⟨cols ++ r, by simp [markRows], fun c hc => by simp [hc]⟩
      | succ k =>
        simp only [List.getElem?_cons_succ] at h
        obtain ⟨o', h1, h2⟩ := ih n k h
        exact ⟨o', by simpa [markRows] using h1, h2⟩

/-- The first `n` later rows receive the columns. -/
theorem markRows_marks (later : List (List Nat)) (n : Nat) (cols : List Nat) (k : Nat) (o' : List Nat)
    (hk : k < n) (h : (markRows later n cols)[k]? = some o') : ∀ c ∈ cols, c ∈ o' := by
  induction later generalizing n k with
  | nil => simp [markRows] at h
  | cons r rs ih =>
    cases n with
    | zero => omega
    | succ n =>
      cases k with
      | zero =>
        simp only [markRows, List.getElem?_cons_zero, Option.some.injEq] at h
        subst h
        intro c hc; simp [hc]
      | succ k =>
        simp only [markRows, List.getElem?_cons_succ] at h
        exact ih n k (by omega) h

/-- Rows beyond the first `n` are untouched, and marked rows only gain the given columns. -/
theorem markRows_sound (later : List (List Nat)) (n : Nat) (cols : List Nat) (k : Nat) (o' : List Nat)
    (h : (markRows later n cols)[k]? = some o') :
    ∃ o, later[k]? = some o ∧ ∀ c ∈ o', c ∈ o ∨ (k < n ∧ c ∈ cols) := by
  induction later generalizing n k with
  | nil => simp [markRows] at h
  | cons r rs ih =>
    cases n with
    | zero => exact ⟨o', by simpa [markRows] using h, fun c hc => Or.inl hc⟩
    | succ n =>
      cases k with
      | zero =>
        simp only [markRows, List.getElem?_cons_zero, Option.some.injEq] at h
        subst h
        refine ⟨r, by simp, ?_⟩
        intro c hc
        simp only [List.mem_append] at hc
        rcases hc with hc | hc
        · exact Or.inr ⟨by omega, hc⟩
        · exact Or.inl hc
      | succ k =>
        simp only [markRows, List.getElem?_cons_succ] at h
        obtain ⟨o, h1, h2⟩ := ih n k h
        refine ⟨o, by simpa using h1, ?_⟩
        intro c hc
        rcases h2 c hc with h3 | ⟨h3, h4⟩
        · exact Or.inl h3
        · exact Or.inr ⟨by omega, h4⟩


theorem markRows_zero (later : List (List Nat)) (cols : List Nat) : markRows later 0 cols = later := by
  cases later <;> simp [markRows]

/-! ### one cell -/

/-- The clipped `rowspan` written back on the cell. -/
def effRowspan (c : CellIn) (nLater : Nat) : Nat :=
  if c.rowspan = 1 then 1 else if c.rowspan = 0 then nLater + 1 else min c.rowspan (nLater + 1)

theorem effRowspan_pos (c : CellIn) (n : Nat) : 1 ≤ effRowspan c n := by
  unfold effRowspan; split <;> try omega
  split <;> omega

theorem effRowspan_le (c : CellIn) (n : Nat) : effRowspan c n ≤ n + 1 := by
  unfold effRowspan; split <;> try omega
  split <;> omega

/-- `rowspan = 0` means "to the end of the group"; a positive rowspan is clipped, never extended. -/
theorem effRowspan_zero (c : CellIn) (n : Nat) (h : c.rowspan = 0) : effRowspan c n = n + 1 := by
  simp [effRowspan, h]

theorem effRowspan_clip (c : CellIn) (n : Nat) (h : c.rowspan ≠ 0) : effRowspan c n = min c.rowspan (n + 1) := by
  unfold effRowspan; split <;> try omega

/-- `placeCell` in closed form. -/
theorem placeCell_eq (occ : List Nat) (later : List (List Nat)) (x : Nat) (c : CellIn) :
    placeCell occ later x c =
      (⟨firstFree occ x, c.colspan, effRowspan c later.length⟩,
       markRows later (effRowspan c later.length - 1)
         (rangeList (firstFree occ x) (firstFree occ x + c.colspan)),
       firstFree occ x + c.colspan) := by
  unfold placeCell effRowspan
  by_cases h1 : c.rowspan = 1
  · simp [h1, markRows_zero]
  · by_cases h0 : c.rowspan = 0
    · simp [h0]
    · simp [h1, h0]

/-! ### one row -/

/-- Column interval of a placed cell. -/
def InCols (o : CellOut) (c : Nat) : Prop := o.gridX ≤ c ∧ c < o.gridX + o.colspan

/-- No column of the cell is in the set. -/
def Avoids (occ : List Nat) (o : CellOut) : Prop := ∀ c ∈ occ, ¬ InCols o c

instance (o : CellOut) (c : Nat) : Decidable (InCols o c) := by unfold InCols; infer_instance
instance (occ : List Nat) (o : CellOut) : Decidable (Avoids occ o) := by unfold Avoids; infer_instance

structure RowFacts (occ : List Nat) (later : List (List Nat)) (x w : Nat)
    (outs : List CellOut) (later' : List (List Nat)) (w' : Nat) : Prop where
  /-- cells are laid out left to right without overlap, starting at `x` -/
  sorted : outs.Pairwise (fun a b => a.gridX + a.colspan ≤ b.gridX)
  ge : ∀ o ∈ outs, x ≤ o.gridX
  /-- the first column of every cell is free in this row -/
  origin : ∀ o ∈ outs, o.gridX ∉ occ
  rs_pos : ∀ o ∈ outs, 1 ≤ o.rowspan
  rs_le : ∀ o ∈ outs, o.rowspan ≤ later.length + 1
  len : later'.length = later.length
  mono : ∀ (k : Nat) (o : List Nat), later[k]? = some o → ∃ o' : List Nat, later'[k]? = some o' ∧ ∀ c ∈ o, c ∈ o'
  marks : ∀ a ∈ outs, ∀ (k : Nat) (o' : List Nat), k + 1 < a.rowspan → later'[k]? = some o' → ∀ c, InCols a c → c ∈ o'
  sound : ∀ (k : Nat) (o' : List Nat), later'[k]? = some o' → ∃ o : List Nat, later[k]? = some o ∧
    ∀ c ∈ o', c ∈ o ∨ ∃ a ∈ outs, k + 1 < a.rowspan ∧ InCols a c
  w_le : w ≤ w'
  edge_le : ∀ o ∈ outs, o.gridX + o.colspan ≤ w'
  w_is : w' = w ∨ ∃ o ∈ outs, w' = o.gridX + o.colspan

theorem placeRow_facts (occ : List Nat) (cells : List CellIn) (later : List (List Nat)) (x w : Nat) :
    RowFacts occ later x w (placeRow occ cells later x w).1 (placeRow occ cells later x w).2.1
      (placeRow occ cells later x w).2.2 := by
  induction cells generalizing later x w with
  | nil =>
    simp only [placeRow]
    exact ⟨List.Pairwise.nil, by simp, by simp, by simp, by simp, rfl,
      fun k o h => ⟨o, h, fun c hc => hc⟩, by simp, fun k o' h => ⟨o', h, fun c hc => Or.inl hc⟩,
      Nat.le_refl _, by simp, Or.inl rfl⟩
  | cons c cs ih =>
    simp only [placeRow, placeCell_eq]
    generalize hgx : firstFree occ x = gx
    generalize hrs : effRowspan c later.length = rs
    generalize hl1 : markRows later (rs - 1) (rangeList gx (gx + c.colspan)) = later1
    have ff := firstFree_spec occ x
    rw [hgx] at ff
    have IH := ih later1 (gx + c.colspan) (max w (gx + c.colspan))
    generalize placeRow occ cs later1 (gx + c.colspan) (max w (gx + c.colspan)) = res at IH
    obtain ⟨outs, later2, w2⟩ := res
    simp only at IH ⊢
    have hlen1 : later1.length = later.length := by rw [← hl1]; exact markRows_length _ _ _
    have hrspos : 1 ≤ rs := by rw [← hrs]; exact effRowspan_pos _ _
    have hrsle : rs ≤ later.length + 1 := by rw [← hrs]; exact effRowspan_le _ _
    refine ⟨?_, ?_, ?_, ?_, ?_, ?_, ?_, ?_, ?_, ?_, ?_, ?_⟩
    · refine List.Pairwise.cons ?_ IH.sorted
      intro b hb; exact IH.ge b hb
    · intro o ho
      cases ho with
      | head => exact ff.1
      | tail _ h => have := IH.ge o h; omega
    · intro o ho
      cases ho with
      | head => exact ff.2.1
      | tail _ h => exact IH.origin o h
    · intro o ho
      cases ho with
      | head => exact hrspos
      | tail _ h => exact IH.rs_pos o h
    · intro o ho
      cases ho with
      | head => exact hrsle
      | tail _ h => have := IH.rs_le o h; omega
    · rw [IH.len, hlen1]
    · intro k o h
      obtain ⟨o1, h1, h2⟩ := markRows_mono later (rs - 1) (rangeList gx (gx + c.colspan)) k o h
      rw [hl1] at h1
      obtain ⟨o2, h3, h4⟩ := IH.mono k o1 h1
      exact ⟨o2, h3, fun c hc => h4 c (h2 c hc)⟩
    · intro a ha k o' hk h col hcol
      cases ha with
      | head =>
        -- the head cell: its columns were written on row k of later1, and stay
        have hk' : k < rs - 1 := by simp only at hk; omega
        have hlt : k < later1.length := by rw [hlen1]; omega
        obtain ⟨o1, ho1⟩ : ∃ o1, later1[k]? = some o1 := ⟨later1[k], by simp [hlt]⟩
        have hm := markRows_marks later (rs - 1) (rangeList gx (gx + c.colspan)) k o1 hk'
          (by rw [hl1]; exact ho1) col (by rw [mem_rangeList]; exact hcol)
        obtain ⟨o2, h3, h4⟩ := IH.mono k o1 ho1
        rw [h] at h3
        cases h3
        exact h4 col hm
      | tail _ h' => exact IH.marks a h' k o' hk h col hcol
    · intro k o' h
      obtain ⟨o1, h1, h2⟩ := IH.sound k o' h
      obtain ⟨o, h3, h4⟩ := markRows_sound later (rs - 1) (rangeList gx (gx + c.colspan)) k o1
        (by rw [hl1]; exact h1)
      refine ⟨o, h3, ?_⟩
      intro col hcol
      rcases h2 col hcol with h5 | ⟨a, ha, h6, h7⟩
      · rcases h4 col h5 with h8 | ⟨h8, h9⟩
        · exact Or.inl h8
        · refine Or.inr ⟨⟨gx, c.colspan, rs⟩, List.mem_cons_self, by simp only; omega, ?_⟩
          rw [mem_rangeList] at h9
          exact h9
      · exact Or.inr ⟨a, List.mem_cons_of_mem _ ha, h6, h7⟩
    · have := IH.w_le; omega
    · intro o ho
      cases ho with
      | head => have := IH.w_le; simp only; omega
      | tail _ h => exact IH.edge_le o h
    · rcases IH.w_is with h | ⟨o, ho, h⟩
      · by_cases hw : w ≤ gx + c.colspan
        · right; exact ⟨⟨gx, c.colspan, rs⟩, List.mem_cons_self, by simp only; omega⟩
        · left; omega
      · right; exact ⟨o, List.mem_cons_of_mem _ ho, h⟩


theorem placeRow_colspan (occ : List Nat) (cells : List CellIn) (later : List (List Nat)) (x w : Nat) :
    ∀ o ∈ (placeRow occ cells later x w).1, ∃ c ∈ cells, o.colspan = c.colspan := by
  induction cells generalizing later x w with
  | nil => simp [placeRow]
  | cons c cs ih =>
    simp only [placeRow, placeCell_eq]
    intro o ho
    cases ho with
    | head => exact ⟨c, List.mem_cons_self, rfl⟩
    | tail _ h =>
      obtain ⟨c', hc', he⟩ := ih _ _ _ o h
      exact ⟨c', List.mem_cons_of_mem _ hc', he⟩

theorem placeRow_later_of_rowspan1 (occ : List Nat) (cells : List CellIn) (later : List (List Nat)) (x w : Nat)
    (h : ∀ c ∈ cells, c.rowspan = 1) : (placeRow occ cells later x w).2.1 = later := by
  induction cells generalizing later x w with
  | nil => simp [placeRow]
  | cons c cs ih =>
    simp only [placeRow, placeCell_eq]
    have h1 : effRowspan c later.length = 1 := by simp [effRowspan, h c List.mem_cons_self]
    rw [h1]
    simp only [Nat.sub_self, markRows_zero]
    exact ih _ _ _ (fun c' hc' => h c' (List.mem_cons_of_mem _ hc'))

/-! ### a row group -/

/-- The slot `(r, c)` belongs to the rectangle of the cell `a.2` whose row index in its group is `a.1`. -/
def Covers (a : Nat × CellOut) (r c : Nat) : Prop := a.1 ≤ r ∧ r < a.1 + a.2.rowspan ∧ InCols a.2 c

/-- The rectangles of two cells share no slot. -/
def Disj (a b : Nat × CellOut) : Prop := ∀ r c, ¬ (Covers a r c ∧ Covers b r c)

/-- Cells of a group with the index of their row, in document order. -/
def tagRows : Nat → List (List CellOut) → List (Nat × CellOut)
  | _, [] => []
  | y, row :: rest => row.map (fun o => (y, o)) ++ tagRows (y + 1) rest

/-- No cell extends (by `colspan > 1`) over a column occupied in its row by a cell spanning from above. -/
def NoOverhang : List (List CellIn) → List (List Nat) → Nat → Prop
  | [], _, _ => True
  | _ :: _, [], _ => True
  | row :: rows, occ :: later, w =>
    (∀ o ∈ (placeRow occ row later 0 w).1, Avoids occ o) ∧
    NoOverhang rows (placeRow occ row later 0 w).2.1 (placeRow occ row later 0 w).2.2

instance decNoOverhang : (rows : List (List CellIn)) → (occByRow : List (List Nat)) → (w : Nat) →
    Decidable (NoOverhang rows occByRow w)
  | [], _, _ => isTrue trivial
  | _ :: _, [], _ => isTrue trivial
  | row :: rows, occ :: later, w =>
    have := decNoOverhang rows (placeRow occ row later 0 w).2.1 (placeRow occ row later 0 w).2.2
    by unfold NoOverhang; infer_instance

instance (a : Nat × CellOut) (r c : Nat) : Decidable (Covers a r c) := by unfold Covers; infer_instance

/-- The sets of the rows from `y` on contain every column of every earlier cell spanning into them. -/
def Complete (E : List (Nat × CellOut)) (y : Nat) (occByRow : List (List Nat)) : Prop :=
  ∀ (k : Nat) (o : List Nat), occByRow[k]? = some o →
    ∀ a ∈ E, a.1 ≤ y + k → y + k < a.1 + a.2.rowspan → ∀ c, InCols a.2 c → c ∈ o

theorem placeRows_cons_ok {row : List CellIn} {rows : List (List CellIn)} {occByRow : List (List Nat)} {w : Nat}
    {outs : List (List CellOut)} {w' : Nat} (h : placeRows (row :: rows) occByRow w = .ok (outs, w')) :
    ∃ occ later rest, occByRow = occ :: later ∧
      outs = (placeRow occ row later 0 w).1 :: rest ∧
      placeRows rows (placeRow occ row later 0 w).2.1 (placeRow occ row later 0 w).2.2 = .ok (rest, w') := by
  cases occByRow with
  | nil => simp [placeRows] at h
  | cons occ later =>
    simp only [placeRows] at h
    generalize hr : placeRow occ row later 0 w = res at h
    obtain ⟨o1, l1, w1⟩ := res
    simp only at h
    generalize hq : placeRows rows l1 w1 = q at h
    cases q with
    | error e => simp at h
    | ok v =>
      obtain ⟨rest, w2⟩ := v
      simp only [Except.ok.injEq, Prod.mk.injEq] at h
      obtain ⟨h1, h2⟩ := h
      subst h1 h2
      refine ⟨occ, later, rest, rfl, ?_, ?_⟩
      · rw [hr]
      · rw [hr]; exact hq

theorem complete_step (E : List (Nat × CellOut)) (y : Nat) (occ : List Nat) (later : List (List Nat))
    (row : List CellIn) (w : Nat) (hc : Complete E y (occ :: later)) :
    Complete (E ++ (placeRow occ row later 0 w).1.map (fun o => (y, o))) (y + 1)
      (placeRow occ row later 0 w).2.1 := by
  have F := placeRow_facts occ row later 0 w
  intro k o hk a ha h1 h2 c hcol
  rw [List.mem_append] at ha
  rcases ha with ha | ha
  · have hlt : k < later.length := by
      rw [← F.len]
      exact (List.getElem?_eq_some_iff.mp hk).1
    obtain ⟨o0, ho0⟩ : ∃ o0, later[k]? = some o0 := ⟨later[k], by simp [hlt]⟩
    have hin : c ∈ o0 := hc (k + 1) o0 (by simpa using ho0) a ha (by omega) (by omega) c hcol
    obtain ⟨o', h3, h4⟩ := F.mono k o0 ho0
    rw [hk] at h3
    cases h3
    exact h4 c hin
  · rw [List.mem_map] at ha
    obtain ⟨cell, hcell, rfl⟩ := ha
    simp only at h1 h2 hcol
    exact F.marks cell hcell k o (by omega) hk c hcol

theorem sorted_disj (y : Nat) (outs : List CellOut)
    (h : outs.Pairwise (fun a b => a.gridX + a.colspan ≤ b.gridX)) :
    (outs.map (fun o => (y, o))).Pairwise Disj := by
  rw [List.pairwise_map]
  refine h.imp ?_
  intro a b hab r c ⟨⟨_, _, h1⟩, ⟨_, _, h2⟩⟩
  simp only [InCols] at h1 h2
  omega

/-- Main induction: rectangles of a group are pairwise disjoint when no cell overhangs. -/
theorem placeRows_disjoint (rows : List (List CellIn)) :
    ∀ (occByRow : List (List Nat)) (w : Nat) (E : List (Nat × CellOut)) (y : Nat)
      (outs : List (List CellOut)) (w' : Nat),
      placeRows rows occByRow w = .ok (outs, w') → NoOverhang rows occByRow w →
      Complete E y occByRow → (∀ a ∈ E, a.1 < y) → E.Pairwise Disj →
      (E ++ tagRows y outs).Pairwise Disj := by
  induction rows with
  | nil =>
    intro occByRow w E y outs w' h _ _ _ hE
    simp only [placeRows, Except.ok.injEq, Prod.mk.injEq] at h
    obtain ⟨h1, _⟩ := h
    subst h1
    simpa [tagRows] using hE
  | cons row rows ih =>
    intro occByRow w E y outs w' h hno hc hlt hE
    obtain ⟨occ, later, rest, rfl, rfl, hrest⟩ := placeRows_cons_ok h
    have F := placeRow_facts occ row later 0 w
    simp only [NoOverhang] at hno
    obtain ⟨hav, hno'⟩ := hno
    have hE' : (E ++ (placeRow occ row later 0 w).1.map (fun o => (y, o))).Pairwise Disj := by
      rw [List.pairwise_append]
      refine ⟨hE, sorted_disj y _ F.sorted, ?_⟩
      intro a ha b hb r c ⟨hca, hcb⟩
      rw [List.mem_map] at hb
      obtain ⟨o, ho, rfl⟩ := hb
      obtain ⟨a1, a2, a3⟩ := hca
      obtain ⟨b1, b2, b3⟩ := hcb
      simp only at b1 b2 b3
      have hy := hlt a ha
      have hin : c ∈ occ := hc 0 occ (by simp) a ha (by omega) (by omega) c a3
      exact hav o ho c hin b3
    have := ih _ _ (E ++ (placeRow occ row later 0 w).1.map (fun o => (y, o))) (y + 1) rest w' hrest hno'
      (complete_step E y occ later row w hc)
      (by
        intro a ha
        rw [List.mem_append] at ha
        rcases ha with ha | ha
        · have := hlt a ha; omega
        · rw [List.mem_map] at ha
          obtain ⟨o, _, rfl⟩ := ha
          simp)
      hE'
    simpa [tagRows, List.append_assoc] using this


/-- Neither cell's rectangle contains the origin slot of the other. -/
def OriginFree (a b : Nat × CellOut) : Prop :=
  ¬ Covers b a.1 a.2.gridX ∧ ¬ Covers a b.1 b.2.gridX

theorem sorted_originFree (y : Nat) (outs : List CellOut)
    (h : outs.Pairwise (fun a b => a.gridX + a.colspan ≤ b.gridX)) (hpos : ∀ o ∈ outs, 1 ≤ o.colspan) :
    (outs.map (fun o => (y, o))).Pairwise OriginFree := by
  rw [List.pairwise_map]
  have h' : outs.Pairwise (fun a b => (a.gridX + a.colspan ≤ b.gridX) ∧ 1 ≤ a.colspan) := by
    rw [List.pairwise_iff_forall_sublist] at h ⊢
    intro a b hab
    exact ⟨h hab, hpos a (hab.subset (by simp))⟩
  refine h'.imp ?_
  intro a b ⟨hab, ha⟩
  constructor
  · intro ⟨_, _, h1⟩; simp only [InCols] at h1; omega
  · intro ⟨_, _, h1⟩; simp only [InCols] at h1; omega

/-- The origin slot `(row, grid_x)` of every cell belongs to no other cell, for every input whose
colspans are positive (no hypothesis on overhang). -/
theorem placeRows_originFree (rows : List (List CellIn)) :
    ∀ (occByRow : List (List Nat)) (w : Nat) (E : List (Nat × CellOut)) (y : Nat)
      (outs : List (List CellOut)) (w' : Nat),
      placeRows rows occByRow w = .ok (outs, w') → (∀ row ∈ rows, ∀ c ∈ row, 1 ≤ c.colspan) →
      Complete E y occByRow → (∀ a ∈ E, a.1 < y) → E.Pairwise OriginFree →
      (E ++ tagRows y outs).Pairwise OriginFree := by
  induction rows with
  | nil =>
    intro occByRow w E y outs w' h _ _ _ hE
    simp only [placeRows, Except.ok.injEq, Prod.mk.injEq] at h
    obtain ⟨h1, _⟩ := h
    subst h1
    simpa [tagRows] using hE
  | cons row rows ih =>
    intro occByRow w E y outs w' h hpos hc hlt hE
    obtain ⟨occ, later, rest, rfl, rfl, hrest⟩ := placeRows_cons_ok h
    have F := placeRow_facts occ row later 0 w
    have hcs : ∀ o ∈ (placeRow occ row later 0 w).1, 1 ≤ o.colspan := by
      intro o ho
      obtain ⟨c, hc', he⟩ := placeRow_colspan occ row later 0 w o ho
      rw [he]; exact hpos row List.mem_cons_self c hc'
    have hE' : (E ++ (placeRow occ row later 0 w).1.map (fun o => (y, o))).Pairwise OriginFree := by
      rw [List.pairwise_append]
      refine ⟨hE, sorted_originFree y _ F.sorted hcs, ?_⟩
      intro a ha b hb
      rw [List.mem_map] at hb
      obtain ⟨o, ho, rfl⟩ := hb
      have hy := hlt a ha
      constructor
      · intro ⟨b1, _, _⟩; simp only at b1; omega
      · intro ⟨a1, a2, a3⟩
        simp only at a1 a2 a3
        have hin : o.gridX ∈ occ := hc 0 occ (by simp) a ha (by omega) (by omega) _ a3
        exact F.origin o ho hin
    have := ih _ _ (E ++ (placeRow occ row later 0 w).1.map (fun o => (y, o))) (y + 1) rest w' hrest
      (fun r hr => hpos r (List.mem_cons_of_mem _ hr))
      (complete_step E y occ later row w hc)
      (by
        intro a ha
        rw [List.mem_append] at ha
        rcases ha with ha | ha
        · have := hlt a ha; omega
        · rw [List.mem_map] at ha
          obtain ⟨o, _, rfl⟩ := ha
          simp)
      hE'
    simpa [tagRows, List.append_assoc] using this

/-- Totality: `occupied_cells_by_row.pop(0)` never fails when there is one set per row. -/
theorem placeRows_ok (rows : List (List CellIn)) :
    ∀ (occByRow : List (List Nat)) (w : Nat), rows.length ≤ occByRow.length →
      ∃ r, placeRows rows occByRow w = .ok r := by
  induction rows with
  | nil => intro _ w _; exact ⟨_, rfl⟩
  | cons row rows ih =>
    intro occByRow w hlen
    cases occByRow with
    | nil => simp at hlen
    | cons occ later =>
      have F := placeRow_facts occ row later 0 w
      obtain ⟨r, hr⟩ := ih (placeRow occ row later 0 w).2.1 (placeRow occ row later 0 w).2.2
        (by rw [F.len]; simpa using hlen)
      simp only [placeRows]
      generalize hq : placeRow occ row later 0 w = res at hr
      obtain ⟨o1, l1, w1⟩ := res
      simp only at hr ⊢
      rw [hr]
      exact ⟨_, rfl⟩

/-- Row-wise facts of a placed group: `y` rows precede, `occByRow` has one set per remaining row. -/
theorem placeRows_rowspan (rows : List (List CellIn)) :
    ∀ (occByRow : List (List Nat)) (w y : Nat) (outs : List (List CellOut)) (w' : Nat),
      placeRows rows occByRow w = .ok (outs, w') → occByRow.length = rows.length →
      ∀ a ∈ tagRows y outs, 1 ≤ a.2.rowspan ∧ a.1 + a.2.rowspan ≤ y + rows.length ∧ y ≤ a.1 := by
  induction rows with
  | nil =>
    intro occByRow w y outs w' h _
    simp only [placeRows, Except.ok.injEq, Prod.mk.injEq] at h
    obtain ⟨h1, _⟩ := h
    subst h1
    simp [tagRows]
  | cons row rows ih =>
    intro occByRow w y outs w' h hlen a ha
    obtain ⟨occ, later, rest, rfl, rfl, hrest⟩ := placeRows_cons_ok h
    have F := placeRow_facts occ row later 0 w
    simp only [List.length_cons, Nat.add_right_cancel_iff] at hlen
    simp only [tagRows, List.mem_append, List.mem_map] at ha
    rcases ha with ⟨o, ho, rfl⟩ | ha
    · have h1 := F.rs_pos o ho
      have h2 := F.rs_le o ho
      simp only [List.length_cons]
      omega
    · have := ih _ _ (y + 1) rest w' hrest (by rw [F.len]; exact hlen) a ha
      simp only [List.length_cons]
      omega

/-- `grid_width` only grows and bounds the right edge of every cell. -/
theorem placeRows_width (rows : List (List CellIn)) :
    ∀ (occByRow : List (List Nat)) (w y : Nat) (outs : List (List CellOut)) (w' : Nat),
      placeRows rows occByRow w = .ok (outs, w') →
      w ≤ w' ∧ (∀ a ∈ tagRows y outs, a.2.gridX + a.2.colspan ≤ w') ∧
      (w' = w ∨ ∃ a ∈ tagRows y outs, w' = a.2.gridX + a.2.colspan) := by
  induction rows with
  | nil =>
    intro occByRow w y outs w' h
    simp only [placeRows, Except.ok.injEq, Prod.mk.injEq] at h
    obtain ⟨h1, h2⟩ := h
    subst h1 h2
    simp [tagRows]
  | cons row rows ih =>
    intro occByRow w y outs w' h
    obtain ⟨occ, later, rest, rfl, rfl, hrest⟩ := placeRows_cons_ok h
    have F := placeRow_facts occ row later 0 w
    obtain ⟨i1, i2, i3⟩ := ih _ _ (y + 1) rest w' hrest
    refine ⟨Nat.le_trans F.w_le i1, ?_, ?_⟩
    · intro a ha
      simp only [tagRows, List.mem_append, List.mem_map] at ha
      rcases ha with ⟨o, ho, rfl⟩ | ha
      · have := F.edge_le o ho; simp only; omega
      · exact i2 a ha
    · rcases i3 with h3 | ⟨a, ha, h3⟩
      · rcases F.w_is with h4 | ⟨o, ho, h4⟩
        · left; omega
        · right
          refine ⟨(y, o), ?_, by simp only; omega⟩
          simp only [tagRows, List.mem_append, List.mem_map]
          exact Or.inl ⟨o, ho, rfl⟩
      · right
        refine ⟨a, ?_, h3⟩
        simp only [tagRows, List.mem_append]
        exact Or.inr ha

theorem complete_nil (y : Nat) (occByRow : List (List Nat)) : Complete [] y occByRow := by
  intro k o _ a ha; cases ha

theorem noOverhang_of_colspan (rows : List (List CellIn)) :
    ∀ (occByRow : List (List Nat)) (w : Nat), (∀ row ∈ rows, ∀ c ∈ row, c.colspan ≤ 1) →
      NoOverhang rows occByRow w := by
  induction rows with
  | nil => intro _ _ _; trivial
  | cons row rows ih =>
    intro occByRow w h
    cases occByRow with
    | nil => trivial
    | cons occ later =>
      simp only [NoOverhang]
      have F := placeRow_facts occ row later 0 w
      refine ⟨?_, ih _ _ (fun r hr => h r (List.mem_cons_of_mem _ hr))⟩
      intro o ho c hin hc
      obtain ⟨c', hc', he⟩ := placeRow_colspan occ row later 0 w o ho
      have := h row List.mem_cons_self c' hc'
      simp only [InCols] at hc
      have : c = o.gridX := by omega
      subst this
      exact F.origin o ho hin

theorem noOverhang_of_rowspan (rows : List (List CellIn)) :
    ∀ (occByRow : List (List Nat)) (w : Nat), (∀ row ∈ rows, ∀ c ∈ row, c.rowspan = 1) →
      (∀ o ∈ occByRow, o = []) → NoOverhang rows occByRow w := by
  induction rows with
  | nil => intro _ _ _ _; trivial
  | cons row rows ih =>
    intro occByRow w h he
    cases occByRow with
    | nil => trivial
    | cons occ later =>
      simp only [NoOverhang]
      have hocc : occ = [] := he occ List.mem_cons_self
      have hl := placeRow_later_of_rowspan1 occ row later 0 w (h row List.mem_cons_self)
      refine ⟨?_, ?_⟩
      · intro o _ c hin; rw [hocc] at hin; cases hin
      · rw [hl]
        exact ih _ _ (fun r hr => h r (List.mem_cons_of_mem _ hr))
          (fun o ho => he o (List.mem_cons_of_mem _ ho))


theorem placeRow_spans (occ : List Nat) (cells : List CellIn) (later : List (List Nat)) (x w : Nat) :
    (placeRow occ cells later x w).1.map (·.rowspan) = cells.map (fun c => effRowspan c later.length) ∧
    (placeRow occ cells later x w).1.map (·.colspan) = cells.map (·.colspan) := by
  induction cells generalizing later x w with
  | nil => simp [placeRow]
  | cons c cs ih =>
    simp only [placeRow, placeCell_eq, List.map_cons]
    have := ih (markRows later (effRowspan c later.length - 1)
      (rangeList (firstFree occ x) (firstFree occ x + c.colspan))) (firstFree occ x + c.colspan)
      (max w (firstFree occ x + c.colspan))
    rw [markRows_length] at this
    exact ⟨by rw [this.1], by rw [this.2]⟩

/-- The spans written on the cells of row `i`: colspan unchanged, rowspan clipped to the rows left. -/
theorem placeRows_spans (rows : List (List CellIn)) :
    ∀ (occByRow : List (List Nat)) (w : Nat) (outs : List (List CellOut)) (w' : Nat),
      placeRows rows occByRow w = .ok (outs, w') → occByRow.length = rows.length →
      ∀ (i : Nat) (row : List CellIn), rows[i]? = some row → ∃ orow, outs[i]? = some orow ∧
        orow.map (·.rowspan) = row.map (fun c => effRowspan c (rows.length - 1 - i)) ∧
        orow.map (·.colspan) = row.map (·.colspan) := by
  induction rows with
  | nil => intro _ _ _ _ _ _ i row h; simp at h
  | cons r rows ih =>
    intro occByRow w outs w' h hlen i row hi
    obtain ⟨occ, later, rest, rfl, rfl, hrest⟩ := placeRows_cons_ok h
    have F := placeRow_facts occ r later 0 w
    simp only [List.length_cons, Nat.add_right_cancel_iff] at hlen
    cases i with
    | zero =>
      simp only [List.getElem?_cons_zero, Option.some.injEq] at hi
      subst hi
      refine ⟨(placeRow occ r later 0 w).1, by simp, ?_⟩
      have := placeRow_spans occ r later 0 w
      rw [hlen] at this
      simpa using this
    | succ i =>
      simp only [List.getElem?_cons_succ] at hi
      obtain ⟨orow, h1, h2⟩ := ih _ _ rest w' hrest (by rw [F.len]; exact hlen) i row hi
      refine ⟨orow, by simpa using h1, ?_⟩
      have : rows.length + 1 - 1 - (i + 1) = rows.length - 1 - i := by omega
      simp only [List.length_cons]
      rw [this]
      exact h2

end Wp.TableGrid
