/-
Footnote conservation: the mutual induction over the source tree (state post-condition of `layoutBoxF`).
-/
import WpModel.Lemmas.FootConserveKids
import WpModel.Lemmas.SegmentPages

namespace Wp.PMF
open Wp Wp.PM

/-- The child about to be laid out has its footnotes pending: `Lp` are the lines already placed, `Lc` the
lines of the child, `Lr` the lines after it. -/
theorem child_pre (tbl : List (Nat × Nat × Fn)) (Lp Lc Lr : List (Nat × Nat)) (P0 : List Fn) (fs : FState)
    (hND : (tblFns tbl (Lp ++ (Lc ++ Lr))).Nodup) (hP : ∀ g ∈ tblFns tbl (Lp ++ (Lc ++ Lr)), g ∈ P0)
    (hJ : ∀ g ∈ P0, g ∈ fs.pending ∨ g ∈ tblFns tbl Lp) :
    (tblFns tbl Lc).Nodup ∧ ∀ g ∈ tblFns tbl Lc, g ∈ fs.pending := by
  rw [tblFns_append, tblFns_append] at hND hP
  rw [List.nodup_append] at hND
  obtain ⟨_, h2, hd⟩ := hND
  rw [List.nodup_append] at h2
  refine ⟨h2.1, ?_⟩
  intro g hg
  rcases hJ g (hP g (by simp [hg])) with h | h
  · exact h
  · exact absurd rfl (hd g h g (by simp [hg]))

theorem statePost_trans_none (c : FCtx) (fs fs1 fs2 : FState) (frag : Option Frag)
    (h1 : StatePost c fs none fs1) (hp : ∀ g ∈ fs.pending, g ∈ fs1.pending) (h2 : StatePost c fs1 frag fs2) :
    StatePost c fs frag fs2 := by
  refine ⟨h2.1, ?_, ?_⟩
  · rw [h2.2.1, h1.2.1]; simp [fragFns]
  · intro g hg; exact h2.2.2 g (hp g hg)

mutual
/-- **State post-condition of `block_level_layout`** (no `footnote-policy: block`, no fixed height): `act` grows
exactly by the footnotes called on the lines of the returned fragment, in line order. -/
theorem boxF_state : (box : FootBox) → ∀ (c : FCtx), FootOk c.tbl box → ∀ (idx : Nat) (y bs : Rat)
    (skip : Option Resume) (cb pie : Bool) (adjL : List Rat) (fs : FState),
    (skip.isSome = true → pie = true) → StOk fs →
    (tblFns c.tbl (linesFrom box.erase skip)).Nodup →
    (∀ g ∈ tblFns c.tbl (linesFrom box.erase skip), g ∈ fs.pending) →
    StatePost c fs (layoutBoxF c box idx y bs skip cb pie adjL fs).r.frag
      (layoutBoxF c box idx y bs skip cb pie adjL fs).fs
  | .para id n lineH st calls => by
    intro c hok idx y bs skip cb pie adjL fs hskip hst hND hP
    have htbl : ∀ i, tblFns c.tbl [(id, i)] = lineFns st calls i := by
      simp only [FootOk] at hok; exact hok.2.2.2.2
    have hl : tblFns c.tbl (linesFrom (FootBox.para id n lineH st calls).erase skip) =
        idxFns st calls (List.range' (paraStart skip) (n - paraStart skip)) := by
      simp only [FootBox.erase, linesFrom, paraLines]
      exact tblFns_para c.tbl id st calls htbl _
    rw [hl] at hND hP
    exact paraF_state id n lineH st calls c hok idx y bs skip cb pie adjL fs hskip hst hND hP
  | .block id st kids => by
    intro c hok idx y bs skip cb pie adjL fs hskip hst hND hP
    have hokl : FootOkList c.tbl kids := by simp only [FootOk] at hok; exact hok.2
    simp only [layoutBoxF]
    generalize hp : prepare (ctxOf c fs) st y bs skip cb pie adjL = p
    have hL : linesFrom (FootBox.block id st kids).erase skip =
        linesFromKids ([] ++ (eraseList kids).drop (skipIdxOf skip - 0)) 0 (subSkipOf skip) := by
      simp only [FootBox.erase, List.nil_append, Nat.sub_zero]
      exact linesFrom_block id st (eraseList kids) skip
    have hk := kidsF_state kids c hokl st [] (skipIdxOf skip) (subSkipOf skip) 0 (skipIdxOf skip) p.bs pie
      { newChildren := [], posY := p.posY, adjL := p.adjL, cur := p.cur, curIsL := p.curIsL,
        nextPage := { brk := none, page := none }, skip := subSkipOf skip } fs (act fs) fs.pending
      (linesFrom (FootBox.block id st kids).erase skip) hL
      (by simp [GoodList]) (by simp [FullFrom]) (by intro _; exact ⟨rfl, rfl⟩) (by intro h; simp; omega)
      (by simp)
      (by
        intro h
        apply hskip
        cases skip with
        | none => simp [subSkipOf] at h
        | some x => rfl)
      hND hP
      ⟨hst, by simp [fragLinesList, tblFns], fun g hg => Or.inl hg, by simp [fragLinesList]⟩
    apply finishBlockF_state c id st kids hokl p pie idx skip _ fs _ hskip hst hP hk
    intro page s hab
    cases hpie : pie with
    | false => rfl
    | true =>
      exfalso
      subst hpie
      exact kidsF_not_aborted kids c st 0 (skipIdxOf skip) p.bs _ fs page s hab

/-- The children loop: `KState` is kept from iteration to iteration and holds for the outcome. -/
theorem kidsF_state : (rest : List FootBox) → ∀ (c : FCtx), FootOkList c.tbl rest → ∀ (st : PStyle) (B : List PBox)
    (i0 : Nat) (sub0 : Option Resume) (index skipIdx : Nat) (bs : Rat) (pie : Bool) (s : KidsLoop) (fs : FState)
    (A0 P0 : List Fn) (Ltot : List (Nat × Nat)),
    Ltot = linesFromKids (B ++ (eraseList rest).drop (skipIdx - index)) 0 sub0 →
    GoodList B → FullFrom s.newChildren B i0 sub0 →
    (index < skipIdx → B = [] ∧ i0 = skipIdx) → (skipIdx ≤ index → index = i0 + B.length) →
    s.skip = (if B = [] then sub0 else none) →
    (sub0.isSome = true → pie = true) →
    (tblFns c.tbl Ltot).Nodup → (∀ g ∈ tblFns c.tbl Ltot, g ∈ P0) →
    KState c A0 P0 Ltot s.newChildren fs →
    KState c A0 P0 Ltot (outKids (layoutKidsF c st rest index skipIdx bs pie s fs).1)
      (layoutKidsF c st rest index skipIdx bs pie s fs).2
  | [] => by
    intro c _ st B i0 sub0 index skipIdx bs pie s fs A0 P0 Ltot _ _ _ _ _ _ _ _ _ hK
    simpa [layoutKidsF, outKids] using hK
  | child :: rest => by
    intro c hok st B i0 sub0 index skipIdx bs pie s fs A0 P0 Ltot hL hgB hinv hlt hge hskip hpie hND hP hK
    simp only [FootOkList] at hok
    simp only [eraseList] at hL
    unfold layoutKidsF
    by_cases hc : index < skipIdx
    · rw [if_pos hc]
      obtain ⟨hB, hi0⟩ := hlt hc
      have hd : (child.erase :: eraseList rest).drop (skipIdx - index) =
          (eraseList rest).drop (skipIdx - (index + 1)) := by
        have : skipIdx - index = (skipIdx - (index + 1)) + 1 := by omega
        rw [this, List.drop_succ_cons]
      rw [hd] at hL
      exact kidsF_state rest c hok.2 st B i0 sub0 (index + 1) skipIdx bs pie s fs A0 P0 Ltot hL hgB hinv
        (fun _ => ⟨hB, hi0⟩) (by intro _; subst hB; simp; omega) hskip hpie hND hP hK
    · rw [if_neg hc]
      have hidx := hge (by omega)
      have hd : skipIdx - index = 0 := by omega
      rw [hd, List.drop_zero] at hL
      -- the lines: placed ++ child ++ rest
      have hgood : Good child.erase := footOk_good c.tbl child hok.1
      have hgoodr : GoodList (eraseList rest) := footOkList_good c.tbl rest hok.2
      have hplaced : fragLinesList s.newChildren = linesFromKids B 0 sub0 := fullFrom_lines _ _ _ _ hinv
      have hLsplit : Ltot = fragLinesList s.newChildren ++
          (linesFrom child.erase s.skip ++ linesFromKids (eraseList rest) 0 none) := by
        rw [hL, linesFromKids_append_zero, hplaced, hskip]
        simp [linesFromKids]
      have hpre := child_pre c.tbl _ _ _ P0 fs (by rw [← hLsplit]; exact hND) (by rw [← hLsplit]; exact hP) hK.pers
      have hsubc : ∀ l ∈ linesFrom child.erase s.skip, l ∈ Ltot := by
        intro l hl; rw [hLsplit]; simp [hl]
      have hskipc : s.skip.isSome = true → (pie && s.newChildren.isEmpty) = true := by
        intro h
        rw [hskip] at h
        by_cases hB : B = []
        · rw [if_pos hB] at h
          have hlen := fullFrom_length _ _ _ _ hinv
          rw [hB] at hlen
          have : s.newChildren = [] := List.length_eq_zero_iff.mp (by simpa using hlen)
          simp [this, hpie h]
        · rw [if_neg hB] at h; cases h
      dsimp only
      split
      · -- forced break before `child`
        simpa [outKids] using hK
      · have hnext : ∀ (s3 : KidsLoop) (fs3 : FState), FullFrom s3.newChildren (B ++ [child.erase]) i0 sub0 →
            s3.skip = none → KState c A0 P0 Ltot s3.newChildren fs3 →
            KState c A0 P0 Ltot (outKids (layoutKidsF c st rest (index + 1) skipIdx bs pie s3 fs3).1)
              (layoutKidsF c st rest (index + 1) skipIdx bs pie s3 fs3).2 := by
          intro s3 fs3 h3 hs3 hK3
          have hd' : skipIdx - (index + 1) = 0 := by omega
          exact kidsF_state rest c hok.2 st (B ++ [child.erase]) i0 sub0 (index + 1) skipIdx bs pie s3 fs3 A0 P0 Ltot
            (by rw [hL, hd', List.drop_zero]; simp)
            (goodList_append _ _ hgB (by simp [GoodList, hgood])) h3 (by intro _; omega)
            (by intro _; simp; omega) (by simp [hs3]) hpie hND hP hK3
        -- first layout of the child
        have hR := boxF_state child c hok.1 index s.posY bs s.skip st.isRoot (pie && s.newChildren.isEmpty) s.cur fs
          hskipc hK.ok hpre.1 hpre.2
        have hspec := boxF_spec child hgood c index s.posY bs s.skip st.isRoot (pie && s.newChildren.isEmpty) s.cur fs
        generalize layoutBoxF c child index s.posY bs s.skip st.isRoot (pie && s.newChildren.isEmpty) s.cur fs = R1
          at hR hspec ⊢
        split
        · -- first pass kept (or discarded) the child
          rename_i frag posY hfp
          have h1 := firstPassUnlay_keep c _ bs _ s.posY _ fs _ frag posY hR hfp
          have hchild : BoxPost child.erase (if B = [] then sub0 else none) frag R1.r.resume := by
            rcases firstPass_keep _ _ _ _ _ _ _ hfp with h | h
            · rw [h]; exact boxPost_none _ _ _
            · rw [h, ← hskip]; exact hspec
          have hsubf : ∀ f, frag = some f → ∀ l ∈ fragLines f, l ∈ Ltot := by
            intro f hf l hl
            apply hsubc
            have := boxPost_lines _ _ _ _ f hchild hf
            rw [← hskip] at this
            rw [← this]; simp [hl]
          have hcs := fun (s2 : KidsLoop) (h : s2.newChildren = s.newChildren) =>
            conclude_state c A0 P0 Ltot index pie (meetBreak s child.erase).1 child.erase s2 frag R1.r.resume
            fs _ (by rw [h]; exact hK) h1 hsubf
          rw [hfp]
          split
          · rename_i out s3 heq
            exact (hcs _ (by simp)).1 out s3 heq
          · rename_i s3 heq
            have hcsp := (conclude_spec _ _ _ _ _ _ _ B (eraseList rest) i0 sub0 hgB (by simpa using hinv) hidx
              hchild).2 s3 heq
            exact hnext s3 _ hcsp.1 hcsp.2 ((hcs _ (by simp)).2 s3 heq)
        · -- second layout with a larger bottom space
          rename_i bs' hfp
          rw [hfp]
          obtain ⟨h1, h1p⟩ := firstPassUnlay_redo c R1.r fs R1.fs bs' hR
          have hR2 := boxF_state child c hok.1 index s.posY bs' s.skip st.isRoot (pie && s.newChildren.isEmpty)
            (s.setCur R1.r.adjL s.curIsL).cur (firstPassUnlay c R1.r (.redo bs') R1.fs) hskipc h1.1 hpre.1
            (fun g hg => h1p g (hpre.2 g hg))
          have hspec2 := boxF_spec child hgood c index s.posY bs' s.skip st.isRoot (pie && s.newChildren.isEmpty)
            (s.setCur R1.r.adjL s.curIsL).cur (firstPassUnlay c R1.r (.redo bs') R1.fs)
          generalize layoutBoxF c child index s.posY bs' s.skip st.isRoot (pie && s.newChildren.isEmpty)
            (s.setCur R1.r.adjL s.curIsL).cur (firstPassUnlay c R1.r (.redo bs') R1.fs) = R2 at hR2 hspec2 ⊢
          have h2 := statePost_trans_none c fs _ _ _ h1 h1p hR2
          rw [hskip] at hspec2
          have hsubf : ∀ f, R2.r.frag = some f → ∀ l ∈ fragLines f, l ∈ Ltot := by
            intro f hf l hl
            apply hsubc
            have := boxPost_lines _ _ _ _ f hspec2 hf
            rw [← hskip] at this
            rw [← this]; simp [hl]
          have hcs := fun (s2 : KidsLoop) (h : s2.newChildren = s.newChildren) =>
            conclude_state c A0 P0 Ltot index pie (meetBreak s child.erase).1 child.erase s2 R2.r.frag R2.r.resume
            fs _ (by rw [h]; exact hK) h2 hsubf
          split
          · rename_i out s3 heq
            exact (hcs _ (by simp)).1 out s3 heq
          · rename_i s3 heq
            have hcsp := (conclude_spec _ _ _ _ _ _ _ B (eraseList rest) i0 sub0 hgB (by simpa using hinv) hidx
              hspec2).2 s3 heq
            exact hnext s3 _ hcsp.1 hcsp.2 ((hcs _ (by simp)).2 s3 heq)
end

end Wp.PMF
