/-
C17 helper development (no Mathlib): a *pure* specification of the dispatcher of `stacking.py`
(`dispatchS`: what one call appends to each of the four threaded lists) and the proof that the literal
state-passing model (`Model/Stacking.lean`: mutable lists, `len` remembered, `insert` at the index,
the `assert`) computes exactly that.  All C17 theorems about buckets are proved on `dispatchS` and
transported by `dispatch_eq`.
-/
import WpModel.Model.Stacking

namespace Wp.Stacking
open Wp Wp.Gen

/-- What one `_dispatch` call appends to `child_contexts`, `blocks`, `floats`, `blocks_and_cells`. -/
structure Delta where
  cc : List Node := []
  blocks : List Node := []
  floats : List Node := []
  bc : List Node := []
  deriving Repr, Inhabited

def St.app (st : St) (d : Delta) : St :=
  { cc := st.cc ++ d.cc, blocks := st.blocks ++ d.blocks, floats := st.floats ++ d.floats,
    bc := st.bc ++ d.bc, failed := st.failed }

def Delta.append (d e : Delta) : Delta :=
  { cc := d.cc ++ e.cc, blocks := d.blocks ++ e.blocks, floats := d.floats ++ e.floats,
    bc := d.bc ++ e.bc }

/-- `_dispatch` as a function of the box (with its already dispatched children `self`, and what
dispatching those children appended: `inner`). -/
def coreS (a : Attrs) (self : Node) (inner : Delta) : Option Node × Delta :=
  if definesContext a then
    (none, { cc := [mkCtx self inner.cc inner.blocks inner.floats inner.bc] })
  else if a.positioned then
    (none, { cc := mkCtx self [] inner.blocks inner.floats inner.bc :: inner.cc })
  else if a.floated then
    (none, { cc := inner.cc, floats := [mkCtx self [] inner.blocks inner.floats inner.bc] })
  else if a.kind.dispStackingClass then
    (some (mkCtx self [] inner.blocks inner.floats inner.bc), { cc := inner.cc })
  else
    (some self,
      { cc := inner.cc
        blocks := if a.kind.dispBlockLevel then self :: inner.blocks else inner.blocks
        floats := inner.floats
        bc := if a.kind.dispBlockLevel || a.kind.dispCell then self :: inner.bc else inner.bc })

mutual
def dispatchS : Box → Option Node × Delta
  | .ph b => dispatchS b
  | .leaf a => coreS a (.leaf a) {}
  | .node a kids => coreS a (.node a (listS kids).1) (listS kids).2
def listS : List Box → List Node × Delta
  | [] => ([], {})
  | k :: ks =>
    ((match (dispatchS k).1 with | some n => n :: (listS ks).1 | none => (listS ks).1),
     (dispatchS k).2.append (listS ks).2)
end

/-- `_dispatch_children` / `from_box` / `from_page`, purely. -/
def childrenS : Box → Node × Delta
  | .leaf a => (.leaf a, {})
  | .node a kids => (.node a (listS kids).1, (listS kids).2)
  | .ph b => (.ph b, {})

def fromBoxS (b : Box) : Node :=
  let r := childrenS b
  mkCtx r.1 r.2.cc r.2.blocks r.2.floats r.2.bc

def fromPageS (page : Attrs) (children : List Box) : Node :=
  mkCtx (.node page []) (children.map fromBoxS) [] [] []

/-! ### `list.insert(len_before, x)` after appends lands right after the old prefix -/

theorem insertAt_length_append {α} (l d : List α) (x : α) :
    insertAt l.length x (l ++ d) = l ++ x :: d := by
  induction l with
  | nil => cases d <;> rfl
  | cons y ys ih => simp [insertAt, ih]

@[simp] theorem St.app_empty (st : St) : st.app {} = st := by
  cases st; simp [St.app]

theorem St.app_app (st : St) (d e : Delta) : (st.app d).app e = st.app (d.append e) := by
  simp [St.app, Delta.append, List.append_assoc]

/-! ### The literal model computes the specification -/

/-- One `_dispatch` step, given that the children function behaves as a pure append. -/
theorem dispatchCore_eq (a : Attrs) (children : St → Node × St) (self : Node) (inner : Delta)
    (h : ∀ s, children s = (self, s.app inner)) (st : St) :
    dispatchCore a children st = ((coreS a self inner).1, st.app (coreS a self inner).2) := by
  unfold dispatchCore coreS
  by_cases hd : definesContext a = true
  · simp [hd, fromBoxWith, h, St.app]
  · simp only [hd, Bool.false_eq_true, ↓reduceIte]
    by_cases hp : a.positioned = true
    · -- the assert: ¬defines ∧ positioned → z = auto
      have hz : a.z = none := by
        cases hz : a.z with
        | none => rfl
        | some z =>
          exfalso; apply hd
          simp [definesContext, hp, hz]
      simp [hp, hz, fromBoxWith, h, St.app, insertAt_length_append]
    · simp only [hp, Bool.false_eq_true, ↓reduceIte]
      by_cases hf : a.floated = true
      · simp [hf, fromBoxWith, h, St.app]
      · simp only [hf, Bool.false_eq_true, ↓reduceIte]
        by_cases hs : a.kind.dispStackingClass = true
        · simp [hs, fromBoxWith, h, St.app]
        · simp only [hs, Bool.false_eq_true, ↓reduceIte]
          by_cases hb : a.kind.dispBlockLevel = true
          · simp [hb, h, St.app, insertAt_length_append]
          · by_cases hc : a.kind.dispCell = true
            · simp [hb, hc, h, St.app, insertAt_length_append]
            · simp [hb, hc, h, St.app]

mutual
theorem dispatch_eq : ∀ (b : Box) (st : St),
    dispatch b st = ((dispatchS b).1, st.app (dispatchS b).2)
  | .ph b, st => by rw [dispatch, dispatchS]; exact dispatch_eq b st
  | .leaf a, st => by
    rw [dispatch, dispatchS]
    exact dispatchCore_eq a _ (.leaf a) {} (fun s => by simp) st
  | .node a kids, st => by
    rw [dispatch, dispatchS]
    exact dispatchCore_eq a _ (.node a (listS kids).1) (listS kids).2
      (fun s => by simp [dispatchList_eq kids s]) st
theorem dispatchList_eq : ∀ (l : List Box) (st : St),
    dispatchList l st = ((listS l).1, st.app (listS l).2)
  | [], st => by simp [dispatchList, listS]
  | k :: ks, st => by
    rw [dispatchList, listS]
    simp only [dispatch_eq k st, dispatchList_eq ks, St.app_app]
    cases (dispatchS k).1 <;> rfl
end

theorem dispatchChildren_eq (b : Box) (st : St) :
    dispatchChildren b st = ((childrenS b).1, st.app (childrenS b).2) := by
  cases b with
  | leaf a => simp [dispatchChildren, childrenS]
  | node a kids => simp [dispatchChildren, childrenS, dispatchList_eq]
  | ph b => simp [dispatchChildren, childrenS]

/-- `from_box(box, page)` (no shared list): the context of the specification, assert flag clear. -/
theorem fromBox_none_eq (b : Box) : fromBox b none = (fromBoxS b, none, false) := by
  simp [fromBox, fromBoxWith, dispatchChildren_eq, fromBoxS, St.app]

theorem fromPage_eq (page : Attrs) (children : List Box) :
    fromPage page children = (fromPageS page children, false) := by
  simp [fromPage, fromPageS, fromBox_none_eq, Function.comp_def]

end Wp.Stacking
