/-
Stage 2c ⊇ stage 1: the embedding of the stage-1 grammar (`PBox`) into the extended grammar (`ColBox`) and the
proof that every layout function of `Model/PaginateCol.lean` agrees, on embedded inputs, with the function of
`Model/Paginate.lean` it was copied from.
-/
import WpModel.Model.PaginateCol

namespace Wp.PMC
open Wp Wp.PM

/-! ### the embedding -/

mutual
def embed : PBox → ColBox
  | .para id n lineH st => .para id n lineH st
  | .block id st kids => .block id st (embedList kids)
def embedList : List PBox → List ColBox
  | [] => []
  | b :: bs => embed b :: embedList bs
end

mutual
def embedFrag : Frag → CFrag
  | .para id idx st n g lines => .para id idx st n g lines
  | .block id idx st g kids => .block id idx st g (embedFragList kids)
def embedFragList : List Frag → List CFrag
  | [] => []
  | f :: fs => embedFrag f :: embedFragList fs
end

/-- The stage-1 context: not inside columns, finite bottom space. -/
def cOf (c : Ctx) : CCtx :=
  { pageBottom := c.pageBottom, currentPage := c.currentPage, forcedBreak := c.forcedBreak,
    inColumn := false, inf := false }

def embedResult (r : PM.LayoutResult) : LayoutResult :=
  { frag := r.frag.map embedFrag, resume := r.resume, nextPage := r.nextPage, adj := r.adj,
    collapsingThrough := r.collapsingThrough, adjL := r.adjL, err := none }

def embedLoop (s : PM.KidsLoop) : KidsLoop :=
  { newChildren := embedFragList s.newChildren, posY := s.posY, adjL := s.adjL, cur := s.cur, curIsL := s.curIsL,
    nextPage := s.nextPage, skip := s.skip }

def embedOutcome : PM.KidsOutcome → KidsOutcome
  | .finished s => .finished (embedLoop s)
  | .aborted p s => .aborted p (embedLoop s)
  | .stopped r s => .stopped r (embedLoop s)

def embedPage (p : PM.Page) : CPage :=
  { type := p.type, root := embedFrag p.root, resume := p.resume, nextPage := p.nextPage }

def embedDoc (d : PM.Doc) : CDoc := { pageH := d.pageH, rootLtr := d.rootLtr, root := embed d.root }

/-! ### simple facts -/

theorem embedList_eq_map (l : List PBox) : embedList l = l.map embed := by
  induction l with
  | nil => rfl
  | cons b bs ih => simp [embedList, ih]

theorem embedFragList_eq_map (l : List Frag) : embedFragList l = l.map embedFrag := by
  induction l with
  | nil => rfl
  | cons b bs ih => simp [embedFragList, ih]

@[simp] theorem embedFragList_append (a b : List Frag) :
    embedFragList (a ++ b) = embedFragList a ++ embedFragList b := by
  simp [embedFragList_eq_map]

@[simp] theorem embedFragList_isEmpty (l : List Frag) : (embedFragList l).isEmpty = l.isEmpty := by
  cases l <;> simp [embedFragList]

@[simp] theorem embedFragList_eq_nil (l : List Frag) : embedFragList l = [] ↔ l = [] := by
  cases l <;> simp [embedFragList]

theorem embedFragList_getLast? (l : List Frag) : (embedFragList l).getLast? = l.getLast?.map embedFrag := by
  simp [embedFragList_eq_map]

@[simp] theorem embed_st (b : PBox) : (embed b).st = b.st := by
  cases b <;> simp [embed, ColBox.st, PBox.st]

@[simp] theorem embedFrag_st (f : Frag) : (embedFrag f).st = f.st := by
  cases f <;> simp [embedFrag, CFrag.st, Frag.st]
@[simp] theorem embedFrag_geo (f : Frag) : (embedFrag f).geo = f.geo := by
  cases f <;> simp [embedFrag, CFrag.geo, Frag.geo]
@[simp] theorem embedFrag_idx (f : Frag) : (embedFrag f).idx = f.idx := by
  cases f <;> simp [embedFrag, CFrag.idx, Frag.idx]
@[simp] theorem embedFrag_withIdx (f : Frag) (i : Nat) : (embedFrag f).withIdx i = embedFrag (f.withIdx i) := by
  cases f <;> simp [embedFrag, CFrag.withIdx, Frag.withIdx]
@[simp] theorem embedFrag_isColumn (f : Frag) : (embedFrag f).isColumn = false := by
  cases f <;> simp [embedFrag, CFrag.isColumn]

@[simp] theorem cOf_base (c : Ctx) : (cOf c).base = c := by cases c; rfl
@[simp] theorem cOf_overflowsPage (c : Ctx) (bs y : Rat) : (cOf c).overflowsPage bs y = c.overflowsPage bs y := by
  simp [cOf, CCtx.overflowsPage, Ctx.overflowsPage]
@[simp] theorem cOf_avoidsB (c : Ctx) (v : Brk) : (cOf c).avoidsB v = avoidsPage v := by
  simp [cOf, CCtx.avoidsB, avoidsPage]
@[simp] theorem cOf_forcesB (c : Ctx) (v : Brk) : (cOf c).forcesB v = forcesPage v := by
  simp [cOf, CCtx.forcesB, forcesPage]
@[simp] theorem cOf_inColumn (c : Ctx) : (cOf c).inColumn = false := rfl
@[simp] theorem cOf_inf (c : Ctx) : (cOf c).inf = false := rfl
@[simp] theorem cOf_pageBottom (c : Ctx) : (cOf c).pageBottom = c.pageBottom := rfl

/-! ### break chains and page values -/

mutual
theorem fragAfterChain_embed : (f : Frag) → fragAfterChain (embedFrag f) = PM.fragAfterChain f
  | .para _ _ _ _ _ _ => by simp [embedFrag, fragAfterChain, PM.fragAfterChain]
  | .block _ _ _ _ kids => by
    simp [embedFrag, fragAfterChain, PM.fragAfterChain, fragAfterChainLast_embed kids]
theorem fragAfterChainLast_embed : (fs : List Frag) →
    fragAfterChainLast (embedFragList fs) = PM.fragAfterChainLast fs
  | [] => by simp [embedFragList, fragAfterChainLast, PM.fragAfterChainLast]
  | [f] => by simp [embedFragList, fragAfterChainLast, PM.fragAfterChainLast, fragAfterChain_embed f]
  | f :: g :: rest => by
    have := fragAfterChainLast_embed (g :: rest)
    simp only [embedFragList] at this ⊢
    simp only [fragAfterChainLast, PM.fragAfterChainLast]
    simpa [fragAfterChainLast, PM.fragAfterChainLast] using this
end

mutual
theorem boxBeforeChain_embed : (b : PBox) → boxBeforeChain (embed b) = PM.boxBeforeChain b
  | .para _ _ _ _ => by simp [embed, boxBeforeChain, PM.boxBeforeChain]
  | .block _ _ kids => by simp [embed, boxBeforeChain, PM.boxBeforeChain, boxBeforeChainFirst_embed kids]
theorem boxBeforeChainFirst_embed : (bs : List PBox) →
    boxBeforeChainFirst (embedList bs) = PM.boxBeforeChainFirst bs
  | [] => by simp [embedList, boxBeforeChainFirst, PM.boxBeforeChainFirst]
  | b :: _ => by simp [embedList, boxBeforeChainFirst, PM.boxBeforeChainFirst, boxBeforeChain_embed b]
end

mutual
theorem fragBeforeChain_embed : (f : Frag) → fragBeforeChain (embedFrag f) = PM.fragBeforeChain f
  | .para _ _ _ _ _ _ => by simp [embedFrag, fragBeforeChain, PM.fragBeforeChain]
  | .block _ _ _ _ kids => by
    simp [embedFrag, fragBeforeChain, PM.fragBeforeChain, fragBeforeChainFirst_embed kids]
theorem fragBeforeChainFirst_embed : (fs : List Frag) →
    fragBeforeChainFirst (embedFragList fs) = PM.fragBeforeChainFirst fs
  | [] => by simp [embedFragList, fragBeforeChainFirst, PM.fragBeforeChainFirst]
  | f :: _ => by simp [embedFragList, fragBeforeChainFirst, PM.fragBeforeChainFirst, fragBeforeChain_embed f]
end

@[simp] theorem breakBetween_embed (f : Frag) (b : PBox) :
    breakBetween (embedFrag f) (embed b) = PM.breakBetween f b := by
  simp [breakBetween, PM.breakBetween, fragAfterChain_embed, boxBeforeChain_embed]

@[simp] theorem breakBetweenFrags_embed (f : Frag) (a : Option Frag) :
    breakBetweenFrags (embedFrag f) (a.map embedFrag) = PM.breakBetweenFrags f a := by
  cases a <;> simp [breakBetweenFrags, PM.breakBetweenFrags, fragAfterChain_embed, fragBeforeChain_embed]

mutual
theorem boxPageStart_embed : (b : PBox) → boxPageStart (embed b) = PM.boxPageStart b
  | .para _ _ _ _ => by simp [embed, boxPageStart, PM.boxPageStart]
  | .block _ _ kids => by simp [embed, boxPageStart, PM.boxPageStart, boxPageStartFirst_embed kids]
theorem boxPageStartFirst_embed : (bs : List PBox) →
    boxPageStartFirst (embedList bs) = PM.boxPageStartFirst bs
  | [] => by simp [embedList, boxPageStartFirst, PM.boxPageStartFirst]
  | b :: _ => by simp [embedList, boxPageStartFirst, PM.boxPageStartFirst, boxPageStart_embed b]
end

mutual
theorem fragPageEnd_embed : (f : Frag) → fragPageEnd (embedFrag f) = PM.fragPageEnd f
  | .para _ _ _ _ _ _ => by simp [embedFrag, fragPageEnd, PM.fragPageEnd]
  | .block _ _ _ _ kids => by simp [embedFrag, fragPageEnd, PM.fragPageEnd, fragPageEndLast_embed kids]
theorem fragPageEndLast_embed : (fs : List Frag) →
    fragPageEndLast (embedFragList fs) = PM.fragPageEndLast fs
  | [] => by simp [embedFragList, fragPageEndLast, PM.fragPageEndLast]
  | [f] => by simp [embedFragList, fragPageEndLast, PM.fragPageEndLast, fragPageEnd_embed f]
  | f :: g :: rest => by
    have := fragPageEndLast_embed (g :: rest)
    simp only [embedFragList] at this ⊢
    simp only [fragPageEndLast, PM.fragPageEndLast]
    simpa [fragPageEndLast, PM.fragPageEndLast] using this
end

attribute [simp] boxPageStart_embed fragPageEnd_embed fragPageEndLast_embed

/-! ### paragraphs -/

theorem lineLoop_embed (c : Ctx) (st : PStyle) (b : BoxSt) (n : Nat) (lineH : Rat) (pie : Bool) (bs : Rat) :
    ∀ (fuel i : Nat) (y : Rat) (s : LineLoop),
      lineLoop (cOf c) st b n lineH pie bs fuel i y s = PM.lineLoop c st b n lineH pie bs fuel i y s := by
  intro fuel
  induction fuel with
  | zero => intro i y s; simp [lineLoop, PM.lineLoop]
  | succ k ih =>
    intro i y s
    simp only [lineLoop, PM.lineLoop, cOf_overflowsPage, ih]

theorem lineboxLoop_embed (c : Ctx) (st : PStyle) (b : BoxSt) (n : Nat) (lineH : Rat) (pie : Bool)
    (adj : List Rat) (bs posY : Rat) (skip : Option Resume) (dbd : Bool) :
    lineboxLoop (cOf c) st b n lineH pie adj bs posY skip dbd =
      PM.lineboxLoop c st b n lineH pie adj bs posY skip dbd := by
  simp [lineboxLoop, PM.lineboxLoop, lineLoop_embed]

@[simp] theorem lineboxLayout_embed (c : Ctx) (st : PStyle) (b : BoxSt) (n : Nat) (lineH : Rat) (pie : Bool)
    (adj : List Rat) (bs posY : Rat) (skip : Option Resume) (dbd : Bool) :
    lineboxLayout (cOf c) st b n lineH pie adj bs posY skip dbd =
      PM.lineboxLayout c st b n lineH pie adj bs posY skip dbd := by
  unfold lineboxLayout PM.lineboxLayout
  rw [lineboxLoop_embed]
  cases PM.lineboxLoop c st b n lineH pie adj bs posY skip dbd <;> rfl

/-! ### `find_earlier_page_break` -/

@[simp] theorem cutEnd_embed (f : Frag) : (embedFrag f).cutEnd = embedFrag f.cutEnd := by
  cases f <;> simp [embedFrag, CFrag.cutEnd, Frag.cutEnd]

def embedEarlier (s : PM.EarlierState) : EarlierState :=
  { found := s.found.map (fun p => (embedFragList p.1, p.2)), prev := s.prev.map embedFrag }

def embedEarlierIn (o : Option (Frag × Resume)) : Option (CFrag × Resume) :=
  o.map (fun p => (embedFrag p.1, p.2))

theorem findEarlierPara_embed (id idx : Nat) (st : PStyle) (n : Nat) (g : Geo) (lines : List (Nat × Rat)) :
    findEarlierPara id idx st n g lines =
      (PM.findEarlierPara id idx st n g lines).map (fun p => (embedFrag p.1, p.2)) := by
  unfold findEarlierPara PM.findEarlierPara
  by_cases h1 : lines.isEmpty = true
  · rw [if_pos h1, if_pos h1]; rfl
  · rw [if_neg h1, if_neg h1]
    dsimp only
    by_cases h2 : (lines.length : Int) - (st.widows : Int) < (st.orphans : Int)
    · rw [if_pos h2, if_pos h2]; rfl
    · rw [if_neg h2, if_neg h2]
      cases (List.take ((lines.length : Int) - (st.widows : Int)).toNat lines).getLast? with
      | none => rfl
      | some p => rfl

mutual
theorem findEarlierGo_embed : (fs : List Frag) →
    findEarlierGo false (embedFragList fs) = embedEarlier (PM.findEarlierGo fs)
  | [] => by simp [embedFragList, findEarlierGo, PM.findEarlierGo, embedEarlier]
  | x :: xs => by
    have ih := findEarlierGo_embed xs
    have ihx := findEarlierFrag_embed x
    simp only [embedFragList, findEarlierGo, PM.findEarlierGo, ih]
    cases hs : PM.findEarlierGo xs with
    | mk found prev =>
      cases found with
      | some p => simp [embedEarlier, embedFragList]
      | none =>
        cases prev with
        | none =>
          simp only [embedEarlier, Option.map_none, embedFrag_isColumn, embedFrag_st]
          simp only [ihx]
          by_cases hav : avoidsPage x.st.brkInside = true
          · simp [avoidsPage] at hav; simp [hav, avoidsPage]
          · simp only [avoidsPage] at hav
            simp only [Bool.not_eq_true] at hav
            simp only [hav, avoidsPage]
            cases PM.findEarlierFrag x with
            | none => simp [embedEarlierIn]
            | some p => obtain ⟨f, r⟩ := p; simp [embedEarlierIn, embedFragList]
        | some p =>
          simp only [embedEarlier, Option.map_none, Option.map_some, embedFrag_isColumn, embedFrag_st]
          have hb := breakBetweenFrags_embed x (some p)
          simp only [Option.map_some] at hb
          simp only [hb, ihx, avoidsPage]
          by_cases hpb : avoids false (PM.breakBetweenFrags x (some p)) = true
          · simp only [hpb]
            by_cases hav : avoids false x.st.brkInside = true
            · simp [hav]
            · simp only [Bool.not_eq_true] at hav
              simp only [hav]
              cases PM.findEarlierFrag x with
              | none => simp [embedEarlierIn]
              | some q => obtain ⟨f, r⟩ := q; simp [embedEarlierIn, embedFragList]
          · simp only [Bool.not_eq_true] at hpb
            simp [hpb, embedFragList]
theorem findEarlierFrag_embed : (x : Frag) →
    findEarlierFrag false (embedFrag x) = embedEarlierIn (PM.findEarlierFrag x)
  | .para id idx st n g lines => by
    simp only [embedFrag, findEarlierFrag, PM.findEarlierFrag, findEarlierPara_embed, embedEarlierIn]
  | .block id idx st g kids => by
    have ih := findEarlierGo_embed kids
    simp only [embedFrag, findEarlierFrag, PM.findEarlierFrag, ih]
    cases hs : (PM.findEarlierGo kids).found with
    | none => simp [embedEarlier, hs, embedEarlierIn]
    | some p => obtain ⟨k, r⟩ := p; simp [embedEarlier, hs, embedEarlierIn, embedFrag]
end

def embedEarlierList (o : Option (List Frag × Resume)) : Option (List CFrag × Resume) :=
  o.map (fun p => (embedFragList p.1, p.2))

theorem findEarlierList_embed (fs : List Frag) :
    findEarlierList false (embedFragList fs) = embedEarlierList (PM.findEarlierList fs) := by
  simp only [findEarlierList, PM.findEarlierList, findEarlierGo_embed, embedEarlier, embedEarlierList]

/-! ### block containers -/

@[simp] theorem prepareC_embed (c : Ctx) (st : PStyle) (y bs : Rat) (skip : Option Resume) (cbIsRoot pie : Bool)
    (adjL : List Rat) : prepareC false c st y bs skip cbIsRoot pie adjL = prepare c st y bs skip cbIsRoot pie adjL := by
  unfold prepareC prepare
  simp only [Bool.or_false]

@[simp] theorem finishTailC_embed (c : Ctx) (st : PStyle) (b : BoxSt) (bs : Rat) (cwc dbd : Bool)
    (resume : Option Resume) (posY : Rat) (adjL cur : List Rat) (curIsL hasKids : Bool) :
    finishTailC false (cOf c) st b bs cwc dbd resume posY adjL cur curIsL hasKids =
      finishTail c st b bs cwc dbd resume posY adjL cur curIsL hasKids := by
  unfold finishTailC finishTail
  simp only [Bool.or_false, cOf, Bool.false_eq_true, if_false]
  rfl

theorem noneResult_embed (page : Option String) (adjL : List Rat) :
    noneResult page adjL = embedResult (abortResult page adjL) := by
  simp [noneResult, abortResult, embedResult]

theorem finishContainer_embed (c : Ctx) (st : PStyle) (b : BoxSt) (isStart pie : Bool) (bs : Rat) (cwc dbd : Bool)
    (resume : Option Resume) (posY : Rat) (adjL cur : List Rat) (curIsL : Bool) (np : NextPage) (hasKids : Bool)
    (pageEnd : String) (mk : Geo → Frag) :
    finishContainer false (cOf c) st b pie bs cwc dbd resume posY adjL cur curIsL np hasKids pageEnd
        (fun g => embedFrag (mk g)) =
      embedResult (PM.finishContainer c st b isStart pie bs cwc dbd resume posY adjL cur curIsL np hasKids pageEnd mk) := by
  unfold finishContainer PM.finishContainer
  simp only [cOf_avoidsB, finishTailC_embed]
  split
  · simp [noneResult, embedResult]
  · simp only [embedResult, Option.map_some]
    cases np.page <;> rfl

theorem finishPara_embed (c : Ctx) (st : PStyle) (p : Prep) (pie : Bool) (id idx n : Nat) (r : LineResult) :
    finishPara (cOf c) st p pie id idx n r = embedResult (PM.finishPara c st p pie id idx n r) := by
  unfold finishPara PM.finishPara
  dsimp only
  split
  · exact noneResult_embed _ _
  · exact finishContainer_embed c st _ p.isStart pie p.bs p.cwc _ _ r.posY p.adjL [] false _ _ st.page
      (fun g => Frag.para id idx st n g r.lines)

@[simp] theorem pageEndOf_embed (st : PStyle) (kids : List Frag) :
    pageEndOf st (embedFragList kids) = PM.pageEndOf st kids := by
  simp [pageEndOf, PM.pageEndOf]

theorem finishBlock_embed (c : Ctx) (st : PStyle) (p : Prep) (pie : Bool) (id idx : Nat) (out : PM.KidsOutcome) :
    finishBlock false (cOf c) st p pie (embedOutcome out) (fun g ks => .block id idx st g ks) =
      embedResult (PM.finishBlock c st p pie id idx out) := by
  cases out with
  | finished s =>
    simp only [embedOutcome, finishBlock, PM.finishBlock, embedLoop, embedFragList_isEmpty, pageEndOf_embed]
    exact finishContainer_embed c st p.b p.isStart pie p.bs p.cwc p.dbd none s.posY s.adjL s.cur s.curIsL s.nextPage
      _ _ (fun g => Frag.block id idx st g s.newChildren)
  | aborted page s =>
    simp only [embedOutcome, finishBlock, PM.finishBlock, embedLoop]
    exact noneResult_embed _ _
  | stopped r s =>
    simp only [embedOutcome, finishBlock, PM.finishBlock, embedLoop, embedFragList_isEmpty, pageEndOf_embed]
    exact finishContainer_embed c st p.b p.isStart pie p.bs p.cwc p.dbd _ s.posY s.adjL [] false s.nextPage
      _ _ (fun g => Frag.block id idx st g s.newChildren)

theorem meetBreak_embed (c : Ctx) (s : PM.KidsLoop) (child : PBox) :
    meetBreak (cOf c) (embedLoop s) (embed child) = PM.meetBreak s child := by
  unfold meetBreak PM.meetBreak
  simp only [embedLoop, embedFragList_getLast?]
  cases s.newChildren.getLast? with
  | none => rfl
  | some l => simp

def embedFirstPass : PM.FirstPass → FirstPass
  | .keep f y => .keep (f.map embedFrag) y
  | .redo bs => .redo bs

theorem firstPass_embed (c : Ctx) (bs : Rat) (pienc : Bool) (posY : Rat) (r : PM.LayoutResult) :
    firstPass (cOf c) bs pienc posY (embedResult r) = embedFirstPass (PM.firstPass c bs pienc posY r) := by
  unfold firstPass PM.firstPass
  cases hf : r.frag with
  | none => simp [embedResult, hf, embedFirstPass]
  | some f =>
    simp only [embedResult, hf, Option.map_some, embedFrag_geo, cOf_overflowsPage]
    split
    · simp [embedFirstPass]
    · split
      · simp [embedFirstPass]
      · split <;> simp [embedFirstPass]

@[simp] theorem setCur_embed (s : PM.KidsLoop) (l : List Rat) (isL : Bool) :
    (embedLoop s).setCur l isL = embedLoop (s.setCur l isL) := by
  unfold KidsLoop.setCur PM.KidsLoop.setCur
  split <;> simp [embedLoop]

@[simp] theorem appendCur_embed (s : PM.KidsLoop) (m : Rat) :
    (embedLoop s).appendCur m = embedLoop (s.appendCur m) := by
  unfold KidsLoop.appendCur PM.KidsLoop.appendCur
  cases h : s.curIsL <;> simp [embedLoop, h]

theorem adoptAdj_embed (s : PM.KidsLoop) (had : Bool) (adj : AdjOut) (frag : Option Frag) :
    (embedLoop s).adoptAdj had adj (frag.map embedFrag) = embedLoop (s.adoptAdj had adj frag) := by
  unfold KidsLoop.adoptAdj PM.KidsLoop.adoptAdj
  split
  · rfl
  · cases adj <;> cases frag <;> simp

theorem concludeKid_embed (c : Ctx) (index : Nat) (pie : Bool) (pb : Brk) (child : PBox) (s : PM.KidsLoop)
    (frag : Option Frag) (resume : Option Resume) :
    concludeKid (cOf c) index pie pb (embed child) (embedLoop s) (frag.map embedFrag) resume =
      ((PM.concludeKid index pie pb child s frag resume).1.map embedOutcome,
       embedLoop (PM.concludeKid index pie pb child s frag resume).2) := by
  unfold concludeKid PM.concludeKid
  cases frag with
  | none =>
    simp only [Option.map_none, cOf_avoidsB, cOf_inColumn]
    have hl : (embedLoop s).newChildren = embedFragList s.newChildren := rfl
    rw [hl, findEarlierList_embed]
    by_cases hav : avoidsPage pb = true
    · simp only [hav, if_true]
      cases PM.findEarlierList s.newChildren with
      | some p =>
        obtain ⟨k, r⟩ := p
        simp [embedEarlierList, embedOutcome, embedLoop]
      | none =>
        simp only [embedEarlierList, Bool.true_and]
        cases pie <;> by_cases hn : s.newChildren = [] <;> simp [embedOutcome, embedLoop, hn]
    · simp only [Bool.not_eq_true] at hav
      simp only [hav, Bool.false_eq_true, if_false, Bool.false_and]
      by_cases hn : s.newChildren = [] <;> simp [embedOutcome, embedLoop, hn]
  | some f =>
    simp only [Option.map_some]
    cases resume with
    | none => simp [embedLoop, embedFragList]
    | some r => simp [embedLoop, embedOutcome, embedFragList]

/-! ### `block_level_layout` -/

theorem embedResult_err (r : PM.LayoutResult) : (embedResult r).err = none := rfl

theorem conclude_tail (c : Ctx) (st : PStyle) (rest : List PBox) (index skipIdx : Nat) (bs : Rat) (pie : Bool) (pb : Brk)
    (child : PBox) (L : PM.KidsLoop) (frag : Option Frag) (resume : Option Resume)
    (ihr : ∀ s, layoutKids (cOf c) st (embedList rest) [] (index + 1) skipIdx 0 bs pie (embedLoop s) =
      embedOutcome (PM.layoutKids c st rest (index + 1) skipIdx bs pie s)) :
    (match concludeKid (cOf c) index pie pb (embed child) (embedLoop L) (frag.map embedFrag) resume with
      | (some out, _) => out
      | (none, s3) => layoutKids (cOf c) st (embedList rest) [] (index + 1) skipIdx 0 bs pie s3) =
    embedOutcome (match PM.concludeKid index pie pb child L frag resume with
      | (some out, _) => out
      | (none, s3) => PM.layoutKids c st rest (index + 1) skipIdx bs pie s3) := by
  rw [concludeKid_embed]
  cases hck : PM.concludeKid index pie pb child L frag resume with
  | mk o s3 =>
    cases o with
    | some out => simp
    | none => simp only [Option.map_none]; exact ihr s3

mutual
theorem layoutBox_embed : (box : PBox) → ∀ (c : Ctx) (idx : Nat) (y bs : Rat) (skip : Option Resume)
    (cbIsRoot pie : Bool) (adjL : List Rat),
    layoutBox (cOf c) (embed box) idx y bs skip cbIsRoot pie adjL =
      embedResult (PM.layoutBox c box idx y bs skip cbIsRoot pie adjL)
  | .para id n lineH st => by
    intro c idx y bs skip cbIsRoot pie adjL
    simp only [embed, layoutBox, PM.layoutBox, cOf_base, prepareC_embed, lineboxLayout_embed]
    exact finishPara_embed c st _ pie id idx n _
  | .block id st kids => by
    intro c idx y bs skip cbIsRoot pie adjL
    simp only [embed, layoutBox, PM.layoutBox, cOf_base, prepareC_embed]
    have h := layoutKids_embed kids c st 0 (skipIdxOf skip) (prepare c st y bs skip cbIsRoot pie adjL).bs pie
      { newChildren := [], posY := (prepare c st y bs skip cbIsRoot pie adjL).posY,
        adjL := (prepare c st y bs skip cbIsRoot pie adjL).adjL, cur := (prepare c st y bs skip cbIsRoot pie adjL).cur,
        curIsL := (prepare c st y bs skip cbIsRoot pie adjL).curIsL, nextPage := { brk := none, page := none },
        skip := subSkipOf skip }
    simp only [embedLoop, embedFragList] at h
    rw [h]
    exact finishBlock_embed c st _ pie id idx _
theorem layoutKids_embed : (kids : List PBox) → ∀ (c : Ctx) (st : PStyle) (index skipIdx : Nat) (bs : Rat) (pie : Bool)
    (s : PM.KidsLoop),
    layoutKids (cOf c) st (embedList kids) [] index skipIdx 0 bs pie (embedLoop s) =
      embedOutcome (PM.layoutKids c st kids index skipIdx bs pie s)
  | [] => by
    intro c st index skipIdx bs pie s
    simp [embedList, layoutKids, PM.layoutKids, embedOutcome]
  | child :: rest => by
    intro c st index skipIdx bs pie s
    have ihr := layoutKids_embed rest c st (index + 1) skipIdx bs pie
    simp only [embedList, layoutKids, PM.layoutKids, List.tail_nil, List.head?_nil, Nat.sub_zero]
    by_cases hskip : index < skipIdx
    · simp only [hskip, if_true]; exact ihr s
    · simp only [hskip, if_false, reduceCtorEq]
      rw [meetBreak_embed]
      by_cases hmb : (PM.meetBreak s child).2 = true
      · simp only [hmb, if_true, embedOutcome, embedLoop, boxPageStart_embed]
      · simp only [hmb, if_false, Bool.false_eq_true]
        have hnc : (embedLoop s).newChildren.isEmpty = s.newChildren.isEmpty := by simp [embedLoop]
        have hposY : (embedLoop s).posY = s.posY := rfl
        have hskp : (embedLoop s).skip = s.skip := rfl
        have hcur : (embedLoop s).cur = s.cur := rfl
        have hcl : (embedLoop s).curIsL = s.curIsL := rfl
        simp only [hnc, hposY, hskp, hcur, hcl]
        rw [layoutBox_embed child c index s.posY bs s.skip st.isRoot (pie && s.newChildren.isEmpty) s.cur]
        simp only [embedResult_err]
        rw [firstPass_embed]
        generalize hr : PM.layoutBox c child index s.posY bs s.skip st.isRoot (pie && s.newChildren.isEmpty) s.cur = r
        have hfr : (embedResult r).frag = r.frag.map embedFrag := rfl
        have hadj : (embedResult r).adj = r.adj := rfl
        have hadjL : (embedResult r).adjL = r.adjL := rfl
        have hnp : (embedResult r).nextPage = r.nextPage := rfl
        have hres : (embedResult r).resume = r.resume := rfl
        simp only [hfr, hadj, hadjL, hnp, hres, setCur_embed]
        cases hfp : PM.firstPass c bs (pie && s.newChildren.isEmpty) s.posY r with
        | keep frag posY =>
          simp only [embedFirstPass, Option.isSome_map, adoptAdj_embed]
          have hs2 : ({ embedLoop ((s.setCur r.adjL s.curIsL).adoptAdj r.frag.isSome r.adj frag) with
              posY := posY, nextPage := r.nextPage, skip := none } : KidsLoop) =
              embedLoop { (s.setCur r.adjL s.curIsL).adoptAdj r.frag.isSome r.adj frag with
                posY := posY, nextPage := r.nextPage, skip := none } := rfl
          rw [hs2, concludeKid_embed]
          cases hck : PM.concludeKid index pie (PM.meetBreak s child).1 child
              { (s.setCur r.adjL s.curIsL).adoptAdj r.frag.isSome r.adj frag with
                posY := posY, nextPage := r.nextPage, skip := none } frag r.resume with
          | mk o s3 =>
            cases o with
            | some out => simp
            | none => simp only [Option.map_none]; exact ihr s3
        | redo bs' =>
          simp only [embedFirstPass]
          have hcur2 : (embedLoop (s.setCur r.adjL s.curIsL)).cur = (s.setCur r.adjL s.curIsL).cur := rfl
          have hcl2 : (embedLoop (s.setCur r.adjL s.curIsL)).curIsL = (s.setCur r.adjL s.curIsL).curIsL := rfl
          simp only [hcur2, hcl2]
          rw [layoutBox_embed child c index s.posY bs' s.skip st.isRoot (pie && s.newChildren.isEmpty)
            (s.setCur r.adjL s.curIsL).cur]
          simp only [embedResult_err]
          generalize hr2 : PM.layoutBox c child index s.posY bs' s.skip st.isRoot (pie && s.newChildren.isEmpty)
            (s.setCur r.adjL s.curIsL).cur = r2
          have hfr2 : (embedResult r2).frag = r2.frag.map embedFrag := rfl
          have hadj2 : (embedResult r2).adj = r2.adj := rfl
          have hadjL2 : (embedResult r2).adjL = r2.adjL := rfl
          have hnp2 : (embedResult r2).nextPage = r2.nextPage := rfl
          have hres2 : (embedResult r2).resume = r2.resume := rfl
          simp only [hfr2, hadj2, hadjL2, hnp2, hres2, adoptAdj_embed]
          cases hf2 : r2.frag with
          | none =>
            simp only [Option.map_none]
            exact conclude_tail c st rest index skipIdx bs pie _ child
              { ((s.setCur r.adjL s.curIsL).setCur r2.adjL (s.setCur r.adjL s.curIsL).curIsL).adoptAdj true r2.adj none with
                posY := s.posY, nextPage := r2.nextPage, skip := none } none r2.resume ihr
          | some f2 =>
            simp only [Option.map_some, embedFrag_geo]
            exact conclude_tail c st rest index skipIdx bs pie _ child
              { ((s.setCur r.adjL s.curIsL).setCur r2.adjL (s.setCur r.adjL s.curIsL).curIsL).adoptAdj true r2.adj (some f2) with
                posY := f2.geo.borderBoxY + f2.geo.borderHeight, nextPage := r2.nextPage, skip := none }
              (some f2) r2.resume ihr
end

/-! ### pages -/

theorem emptyRoot_embed (b : PBox) : emptyRoot (embed b) = embed (PM.emptyRoot b) := by
  cases b <;> simp [embed, emptyRoot, PM.emptyRoot, embedList]

def embedPageOut : Option PM.Page → PageOut
  | some p => .ok (embedPage p)
  | none => .assertFail

theorem remakePage_embed (d : PM.Doc) (index : Nat) (resume : Option Resume) (np : NextPage) (right : Bool) :
    remakePage (embedDoc d) index resume np right = embedPageOut (PM.remakePage d index resume np right) := by
  unfold remakePage PM.remakePage
  simp only [embedDoc]
  have hc : (⟨d.pageH, index + 1, forcedBreakOf np, false, false⟩ : CCtx) =
      cOf ({ pageBottom := d.pageH, currentPage := index + 1, forcedBreak := forcedBreakOf np } : Ctx) := rfl
  rw [hc]
  by_cases hb : isBlank (requestedSide d.rootLtr np.brk) right = true
  rotate_left
  · simp only [hb, Bool.false_eq_true, if_false, layoutBox_embed, embedResult_err]
    generalize PM.layoutBox ({ pageBottom := d.pageH, currentPage := index + 1, forcedBreak := forcedBreakOf np } : Ctx)
      d.root 0 0 0 resume false true [] = r
    cases hf : r.frag <;> simp [embedResult, hf, embedPageOut, embedPage]
    cases np.page <;> rfl
  · simp only [hb, if_true, emptyRoot_embed, layoutBox_embed, embedResult_err]
    generalize PM.layoutBox ({ pageBottom := d.pageH, currentPage := index + 1, forcedBreak := forcedBreakOf np } : Ctx)
      (PM.emptyRoot d.root) 0 0 0 resume false true [] = r
    cases hf : r.frag <;> simp [embedResult, hf, embedPageOut, embedPage]

def PagesOut.pages? : PagesOut → Option (List CPage)
  | .ok ps => some ps
  | _ => none

def PagesOut.isRaised : PagesOut → Bool
  | .raised _ => true
  | _ => false

theorem makeAllPages_embed (d : PM.Doc) : ∀ (fuel index : Nat) (resume : Option Resume) (np : NextPage) (right : Bool),
    (makeAllPages (embedDoc d) fuel index resume np right).pages? =
        (PM.makeAllPages d fuel index resume np right).map (List.map embedPage) ∧
    (makeAllPages (embedDoc d) fuel index resume np right).isRaised = false := by
  intro fuel
  induction fuel with
  | zero => intro index resume np right; simp [makeAllPages, PM.makeAllPages, PagesOut.pages?, PagesOut.isRaised]
  | succ k ih =>
    intro index resume np right
    simp only [makeAllPages, PM.makeAllPages, remakePage_embed]
    cases hp : PM.remakePage d index resume np right with
    | none => simp [embedPageOut, PagesOut.pages?, PagesOut.isRaised]
    | some p =>
      simp only [embedPageOut]
      have hres : (embedPage p).resume = p.resume := rfl
      have hnp : (embedPage p).nextPage = p.nextPage := rfl
      simp only [hres, hnp]
      cases hr : p.resume with
      | none => simp [PagesOut.pages?, PagesOut.isRaised]
      | some r =>
        simp only
        have := ih (index + 1) (some r) p.nextPage (!right)
        cases hm : makeAllPages (embedDoc d) k (index + 1) (some r) p.nextPage (!right) with
        | ok ps =>
          rw [hm] at this
          simp only [PagesOut.pages?] at this
          cases hm2 : PM.makeAllPages d k (index + 1) (some r) p.nextPage (!right) with
          | none => rw [hm2] at this; simp at this
          | some ps2 =>
            rw [hm2] at this
            simp only [Option.map_some, Option.some.injEq] at this
            simp [PagesOut.pages?, PagesOut.isRaised, this.1]
        | assertFail =>
          rw [hm] at this
          simp only [PagesOut.pages?] at this
          cases hm2 : PM.makeAllPages d k (index + 1) (some r) p.nextPage (!right) with
          | none => simp [PagesOut.pages?, PagesOut.isRaised]
          | some ps2 => rw [hm2] at this; simp at this
        | fuel =>
          rw [hm] at this
          simp only [PagesOut.pages?] at this
          cases hm2 : PM.makeAllPages d k (index + 1) (some r) p.nextPage (!right) with
          | none => simp [PagesOut.pages?, PagesOut.isRaised]
          | some ps2 => rw [hm2] at this; simp at this
        | raised e =>
          rw [hm] at this
          simp [PagesOut.isRaised] at this

theorem firstRight_embed (d : PM.Doc) : firstRight (embedDoc d) = PM.firstRight d := by
  simp only [firstRight, PM.firstRight, embedDoc, embed_st]
  cases d.root.st.brkBefore <;> rfl

end Wp.PMC
