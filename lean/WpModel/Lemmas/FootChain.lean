/-
Page by page: the footnotes a page takes (its footnote area, then what it postpones) are what the previous page
postponed followed by the calls on its own lines.
-/
import WpModel.Lemmas.FootWF

namespace Wp.PMF
open Wp Wp.PM

/-- `carried` = footnotes postponed by the previous page. -/
def PagesChain (tbl : List (Nat × Nat × Fn)) : List Fn → List FPage → Prop
  | _, [] => True
  | carried, p :: ps =>
    p.cur ++ p.reported = carried ++ tblFns tbl (fragLines p.page.root) ∧ PagesChain tbl p.reported ps

theorem makeAllPagesF_chain (d : FDoc) (hok : FootOk (callTable d.root) d.root) : ∀ (fuel index : Nat)
    (resume : Option Resume) (np : NextPage) (right : Bool) (pending reported : List Fn) (pages : List FPage),
    (resume = none → reported = [] → isBlank (requestedSide d.rootLtr np.brk) right = false) →
    PInv d resume pending reported →
    makeAllPagesF d fuel index resume np right pending reported = some pages →
    PagesChain (callTable d.root) reported pages ∧ (∀ p, pages.getLast? = some p → p.reported = []) := by
  intro fuel
  induction fuel with
  | zero => intro index resume np right pending reported pages _ _ h; simp [makeAllPagesF] at h
  | succ fuel ih =>
    intro index resume np right pending reported pages hstart hinv h
    unfold makeAllPagesF at h
    split at h
    · cases h
    · rename_i p hp
      obtain ⟨hf1, hf2⟩ := remakePageF_foot d hok index resume np right pending reported p hstart hinv hp
      split at h
      · rename_i hstop
        simp only [Option.some.injEq] at h
        subst h
        simp only [Bool.and_eq_true, Option.isNone_iff_eq_none, List.isEmpty_iff] at hstop
        refine ⟨⟨hf1, trivial⟩, ?_⟩
        intro q hq
        simp only [List.getLast?_singleton, Option.some.injEq] at hq
        subst hq; exact hstop.2
      · rename_i hcont
        have hnl : ¬(p.page.resume = none ∧ p.reported = []) := by
          intro hc
          apply hcont
          simp [hc.1, hc.2]
        split at h
        · rename_i ps hps
          simp only [Option.some.injEq] at h
          subst h
          obtain ⟨i1, i2⟩ := ih (index + 1) p.page.resume p.page.nextPage (!right) p.pending p.reported ps
            (fun h1 h2 => absurd ⟨h1, h2⟩ hnl) (hf2 hnl) hps
          refine ⟨⟨hf1, i1⟩, ?_⟩
          intro q hq
          cases ps with
          | nil =>
            cases fuel with
            | zero => simp [makeAllPagesF] at hps
            | succ k =>
              unfold makeAllPagesF at hps
              split at hps
              · cases hps
              · split at hps
                · cases hps
                · split at hps <;> cases hps
          | cons x xs =>
            rw [List.getLast?_cons_cons] at hq
            exact i2 q hq
        · cases h

/-! ### the footnote area shows every footnote of the page (whatever their page names: repair 8db5909) -/

theorem areaKids_fids (y : Rat) (l : List Fn) : (areaKids y l).map (fun k => k.1) = l.map (fun f => f.fid) := by
  induction l generalizing y with
  | nil => rfl
  | cons f rest ih => simp [areaKids, ih]

/-- Ids of the footnotes rendered in the footnote area of a page. -/
def shownFids (p : FPage) : List Nat :=
  match p.area with
  | none => []
  | some a => a.kids.map (fun k => k.1)

theorem areaOut_fids (a : AreaStyle) (pageH : Rat) (cur : List Fn) :
    (match areaOut a pageH cur with | none => [] | some o => o.kids.map (fun k => k.1)) = cur.map (fun f => f.fid) := by
  unfold areaOut
  by_cases he : cur.isEmpty = true
  · rw [if_pos he]
    simp only [List.isEmpty_iff] at he
    simp [he]
  · rw [if_neg he]
    dsimp only
    rw [areaKids_fids]
    rfl

theorem remakePageF_area (d : FDoc) (index : Nat) (resume : Option Resume) (np : NextPage) (right : Bool)
    (pending reported : List Fn) (p : FPage) (hp : remakePageF d index resume np right pending reported = some p) :
    p.area = areaOut (d.areaFor p.page.type.name) d.pageH p.cur := by
  unfold remakePageF at hp
  dsimp only at hp
  split at hp
  · cases hp
  · simp only [Option.some.injEq] at hp
    subst hp
    rfl

theorem makeAllPagesF_area (d : FDoc) : ∀ (fuel index : Nat) (resume : Option Resume) (np : NextPage) (right : Bool)
    (pending reported : List Fn) (pages : List FPage),
    makeAllPagesF d fuel index resume np right pending reported = some pages →
    ∀ p ∈ pages, p.area = areaOut (d.areaFor p.page.type.name) d.pageH p.cur := by
  intro fuel
  induction fuel with
  | zero => intro index resume np right pending reported pages h; simp [makeAllPagesF] at h
  | succ fuel ih =>
    intro index resume np right pending reported pages h
    unfold makeAllPagesF at h
    split at h
    · cases h
    · rename_i p hp
      have ha := remakePageF_area d index resume np right pending reported p hp
      split at h
      · simp only [Option.some.injEq] at h
        subst h
        intro q hq
        simp only [List.mem_singleton] at hq
        subst hq; exact ha
      · split at h
        · rename_i ps hps
          simp only [Option.some.injEq] at h
          subst h
          intro q hq
          simp only [List.mem_cons] at hq
          rcases hq with rfl | hq
          · exact ha
          · exact ih _ _ _ _ _ _ ps hps q hq
        · cases h

end Wp.PMF
