/-
Rules 1.3 and 1.4 of the anonymous-table fix-ups (CSS 2.1 §17.2.1; Model/AnonBoxes.lean `rule13`, `rule14`),
exactly: what they may remove and what they must keep.  Core Lean only.
-/
import WpModel.Lemmas.Tables
namespace Wp.Bx
open KBox

/-- The triples of the source: `zip([None] + children[:-1], children, children[1:] + [None])`, the tail standing
for the next child. -/
def contexts (prev : Option KBox) : List KBox → List (Option KBox × KBox × List KBox)
  | [] => []
  | c :: cs => (prev, c, cs) :: contexts (some c) cs

/-- Rule 1.4 as the source writes it: a comprehension over the triples. -/
theorem rule14_eq_comprehension : ∀ (prev : Option KBox) (l : List KBox),
    rule14 prev l = (contexts prev l).filterMap (fun t => if rule14Drop t.1 t.2.1 t.2.2 = true then none else some t.2.1)
  | _, [] => rfl
  | prev, c :: cs => by
    unfold rule14 contexts
    by_cases h : rule14Drop prev c cs = true
    · simp only [h, if_true, List.filterMap_cons]
      exact rule14_eq_comprehension (some c) cs
    · simp only [h, if_false, List.filterMap_cons, Bool.false_eq_true]
      rw [rule14_eq_comprehension (some c) cs]

theorem rule14_sublist : ∀ (prev : Option KBox) (l : List KBox), (rule14 prev l).Sublist l
  | _, [] => List.Sublist.slnil
  | prev, c :: cs => by
    unfold rule14
    split
    · exact List.Sublist.cons c (rule14_sublist (some c) cs)
    · exact List.Sublist.cons₂ c (rule14_sublist (some c) cs)

/-- Everything that is not white-space text is kept, in order. -/
theorem rule14_keeps_nonwhite : ∀ (prev : Option KBox) (l : List KBox),
    (rule14 prev l).filter (fun c => !isWhitespace c) = l.filter (fun c => !isWhitespace c)
  | _, [] => rfl
  | prev, c :: cs => by
    unfold rule14
    split
    · rename_i h
      have hw : isWhitespace c = true := by
        unfold rule14Drop at h
        simp only [Bool.and_eq_true] at h
        exact h.2
      simp only [List.filter_cons, hw, Bool.not_true, Bool.false_eq_true, if_false]
      exact rule14_keeps_nonwhite (some c) cs
    · simp only [List.filter_cons]
      rw [rule14_keeps_nonwhite (some c) cs]

/-- A child is dropped only between two internal table boxes / captions: one that has no such neighbour on
one side is kept. -/
theorem rule14_keeps_head (prev : Option KBox) (c : KBox) (cs : List KBox)
    (h : (match prev with | some p => Gen.internalTableOrCaption p.kind | none => false) = false ∨
         (match cs with | nx :: _ => Gen.internalTableOrCaption nx.kind | [] => false) = false ∨
         isWhitespace c = false) :
    rule14 prev (c :: cs) = c :: rule14 (some c) cs := by
  have : rule14Drop prev c cs = false := by
    unfold rule14Drop
    cases prev <;> cases cs <;> simp_all
    intro h1 h2
    rcases h with h | h | h
    · rw [h1] at h; cases h
    · rw [h2] at h; cases h
    · exact h
  rw [rule14.eq_2, this]
  rfl

/-- Rule 1.3 removes at most the first and the last child, both white-space text next to an internal table
box; everything else stays as it is. -/
theorem rule13_shape (l : List KBox) : ∃ a b, l = a ++ rule13 l ++ b ∧ a.length ≤ 1 ∧ b.length ≤ 1 ∧
    ∀ c ∈ a ++ b, isWhitespace c = true := by
  unfold rule13
  split
  · -- last, then first
    have hlast : ∃ b, l = rule13Last l ++ b ∧ b.length ≤ 1 ∧ ∀ c ∈ b, isWhitespace c = true := by
      unfold rule13Last
      split
      · rename_i text internal rest hrev
        split
        · rename_i hc
          simp only [Bool.and_eq_true] at hc
          refine ⟨[text], ?_, by simp, ?_⟩
          · have : l = (text :: internal :: rest).reverse := by rw [← hrev, List.reverse_reverse]
            rw [this]
            simp [List.dropLast_concat]
          · intro c hcm; simp only [List.mem_singleton] at hcm; subst hcm; exact hc.2
        · exact ⟨[], by simp, by simp, by simp⟩
      · exact ⟨[], by simp, by simp, by simp⟩
    obtain ⟨b, hb, hbl, hbw⟩ := hlast
    have hfirst : ∃ a, rule13Last l = a ++ rule13First (rule13Last l) ∧ a.length ≤ 1 ∧ ∀ c ∈ a, isWhitespace c = true := by
      generalize rule13Last l = m
      unfold rule13First
      split
      · rename_i text internal rest
        split
        · rename_i hc
          simp only [Bool.and_eq_true] at hc
          exact ⟨[text], by simp, by simp, by intro c hcm; simp only [List.mem_singleton] at hcm; subst hcm; exact hc.2⟩
        · exact ⟨[], by simp, by simp, by simp⟩
      · exact ⟨[], by simp, by simp, by simp⟩
    obtain ⟨a, ha, hal, haw⟩ := hfirst
    refine ⟨a, b, ?_, hal, hbl, ?_⟩
    · rw [← ha]; exact hb
    · intro c hc
      rcases List.mem_append.mp hc with h | h
      · exact haw c h
      · exact hbw c h
  · exact ⟨[], [], by simp, by simp, by simp, by simp⟩

end Wp.Bx
