/-
C13 — lemmas for `Model/PngChunks.lean` (the IDAT extraction of `RasterImage._get_png_data`).
-/
import WpModel.Model.PngChunks
import Mathlib.Tactic.Linarith

set_option linter.unusedVariables false
set_option linter.unusedSimpArgs false

namespace Wp.C13
open Wp Wp.PngChunks

/-- `struct.unpack('!I', …)` reads back what the encoder wrote, for every length a chunk can have. -/
theorem be32_lenBytes (n : Nat) (h : n < 4294967296) :
    be32 (n / 16777216 % 256) (n / 65536 % 256) (n / 256 % 256) (n % 256) = n := by
  unfold be32; omega

/-- A well-formed chunk: four type bytes, four CRC bytes, a length that fits the length field. -/
def Chunk.WF (c : Chunk) : Prop := c.type.length = 4 ∧ c.crc.length = 4 ∧ c.data.length < 4294967296

theorem encodeAll_length (chunks : List Chunk) : chunks.length ≤ (encodeAll chunks).length := by
  induction chunks with
  | nil => simp [encodeAll]
  | cons c rest ih => simp [encodeAll, Chunk.encode, lenBytes]; omega

/-- One iteration of the loop consumes exactly one well-formed chunk and keeps its data iff it is an IDAT. -/
theorem loop_step (fuel : Nat) (c : Chunk) (hc : Chunk.WF c) (tail acc : List Nat) :
    loop (fuel + 1) (c.encode ++ tail) acc =
      loop fuel tail (acc ++ (if c.type == idat then c.data else [])) := by
  obtain ⟨ht, hcrc, hlen⟩ := hc
  have e1 : (c.type ++ (c.data ++ (c.crc ++ tail))).take 4 = c.type := by
    rw [List.take_append_of_le_length (by omega)]; exact List.take_of_length_le (by omega)
  have e2 : (c.type ++ (c.data ++ (c.crc ++ tail))).drop 4 = c.data ++ (c.crc ++ tail) := by
    rw [← ht]; exact List.drop_left
  have e3 : (c.data ++ (c.crc ++ tail)).take c.data.length = c.data := List.take_left
  have e4 : (c.data ++ (c.crc ++ tail)).drop c.data.length = c.crc ++ tail := List.drop_left
  have e5 : (c.crc ++ tail).drop 4 = tail := by rw [← hcrc]; exact List.drop_left
  simp only [Chunk.encode, lenBytes, List.append_assoc, List.cons_append, List.nil_append, loop,
    be32_lenBytes _ hlen, e1, e2, e3, e4, e5]
  by_cases hid : (c.type == idat) = true
  · simp [hid]
  · have : (c.type == idat) = false := by simpa using hid
    simp [this]

theorem loop_chunks : ∀ (chunks : List Chunk) (fuel : Nat) (acc : List Nat),
    (∀ c ∈ chunks, Chunk.WF c) → chunks.length ≤ fuel →
    loop fuel (encodeAll chunks) acc = .ok (acc ++ idatPayload chunks)
  | [], fuel, acc, _, _ => by cases fuel <;> simp [encodeAll, loop, idatPayload]
  | c :: rest, 0, acc, _, hf => by simp at hf
  | c :: rest, fuel + 1, acc, hwf, hf => by
    simp only [encodeAll, idatPayload]
    rw [loop_step fuel c (hwf c (by simp)) (encodeAll rest) acc,
      loop_chunks rest fuel _ (fun c' hc' => hwf c' (by simp [hc'])) (by simpa using hf)]
    simp [List.append_assoc]

end Wp.C13
