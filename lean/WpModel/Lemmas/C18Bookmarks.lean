/-
Helper lemmas for C18 (bookmark tree builder).  Core Lean only.
-/
import WpModel.Model.Outline

namespace Wp.C18
open Wp Wp.Outline Wp.Anchors

/-! ### the skipped-levels stack -/

/-- `len(skipped_levels) + sum(skipped_levels)`: the source level of the deepest open bookmark. -/
def lvl (sk : List Int) : Int := (sk.length : Int) + isum sk

theorem lvl_nil : lvl [] = 0 := by simp [lvl, isum]
theorem lvl_cons (s : Int) (sk : List Int) : lvl (s :: sk) = lvl sk + 1 + s := by
  simp [lvl, isum]; omega

def NonNeg (sk : List Int) : Prop := ∀ s ∈ sk, 0 ≤ s

theorem NonNeg.tail {s : Int} {sk : List Int} (h : NonNeg (s :: sk)) : NonNeg sk :=
  fun x hx => h x (List.mem_cons_of_mem _ hx)

theorem NonNeg.head {s : Int} {sk : List Int} (h : NonNeg (s :: sk)) : 0 ≤ s := h s (by simp)

theorem lvl_nonneg {sk : List Int} (h : NonNeg sk) : 0 ≤ lvl sk := by
  induction sk with
  | nil => simp [lvl_nil]
  | cons s sk ih => rw [lvl_cons]; have := ih h.tail; have := h.head; omega

theorem lvl_pos {s : Int} {sk : List Int} (h : NonNeg (s :: sk)) : lvl sk < lvl (s :: sk) := by
  rw [lvl_cons]; have := h.head; omega

/-- Levels of the open bookmarks, deepest first. -/
def anc : List Int → List Int
  | [] => []
  | s :: sk => lvl (s :: sk) :: anc sk

theorem anc_length (sk : List Int) : (anc sk).length = sk.length := by
  induction sk with
  | nil => rfl
  | cons s sk ih => simp [anc, ih]

/-- The specification of the stack discipline: close every open bookmark whose level is not smaller
than the new one. -/
def popGE (level : Int) : List Int → List Int
  | [] => []
  | a :: rest => if level ≤ a then popGE level rest else a :: rest

/-- Result of `popLoop`: conservation of `temp + lvl`, stop condition, and what it means on levels. -/
theorem popLoop_spec (prev level : Int) :
    ∀ (sk : List Int) (temp : Int), NonNeg sk → temp + lvl sk = level + prev → 0 ≤ level →
      ∃ t r, popLoop prev temp sk = .ok (t, r) ∧ t + lvl r = level + prev ∧ prev ≤ t ∧ NonNeg r ∧
        r.length ≤ sk.length ∧
        ((prev < t ∧ popGE level (anc sk) = anc r) ∨
         (prev = t ∧ popGE (level + 1) (anc sk) = anc r)) := by
  intro sk
  induction sk with
  | nil =>
    intro temp _ heq hl
    simp only [lvl_nil] at heq
    refine ⟨temp, [], ?_, (by simp [lvl_nil]; omega), (by omega), (by intro x hx; cases hx), (by simp), ?_⟩
    · simp only [popLoop]; rw [if_neg (by omega)]
    · by_cases h : prev < temp
      · left; exact ⟨h, rfl⟩
      · right; exact ⟨by omega, rfl⟩
  | cons s sk ih =>
    intro temp hnn heq hl
    have hs := hnn.head
    by_cases hlt : temp < prev
    · -- pop
      obtain ⟨t, r, hr, hc, hp, hn, hlen, hanc⟩ := ih (temp + (1 + s)) hnn.tail (by rw [lvl_cons] at heq; omega) hl
      refine ⟨t, r, ?_, hc, hp, hn, (by simp; omega), ?_⟩
      · simp only [popLoop]; rw [if_pos hlt]; exact hr
      · -- level < lvl (s :: sk): the head of `anc` is popped by both specifications
        have hgt : level < lvl (s :: sk) := by omega
        rcases hanc with ⟨h1, h2⟩ | ⟨h1, h2⟩
        · left; refine ⟨h1, ?_⟩
          simp only [anc, popGE]; rw [if_pos (by omega)]; exact h2
        · right; refine ⟨h1, ?_⟩
          simp only [anc, popGE]; rw [if_pos (by omega)]; exact h2
    · refine ⟨temp, s :: sk, ?_, heq, by omega, hnn, by simp, ?_⟩
      · simp only [popLoop]; rw [if_neg hlt]
      · -- lvl (s :: sk) ≤ level
        by_cases h : prev < temp
        · left; refine ⟨h, ?_⟩
          simp only [anc, popGE]; rw [if_neg (by omega)]
        · right; refine ⟨by omega, ?_⟩
          simp only [anc, popGE]; rw [if_neg (by omega)]

/-- The new `skipped_levels`: never fails on a level ≥ 1, keeps the invariant, and its open levels are
the old ones with every level ≥ the new one closed, plus the new one. -/
theorem adjust_spec (level prev : Int) (sk : List Int) (hnn : NonNeg sk) (hprev : prev = lvl sk)
    (hl : 1 ≤ level) :
    ∃ sk', adjust level prev sk = .ok sk' ∧ NonNeg sk' ∧ lvl sk' = level ∧ 1 ≤ sk'.length ∧
      sk'.length ≤ sk.length + 1 ∧ anc sk' = level :: popGE level (anc sk) := by
  unfold adjust
  by_cases hgt : level > prev
  · rw [if_pos hgt]
    refine ⟨_, rfl, ?_, ?_, by simp, by simp, ?_⟩
    · intro x hx
      rcases List.mem_cons.mp hx with h | h
      · omega
      · exact hnn x h
    · rw [lvl_cons]; omega
    · -- nothing to close: every open level is < level
      have hall : ∀ (l : List Int), NonNeg l → lvl l < level → popGE level (anc l) = anc l := by
        intro l hl1 hl2
        cases l with
        | nil => rfl
        | cons a l => simp only [anc, popGE]; rw [if_neg (by omega)]
      simp only [anc]; rw [lvl_cons, hall sk hnn (by omega)]
      congr 1; omega
  · rw [if_neg hgt]
    obtain ⟨t, r, hr, hc, hp, hn, hlen, hanc⟩ := popLoop_spec prev level sk level hnn (by omega) (by omega)
    rw [hr]
    have key : ∀ (l : List Int), NonNeg l → popGE level (anc l) = anc l → lvl l < level := by
      intro l hl1 hl2
      cases l with
      | nil => simp [lvl_nil]; omega
      | cons a l =>
        simp only [anc, popGE] at hl2
        by_cases hh : level ≤ lvl (a :: l)
        · rw [if_pos hh] at hl2
          -- popGE can only shorten the list
          have : ∀ (m : List Int), (popGE level m).length ≤ m.length := by
            intro m; induction m with
            | nil => simp [popGE]
            | cons x m ihm => simp only [popGE]; split <;> simp <;> omega
          have h3 := this (anc l)
          rw [hl2] at h3; simp at h3; omega
        · omega
    rcases hanc with ⟨h1, h2⟩ | ⟨h1, h2⟩
    · -- too many skips removed: some are added back
      simp only []
      rw [if_pos (by omega)]
      refine ⟨_, rfl, ?_, ?_, (by simp), (by simp; omega), ?_⟩
      · intro x hx
        rcases List.mem_cons.mp hx with h | h
        · omega
        · exact hn x h
      · rw [lvl_cons]; omega
      · simp only [anc]; rw [lvl_cons, h2]; congr 1; omega
    · simp only []
      rw [if_neg (by omega)]
      have hlr : lvl r = level := by omega
      have hpos : 1 ≤ r.length := by
        cases r with
        | nil => simp [lvl_nil] at hlr; omega
        | cons a r => simp
      refine ⟨r, rfl, hn, hlr, hpos, by omega, ?_⟩
      -- popGE (level+1) keeps the head (= level); popGE level removes it as well
      cases r with
      | nil => simp at hpos
      | cons a r =>
        have hmono : ∀ (m : List Int), popGE (level + 1) m = lvl (a :: r) :: anc r →
            popGE level m = popGE level (anc r) := by
          intro m
          induction m with
          | nil => intro h; simp [popGE] at h
          | cons x m ihm =>
            intro h
            simp only [popGE] at h ⊢
            by_cases hx : level + 1 ≤ x
            · rw [if_pos hx] at h; rw [if_pos (by omega)]; exact ihm h
            · rw [if_neg hx] at h
              injection h with hx1 hx2
              rw [if_pos (by omega), hx2]
        simp only [anc] at h2 ⊢
        rw [hmono _ h2]
        have : popGE level (anc r) = anc r := by
          cases r with
          | nil => rfl
          | cons b r =>
            simp only [anc, popGE]
            have := lvl_pos hn
            rw [if_neg (by omega)]
        rw [this, hlr]

/-! ### the zipper of open children lists -/

/-- A bookmark as the pre-order lists it: `(label, target, state)`. -/
abbrev Item := String × Target × String

mutual
/-- Pre-order of a subtree with depths (top level = `d`). -/
def flat (d : Nat) : BTree → List (Nat × Item)
  | .node label target kids state => (d, (label, target, state)) :: flatList (d + 1) kids
def flatList (d : Nat) : List BTree → List (Nat × Item)
  | [] => []
  | t :: ts => flat d t ++ flatList d ts
end

theorem flatList_append (d : Nat) (as bs : List BTree) :
    flatList d (as ++ bs) = flatList d as ++ flatList d bs := by
  induction as with
  | nil => simp [flatList]
  | cons a as ih => simp [flatList, ih]

theorem flatList_singleton (d : Nat) (t : BTree) : flatList d [t] = flat d t := by
  simp [flatList]

/-- Pre-order of everything reachable from `last_by_depth` (frames: deepest first, root list last). -/
def preFrames : List Frame → List (Nat × Item)
  | [] => []
  | f :: rest =>
    preFrames rest ++ (if rest.isEmpty then [] else [(rest.length, (f.label, f.target, f.state))]) ++
      flatList (rest.length + 1) f.kids

theorem closeOne_length (fs : List Frame) (h : 2 ≤ fs.length) : (closeOne fs).length = fs.length - 1 := by
  match fs, h with
  | f :: g :: rest, _ => simp [closeOne]

theorem closeOne_pre (fs : List Frame) : preFrames (closeOne fs) = preFrames fs := by
  match fs with
  | [] => rfl
  | [f] => rfl
  | f :: g :: rest =>
    simp only [closeOne, preFrames, flatList_append, flatList_singleton, flat, List.length_cons,
      List.isEmpty_cons, List.append_assoc]
    simp

theorem closeN_length (n : Nat) (fs : List Frame) (h : n < fs.length) :
    (closeN n fs).length = fs.length - n := by
  induction n generalizing fs with
  | zero => simp [closeN]
  | succ n ih =>
    simp only [closeN]
    rw [ih (closeOne fs) (by rw [closeOne_length fs (by omega)]; omega), closeOne_length fs (by omega)]
    omega

theorem closeN_pre (n : Nat) (fs : List Frame) : preFrames (closeN n fs) = preFrames fs := by
  induction n generalizing fs with
  | zero => rfl
  | succ n ih => simp only [closeN]; rw [ih, closeOne_pre]

theorem rootOf_pre (fs : List Frame) (h : 1 ≤ fs.length) : flatList 1 (rootOf fs) = preFrames fs := by
  unfold rootOf
  have hl := closeN_length (fs.length - 1) fs (by omega)
  have hp := closeN_pre (fs.length - 1) fs
  match hc : closeN (fs.length - 1) fs with
  | [] => rw [hc] at hl; simp at hl; omega
  | [f] => rw [hc] at hp; simp [preFrames] at hp; simpa using hp
  | f :: g :: rest => rw [hc] at hl; simp at hl; omega

/-! ### one step, many steps -/

/-- Invariant of the state between bookmarks. -/
structure Inv (st : BState) : Prop where
  nonneg : NonNeg st.skipped
  prev : st.prev = lvl st.skipped
  frames : st.frames.length = st.skipped.length + 1

theorem Inv.init : Inv BState.init :=
  ⟨(by intro x hx; cases hx), (by simp [BState.init, lvl_nil]), rfl⟩

def entryItem (e : Entry) : Item := (e.label, e.target, e.state)

theorem stepEntry_spec (st : BState) (e : Entry) (hinv : Inv st) (hl : 1 ≤ e.level) :
    ∃ st', stepEntry st e = .ok st' ∧ Inv st' ∧
      anc st'.skipped = e.level :: popGE e.level (anc st.skipped) ∧
      preFrames st'.frames = preFrames st.frames ++ [(st'.skipped.length, entryItem e)] := by
  obtain ⟨sk', hadj, hnn', hlvl', hpos, hle, hanc⟩ :=
    adjust_spec e.level st.prev st.skipped hinv.nonneg hinv.prev hl
  have hdepth : depthOf e.level sk' = .ok sk'.length := by
    unfold depthOf
    have h1 : e.level - isum sk' = (sk'.length : Int) := by unfold lvl at hlvl'; omega
    simp only [h1]
    rw [if_neg (by simp), if_neg (by omega)]
    simp
  have hfl := hinv.frames
  have hplace : place sk'.length e st.frames =
      .ok (⟨e.label, e.target, e.state, []⟩ :: closeN (st.frames.length - sk'.length) st.frames) := by
    unfold place; rw [if_neg (by omega)]
  refine ⟨⟨sk', ⟨e.label, e.target, e.state, []⟩ :: closeN (st.frames.length - sk'.length) st.frames, e.level⟩,
    ?_, ⟨hnn', hlvl'.symm, ?_⟩, hanc, ?_⟩
  · unfold stepEntry; rw [hadj]; simp only []; rw [hdepth]; simp only []; rw [hplace]
  · simp only [List.length_cons]
    rw [closeN_length _ _ (by omega)]; omega
  · have hlen : (closeN (st.frames.length - sk'.length) st.frames).length = sk'.length := by
      rw [closeN_length _ _ (by omega)]; omega
    have hne : (closeN (st.frames.length - sk'.length) st.frames).isEmpty = false := by
      cases hc : closeN (st.frames.length - sk'.length) st.frames with
      | nil => rw [hc] at hlen; simp at hlen; omega
      | cons a l => rfl
    simp only [preFrames, hlen, hne, closeN_pre, flatList, entryItem]
    simp

/-- Depths assigned to a list of levels by the stack discipline, starting from open levels `a`. -/
def specDepths : List Int → List Int → List Nat
  | _, [] => []
  | a, l :: ls => ((popGE l a).length + 1) :: specDepths (l :: popGE l a) ls

theorem runEntries_spec (es : List Entry) :
    ∀ (st : BState), Inv st → (∀ e ∈ es, 1 ≤ e.level) →
      ∃ st', runEntries st es = .ok st' ∧ Inv st' ∧
        preFrames st'.frames = preFrames st.frames ++
          (specDepths (anc st.skipped) (es.map (·.level))).zip (es.map entryItem) := by
  induction es with
  | nil => intro st hinv _; exact ⟨st, rfl, hinv, by simp [specDepths]⟩
  | cons e es ih =>
    intro st hinv hl
    obtain ⟨st1, h1, hinv1, hanc1, hpre1⟩ := stepEntry_spec st e hinv (hl e (by simp))
    obtain ⟨st2, h2, hinv2, hpre2⟩ := ih st1 hinv1 (fun x hx => hl x (by simp [hx]))
    refine ⟨st2, ?_, hinv2, ?_⟩
    · simp only [runEntries]; rw [h1]; exact h2
    · rw [hpre2, hpre1, hanc1]
      have : st1.skipped.length = (popGE e.level (anc st.skipped)).length + 1 := by
        rw [← anc_length st1.skipped, hanc1]; simp
      simp [specDepths, this]

theorem runEntries_append (es fs : List Entry) (st : BState) :
    runEntries st (es ++ fs) = match runEntries st es with
      | .error err => .error err
      | .ok st' => runEntries st' fs := by
  induction es generalizing st with
  | nil => simp [runEntries]
  | cons e es ih =>
    simp only [List.cons_append, runEntries]
    cases stepEntry st e with
    | error err => rfl
    | ok st1 => exact ih st1

/-- All entries of a document, in order (`enumerate(self.pages)` from `n`). -/
def docEntries (scale : Rat) (tp : Bool) : Nat → List BPage → List Entry
  | _, [] => []
  | n, p :: rest =>
    p.bookmarks.map (toEntry (n : Int) (bookmarkMatrix scale tp p.height)) ++ docEntries scale tp (n + 1) rest

/-- Threading the state through the pages is running the loop body over the concatenation. -/
theorem runPages_eq (scale : Rat) (tp : Bool) (pages : List BPage) :
    ∀ (st : BState) (n : Nat), runPages scale tp st n pages = runEntries st (docEntries scale tp n pages) := by
  induction pages with
  | nil => intro st n; rfl
  | cons p rest ih =>
    intro st n
    simp only [runPages, docEntries, makePageBookmarkTree, runEntries_append]
    cases runEntries st (p.bookmarks.map (toEntry (n : Int) (bookmarkMatrix scale tp p.height))) with
    | error err => rfl
    | ok st1 => exact ih st1 (n + 1)

theorem docEntries_levels (scale : Rat) (tp : Bool) (pages : List BPage) (n : Nat) :
    (docEntries scale tp n pages).map (·.level) = (pages.flatMap (·.bookmarks)).map (·.level) := by
  induction pages generalizing n with
  | nil => rfl
  | cons p rest ih => simp [docEntries, ih, toEntry, Function.comp_def]

/-! ### the annotated pre-order determines the forest -/

/-- `rest` is empty or starts at a depth smaller than `d`. -/
def Below (d : Nat) (rest : List (Nat × Item)) : Prop := ∀ x xs, rest = x :: xs → x.1 < d

theorem flat_cons (d : Nat) (t : BTree) : ∃ it tl, flat d t = (d, it) :: tl := by
  cases t with
  | node l tg kids st => exact ⟨(l, tg, st), flatList (d + 1) kids, by simp [flat]⟩

mutual
theorem flat_inj : ∀ (t u : BTree) (d : Nat) (r r' : List (Nat × Item)), Below (d + 1) r → Below (d + 1) r' →
    flat d t ++ r = flat d u ++ r' → t = u ∧ r = r'
  | .node l tg kids st, .node l' tg' kids' st', d, r, r', hb, hb', h => by
    simp only [flat, List.cons_append, List.cons.injEq, Prod.mk.injEq, true_and] at h
    obtain ⟨⟨h1, h2, h3⟩, h4⟩ := h
    obtain ⟨hk, hr⟩ := flatList_inj kids kids' (d + 1) r r' hb hb' h4
    subst h1 h2 h3 hk
    exact ⟨rfl, hr⟩
theorem flatList_inj : ∀ (ts us : List BTree) (d : Nat) (r r' : List (Nat × Item)), Below d r → Below d r' →
    flatList d ts ++ r = flatList d us ++ r' → ts = us ∧ r = r'
  | [], [], _, r, r', _, _, h => by simpa [flatList] using h
  | [], u :: us, d, r, r', hb, _, h => by
    exfalso
    obtain ⟨it, tl, hu⟩ := flat_cons d u
    simp only [flatList, List.nil_append, hu, List.cons_append] at h
    have := hb _ _ h
    simp at this
  | t :: ts, [], d, r, r', _, hb', h => by
    exfalso
    obtain ⟨it, tl, ht⟩ := flat_cons d t
    simp only [flatList, List.nil_append, ht, List.cons_append] at h
    have := hb' _ _ h.symm
    simp at this
  | t :: ts, u :: us, d, r, r', hb, hb', h => by
    simp only [flatList, List.append_assoc] at h
    have hbelow : ∀ (vs : List BTree) (q : List (Nat × Item)), Below d q → Below (d + 1) (flatList d vs ++ q) := by
      intro vs q hq x xs hx
      cases vs with
      | nil => simp only [flatList, List.nil_append] at hx; have := hq x xs hx; omega
      | cons v vs =>
        obtain ⟨it, tl, hv⟩ := flat_cons d v
        simp only [flatList, hv, List.cons_append, List.cons.injEq] at hx
        rw [← hx.1]; simp
    obtain ⟨h1, h2⟩ := flat_inj t u d _ _ (hbelow ts r hb) (hbelow us r' hb') h
    obtain ⟨h3, h4⟩ := flatList_inj ts us d r r' hb hb' h2
    subst h1 h3
    exact ⟨rfl, h4⟩
end

theorem flatList_injective (d : Nat) (ts us : List BTree) (h : flatList d ts = flatList d us) : ts = us := by
  have := flatList_inj ts us d [] [] (by intro x xs hx; cases hx) (by intro x xs hx; cases hx) (by simpa using h)
  exact this.1

mutual
/-- A subtree with its targets erased: labels, states and nesting only. -/
def shape : BTree → BTree
  | .node l _ kids st => .node l ⟨0, 0, 0⟩ (shapeList kids) st
def shapeList : List BTree → List BTree
  | [] => []
  | t :: ts => shape t :: shapeList ts
end

def eraseTarget (x : Nat × Item) : Nat × Item := (x.1, x.2.1, ⟨0, 0, 0⟩, x.2.2.2)

mutual
theorem flat_shape : ∀ (t : BTree) (d : Nat), flat d (shape t) = (flat d t).map eraseTarget
  | .node l tg kids st, d => by
    simp only [shape, flat, List.map_cons, eraseTarget, flatList_shape kids (d + 1)]
theorem flatList_shape : ∀ (ts : List BTree) (d : Nat), flatList d (shapeList ts) = (flatList d ts).map eraseTarget
  | [], _ => rfl
  | t :: ts, d => by
    simp only [shapeList, flatList, List.map_append, flat_shape t d, flatList_shape ts d]
end

end Wp.C18
