/-
Helper lemmas for Props/C11.lean: folds of max / min, filters, the bounds of one loop iteration.
Core Lean only.
-/
import WpModel.Model.Floats

namespace Wp.Floats

theorem maxList_ge_init (x : Rat) (xs : List Rat) : x ≤ maxList x xs := by
  unfold maxList
  induction xs generalizing x with
  | nil => simp
  | cons a as ih =>
    simp only [List.foldl_cons]
    have := ih (max x a)
    grind

theorem maxList_ge_mem (x : Rat) (xs : List Rat) : ∀ a ∈ xs, a ≤ maxList x xs := by
  unfold maxList
  induction xs generalizing x with
  | nil => simp
  | cons b bs ih =>
    intro a ha
    simp only [List.foldl_cons]
    rcases List.mem_cons.mp ha with h | h
    · subst h
      have := maxList_ge_init (max x a) bs
      unfold maxList at this
      grind
    · exact ih (max x b) a h

theorem maxList_mem (x : Rat) (xs : List Rat) : maxList x xs = x ∨ maxList x xs ∈ xs := by
  unfold maxList
  induction xs generalizing x with
  | nil => simp
  | cons b bs ih =>
    simp only [List.foldl_cons]
    rcases ih (max x b) with h | h
    · rw [h]
      by_cases hx : x ≤ b
      · right; simp; left; grind
      · left; grind
    · right; simp [h]

theorem minList_le_init (x : Rat) (xs : List Rat) : minList x xs ≤ x := by
  unfold minList
  induction xs generalizing x with
  | nil => simp
  | cons a as ih =>
    simp only [List.foldl_cons]
    have := ih (min x a)
    grind

theorem minList_le_mem (x : Rat) (xs : List Rat) : ∀ a ∈ xs, minList x xs ≤ a := by
  unfold minList
  induction xs generalizing x with
  | nil => simp
  | cons b bs ih =>
    intro a ha
    simp only [List.foldl_cons]
    rcases List.mem_cons.mp ha with h | h
    · subst h
      have := minList_le_init (min x a) bs
      unfold minList at this
      grind
    · exact ih (min x b) a h

theorem minList_mem (x : Rat) (xs : List Rat) : minList x xs = x ∨ minList x xs ∈ xs := by
  unfold minList
  induction xs generalizing x with
  | nil => simp
  | cons b bs ih =>
    simp only [List.foldl_cons]
    rcases ih (min x b) with h | h
    · rw [h]
      by_cases hx : x ≤ b
      · left; grind
      · right; simp; left; grind
    · right; simp [h]

/-- The minimum of a non-empty list is one of its elements. -/
theorem minList_mem_cons (x : Rat) (xs : List Rat) : minList x xs ∈ x :: xs := by
  rcases minList_mem x xs with h | h
  · simp [h]
  · simp [h]

theorem minList_le_all (x : Rat) (xs : List Rat) : ∀ a ∈ x :: xs, minList x xs ≤ a := by
  intro a ha
  rcases List.mem_cons.mp ha with h | h
  · subst h; exact minList_le_init a xs
  · exact minList_le_mem x xs a h

/-- Strict decrease of a filter count: pointwise implication plus one witness. -/
theorem filter_length_lt {α} (p q : α → Bool) (l : List α)
    (himp : ∀ a ∈ l, p a = true → q a = true) (w : α) (hw : w ∈ l) (hq : q w = true) (hp : p w = false) :
    (l.filter p).length < (l.filter q).length := by
  induction l with
  | nil => simp at hw
  | cons a as ih =>
    have hle : ∀ (l' : List α), (∀ a ∈ l', p a = true → q a = true) →
        (l'.filter p).length ≤ (l'.filter q).length := by
      intro l' h'
      induction l' with
      | nil => simp
      | cons b bs ihb =>
        have hb := h' b (by simp)
        have hbs := ihb (fun a ha => h' a (by simp [ha]))
        simp only [List.filter_cons]
        cases hpb : p b <;> cases hqb : q b <;> simp_all <;> omega
    rcases List.mem_cons.mp hw with h | h
    · subst h
      have := hle as (fun a ha => himp a (by simp [ha]))
      simp [hq, hp]
      omega
    · have ih' := ih (fun a ha => himp a (by simp [ha])) h
      have ha := himp a (by simp)
      simp only [List.filter_cons]
      cases hpa : p a <;> cases hqa : q a <;> simp_all <;> omega

end Wp.Floats
