/-
Lemmas about Model/PdfFile: decimal round trip, the offsets recorded by `writeObjects`, what the file checker
establishes.  Core Lean only.
-/
import WpModel.Model.PdfFile
namespace Wp.PdfFile

theorem natStr_lt (n : Nat) (h : n < 10) : natStr n = [digitChar n] := by
  rw [natStr]; simp [h]

theorem natStr_ge (n : Nat) (h : ¬ n < 10) : natStr n = natStr (n / 10) ++ [digitChar (n % 10)] := by
  rw [natStr]; simp [h]

theorem digitVal_digitChar (d : Nat) (h : d < 10) : digitVal? (digitChar d) = some d := by
  have : d = 0 ∨ d = 1 ∨ d = 2 ∨ d = 3 ∨ d = 4 ∨ d = 5 ∨ d = 6 ∨ d = 7 ∨ d = 8 ∨ d = 9 := by omega
  rcases this with rfl | rfl | rfl | rfl | rfl | rfl | rfl | rfl | rfl | rfl <;> decide

theorem parseNatFrom_append (acc : Nat) (a b : Bytes) :
    parseNatFrom acc (a ++ b) = (parseNatFrom acc a).bind (fun x => parseNatFrom x b) := by
  induction a generalizing acc with
  | nil => simp [parseNatFrom]
  | cons c cs ih =>
    simp only [List.cons_append, parseNatFrom]
    cases digitVal? c with
    | none => simp
    | some d => exact ih _

theorem parseNatFrom_natStr (n acc : Nat) : parseNatFrom acc (natStr n) = some (acc * 10 ^ (natStr n).length + n) := by
  induction n using Nat.strongRecOn generalizing acc with
  | _ n ih =>
    by_cases h : n < 10
    · rw [natStr_lt n h]
      simp [parseNatFrom, digitVal_digitChar n h]
    · rw [natStr_ge n h, parseNatFrom_append, ih (n / 10) (by omega)]
      simp only [Option.bind_some, parseNatFrom, digitVal_digitChar (n % 10) (Nat.mod_lt _ (by omega)),
        List.length_append, List.length_cons, List.length_nil]
      congr 1
      rw [Nat.pow_succ]
      have := Nat.div_add_mod n 10
      rw [Nat.add_mul, Nat.mul_assoc, Nat.add_assoc]
      congr 1
      omega

theorem natStr_ne_nil (n : Nat) : natStr n ≠ [] := by
  by_cases h : n < 10
  · rw [natStr_lt n h]; simp
  · rw [natStr_ge n h]; simp

/-- **Decimal round trip**: what `str(n)` prints reads back as `n`. -/
theorem parseNat_natStr (n : Nat) : parseNat (natStr n) = some n := by
  unfold parseNat
  have := natStr_ne_nil n
  cases hs : natStr n with
  | nil => exact absurd hs this
  | cons c cs =>
    simp only [List.isEmpty_cons, Bool.false_eq_true, if_false]
    rw [← hs, parseNatFrom_natStr]; simp

theorem parseNatFrom_zeros (k acc : Nat) (b : Bytes) :
    parseNatFrom acc (List.replicate k '0' ++ b) = parseNatFrom (acc * 10 ^ k) b := by
  induction k generalizing acc with
  | zero => simp
  | succ k ih =>
    simp only [List.replicate_succ, List.cons_append, parseNatFrom]
    have : digitVal? '0' = some 0 := by decide
    rw [this]
    simp only [Nat.add_zero]
    rw [ih, Nat.pow_succ, Nat.mul_assoc, Nat.mul_comm 10]

/-- … also through zero padding (`f'{offset:010}'`). -/
theorem parseNat_padNat (w n : Nat) : parseNat (padNat w n) = some n := by
  unfold parseNat padNat
  have hne : (List.replicate (w - (natStr n).length) '0' ++ natStr n).isEmpty = false := by
    cases h : natStr n with
    | nil => exact absurd h (natStr_ne_nil n)
    | cons c cs => simp
  rw [hne]
  simp only [Bool.false_eq_true, if_false]
  rw [parseNatFrom_zeros, parseNatFrom_natStr]; simp

theorem writeObjects_length (pos number : Nat) (objs : List PObject) :
    (writeObjects pos number objs).2.length = objs.length := by
  induction objs generalizing pos number with
  | nil => rfl
  | cons o os ih =>
    simp only [writeObjects]
    split <;> simp [ih]

/-- Every in-use object is written, as the line `n g obj … endobj`, exactly at the offset recorded for it. -/
theorem writeObjects_spec (objs : List PObject) (pos number : Nat) (i : Nat) (o : PObject)
    (hi : objs[i]? = some o) (hf : o.free = false) :
    ∃ off, (writeObjects pos number objs).2[i]? = some off ∧ pos ≤ off ∧
      line (indirect (number + i) o) <+: (writeObjects pos number objs).1.drop (off - pos) := by
  induction objs generalizing pos number i with
  | nil => simp at hi
  | cons p ps ih =>
    cases i with
    | zero =>
      simp at hi; subst hi
      simp only [writeObjects, hf]
      exact ⟨pos, by simp, Nat.le_refl _, by simp⟩
    | succ i =>
      simp at hi
      simp only [writeObjects]
      split
      · obtain ⟨off, h1, h2, h3⟩ := ih pos (number + 1) i hi
        refine ⟨off, by simpa using h1, h2, ?_⟩
        have : number + 1 + i = number + (i + 1) := by omega
        rw [this] at h3; exact h3
      · obtain ⟨off, h1, h2, h3⟩ := ih (pos + (line (indirect number p)).length) (number + 1) i hi
        refine ⟨off, by simpa using h1, by omega, ?_⟩
        have e : number + 1 + i = number + (i + 1) := by omega
        rw [e] at h3
        have hd : off - pos = (line (indirect number p)).length + (off - (pos + (line (indirect number p)).length)) := by
          omega
        simp only
        rw [hd, ← List.drop_drop, List.drop_left]
        exact h3

theorem prefix_drop_append_left {α} (a b p : List α) (k : Nat) (h : p <+: b.drop k) :
    p <+: (a ++ b).drop (a.length + k) := by
  rw [← List.drop_drop, List.drop_left]; exact h

theorem prefix_append_right {α} (p a b : List α) (h : p <+: a) : p <+: a ++ b := by
  obtain ⟨t, rfl⟩ := h
  exact ⟨t ++ b, by simp⟩

theorem prefix_drop_append_right {α} (p a b : List α) (k : Nat) (h : p <+: a.drop k) : p <+: (a ++ b).drop k := by
  by_cases hk : k ≤ a.length
  · rw [List.drop_append_of_le_length hk]; exact prefix_append_right _ _ _ h
  · have : a.drop k = [] := List.drop_eq_nil_of_le (by omega)
    rw [this] at h
    have : p = [] := List.prefix_nil.mp h
    subst this; exact List.nil_prefix

/-- **xref_offsets_correct**: in the file `PDF.write` produces, for every list of objects, versions and trailer
options, the offset recorded for in-use object number `i` (and printed in cross-reference entry `i`) is the position
of the bytes `i g obj\n…\nendobj\n` of that very object. -/
theorem writeFile_offsets (version : Bytes) (objs : List PObject) (t : Trailer) (i : Nat) (o : PObject)
    (hi : objs[i]? = some o) (hf : o.free = false) :
    ∃ off, (writeFile version objs t).offsets[i]? = some off ∧
      line (indirect i o) <+: (writeFile version objs t).bytes.drop off := by
  obtain ⟨off, h1, h2, h3⟩ := writeObjects_spec objs (fileHeader version).length 0 i o hi hf
  refine ⟨off, h1, ?_⟩
  simp only [Nat.zero_add] at h3
  simp only [writeFile]
  have hoff : off = (fileHeader version).length + (off - (fileHeader version).length) := by omega
  rw [hoff, List.append_assoc, List.append_assoc]
  apply prefix_drop_append_left
  exact prefix_drop_append_right _ _ _ _ h3

/-- `startxref` points at the `xref` keyword line. -/
theorem writeFile_xref_position (version : Bytes) (objs : List PObject) (t : Trailer) :
    line (str "xref") <+: (writeFile version objs t).bytes.drop (writeFile version objs t).xrefPos := by
  simp only [writeFile]
  rw [List.append_assoc, List.append_assoc, ← List.length_append, ← List.append_assoc]
  rw [List.drop_left]
  exact ⟨_, by simp only [List.append_assoc]; rfl⟩

theorem startsWith_iff (b p : Bytes) : startsWith b p = true ↔ p <+: b := by
  induction p generalizing b with
  | nil => simp [startsWith]
  | cons c cs ih =>
    cases b with
    | nil => simp [startsWith]
    | cons d ds =>
      simp only [startsWith, Bool.and_eq_true, beq_iff_eq, ih, List.cons_prefix_cons]
      constructor
      · rintro ⟨rfl, h⟩; exact ⟨rfl, h⟩
      · rintro ⟨rfl, h⟩; exact ⟨rfl, h⟩

/-- `splitLine` cuts at the first line feed. -/
theorem splitLine_spec (b : Bytes) :
    '\n' ∉ (splitLine b).1 ∧ (b = (splitLine b).1 ++ '\n' :: (splitLine b).2 ∨ (b = (splitLine b).1 ∧ (splitLine b).2 = [])) := by
  induction b with
  | nil => simp [splitLine]
  | cons c cs ih =>
    simp only [splitLine]
    split
    · rename_i h; subst h; simp
    · rename_i h
      obtain ⟨h1, h2⟩ := ih
      refine ⟨by simp [h1]; exact fun e => h e.symm, ?_⟩
      rcases h2 with h2 | ⟨h2, h3⟩
      · left; simp only [List.cons_append]; rw [← h2]
      · right; exact ⟨by simp only; rw [← h2], h3⟩

/-- What the checker establishes about the cross-reference entries. -/
theorem checkEntries_sound (file : Bytes) (count number : Nat) (table : Bytes)
    (h : checkEntries file count number table = true) :
    ∀ i, i < count → ∃ off gen free, parseEntry (table.drop (20 * i)) = some (off, gen, free) ∧
      (free = false → header (number + i) gen <+: file.drop off) := by
  induction count generalizing number table with
  | zero => intro i hi; omega
  | succ count ih =>
    intro i hi
    simp only [checkEntries] at h
    cases hp : parseEntry table with
    | none => rw [hp] at h; simp at h
    | some e =>
      obtain ⟨off, gen, free⟩ := e
      rw [hp] at h
      simp only [Bool.and_eq_true, Bool.or_eq_true] at h
      cases i with
      | zero =>
        refine ⟨off, gen, free, by simpa using hp, ?_⟩
        intro hf
        rcases h.1 with h1 | h1
        · rw [hf] at h1; cases h1
        · simpa using (startsWith_iff _ _).mp h1
      | succ i =>
        obtain ⟨off', gen', free', h1, h2⟩ := ih (number + 1) (table.drop 20) h.2 i (by omega)
        refine ⟨off', gen', free', ?_, ?_⟩
        · rw [List.drop_drop] at h1
          have : 20 * (i + 1) = 20 + 20 * i := by omega
          rw [this]; exact h1
        · intro hf
          have := h2 hf
          have e : number + 1 + i = number + (i + 1) := by omega
          rw [e] at this; exact this

/-- The end of an accepted file is `startxref\n<digits>\n%%EOF\n`. -/
theorem parseTail_sound (f : Bytes) (x : Nat) (h : parseTail f = some x) :
    ∃ pre digits, f = pre ++ str "startxref" ++ '\n' :: digits ++ str "\n%%EOF\n" ∧ parseNat digits = some x := by
  unfold parseTail at h
  split at h
  · rename_i rest hrev
    simp only at h
    split at h
    · rename_i hsw
      have hs := (splitLine_spec rest).2
      generalize (splitLine rest).1 = a at hs h
      generalize (splitLine rest).2 = b at hs hsw
      obtain ⟨t, ht⟩ := (startsWith_iff _ _).mp hsw
      rcases hs with hs | ⟨_, hs⟩
      · refine ⟨t.reverse, a.reverse, ?_, h⟩
        have hf : f = f.reverse.reverse := by simp
        rw [hf, hrev, hs, ← ht]
        simp [str, List.reverse_append]
      · rw [hs] at ht
        have : (str "startxref").reverse ++ t ≠ [] := by simp [str]
        exact absurd ht this
    · simp at h
  · simp at h

theorem splitLine_line (a r : Bytes) (h : '\n' ∉ a) : splitLine (a ++ '\n' :: r) = (a, r) := by
  induction a with
  | nil => simp [splitLine]
  | cons c cs ih =>
    have hc : c ≠ '\n' := fun e => h (by simp [e])
    have hcs : '\n' ∉ cs := fun e => h (by simp [e])
    simp only [List.cons_append, splitLine, hc, if_false, ih hcs]

theorem digitChar_is_digit (d : Nat) : digitVal? (digitChar d) = some (d % 10) := by
  have h : d % 10 < 10 := Nat.mod_lt _ (by omega)
  have : digitChar d = digitChar (d % 10) := by simp [digitChar]
  rw [this]; exact digitVal_digitChar _ h

theorem natStr_digits (n : Nat) : ∀ c ∈ natStr n, (digitVal? c).isSome = true := by
  induction n using Nat.strongRecOn with
  | _ n ih =>
    intro c hc
    by_cases h : n < 10
    · rw [natStr_lt n h] at hc
      simp at hc; subst hc; simp [digitChar_is_digit]
    · rw [natStr_ge n h] at hc
      rcases List.mem_append.mp hc with h1 | h1
      · exact ih (n / 10) (by omega) c h1
      · simp at h1; subst h1; simp [digitChar_is_digit]

theorem nl_not_digit : (digitVal? '\n').isSome = false := by decide

theorem natStr_no_nl (n : Nat) : '\n' ∉ natStr n := by
  intro h
  have := natStr_digits n _ h
  rw [nl_not_digit] at this; cases this

theorem natStr_length_le (w n : Nat) (hw : 0 < w) (h : n < 10 ^ w) : (natStr n).length ≤ w := by
  induction w generalizing n with
  | zero => omega
  | succ w ih =>
    by_cases h10 : n < 10
    · rw [natStr_lt n h10]; simp
    · rw [natStr_ge n h10]
      simp only [List.length_append, List.length_cons, List.length_nil]
      have hw' : 0 < w := by
        cases w with
        | zero => simp at h; omega
        | succ w => omega
      have : n / 10 < 10 ^ w := by
        rw [Nat.pow_succ] at h
        exact Nat.div_lt_of_lt_mul (by rw [Nat.mul_comm]; exact h)
      have := ih (n / 10) hw' this
      omega

theorem padNat_length (w n : Nat) (hw : 0 < w) (h : n < 10 ^ w) : (padNat w n).length = w := by
  have := natStr_length_le w n hw h
  simp [padNat]; omega

theorem len5 {α} (l : List α) (h : l.length = 5) : ∃ a b c d e, l = [a, b, c, d, e] := by
  match l, h with
  | [a, b, c, d, e], _ => exact ⟨a, b, c, d, e, rfl⟩

theorem len10 {α} (l : List α) (h : l.length = 10) :
    ∃ a b c d e f g x y z, l = [a, b, c, d, e, f, g, x, y, z] := by
  match l, h with
  | [a, b, c, d, e, f, g, x, y, z], _ => exact ⟨a, b, c, d, e, f, g, x, y, z, rfl⟩

theorem parseEntry_entry (p10 p5 rest : Bytes) (k : Char) (off gen : Nat) (h10 : p10.length = 10) (h5 : p5.length = 5)
    (ho : parseNat p10 = some off) (hg : parseNat p5 = some gen) :
    parseEntry ((p10 ++ ' ' :: p5 ++ ' ' :: k :: [' ']) ++ ['\n'] ++ rest) =
      if k = 'n' then some (off, gen, false) else if k = 'f' then some (off, gen, true) else none := by
  obtain ⟨a0, a1, a2, a3, a4, a5, a6, a7, a8, a9, rfl⟩ := len10 p10 h10
  obtain ⟨b0, b1, b2, b3, b4, rfl⟩ := len5 p5 h5
  simp only [parseEntry, List.cons_append, List.nil_append, List.take, List.drop, List.length, ne_eq,
    List.getElem?_cons_zero, List.getElem?_cons_succ]
  simp [ho, hg]

theorem xrefEntry_length (off : Nat) (o : PObject) (ho : off < 10 ^ 10) (hg : o.generation < 10 ^ 5) :
    (xrefEntry off o).length = 20 := by
  simp [xrefEntry, line, padNat_length 10 off (by omega) ho, padNat_length 5 o.generation (by omega) hg]

theorem checkEntries_written (file : Bytes) (objs : List PObject) (offs : List Nat) (number : Nat) (rest : Bytes)
    (hlen : offs.length = objs.length)
    (hoff : ∀ off ∈ offs, off < 10 ^ 10) (hgen : ∀ o ∈ objs, o.generation < 10 ^ 5)
    (hhead : ∀ i o off, objs[i]? = some o → offs[i]? = some off → o.free = false →
      header (number + i) o.generation <+: file.drop off) :
    checkEntries file objs.length number (xrefEntries offs objs ++ rest) = true := by
  induction objs generalizing offs number with
  | nil => simp [checkEntries]
  | cons o os ih =>
    cases offs with
    | nil => simp at hlen
    | cons off offs =>
      have ho := hoff off List.mem_cons_self
      have hg := hgen o List.mem_cons_self
      simp only [xrefEntries, List.length_cons, checkEntries]
      have hentry : xrefEntry off o ++ xrefEntries offs os ++ rest =
          (padNat 10 off ++ ' ' :: padNat 5 o.generation ++ ' ' :: (if o.free then 'f' else 'n') :: [' ']) ++ ['\n'] ++
            (xrefEntries offs os ++ rest) := by
        simp [xrefEntry, line]
      rw [hentry, parseEntry_entry _ _ _ _ off o.generation (padNat_length 10 off (by omega) ho)
        (padNat_length 5 o.generation (by omega) hg) (parseNat_padNat 10 off) (parseNat_padNat 5 o.generation)]
      have hdrop : ((padNat 10 off ++ ' ' :: padNat 5 o.generation ++ ' ' :: (if o.free then 'f' else 'n') :: [' ']) ++
          ['\n'] ++ (xrefEntries offs os ++ rest)).drop 20 = xrefEntries offs os ++ rest := by
        have := xrefEntry_length off o ho hg
        rw [← hentry, List.append_assoc, ← this, List.drop_left]
      have hrec := ih offs (number + 1) (by simpa using hlen)
        (fun x hx => hoff x (List.mem_cons_of_mem _ hx)) (fun x hx => hgen x (List.mem_cons_of_mem _ hx))
        (fun i p q h1 h2 h3 => by
          have := hhead (i + 1) p q (by simpa using h1) (by simpa using h2) h3
          have e : number + (i + 1) = number + 1 + i := by omega
          rw [e] at this; exact this)
      cases hf : o.free
      · simp only [Bool.false_eq_true, if_false, if_true, Bool.false_or, Bool.and_eq_true]
        refine ⟨(startsWith_iff _ _).mpr ?_, ?_⟩
        · simpa using hhead 0 o off (by simp) (by simp) hf
        · rw [hf] at hdrop; simp only [Bool.false_eq_true, if_false] at hdrop; rw [hdrop]; exact hrec
      · have hk : ('f' : Char) ≠ 'n' := by decide
        simp only [if_true, hk, if_false, Bool.true_or, Bool.true_and]
        rw [hf] at hdrop; simp only [if_true] at hdrop; rw [hdrop]; exact hrec

theorem parseTail_written (pre : Bytes) (x : Nat) :
    parseTail (pre ++ line (str "startxref") ++ line (natStr x) ++ line (str "%%EOF")) = some x := by
  unfold parseTail
  have hrev : (pre ++ line (str "startxref") ++ line (natStr x) ++ line (str "%%EOF")).reverse =
      '\n' :: 'F' :: 'O' :: 'E' :: '%' :: '%' :: '\n' ::
        ((natStr x).reverse ++ '\n' :: ((str "startxref").reverse ++ pre.reverse)) := by
    simp [line, str, List.reverse_append]
  rw [hrev]
  simp only
  rw [splitLine_line _ _ (by simpa using natStr_no_nl x)]
  simp only [List.reverse_reverse]
  have : startsWith ((str "startxref").reverse ++ pre.reverse) (str "startxref").reverse = true :=
    (startsWith_iff _ _).mpr ⟨_, rfl⟩
  rw [this]
  simp [parseNat_natStr]

/-- A line equal to `l` among the first lines. -/
theorem containsLine_skip (l a rest : Bytes) (fuel : Nat) (ha : '\n' ∉ a) (hne : a ≠ l)
    (h : containsLine l rest fuel = true) : containsLine l (line a ++ rest) (fuel + 1) = true := by
  simp only [containsLine, line, List.append_assoc, List.cons_append, List.nil_append]
  have : (a ++ '\n' :: rest).isEmpty = false := by cases a <;> simp
  rw [this, splitLine_line a rest ha]
  simp only [Bool.false_eq_true, if_false, Bool.or_eq_true, beq_iff_eq]
  right; exact h

theorem containsLine_here (l rest : Bytes) (fuel : Nat) (hl : '\n' ∉ l) :
    containsLine l (line l ++ rest) (fuel + 1) = true := by
  simp only [containsLine, line, List.append_assoc, List.cons_append, List.nil_append]
  have : (l ++ '\n' :: rest).isEmpty = false := by cases l <;> simp
  rw [this, splitLine_line l rest hl]
  simp


theorem xrefEntries_length (objs : List PObject) (offs : List Nat) (hlen : offs.length = objs.length)
    (hoff : ∀ off ∈ offs, off < 10 ^ 10) (hgen : ∀ o ∈ objs, o.generation < 10 ^ 5) :
    (xrefEntries offs objs).length = 20 * objs.length := by
  induction objs generalizing offs with
  | nil => cases offs <;> simp [xrefEntries]
  | cons o os ih =>
    cases offs with
    | nil => simp at hlen
    | cons off offs =>
      simp only [xrefEntries, List.length_append, List.length_cons]
      rw [xrefEntry_length off o (hoff off List.mem_cons_self) (hgen o List.mem_cons_self),
        ih offs (by simpa using hlen) (fun x hx => hoff x (List.mem_cons_of_mem _ hx))
          (fun x hx => hgen x (List.mem_cons_of_mem _ hx))]
      omega

theorem header_prefix_indirect (i : Nat) (o : PObject) : header i o.generation <+: line (indirect i o) :=
  ⟨o.data ++ str "\nendobj" ++ ['\n'], by simp [line, indirect, List.append_assoc]⟩

/-- **The checker accepts everything the writer model produces** (files below 10 GB, generations below 100000 — the
widths of the fixed-size table entries), with the right object count and table position. -/
theorem checkFile_writeFile (version : Bytes) (objs : List PObject) (t : Trailer)
    (hoff : ∀ off ∈ (writeFile version objs t).offsets, off < 10 ^ 10)
    (hgen : ∀ o ∈ objs, o.generation < 10 ^ 5) :
    checkFile (writeFile version objs t).bytes = some (objs.length, (writeFile version objs t).xrefPos) := by
  have hoffs := writeFile_offsets version objs t
  have hlen : (writeFile version objs t).offsets.length = objs.length := writeObjects_length _ _ _
  -- name the pieces
  generalize hw : writeFile version objs t = w at hoff hoffs hlen
  have hbytes : w.bytes = fileHeader version ++ (writeObjects (fileHeader version).length 0 objs).1 ++
      (line (str "xref") ++ line ('0' :: ' ' :: natStr objs.length) ++ xrefEntries w.offsets objs) ++
      trailerLines objs.length t w.xrefPos := by rw [← hw]; rfl
  have hx : w.xrefPos = (fileHeader version ++ (writeObjects (fileHeader version).length 0 objs).1).length := by
    rw [← hw]; simp [writeFile]
  generalize hH : fileHeader version ++ (writeObjects (fileHeader version).length 0 objs).1 = HB at hbytes hx
  -- the trailer, split after `/Size` and before its last three lines
  have hmid : trailerLines objs.length t w.xrefPos =
      line (str "trailer") ++ (line (str "<<") ++ (line (str "/Size " ++ natStr objs.length) ++ (trailerMid t ++
        (line (str "startxref") ++ (line (natStr w.xrefPos) ++ line (str "%%EOF")))))) := rfl
  have hpre : trailerLines objs.length t w.xrefPos =
      (line (str "trailer") ++ (line (str "<<") ++ (line (str "/Size " ++ natStr objs.length) ++ trailerMid t))) ++
        line (str "startxref") ++ line (natStr w.xrefPos) ++ line (str "%%EOF") := by
    rw [hmid]; simp only [List.append_assoc]
  unfold checkFile
  -- 1 header
  have h1 : startsWith w.bytes (str "%PDF-") = true := by
    apply (startsWith_iff _ _).mpr
    have hp : str "%PDF-" <+: fileHeader version :=
      ⟨version ++ ['\n'] ++ line ['%', Char.ofNat 0xf0, Char.ofNat 0x9f, Char.ofNat 0x96, Char.ofNat 0xa4], by
        simp [fileHeader, line, List.append_assoc]⟩
    rw [hbytes, ← hH]
    exact prefix_append_right _ _ _ (prefix_append_right _ _ _ (prefix_append_right _ _ _ hp))
  rw [h1]
  simp only [Bool.not_true, Bool.false_eq_true, if_false]
  -- 2 tail
  have h2 : parseTail w.bytes = some w.xrefPos := by
    rw [hbytes, hpre]
    have := parseTail_written (HB ++ (line (str "xref") ++ line ('0' :: ' ' :: natStr objs.length) ++
      xrefEntries w.offsets objs) ++ (line (str "trailer") ++ (line (str "<<") ++
        (line (str "/Size " ++ natStr objs.length) ++ trailerMid t)))) w.xrefPos
    simpa only [List.append_assoc] using this
  rw [h2]
  simp only
  -- 3 the table
  have h3 : w.bytes.drop w.xrefPos = line (str "xref") ++ (line ('0' :: ' ' :: natStr objs.length) ++
      (xrefEntries w.offsets objs ++ trailerLines objs.length t w.xrefPos)) := by
    rw [hbytes, hx, List.append_assoc, List.append_assoc, List.drop_left]
    simp [List.append_assoc]
  rw [h3]
  have hxref : '\n' ∉ str "xref" := by decide
  rw [show line (str "xref") ++ (line ('0' :: ' ' :: natStr objs.length) ++
      (xrefEntries w.offsets objs ++ trailerLines objs.length t w.xrefPos)) =
      str "xref" ++ '\n' :: (line ('0' :: ' ' :: natStr objs.length) ++
      (xrefEntries w.offsets objs ++ trailerLines objs.length t w.xrefPos)) by simp [line],
    splitLine_line _ _ hxref]
  simp only [ne_eq, not_true_eq_false, if_false]
  have hsub : '\n' ∉ ('0' :: ' ' :: natStr objs.length) := by
    simp only [List.mem_cons, not_or]
    exact ⟨by decide, by decide, natStr_no_nl _⟩
  rw [show line ('0' :: ' ' :: natStr objs.length) ++
      (xrefEntries w.offsets objs ++ trailerLines objs.length t w.xrefPos) =
      ('0' :: ' ' :: natStr objs.length) ++ '\n' :: (xrefEntries w.offsets objs ++
        trailerLines objs.length t w.xrefPos) by simp [line],
    splitLine_line _ _ hsub]
  simp only [startsWith, beq_self_eq_true, Bool.and_self, Bool.not_true, Bool.false_eq_true, if_false, List.drop,
    parseNat_natStr]
  -- 4 entries
  have h4 : checkEntries w.bytes objs.length 0 (xrefEntries w.offsets objs ++ trailerLines objs.length t w.xrefPos) =
      true := by
    apply checkEntries_written w.bytes objs w.offsets 0 _ hlen hoff hgen
    intro i o off hi ho hf
    obtain ⟨off', h5, h6⟩ := hoffs i o hi hf
    rw [ho] at h5; cases h5
    simp only [Nat.zero_add]
    exact List.IsPrefix.trans (header_prefix_indirect i o) h6
  rw [h4]
  simp only [Bool.not_true, Bool.false_eq_true, if_false]
  -- 5 trailer
  have h5 : (xrefEntries w.offsets objs ++ trailerLines objs.length t w.xrefPos).drop (20 * objs.length) =
      trailerLines objs.length t w.xrefPos := by
    rw [← xrefEntries_length objs w.offsets hlen hoff hgen, List.drop_left]
  rw [h5, hmid]
  generalize trailerMid t ++ (line (str "startxref") ++ (line (natStr w.xrefPos) ++ line (str "%%EOF"))) = mid
  have h6 : startsWith (line (str "trailer") ++ (line (str "<<") ++ (line (str "/Size " ++ natStr objs.length) ++ mid)))
      (str "trailer\n") = true :=
    (startsWith_iff _ _).mpr ⟨line (str "<<") ++ (line (str "/Size " ++ natStr objs.length) ++ mid), by
      simp [line, str, List.append_assoc]⟩
  rw [h6]
  simp only [Bool.not_true, Bool.false_eq_true, if_false]
  have hsize : '\n' ∉ str "/Size " ++ natStr objs.length := by
    simp only [List.mem_append, not_or]
    exact ⟨by decide, natStr_no_nl _⟩
  have h7 : containsLine (str "/Size " ++ natStr objs.length)
      (line (str "trailer") ++ (line (str "<<") ++ (line (str "/Size " ++ natStr objs.length) ++ mid))) 64 = true := by
    apply containsLine_skip _ _ _ 63 (by decide) (by simp [str])
    apply containsLine_skip _ _ _ 62 (by decide) (by simp [str])
    exact containsLine_here _ _ 61 hsize
  rw [h7]
  simp

end Wp.PdfFile
