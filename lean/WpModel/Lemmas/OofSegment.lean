/-
Lemmas for the conservation / progress theorems of the extended model: list arithmetic of
`linesFromKids` / `posKids` with out-of-flow children, `Full`, `find_earlier_page_break` on paragraphs.
-/
import WpModel.Lemmas.OofDefs
import WpModel.Lemmas.Segment

namespace Wp.PMO
open Wp Wp.PM

/-! ### `withIdx`, `withSer`, `translate` keep what matters -/

@[simp] theorem fragLines_withIdx (f : OFrag) (i : Nat) : fragLines (f.withIdx i) = fragLines f := by
  cases f <;> simp [OFrag.withIdx, fragLines]

@[simp] theorem idx_withIdx (f : OFrag) (i : Nat) : (f.withIdx i).idx = i := by
  cases f <;> rfl

@[simp] theorem inFlow_withIdx (f : OFrag) (i : Nat) : (f.withIdx i).inFlow = f.inFlow := by
  cases f <;> rfl

@[simp] theorem inFlow_withSer (f : OFrag) (i : Nat) : (f.withSer i).inFlow = f.inFlow := by
  cases f <;> rfl

@[simp] theorem inFlow_translate (f : OFrag) (dy : Rat) : (f.translate dy).inFlow = f.inFlow := by
  cases f <;> simp [OFrag.translate, OFrag.inFlow]

@[simp] theorem idx_translate (f : OFrag) (dy : Rat) : (f.translate dy).idx = f.idx := by
  cases f <;> simp [OFrag.translate, OFrag.idx]

theorem full_withIdx (f : OFrag) (i : Nat) (b : OBox) (σ : Option Resume) (h : Full f b σ) :
    Full (f.withIdx i) b σ := by
  cases f <;> cases b <;> simp only [OFrag.withIdx, Full] at h ⊢ <;> exact h

/-! ### list arithmetic of `linesFromKids`, `posKids` -/

theorem linesFromKids_nil (k : Nat) (s : Option Resume) : linesFromKids [] k s = [] := by
  simp [linesFromKids]

theorem linesFromKids_append_lt (B R : List OBox) (m : Nat) (s : Option Resume) (h : m < B.length) :
    linesFromKids (B ++ R) m s = linesFromKids B m s ++ linesFromKids R 0 none := by
  induction B generalizing m s with
  | nil => simp at h
  | cons b B ih =>
    cases m with
    | zero =>
      simp only [List.cons_append, linesFromKids, List.append_assoc]
      cases B with
      | nil => simp [linesFromKids]
      | cons b' B' => rw [ih 0 none (by simp)]
    | succ m =>
      simp only [List.cons_append, linesFromKids]
      exact ih m s (by simpa using h)

theorem linesFromKids_append_len (B R : List OBox) (k : Nat) (s : Option Resume) :
    linesFromKids (B ++ R) (B.length + k) s = linesFromKids R k s := by
  induction B with
  | nil => simp
  | cons b B ih =>
    have : (b :: B).length + k = (B.length + k) + 1 := by simp; omega
    rw [this]
    simp only [List.cons_append, linesFromKids]
    exact ih

theorem linesFromKids_drop (kids : List OBox) (k0 m : Nat) (s : Option Resume) :
    linesFromKids kids (k0 + m) s = linesFromKids (kids.drop k0) m s := by
  induction kids generalizing k0 with
  | nil => simp [linesFromKids]
  | cons b bs ih =>
    cases k0 with
    | zero => simp
    | succ k0 =>
      have : k0 + 1 + m = (k0 + m) + 1 := by omega
      rw [this]
      simp only [linesFromKids, List.drop_succ_cons]
      exact ih k0

mutual
theorem pos_lt_size : (b : OBox) → (σ : Option Resume) → pos b σ < size b
  | .para _ n _ _, σ => by
    simp only [pos, size]; omega
  | .block _ _ kids, σ => by
    simp only [pos, size]
    have := posKids_le kids (skipIdxOf σ) (subSkipOf σ)
    omega
theorem posKids_le : (bs : List OBox) → (k : Nat) → (s : Option Resume) → posKids bs k s ≤ sizeList bs
  | [], k, s => by simp [posKids, sizeList]
  | b :: bs, 0, s => by
    simp only [posKids, sizeList]
    have := pos_lt_size b s
    split <;> omega
  | b :: bs, k + 1, s => by
    simp only [posKids, sizeList]
    have := posKids_le bs k s
    omega
end

theorem posKids_lt (B : List OBox) (m : Nat) (s : Option Resume) (h : m < B.length) :
    posKids B m s < sizeList B := by
  induction B generalizing m with
  | nil => simp at h
  | cons b B ih =>
    cases m with
    | zero =>
      simp only [posKids, sizeList]
      have := pos_lt_size b s
      split <;> omega
    | succ m =>
      simp only [posKids, sizeList]
      have := ih m (by simpa using h)
      omega

theorem posKids_append_lt (B R : List OBox) (m : Nat) (s : Option Resume) (h : m < B.length) :
    posKids (B ++ R) m s = posKids B m s := by
  induction B generalizing m with
  | nil => simp at h
  | cons b B ih =>
    cases m with
    | zero => simp [posKids]
    | succ m =>
      simp only [List.cons_append, posKids]
      rw [ih m (by simpa using h)]

theorem posKids_append_len (B R : List OBox) (k : Nat) (s : Option Resume) :
    posKids (B ++ R) (B.length + k) s = sizeList B + posKids R k s := by
  induction B with
  | nil => simp [sizeList]
  | cons b B ih =>
    have : (b :: B).length + k = (B.length + k) + 1 := by simp; omega
    rw [this]
    simp only [List.cons_append, posKids, sizeList]
    rw [ih]; omega

theorem posKids_drop (kids : List OBox) (k0 m : Nat) (s : Option Resume) :
    posKids kids (k0 + m) s = sizeList (kids.take k0) + posKids (kids.drop k0) m s := by
  induction kids generalizing k0 with
  | nil => simp [posKids, sizeList]
  | cons b bs ih =>
    cases k0 with
    | zero => simp [sizeList]
    | succ k0 =>
      have : k0 + 1 + m = (k0 + m) + 1 := by omega
      rw [this]
      simp only [posKids, List.drop_succ_cons, List.take_succ_cons, sizeList]
      rw [ih k0]; omega

theorem wfSkipKids_drop (kids : List OBox) (k0 m : Nat) (s : Option Resume) :
    WfSkipKids kids (k0 + m) s ↔ WfSkipKids (kids.drop k0) m s := by
  induction kids generalizing k0 with
  | nil => simp [WfSkipKids]
  | cons b bs ih =>
    cases k0 with
    | zero => simp
    | succ k0 =>
      have : k0 + 1 + m = (k0 + m) + 1 := by omega
      rw [this]
      simp only [WfSkipKids, List.drop_succ_cons]
      exact ih k0

theorem wfSkipKids_append_lt (B R : List OBox) (m : Nat) (s : Option Resume) (h : m < B.length) :
    WfSkipKids (B ++ R) m s ↔ WfSkipKids B m s := by
  induction B generalizing m with
  | nil => simp at h
  | cons b B ih =>
    cases m with
    | zero => simp [WfSkipKids]
    | succ m =>
      simp only [List.cons_append, WfSkipKids]
      exact ih m (by simpa using h)

theorem wfSkipKids_append_len (B R : List OBox) (k : Nat) (s : Option Resume) :
    WfSkipKids (B ++ R) (B.length + k) s ↔ WfSkipKids R k s := by
  induction B with
  | nil => simp
  | cons b B ih =>
    have : (b :: B).length + k = (B.length + k) + 1 := by simp; omega
    rw [this]
    simp only [List.cons_append, WfSkipKids]
    exact ih

theorem wfSkipKids_none (bs : List OBox) (k : Nat) : WfSkipKids bs k none := by
  induction bs generalizing k with
  | nil => simp [WfSkipKids]
  | cons b bs ih =>
    cases k with
    | zero =>
      simp only [WfSkipKids]
      split
      · cases b <;> simp [WfSkip, WfSkipKids]
        rename_i id st kids _
        -- a block resumed at `none`: its first child at `none`
        exact wfBlockNone kids
      · trivial
    | succ k => simpa [WfSkipKids] using ih k
where
  wfBlockNone : (kids : List OBox) → WfSkipKids kids 0 none
    | [] => by simp [WfSkipKids]
    | b :: bs => by
      simp only [WfSkipKids]
      split
      · cases b with
        | para _ _ _ _ => simp [WfSkip]
        | block _ _ kids => simp only [WfSkip, skipIdxOf_none, subSkipOf_none]; exact wfBlockNone kids
      · trivial

theorem wfSkip_none (b : OBox) : WfSkip b none := by
  cases b with
  | para _ _ _ _ => simp [WfSkip]
  | block _ _ kids => simp only [WfSkip, skipIdxOf_none, subSkipOf_none]; exact wfSkipKids_none kids 0

/-! ### `Full` -/

theorem fullFrom_length (fs : List OFrag) (bs : List OBox) (i : Nat) (sub : Option Resume)
    (h : FullFrom fs bs i sub) : fs.length = bs.length := by
  induction fs generalizing bs i sub with
  | nil => simp [FullFrom] at h; simp [h]
  | cons f fs ih =>
    cases bs with
    | nil => simp [FullFrom] at h
    | cons b bs =>
      simp only [FullFrom] at h
      simp [ih bs _ _ h.2.2.2]

mutual
theorem full_lines : (f : OFrag) → (b : OBox) → (σ : Option Resume) → Full f b σ → fragLines f = linesFrom b σ
  | .para _ id _ st n _ lines, b, σ => by
    intro h
    cases b with
    | block _ _ _ => simp [Full] at h
    | para id' n' lh st' =>
      simp only [Full] at h
      obtain ⟨rfl, rfl, rfl, hl⟩ := h
      simp only [fragLines, linesFrom]
      exact paraLines_eq _ _ _ _ hl
  | .block _ _ _ _ _ fs, b, σ => by
    intro h
    cases b with
    | para _ _ _ _ => simp [Full] at h
    | block id' st' kids =>
      simp only [Full] at h
      simp only [fragLines, linesFrom]
      rw [fullFrom_lines fs _ _ _ h]
      have := linesFromKids_drop kids (skipIdxOf σ) 0 (subSkipOf σ)
      simpa using this.symm
  | .ph _ _ _ _, b, σ => by intro h; simp [Full] at h
theorem fullFrom_lines : (fs : List OFrag) → (bs : List OBox) → (i : Nat) → (sub : Option Resume) →
    FullFrom fs bs i sub → fragLinesList fs = linesFromKids bs 0 sub
  | [], bs, i, sub => by
    intro h
    simp only [FullFrom] at h
    subst h
    simp [fragLinesList, linesFromKids]
  | f :: fs, bs, i, sub => by
    intro h
    cases bs with
    | nil => simp [FullFrom] at h
    | cons b bs =>
      simp only [FullFrom] at h
      obtain ⟨_, hfl, hfull, hrest⟩ := h
      simp only [fragLinesList, linesFromKids]
      rw [fullFrom_lines fs bs (i + 1) none hrest, hfl]
      cases hb : b.inFlow with
      | true => simp only [if_true]; rw [full_lines f b sub (hfull hb)]
      | false => simp
end

theorem fullFrom_snoc (fs : List OFrag) (B : List OBox) (i : Nat) (sub : Option Resume) (f : OFrag) (b : OBox)
    (h : FullFrom fs B i sub) (hfl : f.inFlow = b.inFlow)
    (hf : b.inFlow = true → Full f b (if B = [] then sub else none)) (hi : f.idx = i + B.length) :
    FullFrom (fs ++ [f]) (B ++ [b]) i sub := by
  induction fs generalizing B i sub with
  | nil =>
    simp only [FullFrom] at h
    subst h
    simp only [List.nil_append, FullFrom]
    simp at hf hi
    exact ⟨hi, hfl, hf, trivial⟩
  | cons x xs ih =>
    cases B with
    | nil => simp [FullFrom] at h
    | cons b0 B =>
      simp only [FullFrom] at h
      simp only [List.cons_append, FullFrom]
      refine ⟨h.1, h.2.1, h.2.2.1, ?_⟩
      apply ih B (i + 1) none h.2.2.2
      · simp at hf
        intro hb
        split <;> exact hf hb
      · simp at hi; omega

/-! ### `find_earlier_page_break` on a paragraph -/

theorem findEarlierPara_spec (ser id idx : Nat) (st : OStyle) (n : Nat) (g : Geo) (lines : List (Nat × Rat))
    (k : Nat) (x' : OFrag) (r : Resume) (ho : 1 ≤ st.orphans) (hw : 1 ≤ st.widows)
    (hl : lines.map Prod.fst = List.range' k (n - k))
    (h : findEarlierPara ser id idx st n g lines = some (x', r)) :
    ∃ m kept, 1 ≤ m ∧ k + m < n ∧ r = .node 0 (some (.line (k + m))) ∧
      x' = .para ser id idx st n g kept ∧ kept.map Prod.fst = List.range' k m := by
  unfold findEarlierPara at h
  have hlen : lines.length = n - k := by
    have := congrArg List.length hl
    simpa using this
  split at h
  · cases h
  · dsimp only at h
    split at h
    · cases h
    · rename_i hidx
      split at h
      · rename_i i y hlast
        simp only [Option.some.injEq, Prod.mk.injEq] at h
        obtain ⟨rfl, rfl⟩ := h
        have hm : ((lines.length : Int) - (st.widows : Int)).toNat = lines.length - st.widows := by omega
        have hkept : (lines.take (lines.length - st.widows)).map Prod.fst =
            List.range' k (lines.length - st.widows) := by
          rw [List.map_take, hl]
          exact range'_take _ _ _ (by omega)
        rw [hm] at hlast
        have hi := last_of_range' _ _ _ _ _ hkept hlast
        refine ⟨lines.length - st.widows, lines.take (lines.length - st.widows), by omega, by omega, ?_, ?_, hkept⟩
        · have : k + (lines.length - st.widows) < n := by omega
          simp [lineResume, this, hi]
        · rw [hm]
      · cases h

theorem goodList_drop (bs : List OBox) (k : Nat) (h : GoodList bs) : GoodList (bs.drop k) := by
  induction bs generalizing k with
  | nil => simpa using h
  | cons b bs ih =>
    cases k with
    | zero => simpa using h
    | succ k =>
      simp only [GoodList] at h
      simpa using ih k h.2

theorem goodList_append (B R : List OBox) (hB : GoodList B) (hR : GoodList R) : GoodList (B ++ R) := by
  induction B with
  | nil => simpa using hR
  | cons b B ih =>
    simp only [GoodList] at hB
    simp only [List.cons_append, GoodList]
    exact ⟨hB.1, ih hB.2⟩

end Wp.PMO
