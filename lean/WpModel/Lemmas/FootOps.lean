/-
Sequences of calls of the footnote methods of `LayoutContext` (`Model/PaginateFootOps.lean`), in any order:
`page_bottom` stays exact and no footnote box is lost or duplicated.
-/
import WpModel.Model.PaginateFootOps
import WpModel.Lemmas.FootOverlap

namespace Wp.PMF
open Wp Wp.PM

theorem applyOp_pbx (c : FCtx) (fs : FState) (op : FOp) (h : PbX c fs) (hf : 0 ≤ op.fn.height) :
    PbX c (applyOp c fs op).1 := by
  cases op with
  | lay f => exact layoutFootnote_pbx c fs f h hf
  | report f => exact reportFootnote_pbx c fs f h hf
  | unlay f => exact unlayFootnote_pbx c fs f h

theorem pageStartState_pbx (c : FCtx) (pending : List Fn) : PbX c (pageStartState c pending) :=
  ⟨⟨by simp [pageStartState], Or.inl ⟨rfl, rfl⟩, by simp [pageStartState]⟩, by simp [pageStartState, pbOf]⟩

/-- After any sequence of calls from a state with exact bookkeeping, `page_bottom` is `pbOf` of the footnotes then in
the area and does not exceed the page box bottom. -/
theorem applyOps_exact (c : FCtx) (ops : List FOp) (fs : FState) (h : PbX c fs)
    (hh : ∀ op ∈ ops, 0 ≤ op.fn.height) :
    ∀ r ∈ applyOps c fs ops, r.1.pageBottom = pbOf c r.1.cur ∧ r.1.pageBottom ≤ c.pageH := by
  induction ops generalizing fs with
  | nil => intro r hr; simp [applyOps] at hr
  | cons op rest ih =>
    intro r hr
    unfold applyOps at hr
    split at hr
    · have hx := applyOp_pbx c fs op h (hh op (by simp))
      rcases List.mem_cons.mp hr with rfl | hr
      · exact ⟨hx.2, hx.1.le⟩
      · exact ih _ hx (fun o ho => hh o (by simp [ho])) r hr
    · cases hr

/-- Every footnote box the context holds, with multiplicity: waiting, in the area, postponed. -/
def allFns (fs : FState) : List Fn := fs.pending ++ fs.cur ++ fs.reported

theorem count_erase_add (l : List Fn) (f g : Fn) (h : f ∈ l) :
    (l.erase f).count g + [f].count g = l.count g := by
  by_cases hg : g = f
  · subst hg
    rw [List.count_erase_self]
    have := List.count_pos_iff.mpr h
    simp; omega
  · rw [List.count_erase_of_ne hg]
    have : [f].count g = 0 := by
      rw [List.count_eq_zero]; simpa using hg
    omega

/-- One call moves its footnote from one list to another: every box keeps its number of occurrences. -/
theorem applyOp_count (c : FCtx) (fs : FState) (op : FOp) (hok : op.ok fs = true) (hin : op.fn ∈ allFns fs)
    (g : Fn) : (allFns (applyOp c fs op).1).count g = (allFns fs).count g := by
  cases op with
  | lay f =>
    simp only [FOp.ok, decide_eq_true_eq] at hok
    simp only [applyOp, allFns, layoutFootnote_pending, layoutFootnote_cur, layoutFootnote_reported,
      List.count_append]
    have := count_erase_add fs.pending f g hok
    omega
  | report f =>
    simp only [FOp.ok, decide_eq_true_eq] at hok
    simp only [applyOp, allFns, reportFootnote_pending, reportFootnote_cur, reportFootnote_reported,
      List.count_append]
    have := count_erase_add fs.cur f g hok
    omega
  | unlay f =>
    simp only [FOp.fn, allFns, List.mem_append] at hin
    simp only [applyOp, unlayFootnote]
    split
    · rfl
    · rename_i hp
      split
      · rename_i hc
        simp only [allFns, updateArea_pending, updateArea_cur, updateArea_reported, List.count_append]
        have := count_erase_add fs.cur f g hc
        omega
      · rename_i hc
        split
        · rename_i hr
          simp only [allFns, updateArea_pending, updateArea_cur, updateArea_reported, List.count_append]
          have := count_erase_add fs.reported f g hr
          omega
        · rename_i hr
          rcases hin with (h | h) | h
          · exact absurd h hp
          · exact absurd h hc
          · exact absurd h hr

/-- **No sequence of calls loses or duplicates a footnote**: after each call performed, every footnote box occurs
in the three lists together exactly as often as before the sequence. -/
theorem applyOps_conserve (c : FCtx) (ops : List FOp) (fs : FState) (hin : ∀ op ∈ ops, op.fn ∈ allFns fs) :
    ∀ r ∈ applyOps c fs ops, ∀ g, (allFns r.1).count g = (allFns fs).count g := by
  induction ops generalizing fs with
  | nil => intro r hr; simp [applyOps] at hr
  | cons op rest ih =>
    intro r hr g
    unfold applyOps at hr
    split at hr
    · rename_i hok
      have h1 := applyOp_count c fs op hok (hin op (by simp))
      rcases List.mem_cons.mp hr with rfl | hr
      · exact h1 g
      · rw [← h1 g]
        apply ih _ _ r hr g
        intro o ho
        have := hin o (by simp [ho])
        rw [← List.count_pos_iff] at this ⊢
        rw [h1]; exact this
    · cases hr

end Wp.PMF
