/-
C09 — what white-space processing leaves in a text box, stated on the characters `split_first_line`
is given (`Model/InlineSource.decode ∘ Bx.processText ∘ encode`): C08's theorems on `processText`
(imported unchanged) carried through the code-point / character coding.  Core Lean only.
-/
import WpModel.Model.InlineSource
import WpModel.Props.C08
import WpModel.Lemmas.LineBreak

namespace Wp.IS
open Wp Wp.Py Wp.LB

/-- the text box after `process_whitespace`, as characters -/
def processedText (ws : WS) (t : Text) (following : Bool) : Text :=
  decode (Bx.processText (toBxWS ws) (encode t) following).text

/-- it is the text `process_whitespace` puts into a non-empty text box of the model (`IS.pw`) -/
theorem pw_text (ws : WS) (s : Text) (lcs f : Bool) (hs : s.isEmpty = false) :
    ∃ lcs', (pw ws (.text s lcs) f).1 = .text (processedText ws s f) lcs' := by
  unfold pw
  simp only [hs, Bool.false_eq_true, if_false]
  exact ⟨_, rfl⟩

theorem ofNat_eq (n : Nat) (c : Char) (h : Char.ofNat n = c) (hc : c ≠ '\x00') : n = c.toNat := by
  unfold Char.ofNat at h
  split at h
  · subst h
    simp [Char.ofNatAux, Char.toNat]
  · exact absurd h.symm hc

theorem newLineCollapse_of (ws : WS) (h : ws = .normal ∨ ws = .nowrap) : Bx.newLineCollapse (toBxWS ws) = true := by
  rcases h with rfl | rfl <;> decide

theorem spaceCollapse_of (ws : WS) (h : ws.spaceCollapse = true) : Bx.spaceCollapse (toBxWS ws) = true := by
  cases ws <;> first | decide | (exact absurd h (by decide))

/-- **`white-space: normal | nowrap`: no preserved line break is left** in the text given to
`split_first_line`, whatever the source text (newlines, runs of spaces, leading / trailing white space). -/
theorem processed_no_newline (ws : WS) (h : ws = .normal ∨ ws = .nowrap) (t : Text) (f : Bool) :
    ∀ c ∈ processedText ws t f, c ≠ '\n' := by
  intro c hc
  unfold processedText decode at hc
  obtain ⟨n, hn, hcn⟩ := List.mem_map.mp hc
  intro hnl
  have h10 : n = 10 := ofNat_eq n '\n' (hcn.trans hnl) (by decide)
  exact (C08.whitespace_collapses_newlines (toBxWS ws) (newLineCollapse_of ws h) (encode t) f n hn).2.1 h10

theorem noDoubleSp_get : ∀ (u : Bx.Text), Bx.noDoubleSp u = true → ∀ i, u[i]? = some 32 → u[i + 1]? ≠ some 32
  | [], _, i, h => by simp at h
  | [a], _, i, h => by
    cases i <;> simp
  | a :: b :: rest, hd, i, h => by
    simp only [Bx.noDoubleSp, Bool.and_eq_true, Bool.not_eq_true', Bool.and_eq_false_iff, beq_eq_false_iff_ne] at hd
    cases i with
    | zero =>
      simp only [List.getElem?_cons_zero, Option.some.injEq] at h
      simp only [List.getElem?_cons_succ, List.getElem?_cons_zero, ne_eq, Option.some.injEq]
      rcases hd.1 with h1 | h1
      · exact absurd h h1
      · exact h1
    | succ j =>
      simp only [List.getElem?_cons_succ] at h ⊢
      exact noDoubleSp_get (b :: rest) hd.2 j h

/-- **collapsing `white-space` (`normal | nowrap | pre-line`): never two consecutive spaces** in the text
given to `split_first_line` — with `processed_no_newline`, the words are separated by single spaces:
the canonical texts on which `greedy` is proved. -/
theorem processed_no_double_space (ws : WS) (h : ws.spaceCollapse = true) (t : Text) (f : Bool) (i : Nat)
    (hi : (processedText ws t f)[i]? = some ' ') : (processedText ws t f)[i + 1]? ≠ some ' ' := by
  unfold processedText decode at hi ⊢
  have hnd := (C08.whitespace_collapses_spaces (toBxWS ws) (spaceCollapse_of ws h) (encode t) f).1
  generalize (Bx.processText (toBxWS ws) (encode t) f).text = u at hi hnd ⊢
  rw [List.getElem?_map] at hi ⊢
  cases hu : u[i]? with
  | none => rw [hu] at hi; cases hi
  | some n =>
    rw [hu] at hi
    simp only [Option.map, Option.some.injEq] at hi
    have hn : n = 32 := ofNat_eq n ' ' hi (by decide)
    subst hn
    cases hu1 : u[i + 1]? with
    | none => simp
    | some m =>
      simp only [Option.map, ne_eq, Option.some.injEq]
      intro hm
      have hm32 : m = 32 := ofNat_eq m ' ' hm (by decide)
      subst hm32
      exact noDoubleSp_get u hnd i hu hu1

/-- **from the source to the line, `white-space: nowrap`**: whatever the source text of a text box
(newlines, tabs of spaces, any width), the text left by white-space processing is laid out by
`split_first_line` as one single line holding all of it — no preserved line break survives the
processing (`processed_no_newline`) and `nowrap` breaks nowhere else (`no_wrap_single_line`). -/
theorem nowrap_source_single_line (heur : Bool) (st : Style) (hws : st.ws = .nowrap) (t : Text) (f : Bool)
    (maxWidth : MaxW) (a b : Bool) (r : Res)
    (h : splitFirstLineH heur st (processedText .nowrap t f) maxWidth a b = .ok r) :
    r = { length := (processedText .nowrap t f).length, resume := none,
          width := ((processedText .nowrap t f).length : Rat) * st.fs, text := processedText .nowrap t f } := by
  have hw : st.ws.textWrap = false := by rw [hws]; decide
  have hnl : find (processedText .nowrap t f) '\n' = none :=
    C09L.find_none_of_not_mem (processed_no_newline .nowrap (Or.inr rfl) t f)
  exact C09L.no_wrap_single_line heur st _ maxWidth a b r hw hnl h

end Wp.IS
