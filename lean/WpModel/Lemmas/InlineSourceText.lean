/-
C09 — what white-space processing leaves in a text box, stated on the characters `split_first_line`
is given (`Model/InlineSource.decode ∘ Bx.processText ∘ encode`): C08's theorems on `processText`
(imported unchanged) carried through the code-point / character coding.  Core Lean only.
-/
import WpModel.Model.InlineSource
import WpModel.Props.C08
import WpModel.Lemmas.LineBreak

namespace Wp.IS
open Wp Wp.Py Wp.LB Wp.C09L

/-- the text box after `process_whitespace`, as characters -/
def processedText (ws : WS) (t : Text) (following : Bool) : Text :=
  decode (Bx.processText (toBxWS ws) (encode t) following).text

/-- it is the text `process_whitespace` puts into a non-empty text box of the model (`IS.pw`) -/
theorem pw_text (ws : WS) (s : Text) (lcs f : Bool) (hs : s.isEmpty = false) :
    ∃ lcs', (pw ws (.text s lcs) f).1 = .text (processedText ws s f) lcs' := by
  unfold pw
  simp only [hs, Bool.false_eq_true, if_false]
  exact ⟨_, rfl⟩

theorem ofNat_eq (n : Nat) (c : Char) (h : Char.ofNat n = c) (hc : c ≠ '\x00') : n = c.toNat := by
  unfold Char.ofNat at h
  split at h
  · subst h
    simp [Char.ofNatAux, Char.toNat]
  · exact absurd h.symm hc

theorem newLineCollapse_of (ws : WS) (h : ws = .normal ∨ ws = .nowrap) : Bx.newLineCollapse (toBxWS ws) = true := by
  rcases h with rfl | rfl <;> decide

theorem spaceCollapse_of (ws : WS) (h : ws.spaceCollapse = true) : Bx.spaceCollapse (toBxWS ws) = true := by
  cases ws <;> first | decide | (exact absurd h (by decide))

/-- **`white-space: normal | nowrap`: no preserved line break is left** in the text given to
`split_first_line`, whatever the source text (newlines, runs of spaces, leading / trailing white space). -/
theorem processed_no_newline (ws : WS) (h : ws = .normal ∨ ws = .nowrap) (t : Text) (f : Bool) :
    ∀ c ∈ processedText ws t f, c ≠ '\n' := by
  intro c hc
  unfold processedText decode at hc
  obtain ⟨n, hn, hcn⟩ := List.mem_map.mp hc
  intro hnl
  have h10 : n = 10 := ofNat_eq n '\n' (hcn.trans hnl) (by decide)
  exact (C08.whitespace_collapses_newlines (toBxWS ws) (newLineCollapse_of ws h) (encode t) f n hn).2.1 h10

theorem noDoubleSp_get : ∀ (u : Bx.Text), Bx.noDoubleSp u = true → ∀ i, u[i]? = some 32 → u[i + 1]? ≠ some 32
  | [], _, i, h => by simp at h
  | [a], _, i, h => by
    cases i <;> simp
  | a :: b :: rest, hd, i, h => by
    simp only [Bx.noDoubleSp, Bool.and_eq_true, Bool.not_eq_true', Bool.and_eq_false_iff, beq_eq_false_iff_ne] at hd
    cases i with
    | zero =>
      simp only [List.getElem?_cons_zero, Option.some.injEq] at h
      simp only [List.getElem?_cons_succ, List.getElem?_cons_zero, ne_eq, Option.some.injEq]
      rcases hd.1 with h1 | h1
      · exact absurd h h1
      · exact h1
    | succ j =>
      simp only [List.getElem?_cons_succ] at h ⊢
      exact noDoubleSp_get (b :: rest) hd.2 j h

/-- **collapsing `white-space` (`normal | nowrap | pre-line`): never two consecutive spaces** in the text
given to `split_first_line` — with `processed_no_newline`, the words are separated by single spaces:
the canonical texts on which `greedy` is proved. -/
theorem processed_no_double_space (ws : WS) (h : ws.spaceCollapse = true) (t : Text) (f : Bool) (i : Nat)
    (hi : (processedText ws t f)[i]? = some ' ') : (processedText ws t f)[i + 1]? ≠ some ' ' := by
  unfold processedText decode at hi ⊢
  have hnd := (C08.whitespace_collapses_spaces (toBxWS ws) (spaceCollapse_of ws h) (encode t) f).1
  generalize (Bx.processText (toBxWS ws) (encode t) f).text = u at hi hnd ⊢
  rw [List.getElem?_map] at hi ⊢
  cases hu : u[i]? with
  | none => rw [hu] at hi; cases hi
  | some n =>
    rw [hu] at hi
    simp only [Option.map, Option.some.injEq] at hi
    have hn : n = 32 := ofNat_eq n ' ' hi (by decide)
    subst hn
    cases hu1 : u[i + 1]? with
    | none => simp
    | some m =>
      simp only [Option.map, ne_eq, Option.some.injEq]
      intro hm
      have hm32 : m = 32 := ofNat_eq m ' ' hm (by decide)
      subst hm32
      exact noDoubleSp_get u hnd i hu hu1

/-- **from the source to the line, `white-space: nowrap`**: whatever the source text of a text box
(newlines, tabs of spaces, any width), the text left by white-space processing is laid out by
`split_first_line` as one single line holding all of it — no preserved line break survives the
processing (`processed_no_newline`) and `nowrap` breaks nowhere else (`no_wrap_single_line`). -/
theorem nowrap_source_single_line (heur : Bool) (st : Style) (hws : st.ws = .nowrap) (t : Text) (f : Bool)
    (maxWidth : MaxW) (a b : Bool) (r : Res)
    (h : splitFirstLineH heur st (processedText .nowrap t f) maxWidth a b = .ok r) :
    r = { length := (processedText .nowrap t f).length, resume := none,
          width := ((processedText .nowrap t f).length : Rat) * st.fs, text := processedText .nowrap t f } := by
  have hw : st.ws.textWrap = false := by rw [hws]; decide
  have hnl : find (processedText .nowrap t f) '\n' = none :=
    C09L.find_none_of_not_mem (processed_no_newline .nowrap (Or.inr rfl) t f)
  exact C09L.no_wrap_single_line heur st _ maxWidth a b r hw hnl h

/-- never two consecutive spaces -/
def NoDbl (u : Text) : Prop := ∀ i, u[i]? = some ' ' → u[i + 1]? ≠ some ' '

theorem NoDbl.drop {u : Text} (h : NoDbl u) (k : Nat) : NoDbl (u.drop k) := by
  intro i hi
  rw [List.getElem?_drop] at hi ⊢
  have := h (k + i) hi
  rwa [Nat.add_assoc] at this

theorem NoDbl.prefix {p u : Text} (h : NoDbl u) (hp : p <+: u) : NoDbl p := by
  obtain ⟨s, rfl⟩ := hp
  intro i hi
  by_cases h1 : i + 1 < p.length
  · have hi' : (p ++ s)[i]? = some ' ' := by
      rw [List.getElem?_append_left (by omega)]; exact hi
    have := h i hi'
    rwa [List.getElem?_append_left h1] at this
  · rw [List.getElem?_eq_none (by omega)]; simp

theorem dropWhile_eq_drop (p : Char → Bool) : ∀ (u : Text), u.dropWhile p = u.drop (u.takeWhile p).length
  | [] => rfl
  | c :: cs => by
    simp only [List.dropWhile, List.takeWhile]
    split
    · simp [dropWhile_eq_drop p cs]
    · simp

theorem lstripSp_eq_drop (u : Text) : ∃ k, lstripSp u = u.drop k ∧ ∀ c ∈ lstripSp u, c ∈ u := by
  refine ⟨(u.takeWhile (· == ' ')).length, ?_, ?_⟩
  · unfold lstripSp
    exact dropWhile_eq_drop _ u
  · intro c hc
    unfold lstripSp at hc
    exact (List.dropWhile_sublist _).subset hc

theorem head_dropWhile_sp : ∀ (u : Text), (u.dropWhile (· == ' ')).head? ≠ some ' '
  | [] => by simp
  | c :: cs => by
    simp only [List.dropWhile]
    split
    · exact head_dropWhile_sp cs
    · rename_i hc
      simp only [List.head?_cons, ne_eq, Option.some.injEq]
      intro e; subst e; simp at hc

theorem last_rstripSp (w : Text) : (rstripSp w).getLast? ≠ some ' ' := by
  unfold rstripSp
  rw [List.getLast?_reverse]
  exact head_dropWhile_sp _

/-- **the stripped processed text is canonical**: a text without newline and without two consecutive
spaces, once its leading and trailing spaces are stripped, is made of words separated by single spaces -/
theorem canonical_strip (u : Text) (hnl : ∀ c ∈ u, c ≠ '\n') (hd : NoDbl u) : Canonical (rstripSp (lstripSp u)) := by
  obtain ⟨k, hk, hmem⟩ := lstripSp_eq_drop u
  have hw : NoDbl (lstripSp u) := by rw [hk]; exact hd.drop k
  have hpre := rstripSp_prefix (lstripSp u)
  have hv : NoDbl (rstripSp (lstripSp u)) := hw.prefix hpre
  have hlast := last_rstripSp (lstripSp u)
  have hhead : (rstripSp (lstripSp u)).head? ≠ some ' ' := by
    obtain ⟨s, hs⟩ := hpre
    intro hh
    have : (lstripSp u).head? = some ' ' := by
      rw [← hs]
      cases hv' : rstripSp (lstripSp u) with
      | nil => rw [hv'] at hh; cases hh
      | cons a as => rw [hv'] at hh; simpa using hh
    exact head_dropWhile_sp u this
  generalize rstripSp (lstripSp u) = v at hpre hv hlast hhead
  refine ⟨fun c hc => hnl c (hmem c (hpre.subset hc)), ?_⟩
  intro i hi
  have hilt : i < v.length := by
    by_cases hlt : i < v.length
    · exact hlt
    · rw [List.getElem?_eq_none (by omega)] at hi; cases hi
  have h0 : 0 < i := by
    cases i with
    | zero =>
      exfalso; apply hhead
      cases v with
      | nil => cases hi
      | cons a as => simpa using hi
    | succ j => omega
  have hprev : v[i - 1]? ≠ some ' ' := by
    intro hp
    have := hv (i - 1) hp
    rw [Nat.sub_add_cancel h0] at this
    exact this hi
  have hnext : i + 1 < v.length := by
    by_cases hlt : i + 1 < v.length
    · exact hlt
    · have hil : i = v.length - 1 := by omega
      exfalso; apply hlast
      rw [List.getLast?_eq_getElem?, ← hil]; exact hi
  exact ⟨h0, hprev, hnext, hv i hi⟩
/-- the processed text has the `NoDbl` shape under every collapsing `white-space` -/
theorem processed_noDbl (ws : WS) (h : ws.spaceCollapse = true) (t : Text) (f : Bool) : NoDbl (processedText ws t f) :=
  fun i hi => processed_no_double_space ws h t f i hi

/-- **what white-space processing leaves is canonical**: under `normal` / `nowrap`, for every source
text, the text of the text box without its (single) leading and trailing space is made of words
separated by single spaces, without newline — the texts on which `greedy` is proved. -/
theorem processed_canonical (ws : WS) (h : ws = .normal ∨ ws = .nowrap) (t : Text) (f : Bool) :
    Canonical (rstripSp (lstripSp (processedText ws t f))) :=
  canonical_strip _ (processed_no_newline ws h t f)
    (processed_noDbl ws (by rcases h with rfl | rfl <;> decide) t f)

/-- `skip_first_whitespace` at the start of a text box under a collapsing `white-space` hands
`split_text_box` exactly the text without its leading spaces -/
theorem skipFirst_is_lstrip (ws : WS) (h : ws.skipFirst = true) (u : Text) (hu : u ≠ []) :
    ∃ k, skipFirstWhitespace ws u 0 = some k ∧ u.drop k = lstripSp u := by
  refine ⟨(u.takeWhile (· == ' ')).length, ?_, ?_⟩
  · unfold skipFirstWhitespace
    have : ¬ (0 = u.length) := by
      intro e; exact hu (List.length_eq_zero_iff.mp e.symm)
    simp [this, h]
  · unfold lstripSp
    exact (dropWhile_eq_drop _ u).symm

end Wp.IS
