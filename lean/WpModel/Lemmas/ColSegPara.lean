/-
Port of `Lemmas/SegmentPara.lean` to the stage-2c types: the post-condition of `layoutBox` (conservation +
progress) and its proof for paragraphs.
-/
import WpModel.Lemmas.ColSeg
import WpModel.Lemmas.SegmentPara

namespace Wp.PMC
open Wp Wp.PM

theorem findEarlierPara_spec (id idx : Nat) (st : PStyle) (n : Nat) (g : Geo) (lines : List (Nat × Rat))
    (k : Nat) (x' : CFrag) (r : Resume) (ho : 1 ≤ st.orphans) (hw : 1 ≤ st.widows)
    (hl : lines.map Prod.fst = List.range' k (n - k))
    (h : findEarlierPara id idx st n g lines = some (x', r)) :
    ∃ m kept, 1 ≤ m ∧ k + m < n ∧ r = .node 0 (some (.line (k + m))) ∧
      x' = .para id idx st n g kept ∧ kept.map Prod.fst = List.range' k m := by
  unfold findEarlierPara at h
  have hlen : lines.length = n - k := by
    have := congrArg List.length hl
    simpa using this
  split at h
  · cases h
  · dsimp only at h
    split at h
    · cases h
    · rename_i hidx
      split at h
      · rename_i i y hlast
        simp only [Option.some.injEq, Prod.mk.injEq] at h
        obtain ⟨rfl, rfl⟩ := h
        have hm : ((lines.length : Int) - (st.widows : Int)).toNat = lines.length - st.widows := by omega
        have hkept : (lines.take (lines.length - st.widows)).map Prod.fst =
            List.range' k (lines.length - st.widows) := by
          rw [List.map_take, hl]
          exact range'_take _ _ _ (by omega)
        rw [hm] at hlast
        have hi := last_of_range' _ _ _ _ _ hkept hlast
        refine ⟨lines.length - st.widows, lines.take (lines.length - st.widows), by omega, by omega, ?_, ?_, hkept⟩
        · have : k + (lines.length - st.widows) < n := by omega
          simp [lineResume, this, hi]
        · rw [hm]
      · cases h

/-- What a layout returning a fragment guarantees: when nothing is left (`resume = none`) the fragment is
the complete rest of the box; otherwise fragment + rest = what was asked, and the resume position is
strictly later than the skip position. -/
def BoxPost (box : ColBox) (skip : Option Resume) (frag : Option CFrag) (resume : Option Resume) : Prop :=
  ∀ f, frag = some f → match resume with
    | none => Full f box skip
    | some ρ => fragLines f ++ linesFrom box (some ρ) = linesFrom box skip ∧ pos box skip < pos box (some ρ)

theorem finishContainer_frag (isCol : Bool) (c : CCtx) (st : PStyle) (b : BoxSt) (pie : Bool) (bs : Rat)
    (cwc dbd : Bool) (resume : Option Resume) (posY : Rat) (adjL cur : List Rat) (curIsL : Bool)
    (np : NextPage) (hasKids : Bool) (pageEnd : String) (mk : Geo → CFrag) (f : CFrag)
    (h : (finishContainer isCol c st b pie bs cwc dbd resume posY adjL cur curIsL np hasKids pageEnd mk).frag
      = some f) :
    (∃ g, f = mk g) ∧
    (finishContainer isCol c st b pie bs cwc dbd resume posY adjL cur curIsL np hasKids pageEnd mk).resume
      = resume := by
  unfold finishContainer at h ⊢
  split
  · rename_i hc; rw [if_pos hc] at h; cases h
  · rename_i hc; rw [if_neg hc] at h
    simp only [Option.some.injEq] at h
    exact ⟨⟨_, h.symm⟩, rfl⟩

theorem finishPara_frag (c : CCtx) (st : PStyle) (p : Prep) (pie : Bool) (id idx n : Nat) (R : LineResult)
    (f : CFrag) (hh : st.height = none) (h : (finishPara c st p pie id idx n R).frag = some f) :
    R.abort = false ∧ (∃ g, f = .para id idx st n g R.lines) ∧
    (finishPara c st p pie id idx n R).resume = if R.stop then R.resume else none := by
  unfold finishPara at h ⊢
  dsimp only at h ⊢
  cases ha : R.abort with
  | true => rw [ha] at h; simp [noneResult] at h
  | false =>
    rw [ha] at h
    simp only [Bool.false_eq_true, ↓reduceIte] at h ⊢
    obtain ⟨hg, hr⟩ := finishContainer_frag _ _ _ _ _ _ _ _ _ _ _ _ _ _ _ _ _ _ h
    refine ⟨trivial, hg, ?_⟩
    rw [hr, forgetIfFixed_none _ _ _ _ hh]

/-! ### the line loop when it breaks -/

theorem lineLoop_broke (c : CCtx) (st : PStyle) (b : BoxSt) (n : Nat) (lineH : Rat) (pie : Bool) (bs : Rat)
    (k : Nat) (fuel i : Nat) (y : Rat) (s s' : LineLoop) (stop : Bool) (r : Option Resume)
    (hk : k ≤ i) (hs : s.lines.map Prod.fst = List.range' k (i - k)) (hn : fuel = n - i) (ho : 1 ≤ st.orphans)
    (h : lineLoop c st b n lineH pie bs fuel i y s = .broke false stop r s') :
    stop = true ∧ ∃ m, 1 ≤ m ∧ k + m < n ∧ s'.lines.map Prod.fst = List.range' k m := by
  fun_induction lineLoop c st b n lineH pie bs fuel i y s with
  | case1 i y s => cases h
  | case2 fuel i y s resume newPosY dbd offset overflow hov abort stop' r' lines' hb =>
    simp only [LineOutcome.broke.injEq] at h
    obtain ⟨ha, hst, _, hs'⟩ := h
    have hne : s.lines.isEmpty = false ∨ pie = false := by
      have : (!s.lines.isEmpty || !pie) = true := by
        simp only [overflow, Bool.and_eq_true] at hov
        exact hov.1
      cases h1 : s.lines.isEmpty <;> cases h2 : pie <;> simp_all
    have key := breakLine_stop st n i s.lines pie s.skip resume ho hne
    rw [hb] at key
    have h1 := key ha
    obtain ⟨m, hm, hl⟩ := breakLine_lines st n i s.lines pie s.skip resume
    rw [hb] at hl
    simp only at hl h1
    have hlen : s.lines.length = i - k := by
      have := congrArg List.length hs
      simpa using this
    have hlen' : lines'.length = m := by rw [hl, List.length_take]; omega
    refine ⟨by rw [← hst]; exact h1.1, m, by omega, by omega, ?_⟩
    rw [← hs']
    simp only [hl, List.map_take, hs]
    exact range'_take _ _ _ (by omega)
  | case3 fuel i y s resume newPosY dbd offset overflow hov shift newPosY' lineY mt' ih =>
    have : (s.lines ++ [(i, lineY)]).map Prod.fst = List.range' k (i + 1 - k) := by
      rw [List.map_append, hs]
      have : i + 1 - k = (i - k) + 1 := by omega
      rw [this, List.range'_concat]
      simp
      omega
    exact ih (by omega) this (by omega) h

/-- `_linebox_layout`: when it does not abort, either every remaining line was placed, or it stopped
after at least one line, before the last one, and the resume position is the next line. -/
theorem linebox_spec (c : CCtx) (st : PStyle) (b : BoxSt) (n : Nat) (lineH : Rat) (pie : Bool)
    (adj : List Rat) (bs posY : Rat) (skip : Option Resume) (dbd : Bool) (ho : 1 ≤ st.orphans)
    (ha : (lineboxLayout c st b n lineH pie adj bs posY skip dbd).abort = false) :
    ((lineboxLayout c st b n lineH pie adj bs posY skip dbd).stop = false →
      (lineboxLayout c st b n lineH pie adj bs posY skip dbd).lines.map Prod.fst =
        List.range' (skipLine skip) (n - skipLine skip)) ∧
    ((lineboxLayout c st b n lineH pie adj bs posY skip dbd).stop = true →
      ∃ m, 1 ≤ m ∧ skipLine skip + m < n ∧
        (lineboxLayout c st b n lineH pie adj bs posY skip dbd).lines.map Prod.fst =
          List.range' (skipLine skip) m ∧
        (lineboxLayout c st b n lineH pie adj bs posY skip dbd).resume =
          some (.node 0 (some (.line (skipLine skip + m))))) := by
  unfold lineboxLayout at ha ⊢
  cases hloop : lineboxLoop c st b n lineH pie adj bs posY skip dbd with
  | done s =>
    simp only
    refine ⟨fun _ => ?_, by simp⟩
    unfold lineboxLoop at hloop
    have := lineLoop_done c st b n lineH pie bs (skipLine skip) _ _ _ _ s (Nat.le_refl _) (by simp) hloop
    simpa using this
  | broke a stp r s =>
    rw [hloop] at ha
    simp only at ha ⊢
    subst ha
    unfold lineboxLoop at hloop
    obtain ⟨hstp, m, hm1, hmn, hl⟩ := lineLoop_broke c st b n lineH pie bs (skipLine skip) _ _ _ _ s stp r
      (Nat.le_refl _) (by simp) rfl ho hloop
    subst hstp
    refine ⟨by simp, fun _ => ⟨m, hm1, hmn, hl, ?_⟩⟩
    -- the last line kept
    have hne : s.lines ≠ [] := by
      intro he; rw [he] at hl
      have := congrArg List.length hl
      simp at this; omega
    obtain ⟨⟨i, y⟩, hlast⟩ : ∃ a, s.lines.getLast? = some a := by
      cases hq : s.lines.getLast? with
      | none => rw [List.getLast?_eq_none_iff] at hq; exact absurd hq hne
      | some a => exact ⟨a, rfl⟩
    have hi := last_of_range' _ _ _ _ _ hl hlast
    simp [lastLineResume, hlast, lineResume, hmn, hi]

theorem para_spec (id n : Nat) (lineH : Rat) (st : PStyle) (hg : Good (.para id n lineH st))
    (c : CCtx) (idx : Nat) (y bs : Rat) (skip : Option Resume) (cb pie : Bool) (adjL : List Rat) :
    BoxPost (.para id n lineH st) skip
      (layoutBox c (.para id n lineH st) idx y bs skip cb pie adjL).frag
      (layoutBox c (.para id n lineH st) idx y bs skip cb pie adjL).resume := by
  simp only [Good] at hg
  obtain ⟨hh, ho, hw⟩ := hg
  intro f hf
  simp only [layoutBox] at hf ⊢
  obtain ⟨hab, ⟨g, rfl⟩, hres⟩ := finishPara_frag _ _ _ _ _ _ _ _ _ hh hf
  rw [hres]
  obtain ⟨h1, h2⟩ := linebox_spec _ _ _ _ _ _ _ _ _ _ _ ho hab
  split
  · rename_i hnone
    split at hnone
    · rename_i hstop
      obtain ⟨m, _, _, _, hr⟩ := h2 hstop
      rw [hr] at hnone; cases hnone
    · rename_i hstop
      simp only [Full, paraStart, true_and]
      exact h1 (by simpa using hstop)
  · rename_i ρ hsome
    split at hsome
    · rename_i hstop
      obtain ⟨m, hm1, hmn, hl, hr⟩ := h2 hstop
      rw [hr] at hsome
      simp only [Option.some.injEq] at hsome
      subst hsome
      have hps : paraStart (some (Resume.node 0 (some (Resume.line (skipLine (subSkipOf skip) + m))))) =
          paraStart skip + m := rfl
      constructor
      · simp only [fragLines, linesFrom]
        rw [hps, ← paraLines_split id (paraStart skip) m n (by unfold paraStart; omega)]
        congr 1
        have hl' : _ = List.range' (paraStart skip) m := hl
        rw [← hl', List.map_map]
        rfl
      · simp only [pos]
        rw [hps]
        unfold paraStart
        omega
    · cases hsome


end Wp.PMC
