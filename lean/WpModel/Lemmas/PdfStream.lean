/-
Lemmas about the stream machine of Model/PdfStream: the bracket invariant that links the API-level bracket stack
to the emitted operators (used by `C16.balanced`).  Core Lean only.
-/
import WpModel.Model.PdfStream
import WpModel.Lemmas.ContentCheck

namespace Wp.Pdf

theorem cfg_cons (o : Op) (r : List Op) : cfg (o :: r) = (cfg r).bind (opStep o) := rfl

theorem cfg_free_cons (o : Op) (r : List Op) (st : List Fr) (h : cfg r = some st) (hf : o.tc = .free) :
    cfg (o :: r) = some st := by
  simp [cfg_cons, h, opStep, hf, tokStep]

theorem cfg_free_append (os r : List Op) (st : List Fr) (h : cfg r = some st) (hf : ∀ o ∈ os, o.tc = .free) :
    cfg (os ++ r) = some st := by
  induction os with
  | nil => simpa
  | cons o os ih =>
    rw [List.cons_append]
    exact cfg_free_cons o _ st (ih (fun x hx => hf x (List.mem_cons_of_mem _ hx))) (hf o List.mem_cons_self)

/-- `s'` is `s` plus operators that do not touch the bracket structure (caches may differ). -/
structure Ext (s s' : SState) : Prop where
  mark_eq : s'.mark = s.mark
  ctm_eq : s'.ctm = s.ctm
  ops : ∃ os, s'.rops = os ++ s.rops ∧ ∀ o ∈ os, o.tc = .free

theorem Ext.refl (s : SState) : Ext s s := ⟨rfl, rfl, [], by simp, by simp⟩

theorem Ext.trans {a b c : SState} (h1 : Ext a b) (h2 : Ext b c) : Ext a c := by
  obtain ⟨m1, c1, os1, e1, f1⟩ := h1
  obtain ⟨m2, c2, os2, e2, f2⟩ := h2
  refine ⟨m2.trans m1, c2.trans c1, os2 ++ os1, by rw [e2, e1, List.append_assoc], ?_⟩
  intro o ho
  rcases List.mem_append.mp ho with h | h
  · exact f2 o h
  · exact f1 o h

theorem Ext.emit_free (s : SState) (o : Op) (hf : o.tc = .free) : Ext s (s.emit o) :=
  ⟨rfl, rfl, [o], rfl, by simpa using hf⟩

theorem Ext.of_same (s s' : SState) (hm : s'.mark = s.mark) (hc : s'.ctm = s.ctm) (hr : s'.rops = s.rops) : Ext s s' :=
  ⟨hm, hc, [], by simpa using hr, by simp⟩

theorem Ext.emitAll_free (s : SState) (os : List Op) (hf : ∀ o ∈ os, o.tc = .free) : Ext s (s.emitAll os) := by
  induction os generalizing s with
  | nil => exact Ext.refl s
  | cons o os ih =>
    have h1 := Ext.emit_free s o (hf o List.mem_cons_self)
    have h2 := ih (s.emit o) (fun x hx => hf x (List.mem_cons_of_mem _ hx))
    exact Ext.trans h1 h2

theorem setAlphaStroke_ext (r : Res) (s : SState) (α : Num) : Ext s (setAlphaStroke r s α).1 := by
  unfold setAlphaStroke
  split
  · exact Ext.trans (Ext.of_same s { s with alphaS := some (GKey.A α) } rfl rfl rfl) (Ext.emit_free _ _ rfl)
  · exact Ext.refl s

theorem setAlphaFill_ext (r : Res) (s : SState) (α : Num) : Ext s (setAlphaFill r s α).1 := by
  unfold setAlphaFill
  split
  · exact Ext.trans (Ext.of_same s { s with alphaF := some (GKey.a α) } rfl rfl rfl) (Ext.emit_free _ _ rfl)
  · exact Ext.refl s

theorem alphaStrokePart_ext (r : Res) (s : SState) (α : Num) (stroke : Bool) :
    Ext s (alphaStrokePart r s α stroke).1 := by
  unfold alphaStrokePart
  split
  · exact setAlphaStroke_ext r s α
  · exact Ext.refl s

theorem setAlpha_ext (r : Res) (s : SState) (α : Num) (stroke : Bool) (fill : Option Bool) :
    Ext s (setAlpha r s α stroke fill).1 := by
  unfold setAlpha
  split
  · exact Ext.trans (alphaStrokePart_ext r s α stroke) (setAlphaFill_ext _ _ α)
  · exact alphaStrokePart_ext r s α stroke

theorem colourOps_free (c : Colour) (stroke : Bool) : ∀ o ∈ colourOps c stroke, o.tc = .free := by
  intro o ho
  unfold colourOps at ho
  split at ho <;> simp at ho <;> rcases ho with rfl | rfl <;> rfl

theorem setColorOnly_ext (s : SState) (c : Colour) (stroke : Bool) : Ext s (setColorOnly s c stroke) := by
  unfold setColorOnly
  split <;> split
  · exact Ext.refl s
  · exact Ext.trans (Ext.of_same s { s with colS := some c.key } rfl rfl rfl)
      (Ext.emitAll_free _ _ (colourOps_free c stroke))
  · exact Ext.refl s
  · exact Ext.trans (Ext.of_same s { s with colF := some c.key } rfl rfl rfl)
      (Ext.emitAll_free _ _ (colourOps_free c stroke))

theorem setColor_ext (r : Res) (s : SState) (c : Colour) (stroke : Bool) : Ext s (setColor r s c stroke).1 := by
  unfold setColor
  exact Ext.trans (setAlpha_ext r s c.alpha stroke none) (setColorOnly_ext _ c stroke)

theorem setState_ext (r : Res) (s : SState) (d : ExtG) : Ext s (setState r s d).1 := by
  unfold setState
  exact Ext.emit_free _ _ rfl

theorem softMaskState_ext (r : Res) (s : SState) : Ext s (softMaskState r s).1 :=
  Ext.trans (setState_ext r s softMaskDict) (Ext.of_same _ _ rfl rfl rfl)

/-! ### The bracket invariant -/

/-- The emitted operators have exactly the API-level bracket stack open (marked-content frames are invisible when
`_mark` is off), and `_ctm_stack` has one entry per open `q` plus the base. -/
structure Inv (s : SState) (st : List Fr) : Prop where
  cfg_eq : cfg s.rops = some (vis s.mark st)
  ctm_len : s.ctm.length = 1 + st.count .q

theorem Inv.ext {s s' : SState} {st : List Fr} (hi : Inv s st) (he : Ext s s') : Inv s' st := by
  obtain ⟨hm, hc, os, ho, hf⟩ := he
  refine ⟨?_, by rw [hc]; exact hi.ctm_len⟩
  rw [ho, hm]
  exact cfg_free_append os s.rops _ hi.cfg_eq hf

theorem vis_cons_M_off (st : List Fr) : vis false (.M :: st) = vis false st := by
  simp [vis]

theorem vis_cons_q (m : Bool) (st : List Fr) : vis m (.q :: st) = .q :: vis m st := by
  cases m <;> simp [vis]

theorem vis_cons_T (m : Bool) (st : List Fr) : vis m (.T :: st) = .T :: vis m st := by
  cases m <;> simp [vis]

theorem vis_on (st : List Fr) : vis true st = st := by simp [vis]

theorem inText_vis (m : Bool) (st : List Fr) : inText (vis m st) = inText st := by
  cases m
  · simp only [vis, inText]
    induction st with
    | nil => rfl
    | cons f fs ih => cases f <;> simp_all [List.filter_cons]
  · simp [vis]

/-- Undo one bracket step: the stack before a token that was accepted. -/
theorem cfg_tail_of_q (r : List Op) (st : List Fr) (h : cfg (.q :: r) = some (.q :: st)) : cfg r = some st := by
  rw [cfg_cons] at h
  cases hr : cfg r with
  | none => rw [hr] at h; simp at h
  | some x =>
    rw [hr] at h
    simp only [Option.bind_some, opStep, Op.tc, tokStep] at h
    split at h <;> simp_all

theorem cfg_tail_of_ET (r : List Op) (st : List Fr) (h : cfg (.ET :: r) = some st) : cfg r = some (.T :: st) := by
  rw [cfg_cons] at h
  cases hr : cfg r with
  | none => rw [hr] at h; simp at h
  | some x =>
    rw [hr] at h
    simp only [Option.bind_some, opStep, Op.tc, tokStep] at h
    split at h <;> simp_all

theorem cfg_emit (s : SState) (o : Op) (st st' : List Fr) (h : cfg s.rops = some st)
    (hs : tokStep o.tc st = some st') : cfg (s.emit o).rops = some st' := by
  simp [SState.emit, cfg_cons, h, opStep, hs]

/-- Appending one operator that steps the visible stack. -/
theorem Inv.emit {s : SState} {st st' : List Fr} (o : Op) (hi : Inv s st)
    (hs : tokStep o.tc (vis s.mark st) = some (vis s.mark st')) (hq : st'.count .q = st.count .q) :
    Inv (s.emit o) st' :=
  ⟨cfg_emit s o _ _ hi.cfg_eq hs, by rw [hq]; exact hi.ctm_len⟩

theorem ctm_ne_nil {s : SState} {st : List Fr} (hi : Inv s st) : ∃ top rest, s.ctm = top :: rest := by
  have := hi.ctm_len
  cases hc : s.ctm with
  | nil => rw [hc] at this; simp at this; omega
  | cons a b => exact ⟨a, b, rfl⟩

theorem push_inv (r : Res) (s : SState) (st : List Fr) (hi : Inv s st) (hnt : inText st = false) :
    ∃ s', stepS r s .push = .ok (s', r) ∧ Inv s' (.q :: st) ∧ s'.mark = s.mark := by
  obtain ⟨top, rest, hc⟩ := ctm_ne_nil hi
  refine ⟨{ s with ctm := top :: top :: rest }.emit .q, by simp [stepS, hc], ⟨?_, ?_⟩, rfl⟩
  · show cfg (.q :: s.rops) = some (vis s.mark (.q :: st))
    rw [cfg_cons, hi.cfg_eq, vis_cons_q]
    simp [opStep, Op.tc, tokStep, inText_vis, hnt]
  · have := hi.ctm_len
    rw [hc] at this
    simp [SState.emit, List.count_cons] at this ⊢; omega

theorem popOps_spec (s : SState) (st : List Fr) (h : cfg s.rops = some (.q :: st)) :
    cfg (popOps s).rops = some st ∧ (popOps s).ctm = s.ctm ∧ (popOps s).mark = s.mark := by
  unfold popOps
  split
  · rename_i rest heq
    rw [heq] at h
    exact ⟨cfg_tail_of_q _ _ h, rfl, rfl⟩
  · exact ⟨cfg_emit _ _ _ _ h (by simp [Op.tc, tokStep]), rfl, rfl⟩

theorem pop_inv (r : Res) (s : SState) (st : List Fr) (hi : Inv s (.q :: st)) :
    ∃ s', stepS r s .pop = .ok (s', r) ∧ Inv s' st ∧ s'.mark = s.mark := by
  have hcfg : cfg s.rops = some (.q :: vis s.mark st) := by rw [hi.cfg_eq, vis_cons_q]
  obtain ⟨h1, h2, h3⟩ := popOps_spec s _ hcfg
  have hlen : s.ctm.length = 2 + st.count .q := by
    have := hi.ctm_len; simp [List.count_cons] at this; omega
  have hc2 : (clearCaches (popOps s)).ctm = s.ctm := h2
  match hc : s.ctm with
  | [] => rw [hc] at hlen; simp only [List.length_nil] at hlen; omega
  | [_] => rw [hc] at hlen; simp only [List.length_cons, List.length_nil] at hlen; omega
  | a :: b :: rest =>
    refine ⟨{ clearCaches (popOps s) with ctm := b :: rest }, ?_, ⟨?_, ?_⟩, ?_⟩
    · simp [stepS, popState, hc2, hc, Except.map]
    · show cfg (popOps s).rops = some (vis (popOps s).mark st)
      rw [h3]; exact h1
    · rw [hc] at hlen; simp at hlen ⊢; omega
    · exact h3


theorem emit_graphics_inv (s : SState) (st : List Fr) (o : Op) (hi : Inv s st) (ho : o.tc = .graphics)
    (hnt : inText st = false) : Inv (s.emit o) st :=
  Inv.emit o hi (by simp [ho, tokStep, inText_vis, hnt]) rfl

theorem emit_textOnly_inv (s : SState) (st : List Fr) (o : Op) (hi : Inv s st) (ho : o.tc = .textOnly)
    (ht : inText st = true) : Inv (s.emit o) st :=
  Inv.emit o hi (by simp [ho, tokStep, inText_vis, ht]) rfl

theorem emit_free_inv (s : SState) (st : List Fr) (o : Op) (hi : Inv s st) (ho : o.tc = .free) :
    Inv (s.emit o) st :=
  Inv.emit o hi (by simp [ho, tokStep]) rfl

theorem transform_inv (r : Res) (s : SState) (st : List Fr) (a b c d e f : Num) (hi : Inv s st)
    (hnt : inText st = false) :
    ∃ s', stepS r s (.transform a b c d e f) = .ok (s', r) ∧ Inv s' st ∧ s'.mark = s.mark := by
  obtain ⟨top, rest, hc⟩ := ctm_ne_nil hi
  refine ⟨{ s with ctm := Mat.mul ⟨a.val, b.val, c.val, d.val, e.val, f.val⟩ top :: rest }.emit (.cm a b c d e f),
    by simp [stepS, hc], ⟨?_, ?_⟩, rfl⟩
  · show cfg (.cm a b c d e f :: s.rops) = some (vis s.mark st)
    rw [cfg_cons, hi.cfg_eq]
    simp [opStep, Op.tc, tokStep, inText_vis, hnt]
  · have := hi.ctm_len
    rw [hc] at this
    simpa [SState.emit] using this

theorem beginText_inv (s : SState) (st : List Fr) (hi : Inv s st) (hnt : inText st = false) :
    Inv (beginText s) (.T :: st) ∧ (beginText s).mark = s.mark := by
  unfold beginText
  split
  · rename_i rest heq
    refine ⟨⟨?_, ?_⟩, rfl⟩
    · have := hi.cfg_eq
      rw [heq] at this
      show cfg rest = some (vis s.mark (.T :: st))
      rw [vis_cons_T]; exact cfg_tail_of_ET _ _ this
    · simpa [List.count_cons] using hi.ctm_len
  · exact ⟨Inv.emit .BT hi (by simp [Op.tc, tokStep, inText_vis, hnt, vis_cons_T]) (by simp [List.count_cons]), rfl⟩

theorem endText_inv (s : SState) (st : List Fr) (hi : Inv s (.T :: st)) :
    Inv ({ s with oldFont := s.font, font := none }.emit .ET) st := by
  have hi' : Inv { s with oldFont := s.font, font := none } (.T :: st) := ⟨hi.cfg_eq, hi.ctm_len⟩
  exact Inv.emit .ET hi' (by simp [Op.tc, tokStep, vis_cons_T]) (by simp [List.count_cons])

theorem beginMarked_inv (s : SState) (st : List Fr) (et : String) (mcid : Bool) (tag : Option String)
    (hi : Inv s st) : Inv (beginMarked s et mcid tag) (.M :: st) ∧ (beginMarked s et mcid tag).mark = s.mark := by
  unfold beginMarked
  cases hm : s.mark
  · simp only [Bool.not_false, if_true]
    refine ⟨⟨?_, by simpa [List.count_cons] using hi.ctm_len⟩, hm⟩
    rw [hm, vis_cons_M_off, ← hm]; exact hi.cfg_eq
  · simp only [Bool.not_true, Bool.false_eq_true, if_false]
    have hcfg := hi.cfg_eq
    rw [hm, vis_on] at hcfg
    split
    · refine ⟨⟨?_, by simpa [SState.emitAll, SState.emit, List.count_cons] using hi.ctm_len⟩, ?_⟩
      · simp [SState.emitAll, SState.emit, cfg_cons, hcfg, opStep, Op.tc, tokStep, hm, vis_on]
      · simp [SState.emitAll, SState.emit, hm]
    · refine ⟨⟨?_, by simpa [SState.emitAll, SState.emit, List.count_cons] using hi.ctm_len⟩, ?_⟩
      · simp [SState.emitAll, SState.emit, cfg_cons, hcfg, opStep, Op.tc, tokStep, hm, vis_on]
      · simp [SState.emitAll, SState.emit, hm]

theorem endMarked_inv (r : Res) (s : SState) (st : List Fr) (hi : Inv s (.M :: st)) :
    ∃ s', stepS r s .endMarked = .ok (s', r) ∧ Inv s' st ∧ s'.mark = s.mark := by
  simp only [stepS]
  cases hm : s.mark
  · simp only [Bool.not_false, if_true]
    refine ⟨s, rfl, ⟨?_, by simpa [List.count_cons] using hi.ctm_len⟩, hm⟩
    have := hi.cfg_eq
    rw [hm, vis_cons_M_off] at this
    rw [hm]; exact this
  · simp only [Bool.not_true, Bool.false_eq_true, if_false]
    refine ⟨s.emit .EMC, rfl, ?_, hm⟩
    exact Inv.emit .EMC hi (by simp [Op.tc, tokStep, hm, vis_on]) (by simp [List.count_cons])


/-- **One API call preserves the bracket invariant** (and cannot raise) when it is legal at the API level. -/
theorem stepS_inv (r : Res) (s : SState) (c : Call) (st st' : List Fr) (hi : Inv s st)
    (ha : apiStep st c = some st') :
    ∃ s' r', stepS r s c = .ok (s', r') ∧ Inv s' st' ∧ s'.mark = s.mark := by
  cases c with
  | push =>
    simp only [apiStep] at ha
    cases hnt : inText st <;> simp [hnt] at ha
    subst ha
    obtain ⟨s', h1, h2, h3⟩ := push_inv r s st hi hnt
    exact ⟨s', r, h1, h2, h3⟩
  | pop =>
    simp only [apiStep] at ha
    split at ha <;> simp at ha
    subst ha
    obtain ⟨s', h1, h2, h3⟩ := pop_inv r s _ hi
    exact ⟨s', r, h1, h2, h3⟩
  | transform a b c d e f =>
    simp only [apiStep, Call.graphicsOnly] at ha
    cases hnt : inText st <;> simp [hnt] at ha
    subst ha
    obtain ⟨s', h1, h2, h3⟩ := transform_inv r s st a b c d e f hi hnt
    exact ⟨s', r, h1, h2, h3⟩
  | beginText =>
    simp only [apiStep] at ha
    cases hnt : inText st <;> simp [hnt] at ha
    subst ha
    exact ⟨beginText s, r, rfl, (beginText_inv s st hi hnt).1, (beginText_inv s st hi hnt).2⟩
  | endText =>
    simp only [apiStep] at ha
    split at ha <;> simp at ha
    subst ha
    exact ⟨_, r, rfl, endText_inv s _ hi, rfl⟩
  | setColor col stroke =>
    simp [apiStep, Call.graphicsOnly, Call.textOnly] at ha; subst ha
    have he := setColor_ext r s col stroke
    exact ⟨_, _, rfl, Inv.ext hi he, he.mark_eq⟩
  | setFont f sz =>
    simp [apiStep, Call.graphicsOnly, Call.textOnly] at ha; subst ha
    simp only [stepS]
    split
    · exact ⟨s, r, rfl, hi, rfl⟩
    · have he : Ext s ({ s with font := some (f, sz.val) }.emit (.Tf f sz)) :=
        Ext.trans (Ext.of_same s { s with font := some (f, sz.val) } rfl rfl rfl) (Ext.emit_free _ _ rfl)
      exact ⟨_, r, rfl, Inv.ext hi he, he.mark_eq⟩
  | setAlpha α stroke fill =>
    simp [apiStep, Call.graphicsOnly, Call.textOnly] at ha; subst ha
    have he := setAlpha_ext r s α stroke fill
    exact ⟨_, _, rfl, Inv.ext hi he, he.mark_eq⟩
  | setState d =>
    simp [apiStep, Call.graphicsOnly, Call.textOnly] at ha; subst ha
    have he := setState_ext r s d
    exact ⟨_, _, rfl, Inv.ext hi he, he.mark_eq⟩
  | softMaskState =>
    simp [apiStep, Call.graphicsOnly, Call.textOnly] at ha; subst ha
    have he := softMaskState_ext r s
    exact ⟨_, _, rfl, Inv.ext hi he, he.mark_eq⟩
  | setBlendMode mode =>
    simp [apiStep, Call.graphicsOnly, Call.textOnly] at ha; subst ha
    have he := setState_ext r s { kind := "blend:" ++ mode }
    exact ⟨_, _, rfl, Inv.ext hi he, he.mark_eq⟩
  | beginMarked et mcid tag =>
    simp [apiStep] at ha; subst ha
    exact ⟨beginMarked s et mcid tag, r, rfl, (beginMarked_inv s st et mcid tag hi).1,
      (beginMarked_inv s st et mcid tag hi).2⟩
  | endMarked =>
    simp only [apiStep] at ha
    split at ha <;> simp at ha
    subst ha
    obtain ⟨s', h1, h2, h3⟩ := endMarked_inv r s _ hi
    exact ⟨s', r, h1, h2, h3⟩
  | drawX k =>
    simp only [apiStep, Call.graphicsOnly] at ha
    cases hnt : inText st <;> simp [hnt] at ha
    subst ha
    exact ⟨_, r, rfl, emit_graphics_inv s st (.Do k) hi rfl hnt, rfl⟩
  | paintShading n =>
    simp only [apiStep, Call.graphicsOnly] at ha
    cases hnt : inText st <;> simp [hnt] at ha
    subst ha
    exact ⟨_, r, rfl, emit_graphics_inv s st (.sh n) hi rfl hnt, rfl⟩
  | setColorSpace sp stroke =>
    simp [apiStep, Call.graphicsOnly, Call.textOnly] at ha; subst ha
    exact ⟨_, r, rfl, emit_free_inv s st _ hi rfl, rfl⟩
  | setColorSpecial pat stroke operands =>
    simp [apiStep, Call.graphicsOnly, Call.textOnly] at ha; subst ha
    exact ⟨_, r, rfl, emit_free_inv s st _ hi rfl, rfl⟩
  | raw k args flag text =>
    refine ⟨_, r, rfl, ?_, rfl⟩
    simp only [apiStep, Call.graphicsOnly, Call.textOnly] at ha
    cases hk : k.cls <;> cases hnt : inText st <;> simp [hk, hnt] at ha <;> subst ha
    · exact emit_graphics_inv s st _ hi (by simp [Op.tc, hk, RawClass.tc]) hnt
    · exact emit_graphics_inv s st _ hi (by simp [Op.tc, hk, RawClass.tc]) hnt
    · exact emit_free_inv s st _ hi (by simp [Op.tc, hk, RawClass.tc])
    · exact emit_free_inv s st _ hi (by simp [Op.tc, hk, RawClass.tc])
    · exact emit_textOnly_inv s st _ hi (by simp [Op.tc, hk, RawClass.tc]) hnt
    · exact emit_free_inv s st _ hi (by simp [Op.tc, hk, RawClass.tc])
    · exact emit_free_inv s st _ hi (by simp [Op.tc, hk, RawClass.tc])
    · exact emit_textOnly_inv s st _ hi (by simp [Op.tc, hk, RawClass.tc]) hnt
  | rawTok c token =>
    refine ⟨_, r, rfl, ?_, rfl⟩
    simp only [apiStep, Call.graphicsOnly, Call.textOnly] at ha
    cases c <;> cases hnt : inText st <;> simp [hnt] at ha <;> subst ha
    · exact emit_graphics_inv s st _ hi (by simp [Op.tc, RawClass.tc]) hnt
    · exact emit_graphics_inv s st _ hi (by simp [Op.tc, RawClass.tc]) hnt
    · exact emit_free_inv s st _ hi (by simp [Op.tc, RawClass.tc])
    · exact emit_free_inv s st _ hi (by simp [Op.tc, RawClass.tc])
    · exact emit_textOnly_inv s st _ hi (by simp [Op.tc, RawClass.tc]) hnt
    · exact emit_free_inv s st _ hi (by simp [Op.tc, RawClass.tc])
    · exact emit_free_inv s st _ hi (by simp [Op.tc, RawClass.tc])
    · exact emit_textOnly_inv s st _ hi (by simp [Op.tc, RawClass.tc]) hnt

/-- The invariant along a whole call sequence. -/
theorem runS_inv (calls : List Call) (r : Res) (s : SState) (st st' : List Fr) (hi : Inv s st)
    (ha : apiRun st calls = some st') :
    ∃ s' r', runS r s calls = .ok (s', r') ∧ Inv s' st' ∧ s'.mark = s.mark := by
  induction calls generalizing r s st with
  | nil => simp [apiRun] at ha; subst ha; exact ⟨s, r, rfl, hi, rfl⟩
  | cons c cs ih =>
    simp only [apiRun] at ha
    cases h1 : apiStep st c with
    | none => rw [h1] at ha; simp at ha
    | some stm =>
      rw [h1] at ha
      obtain ⟨sm, rm, hs, him, hmm⟩ := stepS_inv r s c st stm hi h1
      obtain ⟨s', r', hr, hi', hm'⟩ := ih rm sm stm him (by simpa using ha)
      exact ⟨s', r', by simp [runS, hs, hr], hi', hm'.trans hmm⟩

end Wp.Pdf
