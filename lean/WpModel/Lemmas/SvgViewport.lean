/-
Helper lemmas for Props/C13b: closed form of `preserve_ratio` with a viewBox, alignment arithmetic.
-/
import WpModel.Model.SvgViewport
import Mathlib.Tactic.Linarith
import Mathlib.Tactic.FieldSimp
import Mathlib.Tactic.Ring
set_option linter.unusedSimpArgs false
set_option linter.unusedVariables false
set_option linter.unnecessarySeqFocus false
namespace Wp.C13
open Wp Wp.SvgViewport

/-- `preserve_ratio` with a four-number viewBox, no marker: the result in closed form. -/
theorem preserveRatio_viewbox (vx vy vw vh : Rat) (isRoot : Bool) (intr : Option Rat × Option Rat)
    (par : String) (a : Align) (width height : Rat) (hvw : vw ≠ 0) (hvh : vh ≠ 0)
    (ha : parseAlign par = .ok a) :
    preserveRatio [vx, vy, vw, vh] isRoot intr par none width height =
      .ok (let s := if a.slice then max (width / vw) (height / vh) else min (width / vw) (height / vh)
           let sx := if a.uniform then s else width / vw
           let sy := if a.uniform then s else height / vh
           ⟨sx, sy, alignAxis a.x width vw sx - vx * sx, alignAxis a.y height vh sy - vy * sy⟩) := by
  simp only [preserveRatio, ha, bind, Except.bind, pure, Except.pure]
  have h1 : (vw != 0) = true := by simp [hvw]
  have h2 : (vh != 0) = true := by simp [hvh]
  simp only [h1, h2, if_true]
  cases a.uniform <;> simp

theorem alignAxis_spec (p : Pos) (viewport vb s : Rat) :
    (p = .min → alignAxis p viewport vb s = 0) ∧
    (p = .mid → alignAxis p viewport vb s + (alignAxis p viewport vb s + s * vb) = viewport) ∧
    (p = .max → alignAxis p viewport vb s + s * vb = viewport) := by
  refine ⟨?_, ?_, ?_⟩ <;> rintro rfl <;> simp [alignAxis] <;> ring

/-- Bounds of the aligned extent on one axis: when the scaled viewBox is not larger than the viewport
it lies inside it, when it is not smaller it covers it — for every alignment. -/
theorem alignAxis_inside (p : Pos) (viewport vb s : Rat) (h : s * vb ≤ viewport) :
    0 ≤ alignAxis p viewport vb s ∧ alignAxis p viewport vb s + s * vb ≤ viewport := by
  cases p <;> simp only [alignAxis] <;> constructor <;> linarith

theorem alignAxis_covers (p : Pos) (viewport vb s : Rat) (h : viewport ≤ s * vb) :
    alignAxis p viewport vb s ≤ 0 ∧ viewport ≤ alignAxis p viewport vb s + s * vb := by
  cases p <;> simp only [alignAxis] <;> constructor <;> linarith


end Wp.C13
