/-
Stacking of in-flow children in PM (C05): with non-negative margins, every placed child starts at or below
the bottom of the border box of the previous placed child that advanced the position (children that
collapse through are empty and do not advance it) — through nested blocks, the relayout with a larger bottom
space and `find_earlier_page_break`.
-/
import WpModel.Lemmas.Geometry

namespace Wp.PM
open Wp

def AllNN (l : List Rat) : Prop := ∀ m ∈ l, 0 ≤ m

theorem allNN_nil : AllNN [] := by intro m hm; cases hm

theorem allNN_append (a b : List Rat) (ha : AllNN a) (hb : AllNN b) : AllNN (a ++ b) := by
  intro m hm
  rcases List.mem_append.mp hm with h | h
  · exact ha m h
  · exact hb m h

theorem allNN_snoc (a : List Rat) (m : Rat) (ha : AllNN a) (hm : 0 ≤ m) : AllNN (a ++ [m]) :=
  allNN_append a [m] ha (by intro x hx; simp only [List.mem_singleton] at hx; rw [hx]; exact hm)

mutual
/-- Every top and bottom margin of the subtree is non-negative. -/
def NonNegMargins : PBox → Prop
  | .para _ _ _ st => 0 ≤ st.mt ∧ 0 ≤ st.mb
  | .block _ st kids => (0 ≤ st.mt ∧ 0 ≤ st.mb) ∧ NonNegMarginsList kids
def NonNegMarginsList : List PBox → Prop
  | [] => True
  | b :: bs => NonNegMargins b ∧ NonNegMarginsList bs
end

theorem NonNegMargins.st : (box : PBox) → NonNegMargins box → 0 ≤ box.st.mt ∧ 0 ≤ box.st.mb
  | .para _ _ _ _ => by intro h; unfold NonNegMargins at h; exact h
  | .block _ _ _ => by intro h; unfold NonNegMargins at h; exact h.1

def Geo.borderBottom (g : Geo) : Rat := g.borderBoxY + g.borderHeight

/-- No line / no child. -/
def Frag.isEmpty : Frag → Bool
  | .para _ _ _ _ _ lines => lines.isEmpty
  | .block _ _ _ _ kids => kids.isEmpty

/-- Walking the placed children from the position `y`: each border box starts at or below the current
position; the position then becomes the bottom of that border box — or stays, for an empty child (one that
collapsed through). The walk ends at position `y'`. -/
def stackedTo : Rat → List Frag → Rat → Prop
  | y, [], y' => y' = y
  | y, f :: fs, y' => y ≤ f.geo.borderBoxY ∧
      (stackedTo f.geo.borderBottom fs y' ∨ (f.isEmpty = true ∧ stackedTo y fs y'))

/-- The same without the final position. -/
def stackedFrom : Rat → List Frag → Prop
  | _, [] => True
  | y, f :: fs => y ≤ f.geo.borderBoxY ∧
      (stackedFrom f.geo.borderBottom fs ∨ (f.isEmpty = true ∧ stackedFrom y fs))

theorem stackedTo_from : (fs : List Frag) → ∀ (y y' : Rat), stackedTo y fs y' → stackedFrom y fs
  | [] => by intro y y' _; trivial
  | f :: fs => by
    intro y y' h
    simp only [stackedTo] at h
    simp only [stackedFrom]
    refine ⟨h.1, ?_⟩
    rcases h.2 with h2 | h2
    · left; exact stackedTo_from fs _ _ h2
    · right; exact ⟨h2.1, stackedTo_from fs _ _ h2.2⟩

theorem stackedTo_snoc_placed : (fs : List Frag) → ∀ (y p : Rat) (f : Frag), stackedTo y fs p →
    p ≤ f.geo.borderBoxY → stackedTo y (fs ++ [f]) f.geo.borderBottom
  | [] => by
    intro y p f h hp
    simp only [stackedTo] at h
    subst h
    simp only [List.nil_append, stackedTo]
    exact ⟨hp, Or.inl trivial⟩
  | x :: xs => by
    intro y p f h hp
    simp only [stackedTo] at h
    simp only [List.cons_append, stackedTo]
    refine ⟨h.1, ?_⟩
    rcases h.2 with h2 | h2
    · left; exact stackedTo_snoc_placed xs _ _ f h2 hp
    · right; exact ⟨h2.1, stackedTo_snoc_placed xs _ _ f h2.2 hp⟩

theorem stackedTo_snoc_through : (fs : List Frag) → ∀ (y p : Rat) (f : Frag), stackedTo y fs p →
    p ≤ f.geo.borderBoxY → f.isEmpty = true → stackedTo y (fs ++ [f]) p
  | [] => by
    intro y p f h hp he
    simp only [stackedTo] at h
    subst h
    simp only [List.nil_append, stackedTo]
    exact ⟨hp, Or.inr ⟨he, trivial⟩⟩
  | x :: xs => by
    intro y p f h hp he
    simp only [stackedTo] at h
    simp only [List.cons_append, stackedTo]
    refine ⟨h.1, ?_⟩
    rcases h.2 with h2 | h2
    · left; exact stackedTo_snoc_through xs _ _ f h2 hp he
    · right; exact ⟨h2.1, stackedTo_snoc_through xs _ _ f h2.2 hp he⟩

mutual
/-- The children of every block fragment of the tree are stacked. -/
def FragStacked : Frag → Prop
  | .para _ _ _ _ _ _ => True
  | .block _ _ _ _ kids => (∃ y, stackedFrom y kids) ∧ KidsStacked kids
def KidsStacked : List Frag → Prop
  | [] => True
  | f :: fs => FragStacked f ∧ KidsStacked fs
end

theorem kidsStacked_snoc (fs : List Frag) (f : Frag) (h : KidsStacked fs) (hf : FragStacked f) :
    KidsStacked (fs ++ [f]) := by
  induction fs with
  | nil => simp only [List.nil_append, KidsStacked]; exact ⟨hf, trivial⟩
  | cons x xs ih =>
    simp only [KidsStacked] at h
    simp only [List.cons_append, KidsStacked]
    exact ⟨h.1, ih h.2⟩

@[simp] theorem geo_withIdx (f : Frag) (i : Nat) : (f.withIdx i).geo = f.geo := by cases f <;> rfl
@[simp] theorem isEmpty_withIdx (f : Frag) (i : Nat) : (f.withIdx i).isEmpty = f.isEmpty := by cases f <;> rfl
theorem fragStacked_withIdx (f : Frag) (i : Nat) (h : FragStacked f) : FragStacked (f.withIdx i) := by
  cases f <;> simp_all [Frag.withIdx, FragStacked]

/-! ### `find_earlier_page_break` keeps the stacking -/

/-- `find_earlier_page_break` keeps the top of the border box of the paragraph it cuts.  (Since /repo 24ce8bf
the rebuilt box loses its bottom margin, padding and border — `remove_decoration(end=True)` — so its whole
geometry is no longer kept; the proofs below hold for the definition with and without that step.) -/
theorem findEarlierPara_geo (id idx : Nat) (st : PStyle) (n : Nat) (g : Geo) (lines : List (Nat × Rat))
    (x' : Frag) (r : Resume) (h : findEarlierPara id idx st n g lines = some (x', r)) :
    x'.geo.borderBoxY = g.borderBoxY ∧ FragStacked x' := by
  unfold findEarlierPara at h
  split at h
  · cases h
  · dsimp only at h
    split at h
    · cases h
    · split at h
      · simp only [Option.some.injEq, Prod.mk.injEq] at h
        obtain ⟨rfl, _⟩ := h
        refine ⟨?_, by simp [FragStacked]⟩
        cases st with
        | mk mt mb pt pb bt bb height minH maxH b1 b2 b3 clone page orphans widows isRoot =>
          cases clone <;> rfl
      · cases h

mutual
theorem findEarlierGo_stacked : (fs : List Frag) → ∀ (kept : List Frag) (r : Resume),
    (findEarlierGo fs).found = some (kept, r) → KidsStacked fs →
    KidsStacked kept ∧ ∀ y, stackedFrom y fs → stackedFrom y kept
  | [] => by
    intro kept r h
    simp [findEarlierGo] at h
  | x :: xs => by
    intro kept r h hk
    simp only [KidsStacked] at hk
    rw [findEarlierGo] at h
    dsimp only at h
    split at h
    · rename_i kept0 r0 hfound
      simp only [Option.some.injEq, Prod.mk.injEq] at h
      obtain ⟨rfl, rfl⟩ := h
      obtain ⟨ih1, ih2⟩ := findEarlierGo_stacked xs kept0 r0 hfound hk.2
      refine ⟨by simp only [KidsStacked]; exact ⟨hk.1, ih1⟩, ?_⟩
      intro y hy
      simp only [stackedFrom] at hy ⊢
      refine ⟨hy.1, ?_⟩
      rcases hy.2 with h2 | h2
      · left; exact ih2 _ h2
      · right; exact ⟨h2.1, ih2 _ h2.2⟩
    · split at h
      · simp only [Option.some.injEq, Prod.mk.injEq] at h
        obtain ⟨rfl, rfl⟩ := h
        refine ⟨by simp only [KidsStacked]; exact ⟨hk.1, trivial⟩, ?_⟩
        intro y hy
        simp only [stackedFrom] at hy ⊢
        exact ⟨hy.1, Or.inl trivial⟩
      · split at h
        · split at h
          · rename_i x' r1 hfe
            simp only [Option.some.injEq, Prod.mk.injEq] at h
            obtain ⟨rfl, rfl⟩ := h
            obtain ⟨hgeo, hst⟩ := findEarlierFrag_stacked x x' r1 hfe hk.1
            first
              | -- since /repo 24ce8bf the kept box is `x'.cutEnd`: `x'` without its bottom decoration (same
                -- top of the border box, same children)
                (have hst' : FragStacked x'.cutEnd := by
                   cases x' <;> simpa only [Frag.cutEnd, FragStacked] using hst
                 have hgeo' : x'.cutEnd.geo.borderBoxY = x.geo.borderBoxY := by
                   rw [← hgeo]
                   cases x' <;> simp only [Frag.cutEnd, Frag.geo, Geo.cutBottom, Geo.borderBoxY] <;> split <;> rfl
                 refine ⟨by simp only [KidsStacked]; exact ⟨hst', trivial⟩, ?_⟩
                 intro y hy
                 simp only [stackedFrom] at hy ⊢
                 rw [hgeo']
                 exact ⟨hy.1, Or.inl trivial⟩)
              | -- the definition before that repair: the kept box is `x'` itself
                (refine ⟨by simp only [KidsStacked]; exact ⟨hst, trivial⟩, ?_⟩
                 intro y hy
                 simp only [stackedFrom] at hy ⊢
                 rw [hgeo]
                 exact ⟨hy.1, Or.inl trivial⟩)
          · simp at h
        · simp at h
theorem findEarlierFrag_stacked : (x : Frag) → ∀ (x' : Frag) (r : Resume), findEarlierFrag x = some (x', r) →
    FragStacked x → x'.geo.borderBoxY = x.geo.borderBoxY ∧ FragStacked x'
  | .para id idx st n g lines => by
    intro x' r h _
    simp only [findEarlierFrag] at h
    exact findEarlierPara_geo id idx st n g lines x' r h
  | .block id idx st g kids => by
    intro x' r h hx
    simp only [FragStacked] at hx
    simp only [findEarlierFrag] at h
    split at h
    · rename_i kids' r0 hfound
      simp only [Option.some.injEq, Prod.mk.injEq] at h
      obtain ⟨rfl, rfl⟩ := h
      obtain ⟨h1, h2⟩ := findEarlierGo_stacked kids kids' r0 hfound hx.2
      obtain ⟨y, hy⟩ := hx.1
      refine ⟨?_, by simp only [FragStacked]; exact ⟨⟨y, h2 y hy⟩, h1⟩⟩
      cases st with
      | mk mt mb pt pb bt bb height minH maxH b1 b2 b3 clone page orphans widows isRoot =>
        cases clone <;> rfl
    · cases h
end


/-! ### helper facts on `prepare`, `finishTail`, `finishContainer` -/

theorem prepare_mt_cases (c : Ctx) (st : PStyle) (y bs : Rat) (skip : Option Resume) (cb pie : Bool)
    (adjL : List Rat) :
    (prepare c st y bs skip cb pie adjL).b.mt = st.mt ∨ (prepare c st y bs skip cb pie adjL).b.mt = 0 := by
  unfold prepare; dsimp only; repeat' split
  all_goals simp

theorem finishTail_adj (c : Ctx) (st : PStyle) (b : BoxSt) (bs : Rat)
    (cwc dbd : Bool) (resume : Option Resume) (posY : Rat) (adjL cur : List Rat) (curIsL hasKids : Bool)
    (l : List Rat) (h : (finishTail c st b bs cwc dbd resume posY adjL cur curIsL hasKids).adj = .fresh l) :
    l = cur ∨ l = [] := by
  unfold finishTail at h
  dsimp only at h
  repeat' split at h
  all_goals simp_all

theorem finishTail_mb (c : Ctx) (st : PStyle) (b : BoxSt) (bs : Rat)
    (cwc dbd : Bool) (resume : Option Resume) (posY : Rat) (adjL cur : List Rat) (curIsL hasKids : Bool) :
    (finishTail c st b bs cwc dbd resume posY adjL cur curIsL hasKids).geo.mb = b.mb ∨
    (finishTail c st b bs cwc dbd resume posY adjL cur curIsL hasKids).geo.mb = 0 := by
  unfold finishTail
  dsimp only
  by_cases h : (!st.clone && resume.isSome) = true
  · right; simp [h, geoOf]
  · left; simp only [h]; cases cwc <;> simp [geoOf]

theorem finishTail_through (c : Ctx) (st : PStyle) (b : BoxSt) (bs : Rat)
    (cwc dbd : Bool) (resume : Option Resume) (posY : Rat) (adjL cur : List Rat) (curIsL hasKids : Bool)
    (h : (finishTail c st b bs cwc dbd resume posY adjL cur curIsL hasKids).through = true) :
    hasKids = false := by
  unfold finishTail at h
  dsimp only at h
  cases hasKids with
  | false => rfl
  | true =>
    exfalso
    simp only [Bool.not_true, Bool.false_eq_true, ↓reduceIte] at h
    split at h <;> simp at h

/-- What `finishContainer` returns besides the fragment. -/
theorem finishContainer_post (c : Ctx) (st : PStyle) (b : BoxSt) (isStart pie : Bool) (bs : Rat)
    (cwc dbd : Bool) (resume : Option Resume) (posY : Rat) (adjL cur : List Rat) (curIsL : Bool)
    (np : NextPage) (hasKids : Bool) (pageEnd : String) (mk : Geo → Frag) :
    let res := finishContainer c st b isStart pie bs cwc dbd resume posY adjL cur curIsL np hasKids pageEnd mk
    (∀ l, res.adj = .fresh l → l = cur ∨ l = []) ∧
    (∀ f, res.frag = some f →
      f = mk (finishTail c st b bs cwc dbd resume posY adjL cur curIsL hasKids).geo ∧
      (res.collapsingThrough = true → hasKids = false)) := by
  dsimp only
  constructor
  · intro l h
    unfold finishContainer at h
    split at h
    · simp only [AdjOut.fresh.injEq] at h; right; exact h.symm
    · exact finishTail_adj c st b bs cwc dbd resume posY adjL cur curIsL hasKids l h
  · intro f h
    obtain ⟨h1, _, h3⟩ := finishContainer_geo _ _ _ _ _ _ _ _ _ _ _ _ _ _ _ _ _ _ h
    refine ⟨h1, ?_⟩
    intro ht
    rw [h3] at ht
    exact finishTail_through _ _ _ _ _ _ _ _ _ _ _ _ ht

theorem setCur_allNN (s : KidsLoop) (l : List Rat) (isL : Bool) (hl : AllNN l) (ha : AllNN s.adjL) :
    AllNN (s.setCur l isL).cur ∧ AllNN (s.setCur l isL).adjL := by
  unfold KidsLoop.setCur
  split
  · exact ⟨hl, hl⟩
  · exact ⟨hl, ha⟩

theorem appendCur_allNN (s : KidsLoop) (m : Rat) (hm : 0 ≤ m) (hc : AllNN s.cur) (ha : AllNN s.adjL) :
    AllNN (s.appendCur m).cur ∧ AllNN (s.appendCur m).adjL := by
  unfold KidsLoop.appendCur
  split
  · exact ⟨allNN_snoc _ _ hc hm, allNN_snoc _ _ hc hm⟩
  · exact ⟨allNN_snoc _ _ hc hm, ha⟩

theorem adoptAdj_allNN (s : KidsLoop) (had : Bool) (adj : AdjOut) (frag : Option Frag)
    (hc : AllNN s.cur) (ha : AllNN s.adjL) (hadj : ∀ l, adj = .fresh l → AllNN l)
    (hf : ∀ f, frag = some f → 0 ≤ f.geo.mb) :
    AllNN (s.adoptAdj had adj frag).cur ∧ AllNN (s.adoptAdj had adj frag).adjL := by
  unfold KidsLoop.adoptAdj
  split
  · exact ⟨hc, ha⟩
  · cases adj with
    | alias =>
      cases frag with
      | none => exact ⟨hc, ha⟩
      | some f => exact appendCur_allNN _ _ (hf f rfl) hc ha
    | fresh l =>
      have h1 := setCur_allNN s l false (hadj l rfl) ha
      cases frag with
      | none => exact h1
      | some f => exact appendCur_allNN _ _ (hf f rfl) h1.1 h1.2


/-! ### the invariant through the children loop -/

/-- Loop invariant: the children placed so far are stacked from `y0` up to the current position, and the
margin lists only hold non-negative margins. -/
def KInv (y0 : Rat) (s : KidsLoop) : Prop :=
  stackedTo y0 s.newChildren s.posY ∧ KidsStacked s.newChildren ∧ AllNN s.cur ∧ AllNN s.adjL

def KPost (y0 : Rat) (out : KidsOutcome) : Prop :=
  stackedFrom y0 out.state.newChildren ∧ KidsStacked out.state.newChildren ∧ AllNN out.state.adjL ∧
  (∀ s', out = .finished s' → AllNN s'.cur)

/-- What `layoutBox` guarantees under non-negative margins. -/
def BoxStackPost (y : Rat) (res : LayoutResult) : Prop :=
  AllNN res.adjL ∧ (∀ l, res.adj = .fresh l → AllNN l) ∧
  ∀ f, res.frag = some f → 0 ≤ f.geo.mb ∧ y ≤ f.geo.borderBoxY ∧ FragStacked f ∧
    (res.collapsingThrough = true → f.isEmpty = true)

theorem concludeKid_stack (y0 posY0 : Rat) (index : Nat) (pie : Bool) (pb : Brk) (child : PBox) (s : KidsLoop)
    (frag : Option Frag) (resume : Option Resume)
    (hst : stackedTo y0 s.newChildren posY0) (hks : KidsStacked s.newChildren)
    (hcur : AllNN s.cur) (hadj : AllNN s.adjL)
    (hf : ∀ f, frag = some f → FragStacked f ∧ posY0 ≤ f.geo.borderBoxY ∧
      (s.posY = f.geo.borderBottom ∨ (f.isEmpty = true ∧ s.posY = posY0))) :
    (∀ out s3, concludeKid index pie pb child s frag resume = (some out, s3) → KPost y0 out) ∧
    (∀ s3, concludeKid index pie pb child s frag resume = (none, s3) → KInv y0 s3) := by
  cases frag with
  | none =>
    constructor
    · intro out s3 h
      unfold concludeKid at h
      dsimp only at h
      split at h
      · rename_i kept r' hearlier
        simp only [Prod.mk.injEq, Option.some.injEq] at h
        obtain ⟨rfl, rfl⟩ := h
        have hfound : (findEarlierGo s.newChildren).found = some (kept, r') := by
          split at hearlier
          · exact hearlier
          · cases hearlier
        obtain ⟨h1, h2⟩ := findEarlierGo_stacked _ _ _ hfound hks
        exact ⟨h2 _ (stackedTo_from _ _ _ hst), h1, hadj, by intro s' h; cases h⟩
      · split at h
        · simp only [Prod.mk.injEq, Option.some.injEq] at h
          obtain ⟨rfl, rfl⟩ := h
          exact ⟨stackedTo_from _ _ _ hst, hks, hadj, by intro s' h; cases h⟩
        · split at h
          · simp only [Prod.mk.injEq, Option.some.injEq] at h
            obtain ⟨rfl, rfl⟩ := h
            exact ⟨stackedTo_from _ _ _ hst, hks, hadj, by intro s' h; cases h⟩
          · simp only [Prod.mk.injEq, Option.some.injEq] at h
            obtain ⟨rfl, rfl⟩ := h
            exact ⟨stackedTo_from _ _ _ hst, hks, hadj, by intro s' h; cases h⟩
    · intro s3 h
      unfold concludeKid at h
      dsimp only at h
      split at h
      · simp at h
      · split at h
        · simp at h
        · split at h <;> simp at h
  | some f =>
    obtain ⟨hfs, hle, hpos⟩ := hf f rfl
    have hks' : KidsStacked (s.newChildren ++ [f.withIdx index]) :=
      kidsStacked_snoc _ _ hks (fragStacked_withIdx f index hfs)
    have hto : stackedTo y0 (s.newChildren ++ [f.withIdx index]) s.posY := by
      rcases hpos with hp | ⟨he, hp⟩
      · rw [hp]
        have := stackedTo_snoc_placed s.newChildren y0 posY0 (f.withIdx index) hst (by simpa using hle)
        simpa using this
      · rw [hp]
        exact stackedTo_snoc_through s.newChildren y0 posY0 (f.withIdx index) hst (by simpa using hle)
          (by simpa using he)
    cases resume with
    | some r' =>
      constructor
      · intro out s3 h
        simp only [concludeKid, Prod.mk.injEq, Option.some.injEq] at h
        obtain ⟨rfl, rfl⟩ := h
        exact ⟨stackedTo_from _ _ _ hto, hks', hadj, by intro s' h; cases h⟩
      · intro s3 h
        simp [concludeKid] at h
    | none =>
      constructor
      · intro out s3 h
        simp [concludeKid] at h
      · intro s3 h
        simp only [concludeKid, Prod.mk.injEq, true_and] at h
        subst h
        exact ⟨hto, hks', hcur, hadj⟩


/-- The part of `BoxStackPost` that does not depend on the position handed by the parent. -/
def BoxStackPost' (res : LayoutResult) : Prop :=
  AllNN res.adjL ∧ (∀ l, res.adj = .fresh l → AllNN l) ∧
  ∀ f, res.frag = some f → 0 ≤ f.geo.mb ∧ FragStacked f ∧ (res.collapsingThrough = true → f.isEmpty = true)

theorem finishContainer_stackpost (c : Ctx) (st : PStyle) (b : BoxSt) (isStart pie : Bool) (bs : Rat)
    (cwc dbd : Bool) (resume : Option Resume) (posY : Rat) (adjL cur : List Rat) (curIsL : Bool)
    (np : NextPage) (hasKids : Bool) (pageEnd : String) (mk : Geo → Frag)
    (hadj : AllNN adjL) (hcur : AllNN cur) (hmb : 0 ≤ b.mb)
    (hmk : ∀ g, (mk g).geo = g ∧ FragStacked (mk g) ∧ (hasKids = false → (mk g).isEmpty = true)) :
    BoxStackPost' (finishContainer c st b isStart pie bs cwc dbd resume posY adjL cur curIsL np hasKids pageEnd mk) := by
  obtain ⟨h1, h2⟩ := finishContainer_post c st b isStart pie bs cwc dbd resume posY adjL cur curIsL np hasKids pageEnd mk
  refine ⟨by rw [finishContainer_adjL]; exact hadj, ?_, ?_⟩
  · intro l hl
    rcases h1 l hl with rfl | rfl
    · exact hcur
    · exact allNN_nil
  · intro f hf
    obtain ⟨hfe, hth⟩ := h2 f hf
    obtain ⟨hg, hs, he⟩ := hmk (finishTail c st b bs cwc dbd resume posY adjL cur curIsL hasKids).geo
    rw [hfe]
    refine ⟨?_, hs, fun ht => he (hth ht)⟩
    rw [hg]
    rcases finishTail_mb c st b bs cwc dbd resume posY adjL cur curIsL hasKids with h | h <;> rw [h]
    · exact hmb
    · exact Rat.le_refl

theorem finishBlock_stackpost (c : Ctx) (st : PStyle) (p : Prep) (pie : Bool) (id idx : Nat) (out : KidsOutcome)
    (y0 : Rat) (hout : KPost y0 out) (hmb : 0 ≤ p.b.mb) : BoxStackPost' (finishBlock c st p pie id idx out) := by
  obtain ⟨h1, h2, h3, h4⟩ := hout
  cases out with
  | aborted page s =>
    simp only [finishBlock, abortResult]
    exact ⟨h3, by intro l hl; simp only [AdjOut.fresh.injEq] at hl; rw [← hl]; exact allNN_nil,
      by intro f hf; cases hf⟩
  | stopped resume s =>
    simp only [finishBlock]
    apply finishContainer_stackpost _ _ _ _ _ _ _ _ _ _ _ _ _ _ _ _ _ h3 allNN_nil hmb
    intro g
    refine ⟨rfl, ?_, ?_⟩
    · simp only [FragStacked]; exact ⟨⟨y0, h1⟩, h2⟩
    · intro he; simpa [Frag.isEmpty, KidsOutcome.state] using he
  | finished s =>
    simp only [finishBlock]
    apply finishContainer_stackpost _ _ _ _ _ _ _ _ _ _ _ _ _ _ _ _ _ h3 (h4 s rfl) hmb
    intro g
    refine ⟨rfl, ?_, ?_⟩
    · simp only [FragStacked]; exact ⟨⟨y0, h1⟩, h2⟩
    · intro he; simpa [Frag.isEmpty, KidsOutcome.state] using he

theorem finishPara_stackpost (c : Ctx) (st : PStyle) (p : Prep) (pie : Bool) (id idx n : Nat) (r : LineResult)
    (hadj : AllNN p.adjL) (hmb : 0 ≤ p.b.mb) : BoxStackPost' (finishPara c st p pie id idx n r) := by
  unfold finishPara
  dsimp only
  split
  · simp only [abortResult]
    exact ⟨hadj, by intro l hl; simp only [AdjOut.fresh.injEq] at hl; rw [← hl]; exact allNN_nil,
      by intro f hf; cases hf⟩
  · refine finishContainer_stackpost _ _ _ _ _ _ _ _ _ _ _ _ _ _ _ _ _ hadj allNN_nil ?_ ?_
    · exact hmb
    · intro g
      refine ⟨rfl, by simp [FragStacked], ?_⟩
      intro he; simpa [Frag.isEmpty] using he

theorem layoutBox_para_adjL (c : Ctx) (id n : Nat) (lineH : Rat) (st : PStyle) (idx : Nat) (y bs : Rat)
    (skip : Option Resume) (cb pie : Bool) (adjL : List Rat) :
    (layoutBox c (.para id n lineH st) idx y bs skip cb pie adjL).adjL = (prepare c st y bs skip cb pie adjL).adjL := by
  simp only [layoutBox, finishPara]
  split
  · rfl
  · rw [finishContainer_adjL]

/-- From the position-independent part to `BoxStackPost`: the border box starts at or below the position handed
by the parent. -/
theorem boxStackPost_of (c : Ctx) (box : PBox) (idx : Nat) (y bs : Rat) (skip : Option Resume)
    (cb pie : Bool) (adjL : List Rat) (hn : 0 ≤ box.st.mt)
    (h : BoxStackPost' (layoutBox c box idx y bs skip cb pie adjL)) :
    BoxStackPost y (layoutBox c box idx y bs skip cb pie adjL) := by
  obtain ⟨h1, h2, h3⟩ := h
  refine ⟨h1, h2, ?_⟩
  intro f hf
  obtain ⟨ha, hb, hc⟩ := h3 f hf
  refine ⟨ha, ?_, hb, hc⟩
  obtain ⟨htop, hmt⟩ := layoutBox_border_top c box idx y bs skip cb pie adjL f hf
  have hcm := collapseMargin_nonneg _ h1
  rw [htop]
  split
  · grind
  · rcases hmt with hmt | ⟨_, ⟨id, n, lh, st, rfl⟩, hmt⟩
    · rw [hmt]; grind
    · -- a translated first line: the removed top margin is one of the collapsed margins
      rw [hmt]
      rw [layoutBox_para_adjL] at hcm h1 ⊢
      have hmem : (prepare c st y bs skip cb pie adjL).b.mt ∈ (prepare c st y bs skip cb pie adjL).adjL := by
        rw [prepare_adjL]; simp
      have := maxPos_ge _ _ hmem
      rw [collapseMargin_of_nonneg _ h1]
      simp only [PBox.st]
      grind


theorem prepare_cur (c : Ctx) (st : PStyle) (y bs : Rat) (skip : Option Resume) (cb pie : Bool)
    (adjL : List Rat) :
    (prepare c st y bs skip cb pie adjL).cur = (prepare c st y bs skip cb pie adjL).adjL ∨
    (prepare c st y bs skip cb pie adjL).cur = [] := by
  unfold prepare; dsimp only; repeat' split
  all_goals simp

theorem prepare_allNN (c : Ctx) (st : PStyle) (y bs : Rat) (skip : Option Resume) (cb pie : Bool)
    (adjL : List Rat) (hadj : AllNN adjL) (hmt : 0 ≤ st.mt) :
    AllNN (prepare c st y bs skip cb pie adjL).adjL ∧ AllNN (prepare c st y bs skip cb pie adjL).cur := by
  have h1 : AllNN (prepare c st y bs skip cb pie adjL).adjL := by
    rw [prepare_adjL]
    apply allNN_snoc _ _ hadj
    rcases prepare_mt_cases c st y bs skip cb pie adjL with h | h <;> rw [h]
    · exact hmt
    · exact Rat.le_refl
  refine ⟨h1, ?_⟩
  rcases prepare_cur c st y bs skip cb pie adjL with h | h <;> rw [h]
  · exact h1
  · exact allNN_nil

mutual
theorem box_stack : (box : PBox) → NonNegMargins box → ∀ (c : Ctx) (idx : Nat) (y bs : Rat)
    (skip : Option Resume) (cb pie : Bool) (adjL : List Rat), AllNN adjL →
    BoxStackPost y (layoutBox c box idx y bs skip cb pie adjL)
  | .para id n lineH st => by
    intro hn c idx y bs skip cb pie adjL hadj
    unfold NonNegMargins at hn
    apply boxStackPost_of c (.para id n lineH st) idx y bs skip cb pie adjL hn.1
    simp only [layoutBox]
    apply finishPara_stackpost
    · exact (prepare_allNN c st y bs skip cb pie adjL hadj hn.1).1
    · rw [prepare_mb]; exact hn.2
  | .block id st kids => by
    intro hn c idx y bs skip cb pie adjL hadj
    unfold NonNegMargins at hn
    apply boxStackPost_of c (.block id st kids) idx y bs skip cb pie adjL hn.1.1
    simp only [layoutBox]
    apply finishBlock_stackpost _ _ _ _ _ _ _ (prepare c st y bs skip cb pie adjL).posY
    · apply kids_stack kids hn.2
      obtain ⟨h1, h2⟩ := prepare_allNN c st y bs skip cb pie adjL hadj hn.1.1
      exact ⟨by simp [stackedTo], by simp [KidsStacked], h2, h1⟩
    · rw [prepare_mb]; exact hn.1.2
theorem kids_stack : (rest : List PBox) → NonNegMarginsList rest → ∀ (c : Ctx) (st : PStyle) (y0 : Rat)
    (index skipIdx : Nat) (bs : Rat) (pie : Bool) (s : KidsLoop), KInv y0 s →
    KPost y0 (layoutKids c st rest index skipIdx bs pie s)
  | [] => by
    intro _ c st y0 index skipIdx bs pie s hinv
    obtain ⟨h1, h2, h3, h4⟩ := hinv
    simp only [layoutKids, KPost, KidsOutcome.state]
    exact ⟨stackedTo_from _ _ _ h1, h2, h4, by intro s' hs'; cases hs'; exact h3⟩
  | child :: rest => by
    intro hn c st y0 index skipIdx bs pie s hinv
    unfold NonNegMarginsList at hn
    obtain ⟨h1, h2, h3, h4⟩ := hinv
    unfold layoutKids
    split
    · exact kids_stack rest hn.2 c st y0 _ _ _ _ s ⟨h1, h2, h3, h4⟩
    · dsimp only
      split
      · exact ⟨stackedTo_from _ _ _ h1, h2, h4, by intro s' hs'; cases hs'⟩
      · have hr := box_stack child hn.1 c index s.posY bs s.skip st.isRoot (pie && s.newChildren.isEmpty) s.cur h3
        obtain ⟨hr1, hr2, hr3⟩ := hr
        have hs1 := setCur_allNN s _ s.curIsL hr1 h4
        split
        · -- first pass kept (or discarded) the child
          rename_i frag posY hfp
          have hfrag : ∀ f, frag = some f → FragStacked f ∧ s.posY ≤ f.geo.borderBoxY ∧
              (posY = f.geo.borderBottom ∨ (f.isEmpty = true ∧ posY = s.posY)) := by
            intro f hf
            rcases firstPass_posY _ _ _ _ _ _ _ hfp with ⟨hnone, _⟩ | ⟨f', hf', hrf, hcase⟩
            · rw [hnone] at hf; cases hf
            · rw [hf'] at hf
              simp only [Option.some.injEq] at hf
              subst hf
              obtain ⟨_, hb, hc, hd⟩ := hr3 f' hrf
              refine ⟨hc, hb, ?_⟩
              rcases hcase with ⟨ht, hp⟩ | ⟨_, hp⟩
              · right; exact ⟨hd ht, hp⟩
              · left; exact hp
          have hmb : ∀ f, frag = some f → 0 ≤ f.geo.mb := by
            intro f hf
            rcases firstPass_keep _ _ _ _ _ _ _ hfp with h | h
            · rw [h] at hf; cases hf
            · rw [h] at hf; exact (hr3 f hf).1
          have hs2 := adoptAdj_allNN _
            (layoutBox c child index s.posY bs s.skip st.isRoot (pie && s.newChildren.isEmpty) s.cur).frag.isSome
            _ frag hs1.1 hs1.2 hr2 hmb
          split
          · rename_i out s3 heq
            refine (concludeKid_stack y0 s.posY index pie _ child _ frag _ ?_ ?_ ?_ ?_ ?_).1 out s3 heq
            · simpa using h1
            · simpa using h2
            · exact hs2.1
            · exact hs2.2
            · exact hfrag
          · rename_i s3 heq
            refine kids_stack rest hn.2 c st y0 _ _ _ _ s3
              ((concludeKid_stack y0 s.posY index pie _ child _ frag _ ?_ ?_ ?_ ?_ ?_).2 s3 heq)
            · simpa using h1
            · simpa using h2
            · exact hs2.1
            · exact hs2.2
            · exact hfrag
        · -- second layout with a larger bottom space
          rename_i bs' hfp
          have hr' := box_stack child hn.1 c index s.posY bs' s.skip st.isRoot (pie && s.newChildren.isEmpty)
            (s.setCur (layoutBox c child index s.posY bs s.skip st.isRoot (pie && s.newChildren.isEmpty) s.cur).adjL
              s.curIsL).cur hs1.1
          obtain ⟨hq1, hq2, hq3⟩ := hr'
          have hs1' := setCur_allNN _ _
            (s.setCur (layoutBox c child index s.posY bs s.skip st.isRoot (pie && s.newChildren.isEmpty) s.cur).adjL
              s.curIsL).curIsL hq1 hs1.2
          have hs2 := adoptAdj_allNN _ true _ _ hs1'.1 hs1'.2 hq2 (fun f hf => (hq3 f hf).1)
          have hfrag : ∀ f,
              (layoutBox c child index s.posY bs' s.skip st.isRoot (pie && s.newChildren.isEmpty)
                (s.setCur (layoutBox c child index s.posY bs s.skip st.isRoot (pie && s.newChildren.isEmpty) s.cur).adjL
                  s.curIsL).cur).frag = some f →
              FragStacked f ∧ s.posY ≤ f.geo.borderBoxY := by
            intro f hf
            obtain ⟨_, hb, hc, _⟩ := hq3 f hf
            exact ⟨hc, hb⟩
          split
          · rename_i out s3 heq
            refine (concludeKid_stack y0 s.posY index pie _ child _ _ _ ?_ ?_ ?_ ?_ ?_).1 out s3 heq
            · simpa using h1
            · simpa using h2
            · exact hs2.1
            · exact hs2.2
            · intro f hf
              obtain ⟨ha, hb⟩ := hfrag f hf
              refine ⟨ha, hb, Or.inl ?_⟩
              simp only [hf]; rfl
          · rename_i s3 heq
            refine kids_stack rest hn.2 c st y0 _ _ _ _ s3
              ((concludeKid_stack y0 s.posY index pie _ child _ _ _ ?_ ?_ ?_ ?_ ?_).2 s3 heq)
            · simpa using h1
            · simpa using h2
            · exact hs2.1
            · exact hs2.2
            · intro f hf
              obtain ⟨ha, hb⟩ := hfrag f hf
              refine ⟨ha, hb, Or.inl ?_⟩
              simp only [hf]; rfl
end

end Wp.PM
