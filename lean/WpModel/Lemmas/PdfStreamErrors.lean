/-
Which exceptions `Stream` can raise: `_ctm_stack` stays non-empty, so the only one is the assertion of an unmatched
`pop_state`.  Core Lean only.
-/
import WpModel.Lemmas.PdfWorld
import WpModel.Lemmas.PdfCache
namespace Wp.Pdf

theorem emitAll_ctm (s : SState) (os : List Op) : (s.emitAll os).ctm = s.ctm := by
  rw [emitAll_eq]

theorem setAlpha_ctm (r : Res) (s : SState) (α : Num) (stroke : Bool) (fill : Option Bool) :
    (setAlpha r s α stroke fill).1.ctm = s.ctm := by
  unfold setAlpha alphaStrokePart setAlphaFill setAlphaStroke
  split <;> split <;> (try split) <;> (try split) <;> rfl

theorem setColorOnly_ctm (s : SState) (c : Colour) (stroke : Bool) : (setColorOnly s c stroke).ctm = s.ctm := by
  unfold setColorOnly
  split <;> split <;> first | rfl | (rw [emitAll_ctm])

/-- `_ctm_stack` is never empty after a call that returned. -/
theorem stepS_ctm_ne_nil (r : Res) (s : SState) (c : Call) (s' : SState) (r' : Res) (hne : s.ctm ≠ [])
    (h : stepS r s c = .ok (s', r')) : s'.ctm ≠ [] := by
  cases c with
  | push => simp only [stepS] at h; split at h <;> simp at h; obtain ⟨rfl, rfl⟩ := h; simp [SState.emit]
  | pop =>
    simp only [stepS, Except.map] at h
    cases hp : popState s with
    | error e => rw [hp] at h; simp at h
    | ok sp =>
      rw [hp] at h; simp at h; obtain ⟨rfl, rfl⟩ := h
      obtain ⟨a, b, rest, _, rfl⟩ := popState_ok s sp hp
      simp
  | transform a b c d e f =>
    simp only [stepS] at h; split at h <;> simp at h; obtain ⟨rfl, rfl⟩ := h; simp [SState.emit]
  | beginText =>
    simp only [stepS] at h; simp at h; obtain ⟨rfl, rfl⟩ := h
    unfold beginText; split <;> simpa [SState.emit] using hne
  | endText => simp only [stepS] at h; simp at h; obtain ⟨rfl, rfl⟩ := h; simpa [SState.emit] using hne
  | setColor col stroke =>
    simp only [stepS] at h; simp at h
    have : s' = (setColor r s col stroke).1 := by rw [h]
    subst this
    unfold setColor
    rw [setColorOnly_ctm, setAlpha_ctm]; exact hne
  | setFont f sz =>
    simp only [stepS] at h; split at h <;> simp at h <;> obtain ⟨rfl, rfl⟩ := h
    · exact hne
    · simpa [SState.emit] using hne
  | setAlpha α stroke fill =>
    simp only [stepS] at h; simp at h
    have : s' = (setAlpha r s α stroke fill).1 := by rw [h]
    subst this; rw [setAlpha_ctm]; exact hne
  | setState d => simp only [stepS, setState] at h; simp at h; obtain ⟨rfl, rfl⟩ := h; simpa [SState.emit] using hne
  | softMaskState =>
    simp only [stepS, softMaskState, setState] at h; simp at h; obtain ⟨rfl, rfl⟩ := h; simpa [SState.emit] using hne
  | setBlendMode mode =>
    simp only [stepS, setState] at h; simp at h; obtain ⟨rfl, rfl⟩ := h; simpa [SState.emit] using hne
  | beginMarked et mcid tag =>
    simp only [stepS] at h; simp at h; obtain ⟨rfl, rfl⟩ := h
    unfold beginMarked
    split
    · exact hne
    · split <;> (rw [emitAll_ctm]; exact hne)
  | endMarked =>
    simp only [stepS] at h; split at h <;> simp at h <;> obtain ⟨rfl, rfl⟩ := h
    · exact hne
    · simpa [SState.emit] using hne
  | drawX k => simp only [stepS] at h; simp at h; obtain ⟨rfl, rfl⟩ := h; simpa [SState.emit] using hne
  | paintShading n => simp only [stepS] at h; simp at h; obtain ⟨rfl, rfl⟩ := h; simpa [SState.emit] using hne
  | setColorSpace sp stroke => simp only [stepS] at h; simp at h; obtain ⟨rfl, rfl⟩ := h; simpa [SState.emit] using hne
  | setColorSpecial pat stroke operands =>
    simp only [stepS] at h; simp at h; obtain ⟨rfl, rfl⟩ := h; simpa [SState.emit] using hne
  | raw k args flag text => simp only [stepS] at h; simp at h; obtain ⟨rfl, rfl⟩ := h; simpa [SState.emit] using hne
  | rawTok c token => simp only [stepS] at h; simp at h; obtain ⟨rfl, rfl⟩ := h; simpa [SState.emit] using hne

/-- With a non-empty `_ctm_stack` the only exception a call can raise is the assertion of an unmatched `pop_state`. -/
theorem stepS_error (r : Res) (s : SState) (c : Call) (e : PyErr) (hne : s.ctm ≠ [])
    (h : stepS r s c = .error e) : e = .assertFailed "pop_state:_ctm_stack" ∧ c = .pop := by
  cases c with
  | push => simp only [stepS] at h; split at h <;> simp_all
  | pop =>
    simp only [stepS, Except.map] at h
    cases hp : popState s with
    | ok sp => rw [hp] at h; simp at h
    | error e' =>
      rw [hp] at h; simp at h; subst h
      have hctm : (clearCaches (popOps s)).ctm = s.ctm := by unfold clearCaches popOps; split <;> rfl
      unfold popState at hp
      rw [hctm] at hp
      split at hp
      · rename_i hh; exact absurd hh hne
      · simp at hp; exact ⟨hp.symm, rfl⟩
      · simp at hp
  | transform a b c d e f => simp only [stepS] at h; split at h <;> simp_all
  | setFont f sz => simp only [stepS] at h; split at h <;> simp at h
  | endMarked => simp only [stepS] at h; split at h <;> simp at h
  | _ => simp [stepS] at h

theorem runS_error (calls : List Call) (r : Res) (s : SState) (e : PyErr) (hne : s.ctm ≠ [])
    (h : runS r s calls = .error e) : e = .assertFailed "pop_state:_ctm_stack" := by
  induction calls generalizing r s with
  | nil => simp [runS] at h
  | cons c cs ih =>
    simp only [runS] at h
    split at h
    · rename_i s' r' hs
      exact ih r' s' (stepS_ctm_ne_nil r s c s' r' hne hs) h
    · rename_i e' hs
      simp at h; subst h
      exact (stepS_error r s c e' hne hs).1

end Wp.Pdf
