/-
The world invariant of PM stage 2a: every item that a layout leaves in `absolute_boxes` or registers in
`context.broken_out_of_flow` is a box of the document (`GoodDeep`, inherited from the document) and — for the
registered ones — carries a well-formed resume position. This is what `continuation_segment` /
`next_page_continues` need as hypothesis; with the invariant it holds for every page of every document.
-/
import WpModel.Lemmas.OofFrame

namespace Wp.PMO
open Wp Wp.PM

/-- A registered item is fine: a box of a good document, a well-formed resume position. -/
def EOk (e : Broken) : Prop := GoodDeep e.box ∧ WfSkip e.box (some e.resume)

def WOk (w : World) : Prop := (∀ a ∈ w.absL, GoodDeep a.box) ∧ (∀ e ∈ w.broken, EOk e)

def SOk (s : KidsLoop) : Prop := WOk s.w ∧ ∀ e ∈ s.localBroken, EOk e

def KidsOutcome.loopState : KidsOutcome → KidsLoop
  | .finished s => s
  | .aborted _ s => s
  | .stopped _ s => s

theorem wok_empty : WOk World.empty := ⟨by simp [World.empty], by simp [World.empty]⟩

theorem wok_congr {w w' : World} (h : WOk w) (ha : w'.absL = w.absL) (hb : w'.broken = w.broken) : WOk w' := by
  unfold WOk; rw [ha, hb]; exact h

theorem wok_remove {w : World} (h : WOk w) (l : List Nat) : WOk (w.remove l) := by
  constructor
  · intro a ha
    simp only [World.remove, List.mem_filter] at ha
    exact h.1 a ha.1
  · intro e he
    simp only [World.remove, List.mem_filter] at he
    exact h.2 e he.1

theorem wok_removeDropped {w : World} (h : WOk w) (a b : List OFrag) : WOk (w.removeDropped a b) :=
  wok_remove h _

theorem wok_shift {w : World} (h : WOk w) (l : List Nat) (dy : Rat) : WOk (w.shift l dy) := by
  constructor
  · intro a ha
    simp only [World.shift, List.mem_map] at ha
    obtain ⟨a0, ha0, rfl⟩ := ha
    split
    · exact h.1 a0 ha0
    · exact h.1 a0 ha0
  · exact h.2

theorem wok_dropFrag {w : World} (h : WOk w) (a b : Option OFrag) : WOk (dropFrag w a b) := by
  unfold dropFrag
  split
  · exact wok_remove h _
  · exact h

theorem wok_append_broken {w : World} (h : WOk w) (l : List Broken) (hl : ∀ e ∈ l, EOk e) :
    WOk { w with broken := w.broken ++ l } := by
  refine ⟨h.1, ?_⟩
  intro e he
  simp only [List.mem_append] at he
  rcases he with he | he
  · exact h.2 e he
  · exact hl e he

theorem keptBroken_ok (kids : List OFrag) (lb : List Broken) (h : ∀ e ∈ lb, EOk e) :
    ∀ e ∈ keptBroken kids lb, EOk e := by
  intro e he
  simp only [keptBroken, List.mem_filter] at he
  exact h e he.1

theorem finishContainer_wok (c : Ctx) (st : OStyle) (b : BoxSt) (pie : Bool) (bs : Rat)
    (cwc dbd : Bool) (resume : Option Resume) (posY : Rat) (adjL cur : List Rat) (curIsL : Bool)
    (np : NextPage) (hasKids : Bool) (pageEnd : String) (kids : List OFrag) (lb : List Broken) (w : World)
    (mk : Geo → OFrag) (hw : WOk w) (hl : ∀ e ∈ lb, EOk e) :
    WOk (finishContainer c st b pie bs cwc dbd resume posY adjL cur curIsL np hasKids pageEnd kids lb w mk).w := by
  unfold finishContainer
  split
  · exact wok_remove hw _
  · exact wok_append_broken hw _ (keptBroken_ok kids lb hl)

theorem finishBlock_wok (c : Ctx) (st : OStyle) (p : Prep) (pie : Bool) (id idx : Nat) (out : KidsOutcome)
    (h : SOk out.loopState) : WOk (finishBlock c st p pie id idx out).w := by
  cases out with
  | aborted page s => exact wok_remove h.1 _
  | stopped r s => exact finishContainer_wok _ _ _ _ _ _ _ _ _ _ _ _ _ _ _ _ _ _ _ h.1 h.2
  | finished s => exact finishContainer_wok _ _ _ _ _ _ _ _ _ _ _ _ _ _ _ _ _ _ _ h.1 h.2

theorem finishPara_wok (c : Ctx) (st : OStyle) (p : Prep) (pie : Bool) (id idx n : Nat) (r : LineResult)
    (w : World) (h : WOk w) : WOk (finishPara c st p pie id idx n r w).w := by
  unfold finishPara
  dsimp only
  split
  · exact h
  · exact finishContainer_wok _ _ _ _ _ _ _ _ _ _ _ _ _ _ _ _ _ _ _ h (by simp)

theorem preFlow_sok (c : Ctx) (b : BoxSt) (cwc pie : Bool) (child : OBox) (s : KidsLoop) (h : SOk s) :
    SOk (preFlow c b cwc pie child s) := by
  unfold preFlow
  split
  · exact h
  · dsimp only
    split
    · exact ⟨wok_shift h.1 _ _, h.2⟩
    · exact h

@[simp] theorem setCur_lb (s : KidsLoop) (l : List Rat) (b : Bool) : (s.setCur l b).localBroken = s.localBroken := by
  unfold KidsLoop.setCur; split <;> rfl
@[simp] theorem appendCur_lb (s : KidsLoop) (m : Rat) : (s.appendCur m).localBroken = s.localBroken := by
  unfold KidsLoop.appendCur; split <;> rfl
@[simp] theorem adoptAdj_lb (s : KidsLoop) (h : Bool) (a : AdjOut) (f : Option OFrag) :
    (s.adoptAdj h a f).localBroken = s.localBroken := by
  unfold KidsLoop.adoptAdj
  split
  · rfl
  · cases a <;> cases f <;> simp

theorem concludeKid_sok (index : Nat) (pie : Bool) (pb : Brk) (child : OBox) (s : KidsLoop)
    (frag : Option OFrag) (resume : Option Resume) (hs : SOk s) :
    (∀ out s3, concludeKid index pie pb child s frag resume = (some out, s3) → SOk out.loopState) ∧
    (∀ s3, concludeKid index pie pb child s frag resume = (none, s3) → SOk s3) := by
  unfold concludeKid
  cases frag with
  | none =>
    dsimp only
    constructor
    · intro out s3 h
      split at h
      · simp only [Prod.mk.injEq, Option.some.injEq] at h; rw [← h.1]
        exact ⟨wok_removeDropped hs.1 _ _, hs.2⟩
      · split at h
        · simp only [Prod.mk.injEq, Option.some.injEq] at h; rw [← h.1]; exact hs
        · by_cases hall : s.newChildren.all OFrag.isAbs = true
          · simp [hall] at h
            rw [← h.1]; exact ⟨wok_remove hs.1 _, hs.2⟩
          · simp only [hall, Bool.false_eq_true, ↓reduceIte] at h
            by_cases hne : s.newChildren.isEmpty = true
            · simp [hne] at h; rw [← h.1]; exact hs
            · simp [hne] at h; rw [← h.1]; exact hs
    · intro s3 h
      split at h
      · simp at h
      · split at h
        · simp at h
        · by_cases hall : s.newChildren.all OFrag.isAbs = true
          · simp [hall] at h
          · simp only [hall, Bool.false_eq_true, ↓reduceIte] at h
            by_cases hne : s.newChildren.isEmpty = true
            · simp [hne] at h
            · simp [hne] at h
  | some f =>
    cases resume with
    | some r =>
      constructor
      · intro out s3 h
        simp only [Prod.mk.injEq, Option.some.injEq] at h; rw [← h.1]; exact hs
      · intro s3 h; simp at h
    | none =>
      constructor
      · intro out s3 h; simp at h
      · intro s3 h
        simp only [Prod.mk.injEq, true_and] at h; rw [← h]; exact hs

theorem placeAbs_sok (index : Nat) (child : OBox) (hc : child.inFlow = false) (s : KidsLoop) (hs : SOk s)
    (hd : GoodDeep child) : SOk (placeAbs index child hc s) := by
  unfold placeAbs
  refine ⟨⟨?_, hs.1.2⟩, hs.2⟩
  intro a ha
  simp only [List.mem_append, List.mem_singleton] at ha
  rcases ha with ha | rfl
  · exact hs.1.1 a ha
  · exact hd

/-- The resume position a layout returns is well formed (`C01Oof.segment_wf`, at the lemma level). -/
theorem layout_resume_wf (box : OBox) (hg : Good box) (c : Ctx) (idx : Nat) (y bs : Rat)
    (skip : Option Resume) (cb pie : Bool) (adjL : List Rat) (w : World) (hwf : WfSkip box skip) (f : OFrag)
    (h : (layoutBox c box idx y bs skip cb pie adjL w).frag = some f) (ρ : Resume)
    (hρ : (layoutBox c box idx y bs skip cb pie adjL w).resume = some ρ) : WfSkip box (some ρ) := by
  have hs := box_spec box hg c idx y bs skip cb pie adjL w hwf f h
  rw [hρ] at hs
  exact hs.2.2.2

/-- `_out_of_flow_layout` for a float, given what `float_layout` returned. -/
theorem floatStep_sok (c : Ctx) (index : Nat) (pie : Bool) (bs : Rat) (child : OBox) (hc : child.inFlow = false)
    (s : KidsLoop) (r : LayoutResult) (hs : SOk s) (hrw : WOk r.w) (hd : GoodDeep child)
    (hres : ∀ ρ, r.resume = some ρ → WfSkip child (some ρ)) :
    (∀ out s3, floatStep c index pie bs child hc s r = (some out, s3) → SOk out.loopState) ∧
    (∀ s3, floatStep c index pie bs child hc s r = (none, s3) → SOk s3) := by
  unfold floatStep floatDone
  cases hfr : r.frag with
  | none =>
    simp only
    constructor
    · intro out s3 h
      simp only [Prod.mk.injEq, Option.some.injEq] at h
      rw [← h.1]
      exact ⟨wok_congr hrw rfl rfl, hs.2⟩
    · intro s3 h; simp at h
  | some f0 =>
    simp only
    have hw1 : WOk (r.w.shift (fragSers f0) (((placeFloat s.w.shapes f0).withSer r.w.next).geo.y - f0.geo.y)) :=
      wok_shift hrw _ _
    constructor
    · intro out s3 h
      split at h
      · simp at h
      · split at h
        · simp only [Prod.mk.injEq, Option.some.injEq] at h
          rw [← h.1]
          exact ⟨wok_removeDropped (wok_remove (wok_congr hw1 rfl rfl) _) _ _, hs.2⟩
        · simp only [Prod.mk.injEq, Option.some.injEq] at h
          rw [← h.1]
          exact ⟨wok_remove (wok_congr hw1 rfl rfl) _, hs.2⟩
    · intro s3 h
      split at h
      · simp only [Prod.mk.injEq, true_and] at h
        rw [← h]
        refine ⟨wok_congr hw1 rfl rfl, ?_⟩
        intro e he
        simp only [List.mem_append] at he
        rcases he with he | he
        · exact hs.2 e he
        · cases hρ : r.resume with
          | none => rw [hρ] at he; simp at he
          | some ρ =>
            rw [hρ] at he
            simp only [List.mem_singleton] at he
            rw [he]
            exact ⟨hd, hres ρ hρ⟩
      · split at h <;> simp at h

theorem goodDeep_good_wf (box : OBox) (hd : GoodDeep box) (c : Ctx) (idx : Nat) (y bs : Rat) (skip : Option Resume)
    (cb pie : Bool) (adjL : List Rat) (w : World) (hwf : WfSkip box skip)
    (hsome : (layoutBox c box idx y bs skip cb pie adjL w).frag.isSome = true) :
    ∀ ρ, (layoutBox c box idx y bs skip cb pie adjL w).resume = some ρ → WfSkip box (some ρ) := by
  intro ρ hρ
  cases hfr : (layoutBox c box idx y bs skip cb pie adjL w).frag with
  | none => rw [hfr] at hsome; simp at hsome
  | some f => exact layout_resume_wf box (good_of_deep box hd) c idx y bs skip cb pie adjL w hwf f hfr ρ hρ

mutual
/-- **World invariant, one layout**: laying out a box of a good document keeps `absolute_boxes` and
`context.broken_out_of_flow` fine. -/
theorem layoutBox_wok : (box : OBox) → GoodDeep box → ∀ (c : Ctx) (idx : Nat) (y bs : Rat) (skip : Option Resume)
    (cb pie : Bool) (adjL : List Rat) (w : World), WOk w → WOk (layoutBox c box idx y bs skip cb pie adjL w).w
  | .para id n lineH st => by
    intro _ c idx y bs skip cb pie adjL w hw
    simp only [layoutBox, seenByCaller_w]
    exact finishPara_wok _ _ _ _ _ _ _ _ _ hw
  | .block id st kids => by
    intro hd c idx y bs skip cb pie adjL w hw
    simp only [GoodDeep] at hd
    simp only [layoutBox, seenByCaller_w]
    apply finishBlock_wok
    exact layoutKids_sok kids hd.2 _ _ _ _ _ _ _ _ _ ⟨hw, by simp⟩
theorem layoutKids_sok : (kids : List OBox) → GoodDeepList kids → ∀ (c : Ctx) (st : OStyle) (b : BoxSt)
    (cwc : Bool) (index skipIdx : Nat) (bs : Rat) (pie : Bool) (s : KidsLoop), SOk s →
    SOk (layoutKids c st b cwc kids index skipIdx bs pie s).loopState
  | [] => by
    intro _ c st b cwc index skipIdx bs pie s hs
    simpa [layoutKids, KidsOutcome.loopState] using hs
  | child :: rest => by
    intro hd c st b cwc index skipIdx bs pie s hs
    simp only [GoodDeepList] at hd
    unfold layoutKids
    split
    · exact layoutKids_sok rest hd.2 _ _ _ _ _ _ _ _ _ hs
    · split
      · exact layoutKids_sok rest hd.2 _ _ _ _ _ _ _ _ _ (placeAbs_sok _ _ _ _ hs hd.1)
      · dsimp only
        have hr := layoutBox_wok child hd.1 c index
          (floatY s.w.shapes child.st.clear (s.posY + collapseMargin s.cur)) bs none false true []
          { s.w with shapes := [] } (wok_congr hs.1 rfl rfl)
        have hsome := box_some child c index
          (floatY s.w.shapes child.st.clear (s.posY + collapseMargin s.cur)) bs none false []
          { s.w with shapes := [] }
        have hres := goodDeep_good_wf child hd.1 c index
          (floatY s.w.shapes child.st.clear (s.posY + collapseMargin s.cur)) bs none false true []
          { s.w with shapes := [] } (wfSkip_none _) hsome
        have hfs := floatStep_sok c index pie bs child (by
            rename_i hpos; simp [OBox.inFlow, hpos]) s _ hs hr hd.1 hres
        split
        · rename_i out s3 heq
          exact hfs.1 out s3 heq
        · rename_i s3 heq
          exact layoutKids_sok rest hd.2 _ _ _ _ _ _ _ _ _ (hfs.2 s3 heq)
      · dsimp only
        split
        · exact ⟨hs.1, hs.2⟩
        · have h0 := preFlow_sok c { b with y := s.boxY } cwc pie child s hs
          have hr := layoutBox_wok child hd.1 c index s.posY bs
            (preFlow c { b with y := s.boxY } cwc pie child s).skip st.isRoot
            (pienc pie (preFlow c { b with y := s.boxY } cwc pie child s))
            (preFlow c { b with y := s.boxY } cwc pie child s).cur
            (preFlow c { b with y := s.boxY } cwc pie child s).w h0.1
          split
          · rename_i frag posY hfp
            have hs2 : ∀ s2 : KidsLoop, s2.w = dropFrag (layoutBox c child index s.posY bs
                  (preFlow c { b with y := s.boxY } cwc pie child s).skip st.isRoot
                  (pienc pie (preFlow c { b with y := s.boxY } cwc pie child s))
                  (preFlow c { b with y := s.boxY } cwc pie child s).cur
                  (preFlow c { b with y := s.boxY } cwc pie child s).w).w
                  (layoutBox c child index s.posY bs
                  (preFlow c { b with y := s.boxY } cwc pie child s).skip st.isRoot
                  (pienc pie (preFlow c { b with y := s.boxY } cwc pie child s))
                  (preFlow c { b with y := s.boxY } cwc pie child s).cur
                  (preFlow c { b with y := s.boxY } cwc pie child s).w).frag frag →
                s2.localBroken = (preFlow c { b with y := s.boxY } cwc pie child s).localBroken → SOk s2 := by
              intro s2 hw hl
              refine ⟨?_, ?_⟩
              · rw [hw]; exact wok_dropFrag hr _ _
              · rw [hl]; exact h0.2
            split
            · rename_i out s3 heq
              exact (concludeKid_sok _ _ _ _ _ _ _ (hs2 _ rfl (by simp))).1 out s3 heq
            · rename_i s3 heq
              exact layoutKids_sok rest hd.2 _ _ _ _ _ _ _ _ _
                ((concludeKid_sok _ _ _ _ _ _ _ (hs2 _ rfl (by simp))).2 s3 heq)
          · rename_i bs' hfp
            have hs2 : ∀ s2 : KidsLoop, WOk s2.w →
                s2.localBroken = (preFlow c { b with y := s.boxY } cwc pie child s).localBroken → SOk s2 := by
              intro s2 hw hl
              exact ⟨hw, by rw [hl]; exact h0.2⟩
            split
            · rename_i out s3 heq
              refine (concludeKid_sok _ _ _ _ _ _ _ (hs2 _ ?_ (by simp))).1 out s3 heq
              simp only [adoptAdj_w]
              exact layoutBox_wok child hd.1 _ _ _ _ _ _ _ _ _ (wok_dropFrag hr _ _)
            · rename_i s3 heq
              refine layoutKids_sok rest hd.2 _ _ _ _ _ _ _ _ _
                ((concludeKid_sok _ _ _ _ _ _ _ (hs2 _ ?_ (by simp))).2 s3 heq)
              simp only [adoptAdj_w]
              exact layoutBox_wok child hd.1 _ _ _ _ _ _ _ _ _ (wok_dropFrag hr _ _)
end

/-! ### pages -/

theorem eok_of (box : OBox) (hd : GoodDeep box) (ρ : Resume) (h : WfSkip box (some ρ)) (ser idx : Nat)
    (hoof : box.inFlow = false) : EOk { ser := ser, box := box, idx := idx, resume := ρ, oof := hoof } := ⟨hd, h⟩

/-- `absolute_box_layout` with the nested absolutely positioned boxes keeps the world fine, and the resume
position it returns is well formed. -/
theorem layoutAbs_wok (c : Ctx) : ∀ (fuel : Nat) (box : OBox), GoodDeep box → ∀ (idx : Nat) (y : Rat)
    (skip : Option Resume) (w : World), WOk w → WOk (layoutAbs c fuel box idx y skip w).w
  | 0, box, hd, idx, y, skip, w, hw => by
    rw [layoutAbs]
    have hr := layoutBox_wok box hd c idx y 0 skip false true [] { w with shapes := [], absL := [] }
      ⟨by simp, hw.2⟩
    exact ⟨hw.1, hr.2⟩
  | fuel + 1, box, hd, idx, y, skip, w, hw => by
    rw [layoutAbs_succ]
    have hr := layoutBox_wok box hd c idx y 0 skip false true [] { w with shapes := [], absL := [] }
      ⟨by simp, hw.2⟩
    have hfold : ∀ (es : List AbsEntry) (acc : World × List (Nat × OFrag)), (∀ a ∈ es, GoodDeep a.box) →
        WOk acc.1 → WOk (es.foldl (nestedAbsStep c fuel) acc).1 := by
      intro es
      induction es with
      | nil => intro acc _ h; exact h
      | cons e es ih =>
        intro acc hes hacc
        simp only [List.foldl_cons]
        apply ih _ (fun a ha => hes a (List.mem_cons_of_mem _ ha))
        have hde := hes e List.mem_cons_self
        have hrn := layoutAbs_wok c fuel e.box hde e.idx e.y none acc.1 hacc
        unfold nestedAbsStep
        dsimp only
        split
        · exact wok_congr hrn rfl rfl
        · rename_i f hf
          apply wok_append_broken hrn
          intro b hb
          cases hρ : (layoutAbs c fuel e.box e.idx e.y none acc.1).resume with
          | none => rw [hρ] at hb; simp at hb
          | some ρ =>
            rw [hρ] at hb
            simp only [List.mem_singleton] at hb
            rw [hb]
            refine ⟨hde, ?_⟩
            rw [layoutAbs_resume] at hρ
            exact goodDeep_good_wf e.box hde c e.idx e.y 0 none false true [] _ (wfSkip_none _)
              (box_some e.box c e.idx e.y 0 none false [] _) ρ hρ
    have hwa := hfold _ ({ (layoutBox c box idx y 0 skip false true [] { w with shapes := [], absL := [] }).w
      with absL := [] }, []) hr.1 ⟨by simp, hr.2⟩
    exact ⟨hw.1, hwa.2⟩

theorem layoutAbs_resume_wf (c : Ctx) (fuel : Nat) (box : OBox) (hd : GoodDeep box) (idx : Nat) (y : Rat)
    (skip : Option Resume) (w : World) (hwf : WfSkip box skip) (ρ : Resume)
    (hρ : (layoutAbs c fuel box idx y skip w).resume = some ρ) : WfSkip box (some ρ) := by
  rw [layoutAbs_resume] at hρ
  exact goodDeep_good_wf box hd c idx y 0 skip false true [] _ hwf (box_some box c idx y 0 skip false [] _) ρ hρ

theorem absStep_wok (c : Ctx) (acc : World × List (Nat × OFrag)) (e : AbsEntry) (hacc : WOk acc.1)
    (hd : GoodDeep e.box) : WOk (absStep c acc e).1 := by
  unfold absStep
  dsimp only
  have hr := layoutAbs_wok c (boxDepth e.box) e.box hd e.idx e.y none acc.1 hacc
  split
  · exact wok_congr hr rfl rfl
  · apply wok_append_broken hr
    intro b hb
    cases hρ : (layoutAbs c (boxDepth e.box) e.box e.idx e.y none acc.1).resume with
    | none => rw [hρ] at hb; simp at hb
    | some ρ =>
      rw [hρ] at hb
      simp only [List.mem_singleton] at hb
      rw [hb]
      exact ⟨hd, layoutAbs_resume_wf c _ e.box hd e.idx e.y none acc.1 (wfSkip_none _) ρ hρ⟩

theorem absFold_wok (c : Ctx) : ∀ (es : List AbsEntry) (acc : World × List (Nat × OFrag)),
    (∀ a ∈ es, GoodDeep a.box) → WOk acc.1 → WOk (es.foldl (absStep c) acc).1
  | [], _, _, h => h
  | e :: es, acc, hes, hacc => by
    simp only [List.foldl_cons]
    exact absFold_wok c es _ (fun a ha => hes a (List.mem_cons_of_mem _ ha))
      (absStep_wok c acc e hacc (hes e List.mem_cons_self))

theorem contStep_wok (c : Ctx) (rootTop : Rat) (acc : World × List OFrag) (e : Broken) (hacc : WOk acc.1)
    (he : EOk e) : WOk (contStep c rootTop acc e).1 := by
  unfold contStep
  dsimp only
  split
  · -- a float
    have hr := layoutBox_wok e.box he.1 c 0 (floatY acc.1.shapes e.box.st.clear rootTop) 0 (some e.resume)
      false true [] { acc.1 with shapes := [] } (wok_congr hacc rfl rfl)
    have hsome := box_some e.box c 0 (floatY acc.1.shapes e.box.st.clear rootTop) 0 (some e.resume) false []
      { acc.1 with shapes := [] }
    have hwf := goodDeep_good_wf e.box he.1 c 0 (floatY acc.1.shapes e.box.st.clear rootTop) 0 (some e.resume)
      false true [] { acc.1 with shapes := [] } he.2 hsome
    unfold floatDone
    cases hfr : (layoutBox c e.box 0 (floatY acc.1.shapes e.box.st.clear rootTop) 0 (some e.resume) false true []
        { acc.1 with shapes := [] }).frag with
    | none => rw [hfr] at hsome; simp at hsome
    | some f0 =>
      simp only
      apply wok_append_broken (wok_congr (wok_shift hr _ _) rfl rfl)
      intro b hb
      cases hρ : (layoutBox c e.box 0 (floatY acc.1.shapes e.box.st.clear rootTop) 0 (some e.resume) false true []
          { acc.1 with shapes := [] }).resume with
      | none => rw [hρ] at hb; simp at hb
      | some ρ =>
        rw [hρ] at hb
        simp only [List.mem_singleton] at hb
        rw [hb]
        exact ⟨he.1, hwf ρ hρ⟩
  · -- an absolutely positioned box
    have hr := layoutAbs_wok c (boxDepth e.box) e.box he.1 e.idx rootTop (some e.resume) acc.1 hacc
    split
    · exact wok_congr hr rfl rfl
    · apply wok_append_broken (wok_congr hr rfl rfl)
      intro b hb
      cases hρ : (layoutAbs c (boxDepth e.box) e.box e.idx rootTop (some e.resume) acc.1).resume with
      | none => rw [hρ] at hb; simp at hb
      | some ρ =>
        rw [hρ] at hb
        simp only [List.mem_singleton] at hb
        rw [hb]
        exact ⟨he.1, layoutAbs_resume_wf c _ e.box he.1 e.idx rootTop (some e.resume) acc.1 he.2 ρ hρ⟩

theorem contFold_wok (c : Ctx) (rootTop : Rat) : ∀ (es : List Broken) (acc : World × List OFrag),
    (∀ e ∈ es, EOk e) → WOk acc.1 → WOk (es.foldl (contStep c rootTop) acc).1
  | [], _, _, h => h
  | e :: es, acc, hes, hacc => by
    simp only [List.foldl_cons]
    exact contFold_wok c rootTop es _ (fun a ha => hes a (List.mem_cons_of_mem _ ha))
      (contStep_wok c rootTop acc e hacc (hes e List.mem_cons_self))

theorem goodDeep_emptyRoot (b : OBox) (h : GoodDeep b) : GoodDeep (emptyRoot b) := by
  cases b with
  | para id n lh st => simpa [emptyRoot, GoodDeep] using h
  | block id st kids =>
    simp only [GoodDeep] at h
    simp [emptyRoot, GoodDeep, GoodDeepList, h.1]

/-- **World invariant, one page**: what a page of a good document registers for the next page is fine. -/
theorem remakePage_registered_ok (d : Doc) (hd : GoodDeep d.root) (index : Nat) (resume : Option Resume)
    (np : NextPage) (right : Bool) (brokenIn : List Broken) (rootTop : Rat) (p : Page)
    (hin : ∀ e ∈ brokenIn, EOk e) (hp : remakePage d index resume np right brokenIn rootTop = some p) :
    ∀ e ∈ p.broken, EOk e := by
  unfold remakePage at hp
  dsimp only at hp
  split at hp
  · simp at hp
  · rename_i f hfrag
    simp only [Option.some.injEq] at hp
    subst hp
    have hwc := contFold_wok { pageBottom := d.pageH, currentPage := index + 1, forcedBreak := forcedBreakOf np }
      rootTop brokenIn (World.empty, []) hin wok_empty
    have hroot : GoodDeep (if isBlank (requestedSide d.rootLtr np.brk) right = true then emptyRoot d.root
        else d.root) := by
      split
      · exact goodDeep_emptyRoot _ hd
      · exact hd
    have hr := layoutBox_wok _ hroot { pageBottom := d.pageH, currentPage := index + 1, forcedBreak := forcedBreakOf np }
      0 0 0 resume false true [] _ hwc
    exact (absFold_wok _ _ _ hr.1 ⟨by simp, hr.2⟩).2

/-- **World invariant, whole document**: every page of a good document registers fine items only. -/
theorem makeAllPages_registered_ok (d : Doc) (hd : GoodDeep d.root) : ∀ (fuel index : Nat)
    (resume : Option Resume) (np : NextPage) (right : Bool) (brokenIn : List Broken) (rootTop : Rat)
    (pages : List Page), (∀ e ∈ brokenIn, EOk e) →
    makeAllPages d fuel index resume np right brokenIn rootTop = some pages →
    ∀ p ∈ pages, ∀ e ∈ p.broken, EOk e
  | 0, _, _, _, _, _, _, _, _, h => by simp [makeAllPages] at h
  | fuel + 1, index, resume, np, right, brokenIn, rootTop, pages, hin, h => by
    unfold makeAllPages at h
    split at h
    · cases h
    · rename_i p hp
      have hpok := remakePage_registered_ok d hd index resume np right brokenIn rootTop p hin hp
      split at h
      · simp only [Option.some.injEq] at h
        rw [← h]
        intro q hq
        simp only [List.mem_singleton] at hq
        rw [hq]; exact hpok
      · split at h
        · rename_i ps hps
          simp only [Option.some.injEq] at h
          rw [← h]
          intro q hq
          simp only [List.mem_cons] at hq
          rcases hq with rfl | hq
          · exact hpok
          · exact makeAllPages_registered_ok d hd fuel _ _ _ _ _ _ ps hpok hps q hq
        · cases h

end Wp.PMO
