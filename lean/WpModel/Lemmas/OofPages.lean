/-
From `layoutBox` to pages in the extended model: the in-flow lines of the page's final root fragment
(continuations prepended, placeholders replaced by the laid-out absolute boxes) are those of the raw root
fragment; what `remakePage` / `makeAllPages` do to the in-flow lines and to the position.
-/
import WpModel.Lemmas.OofBlock

namespace Wp.PMO
open Wp Wp.PM

theorem boxPost_lines (box : OBox) (skip : Option Resume) (pie : Bool) (frag : Option OFrag)
    (resume : Option Resume) (f : OFrag) (h : BoxPost box skip pie frag resume) (hf : frag = some f) :
    fragLines f ++ restOut box resume = linesFrom box skip := by
  have := h f hf
  cases resume with
  | none =>
    simp only at this
    simp [restOut, full_lines _ _ _ this]
  | some r => exact this.1

/-! ### the final root fragment -/

mutual
theorem substAbs_lines (res : List (Nat × OFrag)) (hres : ∀ p ∈ res, p.2.inFlow = false) :
    (f : OFrag) → fragLines (substAbs res f) = fragLines f ∨ f.inFlow = false
  | .para _ _ _ _ _ _ _ => by simp [substAbs]
  | .block _ _ _ _ _ kids => by
    left
    simp only [substAbs, fragLines]
    exact substAbsList_lines res hres kids
  | .ph _ _ _ _ => by right; rfl
theorem substAbs_inFlow (res : List (Nat × OFrag)) (hres : ∀ p ∈ res, p.2.inFlow = false) :
    (f : OFrag) → (substAbs res f).inFlow = f.inFlow
  | .para _ _ _ _ _ _ _ => by simp [substAbs]
  | .block _ _ _ _ _ kids => by simp [substAbs, OFrag.inFlow]
  | .ph ser _ _ _ => by
    simp only [substAbs]
    cases hl : res.lookup ser with
    | none => rfl
    | some f =>
      simp only
      have hm : (ser, f) ∈ res := by
        clear hres
        induction res with
        | nil => simp at hl
        | cons p ps ih =>
          obtain ⟨a, b⟩ := p
          simp only [List.lookup_cons] at hl
          split at hl
          · rename_i heq
            simp only [Option.some.injEq] at hl
            simp only [beq_iff_eq] at heq
            simp [heq, hl]
          · simp [ih hl]
      rw [hres _ hm]; rfl
theorem substAbsList_lines (res : List (Nat × OFrag)) (hres : ∀ p ∈ res, p.2.inFlow = false) :
    (fs : List OFrag) → fragLinesList (substAbsList res fs) = fragLinesList fs
  | [] => rfl
  | f :: fs => by
    simp only [substAbsList, fragLinesList, substAbs_inFlow res hres f, substAbsList_lines res hres fs]
    rcases substAbs_lines res hres f with h | h
    · rw [h]
    · simp [h]
end

theorem fragLinesList_oof (fs : List OFrag) (h : ∀ f ∈ fs, f.inFlow = false) : fragLinesList fs = [] := by
  induction fs with
  | nil => rfl
  | cons f fs ih =>
    simp only [fragLinesList]
    rw [h f (by simp), ih (fun g hg => h g (by simp [hg]))]
    simp

theorem finishRoot_lines (height : Len) (shapes : List Shape) (conts : List OFrag) (f : OFrag)
    (h : ∀ g ∈ conts, g.inFlow = false) : fragLines (finishRoot height shapes conts f) = fragLines f := by
  cases f with
  | para _ _ _ _ _ _ _ => rfl
  | ph _ _ _ _ => rfl
  | block ser id idx st g kids =>
    simp only [finishRoot, fragLines, fragLinesList_append, fragLinesList_oof conts h, List.nil_append]

theorem finalRoot_lines (height : Len) (shapes : List Shape) (conts : List OFrag) (res : List (Nat × OFrag))
    (f : OFrag) (hc : ∀ g ∈ conts, g.inFlow = false) (hres : ∀ p ∈ res, p.2.inFlow = false)
    (hroot : f.isPh = false) :
    fragLines (finishRoot height shapes conts (substAbs res f)) = fragLines f := by
  rw [finishRoot_lines _ _ _ _ hc]
  cases f with
  | para _ _ _ _ _ _ _ => simp [substAbs]
  | ph ser id idx y => simp [OFrag.isPh] at hroot
  | block ser id idx st g kids =>
    simp only [substAbs, fragLines]
    exact substAbsList_lines res hres kids

/-- A layout never returns a bare placeholder. -/
theorem layoutBox_frag_isPh (c : Ctx) (box : OBox) (idx : Nat) (y bs : Rat) (skip : Option Resume)
    (cb pie : Bool) (adjL : List Rat) (w : World) (f : OFrag)
    (h : (layoutBox c box idx y bs skip cb pie adjL w).frag = some f) : f.isPh = false := by
  cases box with
  | para id n lineH st =>
    simp only [layoutBox, seenByCaller_frag] at h
    unfold finishPara at h
    dsimp only at h
    split at h
    · simp [abortResult] at h
    · obtain ⟨⟨g, rfl⟩, _⟩ := finishContainer_frag _ _ _ _ _ _ _ _ _ _ _ _ _ _ _ _ _ _ _ _ h
      rfl
  | block id st kids =>
    simp only [layoutBox, seenByCaller_frag] at h
    unfold finishBlock at h
    split at h
    · simp [abortResult] at h
    · obtain ⟨⟨g, rfl⟩, _⟩ := finishContainer_frag _ _ _ _ _ _ _ _ _ _ _ _ _ _ _ _ _ _ _ _ h
      rfl
    · obtain ⟨⟨g, rfl⟩, _⟩ := finishContainer_frag _ _ _ _ _ _ _ _ _ _ _ _ _ _ _ _ _ _ _ _ h
      rfl

/-! ### continuations and the page's absolute boxes are out of the flow -/

theorem floatDone_inFlow (shapes0 : List Shape) (r : LayoutResult) (f : OFrag) (ser : Nat) (w : World)
    (h : floatDone shapes0 r = (some (f, ser), w)) : ∃ f0, r.frag = some f0 ∧ f.inFlow = f0.inFlow := by
  unfold floatDone at h
  split at h
  · simp at h
  · rename_i f0 hf0
    simp only [Prod.mk.injEq, Option.some.injEq] at h
    refine ⟨f0, hf0, ?_⟩
    rw [← h.1.1]
    simp

theorem substAbs_inFlow_of_notPh (res : List (Nat × OFrag)) (f : OFrag) (h : f.isPh = false) :
    (substAbs res f).inFlow = f.inFlow := by
  cases f with
  | para _ _ _ _ _ _ _ => rfl
  | block _ _ _ _ _ _ => rfl
  | ph _ _ _ _ => simp [OFrag.isPh] at h

/-- `absolute_box_layout` (with the nested absolutely positioned boxes laid out and put in place of their
placeholders) returns a fragment of the box itself: what `block_container_layout` returned, or that fragment
with laid-out boxes in place of placeholders. -/
theorem layoutAbs_frag (c : Ctx) (fuel : Nat) (box : OBox) (idx : Nat) (y : Rat) (skip : Option Resume) (w : World)
    (f : OFrag) (h : (layoutAbs c fuel box idx y skip w).frag = some f) :
    ∃ f0 res, (layoutBox c box idx y 0 skip false true [] { w with shapes := [], absL := [] }).frag = some f0 ∧
      (f = f0 ∨ f = substAbs res f0) ∧ f0.isPh = false := by
  cases fuel with
  | zero =>
    rw [layoutAbs] at h
    exact ⟨f, [], h, Or.inl rfl, layoutBox_frag_isPh _ _ _ _ _ _ _ _ _ _ _ h⟩
  | succ n =>
    rw [layoutAbs] at h
    simp only [Option.map_eq_some_iff] at h
    obtain ⟨f0, hf0, rfl⟩ := h
    exact ⟨f0, _, hf0, Or.inr rfl, layoutBox_frag_isPh _ _ _ _ _ _ _ _ _ _ _ hf0⟩

theorem layoutAbs_frag_inFlow (c : Ctx) (fuel : Nat) (box : OBox) (idx : Nat) (y : Rat) (skip : Option Resume)
    (w : World) (f : OFrag) (h : (layoutAbs c fuel box idx y skip w).frag = some f) : f.inFlow = box.inFlow := by
  obtain ⟨f0, res, hf0, hf, hph⟩ := layoutAbs_frag c fuel box idx y skip w f h
  rcases hf with rfl | rfl
  · exact layoutBox_frag_inFlow _ _ _ _ _ _ _ _ _ _ _ hf0
  · rw [substAbs_inFlow_of_notPh res f0 hph]
    exact layoutBox_frag_inFlow _ _ _ _ _ _ _ _ _ _ _ hf0

/-- The step of the loop `for child_placeholder in absolute_boxes: absolute_layout(…)` of `absolute_block`. -/
def nestedAbsStep (c : Ctx) (fuel : Nat) (acc : World × List (Nat × OFrag)) (e : AbsEntry) :
    World × List (Nat × OFrag) :=
  let rn := layoutAbs c fuel e.box e.idx e.y none acc.1
  match rn.frag with
  | none => ({ rn.w with crash := true }, acc.2)
  | some f =>
    let broken : List Broken := match rn.resume with
      | some ρ => [{ ser := e.ser, box := e.box, idx := e.idx, resume := ρ, oof := e.oof }]
      | none => []
    ({ rn.w with broken := rn.w.broken ++ broken }, acc.2 ++ [(e.ser, f)])

theorem layoutAbs_succ (c : Ctx) (fuel : Nat) (box : OBox) (idx : Nat) (y : Rat) (skip : Option Resume) (w : World) :
    layoutAbs c (fuel + 1) box idx y skip w =
      (let r := layoutBox c box idx y 0 skip false true [] { w with shapes := [], absL := [] }
       let wa := r.w.absL.foldl (nestedAbsStep c fuel) ({ r.w with absL := [] }, [])
       { r with frag := r.frag.map (substAbs wa.2), w := { wa.1 with shapes := w.shapes, absL := w.absL } }) := by
  rw [layoutAbs]
  rfl

/-- The nested boxes put in place of their placeholders are out of the flow. -/
theorem nestedAbsFold_oof (c : Ctx) (fuel : Nat) (es : List AbsEntry) (acc : World × List (Nat × OFrag))
    (h : ∀ p ∈ acc.2, p.2.inFlow = false) :
    ∀ p ∈ (es.foldl (nestedAbsStep c fuel) acc).2, p.2.inFlow = false := by
  induction es generalizing acc with
  | nil => simpa using h
  | cons e es ih =>
    simp only [List.foldl_cons]
    apply ih
    unfold nestedAbsStep
    dsimp only
    split
    · exact h
    · rename_i f hf
      intro p hp
      simp only [List.mem_append, List.mem_singleton] at hp
      rcases hp with hp | rfl
      · exact h p hp
      · simp only
        rw [layoutAbs_frag_inFlow _ _ _ _ _ _ _ _ hf, e.oof]

theorem layoutAbs_resume (c : Ctx) (fuel : Nat) (box : OBox) (idx : Nat) (y : Rat) (skip : Option Resume) (w : World) :
    (layoutAbs c fuel box idx y skip w).resume =
      (layoutBox c box idx y 0 skip false true [] { w with shapes := [], absL := [] }).resume := by
  cases fuel with
  | zero => rw [layoutAbs]
  | succ n => rw [layoutAbs_succ]

/-- The in-flow lines of an absolutely positioned box are those of its `block_container_layout`: the nested
boxes laid out in place of their placeholders are out of its flow. -/
theorem layoutAbs_lines (c : Ctx) (fuel : Nat) (box : OBox) (idx : Nat) (y : Rat) (skip : Option Resume) (w : World)
    (f : OFrag) (h : (layoutAbs c fuel box idx y skip w).frag = some f) :
    ∃ f0, (layoutBox c box idx y 0 skip false true [] { w with shapes := [], absL := [] }).frag = some f0 ∧
      fragLines f = fragLines f0 := by
  cases fuel with
  | zero => rw [layoutAbs] at h; exact ⟨f, h, rfl⟩
  | succ n =>
    rw [layoutAbs_succ] at h
    simp only [Option.map_eq_some_iff] at h
    obtain ⟨f0, hf0, rfl⟩ := h
    refine ⟨f0, hf0, ?_⟩
    have hph := layoutBox_frag_isPh _ _ _ _ _ _ _ _ _ _ _ hf0
    have hres := nestedAbsFold_oof c n
      (layoutBox c box idx y 0 skip false true [] { w with shapes := [], absL := [] }).w.absL
      ({ (layoutBox c box idx y 0 skip false true [] { w with shapes := [], absL := [] }).w with absL := [] }, [])
      (fun p hp => by simp at hp)
    cases f0 with
    | para _ _ _ _ _ _ _ => simp [substAbs]
    | block _ _ _ _ _ kids =>
      simp only [substAbs, fragLines]
      exact substAbsList_lines _ hres kids
    | ph _ _ _ _ => simp [OFrag.isPh] at hph

/-! ### continuations are real fragments (never bare placeholders), and keep their lines under `set_laid_out_box` -/

@[simp] theorem isPh_translate (f : OFrag) (dy : Rat) : (f.translate dy).isPh = f.isPh := by
  cases f <;> simp [OFrag.translate, OFrag.isPh]

@[simp] theorem isPh_withSer (f : OFrag) (k : Nat) : (f.withSer k).isPh = f.isPh := by
  cases f <;> rfl

@[simp] theorem isPh_placeFloat (shapes : List Shape) (f : OFrag) : (placeFloat shapes f).isPh = f.isPh := by
  unfold placeFloat
  split
  · split <;> simp
  · simp

theorem floatDone_isPh (shapes0 : List Shape) (r : LayoutResult) (f : OFrag) (ser : Nat) (w : World)
    (h : floatDone shapes0 r = (some (f, ser), w)) : ∃ f0, r.frag = some f0 ∧ f.isPh = f0.isPh := by
  unfold floatDone at h
  split at h
  · simp at h
  · rename_i f0 hf0
    simp only [Prod.mk.injEq, Option.some.injEq] at h
    refine ⟨f0, hf0, ?_⟩
    rw [← h.1.1]
    simp

theorem substAbs_isPh_of_notPh (res : List (Nat × OFrag)) (f : OFrag) (h : f.isPh = false) :
    (substAbs res f).isPh = false := by
  cases f with
  | para _ _ _ _ _ _ _ => rfl
  | block _ _ _ _ _ _ => rfl
  | ph _ _ _ _ => simp [OFrag.isPh] at h

theorem substAbs_lines_of_notPh (res : List (Nat × OFrag)) (hres : ∀ p ∈ res, p.2.inFlow = false) (f : OFrag)
    (h : f.isPh = false) : fragLines (substAbs res f) = fragLines f := by
  cases f with
  | para _ _ _ _ _ _ _ => simp [substAbs]
  | block _ _ _ _ _ kids =>
    simp only [substAbs, fragLines]
    exact substAbsList_lines res hres kids
  | ph _ _ _ _ => simp [OFrag.isPh] at h

theorem layoutAbs_frag_isPh (c : Ctx) (fuel : Nat) (box : OBox) (idx : Nat) (y : Rat) (skip : Option Resume)
    (w : World) (f : OFrag) (h : (layoutAbs c fuel box idx y skip w).frag = some f) : f.isPh = false := by
  obtain ⟨f0, res, _, hf, hph⟩ := layoutAbs_frag c fuel box idx y skip w f h
  rcases hf with rfl | rfl
  · exact hph
  · exact substAbs_isPh_of_notPh res f0 hph

theorem contStep_notPh (c : Ctx) (rootTop : Rat) (acc : World × List OFrag) (e : Broken)
    (h : ∀ g ∈ acc.2, g.isPh = false) : ∀ g ∈ (contStep c rootTop acc e).2, g.isPh = false := by
  unfold contStep
  dsimp only
  split
  · split
    · exact h
    · rename_i f ser w' hfd
      obtain ⟨f0, hf0, hfl⟩ := floatDone_isPh _ _ _ _ _ hfd
      intro g hg
      simp only [List.mem_append, List.mem_singleton] at hg
      rcases hg with hg | rfl
      · exact h g hg
      · rw [hfl]; exact layoutBox_frag_isPh _ _ _ _ _ _ _ _ _ _ _ hf0
  · split
    · exact h
    · rename_i f hf
      intro g hg
      simp only [List.mem_append, List.mem_singleton] at hg
      rcases hg with hg | rfl
      · exact h g hg
      · exact layoutAbs_frag_isPh _ _ _ _ _ _ _ _ hf

/-- The root of a block box is laid out as a block fragment (so `make_page` can put the continuations in front
of its children). -/
theorem layoutBox_block_frag (c : Ctx) (id : Nat) (st : OStyle) (kids : List OBox) (idx : Nat) (y bs : Rat)
    (skip : Option Resume) (cb pie : Bool) (adjL : List Rat) (w : World) (f : OFrag)
    (h : (layoutBox c (.block id st kids) idx y bs skip cb pie adjL w).frag = some f) :
    ∃ g ks, f = .block 0 id idx st g ks := by
  simp only [layoutBox, seenByCaller_frag] at h
  unfold finishBlock at h
  split at h
  · simp [abortResult] at h
  · obtain ⟨⟨g, rfl⟩, _⟩ := finishContainer_frag _ _ _ _ _ _ _ _ _ _ _ _ _ _ _ _ _ _ _ _ h
    exact ⟨_, _, rfl⟩
  · obtain ⟨⟨g, rfl⟩, _⟩ := finishContainer_frag _ _ _ _ _ _ _ _ _ _ _ _ _ _ _ _ _ _ _ _ h
    exact ⟨_, _, rfl⟩

theorem contStep_oof (c : Ctx) (rootTop : Rat) (acc : World × List OFrag) (e : Broken)
    (h : ∀ g ∈ acc.2, g.inFlow = false) : ∀ g ∈ (contStep c rootTop acc e).2, g.inFlow = false := by
  unfold contStep
  dsimp only
  split
  · split
    · exact h
    · rename_i f ser w' hfd
      obtain ⟨f0, hf0, hfl⟩ := floatDone_inFlow _ _ _ _ _ hfd
      intro g hg
      simp only [List.mem_append, List.mem_singleton] at hg
      rcases hg with hg | rfl
      · exact h g hg
      · rw [hfl, layoutBox_frag_inFlow _ _ _ _ _ _ _ _ _ _ _ hf0, e.oof]
  · split
    · exact h
    · rename_i f hf
      intro g hg
      simp only [List.mem_append, List.mem_singleton] at hg
      rcases hg with hg | rfl
      · exact h g hg
      · rw [layoutAbs_frag_inFlow _ _ _ _ _ _ _ _ hf, e.oof]

theorem contFold_oof (c : Ctx) (rootTop : Rat) (es : List Broken) (acc : World × List OFrag)
    (h : ∀ g ∈ acc.2, g.inFlow = false) : ∀ g ∈ (es.foldl (contStep c rootTop) acc).2, g.inFlow = false := by
  induction es generalizing acc with
  | nil => simpa using h
  | cons e es ih => exact ih _ (contStep_oof c rootTop acc e h)

theorem substAbsList_oof (res : List (Nat × OFrag)) (hres : ∀ p ∈ res, p.2.inFlow = false) :
    ∀ (gs : List OFrag), (∀ g ∈ gs, g.inFlow = false) → ∀ g ∈ substAbsList res gs, g.inFlow = false
  | [], _ => by simp [substAbsList]
  | g :: gs, h => by
    intro g' hg'
    simp only [substAbsList, List.mem_cons] at hg'
    rcases hg' with rfl | hg'
    · rw [substAbs_inFlow res hres]; exact h g List.mem_cons_self
    · exact substAbsList_oof res hres gs (fun x hx => h x (List.mem_cons_of_mem _ hx)) g' hg'

theorem absStep_oof (c : Ctx) (acc : World × List (Nat × OFrag)) (e : AbsEntry)
    (h : ∀ p ∈ acc.2, p.2.inFlow = false) : ∀ p ∈ (absStep c acc e).2, p.2.inFlow = false := by
  unfold absStep
  dsimp only
  split
  · exact h
  · rename_i f hf
    intro p hp
    simp only [List.mem_append, List.mem_singleton] at hp
    rcases hp with hp | rfl
    · exact h p hp
    · simp only
      rw [layoutAbs_frag_inFlow _ _ _ _ _ _ _ _ hf, e.oof]

theorem absFold_oof (c : Ctx) (es : List AbsEntry) (acc : World × List (Nat × OFrag))
    (h : ∀ p ∈ acc.2, p.2.inFlow = false) : ∀ p ∈ (es.foldl (absStep c) acc).2, p.2.inFlow = false := by
  induction es generalizing acc with
  | nil => simpa using h
  | cons e es ih => exact ih _ (absStep_oof c acc e h)

/-! ### blank pages lay out an emptied root -/

theorem good_emptyRoot (b : OBox) (h : Good b) : Good (emptyRoot b) := by
  cases b with
  | para id n lh st => simpa [emptyRoot, Good] using h
  | block id st kids =>
    simp only [Good] at h
    simp [emptyRoot, Good, GoodList, h.1]

theorem linesFrom_emptyRoot (b : OBox) (σ : Option Resume) : linesFrom (emptyRoot b) σ = [] := by
  cases b with
  | para id n lh st => simp [emptyRoot, linesFrom, paraLines]
  | block id st kids => simp [emptyRoot, linesFrom, linesFromKids]

theorem wfSkip_emptyRoot (b : OBox) (σ : Option Resume) : WfSkip (emptyRoot b) σ := by
  cases b with
  | para id n lh st => simp [emptyRoot, WfSkip]
  | block id st kids => simp [emptyRoot, WfSkip, WfSkipKids]

/-- What `remake_page` does, read off its definition: the raw root fragment `f` comes from one
`layoutBox` call on the (emptied, if blank) root with `page_is_empty = true`; the page's root has the same
in-flow lines. -/
theorem remakePage_spec (d : Doc) (index : Nat) (resume : Option Resume) (np : NextPage) (right : Bool)
    (brokenIn : List Broken) (rootTop : Rat) (p : Page)
    (hp : remakePage d index resume np right brokenIn rootTop = some p) :
    p.type.blank = isBlank (requestedSide d.rootLtr np.brk) right ∧
    (p.type.blank = true → p.resume = resume ∧ p.nextPage = np ∧
      ∃ c w f, (layoutBox c (emptyRoot d.root) 0 0 0 resume false true [] w).frag = some f ∧
        fragLines p.root = fragLines f) ∧
    (p.type.blank = false →
      ∃ c w f, (layoutBox c d.root 0 0 0 resume false true [] w).frag = some f ∧
        fragLines p.root = fragLines f ∧
        p.resume = (layoutBox c d.root 0 0 0 resume false true [] w).resume) := by
  unfold remakePage at hp
  dsimp only at hp
  split at hp
  · simp at hp
  · rename_i f hfrag
    simp only [Option.some.injEq] at hp
    subst hp
    have hph := fun c root w (h : (layoutBox c root 0 0 0 resume false true [] w).frag = some f) =>
      layoutBox_frag_isPh c root 0 0 0 resume false true [] w f h
    refine ⟨rfl, ?_, ?_⟩
    · intro hb
      simp only at hb
      simp only [hb, ↓reduceIte] at hfrag ⊢
      exact ⟨trivial, trivial, _, _, f, hfrag,
        finalRoot_lines _ _ _ _ f
          (substAbsList_oof _ (absFold_oof _ _ (_, []) (fun q hq => by simp at hq)) _
            (contFold_oof _ _ _ (World.empty, []) (fun g hg => by simp at hg)))
          (absFold_oof _ _ (_, []) (fun q hq => by simp at hq)) (hph _ _ _ hfrag)⟩
    · intro hb
      simp only at hb
      simp only [hb, Bool.false_eq_true, ↓reduceIte] at hfrag ⊢
      exact ⟨_, _, f, hfrag,
        finalRoot_lines _ _ _ _ f
          (substAbsList_oof _ (absFold_oof _ _ (_, []) (fun q hq => by simp at hq)) _
            (contFold_oof _ _ _ (World.empty, []) (fun g hg => by simp at hg)))
          (absFold_oof _ _ (_, []) (fun q hq => by simp at hq)) (hph _ _ _ hfrag), rfl⟩

/-- In-flow lines and position of one page. -/
theorem remakePage_lines (d : Doc) (hg : Good d.root) (index : Nat) (resume : Option Resume) (np : NextPage)
    (right : Bool) (brokenIn : List Broken) (rootTop : Rat) (p : Page) (hwf : WfSkip d.root resume)
    (hp : remakePage d index resume np right brokenIn rootTop = some p) :
    (p.type.blank = true → fragLines p.root = [] ∧ p.resume = resume ∧ p.nextPage = np) ∧
    (p.type.blank = false →
      fragLines p.root ++ restOut d.root p.resume = linesFrom d.root resume ∧
      WfSkip d.root p.resume ∧
      ∀ r, p.resume = some r → pos d.root resume < pos d.root (some r)) := by
  obtain ⟨_, h1, h2⟩ := remakePage_spec d index resume np right brokenIn rootTop p hp
  constructor
  · intro hb
    obtain ⟨hr, hn, c, w, f, hf, hl⟩ := h1 hb
    refine ⟨?_, hr, hn⟩
    have hs := box_spec (emptyRoot d.root) (good_emptyRoot _ hg) c 0 0 0 resume false true [] w
      (wfSkip_emptyRoot _ _)
    have := boxPost_lines _ _ _ _ _ _ hs hf
    rw [linesFrom_emptyRoot] at this
    rw [hl]
    exact (List.append_eq_nil_iff.mp this).1
  · intro hb
    obtain ⟨c, w, f, hf, hl, hr⟩ := h2 hb
    have hs := box_spec d.root hg c 0 0 0 resume false true [] w hwf
    rw [hr, hl]
    refine ⟨boxPost_lines _ _ _ _ _ _ hs hf, ?_, ?_⟩
    · cases hres : (layoutBox c d.root 0 0 0 resume false true [] w).resume with
      | none => exact wfSkip_none _
      | some r =>
        have := hs f hf
        rw [hres] at this
        exact this.2.2.2
    · intro r hr'
      have := hs f hf
      rw [hr'] at this
      exact this.2.2.1 rfl

def pagesLines : List Page → List (Nat × Nat)
  | [] => []
  | p :: ps => fragLines p.root ++ pagesLines ps

theorem makeAllPages_lines (d : Doc) (hg : Good d.root) : ∀ (fuel index : Nat) (resume : Option Resume)
    (np : NextPage) (right : Bool) (brokenIn : List Broken) (rootTop : Rat) (pages : List Page),
    (resume = none → isBlank (requestedSide d.rootLtr np.brk) right = false) →
    WfSkip d.root resume →
    makeAllPages d fuel index resume np right brokenIn rootTop = some pages →
    pagesLines pages = linesFrom d.root resume := by
  intro fuel
  induction fuel with
  | zero => intro index resume np right bi rt pages _ _ h; simp [makeAllPages] at h
  | succ fuel ih =>
    intro index resume np right bi rt pages hstart hwf h
    unfold makeAllPages at h
    split at h
    · cases h
    · rename_i p hp
      obtain ⟨hbl, hb1, _⟩ := remakePage_spec d index resume np right bi rt p hp
      obtain ⟨l1, l2⟩ := remakePage_lines d hg index resume np right bi rt p hwf hp
      cases hb : p.type.blank with
      | true =>
        obtain ⟨hl, hr, hn⟩ := l1 hb
        have hrs : resume ≠ none := by
          intro he
          have := hstart he
          rw [← hbl, hb] at this
          cases this
        split at h
        · rename_i hnone; rw [hr] at hnone; exact absurd hnone hrs
        · rename_i r hsome
          split at h
          · rename_i ps hps
            simp only [Option.some.injEq] at h
            subst h
            simp only [pagesLines, hl, List.nil_append]
            rw [hr] at hps
            rw [ih (index + 1) resume p.nextPage (!right) _ _ ps (fun he => absurd he hrs) hwf hps]
          · cases h
      | false =>
        obtain ⟨hl, hw, _⟩ := l2 hb
        split at h
        · rename_i hnone
          simp only [Option.some.injEq] at h
          subst h
          rw [hnone] at hl
          simpa [pagesLines, restOut] using hl
        · rename_i r hsome
          split at h
          · rename_i ps hps
            simp only [Option.some.injEq] at h
            subst h
            simp only [pagesLines]
            rw [ih (index + 1) p.resume p.nextPage (!right) _ _ ps (by rw [hsome]; intro he; cases he) hw hps]
            rw [hsome] at hl ⊢
            exact hl
          · cases h

end Wp.PMO
