/-
From `layoutBox` to pages, for every document (fixed heights allowed).
-/
import WpModel.Lemmas.LossyBlock
import WpModel.Lemmas.SegmentPages

namespace Wp.PM
open Wp

def restFree (box : PBox) : Option Resume → List (Nat × Nat)
  | none => []
  | some r => freeFrom box (some r)

theorem boxPostT_sand (box : PBox) (skip : Option Resume) (frag : Option Frag) (resume : Option Resume)
    (f : Frag) (h : BoxPostT box skip false frag resume) (hf : frag = some f) :
    SandT false (fragLines f) (restOut box resume) (restFree box resume) (linesFrom box skip) (freeFrom box skip) ∧
    ∀ r, resume = some r → pos box skip < pos box (some r) := by
  have := h f hf
  cases resume with
  | none =>
    simp only at this
    exact ⟨partT_sand f box skip false this, by intro r hr; cases hr⟩
  | some r =>
    simp only at this
    refine ⟨this.2.1, ?_⟩
    intro r' hr'
    cases hr'
    exact this.2.2

theorem wf_emptyRoot (b : PBox) (h : WellFormed b) : WellFormed (emptyRoot b) := by
  cases b with
  | para id n lh st => simpa [emptyRoot, WellFormed] using h
  | block id st kids => simp [emptyRoot, WellFormed, WellFormedList]

/-- Lines and position of one page, for every document. -/
theorem remakePage_linesT (d : Doc) (hw : WellFormed d.root) (index : Nat) (resume : Option Resume) (np : NextPage)
    (right : Bool) (p : Page) (hp : remakePage d index resume np right = some p) :
    (p.type.blank = true → fragLines p.root = [] ∧ p.resume = resume ∧ p.nextPage = np) ∧
    (p.type.blank = false →
      SandT false (fragLines p.root) (restOut d.root p.resume) (restFree d.root p.resume)
        (linesFrom d.root resume) (freeFrom d.root resume) ∧
      ∀ r, p.resume = some r → pos d.root resume < pos d.root (some r)) := by
  obtain ⟨_, h1, h2⟩ := remakePage_spec d index resume np right p hp
  constructor
  · intro hb
    obtain ⟨hr, hn, c, hf⟩ := h1 hb
    refine ⟨?_, hr, hn⟩
    have hs := box_specT (emptyRoot d.root) (wf_emptyRoot _ hw) c 0 0 0 resume false true [] false
    have := (boxPostT_sand _ _ _ _ _ hs hf).1.2
    rw [linesFrom_emptyRoot] at this
    have := List.eq_nil_of_sublist_nil this
    exact (List.append_eq_nil_iff.mp this).1
  · intro hb
    obtain ⟨c, hf, hr⟩ := h2 hb
    have hs := box_specT d.root hw c 0 0 0 resume false true [] false
    rw [hr]
    exact boxPostT_sand _ _ _ _ _ hs hf

/-- **All pages, every document**: the lines shown are sandwiched between the free lines and all the lines
designated by the start position. -/
theorem makeAllPages_linesT (d : Doc) (hw : WellFormed d.root) : ∀ (fuel index : Nat) (resume : Option Resume)
    (np : NextPage) (right : Bool) (pages : List Page),
    (resume = none → isBlank (requestedSide d.rootLtr np.brk) right = false) →
    makeAllPages d fuel index resume np right = some pages →
    SandT false (pagesLines pages) [] [] (linesFrom d.root resume) (freeFrom d.root resume) := by
  intro fuel
  induction fuel with
  | zero => intro index resume np right pages _ h; simp [makeAllPages] at h
  | succ fuel ih =>
    intro index resume np right pages hstart h
    unfold makeAllPages at h
    split at h
    · cases h
    · rename_i p hp
      obtain ⟨hbl, _, _⟩ := remakePage_spec d index resume np right p hp
      obtain ⟨l1, l2⟩ := remakePage_linesT d hw index resume np right p hp
      cases hb : p.type.blank with
      | true =>
        obtain ⟨hl, hr, hn⟩ := l1 hb
        have hrs : resume ≠ none := by
          intro he
          have := hstart he
          rw [← hbl, hb] at this
          cases this
        split at h
        · rename_i hnone; rw [hr] at hnone; exact absurd hnone hrs
        · rename_i r hsome
          split at h
          · rename_i ps hps
            simp only [Option.some.injEq] at h
            subst h
            simp only [pagesLines, hl, List.nil_append]
            rw [hr] at hps
            exact ih (index + 1) resume p.nextPage (!right) ps (fun he => absurd he hrs) hps
          · cases h
      | false =>
        obtain ⟨hl, _⟩ := l2 hb
        split at h
        · rename_i hnone
          simp only [Option.some.injEq] at h
          subst h
          rw [hnone] at hl
          simpa [pagesLines, restOut, restFree] using hl
        · rename_i r hsome
          split at h
          · rename_i ps hps
            simp only [Option.some.injEq] at h
            subst h
            simp only [pagesLines]
            have hrest := ih (index + 1) p.resume p.nextPage (!right) ps (by rw [hsome]; intro he; cases he) hps
            rw [hsome] at hl hrest
            simp only [restOut, restFree] at hl
            exact sandT_trans false _ _ _ _ _ _ _ _ hl hrest
          · cases h

mutual
theorem freeFrom_noFixed : (b : PBox) → NoFixedHeight b → ∀ σ, freeFrom b σ = linesFrom b σ
  | .para id n lh st => by
    intro h σ
    simp only [NoFixedHeight] at h
    simp [freeFrom, linesFrom, fixedSt, h]
  | .block id st kids => by
    intro h σ
    simp only [NoFixedHeight] at h
    simp only [freeFrom, linesFrom, fixedSt, h.1, Option.isSome_none, Bool.false_eq_true, ↓reduceIte]
    exact freeFromKids_noFixed kids h.2 _ _
theorem freeFromKids_noFixed : (bs : List PBox) → NoFixedHeightList bs → ∀ k sub,
    freeFromKids bs k sub = linesFromKids bs k sub
  | [] => by intro _ k sub; simp [freeFromKids, linesFromKids]
  | b :: bs => by
    intro h k sub
    simp only [NoFixedHeightList] at h
    cases k with
    | zero =>
      simp only [freeFromKids, linesFromKids]
      rw [freeFrom_noFixed b h.1, freeFromKids_noFixed bs h.2]
    | succ k =>
      simp only [freeFromKids, linesFromKids]
      exact freeFromKids_noFixed bs h.2 k sub
end

end Wp.PM
