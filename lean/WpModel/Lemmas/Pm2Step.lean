/-
One iteration of the children loop of `block_container_layout` (`layoutKids`), factored for proofs:
`kidResult` = the layout result of the child that `_in_flow_layout` finally uses (first layout, or the second
one with a larger bottom space), the fragment possibly discarded, and the loop state handed to
`concludeKid`. The model itself is not changed: `layoutKids_cons` is an equation about it.
-/
import WpModel.Lemmas.SegmentBlock

namespace Wp.PM
open Wp

/-- (fragment kept for the child, the `block_level_layout` result it comes from, loop state before
`concludeKid`). -/
def kidResult (c : Ctx) (st : PStyle) (child : PBox) (index : Nat) (bs : Rat) (pie : Bool) (s : KidsLoop) :
    Option Frag × LayoutResult × KidsLoop :=
  let pienc := pie && s.newChildren.isEmpty
  let r := layoutBox c child index s.posY bs s.skip st.isRoot pienc s.cur
  let s1 := s.setCur r.adjL s.curIsL
  match firstPass c bs pienc s.posY r with
  | .keep frag posY =>
    (frag, r, { s1.adoptAdj r.frag.isSome r.adj frag with posY := posY, nextPage := r.nextPage, skip := none })
  | .redo bs' =>
    let r2 := layoutBox c child index s.posY bs' s.skip st.isRoot pienc s1.cur
    let s1' := s1.setCur r2.adjL s1.curIsL
    let posY := match r2.frag with
      | some f2 => f2.geo.borderBoxY + f2.geo.borderHeight
      | none => s.posY
    (r2.frag, r2, { s1'.adoptAdj true r2.adj r2.frag with posY := posY, nextPage := r2.nextPage, skip := none })

/-- One visited child of the loop. -/
theorem layoutKids_cons (c : Ctx) (st : PStyle) (child : PBox) (rest : List PBox) (index skipIdx : Nat)
    (bs : Rat) (pie : Bool) (s : KidsLoop) (h : ¬ index < skipIdx) :
    layoutKids c st (child :: rest) index skipIdx bs pie s =
      if (meetBreak s child).2 then
        .stopped (some (.node index none))
          { s with nextPage := { brk := some (meetBreak s child).1, page := some (boxPageStart child) } }
      else
        match concludeKid index pie (meetBreak s child).1 child (kidResult c st child index bs pie s).2.2
            (kidResult c st child index bs pie s).1 (kidResult c st child index bs pie s).2.1.resume with
        | (some out, _) => out
        | (none, s3) => layoutKids c st rest (index + 1) skipIdx bs pie s3 := by
  rw [layoutKids]
  simp only [h, ↓reduceIte]
  split
  · rfl
  · unfold kidResult
    dsimp only
    split <;> rename_i heq <;> simp only [heq] <;> rfl

/-- A skipped child of the loop. -/
theorem layoutKids_skip (c : Ctx) (st : PStyle) (child : PBox) (rest : List PBox) (index skipIdx : Nat)
    (bs : Rat) (pie : Bool) (s : KidsLoop) (h : index < skipIdx) :
    layoutKids c st (child :: rest) index skipIdx bs pie s =
      layoutKids c st rest (index + 1) skipIdx bs pie s := by
  rw [layoutKids]
  simp only [h, ↓reduceIte]

/-- What `kidResult` is: the result of one `layoutBox` call on the child (same skip stack, `page_is_empty`
only if nothing was placed yet), its fragment possibly discarded; the loop state keeps its children. -/
theorem kidResult_spec (c : Ctx) (st : PStyle) (child : PBox) (index : Nat) (bs : Rat) (pie : Bool)
    (s : KidsLoop) :
    ∃ bs' adj,
      (kidResult c st child index bs pie s).2.1 =
        layoutBox c child index s.posY bs' s.skip st.isRoot (pie && s.newChildren.isEmpty) adj ∧
      ((kidResult c st child index bs pie s).1 = none ∨
        (kidResult c st child index bs pie s).1 = (kidResult c st child index bs pie s).2.1.frag) ∧
      (kidResult c st child index bs pie s).2.2.newChildren = s.newChildren ∧
      (kidResult c st child index bs pie s).2.2.nextPage = (kidResult c st child index bs pie s).2.1.nextPage ∧
      (kidResult c st child index bs pie s).2.2.skip = none := by
  unfold kidResult
  dsimp only
  split
  · rename_i frag posY hfp
    refine ⟨bs, s.cur, rfl, ?_, by simp, rfl, rfl⟩
    exact firstPass_keep _ _ _ _ _ _ _ hfp
  · exact ⟨_, _, rfl, Or.inr rfl, by simp, rfl, rfl⟩

end Wp.PM
