/-
Post-condition of `layoutBox` / `layoutKids` for every document (fixed heights allowed): mutual structural
induction over `PBox` / `List PBox`.
-/
import WpModel.Lemmas.LossyPara
import WpModel.Lemmas.Pm2EndValid

namespace Wp.PM
open Wp

/-- One fragment per processed child. -/
def AlignT (fs : List Frag) (B : List PBox) (i0 : Nat) (sub0 : Option Resume) (fl : Bool) : Prop :=
  PartFromT fs B i0 sub0 fl ∧ fs.length = B.length

/-- Post-condition of the children loop (`fl` = the block or an ancestor has a fixed height). -/
def KidsPostT (all : List PBox) (i0 : Nat) (sub0 : Option Resume) (fl : Bool) : KidsOutcome → Prop
  | .finished s' => AlignT s'.newChildren all i0 sub0 fl
  | .aborted _ _ => True
  | .stopped ρ s' => ∃ m, ρ.isSome = true ∧ skipIdxOf ρ = i0 + m ∧ PartFromT s'.newChildren all i0 sub0 true ∧
      SandT fl (fragLinesList s'.newChildren) (linesFromKids all m (subSkipOf ρ)) (freeFromKids all m (subSkipOf ρ))
        (linesFromKids all 0 sub0) (freeFromKids all 0 sub0) ∧
      posKids all 0 sub0 < posKids all m (subSkipOf ρ)

theorem alignT_free (fs : List Frag) (B : List PBox) (i0 : Nat) (sub0 : Option Resume) (fl : Bool)
    (h : AlignT fs B i0 sub0 fl) : fl = false → (freeFromKids B 0 sub0).Sublist (fragLinesList fs) := by
  intro hf; subst hf; exact partFromT_free fs B i0 sub0 h.1

theorem stop_before_specT (B R : List PBox) (i0 : Nat) (sub0 : Option Resume) (fl : Bool) (s' : KidsLoop)
    (hinv : AlignT s'.newChildren B i0 sub0 fl) (hne : s'.newChildren ≠ []) :
    KidsPostT (B ++ R) i0 sub0 fl (.stopped (some (.node (i0 + B.length) none)) s') := by
  have hB : 0 < B.length := by
    rw [← hinv.2]; exact List.length_pos_iff.mpr hne
  refine ⟨B.length, rfl, rfl, partFromT_extend _ _ _ _ _ _ hinv.1, ?_, ?_⟩
  · simp only [subSkipOf_node]
    have h1 := linesFromKids_append_len B R 0 none
    have h2 := freeFromKids_append_len B R 0 none
    simp only [Nat.add_zero] at h1 h2
    rw [h1, h2, linesFromKids_append_lt _ _ _ _ hB, freeFromKids_append_lt _ _ _ _ hB]
    have := sandT_whole_append fl (fragLinesList s'.newChildren) (linesFromKids B 0 sub0) (freeFromKids B 0 sub0) []
      (linesFromKids R 0 none) (freeFromKids R 0 none) _ _ (alignT_free _ _ _ _ _ hinv)
      (partFromT_sub _ _ _ _ _ hinv.1) (sandT_rest fl _ _)
    simpa using this
  · rw [posKids_append_lt _ _ _ _ hB]
    have := posKids_append_len B R 0 none
    simp only [Nat.add_zero] at this
    simp only [subSkipOf_node]
    rw [this]
    have := posKids_lt B 0 sub0 hB
    omega

theorem conclude_specT (index : Nat) (pie : Bool) (pb : Brk) (child : PBox) (s : KidsLoop)
    (frag : Option Frag) (resume : Option Resume) (B rest : List PBox) (i0 : Nat) (sub0 : Option Resume) (fl : Bool)
    (hgB : WellFormedList B) (hinv : AlignT s.newChildren B i0 sub0 fl) (hidx : index = i0 + B.length)
    (hchild : BoxPostT child (if B = [] then sub0 else none) fl frag resume) :
    (∀ out s3, concludeKid index pie pb child s frag resume = (some out, s3) →
      KidsPostT (B ++ child :: rest) i0 sub0 fl out) ∧
    (∀ s3, concludeKid index pie pb child s frag resume = (none, s3) →
      AlignT s3.newChildren (B ++ [child]) i0 sub0 fl ∧ s3.skip = s.skip) := by
  cases frag with
  | none =>
    constructor
    · intro out s3 h
      unfold concludeKid at h
      dsimp only at h
      split at h
      · -- an earlier break
        rename_i kept r' hearlier
        simp only [Prod.mk.injEq, Option.some.injEq] at h
        obtain ⟨rfl, rfl⟩ := h
        have hfound : (findEarlierGo s.newChildren).found = some (kept, r') := by
          split at hearlier
          · exact hearlier
          · cases hearlier
        obtain ⟨m, sub', rfl, hm, hshape, hsand, hpos⟩ := findEarlierGo_specT _ _ _ _ _ hgB hinv.1 kept r' hfound
        have h0 : 0 < B.length := by omega
        refine ⟨m, rfl, rfl, partFromT_extend _ _ _ _ _ _ hshape, ?_, ?_⟩
        · simp only [subSkipOf_node]
          rw [linesFromKids_append_lt _ _ _ _ hm, linesFromKids_append_lt _ _ _ _ h0,
            freeFromKids_append_lt _ _ _ _ hm, freeFromKids_append_lt _ _ _ _ h0]
          exact sandT_frame fl _ _ _ _ _ _ _ hsand
        · simp only [subSkipOf_node]
          rw [posKids_append_lt _ _ _ _ hm, posKids_append_lt _ _ _ _ h0]
          exact hpos
      · split at h
        · simp only [Prod.mk.injEq, Option.some.injEq] at h
          obtain ⟨rfl, rfl⟩ := h
          trivial
        · split at h
          · rename_i hne
            simp only [Prod.mk.injEq, Option.some.injEq] at h
            obtain ⟨rfl, rfl⟩ := h
            rw [hidx]
            apply stop_before_specT _ _ _ _ _ _ hinv
            intro he; rw [he] at hne; simp at hne
          · simp only [Prod.mk.injEq, Option.some.injEq] at h
            obtain ⟨rfl, rfl⟩ := h
            trivial
    · intro s3 h
      unfold concludeKid at h
      dsimp only at h
      split at h
      · simp at h
      · split at h
        · simp at h
        · split at h <;> simp at h
  | some f =>
    have hc := hchild f rfl
    cases resume with
    | some r' =>
      simp only at hc
      obtain ⟨hshape, hsand, hp⟩ := hc
      constructor
      · intro out s3 h
        simp only [concludeKid, Prod.mk.injEq, Option.some.injEq] at h
        obtain ⟨rfl, rfl⟩ := h
        refine ⟨B.length, rfl, by rw [hidx]; rfl, ?_, ?_, ?_⟩
        · have := partFromT_snoc _ B i0 sub0 true (f.withIdx index) child (partFromT_mono _ _ _ _ _ hinv.1) hinv.2
            (partT_withIdx _ _ _ _ _ hshape) (by simp [hidx])
          have := partFromT_extend _ _ rest _ _ _ this
          simpa using this
        · simp only [subSkipOf_node]
          rw [fragLinesList_append, linesFromKids_append_zero', freeFromKids_append_zero]
          have h1 := linesFromKids_append_len B (child :: rest) 0 (some r')
          have h2 := freeFromKids_append_len B (child :: rest) 0 (some r')
          simp only [Nat.add_zero] at h1 h2
          rw [h1, h2]
          simp only [fragLinesList, fragLines_withIdx, List.append_nil, linesFromKids, freeFromKids]
          exact sandT_whole_append fl _ _ _ _ _ _ _ _ (alignT_free _ _ _ _ _ hinv) (partFromT_sub _ _ _ _ _ hinv.1)
            (sandT_frame fl _ _ _ _ _ _ _ hsand)
        · simp only [subSkipOf_node]
          have := posKids_append_len B (child :: rest) 0 (some r')
          simp only [Nat.add_zero] at this
          rw [this]
          have := posKids_append_zero B child rest sub0
          simp only [posKids]
          omega
      · intro s3 h
        simp [concludeKid] at h
    | none =>
      simp only at hc
      constructor
      · intro out s3 h
        simp [concludeKid] at h
      · intro s3 h
        simp only [concludeKid, Prod.mk.injEq, true_and] at h
        subst h
        refine ⟨⟨?_, by simp [hinv.2]⟩, rfl⟩
        apply partFromT_snoc _ _ _ _ _ _ _ hinv.1 hinv.2 (partT_withIdx _ _ _ _ _ hc)
        simp [hidx]

theorem finishBlock_postT (c : Ctx) (st : PStyle) (p : Prep) (pie : Bool) (id idx : Nat) (out : KidsOutcome)
    (kids : List PBox) (skip : Option Resume) (fl : Bool)
    (hout : KidsPostT (kids.drop (skipIdxOf skip)) (skipIdxOf skip) (subSkipOf skip) (fl || fixedSt st) out) :
    BoxPostT (.block id st kids) skip fl (finishBlock c st p pie id idx out).frag
      (finishBlock c st p pie id idx out).resume := by
  intro f hf
  cases out with
  | aborted page s => simp [finishBlock, abortResult] at hf
  | stopped resume s =>
    simp only [finishBlock] at hf ⊢
    obtain ⟨⟨g, rfl⟩, hr⟩ := finishContainer_frag _ _ _ _ _ _ _ _ _ _ _ _ _ _ _ _ _ _ hf
    rw [hr]
    obtain ⟨m, hsome, hidx, hshape, hsand, hpos⟩ := hout
    cases resume with
    | none => simp at hsome
    | some ρ =>
      rcases forgetIfFixed_cases st p.b s.posY (some ρ) with h | h
      · rw [h]
        simp only
        refine ⟨by simp only [PartT, Bool.true_or]; exact hshape, ?_, ?_⟩
        · have hd1 := linesFromKids_drop kids (skipIdxOf skip) m (subSkipOf (some ρ))
          have hd2 := linesFromKids_drop kids (skipIdxOf skip) 0 (subSkipOf skip)
          have hd3 := freeFromKids_drop kids (skipIdxOf skip) m (subSkipOf (some ρ))
          have hd4 := freeFromKids_drop kids (skipIdxOf skip) 0 (subSkipOf skip)
          simp only [Nat.add_zero] at hd2 hd4
          constructor
          · intro hfl
            subst hfl
            simp only [fragLines, freeFrom]
            cases hfx : fixedSt st with
            | true => simp
            | false =>
              simp only [Bool.false_eq_true, ↓reduceIte]
              rw [hidx, hd3, hd4]
              rw [hfx] at hsand
              exact hsand.1 rfl
          · simp only [fragLines, linesFrom]
            rw [hidx, hd1, hd2]
            exact hsand.2
        · simp only [pos]
          rw [hidx, posKids_drop]
          have := posKids_drop kids (skipIdxOf skip) 0 (subSkipOf skip)
          simp only [Nat.add_zero] at this
          rw [this]
          omega
      · rw [h.1]
        simp only [PartT, h.2, Bool.or_true]
        exact hshape
  | finished s =>
    simp only [finishBlock] at hf ⊢
    obtain ⟨⟨g, rfl⟩, hr⟩ := finishContainer_frag _ _ _ _ _ _ _ _ _ _ _ _ _ _ _ _ _ _ hf
    rw [hr]
    simp only [PartT]
    exact hout.1

mutual
/-- **Post-condition of `block_level_layout` for every box** with `orphans, widows ≥ 1` — fixed heights
allowed — every context, position, skip stack. -/
theorem box_specT : (box : PBox) → WellFormed box → ∀ (c : Ctx) (idx : Nat) (y bs : Rat) (skip : Option Resume)
    (cb pie : Bool) (adjL : List Rat) (fl : Bool),
    BoxPostT box skip fl (layoutBox c box idx y bs skip cb pie adjL).frag
      (layoutBox c box idx y bs skip cb pie adjL).resume
  | .para id n lineH st => by
    intro hg c idx y bs skip cb pie adjL fl
    exact para_specT id n lineH st hg c idx y bs skip cb pie adjL fl
  | .block id st kids => by
    intro hg c idx y bs skip cb pie adjL fl
    simp only [WellFormed] at hg
    simp only [layoutBox]
    apply finishBlock_postT
    have := kids_specT kids hg c st (fl || fixedSt st) [] (skipIdxOf skip) (subSkipOf skip) 0 (skipIdxOf skip)
      (prepare c st y bs skip cb pie adjL).bs pie
      { newChildren := [], posY := (prepare c st y bs skip cb pie adjL).posY,
        adjL := (prepare c st y bs skip cb pie adjL).adjL, cur := (prepare c st y bs skip cb pie adjL).cur,
        curIsL := (prepare c st y bs skip cb pie adjL).curIsL,
        nextPage := { brk := none, page := none }, skip := subSkipOf skip }
      (by simp [WellFormedList]) (by simp [AlignT, PartFromT]) (by intro _; exact ⟨rfl, rfl⟩)
      (by intro h; simp; omega) (by simp)
    simpa using this
theorem kids_specT : (rest : List PBox) → WellFormedList rest → ∀ (c : Ctx) (st : PStyle) (fl : Bool)
    (B : List PBox) (i0 : Nat) (sub0 : Option Resume) (index skipIdx : Nat) (bs : Rat) (pie : Bool) (s : KidsLoop),
    WellFormedList B → AlignT s.newChildren B i0 sub0 fl →
    (index < skipIdx → B = [] ∧ i0 = skipIdx) → (skipIdx ≤ index → index = i0 + B.length) →
    s.skip = (if B = [] then sub0 else none) →
    KidsPostT (B ++ rest.drop (skipIdx - index)) i0 sub0 fl (layoutKids c st rest index skipIdx bs pie s)
  | [] => by
    intro _ c st fl B i0 sub0 index skipIdx bs pie s _ hinv _ _ _
    simp only [layoutKids, List.drop_nil, List.append_nil, KidsPostT]
    exact hinv
  | child :: rest => by
    intro hg c st fl B i0 sub0 index skipIdx bs pie s hgB hinv hlt hge hskip
    simp only [WellFormedList] at hg
    by_cases hc : index < skipIdx
    · rw [layoutKids_skip _ _ _ _ _ _ _ _ _ hc]
      obtain ⟨hB, hi0⟩ := hlt hc
      have hd : (child :: rest).drop (skipIdx - index) = rest.drop (skipIdx - (index + 1)) := by
        have : skipIdx - index = (skipIdx - (index + 1)) + 1 := by omega
        rw [this, List.drop_succ_cons]
      rw [hd]
      exact kids_specT rest hg.2 c st fl B i0 sub0 (index + 1) skipIdx bs pie s hgB hinv
        (fun _ => ⟨hB, hi0⟩) (by intro _; subst hB; simp; omega) hskip
    · rw [layoutKids_cons _ _ _ _ _ _ _ _ _ hc]
      have hidx := hge (by omega)
      have hd : skipIdx - index = 0 := by omega
      rw [hd, List.drop_zero]
      split
      · -- forced break before `child`
        rename_i hforced
        rw [hidx]
        apply stop_before_specT _ _ _ _ _ _ hinv
        intro he
        rw [meetBreak_nil s child he] at hforced
        cases hforced
      · obtain ⟨bs', adj, hR, hfr, hnc, _, hsk⟩ := kidResult_spec c st child index bs pie s
        generalize kidResult c st child index bs pie s = kr at hR hfr hnc hsk ⊢
        obtain ⟨frag, R, s2⟩ := kr
        simp only at hR hfr hnc hsk ⊢
        have hchild : BoxPostT child (if B = [] then sub0 else none) fl frag R.resume := by
          rcases hfr with h | h
          · rw [h]; exact boxPostT_none _ _ _ _
          · rw [h, hR, ← hskip]; exact box_specT child hg.1 _ _ _ _ _ _ _ _ _
        have hinv2 : AlignT s2.newChildren B i0 sub0 fl := by rw [hnc]; exact hinv
        split
        · rename_i out s3 heq
          exact (conclude_specT _ _ _ _ _ _ _ B rest i0 sub0 fl hgB hinv2 hidx hchild).1 out s3 heq
        · rename_i s3 heq
          have hcs := (conclude_specT _ _ _ _ _ _ _ B rest i0 sub0 fl hgB hinv2 hidx hchild).2 s3 heq
          have := kids_specT rest hg.2 c st fl (B ++ [child]) i0 sub0 (index + 1) skipIdx bs pie s3
            (wfList_append _ _ hgB (by simp [WellFormedList, hg.1])) hcs.1 (by intro _; omega)
            (by intro _; simp; omega) (by simp [hcs.2, hsk])
          have hd' : skipIdx - (index + 1) = 0 := by omega
          simpa [hd'] using this
end

end Wp.PM
