/-
Document-level invariant of Model/PdfStream `World`: every operator of every stream names keys of the resource
dictionary of the stream that emits it; generated keys are fresh and unique.  Core Lean only.
-/
import WpModel.Lemmas.PdfRes
namespace Wp.Pdf

/-- Document-level invariant: every stream writes to an existing dictionary, every dictionary has fresh unique keys,
every operator of every stream names keys of the dictionary of *that* stream. -/
structure WorldOK (w : World) : Prop where
  resNonempty : 0 < w.res.length
  resIdx : ∀ (i : Nat) (s : SState), w.streams[i]? = some s → s.res < w.res.length
  wf : ∀ (j : Nat) (r : Res), w.res[j]? = some r → r.WF
  good : ∀ (i : Nat) (s : SState) (r : Res), w.streams[i]? = some s → w.res[s.res]? = some r → Good r s

def WCall.scoped (w : World) : WCall → Prop
  | .on h c => ∀ (s : SState) (r : Res), w.streams[h]? = some s → w.res[s.res]? = some r → c.scoped r
  | .assignSh h n => ∀ (s : SState) (r : Res), w.streams[h]? = some s → w.res[s.res]? = some r → n < r.shading
  | _ => True

theorem init_ok (mark : Bool) (n : Nat) : WorldOK (World.init mark n) := by
  refine ⟨by simp [World.init], ?_, ?_, ?_⟩
  · intro i s h
    simp [World.init, List.getElem?_replicate] at h
    obtain ⟨_, rfl⟩ := h; simp [World.init]
  · intro j r h
    simp [World.init] at h
    cases j with
    | zero => simp at h; subst h; exact wf_empty
    | succ j => simp at h
  · intro i s r h _
    simp [World.init, List.getElem?_replicate] at h
    obtain ⟨_, rfl⟩ := h
    intro o ho; simp at ho

/-- Replace dictionary `j` by a larger one and stream `h` (which writes to `j`) by a stream good for it. -/
theorem WorldOK.update {w : World} (hw : WorldOK w) (h j : Nat) (s s' : SState) (r r' : Res)
    (hs : w.streams[h]? = some s) (hj : s.res = j) (hr : w.res[j]? = some r)
    (hres : s'.res = j) (hle : r.le r') (hwf : r.WF → r'.WF) (hgood : Good r s → Good r' s') :
    WorldOK { w with streams := w.streams.set h s', res := w.res.set j r' } := by
  have hjlt : j < w.res.length := by
    rcases List.getElem?_eq_some_iff.mp hr with ⟨hlt, _⟩; exact hlt
  have hhlt : h < w.streams.length := by
    rcases List.getElem?_eq_some_iff.mp hs with ⟨hlt, _⟩; exact hlt
  refine ⟨by simpa using hw.resNonempty, ?_, ?_, ?_⟩
  · intro i t ht
    simp only [List.length_set]
    rw [List.getElem?_set] at ht
    split at ht
    · simp [hhlt] at ht; subst ht; rw [hres]; exact hjlt
    · exact hw.resIdx i t ht
  · intro k q hq
    rw [List.getElem?_set] at hq
    split at hq
    · simp [hjlt] at hq; subst hq; exact hwf (hw.wf j r hr)
    · exact hw.wf k q hq
  · intro i t q ht hq
    rw [List.getElem?_set] at ht
    split at ht
    · simp [hhlt] at ht; subst ht
      rw [hres, List.getElem?_set] at hq
      simp [hjlt] at hq; subst hq
      exact hgood (hw.good h s r hs (hj ▸ hr))
    · rw [List.getElem?_set] at hq
      split at hq
      · rename_i hne heq
        simp [hjlt] at hq; subst hq
        exact Good.mono (hw.good i t r ht (heq ▸ hr)) hle
      · exact hw.good i t q ht hq


theorem getElem?_append_cases {α} (l1 l2 : List α) (i : Nat) (x : α) (h : (l1 ++ l2)[i]? = some x) :
    l1[i]? = some x ∨ (l1.length ≤ i ∧ l2[i - l1.length]? = some x) := by
  by_cases hi : i < l1.length
  · left; rwa [List.getElem?_append_left hi] at h
  · right; rw [List.getElem?_append_right (by omega)] at h; exact ⟨by omega, h⟩

/-- Append streams that write to existing or newly appended dictionaries and are good for them. -/
theorem WorldOK.extend {w : World} (hw : WorldOK w) (news : List SState) (newr : List Res)
    (hidx : ∀ s ∈ news, s.res < w.res.length + newr.length)
    (hwf : ∀ r ∈ newr, r.WF) (hempty : ∀ s ∈ news, s.rops = []) :
    WorldOK { w with streams := w.streams ++ news, res := w.res ++ newr } := by
  refine ⟨by simp; have := hw.resNonempty; omega, ?_, ?_, ?_⟩
  · intro i t ht
    simp only [List.length_append]
    rcases getElem?_append_cases _ _ _ _ ht with h1 | ⟨_, h2⟩
    · have := hw.resIdx i t h1; omega
    · exact hidx t (List.mem_of_getElem? h2)
  · intro k q hq
    rcases getElem?_append_cases _ _ _ _ hq with h1 | ⟨_, h2⟩
    · exact hw.wf k q h1
    · exact hwf q (List.mem_of_getElem? h2)
  · intro i t q ht hq
    rcases getElem?_append_cases _ _ _ _ ht with h1 | ⟨_, h2⟩
    · have hlt := hw.resIdx i t h1
      rw [List.getElem?_append_left hlt] at hq
      exact hw.good i t q h1 hq
    · intro o ho
      rw [hempty t (List.mem_of_getElem? h2)] at ho
      simp at ho


/-- Only dictionary `j` changes (grows). -/
theorem WorldOK.updateRes {w : World} (hw : WorldOK w) (j : Nat) (r r' : Res) (hr : w.res[j]? = some r)
    (hle : r.le r') (hwf : r.WF → r'.WF) : WorldOK { w with res := w.res.set j r' } := by
  have hjlt : j < w.res.length := by
    rcases List.getElem?_eq_some_iff.mp hr with ⟨hlt, _⟩; exact hlt
  refine ⟨by simpa using hw.resNonempty, ?_, ?_, ?_⟩
  · intro i t ht
    simp only [List.length_set]
    exact hw.resIdx i t ht
  · intro k q hq
    rw [List.getElem?_set] at hq
    split at hq
    · simp [hjlt] at hq; subst hq; exact hwf (hw.wf j r hr)
    · exact hw.wf k q hq
  · intro i t q ht hq
    rw [List.getElem?_set] at hq
    split at hq
    · rename_i heq
      simp [hjlt] at hq; subst hq
      exact Good.mono (hw.good i t r ht (heq ▸ hr)) hle
    · exact hw.good i t q ht hq

/-! `res` of a stream never changes -/

theorem emitAll_res (s : SState) (os : List Op) : (s.emitAll os).res = s.res := by
  induction os generalizing s with
  | nil => rfl
  | cons o os ih => simp only [SState.emitAll, List.foldl_cons] at ih ⊢; rw [ih]; rfl

theorem setAlpha_res (r : Res) (s : SState) (α : Num) (stroke : Bool) (fill : Option Bool) :
    (setAlpha r s α stroke fill).1.res = s.res := by
  unfold setAlpha alphaStrokePart setAlphaFill setAlphaStroke
  split <;> split <;> (try split) <;> (try split) <;> rfl

theorem setColorOnly_res (s : SState) (c : Colour) (stroke : Bool) : (setColorOnly s c stroke).res = s.res := by
  unfold setColorOnly
  split <;> split <;> first | rfl | (rw [emitAll_res])

theorem stepS_res (r : Res) (s : SState) (c : Call) (s' : SState) (r' : Res) (h : stepS r s c = .ok (s', r')) :
    s'.res = s.res := by
  cases c with
  | push => simp only [stepS] at h; split at h <;> simp at h; obtain ⟨rfl, rfl⟩ := h; rfl
  | pop =>
    simp only [stepS, Except.map] at h
    cases hp : popState s with
    | error e => rw [hp] at h; simp at h
    | ok sp =>
      rw [hp] at h; simp at h; obtain ⟨rfl, rfl⟩ := h
      unfold popState at hp
      split at hp <;> simp at hp
      subst hp
      simp only [clearCaches, popOps]
      split <;> rfl
  | transform a b c d e f => simp only [stepS] at h; split at h <;> simp at h; obtain ⟨rfl, rfl⟩ := h; rfl
  | beginText =>
    simp only [stepS] at h; simp at h; obtain ⟨rfl, rfl⟩ := h
    unfold beginText; split <;> rfl
  | endText => simp only [stepS] at h; simp at h; obtain ⟨rfl, rfl⟩ := h; rfl
  | setColor col stroke =>
    simp only [stepS] at h; simp at h
    have : s' = (setColor r s col stroke).1 := by rw [h]
    subst this
    unfold setColor
    rw [setColorOnly_res, setAlpha_res]
  | setFont f sz => simp only [stepS] at h; split at h <;> simp at h <;> obtain ⟨rfl, rfl⟩ := h <;> rfl
  | setAlpha α stroke fill =>
    simp only [stepS] at h; simp at h
    have : s' = (setAlpha r s α stroke fill).1 := by rw [h]
    subst this; exact setAlpha_res r s α stroke fill
  | setState d => simp only [stepS, setState] at h; simp at h; obtain ⟨rfl, rfl⟩ := h; rfl
  | softMaskState => simp only [stepS, softMaskState, setState] at h; simp at h; obtain ⟨rfl, rfl⟩ := h; rfl
  | setBlendMode mode => simp only [stepS, setState] at h; simp at h; obtain ⟨rfl, rfl⟩ := h; rfl
  | beginMarked et mcid tag =>
    simp only [stepS] at h; simp at h; obtain ⟨rfl, rfl⟩ := h
    unfold beginMarked
    split
    · rfl
    · split <;> rw [emitAll_res]
  | endMarked => simp only [stepS] at h; split at h <;> simp at h <;> obtain ⟨rfl, rfl⟩ := h <;> rfl
  | drawX k => simp only [stepS] at h; simp at h; obtain ⟨rfl, rfl⟩ := h; rfl
  | paintShading n => simp only [stepS] at h; simp at h; obtain ⟨rfl, rfl⟩ := h; rfl
  | setColorSpace sp stroke => simp only [stepS] at h; simp at h; obtain ⟨rfl, rfl⟩ := h; rfl
  | setColorSpecial pat stroke operands => simp only [stepS] at h; simp at h; obtain ⟨rfl, rfl⟩ := h; rfl
  | raw k args flag text => simp only [stepS] at h; simp at h; obtain ⟨rfl, rfl⟩ := h; rfl
  | rawTok c token => simp only [stepS] at h; simp at h; obtain ⟨rfl, rfl⟩ := h; rfl

theorem onCall_ok (w w' : World) (h : Nat) (c : Call) (hw : WorldOK w) (hs : (WCall.on h c).scoped w)
    (hstep : w.onCall h c = .ok w') : WorldOK w' := by
  unfold World.onCall at hstep
  split at hstep
  · simp at hstep
  · rename_i s hs'
    split at hstep
    · simp at hstep
    · rename_i r hr
      split at hstep
      · simp at hstep
      · rename_i s' r' hst
        simp at hstep; subst hstep
        have hok := stepS_ok r s c s' r' (hs s r hs' hr) hst
        exact hw.update h s.res s s' r r' hs' rfl hr (stepS_res r s c s' r' hst) hok.le hok.wf hok.good


theorem xobj_add_le (r : Res) (k : XKey) (v : Option Nat) : r.le { r with xobj := r.xobj ++ [(k, v)] } := by
  refine ⟨fun _ h => h, ?_, Nat.le_refl _, Nat.le_refl _⟩
  intro k' h
  rw [hasX_iff] at h ⊢
  simp only [List.map_append, List.mem_append]
  exact Or.inl h

theorem addGroup_ok (w w' : World) (h : Nat) (hw : WorldOK w) (hstep : w.addGroup h = .ok w') : WorldOK w' := by
  unfold World.addGroup at hstep
  split at hstep
  · simp at hstep
  · rename_i s hs
    split at hstep
    · simp at hstep
    · rename_i r hr
      simp at hstep; subst hstep
      have h1 := hw.updateRes s.res r { r with xobj := r.xobj ++ [(XKey.x r.xobj.length, some w.streams.length)] } hr
        (xobj_add_le _ _ _) (fun wf => wf.addX _ _ (fresh_x r wf) (by intro n hn; cases hn; rfl))
      have h2 := h1.extend [freshStream s w.res.length (some (XKey.x r.xobj.length).render)] [{}]
        (by intro t ht; simp at ht; subst ht; simp [freshStream])
        (by intro q hq; simp at hq; subst hq; exact wf_empty)
        (by intro t ht; simp at ht; subst ht; rfl)
      exact h2

/-- **Every step of the document machine keeps the invariant** (names passed by callers being registered). -/
theorem World.step_ok (w w' : World) (c : WCall) (hw : WorldOK w) (hs : c.scoped w) (hstep : w.step c = .ok w') :
    WorldOK w' := by
  cases c with
  | on h c => exact onCall_ok w w' h c hw hs hstep
  | addGroup h => exact addGroup_ok w w' h hw hstep
  | addPattern h =>
    simp only [World.step] at hstep
    split at hstep
    · simp at hstep
    · rename_i s hs'
      split at hstep
      · simp at hstep
      · rename_i r hr
        simp at hstep; subst hstep
        have h1 := hw.updateRes s.res r { r with pattern := r.pattern ++ [w.streams.length] } hr
          ⟨fun _ h => h, fun _ h => h, Nat.le_refl _, by simp⟩
          (fun wf => ⟨wf.sPos, wf.xPos, wf.gNodup, wf.xNodup⟩)
        exact h1.extend [freshStream s w.res.length (some ("p" ++ toString r.pattern.length))] [{}]
          (by intro t ht; simp at ht; subst ht; simp [freshStream])
          (by intro q hq; simp at hq; subst hq; exact wf_empty)
          (by intro t ht; simp at ht; subst ht; rfl)
  | addShading h =>
    simp only [World.step] at hstep
    split at hstep
    · simp at hstep
    · rename_i s hs'
      split at hstep
      · simp at hstep
      · rename_i r hr
        simp at hstep; subst hstep
        exact hw.updateRes s.res r { r with shading := r.shading + 1 } hr
          ⟨fun _ h => h, fun _ h => h, Nat.le_succ _, Nat.le_refl _⟩
          (fun wf => ⟨wf.sPos, wf.xPos, wf.gNodup, wf.xNodup⟩)
  | addImage h id interp ratio =>
    simp only [World.step] at hstep
    split at hstep
    · simp at hstep
    · rename_i s hs'
      split at hstep
      · simp at hstep
      · rename_i r hr
        simp at hstep; subst hstep
        have h1 := hw.updateRes s.res r
          (if r.hasX (XKey.img id interp) = true then r else { r with xobj := r.xobj ++ [(XKey.img id interp, none)] }) hr
          (by split; exact Res.le.refl r; exact xobj_add_le _ _ _)
          (by
            intro wf
            split
            · exact wf
            · rename_i hn
              exact wf.addX _ _ (by simpa using hn) (by intro n hn; cases hn))
        exact ⟨h1.resNonempty, h1.resIdx, h1.wf, h1.good⟩
  | setAlphaState h =>
    simp only [World.step] at hstep
    split at hstep
    · simp at hstep
    · rename_i w1 hg
      have h1 := addGroup_ok w w1 h hw hg
      exact onCall_ok w1 w' h _ h1 (by intro s r _ _; trivial) hstep
  | clone h =>
    simp only [World.step] at hstep
    split at hstep
    · simp at hstep
    · rename_i s hs'
      simp at hstep; subst hstep
      have := hw.extend [freshStream s s.res none] []
        (by intro t ht; simp at ht; subst ht; simp [freshStream]; exact hw.resIdx h s hs')
        (by simp) (by intro t ht; simp at ht; subst ht; rfl)
      simpa using this
  | newPage =>
    simp only [World.step] at hstep
    simp at hstep; subst hstep
    have := hw.extend [{ mark := w.mark }] []
      (by intro t ht; simp at ht; subst ht; simp; exact hw.resNonempty)
      (by simp) (by intro t ht; simp at ht; subst ht; rfl)
    simpa using this
  | assignSh h n =>
    simp only [World.step] at hstep
    split at hstep
    · simp at hstep
    · rename_i s hs'
      simp at hstep; subst hstep
      have hhlt : h < w.streams.length := by
        rcases List.getElem?_eq_some_iff.mp hs' with ⟨hlt, _⟩; exact hlt
      refine ⟨hw.resNonempty, ?_, hw.wf, ?_⟩
      · intro i t ht
        rw [List.getElem?_set] at ht
        split at ht
        · simp [hhlt] at ht; subst ht; exact hw.resIdx h s hs'
        · exact hw.resIdx i t ht
      · intro i t q ht hq
        rw [List.getElem?_set] at ht
        split at ht
        · simp [hhlt] at ht; subst ht
          intro o ho
          simp at ho; subst ho
          exact hs s q hs' hq
        · exact hw.good i t q ht hq

/-- Callers pass registered names along the whole run. -/
def ScopedRun (w : World) : List WCall → Prop
  | [] => True
  | c :: cs => c.scoped w ∧ ∀ w', w.step c = .ok w' → ScopedRun w' cs

theorem World.run_ok (cs : List WCall) (w w' : World) (hw : WorldOK w) (hs : ScopedRun w cs)
    (hrun : w.run cs = .ok w') : WorldOK w' := by
  induction cs generalizing w with
  | nil => simp [World.run] at hrun; subst hrun; exact hw
  | cons c cs ih =>
    simp only [World.run] at hrun
    split at hrun
    · rename_i w1 h1
      exact ih w1 (World.step_ok w w1 c hw hs.1 h1) (hs.2 w1 h1) hrun
    · simp at hrun

end Wp.Pdf
