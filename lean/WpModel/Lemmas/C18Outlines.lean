/-
Helper lemmas for C18 (`add_outlines`).  Core Lean only.
-/
import WpModel.Model.Outline

namespace Wp.C18
open Wp Wp.Outline

mutual
/-- Number of nodes of a bookmark subtree. -/
def size : BTree → Nat
  | .node _ _ kids _ => 1 + sizeList kids
def sizeList : List BTree → Nat
  | [] => 0
  | t :: ts => size t + sizeList ts
end

mutual
/-- Number of outline entries a subtree shows in the viewer: itself, and its visible descendants when
it is open. -/
def visNode : BTree → Int
  | .node _ _ kids state => if state == "closed" then 1 else 1 + visList kids
def visList : List BTree → Int
  | [] => 0
  | t :: ts => visNode t + visList ts
end

/-- Object number of the last of the siblings `ts` when they are numbered in pre-order from `num`. -/
def lastTop (num : Nat) : List BTree → Option Nat
  | [] => none
  | [_] => some num
  | t :: t' :: ts => lastTop (num + size t) (t' :: ts)

mutual
/-- Complete specification of one outline dictionary and its descendants: `n` is the outline of `t`,
has object number `num`, the given `Parent` / `Prev` / `Next`, and everything below it is numbered in
pre-order from `num + 1`. -/
def GoodNode (refs : List Nat) (parent prev nxt : Option Nat) (num : Nat) : BTree → ONode → Prop
  | .node title target kids state, .mk o okids =>
    o.num = num ∧ o.title = title ∧ pageReference refs target.page = .ok o.pageRef ∧
    o.x = target.x ∧ o.y = target.y ∧
    o.count = (if state == "closed" then -(visList kids) else visList kids) ∧
    o.prev = prev ∧ o.next = nxt ∧ o.parent = parent ∧
    o.first = (if kids.isEmpty then none else some (num + 1)) ∧
    o.last = lastTop (num + 1) kids ∧
    GoodList refs (some num) none (num + 1) kids okids
/-- Siblings numbered in pre-order from `num`; the first has `prev` as `Prev`, each `Next` is the
number of the following sibling, the last has none. -/
def GoodList (refs : List Nat) (parent prev : Option Nat) (num : Nat) : List BTree → List ONode → Prop
  | [], [] => True
  | t :: ts, n :: ns =>
    GoodNode refs parent prev (if ts.isEmpty then none else some (num + size t)) num t n ∧
    GoodList refs parent (some num) (num + size t) ts ns
  | [], _ :: _ => False
  | _ :: _, [] => False
end

theorem GoodList_headNum {refs : List Nat} {parent prev : Option Nat} {num : Nat} {ts : List BTree}
    {ns : List ONode} (h : GoodList refs parent prev num ts ns) :
    headNum ns = if ts.isEmpty then none else some num := by
  cases ts with
  | nil => cases ns with
    | nil => rfl
    | cons n ns => simp [GoodList] at h
  | cons t ts => cases ns with
    | nil => simp [GoodList] at h
    | cons n ns =>
      cases t with
      | node title target kids state =>
        cases n with
        | mk o okids =>
          simp only [GoodList, GoodNode] at h
          simp [headNum, ONode.outline, h.1.1]

theorem GoodList_lastNum {refs : List Nat} {parent : Option Nat} {ts : List BTree} :
    ∀ {num : Nat} {prev : Option Nat} {ns : List ONode}, GoodList refs parent prev num ts ns →
      lastNum ns = lastTop num ts := by
  induction ts with
  | nil =>
    intro num prev ns h
    cases ns with
    | nil => rfl
    | cons n ns => simp [GoodList] at h
  | cons t ts ih =>
    intro num prev ns h
    cases ns with
    | nil => simp [GoodList] at h
    | cons n ns =>
      cases ts with
      | nil =>
        cases ns with
        | nil =>
          cases t with
          | node title target kids state =>
            cases n with
            | mk o okids =>
              simp only [GoodList, GoodNode] at h
              simp [lastNum, lastTop, ONode.outline, h.1.1]
        | cons n' ns => simp [GoodList] at h
      | cons t' ts =>
        cases ns with
        | nil => simp [GoodList] at h
        | cons n' ns =>
          have h2 : GoodList refs parent (some num) (num + size t) (t' :: ts) (n' :: ns) := by
            simp only [GoodList] at h; exact h.2
          have := ih h2
          simp only [lastNum, lastTop]; exact this

theorem GoodNode_setNext {refs : List Nat} {parent prev : Option Nat} {num : Nat} {t : BTree}
    {o : Outline} {okids : List ONode} (nxt : Option Nat)
    (h : GoodNode refs parent prev none num t (.mk o okids)) :
    GoodNode refs parent prev nxt num t (.mk { o with next := nxt } okids) := by
  cases t with
  | node title target kids state =>
    rw [GoodNode] at h ⊢
    obtain ⟨h1, h2, h3, h4, h5, h6, h7, _, h9, h10, h11, h12⟩ := h
    exact ⟨h1, h2, h3, h4, h5, h6, h7, rfl, h9, h10, h11, h12⟩

mutual
theorem addOutline_good (refs : List Nat) (parent prev : Option Nat) (next : Nat) :
    ∀ (t : BTree) (n : ONode) (c : Int) (next' : Nat),
      addOutline refs parent prev next t = .ok (n, c, next') →
      GoodNode refs parent prev none next t n ∧ c = visNode t ∧ next' = next + size t
  | .node title target kids state, n, c, next', h => by
    simp only [addOutline] at h
    cases hp : pageReference refs target.page with
    | error e => rw [hp] at h; simp at h
    | ok pref =>
      rw [hp] at h
      simp only [] at h
      cases hk : addOutlineList refs (some next) none (next + 1) kids with
      | error e => rw [hk] at h; simp at h
      | ok r =>
        obtain ⟨okids, cc, nx⟩ := r
        rw [hk] at h
        simp only [Except.ok.injEq, Prod.mk.injEq] at h
        obtain ⟨hn, hc, hnx⟩ := h
        obtain ⟨hg, hcc, hnx'⟩ := addOutlineList_good refs (some next) none (next + 1) kids okids cc nx hk
        subst hn
        refine ⟨?_, ?_, ?_⟩
        · rw [GoodNode]
          refine ⟨rfl, rfl, hp, rfl, rfl, ?_, rfl, rfl, rfl, ?_, ?_, hg⟩
          · rw [hcc]; split <;> simp
          · rw [GoodList_headNum hg]
          · rw [GoodList_lastNum hg]
        · rw [← hc, hcc]; simp only [visNode]
        · rw [← hnx, hnx']; simp only [size]; omega
theorem addOutlineList_good (refs : List Nat) (parent prev : Option Nat) (next : Nat) :
    ∀ (ts : List BTree) (ns : List ONode) (c : Int) (next' : Nat),
      addOutlineList refs parent prev next ts = .ok (ns, c, next') →
      GoodList refs parent prev next ts ns ∧ c = visList ts ∧ next' = next + sizeList ts
  | [], ns, c, next', h => by
    simp only [addOutlineList, Except.ok.injEq, Prod.mk.injEq] at h
    obtain ⟨h1, h2, h3⟩ := h
    subst h1 h2 h3
    simp [GoodList, visList, sizeList]
  | t :: ts, ns, c, next', h => by
    simp only [addOutlineList] at h
    cases ht : addOutline refs parent prev next t with
    | error e => rw [ht] at h; simp at h
    | ok r =>
      obtain ⟨n, c1, nx1⟩ := r
      obtain ⟨hg1, hc1, hnx1⟩ := addOutline_good refs parent prev next t n c1 nx1 ht
      cases n with
      | mk o okids =>
        rw [ht] at h
        simp only [] at h
        have hnum : o.num = next := by
          cases t with
          | node title target kids state => simp only [GoodNode] at hg1; exact hg1.1
        cases hr : addOutlineList refs parent (some o.num) nx1 ts with
        | error e => rw [hr] at h; simp at h
        | ok r2 =>
          obtain ⟨nodes, c2, nx2⟩ := r2
          rw [hr] at h
          simp only [Except.ok.injEq, Prod.mk.injEq] at h
          obtain ⟨hns, hc, hnx⟩ := h
          obtain ⟨hg2, hc2, hnx2⟩ := addOutlineList_good refs parent (some o.num) nx1 ts nodes c2 nx2 hr
          subst hns
          rw [hnum, hnx1] at hg2
          refine ⟨?_, ?_, ?_⟩
          · simp only [GoodList]
            refine ⟨?_, hg2⟩
            have hh := GoodList_headNum hg2
            have := GoodNode_setNext (headNum nodes) hg1
            rw [hh] at this ⊢
            exact this
          · rw [← hc, hc1, hc2]; simp only [visList]
          · rw [← hnx, hnx2, hnx1]; simp only [sizeList]; omega
end

/-! ### consequences of the specification -/

/-- Siblings form a doubly linked list: `Prev` of the first is `p`, each `Next` is the number of the
following sibling whose `Prev` is this one's number, the last has no `Next`. -/
def Linked : Option Nat → List ONode → Prop
  | _, [] => True
  | p, n :: ns => n.outline.prev = p ∧ n.outline.next = headNum ns ∧ Linked (some n.outline.num) ns

theorem GoodNode_fields {refs : List Nat} {parent prev nxt : Option Nat} {num : Nat} {t : BTree} {n : ONode}
    (h : GoodNode refs parent prev nxt num t n) :
    n.outline.num = num ∧ n.outline.prev = prev ∧ n.outline.next = nxt ∧ n.outline.parent = parent := by
  cases t with
  | node title target kids state =>
    cases n with
    | mk o okids =>
      rw [GoodNode] at h
      exact ⟨h.1, h.2.2.2.2.2.2.1, h.2.2.2.2.2.2.2.1, h.2.2.2.2.2.2.2.2.1⟩

theorem GoodList_linked {refs : List Nat} {parent : Option Nat} {ts : List BTree} :
    ∀ {num : Nat} {prev : Option Nat} {ns : List ONode}, GoodList refs parent prev num ts ns → Linked prev ns := by
  induction ts with
  | nil =>
    intro num prev ns h
    cases ns with
    | nil => trivial
    | cons n ns => simp [GoodList] at h
  | cons t ts ih =>
    intro num prev ns h
    cases ns with
    | nil => simp [GoodList] at h
    | cons n ns =>
      rw [GoodList] at h
      obtain ⟨hn, hrest⟩ := h
      obtain ⟨h1, h2, h3, _⟩ := GoodNode_fields hn
      refine ⟨h2, ?_, ?_⟩
      · rw [h3, GoodList_headNum hrest]
      · rw [h1]; exact ih hrest

theorem GoodList_parent {refs : List Nat} {parent : Option Nat} {ts : List BTree} :
    ∀ {num : Nat} {prev : Option Nat} {ns : List ONode}, GoodList refs parent prev num ts ns →
      ∀ n ∈ ns, n.outline.parent = parent := by
  induction ts with
  | nil =>
    intro num prev ns h
    cases ns with
    | nil => intro n hn; cases hn
    | cons n ns => simp [GoodList] at h
  | cons t ts ih =>
    intro num prev ns h
    cases ns with
    | nil => simp [GoodList] at h
    | cons n ns =>
      rw [GoodList] at h
      intro m hm
      rcases List.mem_cons.mp hm with e | e
      · rw [e]; exact (GoodNode_fields h.1).2.2.2
      · exact ih h.2 m e

theorem GoodList_length {refs : List Nat} {parent : Option Nat} {ts : List BTree} :
    ∀ {num : Nat} {prev : Option Nat} {ns : List ONode}, GoodList refs parent prev num ts ns →
      ns.length = ts.length := by
  induction ts with
  | nil =>
    intro num prev ns h
    cases ns with
    | nil => rfl
    | cons n ns => simp [GoodList] at h
  | cons t ts ih =>
    intro num prev ns h
    cases ns with
    | nil => simp [GoodList] at h
    | cons n ns => rw [GoodList] at h; simp [ih h.2]

theorem GoodList_setParent {refs : List Nat} {parent : Option Nat} (p : Nat) {ts : List BTree} :
    ∀ {num : Nat} {prev : Option Nat} {ns : List ONode}, GoodList refs parent prev num ts ns →
      GoodList refs (some p) prev num ts (ns.map (setParent p)) := by
  induction ts with
  | nil =>
    intro num prev ns h
    cases ns with
    | nil => trivial
    | cons n ns => simp [GoodList] at h
  | cons t ts ih =>
    intro num prev ns h
    cases ns with
    | nil => simp [GoodList] at h
    | cons n ns =>
      rw [GoodList] at h
      rw [List.map_cons, GoodList]
      refine ⟨?_, ih h.2⟩
      cases t with
      | node title target kids state =>
        cases n with
        | mk o okids =>
          have h1 := h.1
          rw [GoodNode] at h1
          rw [setParent, GoodNode]
          obtain ⟨a1, a2, a3, a4, a5, a6, a7, a8, _, a10, a11, a12⟩ := h1
          exact ⟨a1, a2, a3, a4, a5, a6, a7, a8, rfl, a10, a11, a12⟩

mutual
/-- The dictionaries are created in pre-order: their object numbers are consecutive. -/
theorem GoodNode_numbers {refs : List Nat} {parent prev nxt : Option Nat} {num : Nat} :
    ∀ (t : BTree) (n : ONode), GoodNode refs parent prev nxt num t n →
      (flattenNode n).map (·.num) = List.range' num (size t)
  | .node title target kids state, .mk o okids, h => by
    rw [GoodNode] at h
    have hk := GoodList_numbers kids okids h.2.2.2.2.2.2.2.2.2.2.2
    simp only [flattenNode, List.map_cons, size, hk, h.1]
    rw [Nat.add_comm 1, List.range'_succ]
theorem GoodList_numbers {refs : List Nat} {parent prev : Option Nat} {num : Nat} :
    ∀ (ts : List BTree) (ns : List ONode), GoodList refs parent prev num ts ns →
      (flattenNodes ns).map (·.num) = List.range' num (sizeList ts)
  | [], [], _ => by simp [flattenNodes, sizeList]
  | [], _ :: _, h => by simp [GoodList] at h
  | _ :: _, [], h => by simp [GoodList] at h
  | t :: ts, n :: ns, h => by
    rw [GoodList] at h
    have h1 := GoodNode_numbers t n h.1
    have h2 := GoodList_numbers ts ns h.2
    simp only [flattenNodes, List.map_append, h1, h2, sizeList]
    rw [List.range'_append_1]
end

mutual
/-- Every bookmark points to an existing page. -/
def pagesOk (refs : List Nat) : BTree → Bool
  | .node _ target kids _ => (pageReference refs target.page).isOk && pagesOkList refs kids
def pagesOkList (refs : List Nat) : List BTree → Bool
  | [] => true
  | t :: ts => pagesOk refs t && pagesOkList refs ts
end

mutual
theorem addOutline_total (refs : List Nat) (parent prev : Option Nat) (next : Nat) :
    ∀ (t : BTree), pagesOk refs t = true → ∃ r, addOutline refs parent prev next t = .ok r
  | .node title target kids state, h => by
    simp only [pagesOk, Bool.and_eq_true] at h
    simp only [addOutline]
    cases hp : pageReference refs target.page with
    | error e => rw [hp] at h; simp [Except.isOk, Except.toBool] at h
    | ok pref =>
      simp only []
      obtain ⟨r, hr⟩ := addOutlineList_total refs (some next) none (next + 1) kids h.2
      rw [hr]
      exact ⟨_, rfl⟩
theorem addOutlineList_total (refs : List Nat) (parent prev : Option Nat) (next : Nat) :
    ∀ (ts : List BTree), pagesOkList refs ts = true → ∃ r, addOutlineList refs parent prev next ts = .ok r
  | [], _ => ⟨_, rfl⟩
  | t :: ts, h => by
    simp only [pagesOkList, Bool.and_eq_true] at h
    simp only [addOutlineList]
    obtain ⟨⟨n, c, nx⟩, hr⟩ := addOutline_total refs parent prev next t h.1
    rw [hr]
    cases n with
    | mk o okids =>
      simp only []
      obtain ⟨⟨ns, c2, nx2⟩, hr2⟩ := addOutlineList_total refs parent (some o.num) nx ts h.2
      rw [hr2]
      exact ⟨_, rfl⟩
end

end Wp.C18
