/-
`element_to_box` (Model/BoxGen.lean) builds tidy trees: text lives in text boxes, which are leaves.
This is the precondition of the text theorems of Lemmas/Pipeline.lean and Lemmas/TableText.lean.
Core Lean only.
-/
import WpModel.Model.BoxGen
import WpModel.Lemmas.TableText

namespace Wp.Bx
open KBox

mutual
theorem pw_tidy : ∀ (b : KBox) (f : Bool), Tidy b → Tidy (pw b f).1
  | .mk k st el inst text kids cols, f, h => by
    have hp := tidy_parts h
    simp only [KBox.isA, KBox.kind, KBox.kids, KBox.text] at hp
    unfold pw
    split
    · rename_i ht
      split
      · exact h
      · unfold Tidy; exact ⟨fun _ => hp.1 ht, (fun hf => by rw [ht] at hf; cases hf), hp.2.2⟩
    · rename_i ht
      have hnt : Gen.isSub k .TextBox = false := by simpa using ht
      unfold Tidy
      exact ⟨(fun hf => by rw [hnt] at hf; cases hf), hp.2.1, pwKids_tidy kids f hp.2.2⟩
theorem pwKids_tidy : ∀ (l : List KBox) (f : Bool), TidyL l → TidyL (pwKids l f).1
  | [], _, _ => by simp [pwKids, TidyL]
  | c :: cs, f, h => by
    unfold TidyL at h
    unfold pwKids
    split
    · exact ⟨pw_tidy c f h.1, pwKids_tidy cs _ h.2⟩
    · exact ⟨h.1, pwKids_tidy cs _ h.2⟩
end

mutual
theorem ptt_tidy : ∀ (b : KBox), Tidy b → Tidy (ptt b)
  | .mk k st el inst text kids cols, h => by
    have hp := tidy_parts h
    simp only [KBox.isA, KBox.kind, KBox.kids, KBox.text] at hp
    unfold ptt
    split
    · rename_i ht
      unfold Tidy; exact ⟨fun _ => hp.1 ht, (fun hf => by rw [ht] at hf; cases hf), hp.2.2⟩
    · rename_i ht
      have hnt : Gen.isSub k .TextBox = false := by simpa using ht
      split
      · unfold Tidy
        exact ⟨(fun hf => by rw [hnt] at hf; cases hf), hp.2.1, pttKids_tidy kids hp.2.2⟩
      · exact h
theorem pttKids_tidy : ∀ (l : List KBox), TidyL l → TidyL (pttKids l)
  | [], _ => by simp [pttKids, TidyL]
  | c :: cs, h => by
    unfold TidyL at h
    unfold pttKids
    refine ⟨?_, pttKids_tidy cs h.2⟩
    split
    · exact ptt_tidy c h.1
    · exact h.1
end

theorem pw_kind (b : KBox) (f : Bool) : (pw b f).1.kind = b.kind := by
  obtain ⟨k, st, el, inst, text, kids, cols⟩ := b
  unfold pw
  split
  · split <;> rfl
  · rfl

theorem ptt_kind (b : KBox) : (ptt b).kind = b.kind := by
  obtain ⟨k, st, el, inst, text, kids, cols⟩ := b
  unfold ptt
  split
  · rfl
  · split <;> rfl

theorem ptt_pw_not_text (b : KBox) (h : Gen.isSub b.kind .TextBox = false) :
    (ptt (pw b false).1).isA .TextBox = false := by
  unfold KBox.isA
  rw [ptt_kind, pw_kind]; exact h

theorem textBoxFrom_tidy (p : KBox) (t : Text) : Tidy (textBoxFrom p t) := by
  unfold textBoxFrom Tidy
  exact ⟨fun _ => rfl, (fun hf => by cases hf), trivial⟩

theorem contentToBoxes_tidy (q : Quotes) (c : Content) (p : KBox) (d : Nat) (out : List KBox) (d' : Nat)
    (h : contentToBoxes q c p d = .ok (out, d')) : TidyL out := by
  unfold contentToBoxes at h
  split at h
  · cases h; trivial
  · split at h
    · cases h
    · cases h
      split
      · trivial
      · exact ⟨textBoxFrom_tidy _ _, trivial⟩

theorem boxKind_not_text (d : List String) (k : BoxKind) (h : boxTypeFromDisplay d = some k) :
    Gen.isSub k .TextBox = false := by
  unfold boxTypeFromDisplay at h
  cases hf : Gen.displayTableAst.find? (fun e => e.1 == d.take 2) with
  | none => rw [hf] at h; cases h
  | some e =>
    rw [hf] at h
    simp only [Option.map_some, Option.some.injEq] at h
    have hm := List.mem_of_find?_eq_some hf
    subst h
    have : ∀ e ∈ Gen.displayTableAst, Gen.isSub e.2 .TextBox = false := by decide
    exact this e hm

theorem markerToBox_tidy (m : MarkerSpec) (attrs : El) (o : Bool) (d : Nat) (out : List KBox) (d' : Nat)
    (h : markerToBox m attrs o d = .ok (out, d')) : TidyL out := by
  unfold markerToBox at h
  simp only at h
  split at h
  · cases h; trivial
  · split at h
    · cases h
    · split at h
      · cases h
      · rename_i cs d1 from_ hch
        have hcs : TidyL cs := by
          split at hch
          · split at hch
            · cases hch
            · rename_i cs' d2 hc2
              cases hch
              exact contentToBoxes_tidy _ _ _ _ _ _ hc2
          · split at hch
            · cases hch
              refine ⟨?_, trivial⟩
              rw [tidy_withStyle]; exact textBoxFrom_tidy _ _
            · cases hch; trivial
        split at h
        · cases h; trivial
        · split at h
          · cases h
            refine ⟨?_, trivial⟩
            rw [tidy_withStyle]; exact tidy_anon _ _ _ rfl hcs
          · cases h
            exact ⟨tidy_anon _ _ _ rfl hcs, trivial⟩

theorem beforeAfter_tidy (p : Option Pseudo) (m : Option MarkerSpec) (attrs : El) (d : Nat) (out : List KBox) (d' : Nat)
    (h : beforeAfterToBox p m attrs d = .ok (out, d')) : TidyL out := by
  unfold beforeAfterToBox at h
  split at h
  · cases h; trivial
  · simp only at h
    split at h
    · cases h; trivial
    · split at h
      · cases h; trivial
      · split at h
        · cases h
        · rename_i k hk
          split at h
          · cases h
          · rename_i ms d1 hm
            split at h
            · cases h
            · rename_i cs d2 hc
              cases h
              have hms : TidyL ms := by
                split at hm
                · split at hm
                  · exact markerToBox_tidy _ _ _ _ _ _ hm
                  · cases hm
                · cases hm; trivial
              refine ⟨?_, trivial⟩
              apply tidy_of
              · exact boxKind_not_text _ k hk
              · rfl
              · show TidyL (ms ++ cs)
                rw [tidyL_append]
                exact ⟨hms, contentToBoxes_tidy _ _ _ _ _ _ hc⟩

theorem addChild_tidy (parent : KBox) (acc boxes : List KBox) (tail : Text) (ha : TidyL acc) (hb : TidyL boxes) :
    TidyL (addChild parent acc boxes tail) := by
  have hacc : TidyL (boxes.reverse ++ acc) := by
    rw [tidyL_append]
    exact ⟨tidyL_sub hb (fun c hc => List.mem_reverse.mp hc), ha⟩
  unfold addChild
  simp only
  split
  · exact hacc
  · generalize boxes.reverse ++ acc = l at hacc
    cases l with
    | nil => exact ⟨textBoxFrom_tidy _ _, trivial⟩
    | cons last rest =>
      simp only
      unfold TidyL at hacc
      split
      · rename_i ht
        refine ⟨?_, hacc.2⟩
        have hp := tidy_parts hacc.1
        unfold Tidy
        exact ⟨fun _ => hp.1 ht, (fun hf => by rw [show Gen.isSub last.kind .TextBox = true from ht] at hf; cases hf),
          hp.2.2⟩
      · exact ⟨textBoxFrom_tidy _ _, hacc⟩

mutual
/-- Every box `element_to_box` returns is tidy. -/
theorem elementToBox_tidy : ∀ (root : Bool) (d : Dom) (depth : Nat) (out : List KBox) (depth' : Nat),
    elementToBox root d depth = .ok (out, depth') → TidyL out
  | root, .el es attrs marker before after text kids tail, depth, out, depth', h => by
    unfold elementToBox at h
    simp only at h
    split at h
    · cases h; trivial
    · split at h
      · cases h
      · rename_i k hk
        have hnt := boxKind_not_text _ k hk
        split at h
        · cases h
        · rename_i ms d1 hm
          have hms : TidyL ms := by
            split at hm
            · split at hm
              · exact markerToBox_tidy _ _ _ _ _ _ hm
              · cases hm
            · cases hm; trivial
          split at h
          · cases h
          · rename_i bs d2 hb
            have hbs := beforeAfter_tidy _ _ _ _ _ _ hb
            split at h
            · cases h
            · rename_i accRev d3 hk3
              split at h
              · cases h
              · rename_i as d4 ha
                have has := beforeAfter_tidy _ _ _ _ _ _ ha
                cases h
                have hacc0 : TidyL (bs.reverse ++ ms.reverse) := by
                  rw [tidyL_append]
                  exact ⟨tidyL_sub hbs (fun c hc => List.mem_reverse.mp hc),
                    tidyL_sub hms (fun c hc => List.mem_reverse.mp hc)⟩
                have hacc : TidyL (if text.isEmpty = true then bs.reverse ++ ms.reverse
                    else textBoxFrom (KBox.mk k (mkStyle es (blockify es.display es.float es.position root)) attrs
                      (initInst k attrs) [] [] []) text :: (bs.reverse ++ ms.reverse)) := by
                  split
                  · exact hacc0
                  · exact ⟨textBoxFrom_tidy _ _, hacc0⟩
                have hkids := elementKids_tidy _ kids _ d2 accRev d3 hacc hk3
                have hall : TidyL (accRev.reverse ++ as) := by
                  rw [tidyL_append]
                  exact ⟨tidyL_sub hkids (fun c hc => List.mem_reverse.mp hc), has⟩
                have hbox : Tidy ((KBox.mk k (mkStyle es (blockify es.display es.float es.position root)) attrs
                    (initInst k attrs) [] [] []).withKids (accRev.reverse ++ as)) := by
                  unfold KBox.withKids Tidy
                  exact ⟨(fun hf => by rw [hnt] at hf; cases hf), fun _ => rfl, hall⟩
                have h2 := ptt_tidy _ (pw_tidy _ false hbox)
                refine ⟨?_, trivial⟩
                split
                · have hp := tidy_parts h2
                  have hk' := withKids_proj (ptt (pw ((KBox.mk k (mkStyle es (blockify es.display es.float es.position root))
                    attrs (initInst k attrs) [] [] []).withKids (accRev.reverse ++ as)) false).1)
                    ((ptt (pw ((KBox.mk k (mkStyle es (blockify es.display es.float es.position root))
                    attrs (initInst k attrs) [] [] []).withKids (accRev.reverse ++ as)) false).1).kids ++
                      [textBoxFrom (ptt (pw ((KBox.mk k (mkStyle es (blockify es.display es.float es.position root))
                    attrs (initInst k attrs) [] [] []).withKids (accRev.reverse ++ as)) false).1) Gen.markerFiller])
                  apply tidy_withKids' _ _ h2
                  · intro hk0
                    rw [tidyL_append]
                    exact ⟨hk0, textBoxFrom_tidy _ _, trivial⟩
                  · right
                    -- the box keeps its class through process_whitespace and process_text_transform
                    exact ptt_pw_not_text _ (by rw [(withKids_proj _ _).1]; exact hnt)
                · exact h2
theorem elementKids_tidy : ∀ (parent : KBox) (ds : List Dom) (acc : List KBox) (depth : Nat) (out : List KBox)
    (depth' : Nat), TidyL acc → elementKids parent ds acc depth = .ok (out, depth') → TidyL out
  | parent, [], acc, depth, out, depth', ha, h => by
    unfold elementKids at h; cases h; exact ha
  | parent, d :: ds, acc, depth, out, depth', ha, h => by
    unfold elementKids at h
    split at h
    · cases h
    · rename_i boxes d1 hb
      exact elementKids_tidy parent ds _ d1 out depth'
        (addChild_tidy parent acc boxes d.tail ha (elementToBox_tidy false d depth boxes d1 hb)) h
end

end Wp.Bx
