/-
Lines fit, whole layouts of the footnote model: every line of every paragraph fragment returned by `layoutBoxF`
ends above `pageH − bottom_space` unless it is the first line of the first content of an empty page — when the
`@footnote` style (`page_bottom ≤ pageH` at every moment, by `PbInv.le`; no hypothesis on the area since 2efefde).
The stage-1 helper lemmas (`concludeKid_fits`, `findEarlierGo_placed`, …) are reused with the fixed context `ctxH c`.
-/
import WpModel.Lemmas.FootGeo
import WpModel.Lemmas.Geometry

namespace Wp.PMF
open Wp Wp.PM

/-- The stage-1 context whose page bottom is the bottom of the page box (no footnote area). -/
def ctxH (c : FCtx) : Ctx := { pageBottom := c.pageH, currentPage := c.currentPage, forcedBreak := c.forcedBreak }

mutual
/-- Footnote bodies have non-negative heights. -/
def HeightsOk : FootBox → Prop
  | .para _ _ _ _ calls => ∀ cl ∈ calls, 0 ≤ (cl.m : Rat) * cl.h
  | .block _ _ kids => HeightsOkList kids
def HeightsOkList : List FootBox → Prop
  | [] => True
  | b :: bs => HeightsOk b ∧ HeightsOkList bs
end

/-! ### the line loop -/

theorem lineLoopF_contiguous (c : FCtx) (st : PStyle) (calls : List Call) (b : BoxSt) (n : Nat) (lineH : Rat)
    (pie : Bool) (bs : Rat) (k : Nat) (fuel i : Nat) (y : Rat) (s : LineLoop) (fs : FState)
    (hk : k ≤ i) (hs : s.lines.map Prod.fst = List.range' k (i - k)) :
    ∃ m, (outLines (lineLoopF c st calls b n lineH pie bs fuel i y s fs).1).map Prod.fst = List.range' k m := by
  fun_induction lineLoopF c st calls b n lineH pie bs fuel i y s fs with
  | case1 i y s fs => exact ⟨i - k, hs⟩
  | case2 fuel i y s fs resume newPosY dbd offset overflow hov abort stop r lines' hb =>
    obtain ⟨m, hm, hl⟩ := breakLine_lines st n i s.lines pie s.skip resume
    rw [hb] at hl
    simp only at hl
    have hlen : s.lines.length = i - k := by
      have := congrArg List.length hs
      simpa using this
    refine ⟨m, ?_⟩
    simp only [outLines, hl, List.map_take, hs]
    exact range'_take _ _ _ (by omega)
  | case3 fuel i y s fs resume newPosY dbd offset overflow hov shift newPosY' lineY mt' fs' hfl ih =>
    have : (s.lines ++ [(i, lineY)]).map Prod.fst = List.range' k (i + 1 - k) := by
      rw [List.map_append, hs]
      have : i + 1 - k = (i - k) + 1 := by omega
      rw [this, List.range'_concat]
      simp
      omega
    exact ih (by omega) this
  | case4 fuel i y s fs resume newPosY dbd offset overflow hov shift newPosY' mt' fs' hfl abort stop r lines' hb =>
    obtain ⟨m, hm, hl⟩ := breakLine_lines st n i s.lines pie s.skip resume
    rw [hb] at hl
    simp only at hl
    have hlen : s.lines.length = i - k := by
      have := congrArg List.length hs
      simpa using this
    refine ⟨m, ?_⟩
    simp only [outLines, hl, List.map_take, hs]
    exact range'_take _ _ _ (by omega)
  | case5 fuel i y s fs resume newPosY dbd offset overflow hov shift newPosY' mt' fs' hfl => exact ⟨i - k, hs⟩

theorem lineLoopF_inv (c : FCtx) (st : PStyle) (calls : List Call) (b : BoxSt) (n : Nat) (lineH : Rat)
    (pie : Bool) (bs : Rat) (fuel i : Nat) (y : Rat) (s : LineLoop) (fs : FState)
    (hcalls : ∀ cl ∈ calls, 0 ≤ (cl.m : Rat) * cl.h) (hinv : PbInv c fs) :
    PbInv c (lineLoopF c st calls b n lineH pie bs fuel i y s fs).2 := by
  fun_induction lineLoopF c st calls b n lineH pie bs fuel i y s fs with
  | case1 i y s fs => exact hinv
  | case2 fuel i y s fs resume newPosY dbd offset overflow hov abort stop r lines' hb =>
    exact unlayAll_inv c _ fs hinv
  | case3 fuel i y s fs resume newPosY dbd offset overflow hov shift newPosY' lineY mt' fs' hfl ih =>
    apply ih
    have := footLoop_inv c (!s.lines.isEmpty || !pie) pie bs (newPosY' + offset) (lineFns st calls i) fs hinv
      (lineFns_height st calls i hcalls)
    rw [hfl] at this
    exact this
  | case4 fuel i y s fs resume newPosY dbd offset overflow hov shift newPosY' mt' fs' hfl abort stop r lines' hb =>
    have := footLoop_inv c (!s.lines.isEmpty || !pie) pie bs (newPosY' + offset) (lineFns st calls i) fs hinv
      (lineFns_height st calls i hcalls)
    rw [hfl] at this
    exact unlayAll_inv c _ fs' this
  | case5 fuel i y s fs resume newPosY dbd offset overflow hov shift newPosY' mt' fs' hfl =>
    have := footLoop_inv c (!s.lines.isEmpty || !pie) pie bs (newPosY' + offset) (lineFns st calls i) fs hinv
      (lineFns_height st calls i hcalls)
    rw [hfl] at this
    exact this

/-- The lines kept by `_linebox_layout` with footnotes fit under the page bottom, the first one excepted when the
page was empty. -/
theorem lineboxLayoutF_placed (c : FCtx) (st : PStyle) (calls : List Call) (b : BoxSt) (n : Nat) (lineH : Rat)
    (pie : Bool) (adj : List Rat) (bs posY : Rat) (skip : Option Resume) (dbd : Bool) (fs : FState) (id : Nat)
    (hcalls : ∀ cl ∈ calls, 0 ≤ (cl.m : Rat) * cl.h) (hdeco : 0 ≤ b.bb + b.pb)
    (hinv : PbInv c fs) :
    LinesOk (ctxH c) bs
      (paraPlaced pie id lineH (lineboxLayoutF c st calls b n lineH pie adj bs posY skip dbd fs).1.lines) := by
  have hl : (lineboxLayoutF c st calls b n lineH pie adj bs posY skip dbd fs).1.lines =
      outLines (lineboxLoopF c st calls b n lineH pie adj bs posY skip dbd fs).1 := by
    unfold lineboxLayoutF
    dsimp only
    cases (lineboxLoopF c st calls b n lineH pie adj bs posY skip dbd fs).1 <;> rfl
  have hfit : ∀ p ∈ (lineboxLayoutF c st calls b n lineH pie adj bs posY skip dbd fs).1.lines,
      LineFitsH c.pageH bs lineH pie (skipLine skip) p := by
    rw [hl]; unfold lineboxLoopF
    exact lineLoopF_fits c st calls b n lineH pie bs (skipLine skip) _ _ _ _ fs hcalls hdeco hinv (fun _ => rfl)
      (by simp)
  obtain ⟨m, hcont⟩ : ∃ m, (lineboxLayoutF c st calls b n lineH pie adj bs posY skip dbd fs).1.lines.map Prod.fst =
      List.range' (skipLine skip) m := by
    rw [hl]; unfold lineboxLoopF
    exact lineLoopF_contiguous c st calls b n lineH pie bs (skipLine skip) _ _ _ _ fs (Nat.le_refl _) (by simp)
  generalize (lineboxLayoutF c st calls b n lineH pie adj bs posY skip dbd fs).1.lines = lines at hfit hcont
  cases lines with
  | nil => exact linesOk_nil _ bs
  | cons a l =>
    intro p hp
    simp only [paraPlaced, List.mem_cons, List.mem_map] at hp
    rcases hp with rfl | ⟨q, hq, rfl⟩
    · rcases hfit a (by simp) with h | h
      · left; exact h.1
      · right; exact h
    · right
      rcases hfit q (by simp [hq]) with h | h
      · exfalso
        cases m with
        | zero => simp at hcont
        | succ m =>
          simp only [List.map_cons, List.range'_succ, List.cons.injEq] at hcont
          have : q.1 ∈ List.range' (skipLine skip + 1) m := by
            rw [← hcont.2]; exact List.mem_map_of_mem hq
          simp only [List.mem_range'_1] at this
          omega
      · exact h

/-! ### containers -/

theorem finishParaF_inv (c : FCtx) (st : PStyle) (calls : List Call) (p : Prep) (pie : Bool) (id idx n : Nat)
    (r : LineResult) (fs : FState) (h : PbInv c fs) :
    PbInv c (finishParaF c st calls p pie id idx n r fs).fs := by
  unfold finishParaF
  dsimp only
  split
  · exact unlayAll_inv c _ fs h
  · split
    · split
      · exact unlayAll_inv c _ fs h
      · exact h
    · split
      · exact unlayAll_inv c _ fs h
      · exact h

theorem finishBlockF_inv (c : FCtx) (st : PStyle) (rest : List FootBox) (p : Prep) (pie : Bool) (id idx : Nat)
    (out : KidsOutcome) (fs : FState) (h : PbInv c fs) :
    PbInv c (finishBlockF c st rest p pie id idx out fs).fs := by
  unfold finishBlockF
  cases out with
  | aborted page s => exact unlayAll_inv c _ fs h
  | stopped resume s =>
    dsimp only
    split
    · exact unlayAll_inv c _ fs h
    · exact h
  | finished s => exact h

theorem firstPassUnlay_inv (c : FCtx) (r : LayoutResult) (fp : FirstPass) (fs : FState)
    (h : PbInv c fs) : PbInv c (firstPassUnlay c r fp fs) := by
  unfold firstPassUnlay unlayFrag
  split
  · split
    · exact h
    · exact unlayAll_inv c _ fs h
  · exact h
  · split
    · exact h
    · exact unlayAll_inv c _ fs h

theorem earlierUnlay_inv (c : FCtx) (pb : Brk) (s : KidsLoop) (frag : Option Frag) (fs : FState)
    (h : PbInv c fs) : PbInv c (earlierUnlay c pb s frag fs) := by
  unfold earlierUnlay
  split
  · exact h
  · split
    · split
      · exact unlayAll_inv c _ fs h
      · exact h
    · exact h

theorem layoutBoxF_frag_deco (c : FCtx) (box : FootBox) (idx : Nat) (y bs : Rat) (skip : Option Resume)
    (cb pie : Bool) (adjL : List Rat) (fs : FState) (f : Frag)
    (h : (layoutBoxF c box idx y bs skip cb pie adjL fs).r.frag = some f) :
    (f.geo.pb = box.st.pb ∧ f.geo.bb = box.st.bb) ∨ (f.geo.pb = 0 ∧ f.geo.bb = 0) := by
  cases box with
  | para id n lineH st calls =>
    simp only [layoutBoxF, finishParaF_r, finishPara] at h
    split at h
    · simp [abortResult] at h
    · obtain ⟨rfl, _⟩ := finishContainer_geo _ _ _ _ _ _ _ _ _ _ _ _ _ _ _ _ _ _ h
      have := finishTail_pb_bb
      simp only [Frag.geo, FootBox.st]
      have h2 := this (ctxOf c (lineboxLayoutF c st calls (prepare (ctxOf c fs) st y bs skip cb pie adjL).b n lineH pie
        (prepare (ctxOf c fs) st y bs skip cb pie adjL).cur (prepare (ctxOf c fs) st y bs skip cb pie adjL).bs
        (prepare (ctxOf c fs) st y bs skip cb pie adjL).posY (subSkipOf skip)
        (prepare (ctxOf c fs) st y bs skip cb pie adjL).dbd fs).2) st
        { (prepare (ctxOf c fs) st y bs skip cb pie adjL).b with
          mt := (lineboxLayoutF c st calls (prepare (ctxOf c fs) st y bs skip cb pie adjL).b n lineH pie
            (prepare (ctxOf c fs) st y bs skip cb pie adjL).cur (prepare (ctxOf c fs) st y bs skip cb pie adjL).bs
            (prepare (ctxOf c fs) st y bs skip cb pie adjL).posY (subSkipOf skip)
            (prepare (ctxOf c fs) st y bs skip cb pie adjL).dbd fs).1.mt }
      simpa using h2 _ _ _ _ _ _ _ _ _
  | block id st kids =>
    simp only [layoutBoxF, finishBlockF_r, finishBlock] at h
    split at h
    · simp [abortResult] at h
    · obtain ⟨rfl, _⟩ := finishContainer_geo _ _ _ _ _ _ _ _ _ _ _ _ _ _ _ _ _ _ h
      have := finishTail_pb_bb (ctxOf c (layoutKidsF c st kids 0 (skipIdxOf skip)
        (prepare (ctxOf c fs) st y bs skip cb pie adjL).bs pie
        { newChildren := [], posY := (prepare (ctxOf c fs) st y bs skip cb pie adjL).posY,
          adjL := (prepare (ctxOf c fs) st y bs skip cb pie adjL).adjL,
          cur := (prepare (ctxOf c fs) st y bs skip cb pie adjL).cur,
          curIsL := (prepare (ctxOf c fs) st y bs skip cb pie adjL).curIsL,
          nextPage := { brk := none, page := none }, skip := subSkipOf skip } fs).2) st
        (prepare (ctxOf c fs) st y bs skip cb pie adjL).b
      simpa [Frag.geo, FootBox.st] using this _ _ _ _ _ _ _ _ _
    · obtain ⟨rfl, _⟩ := finishContainer_geo _ _ _ _ _ _ _ _ _ _ _ _ _ _ _ _ _ _ h
      have := finishTail_pb_bb (ctxOf c (layoutKidsF c st kids 0 (skipIdxOf skip)
        (prepare (ctxOf c fs) st y bs skip cb pie adjL).bs pie
        { newChildren := [], posY := (prepare (ctxOf c fs) st y bs skip cb pie adjL).posY,
          adjL := (prepare (ctxOf c fs) st y bs skip cb pie adjL).adjL,
          cur := (prepare (ctxOf c fs) st y bs skip cb pie adjL).cur,
          curIsL := (prepare (ctxOf c fs) st y bs skip cb pie adjL).curIsL,
          nextPage := { brk := none, page := none }, skip := subSkipOf skip } fs).2) st
        (prepare (ctxOf c fs) st y bs skip cb pie adjL).b
      simpa [Frag.geo, FootBox.st] using this _ _ _ _ _ _ _ _ _

theorem st_erase (b : FootBox) : b.erase.st = b.st := by cases b <;> rfl

theorem eraseList_getElem (bs : List FootBox) (j : Nat) : (eraseList bs)[j]? = bs[j]?.map FootBox.erase := by
  induction bs generalizing j with
  | nil => simp [eraseList]
  | cons b bs ih => cases j <;> simp [eraseList, ih]

mutual
/-- **Every placed line of a layout with footnotes fits** above `pageH − bs`, except the first line of the first
content when the layout started on an empty page; and the page-bottom invariant is kept. -/
theorem boxF_fits : (box : FootBox) → DecoOk box.erase → HeightsOk box → ∀ (c : FCtx) (idx : Nat) (y bs : Rat)
    (skip : Option Resume) (cb pie : Bool) (adjL : List Rat) (fs : FState), PbInv c fs →
    (∀ f, (layoutBoxF c box idx y bs skip cb pie adjL fs).r.frag = some f →
      LinesOk (ctxH c) bs (placedLines f pie box.erase)) ∧
    PbInv c (layoutBoxF c box idx y bs skip cb pie adjL fs).fs
  | .para id n lineH st calls => by
    intro hd hh c idx y bs skip cb pie adjL fs hinv
    simp only [FootBox.erase, DecoOk] at hd
    simp only [HeightsOk] at hh
    simp only [layoutBoxF]
    constructor
    · intro f hf
      simp only [finishParaF_r] at hf
      obtain ⟨g, rfl⟩ := finishPara_frag' _ _ _ _ _ _ _ _ _ hf
      simp only [placedLines, FootBox.erase]
      apply linesOk_mono _ bs _ _ (prepare_bs_le (ctxOf c fs) st y bs skip cb pie adjL hd)
      apply lineboxLayoutF_placed _ _ _ _ _ _ _ _ _ _ _ _ _ _ hh _ hinv
      simp only [prepare_bb, prepare_pb]
      have := hd.1
      grind
    · apply finishParaF_inv _ _ _ _ _ _ _ _ _ _
      unfold lineboxLayoutF lineboxLoopF
      exact lineLoopF_inv _ _ _ _ _ _ _ _ _ _ _ _ _ hh hinv
  | .block id st kids => by
    intro hd hh c idx y bs skip cb pie adjL fs hinv
    simp only [FootBox.erase, DecoOk] at hd
    simp only [HeightsOk] at hh
    simp only [layoutBoxF]
    have hk := kidsF_fits kids hd.2 hh c st kids 0 (skipIdxOf skip)
      (prepare (ctxOf c fs) st y bs skip cb pie adjL).bs pie
      { newChildren := [], posY := (prepare (ctxOf c fs) st y bs skip cb pie adjL).posY,
        adjL := (prepare (ctxOf c fs) st y bs skip cb pie adjL).adjL,
        cur := (prepare (ctxOf c fs) st y bs skip cb pie adjL).cur,
        curIsL := (prepare (ctxOf c fs) st y bs skip cb pie adjL).curIsL,
        nextPage := { brk := none, page := none }, skip := subSkipOf skip } fs hinv (by intro j; simp)
      (by simp [placedLinesList, linesOk_nil])
    constructor
    · intro f hf
      simp only [finishBlockF_r] at hf
      obtain ⟨g, rfl⟩ := finishBlock_frag _ _ _ _ _ _ _ _ hf
      simp only [placedLines, FootBox.erase]
      apply linesOk_mono _ bs _ _ (prepare_bs_le (ctxOf c fs) st y bs skip cb pie adjL hd.1)
      exact hk.1
    · exact finishBlockF_inv _ _ _ _ _ _ _ _ _ hk.2
theorem kidsF_fits : (rest : List FootBox) → DecoOkList (eraseList rest) → HeightsOkList rest → ∀ (c : FCtx)
    (st : PStyle) (all : List FootBox) (index skipIdx : Nat) (bs : Rat) (pie : Bool) (s : KidsLoop) (fs : FState),
    PbInv c fs →
    (∀ j, rest[j]? = all[index + j]?) →
    LinesOk (ctxH c) bs (placedLinesList s.newChildren pie (eraseList all)) →
    LinesOk (ctxH c) bs (placedLinesList (layoutKidsF c st rest index skipIdx bs pie s fs).1.state.newChildren pie
      (eraseList all)) ∧
    PbInv c (layoutKidsF c st rest index skipIdx bs pie s fs).2
  | [] => by
    intro _ _ c st all index skipIdx bs pie s fs hinv _ hs
    exact ⟨by simpa [layoutKidsF, KidsOutcome.state] using hs, by simpa [layoutKidsF] using hinv⟩
  | child :: rest => by
    intro hd hh c st all index skipIdx bs pie s fs hinv hall hs
    simp only [eraseList, DecoOkList] at hd
    simp only [HeightsOkList] at hh
    have hrest : ∀ j, rest[j]? = all[index + 1 + j]? := by
      intro j
      have := hall (j + 1)
      simp only [List.getElem?_cons_succ] at this
      rw [this]; congr 1; omega
    have hchild : (eraseList all)[index]? = some child.erase := by
      have := hall 0
      rw [eraseList_getElem]
      simp only [List.getElem?_cons_zero, Nat.add_zero] at this
      rw [← this]; rfl
    unfold layoutKidsF
    split
    · exact kidsF_fits rest hd.2 hh.2 c st all (index + 1) skipIdx bs pie s fs hinv hrest hs
    · dsimp only
      split
      · exact ⟨by simpa [KidsOutcome.state] using hs, hinv⟩
      · have hR := boxF_fits child hd.1 hh.1 c index s.posY bs s.skip st.isRoot (pie && s.newChildren.isEmpty) s.cur fs
          hinv
        have hdeco1 := fun f => layoutBoxF_frag_deco c child index s.posY bs s.skip st.isRoot
          (pie && s.newChildren.isEmpty) s.cur fs f
        generalize layoutBoxF c child index s.posY bs s.skip st.isRoot (pie && s.newChildren.isEmpty) s.cur fs = R1
          at hR hdeco1 ⊢
        split
        · -- first pass kept (or discarded) the child
          rename_i frag posY hfp
          rw [hfp]
          have hfrag : ∀ f, frag = some f →
              LinesOk (ctxH c) bs (placedLines f (pie && s.newChildren.isEmpty) child.erase) := by
            intro f hf
            rcases firstPass_keep _ _ _ _ _ _ _ hfp with h | h
            · rw [h] at hf; cases hf
            · rw [h] at hf
              exact hR.1 f hf
          have hinv1 := firstPassUnlay_inv c R1.r (.keep frag posY) R1.fs hR.2
          split
          · rename_i out s3 heq
            refine ⟨(concludeKid_fits (ctxH c) bs (eraseList all) index pie _ child.erase _ _ _ hchild ?_ ?_).1 out s3 heq,
              earlierUnlay_inv _ _ _ _ _ hinv1⟩
            · simpa using hs
            · simpa using hfrag
          · rename_i s3 heq
            refine kidsF_fits rest hd.2 hh.2 c st all (index + 1) skipIdx bs pie s3 _ hinv1 hrest
              ((concludeKid_fits (ctxH c) bs (eraseList all) index pie _ child.erase _ _ _ hchild ?_ ?_).2 s3 heq)
            · simpa using hs
            · simpa using hfrag
        · -- second layout with a larger bottom space
          rename_i bs' hfp
          rw [hfp]
          obtain ⟨f1, hf1, hbs'⟩ := firstPass_redo _ _ _ _ _ _ hfp
          have hle : bs ≤ bs' := by
            have h1 := hdeco1 f1 hf1
            have h2 := (DecoOk.st child.erase hd.1).1
            rw [st_erase] at h2
            rcases h1 with ⟨h3, h4⟩ | ⟨h3, h4⟩ <;> rw [hbs', h3, h4] <;> grind
          have hinv1 := firstPassUnlay_inv c R1.r (.redo bs') R1.fs hR.2
          have hR2 := boxF_fits child hd.1 hh.1 c index s.posY bs' s.skip st.isRoot (pie && s.newChildren.isEmpty)
            (s.setCur R1.r.adjL s.curIsL).cur (firstPassUnlay c R1.r (.redo bs') R1.fs) hinv1
          generalize layoutBoxF c child index s.posY bs' s.skip st.isRoot (pie && s.newChildren.isEmpty)
            (s.setCur R1.r.adjL s.curIsL).cur (firstPassUnlay c R1.r (.redo bs') R1.fs) = R2 at hR2 ⊢
          have hfrag : ∀ f, R2.r.frag = some f →
              LinesOk (ctxH c) bs (placedLines f (pie && s.newChildren.isEmpty) child.erase) := by
            intro f hf
            exact linesOk_mono _ bs bs' _ hle (hR2.1 f hf)
          split
          · rename_i out s3 heq
            refine ⟨(concludeKid_fits (ctxH c) bs (eraseList all) index pie _ child.erase _ _ _ hchild ?_ ?_).1 out s3 heq,
              earlierUnlay_inv _ _ _ _ _ hR2.2⟩
            · simpa using hs
            · simpa using hfrag
          · rename_i s3 heq
            refine kidsF_fits rest hd.2 hh.2 c st all (index + 1) skipIdx bs pie s3 _ hR2.2 hrest
              ((concludeKid_fits (ctxH c) bs (eraseList all) index pie _ child.erase _ _ _ hchild ?_ ?_).2 s3 heq)
            · simpa using hs
            · simpa using hfrag
end

mutual
/-- **`page_bottom` bookkeeping is exact, for every `@footnote` style**: whatever is laid out, postponed or
un-laid-out on the way, `context.page_bottom` stays the page bottom minus the margin height of the footnote area
(needs no hypothesis on the area since repair 8db5909, only non-negative footnote heights). -/
theorem boxF_inv : (box : FootBox) → HeightsOk box → ∀ (c : FCtx) (idx : Nat) (y bs : Rat)
    (skip : Option Resume) (cb pie : Bool) (adjL : List Rat) (fs : FState), PbInv c fs →
    PbInv c (layoutBoxF c box idx y bs skip cb pie adjL fs).fs
  | .para id n lineH st calls => by
    intro hh c idx y bs skip cb pie adjL fs hinv
    simp only [HeightsOk] at hh
    simp only [layoutBoxF]
    apply finishParaF_inv
    unfold lineboxLayoutF lineboxLoopF
    exact lineLoopF_inv _ _ _ _ _ _ _ _ _ _ _ _ _ hh hinv
  | .block id st kids => by
    intro hh c idx y bs skip cb pie adjL fs hinv
    simp only [HeightsOk] at hh
    simp only [layoutBoxF]
    exact finishBlockF_inv _ _ _ _ _ _ _ _ _ (kidsF_inv kids hh c st 0 _ _ pie _ fs hinv)
theorem kidsF_inv : (rest : List FootBox) → HeightsOkList rest → ∀ (c : FCtx)
    (st : PStyle) (index skipIdx : Nat) (bs : Rat) (pie : Bool) (s : KidsLoop) (fs : FState),
    PbInv c fs → PbInv c (layoutKidsF c st rest index skipIdx bs pie s fs).2
  | [] => by
    intro _ c st index skipIdx bs pie s fs hinv
    simpa [layoutKidsF] using hinv
  | child :: rest => by
    intro hh c st index skipIdx bs pie s fs hinv
    simp only [HeightsOkList] at hh
    unfold layoutKidsF
    split
    · exact kidsF_inv rest hh.2 c st (index + 1) skipIdx bs pie s fs hinv
    · dsimp only
      split
      · exact hinv
      · have hR := boxF_inv child hh.1 c index s.posY bs s.skip st.isRoot (pie && s.newChildren.isEmpty) s.cur fs hinv
        generalize layoutBoxF c child index s.posY bs s.skip st.isRoot (pie && s.newChildren.isEmpty) s.cur fs = R1
          at hR ⊢
        split
        · rename_i frag posY hfp
          rw [hfp]
          have hinv1 := firstPassUnlay_inv c R1.r (.keep frag posY) R1.fs hR
          split
          · exact earlierUnlay_inv _ _ _ _ _ hinv1
          · exact kidsF_inv rest hh.2 c st (index + 1) skipIdx bs pie _ _ hinv1
        · rename_i bs' hfp
          rw [hfp]
          have hinv1 := firstPassUnlay_inv c R1.r (.redo bs') R1.fs hR
          have hR2 := boxF_inv child hh.1 c index s.posY bs' s.skip st.isRoot (pie && s.newChildren.isEmpty)
            (s.setCur R1.r.adjL s.curIsL).cur (firstPassUnlay c R1.r (.redo bs') R1.fs) hinv1
          generalize layoutBoxF c child index s.posY bs' s.skip st.isRoot (pie && s.newChildren.isEmpty)
            (s.setCur R1.r.adjL s.curIsL).cur (firstPassUnlay c R1.r (.redo bs') R1.fs) = R2 at hR2 ⊢
          split
          · exact earlierUnlay_inv _ _ _ _ _ hR2
          · exact kidsF_inv rest hh.2 c st (index + 1) skipIdx bs pie _ _ hR2
end

end Wp.PMF
