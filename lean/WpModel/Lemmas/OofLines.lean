/-
The paragraph part of the extended model: `lineLoop` with floats to avoid numbers its lines exactly as
the stage-1 loop does (the positions change, the bookkeeping does not).
-/
import WpModel.Lemmas.OofDefs
import WpModel.Lemmas.ParaLines
import WpModel.Lemmas.SegmentPara

namespace Wp.PMO
open Wp Wp.PM

theorem lineLoop_contiguous (c : Ctx) (st : PStyle) (b : BoxSt) (n : Nat) (lineH : Rat) (pie : Bool) (bs : Rat)
    (shapes : List Shape) (k : Nat) (fuel i : Nat) (y : Rat) (s : LineLoop)
    (hk : k ≤ i) (hs : s.lines.map Prod.fst = List.range' k (i - k)) :
    ∃ m, m ≤ (i - k) + fuel ∧
      (outLines (lineLoop c st b n lineH pie bs shapes fuel i y s)).map Prod.fst = List.range' k m := by
  fun_induction lineLoop c st b n lineH pie bs shapes fuel i y s with
  | case1 i y s => exact ⟨i - k, by omega, hs⟩
  | case2 fuel i y0 s y resume newPosY dbd offset overflow hov abort stop r lines' hb =>
    obtain ⟨m, hm, hl⟩ := breakLine_lines st n i s.lines pie s.skip resume
    rw [hb] at hl
    simp only at hl
    have hlen : s.lines.length = i - k := by
      have := congrArg List.length hs
      simpa using this
    refine ⟨m, by omega, ?_⟩
    simp only [outLines, hl, List.map_take, hs]
    exact range'_take _ _ _ (by omega)
  | case3 fuel i y0 s y resume newPosY dbd offset overflow hov shift newPosY' lineY mt' ih =>
    have : (s.lines ++ [(i, lineY)]).map Prod.fst = List.range' k (i + 1 - k) := by
      rw [List.map_append, hs]
      have : i + 1 - k = (i - k) + 1 := by omega
      rw [this, List.range'_concat]
      simp
      omega
    obtain ⟨m, hm, hl⟩ := ih (by omega) this
    exact ⟨m, by omega, hl⟩

theorem lineLoop_done (c : Ctx) (st : PStyle) (b : BoxSt) (n : Nat) (lineH : Rat) (pie : Bool) (bs : Rat)
    (shapes : List Shape) (k : Nat) (fuel i : Nat) (y : Rat) (s s' : LineLoop)
    (hk : k ≤ i) (hs : s.lines.map Prod.fst = List.range' k (i - k))
    (h : lineLoop c st b n lineH pie bs shapes fuel i y s = .done s') :
    s'.lines.map Prod.fst = List.range' k ((i - k) + fuel) := by
  fun_induction lineLoop c st b n lineH pie bs shapes fuel i y s with
  | case1 i y s => cases h; simpa using hs
  | case2 fuel i y0 s y resume newPosY dbd offset overflow hov abort stop r lines' hb => cases h
  | case3 fuel i y0 s y resume newPosY dbd offset overflow hov shift newPosY' lineY mt' ih =>
    have : (s.lines ++ [(i, lineY)]).map Prod.fst = List.range' k (i + 1 - k) := by
      rw [List.map_append, hs]
      have : i + 1 - k = (i - k) + 1 := by omega
      rw [this, List.range'_concat]
      simp
      omega
    have := ih (by omega) this h
    rw [this]
    congr 1
    omega

theorem lineLoop_broke (c : Ctx) (st : PStyle) (b : BoxSt) (n : Nat) (lineH : Rat) (pie : Bool) (bs : Rat)
    (shapes : List Shape) (k : Nat) (fuel i : Nat) (y : Rat) (s s' : LineLoop) (stop : Bool) (r : Option Resume)
    (hk : k ≤ i) (hs : s.lines.map Prod.fst = List.range' k (i - k)) (hn : fuel = n - i) (ho : 1 ≤ st.orphans)
    (h : lineLoop c st b n lineH pie bs shapes fuel i y s = .broke false stop r s') :
    stop = true ∧ ∃ m, 1 ≤ m ∧ k + m < n ∧ s'.lines.map Prod.fst = List.range' k m := by
  fun_induction lineLoop c st b n lineH pie bs shapes fuel i y s with
  | case1 i y s => cases h
  | case2 fuel i y0 s y resume newPosY dbd offset overflow hov abort stop' r' lines' hb =>
    simp only [LineOutcome.broke.injEq] at h
    obtain ⟨ha, hst, _, hs'⟩ := h
    have hne : s.lines.isEmpty = false ∨ pie = false := by
      have : (!s.lines.isEmpty || !pie) = true := by
        simp only [overflow, Bool.and_eq_true] at hov
        exact hov.1
      cases h1 : s.lines.isEmpty <;> cases h2 : pie <;> simp_all
    have key := breakLine_stop st n i s.lines pie s.skip resume ho hne
    rw [hb] at key
    have h1 := key ha
    obtain ⟨m, hm, hl⟩ := breakLine_lines st n i s.lines pie s.skip resume
    rw [hb] at hl
    simp only at hl h1
    have hlen : s.lines.length = i - k := by
      have := congrArg List.length hs
      simpa using this
    have hlen' : lines'.length = m := by rw [hl, List.length_take]; omega
    refine ⟨by rw [← hst]; exact h1.1, m, by omega, by omega, ?_⟩
    rw [← hs']
    simp only [hl, List.map_take, hs]
    exact range'_take _ _ _ (by omega)
  | case3 fuel i y0 s y resume newPosY dbd offset overflow hov shift newPosY' lineY mt' ih =>
    have : (s.lines ++ [(i, lineY)]).map Prod.fst = List.range' k (i + 1 - k) := by
      rw [List.map_append, hs]
      have : i + 1 - k = (i - k) + 1 := by omega
      rw [this, List.range'_concat]
      simp
      omega
    exact ih (by omega) this (by omega) h

/-- `_linebox_layout` with floats: same numbering statement as stage 1. -/
theorem linebox_spec (c : Ctx) (st : PStyle) (b : BoxSt) (n : Nat) (lineH : Rat) (pie : Bool)
    (adj : List Rat) (bs posY : Rat) (skip : Option Resume) (dbd : Bool) (shapes : List Shape)
    (ho : 1 ≤ st.orphans)
    (ha : (lineboxLayout c st b n lineH pie adj bs posY skip dbd shapes).abort = false) :
    ((lineboxLayout c st b n lineH pie adj bs posY skip dbd shapes).stop = false →
      (lineboxLayout c st b n lineH pie adj bs posY skip dbd shapes).lines.map Prod.fst =
        List.range' (skipLine skip) (n - skipLine skip)) ∧
    ((lineboxLayout c st b n lineH pie adj bs posY skip dbd shapes).stop = true →
      ∃ m, 1 ≤ m ∧ skipLine skip + m < n ∧
        (lineboxLayout c st b n lineH pie adj bs posY skip dbd shapes).lines.map Prod.fst =
          List.range' (skipLine skip) m ∧
        (lineboxLayout c st b n lineH pie adj bs posY skip dbd shapes).resume =
          some (.node 0 (some (.line (skipLine skip + m))))) := by
  unfold lineboxLayout at ha ⊢
  cases hloop : lineboxLoop c st b n lineH pie adj bs posY skip dbd shapes with
  | done s =>
    simp only
    refine ⟨fun _ => ?_, by simp⟩
    unfold lineboxLoop at hloop
    have := lineLoop_done c st b n lineH pie bs shapes (skipLine skip) _ _ _ _ s (Nat.le_refl _) (by simp) hloop
    simpa using this
  | broke a stp r s =>
    rw [hloop] at ha
    simp only at ha ⊢
    subst ha
    unfold lineboxLoop at hloop
    obtain ⟨hstp, m, hm1, hmn, hl⟩ := lineLoop_broke c st b n lineH pie bs shapes (skipLine skip) _ _ _ _ s stp r
      (Nat.le_refl _) (by simp) rfl ho hloop
    subst hstp
    refine ⟨by simp, fun _ => ⟨m, hm1, hmn, hl, ?_⟩⟩
    have hne : s.lines ≠ [] := by
      intro he; rw [he] at hl
      have := congrArg List.length hl
      simp at this; omega
    obtain ⟨⟨i, y⟩, hlast⟩ : ∃ a, s.lines.getLast? = some a := by
      cases hq : s.lines.getLast? with
      | none => rw [List.getLast?_eq_none_iff] at hq; exact absurd hq hne
      | some a => exact ⟨a, rfl⟩
    have hi := last_of_range' _ _ _ _ _ hl hlast
    simp [lastLineResume, hlast, lineResume, hmn, hi]

end Wp.PMO
