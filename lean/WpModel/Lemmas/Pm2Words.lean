/-
The abstraction the Python harness applies to a render of a PM document (one word per line, word ids in
source order), written for PM itself: `groupsOf d` (what the trace checker is told to expect) and
`pageWordsOf pages` (what the checker is shown), plus the list lemmas needed to prove that the verified
trace checker `Trace.badGroups` accepts every PM pagination (Props/C01Pm2.lean).
-/
import WpModel.Model.Trace
import WpModel.Lemmas.SegmentPages

namespace Wp.PM
open Wp

/-! ### an injective numbering of (paragraph id, line number) -/

/-- Triangular numbers. -/
def tri : Nat → Nat
  | 0 => 0
  | n + 1 => tri n + (n + 1)

/-- The word printed on line `i` of paragraph `id` (Cantor pairing: injective, no bound on `id`, `i`). -/
def wordId (id i : Nat) : Nat := tri (id + i) + i

theorem tri_mono (a b : Nat) (h : a ≤ b) : tri a ≤ tri b := by
  induction b with
  | zero => have : a = 0 := by omega
            subst this; exact Nat.le_refl _
  | succ b ih =>
    by_cases hab : a = b + 1
    · subst hab; exact Nat.le_refl _
    · have := ih (by omega)
      simp only [tri]; omega

theorem wordId_inj (a b a' b' : Nat) (h : wordId a b = wordId a' b') : a = a' ∧ b = b' := by
  unfold wordId at h
  have key : ∀ s s' x x', x ≤ s → x' ≤ s' → tri s + x = tri s' + x' → ¬ s < s' := by
    intro s s' x x' hx hx' he hlt
    have h1 := tri_mono (s + 1) s' (by omega)
    simp only [tri] at h1
    omega
  have hs : a + b = a' + b' := by
    have h1 := key (a + b) (a' + b') b b' (by omega) (by omega) h
    have h2 := key (a' + b') (a + b) b' b (by omega) (by omega) h.symm
    omega
  rw [hs] at h
  omega

/-! ### the paragraphs of a document, in source order -/

mutual
/-- `(id, number of lines)` of every paragraph, in source order. -/
def paras : PBox → List (Nat × Nat)
  | .para id n _ _ => [(id, n)]
  | .block _ _ kids => parasList kids
def parasList : List PBox → List (Nat × Nat)
  | [] => []
  | b :: bs => paras b ++ parasList bs
end

/-- The lines of one paragraph. -/
def paraAllLines (p : Nat × Nat) : List (Nat × Nat) := (List.range p.2).map (fun i => (p.1, i))

/-- The words of one paragraph, in source order. -/
def paraWords (p : Nat × Nat) : List Nat := (List.range p.2).map (wordId p.1)

theorem paraWords_eq (p : Nat × Nat) : paraWords p = (paraAllLines p).map (fun l => wordId l.1 l.2) := by
  simp [paraWords, paraAllLines, List.map_map, Function.comp_def]

mutual
theorem linesFrom_none_paras : (b : PBox) → linesFrom b none = ((paras b).map paraAllLines).flatten
  | .para id n lh st => by
    simp [linesFrom, paras, paraAllLines, paraLines, paraStart, skipLine, subSkipOf, List.range_eq_range']
  | .block id st kids => by
    simp only [linesFrom, paras, skipIdxOf_none, subSkipOf_none]
    exact linesFromKids_none_paras kids
theorem linesFromKids_none_paras : (bs : List PBox) →
    linesFromKids bs 0 none = ((parasList bs).map paraAllLines).flatten
  | [] => by simp [linesFromKids, parasList]
  | b :: bs => by
    simp only [linesFromKids, parasList, List.map_append, List.flatten_append]
    rw [linesFrom_none_paras b, linesFromKids_none_paras bs]
end

/-- Every word of the document, in source order. -/
def allWords (b : PBox) : List Nat := ((paras b).map paraWords).flatten

theorem allWords_eq (b : PBox) : allWords b = (linesFrom b none).map (fun l => wordId l.1 l.2) := by
  unfold allWords
  rw [linesFrom_none_paras, List.map_flatten, List.map_map]
  congr 1
  apply List.map_congr_left
  intro p _
  exact paraWords_eq p

/-! ### what the harness tells and shows the checker -/

/-- One kind-0 group (rendered exactly once, in order) per paragraph, and one kind-1 group holding every
word of the document in source order (cross-container order: the whole document is one sequential flow). -/
def groupsOf (d : Doc) : List Trace.Group :=
  (paras d.root).map (fun p => { kind := 0, words := paraWords p }) ++
    [{ kind := 1, words := allWords d.root }]

/-- The words each page shows, in fragment-tree order. -/
def pageWordsOf (pages : List Page) : List (List Nat) :=
  pages.map (fun p => (fragLines p.root).map (fun l => wordId l.1 l.2))

/-- Paragraph ids are pairwise distinct (the harness numbers the boxes in source order). -/
def UniqueParaIds (b : PBox) : Prop := ((paras b).map Prod.fst).Nodup

theorem pageWordsOf_flatten (pages : List Page) :
    (pageWordsOf pages).flatten =
      ((pages.map (fun p => fragLines p.root)).flatten).map (fun l => wordId l.1 l.2) := by
  unfold pageWordsOf
  rw [List.map_flatten, List.map_map]
  rfl

/-! ### projection of the output on one paragraph -/

theorem paraWords_disjoint (p q : Nat × Nat) (h : q.1 ≠ p.1) : ∀ w ∈ paraWords q, w ∉ paraWords p := by
  intro w hq hp
  simp only [paraWords, List.mem_map, List.mem_range] at hq hp
  obtain ⟨i, _, rfl⟩ := hq
  obtain ⟨j, _, hj⟩ := hp
  exact h (wordId_inj _ _ _ _ hj).1.symm

theorem project_para (L : List (Nat × Nat)) (hnd : (L.map Prod.fst).Nodup) (p : Nat × Nat) (hp : p ∈ L) :
    Trace.project (paraWords p) (L.map paraWords).flatten = paraWords p := by
  unfold Trace.project
  induction L with
  | nil => cases hp
  | cons q L ih =>
    simp only [List.map_cons, List.nodup_cons] at hnd
    simp only [List.map_cons, List.flatten_cons, List.filter_append]
    have hrest : ∀ L' : List (Nat × Nat), (∀ r ∈ L', r.1 ≠ p.1) →
        (L'.map paraWords).flatten.filter (fun w => (paraWords p).contains w) = [] := by
      intro L' hL'
      rw [List.filter_eq_nil_iff]
      intro w hw
      simp only [List.mem_flatten, List.mem_map] at hw
      obtain ⟨ws, ⟨r, hr, rfl⟩, hw⟩ := hw
      have := paraWords_disjoint p r (hL' r hr) w hw
      simpa using this
    rcases List.mem_cons.mp hp with rfl | hpL
    · have h1 : (paraWords p).filter (fun w => (paraWords p).contains w) = paraWords p := by
        rw [List.filter_eq_self]; intro w hw; simpa using hw
      rw [h1, hrest L (by
        intro r hr he
        exact hnd.1 (by rw [← he]; exact List.mem_map_of_mem hr)), List.append_nil]
    · have hq : q.1 ≠ p.1 := by
        intro he
        exact hnd.1 (by rw [he]; exact List.mem_map_of_mem hpL)
      have h1 : (paraWords q).filter (fun w => (paraWords p).contains w) = [] := by
        rw [List.filter_eq_nil_iff]
        intro w hw
        have := paraWords_disjoint p q hq w hw
        simpa using this
      rw [h1, List.nil_append]
      exact ih hnd.2 hpL

theorem project_self (ws : List Nat) : Trace.project ws ws = ws := by
  unfold Trace.project
  rw [List.filter_eq_self]
  intro w hw
  simpa using hw

/-- The checker reports nothing iff every group is accepted (converse of `C01Trace.badGroups_nil`). -/
theorem badGroups_eq_nil_of (gs : List Trace.Group) (pages : List (List Nat))
    (h : ∀ g ∈ gs, Trace.groupOk g pages.flatten = true) : Trace.badGroups gs pages = [] := by
  unfold Trace.badGroups
  simp only [List.map_eq_nil_iff, List.filter_eq_nil_iff]
  intro x hx
  have := h x.1 (List.fst_mem_of_mem_zipIdx hx)
  simp [this]

end Wp.PM
