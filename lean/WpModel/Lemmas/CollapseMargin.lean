/-
Laws of `collapse_margin` (`collapseMargin`): largest non-negative + smallest non-positive margin, seeds 0.
-/
import WpModel.Model.Paginate
namespace Wp.PM
open Wp

/-- The largest non-negative margin (0 when there is none). -/
def maxPos (ms : List Rat) : Rat := ms.foldl max 0
/-- The smallest non-positive margin (0 when there is none). -/
def minNeg (ms : List Rat) : Rat := ms.foldl min 0

private theorem foldl_pos_eq (ms : List Rat) (a : Rat) (ha : 0 ≤ a) :
    ms.foldl (fun a m => if m ≥ 0 ∧ m > a then m else a) a = ms.foldl max a := by
  induction ms generalizing a with
  | nil => rfl
  | cons m ms ih =>
    simp only [List.foldl_cons]
    have : (if m ≥ 0 ∧ m > a then m else a) = max a m := by split <;> grind
    rw [this]
    exact ih _ (by grind)

private theorem foldl_neg_eq (ms : List Rat) (a : Rat) (ha : a ≤ 0) :
    ms.foldl (fun a m => if m ≤ 0 ∧ m < a then m else a) a = ms.foldl min a := by
  induction ms generalizing a with
  | nil => rfl
  | cons m ms ih =>
    simp only [List.foldl_cons]
    have : (if m ≤ 0 ∧ m < a then m else a) = min a m := by split <;> grind
    rw [this]
    exact ih _ (by grind)

/-- `collapse_margin` = largest non-negative margin + smallest non-positive margin. -/
theorem collapseMargin_eq (ms : List Rat) : collapseMargin ms = maxPos ms + minNeg ms := by
  unfold collapseMargin maxPos minNeg
  simp only
  rw [foldl_pos_eq _ _ Rat.le_refl, foldl_neg_eq _ _ Rat.le_refl]

theorem foldl_max_seed (ms : List Rat) (a : Rat) (ha : 0 ≤ a) : ms.foldl max a = max a (maxPos ms) := by
  unfold maxPos
  induction ms generalizing a with
  | nil => simp; grind
  | cons m ms ih =>
    simp only [List.foldl_cons]
    rw [ih (max a m) (by grind), ih (max 0 m) (by grind)]
    grind

theorem foldl_min_seed (ms : List Rat) (a : Rat) (ha : a ≤ 0) : ms.foldl min a = min a (minNeg ms) := by
  unfold minNeg
  induction ms generalizing a with
  | nil => simp; grind
  | cons m ms ih =>
    simp only [List.foldl_cons]
    rw [ih (min a m) (by grind), ih (min 0 m) (by grind)]
    grind

theorem maxPos_nonneg (ms : List Rat) : 0 ≤ maxPos ms := by
  induction ms with
  | nil => simp [maxPos]
  | cons m ms ih =>
    unfold maxPos; simp only [List.foldl_cons]
    rw [foldl_max_seed _ _ (by grind)]; grind

theorem minNeg_nonpos (ms : List Rat) : minNeg ms ≤ 0 := by
  induction ms with
  | nil => simp [minNeg]
  | cons m ms ih =>
    unfold minNeg; simp only [List.foldl_cons]
    rw [foldl_min_seed _ _ (by grind)]; grind

@[simp] theorem maxPos_nil : maxPos [] = 0 := rfl
@[simp] theorem minNeg_nil : minNeg [] = 0 := rfl

theorem maxPos_cons (m : Rat) (ms : List Rat) : maxPos (m :: ms) = max (max 0 m) (maxPos ms) := by
  unfold maxPos; simp only [List.foldl_cons]
  exact foldl_max_seed ms _ (by grind)

theorem minNeg_cons (m : Rat) (ms : List Rat) : minNeg (m :: ms) = min (min 0 m) (minNeg ms) := by
  unfold minNeg; simp only [List.foldl_cons]
  exact foldl_min_seed ms _ (by grind)

theorem maxPos_append (a b : List Rat) : maxPos (a ++ b) = max (maxPos a) (maxPos b) := by
  induction a with
  | nil => have := maxPos_nonneg b; simp; grind
  | cons m a ih => simp only [List.cons_append, maxPos_cons, ih]; grind

theorem minNeg_append (a b : List Rat) : minNeg (a ++ b) = min (minNeg a) (minNeg b) := by
  induction a with
  | nil => have := minNeg_nonpos b; simp; grind
  | cons m a ih => simp only [List.cons_append, minNeg_cons, ih]; grind

/-- `collapse_margin` of two lists joined, from their extrema. -/
theorem collapseMargin_append (a b : List Rat) :
    collapseMargin (a ++ b) = max (maxPos a) (maxPos b) + min (minNeg a) (minNeg b) := by
  rw [collapseMargin_eq, maxPos_append, minNeg_append]

theorem maxPos_perm {a b : List Rat} (h : a.Perm b) : maxPos a = maxPos b := by
  induction h with
  | nil => rfl
  | cons x _ ih => simp only [maxPos_cons, ih]
  | swap x y l => simp only [maxPos_cons]; grind
  | trans _ _ ih1 ih2 => rw [ih1, ih2]

theorem minNeg_perm {a b : List Rat} (h : a.Perm b) : minNeg a = minNeg b := by
  induction h with
  | nil => rfl
  | cons x _ ih => simp only [minNeg_cons, ih]
  | swap x y l => simp only [minNeg_cons]; grind
  | trans _ _ ih1 ih2 => rw [ih1, ih2]

/-- The order of the adjoining margins does not matter. -/
theorem collapseMargin_perm {a b : List Rat} (h : a.Perm b) : collapseMargin a = collapseMargin b := by
  rw [collapseMargin_eq, collapseMargin_eq, maxPos_perm h, minNeg_perm h]

theorem maxPos_ge (ms : List Rat) : ∀ m ∈ ms, m ≤ maxPos ms := by
  induction ms with
  | nil => intro m hm; cases hm
  | cons x ms ih =>
    intro m hm
    rw [maxPos_cons]
    rcases List.mem_cons.mp hm with rfl | hm
    · grind
    · have := ih m hm; grind

theorem minNeg_le (ms : List Rat) : ∀ m ∈ ms, minNeg ms ≤ m := by
  induction ms with
  | nil => intro m hm; cases hm
  | cons x ms ih =>
    intro m hm
    rw [minNeg_cons]
    rcases List.mem_cons.mp hm with rfl | hm
    · grind
    · have := ih m hm; grind

theorem maxPos_mem (ms : List Rat) : maxPos ms = 0 ∨ maxPos ms ∈ ms := by
  induction ms with
  | nil => left; rfl
  | cons x ms ih =>
    rw [maxPos_cons]
    have h0 := maxPos_nonneg ms
    by_cases h1 : maxPos ms ≥ max 0 x
    · have : max (max 0 x) (maxPos ms) = maxPos ms := by grind
      rw [this]
      rcases ih with h | h
      · left; exact h
      · right; exact List.mem_cons_of_mem _ h
    · have : max (max 0 x) (maxPos ms) = max 0 x := by grind
      rw [this]
      by_cases hx : 0 ≤ x
      · right; have : max 0 x = x := by grind
        rw [this]; exact List.mem_cons_self
      · left; grind

theorem minNeg_mem (ms : List Rat) : minNeg ms = 0 ∨ minNeg ms ∈ ms := by
  induction ms with
  | nil => left; rfl
  | cons x ms ih =>
    rw [minNeg_cons]
    have h0 := minNeg_nonpos ms
    by_cases h1 : minNeg ms ≤ min 0 x
    · have : min (min 0 x) (minNeg ms) = minNeg ms := by grind
      rw [this]
      rcases ih with h | h
      · left; exact h
      · right; exact List.mem_cons_of_mem _ h
    · have : min (min 0 x) (minNeg ms) = min 0 x := by grind
      rw [this]
      by_cases hx : x ≤ 0
      · right; have : min 0 x = x := by grind
        rw [this]; exact List.mem_cons_self
      · left; grind

theorem minNeg_of_nonneg (ms : List Rat) (h : ∀ m ∈ ms, 0 ≤ m) : minNeg ms = 0 := by
  rcases minNeg_mem ms with h1 | h1
  · exact h1
  · have := h _ h1; have := minNeg_nonpos ms; grind

theorem maxPos_of_nonpos (ms : List Rat) (h : ∀ m ∈ ms, m ≤ 0) : maxPos ms = 0 := by
  rcases maxPos_mem ms with h1 | h1
  · exact h1
  · have := h _ h1; have := maxPos_nonneg ms; grind

/-- Only non-negative margins: the collapsed margin is the largest one. -/
theorem collapseMargin_of_nonneg (ms : List Rat) (h : ∀ m ∈ ms, 0 ≤ m) : collapseMargin ms = maxPos ms := by
  rw [collapseMargin_eq, minNeg_of_nonneg ms h]; grind

/-- Only non-positive margins: the collapsed margin is the smallest (most negative) one. -/
theorem collapseMargin_of_nonpos (ms : List Rat) (h : ∀ m ∈ ms, m ≤ 0) : collapseMargin ms = minNeg ms := by
  rw [collapseMargin_eq, maxPos_of_nonpos ms h]; grind

theorem collapseMargin_nonneg (ms : List Rat) (h : ∀ m ∈ ms, 0 ≤ m) : 0 ≤ collapseMargin ms := by
  rw [collapseMargin_of_nonneg ms h]; exact maxPos_nonneg ms

@[simp] theorem collapseMargin_nil : collapseMargin [] = 0 := by
  rw [collapseMargin_eq]; simp only [maxPos_nil, minNeg_nil]; grind

theorem collapseMargin_singleton (m : Rat) : collapseMargin [m] = m := by
  rw [collapseMargin_eq, maxPos_cons, minNeg_cons]; simp; grind

end Wp.PM
