/-
C17 helper development (no Mathlib): `StackingContext.__init__` — the three-way split is three
filters, the model of `list.sort(key=z_index)` is a stable sort.
-/
import WpModel.Model.Stacking

set_option linter.unusedSimpArgs false

namespace Wp.Stacking
open Wp

theorem splitZ_foldl (l : List Node) (a b c : List Node) :
    l.foldl
      (fun (acc : List Node × List Node × List Node) c =>
        if c.zIndex < 0 then (acc.1 ++ [c], acc.2.1, acc.2.2)
        else if c.zIndex = 0 then (acc.1, acc.2.1 ++ [c], acc.2.2)
        else (acc.1, acc.2.1, acc.2.2 ++ [c]))
      (a, b, c) =
    (a ++ l.filter (fun n => decide (n.zIndex < 0)), b ++ l.filter (fun n => decide (n.zIndex = 0)),
     c ++ l.filter (fun n => decide (0 < n.zIndex))) := by
  induction l generalizing a b c with
  | nil => simp
  | cons x xs ih =>
    simp only [List.foldl_cons]
    by_cases h1 : x.zIndex < 0
    · have h2 : ¬ x.zIndex = 0 := by omega
      have h3 : ¬ 0 < x.zIndex := by omega
      simp [h1, h2, h3, ih]
    · by_cases h2 : x.zIndex = 0
      · have h3 : ¬ 0 < x.zIndex := by omega
        simp [h1, h2, h3, ih]
      · have h3 : 0 < x.zIndex := by omega
        simp [h1, h2, h3, ih]

/-- The loop of `__init__` is three filters (tree order kept in each). -/
theorem splitZ_eq (l : List Node) :
    splitZ l = (l.filter (fun n => decide (n.zIndex < 0)), l.filter (fun n => decide (n.zIndex = 0)),
                l.filter (fun n => decide (0 < n.zIndex))) := by
  have := splitZ_foldl l [] [] []
  simpa [splitZ] using this

theorem insertZ_perm (x : Node) (l : List Node) : (insertZ x l).Perm (x :: l) := by
  induction l with
  | nil => exact List.Perm.refl _
  | cons y ys ih =>
    unfold insertZ
    split
    · exact List.Perm.refl _
    · exact (List.Perm.cons y ih).trans (List.Perm.swap x y ys)

theorem sortZ_perm (l : List Node) : (sortZ l).Perm l := by
  induction l with
  | nil => exact List.Perm.refl _
  | cons x xs ih =>
    show (insertZ x (sortZ xs)).Perm (x :: xs)
    exact (insertZ_perm x _).trans (List.Perm.cons x ih)

theorem mem_insertZ {x y : Node} {l : List Node} : y ∈ insertZ x l ↔ y = x ∨ y ∈ l := by
  rw [(insertZ_perm x l).mem_iff]; simp

theorem insertZ_sorted (x : Node) (l : List Node)
    (h : l.Pairwise (fun a b => a.zIndex ≤ b.zIndex)) :
    (insertZ x l).Pairwise (fun a b => a.zIndex ≤ b.zIndex) := by
  induction l with
  | nil => simp [insertZ]
  | cons y ys ih =>
    unfold insertZ
    have hy := List.pairwise_cons.mp h
    split
    · rename_i hxy
      refine List.pairwise_cons.mpr ⟨?_, h⟩
      intro z hz
      rcases List.mem_cons.mp hz with rfl | hz
      · exact hxy
      · exact Int.le_trans hxy (hy.1 z hz)
    · rename_i hxy
      refine List.pairwise_cons.mpr ⟨?_, ih hy.2⟩
      intro z hz
      rcases mem_insertZ.mp hz with rfl | hz
      · omega
      · exact hy.1 z hz

/-- The result of the sort is ordered by z-index. -/
theorem sortZ_sorted (l : List Node) : (sortZ l).Pairwise (fun a b => a.zIndex ≤ b.zIndex) := by
  induction l with
  | nil => simp [sortZ]
  | cons x xs ih => exact insertZ_sorted x _ ih

theorem insertZ_filter (k : Int) (x : Node) (l : List Node) :
    (insertZ x l).filter (fun n => decide (n.zIndex = k)) =
      (x :: l).filter (fun n => decide (n.zIndex = k)) := by
  induction l with
  | nil => rfl
  | cons y ys ih =>
    unfold insertZ
    split
    · rfl
    · rename_i hxy
      rw [List.filter_cons, ih]
      by_cases hx : x.zIndex = k
      · have hyk : ¬ y.zIndex = k := by omega
        simp [List.filter_cons, hx, hyk]
      · by_cases hyk : y.zIndex = k <;> simp [List.filter_cons, hx, hyk]

/-- The sort is stable: among the contexts of one z-index the original (tree) order is kept. -/
theorem sortZ_stable (k : Int) (l : List Node) :
    (sortZ l).filter (fun n => decide (n.zIndex = k)) = l.filter (fun n => decide (n.zIndex = k)) := by
  induction l with
  | nil => rfl
  | cons x xs ih =>
    show (insertZ x (sortZ xs)).filter _ = _
    rw [insertZ_filter, List.filter_cons, List.filter_cons, ih]

end Wp.Stacking
